/* vrt.c — verification runtime: our own implementation of the TSan ABI, a
 * baton-passing deterministic scheduler, a cell registry and an event log.
 *
 * /repo sources are compiled with -fsanitize=thread (no source edit) and
 * linked against THIS file instead of libtsan.  Every plain access calls
 * __tsan_{read,write}N(addr); every C11 atomic / __sync builtin becomes a call
 * __tsan_atomicN_<op>(addr, ...) that we perform ourselves.  Accesses to
 * registered cells are scheduling points (SPs) and are logged.
 *
 * Determinism: exactly one kernel thread runs at a time (the baton holder);
 * all choices come from one PRNG seeded by VR_SEED.
 */
#define _GNU_SOURCE
#include "vrt.h"

#include <dlfcn.h>
#include <elf.h>
#include <errno.h>
#include <fcntl.h>
#include <limits.h>
#include <linux/futex.h>
#include <pthread.h>
#include <stdarg.h>
#include <stdatomic.h>
#include <stdio.h>
#include <stdlib.h>
#include <string.h>
#include <sys/epoll.h>
#include <sys/eventfd.h>
#include <sys/mman.h>
#include <sys/stat.h>
#include <sys/syscall.h>
#include <sys/timerfd.h>
#include <unistd.h>

#define MAXT 16
static long maxfib = 4096; /* VR_MAXFIB: scale harnesses create tens of thousands of fibers */
#define SHDEPTH 128

/* ------------------------------------------------------------------ state */

typedef struct vfiber {
  int id;
  int depth;
  int alive;
  void* pcs[SHDEPTH];
} vfiber_t;

enum { K_R, K_W, K_LD, K_ST, K_XCHG, K_FADD, K_FSUB, K_FAND, K_FOR, K_FXOR, K_CAS, K_CAS2, K_FENCE, K_NOTE, K_SWITCH, K_FCREATE, K_FDESTROY, K_RELAX, K_RQPUSH, K_RQPOP, K_RQSTEAL };
static const char* kname[] = {"r", "w", "ld", "st", "xchg", "fadd", "fsub", "fand", "for", "fxor", "cas", "cas2", "fence", "note", "switch", "fcreate", "fdestroy", "relax", "rqpush", "rqpop", "rqsteal"};

typedef struct ev {
  uint8_t tid, kind, size, ok;
  uint16_t fiber, off;
  int32_t cell;
  void* pc;
  uint64_t a, b, c, d;
  char* note;
} ev_t;

typedef struct cell {
  uintptr_t lo, hi;
  char name[40];
  int live;
  size_t born, died; /* event-log positions between which this object owned the address range */
} cell_t;

static ev_t* evs;
static size_t nev, maxev = 1u << 20;
static cell_t* cells;
static int ncell, maxcell = 1 << 16;
static cell_t* objs;
static int nobj, maxobj = 1 << 16;

/* word-granular hash: (addr>>3) -> cell index+1 */
#define HBITS 18
static int32_t* htab_key_cell; /* cell idx + 1 */
static uintptr_t* htab_key;

static _Atomic int turn = 0;
static int tstate[MAXT]; /* 0 unused 1 runnable 2 finished */
static int nthreads = 1;
/* spinning: a thread that hit a spin point stays "spinning" until some OTHER thread makes
 * progress (its own writes / fiber switches do not count: a thread ping-ponging between two
 * polling fibers is still only polling) */
static uint64_t spin_epoch[MAXT];
static uint64_t unreg_run[MAXT]; /* plain accesses to unregistered memory since the last scheduling point */
#define UNREG_LIMIT 2000000
#define UNREG_HITS 25
static uint64_t unreg_hits[MAXT], unreg_keep[MAXT];
static uint64_t epoch = 1;
static uint64_t own_progress[MAXT];
#define PROGRESS() do { epoch++; if (my_tid >= 0) own_progress[my_tid]++; } while (0)
#define OTHERS(t) (epoch - own_progress[t])
static uint64_t frozen_until[MAXT];
static int prio[MAXT];
static __thread int my_tid = -1;
static vfiber_t* fibers;
static int nfib;
static __thread vfiber_t* cur_fiber;
static vfiber_t* thread_fiber[MAXT];
static int pend[MAXT]; /* index of a plain-write event awaiting its value, or -1 */
static void* pend_addr[MAXT];

static uint64_t sp_count, budget = 400000, allspin_streak, hang_limit = 30000;
static uint64_t rng;
static uint64_t last_run[MAXT];
static uint64_t starve_limit = 2500;
static int boost_tid = -1;
/* directed schedules: VR_STALL_FUNC=<function> freezes the running thread for VR_STALL_LEN
 * scheduling points right after a write/RMW performed inside that function (each occurrence
 * with probability 1/VR_STALL_DEN) - "park the suspending fiber inside its publication window
 * and let everybody else run" */
static uintptr_t stall_lo, stall_hi;
static uint64_t stall_len = 200;
static int stall_den = 2;
/* idle_flag[t]: kernel thread t's last observable action was an epoll_wait that found nothing */
static int idle_flag[MAXT];
static uint64_t boost_until;
static uint64_t ro_streak[MAXT];
static uint64_t ro_limit = 48;
static int sched_kind; /* 0 rand 1 pct 2 freeze 3 rr(no preempt) */
static int switch_den = 3, freeze_den = 40, freeze_len = 600;
static uint64_t pct_points[8];
static int pct_n;
static int inited, finished_flag, done_flag;
static __thread int in_rt;
static int vtimer_fd = -1;
static int idle_ticks_pending;
static uint64_t idle_streak;
static int auto_tick = 1;

static int (*real_pthread_create)(pthread_t*, const pthread_attr_t*, void* (*)(void*), void*);
static int (*real_pthread_join)(pthread_t, void**);
static int (*real_epoll_wait)(int, struct epoll_event*, int, int);

/* ------------------------------------------------------------------ util */

static uint64_t xs(void) {
  rng ^= rng << 13;
  rng ^= rng >> 7;
  rng ^= rng << 17;
  return rng;
}
uint64_t vr_rand(void) { return xs(); }
uint64_t vr_sp_count(void) { return sp_count; }
int vr_tid(void) { return my_tid; }
int vr_fiber(void) { return cur_fiber ? cur_fiber->id : -1; }
void vr_set_done(void) { done_flag = 1; }

static long envl(const char* n, long d) {
  const char* s = getenv(n);
  return s && *s ? atol(s) : d;
}

/* The runtime must be invisible to the code under test: a scheduling point sits behind every
 * instrumented access, also between a failing system call and the caller's look at errno
 * (FUTEX_WAIT returns EAGAIN whenever the baton moved first) - errno is preserved. */
static void futex_wait(_Atomic int* a, int v) {
  const int e = errno;
  syscall(SYS_futex, a, FUTEX_WAIT, v, NULL, NULL, 0);
  errno = e;
}
static void futex_wake(_Atomic int* a) {
  const int e = errno;
  syscall(SYS_futex, a, FUTEX_WAKE, INT_MAX, NULL, NULL, 0);
  errno = e;
}

static void wait_turn(int me) {
  int t;
  while ((t = atomic_load(&turn)) != me) futex_wait(&turn, t);
}
static void give(int to) {
  atomic_store(&turn, to);
  futex_wake(&turn);
}

typedef struct sym {
  uintptr_t lo, hi;
  const char* name;
} sym_t;
static sym_t* syms;
static int nsym;
static void load_syms(void);
static void vr_init(void) {
  if (inited) return;
  inited = 1;
  real_pthread_create = dlsym(RTLD_NEXT, "pthread_create");
  real_pthread_join = dlsym(RTLD_NEXT, "pthread_join");
  real_epoll_wait = dlsym(RTLD_NEXT, "epoll_wait");
  maxev = envl("VR_MAXEV", maxev);
  evs = mmap(0, maxev * sizeof(ev_t), PROT_READ | PROT_WRITE, MAP_PRIVATE | MAP_ANONYMOUS | MAP_NORESERVE, -1, 0);
  cells = calloc(maxcell, sizeof(cell_t));
  objs = calloc(maxobj, sizeof(cell_t));
  htab_key = calloc(1u << HBITS, sizeof(uintptr_t));
  htab_key_cell = calloc(1u << HBITS, sizeof(int32_t));
  maxfib = envl("VR_MAXFIB", maxfib);
  fibers = calloc(maxfib, sizeof(vfiber_t));
  rng = (uint64_t)envl("VR_SEED", 1) * 0x9E3779B97F4A7C15ull + 0x1234567;
  if (!rng) rng = 1;
  for (int i = 0; i < 8; i++) xs();
  budget = envl("VR_BUDGET", budget);
  hang_limit = envl("VR_HANG", hang_limit);
  switch_den = envl("VR_SWITCH", switch_den);
  freeze_den = envl("VR_FREEZE_DEN", freeze_den);
  freeze_len = envl("VR_FREEZE_LEN", freeze_len);
  auto_tick = envl("VR_AUTOTICK", 1);
  ro_limit = envl("VR_ROSPIN", ro_limit);
  starve_limit = envl("VR_STARVE", starve_limit);
  {
    const char* sf = getenv("VR_STALL_FUNC");
    if (sf && *sf) {
      load_syms();
      for (int i = 0; i < nsym; i++)
        if (!strcmp(syms[i].name, sf)) {
          stall_lo = syms[i].lo;
          stall_hi = syms[i].hi;
        }
      stall_len = envl("VR_STALL_LEN", stall_len);
      stall_den = envl("VR_STALL_DEN", stall_den);
      if (stall_den < 1) stall_den = 1;
    }
  }
  const char* sk = getenv("VR_SCHED");
  if (sk && !strcmp(sk, "pct")) sched_kind = 1;
  else if (sk && !strcmp(sk, "freeze")) sched_kind = 2;
  else if (sk && !strcmp(sk, "rr")) sched_kind = 3;
  if (sched_kind == 1) {
    pct_n = envl("VR_PCT_D", 2);
    if (pct_n > 8) pct_n = 8;
    long est = envl("VR_PCT_LEN", 400);
    for (int i = 0; i < pct_n; i++) pct_points[i] = xs() % est;
    for (int i = 0; i < MAXT; i++) prio[i] = 1000 + (int)(xs() % 1000);
  }
  for (int i = 0; i < MAXT; i++) pend[i] = -1;
  /* fiber ids 0..MAXT-1 are reserved for the kernel threads' own contexts */
  for (int i = 0; i < MAXT; i++) {
    fibers[i].id = i;
    fibers[i].alive = 1;
    thread_fiber[i] = &fibers[i];
  }
  nfib = MAXT;
  my_tid = 0;
  tstate[0] = 1;
  cur_fiber = &fibers[0];
  atomic_store(&turn, 0);
}

/* ------------------------------------------------------------------ registry */

static inline unsigned hslot(uintptr_t w) { return (unsigned)((w * 0x9E3779B97F4A7C15ull) >> (64 - HBITS)); }

static void hput(uintptr_t w, int cellidx) {
  unsigned s = hslot(w);
  while (htab_key[s] && htab_key[s] != w) s = (s + 1) & ((1u << HBITS) - 1);
  htab_key[s] = w;
  htab_key_cell[s] = cellidx + 1;
}
static inline int hget(uintptr_t w) {
  unsigned s = hslot(w);
  while (htab_key[s]) {
    if (htab_key[s] == w) return htab_key_cell[s] - 1;
    s = (s + 1) & ((1u << HBITS) - 1);
  }
  return -1;
}

void vr_reg(const volatile void* addr, size_t size, const char* fmt, ...) {
  vr_init();
  if (ncell >= maxcell) return;
  cell_t* c = &cells[ncell];
  c->lo = (uintptr_t)addr;
  c->hi = c->lo + size;
  c->live = 1;
  va_list ap;
  va_start(ap, fmt);
  vsnprintf(c->name, sizeof c->name, fmt, ap);
  va_end(ap);
  for (uintptr_t w = c->lo >> 3; w <= (c->hi - 1) >> 3; w++) hput(w, ncell);
  ncell++;
}

void vr_obj(const volatile void* addr, size_t size, const char* fmt, ...) {
  vr_init();
  if (nobj >= maxobj) return;
  cell_t* c = &objs[nobj++];
  c->lo = (uintptr_t)addr;
  c->hi = c->lo + size;
  c->live = 1;
  c->born = 0; /* names apply to the whole log unless the block is freed ... */
  for (int i = 0; i < nobj - 1; i++)
    if (!objs[i].live && objs[i].lo < c->hi && c->lo < objs[i].hi) c->born = nev; /* ... or reused */
  c->died = (size_t)-1;
  va_list ap;
  va_start(ap, fmt);
  vsnprintf(c->name, sizeof c->name, fmt, ap);
  va_end(ap);
}

void vr_forget(const volatile void* addr, size_t size) {
  uintptr_t lo = (uintptr_t)addr, hi = lo + size;
  for (int i = 0; i < ncell; i++)
    if (cells[i].live && cells[i].lo < hi && lo < cells[i].hi) {
      cells[i].live = 0;
      for (uintptr_t w = cells[i].lo >> 3; w <= (cells[i].hi - 1) >> 3; w++)
        if (hget(w) == i) hput(w, -1);
    }
  for (int i = 0; i < nobj; i++)
    if (objs[i].live && objs[i].lo < hi && lo < objs[i].hi) objs[i].live = 0;
}

/* Memory handed back to the allocator must leave the registry: the next owner of the block
 * (e.g. hazard_pointer_scan's plist landing on a destroyed fiber's queue node) is not the
 * registered object any more.  free() is interposed for that; the real work is __libc_free. */
extern void __libc_free(void*);
extern size_t malloc_usable_size(void*);
static _Atomic int reg_lock;
__attribute__((weak)) void free(void* p) { /* weak: a harness may bring its own (quarantining) free */
  if (p && inited && ncell) {
    while (atomic_exchange(&reg_lock, 1)) {
    }
    uintptr_t lo = (uintptr_t)p, hi = lo + malloc_usable_size(p);
    int any = 0;
    for (uintptr_t w = lo >> 3; w <= (hi - 1) >> 3; w++) {
      int c = hget(w);
      if (c >= 0 && cells[c].live && cells[c].lo >= lo && cells[c].hi <= hi) {
        cells[c].live = 0;
        hput(w, -1);
        any = 1;
      }
    }
    if (any)
      for (int i = 0; i < nobj; i++)
        if (objs[i].live && objs[i].lo >= lo && objs[i].hi <= hi) {
          objs[i].live = 0;
          objs[i].died = nev;
        }
    atomic_store(&reg_lock, 0);
  }
  __libc_free(p);
}

static inline int find_cell(uintptr_t a, int size) {
  int c = hget(a >> 3);
  if (c < 0) return -1;
  if (a >= cells[c].lo && a + size <= cells[c].hi && cells[c].live) return c;
  return -1;
}

/* ------------------------------------------------------------------ log output */

static int symcmp(const void* a, const void* b) {
  uintptr_t x = ((const sym_t*)a)->lo, y = ((const sym_t*)b)->lo;
  return x < y ? -1 : x > y;
}
static void load_syms(void) {
  if (syms) return;
  int fd = open("/proc/self/exe", O_RDONLY);
  if (fd < 0) return;
  struct stat st;
  fstat(fd, &st);
  char* m = mmap(0, st.st_size, PROT_READ, MAP_PRIVATE, fd, 0);
  if (m == MAP_FAILED) return;
  Elf64_Ehdr* eh = (Elf64_Ehdr*)m;
  Elf64_Shdr* sh = (Elf64_Shdr*)(m + eh->e_shoff);
  for (int i = 0; i < eh->e_shnum; i++)
    if (sh[i].sh_type == SHT_SYMTAB) {
      Elf64_Sym* s = (Elf64_Sym*)(m + sh[i].sh_offset);
      int n = sh[i].sh_size / sizeof(Elf64_Sym);
      const char* str = m + sh[sh[i].sh_link].sh_offset;
      syms = calloc(n, sizeof(sym_t));
      for (int k = 0; k < n; k++)
        if (ELF64_ST_TYPE(s[k].st_info) == STT_FUNC && s[k].st_value) {
          syms[nsym].lo = s[k].st_value;
          syms[nsym].hi = s[k].st_value + (s[k].st_size ? s[k].st_size : 1);
          syms[nsym].name = str + s[k].st_name;
          nsym++;
        }
    }
  qsort(syms, nsym, sizeof(sym_t), symcmp);
}
static const char* symname(void* pc) {
  uintptr_t p = (uintptr_t)pc;
  int lo = 0, hi = nsym - 1;
  while (lo <= hi) {
    int mid = (lo + hi) / 2;
    if (p < syms[mid].lo) hi = mid - 1;
    else if (p >= syms[mid].hi) lo = mid + 1;
    else return syms[mid].name;
  }
  return "?";
}

static size_t fmt_pos; /* log position of the event being formatted */
static int fmt_numeric; /* the cell being formatted holds numbers, never pointers (VR_NUMCELLS) */
/* VR_NUMCELLS=name,name,...: cells whose values are plain numbers.  A state word or counter whose
 * value happens to fall inside the address range of a registered object (a thousand fibers spread
 * over hundreds of megabytes of heap) must not be printed as a pointer into that object. */
static int cell_is_numeric(const char* name) {
  static const char* list;
  if (!list) {
    list = getenv("VR_NUMCELLS");
    if (!list) list = "";
  }
  size_t l = strlen(name);
  for (const char* p = list; *p;) {
    const char* e = strchr(p, ',');
    size_t n = e ? (size_t)(e - p) : strlen(p);
    if (n == l && !memcmp(p, name, n)) return 1;
    p += n + (e ? 1 : 0);
  }
  return 0;
}
/* VR_BIAS=<name suffix>:<k>: the values of plain / atomic loads and stores of every cell whose
 * name ends with the suffix are printed PLUS k.  The queue harnesses store the payload word
 * (v - k) for abstract item v, so that item k travels through the real code as a NULL payload
 * while the model, to which payloads are opaque (compared for equality only), keeps seeing v. */
static long cell_bias(const char* name) {
  static const char* spec;
  static size_t slen;
  static long k;
  if (!spec) {
    spec = getenv("VR_BIAS");
    if (!spec) spec = "";
    const char* c = strrchr(spec, ':');
    if (c) {
      slen = (size_t)(c - spec);
      k = atol(c + 1);
    }
  }
  if (!k) return 0;
  size_t l = strlen(name);
  if (l < slen || memcmp(name + l - slen, spec, slen)) return 0;
  return k;
}
static void fmtval(char* out, size_t n, uint64_t v) {
  if (v >= 4096 && !fmt_numeric) {
    for (int i = nobj - 1; i >= 0; i--)
      if (v >= objs[i].lo && v < objs[i].hi && objs[i].born <= fmt_pos && fmt_pos < objs[i].died) {
        if (v == objs[i].lo) snprintf(out, n, "@%s", objs[i].name);
        else snprintf(out, n, "@%s+%lu", objs[i].name, (unsigned long)(v - objs[i].lo));
        return;
      }
  }
  if (v >= 0xffffffff00000000ull) snprintf(out, n, "%ld", (long)v);
  else snprintf(out, n, "%lu", (unsigned long)v);
}

static void complete_pending(int t) {
  int i = pend[t];
  if (i < 0) return;
  pend[t] = -1;
  uint64_t v = 0;
  memcpy(&v, pend_addr[t], evs[i].size);
  evs[i].a = v;
}

static void dump_log(const char* status) {
  for (int t = 0; t < MAXT; t++) complete_pending(t);
  load_syms();
  const char* path = getenv("VR_LOG");
  FILE* f = path && *path ? fopen(path, "w") : stdout;
  if (!f) f = stdout;
  char a[64], b[64], c[64], d[64], cn[64];
  for (size_t i = 0; i < nev; i++) {
    ev_t* e = &evs[i];
    fmt_pos = i;
    const char* fn = symname(e->pc);
    if (e->kind == K_NOTE) {
      fprintf(f, "%d %d %s note %s\n", e->tid, e->fiber, fn, e->note);
      continue;
    }
    if (e->cell >= 0) {
      if (e->off) snprintf(cn, sizeof cn, "%s+%d", cells[e->cell].name, e->off);
      else snprintf(cn, sizeof cn, "%s", cells[e->cell].name);
      if (e->size != cells[e->cell].hi - cells[e->cell].lo) {
        size_t l = strlen(cn);
        snprintf(cn + l, sizeof cn - l, "/%d", e->size);
      }
    } else
      strcpy(cn, "-");
    fmt_numeric = e->cell >= 0 && cell_is_numeric(cells[e->cell].name);
    long bias = e->cell >= 0 && (e->kind == K_R || e->kind == K_W || e->kind == K_LD || e->kind == K_ST)
                    ? cell_bias(cells[e->cell].name) : 0;
    if (bias) fmt_numeric = 1;
    fmtval(a, sizeof a, e->a + (uint64_t)bias);
    fmtval(b, sizeof b, e->b);
    fmtval(c, sizeof c, e->c);
    fmtval(d, sizeof d, e->d);
    switch (e->kind) {
      case K_R: case K_W:
        fprintf(f, "%d %d %s %s %s %s\n", e->tid, e->fiber, fn, kname[e->kind], cn, a);
        break;
      case K_LD: case K_ST:
        /* a = value, d = memory order (0 relaxed 2 acquire 3 release 4 acq_rel 5 seq_cst) */
        fprintf(f, "%d %d %s %s %s %s mo%lu\n", e->tid, e->fiber, fn, kname[e->kind], cn, a, (unsigned long)e->d);
        break;
      case K_XCHG: case K_FADD: case K_FSUB: case K_FAND: case K_FOR: case K_FXOR:
        /* a = old value, b = operand */
        fprintf(f, "%d %d %s %s %s %s %s mo%lu\n", e->tid, e->fiber, fn, kname[e->kind], cn, a, b, (unsigned long)e->d);
        break;
      case K_CAS:
        /* a = value found, b = expected, c = desired, ok */
        fprintf(f, "%d %d %s cas %s %s %s %s %d mo%lu\n", e->tid, e->fiber, fn, cn, a, b, c, e->ok, (unsigned long)e->d);
        break;
      case K_CAS2:
        /* a,b = expected low/high ; c,d = new low/high ; ok */
        fprintf(f, "%d %d %s cas2 %s %s %s %s %s %d\n", e->tid, e->fiber, fn, cn, a, b, c, d, e->ok);
        break;
      case K_FENCE:
        fprintf(f, "%d %d %s fence %lu\n", e->tid, e->fiber, fn, (unsigned long)e->a);
        break;
      case K_SWITCH:
        fprintf(f, "%d %d %s switch %lu\n", e->tid, e->fiber, fn, (unsigned long)e->a);
        break;
      case K_RQPUSH: case K_RQPOP: case K_RQSTEAL:
        /* a = run queue (deque), b = fiber / -1 EMPTY / -2 ABORT */
        fprintf(f, "%d %d %s %s %s %s\n", e->tid, e->fiber, fn, kname[e->kind], a, b);
        break;
      case K_FCREATE: case K_FDESTROY: case K_RELAX:
        fprintf(f, "%d %d %s %s %lu\n", e->tid, e->fiber, fn, kname[e->kind], (unsigned long)e->a);
        break;
    }
  }
  fprintf(f, "# status %s sp %lu events %lu threads %d fibers %d\n", status, (unsigned long)sp_count, (unsigned long)nev, nthreads, nfib);
  fflush(f);
}

void vr_finish(const char* status) {
  if (finished_flag) {
    for (;;) pause();
  }
  finished_flag = 1;
  dump_log(status);
  _exit(strcmp(status, "OK") ? 3 : 0);
}

static inline ev_t* newev(int kind, int cell, uintptr_t addr, int size) {
  if (nev >= maxev) vr_finish("LOGFULL");
  if (my_tid >= 0) idle_flag[my_tid] = 0;
  ev_t* e = &evs[nev++];
  e->tid = my_tid;
  e->fiber = cur_fiber ? cur_fiber->id : 0;
  e->kind = kind;
  e->size = size;
  e->cell = cell;
  e->off = cell >= 0 ? (uint16_t)(addr - cells[cell].lo) : 0;
  e->pc = cur_fiber && cur_fiber->depth ? cur_fiber->pcs[(cur_fiber->depth - 1) < SHDEPTH ? cur_fiber->depth - 1 : SHDEPTH - 1] : 0;
  e->ok = 0;
  e->note = 0;
  return e;
}

void vr_note(const char* fmt, ...) {
  vr_init();
  if (my_tid < 0) return;
  complete_pending(my_tid);
  char buf[256];
  va_list ap;
  va_start(ap, fmt);
  vsnprintf(buf, sizeof buf, fmt, ap);
  va_end(ap);
  ev_t* e = newev(K_NOTE, -1, 0, 0);
  e->note = strdup(buf);
}

/* ------------------------------------------------------------------ scheduler */

static int is_spinning(int t) { return spin_epoch[t] == OTHERS(t); }

static int pick(int me, int spin) {
  int cand[MAXT], nc = 0, all[MAXT], na = 0;
  last_run[me] = sp_count;
  /* bounded unfairness: whatever the strategy, a runnable thread is never kept off the CPU for
   * more than starve_limit scheduling points (two threads that merely poll each other's
   * progress would otherwise starve a third one for ever under strict priorities) */
  if (boost_tid == me && sp_count < boost_until && tstate[me] == 1 && !spin) return me;
  for (int t = 0; t < nthreads; t++)
    if (t != me && tstate[t] == 1 && sp_count - last_run[t] > starve_limit) {
      last_run[t] = sp_count;
      /* and let it run for a stretch, not for one step */
      boost_tid = t;
      boost_until = sp_count + starve_limit / 8;
      return t;
    }
  for (int t = 0; t < nthreads; t++) {
    if (tstate[t] != 1 || t == me) continue;
    all[na++] = t;
    if (!is_spinning(t) && frozen_until[t] <= sp_count) cand[nc++] = t;
  }
  if (na == 0) return me;
  int me_ok = !spin && frozen_until[me] <= sp_count && tstate[me] == 1;
  if (sched_kind == 1) { /* PCT: highest priority among eligible */
    for (int i = 0; i < pct_n; i++)
      if (pct_points[i] == sp_count) prio[me] = 100 - i;
    int best = -1;
    if (me_ok) best = me;
    for (int i = 0; i < nc; i++)
      if (best < 0 || prio[cand[i]] > prio[best]) best = cand[i];
    if (best >= 0) return best;
    return all[xs() % na];
  }
  if (sched_kind == 3) { /* cooperative: only switch when we must */
    if (me_ok) return me;
    if (nc) return cand[0];
    return all[xs() % na];
  }
  if (me_ok) {
    if (nc == 0) return me;
    if (xs() % switch_den) return me;
    return cand[xs() % nc];
  }
  if (nc) return cand[xs() % nc];
  /* everybody else is spinning or frozen: thaw, and rotate */
  for (int t = 0; t < nthreads; t++) frozen_until[t] = 0;
  if (tstate[me] == 1 && !spin) return me;
  return all[xs() % na];
}

static void sp(int spin, int post_write) {
  if (my_tid < 0 || finished_flag) return;
  sp_count++;
  unreg_keep[my_tid] = unreg_hits[my_tid];
  unreg_hits[my_tid] = 0;
  /* a thread that only reads registered cells for a long stretch is polling for another
   * thread's progress (e.g. the yield-retry loop of fiber_manager_wake_from_mpsc_queue when
   * its own run queue is empty): treat it as spinning so strict-priority / freeze schedules
   * cannot livelock on it */
  if (post_write) ro_streak[my_tid] = 0;
  else if (++ro_streak[my_tid] > ro_limit) spin = 1;
  if (sp_count > budget) vr_finish("BUDGET");
  if (spin) {
    spin_epoch[my_tid] = OTHERS(my_tid);
    int allspin = 1;
    for (int t = 0; t < nthreads; t++)
      if (tstate[t] == 1 && !is_spinning(t)) allspin = 0;
    if (allspin) {
      if (++allspin_streak > hang_limit) vr_finish(done_flag ? "OK" : "HANG");
    } else
      allspin_streak = 0;
  } else
    allspin_streak = 0;
  if (sched_kind == 2 && post_write && freeze_den && xs() % freeze_den == 0) frozen_until[my_tid] = sp_count + freeze_len;
  if (stall_hi && post_write && cur_fiber && cur_fiber->depth > 0) {
    int dd = cur_fiber->depth - 1 < SHDEPTH ? cur_fiber->depth - 1 : SHDEPTH - 1;
    uintptr_t pc = (uintptr_t)cur_fiber->pcs[dd];
    if (pc >= stall_lo && pc < stall_hi && xs() % stall_den == 0) frozen_until[my_tid] = sp_count + stall_len;
  }
  int nx = pick(my_tid, spin);
  if (nx != my_tid) {
    int me = my_tid;
    give(nx);
    wait_turn(me);
  }
}

void vr_point(void) {
  vr_init();
  if (my_tid >= 0) complete_pending(my_tid);
  sp(0, 0);
}
void vr_relax(void) {
  vr_init();
  if (my_tid < 0) return;
  complete_pending(my_tid);
  sp(1, 0);
}

/* ------------------------------------------------------------------ threads */

typedef struct tramp {
  void* (*fn)(void*);
  void* arg;
  int tid;
} tramp_t;

static void thread_exit_handoff(void) {
  int me = my_tid;
  complete_pending(me);
  tstate[me] = 2;
  PROGRESS();
  int nx = -1;
  for (int t = 0; t < nthreads; t++)
    if (tstate[t] == 1) {
      nx = t;
      if (xs() & 1) break;
    }
  my_tid = -1;
  if (nx >= 0) give(nx);
}

static void* trampoline(void* p) {
  tramp_t t = *(tramp_t*)p;
  free(p);
  my_tid = t.tid;
  cur_fiber = thread_fiber[t.tid];
  wait_turn(t.tid);
  void* r = t.fn(t.arg);
  thread_exit_handoff();
  return r;
}

int pthread_create(pthread_t* th, const pthread_attr_t* attr, void* (*fn)(void*), void* arg) {
  vr_init();
  if (my_tid < 0 || nthreads >= MAXT) return real_pthread_create(th, attr, fn, arg);
  tramp_t* t = malloc(sizeof *t);
  t->fn = fn;
  t->arg = arg;
  t->tid = nthreads;
  tstate[nthreads] = 1;
  last_run[nthreads] = sp_count;
  nthreads++;
  return real_pthread_create(th, attr, trampoline, t);
}

static pthread_t join_ids[MAXT];
int pthread_join(pthread_t th, void** ret) {
  vr_init();
  (void)join_ids;
  if (my_tid >= 0) {
    /* we do not know the tid of th; wait until every other thread that could be
     * it has finished is too strong, so poll with tryjoin while yielding. */
    for (;;) {
      int r = pthread_tryjoin_np(th, ret);
      if (r != EBUSY) return r;
      sp(1, 0);
      /* the finished thread has handed off the baton but may still be exiting */
      int others = 0;
      for (int t = 0; t < nthreads; t++)
        if (tstate[t] == 1 && t != my_tid) others++;
      if (!others) usleep(50);
    }
  }
  return real_pthread_join(th, ret);
}

/* ------------------------------------------------------------------ TSan ABI: plain accesses */

static inline void plain(void* addr, int size, int is_write) {
  if (my_tid < 0 || in_rt) return;
  int t = my_tid;
  if (pend[t] >= 0) complete_pending(t);
  int c = ncell ? find_cell((uintptr_t)addr, size) : -1;
  if (c < 0) {
    /* a thread that runs for millions of accesses without touching a registered cell (a polling
     * loop over unregistered state, e.g. a join that spins on a fiber of a harness that registers
     * nothing) would keep the baton for ever: give the others a turn */
    if (++unreg_run[t] > UNREG_LIMIT) {
      unreg_run[t] = 0;
      /* dozens of such stretches in a row without any other scheduling point in between: the
       * thread is stuck in a loop nothing will ever end (e.g. polling a freed object) */
      if (++unreg_hits[t] > UNREG_HITS) vr_finish(done_flag ? "OK" : "HANG");
      in_rt = 1;
      sp(1, 0);
      in_rt = 0;
      unreg_hits[t] = unreg_keep[t]; /* sp() reset the counter: this was no real progress */
    }
    return;
  }
  unreg_run[t] = 0;
  in_rt = 1;
  sp(0, 0);
  ev_t* e = newev(is_write ? K_W : K_R, c, (uintptr_t)addr, size);
  if (is_write) {
    pend[t] = (int)(e - evs);
    pend_addr[t] = addr;
    PROGRESS();
    ro_streak[t] = 0;
  } else {
    uint64_t v = 0;
    memcpy(&v, addr, size);
    e->a = v;
  }
  in_rt = 0;
}

void __tsan_init(void) { vr_init(); }
void __tsan_read1(void* a) { plain(a, 1, 0); }
void __tsan_read2(void* a) { plain(a, 2, 0); }
void __tsan_read4(void* a) { plain(a, 4, 0); }
void __tsan_read8(void* a) { plain(a, 8, 0); }
void __tsan_read16(void* a) { plain(a, 8, 0); }
void __tsan_write1(void* a) { plain(a, 1, 1); }
void __tsan_write2(void* a) { plain(a, 2, 1); }
void __tsan_write4(void* a) { plain(a, 4, 1); }
void __tsan_write8(void* a) { plain(a, 8, 1); }
void __tsan_write16(void* a) { plain(a, 8, 1); }
void __tsan_unaligned_read2(void* a) { plain(a, 2, 0); }
void __tsan_unaligned_read4(void* a) { plain(a, 4, 0); }
void __tsan_unaligned_read8(void* a) { plain(a, 8, 0); }
void __tsan_unaligned_read16(void* a) { plain(a, 8, 0); }
void __tsan_unaligned_write2(void* a) { plain(a, 2, 1); }
void __tsan_unaligned_write4(void* a) { plain(a, 4, 1); }
void __tsan_unaligned_write8(void* a) { plain(a, 8, 1); }
void __tsan_unaligned_write16(void* a) { plain(a, 8, 1); }
void __tsan_read_range(void* a, unsigned long n) { (void)a; (void)n; if (my_tid >= 0 && !in_rt) complete_pending(my_tid); }
void __tsan_write_range(void* a, unsigned long n) { (void)a; (void)n; if (my_tid >= 0 && !in_rt) complete_pending(my_tid); }
void __tsan_vptr_update(void** a, void* b) { (void)a; (void)b; }
void __tsan_vptr_read(void** a) { (void)a; }

void __tsan_func_entry(void* caller_pc) {
  (void)caller_pc;
  vfiber_t* f = cur_fiber;
  if (!f) return;
  if (my_tid >= 0 && pend[my_tid] >= 0 && !in_rt) complete_pending(my_tid);
  if (f->depth < SHDEPTH) f->pcs[f->depth] = __builtin_return_address(0);
  f->depth++;
}
void __tsan_func_exit(void) {
  vfiber_t* f = cur_fiber;
  if (!f) return;
  if (my_tid >= 0 && pend[my_tid] >= 0 && !in_rt) complete_pending(my_tid);
  if (f->depth > 0) f->depth--;
}

/* ------------------------------------------------------------------ TSan ABI: atomics */

#define PRE(addr, size)                                   \
  int _c = -1;                                            \
  int _m = my_tid >= 0 && !in_rt;                         \
  if (_m) {                                               \
    if (pend[my_tid] >= 0) complete_pending(my_tid);      \
    _c = ncell ? find_cell((uintptr_t)(addr), size) : -1; \
    if (_c >= 0) {                                        \
      in_rt = 1;                                          \
      sp(0, 0);                                           \
    }                                                     \
  }
/* `changed` = the operation modified the cell: a value-preserving RMW (xchg of the same
 * value, failed CAS, fetch_add 0) is a poll, not progress */
#define POSTW(changed)      \
  if (_c >= 0) {            \
    if (changed) PROGRESS();   \
    sp(0, (changed) != 0);  \
    in_rt = 0;              \
  }
#define POSTR() \
  if (_c >= 0) in_rt = 0;

#define DEF_ATOMICS(N, T)                                                                          \
  T __tsan_atomic##N##_load(const volatile T* a, int mo) {                                         \
    (void)mo;                                                                                      \
    PRE(a, sizeof(T));                                                                             \
    T v = __atomic_load_n(a, __ATOMIC_SEQ_CST);                                                    \
    if (_c >= 0) {                                                                                 \
      ev_t* e = newev(K_LD, _c, (uintptr_t)a, sizeof(T));                                          \
      e->a = (uint64_t)v;                                                                          \
      e->d = (uint64_t)mo;                                                                         \
    }                                                                                              \
    POSTR();                                                                                       \
    return v;                                                                                      \
  }                                                                                                \
  void __tsan_atomic##N##_store(volatile T* a, T v, int mo) {                                      \
    (void)mo;                                                                                      \
    PRE(a, sizeof(T));                                                                             \
    __atomic_store_n(a, v, __ATOMIC_SEQ_CST);                                                      \
    if (_c >= 0) {                                                                                 \
      ev_t* e = newev(K_ST, _c, (uintptr_t)a, sizeof(T));                                          \
      e->a = (uint64_t)v;                                                                          \
      e->d = (uint64_t)mo;                                                                         \
    }                                                                                              \
    POSTW(1);                                                                                      \
  }                                                                                                \
  T __tsan_atomic##N##_exchange(volatile T* a, T v, int mo) {                                      \
    (void)mo;                                                                                      \
    PRE(a, sizeof(T));                                                                             \
    T o = __atomic_exchange_n(a, v, __ATOMIC_SEQ_CST);                                             \
    if (_c >= 0) {                                                                                 \
      ev_t* e = newev(K_XCHG, _c, (uintptr_t)a, sizeof(T));                                        \
      e->a = (uint64_t)o;                                                                          \
      e->b = (uint64_t)v;                                                                          \
      e->d = (uint64_t)mo;                                                                         \
    }                                                                                              \
    POSTW(o != v);                                                                                 \
    return o;                                                                                      \
  }                                                                                                \
  DEF_RMW(N, T, fetch_add, K_FADD)                                                                 \
  DEF_RMW(N, T, fetch_sub, K_FSUB)                                                                 \
  DEF_RMW(N, T, fetch_and, K_FAND)                                                                 \
  DEF_RMW(N, T, fetch_or, K_FOR)                                                                   \
  DEF_RMW(N, T, fetch_xor, K_FXOR)                                                                 \
  int __tsan_atomic##N##_compare_exchange_strong(volatile T* a, T* exp, T des, int mo, int fmo) {  \
    (void)mo;                                                                                      \
    (void)fmo;                                                                                     \
    PRE(a, sizeof(T));                                                                             \
    T ex = *exp;                                                                                   \
    int ok = __atomic_compare_exchange_n(a, exp, des, 0, __ATOMIC_SEQ_CST, __ATOMIC_SEQ_CST);      \
    if (_c >= 0) {                                                                                 \
      ev_t* e = newev(K_CAS, _c, (uintptr_t)a, sizeof(T));                                         \
      e->a = (uint64_t)(ok ? ex : *exp);                                                           \
      e->b = (uint64_t)ex;                                                                         \
      e->c = (uint64_t)des;                                                                        \
      e->d = (uint64_t)mo;                                                                         \
      e->ok = ok;                                                                                  \
    }                                                                                              \
    POSTW(ok);                                                                                     \
    return ok;                                                                                     \
  }                                                                                                \
  int __tsan_atomic##N##_compare_exchange_weak(volatile T* a, T* exp, T des, int mo, int fmo) {    \
    return __tsan_atomic##N##_compare_exchange_strong(a, exp, des, mo, fmo);                       \
  }                                                                                                \
  T __tsan_atomic##N##_compare_exchange_val(volatile T* a, T exp, T des, int mo, int fmo) {        \
    __tsan_atomic##N##_compare_exchange_strong(a, &exp, des, mo, fmo);                             \
    return exp;                                                                                    \
  }

#define DEF_RMW(N, T, op, K)                                   \
  T __tsan_atomic##N##_##op(volatile T* a, T v, int mo) {      \
    (void)mo;                                                  \
    PRE(a, sizeof(T));                                         \
    T o = __atomic_##op(a, v, __ATOMIC_SEQ_CST);               \
    if (_c >= 0) {                                             \
      ev_t* e = newev(K, _c, (uintptr_t)a, sizeof(T));         \
      e->a = (uint64_t)o;                                      \
      e->b = (uint64_t)v;                                      \
      e->d = (uint64_t)mo;                                     \
    }                                                          \
    POSTW(v != 0);                                             \
    return o;                                                  \
  }

DEF_ATOMICS(8, uint8_t)
DEF_ATOMICS(16, uint16_t)
DEF_ATOMICS(32, uint32_t)
DEF_ATOMICS(64, uint64_t)

uint8_t __tsan_atomic8_fetch_nand(volatile uint8_t* a, uint8_t v, int mo) { (void)mo; return __atomic_fetch_nand(a, v, __ATOMIC_SEQ_CST); }
uint16_t __tsan_atomic16_fetch_nand(volatile uint16_t* a, uint16_t v, int mo) { (void)mo; return __atomic_fetch_nand(a, v, __ATOMIC_SEQ_CST); }
uint32_t __tsan_atomic32_fetch_nand(volatile uint32_t* a, uint32_t v, int mo) { (void)mo; return __atomic_fetch_nand(a, v, __ATOMIC_SEQ_CST); }
uint64_t __tsan_atomic64_fetch_nand(volatile uint64_t* a, uint64_t v, int mo) { (void)mo; return __atomic_fetch_nand(a, v, __ATOMIC_SEQ_CST); }

void __tsan_atomic_thread_fence(int mo) {
  __atomic_thread_fence(__ATOMIC_SEQ_CST);
  (void)mo;
}
void __tsan_atomic_signal_fence(int mo) { (void)mo; }

/* ------------------------------------------------------------------ shim entry points (inline-asm primitives, see shim.h) */

void vr_fence(int kind) {
  if (my_tid < 0 || in_rt) return;
  complete_pending(my_tid);
  /* a barrier is a natural scheduling point; it also keeps retry loops that touch no
   * registered cell (e.g. the hazard-pointer validation loops) from monopolising the baton */
  sp(0, 0);
  ev_t* e = newev(K_FENCE, -1, 0, 0);
  e->a = kind;
}

/* run-queue API events (call sites in fiber_scheduler_wsd.c are wrapped by rt/shim.h when
 * compiled with -DVR_WSD_WRAP): the deque operation itself still runs; with the deque's own
 * cells unregistered it contains no scheduling point, so these events are exact. */
void vr_rq_push(void* d, void* p) {
  if (my_tid < 0 || in_rt) return;
  complete_pending(my_tid);
  sp(0, 0);
  ev_t* e = newev(K_RQPUSH, -1, 0, 0);
  e->a = (uint64_t)d;
  e->b = (uint64_t)p;
  PROGRESS();
}
void* vr_rq_pop(void* d, void* r) {
  if (my_tid < 0 || in_rt) return r;
  complete_pending(my_tid);
  ev_t* e = newev(K_RQPOP, -1, 0, 0);
  e->a = (uint64_t)d;
  e->b = (uint64_t)r;
  if ((intptr_t)r != -1) PROGRESS();
  sp(0, (intptr_t)r != -1);
  return r;
}
void* vr_rq_steal(void* d, void* r) {
  if (my_tid < 0 || in_rt) return r;
  complete_pending(my_tid);
  ev_t* e = newev(K_RQSTEAL, -1, 0, 0);
  e->a = (uint64_t)d;
  e->b = (uint64_t)r;
  if ((intptr_t)r != -1) PROGRESS();
  sp(0, (intptr_t)r != -1);
  return r;
}

/* bracket the real cmpxchg16b asm: pre = scheduling point, post = log */
static __thread int cas2_cell;
void vr_cas2_pre(volatile void* loc) {
  cas2_cell = -1;
  if (my_tid < 0 || in_rt) return;
  complete_pending(my_tid);
  cas2_cell = ncell ? find_cell((uintptr_t)loc, 16) : -1;
  if (cas2_cell >= 0) sp(0, 0);
}
void vr_cas2_post(volatile void* loc, const void* orig, const void* nw, int ok) {
  if (my_tid < 0 || in_rt || cas2_cell < 0) return;
  uint64_t o[2], n[2];
  memcpy(o, orig, 16);
  memcpy(n, nw, 16);
  ev_t* e = newev(K_CAS2, cas2_cell, (uintptr_t)loc, 16);
  e->a = o[0];
  e->b = o[1];
  e->c = n[0];
  e->d = n[1];
  e->ok = ok;
  PROGRESS();
  sp(0, 1);
}

/* ------------------------------------------------------------------ TSan fiber API (upstream calls these under __SANITIZE_THREAD__) */

/* Upstream calls this only from fiber_context_init_from_thread, and it does so on the MAIN
 * thread for every manager (fiber_manager_init creates manager 0..N-1 in order, then starts
 * kernel thread i with manager i).  Returning the caller's context would give every
 * kernel-thread context the same handle, so the k-th call returns the context reserved for
 * kernel thread k. */
static int get_current_calls;
void* __tsan_get_current_fiber(void) {
  vr_init();
  int k = get_current_calls++;
  if (k < MAXT) return &fibers[k];
  return cur_fiber;
}
void* __tsan_create_fiber(unsigned flags) {
  (void)flags;
  vr_init();
  if (nfib >= maxfib) vr_finish("TOOMANYFIBERS");
  vfiber_t* f = &fibers[nfib];
  f->id = nfib++;
  f->alive = 1;
  f->depth = 0;
  if (my_tid >= 0 && !in_rt) {
    complete_pending(my_tid);
    ev_t* e = newev(K_FCREATE, -1, 0, 0);
    e->a = f->id;
  }
  return f;
}
void __tsan_destroy_fiber(void* fiber) {
  vfiber_t* f = fiber;
  if (!f) return;
  f->alive = 0;
  if (my_tid >= 0 && !in_rt) {
    complete_pending(my_tid);
    ev_t* e = newev(K_FDESTROY, -1, 0, 0);
    e->a = f->id;
  }
}
void __tsan_switch_to_fiber(void* fiber, unsigned flags) {
  (void)flags;
  vfiber_t* f = fiber;

  if (my_tid >= 0 && !in_rt) {
    complete_pending(my_tid);
    ev_t* e = newev(K_SWITCH, -1, 0, 0);
    e->a = f->id;
    PROGRESS();
    idle_streak = 0;
    ro_streak[my_tid] = 0;
  }
  cur_fiber = f;
}
void __tsan_set_fiber_name(void* f, const char* n) { (void)f; (void)n; }

/* ------------------------------------------------------------------ virtual OS time for whole-runtime harnesses */

int timerfd_create(int clockid, int flags) {
  (void)clockid; (void)flags;
  vr_init();
  vtimer_fd = eventfd(0, EFD_NONBLOCK);
  return vtimer_fd;
}
int timerfd_settime(int fd, int flags, const struct itimerspec* n, struct itimerspec* o) {
  (void)fd; (void)flags; (void)n;
  if (o) memset(o, 0, sizeof *o);
  return 0;
}
void vr_tick(uint64_t n) {
  if (vtimer_fd >= 0 && n) {
    /* raw syscall: the library under test defines its own write() shim */
    long r = syscall(SYS_write, vtimer_fd, &n, sizeof n);
    (void)r;
    PROGRESS();
  }
}

int epoll_wait(int epfd, struct epoll_event* evs_, int maxevents, int timeout) {
  vr_init();
  if (my_tid < 0) return real_epoll_wait(epfd, evs_, maxevents, timeout);
  (void)timeout;
  complete_pending(my_tid);
  int n = real_epoll_wait(epfd, evs_, maxevents, 0);
  if (n > 0) {
    PROGRESS();
    idle_streak = 0;
    sp(0, 0);
    return n;
  }
  /* idle: spinning SP.  When every thread has been idle for a while, time
   * advances by one tick (virtual clock). */
  idle_streak++;
  idle_flag[my_tid] = 1;
  if (auto_tick && vtimer_fd >= 0 && idle_streak > (uint64_t)(4 * nthreads)) {
    int allspin = 1;
    for (int t = 0; t < nthreads; t++)
      if (tstate[t] == 1 && t != my_tid && !is_spinning(t)) allspin = 0;
    if (allspin) {
      idle_streak = 0;
      idle_ticks_pending++;
      {
        /* every kernel thread has been idle for several poll rounds: virtual time advances */
        /* "allidle": every kernel thread's last action was an empty poll (the run queues must
         * be empty now); "tick": time advances although somebody is merely polling in a loop */
        int all_idle = 1;
        for (int t = 0; t < nthreads; t++)
          if (tstate[t] == 1 && !idle_flag[t]) all_idle = 0;
        ev_t* e = newev(K_NOTE, -1, 0, 0);
        e->note = strdup(all_idle ? "allidle" : "tick");
        idle_flag[my_tid] = 1;
      }
      vr_tick(1);
      if (++allspin_streak > hang_limit) vr_finish(done_flag ? "OK" : "HANG");
      uint64_t keep = allspin_streak;
      sp(0, 0);
      allspin_streak = keep;
      return 0;
    }
  }
  sp(1, 0);
  return 0;
}
