/* shim.h — force-included (-include) into every instrumented translation unit.
 * Wraps the inline-asm primitives the compiler's instrumentation cannot see so
 * that they are scheduling points / logged events; the ORIGINAL primitive still
 * runs (a function-like macro is not re-expanded inside its own expansion). */
#ifndef VR_SHIM_H
#define VR_SHIM_H
#include "machine_specific.h"
#ifdef __cplusplus
extern "C" {
#endif
extern void vr_relax(void);
extern void vr_fence(int kind);
extern void vr_cas2_pre(volatile void* loc);
extern void vr_cas2_post(volatile void* loc, const void* orig, const void* nw, int ok);
#ifdef __cplusplus
}
#endif
#define cpu_relax() (vr_relax(), cpu_relax())
#define store_load_barrier() (vr_fence(1), store_load_barrier())
#define write_barrier() (vr_fence(2), write_barrier())
#define load_load_barrier() (vr_fence(3), load_load_barrier())
#define compare_and_swap2(l, o, n)                      \
  ({                                                    \
    vr_cas2_pre((l));                                   \
    const int vr_r_ = compare_and_swap2((l), (o), (n)); \
    vr_cas2_post((l), (o), (n), vr_r_);                 \
    vr_r_;                                              \
  })

#ifdef VR_WSD_WRAP
/* run-queue API events: wrap the CALL SITES of the deque API (only the translation unit of
 * fiber_scheduler_wsd.c is compiled with -DVR_WSD_WRAP; the deque's own definitions are not). */
#include "work_stealing_deque.h"
#ifdef __cplusplus
extern "C" {
#endif
extern void vr_rq_push(void* d, void* p);
extern void* vr_rq_pop(void* d, void* r);
extern void* vr_rq_steal(void* d, void* r);
#ifdef __cplusplus
}
#endif
#define wsd_work_stealing_deque_push_bottom(d, p) \
  (vr_rq_push((d), (p)), wsd_work_stealing_deque_push_bottom((d), (p)))
#define wsd_work_stealing_deque_pop_bottom(d) \
  vr_rq_pop((d), wsd_work_stealing_deque_pop_bottom((d)))
#define wsd_work_stealing_deque_steal(d) vr_rq_steal((d), wsd_work_stealing_deque_steal((d)))
#endif
#endif
