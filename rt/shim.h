/* shim.h — force-included (-include) into every instrumented translation unit.
 * Wraps the inline-asm primitives the compiler's instrumentation cannot see so
 * that they are scheduling points / logged events; the ORIGINAL primitive still
 * runs (a function-like macro is not re-expanded inside its own expansion). */
#ifndef VR_SHIM_H
#define VR_SHIM_H
#include "machine_specific.h"
#ifdef __cplusplus
extern "C" {
#endif
extern void vr_relax(void);
extern void vr_fence(int kind);
extern void vr_cas2_pre(volatile void* loc);
extern void vr_cas2_post(volatile void* loc, const void* orig, const void* nw, int ok);
#ifdef __cplusplus
}
#endif
#define cpu_relax() (vr_relax(), cpu_relax())
#define store_load_barrier() (vr_fence(1), store_load_barrier())
#define write_barrier() (vr_fence(2), write_barrier())
#define load_load_barrier() (vr_fence(3), load_load_barrier())
#define compare_and_swap2(l, o, n)                      \
  ({                                                    \
    vr_cas2_pre((l));                                   \
    const int vr_r_ = compare_and_swap2((l), (o), (n)); \
    vr_cas2_post((l), (o), (n), vr_r_);                 \
    vr_r_;                                              \
  })
#endif
