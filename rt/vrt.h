/* vrt.h — harness-facing API of the verification runtime (rt/vrt.c).
 *
 * The runtime implements the compiler's TSan ABI (so code built with
 * -fsanitize=thread reports every memory access to us), serialises all kernel
 * threads with a baton, treats accesses to *registered cells* as scheduling
 * points and logs them as one text line each.  No /repo source is edited. */
#ifndef VRT_H
#define VRT_H
#include <stddef.h>
#include <stdint.h>
#ifdef __cplusplus
extern "C" {
#endif

/* register [addr, addr+size) as a shared cell: accesses are scheduling points
 * and are logged as `<name>` (or `<name>+<off>` for an interior access). */
void vr_reg(const volatile void* addr, size_t size, const char* fmt, ...)
    __attribute__((format(printf, 3, 4)));
/* name an object so pointer values into it print as @<name>[+off]. */
void vr_obj(const volatile void* addr, size_t size, const char* fmt, ...)
    __attribute__((format(printf, 3, 4)));
/* forget cells/objects overlapping the range (before free / reuse). */
void vr_forget(const volatile void* addr, size_t size);
/* API-level event written into the same log (`note` kind). */
void vr_note(const char* fmt, ...) __attribute__((format(printf, 1, 2)));
/* a scheduling point that marks the caller as spinning (it must not be chosen
 * again until some other thread made progress). */
void vr_relax(void);
/* plain scheduling point */
void vr_point(void);
/* dump the log and terminate the process: exit status 0 for "OK", else 3. */
void vr_finish(const char* status) __attribute__((noreturn));
int vr_tid(void);
/* id of the fiber context currently running on this kernel thread (0.. are
 * kernel-thread contexts, then fibers in creation order) */
int vr_fiber(void);
uint64_t vr_rand(void);
/* number of scheduling points so far */
uint64_t vr_sp_count(void);
/* virtual timer (whole-runtime harnesses): inject n expirations */
void vr_tick(uint64_t n);
/* mark that the scenario has reached its goal (used by hang detection) */
void vr_set_done(void);

#ifdef __cplusplus
}
#endif
#endif
