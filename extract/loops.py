#!/usr/bin/env python3
"""loops.py — control-skeleton translator: the loops of a C function and every way out of them.

The models let a CAS retry loop / wait loop run until its condition says so, however long that
takes.  A loop that gives up after k rounds, or gains a second way out, behaves differently only in
runs where one operation loses k races in a row — no feasible run shows that.  What a run cannot
show, the source can: for every function listed in tools/loop_profile/<id>.json this module
extracts

    [ {loop: "<kind> (<normalised header>)", depth: n,
       exits: [ ["<return/break/goto statement>", "<innermost enclosing if-condition>"], ... ]}, ... ]
    + the `return` statements outside every loop (statement text only: their guards are the
      business of trace validation)

from the comment-stripped source of /repo's working tree and compares it with the committed
profile (taken from the pinned tree, after the `fix:` commits).  Any difference = obligation
broken (fail closed); check.py then searches for a failing input as for every broken obligation.
A rewrite that keeps the loops and their exits passes untouched.

    python3 extract/loops.py <id>            compare (exit 1 + diff on mismatch)
    python3 extract/loops.py <id> --write    regenerate the profile from /repo (maintainer action,
                                             never done by a check)
"""
import json
import os
import re
import sys

VERIF = os.path.dirname(os.path.dirname(os.path.abspath(__file__)))


class ExtractError(Exception):
    pass


def _strip(src):
    src = re.sub(r"/\*.*?\*/", "", src, flags=re.S)
    src = re.sub(r"//[^\n]*", "", src)
    # string / char literals could hold braces
    return re.sub(r'"(\\.|[^"\\])*"', '""', src)


def _body(src, name):
    for m in re.finditer(r"\b%s\s*\(" % re.escape(name), src):
        # parameter list, then '{' (a definition, not a call or prototype)
        i = m.end()
        depth = 1
        while i < len(src) and depth:
            depth += {"(": 1, ")": -1}.get(src[i], 0)
            i += 1
        j = i
        while j < len(src) and src[j].isspace():
            j += 1
        if j < len(src) and src[j] == "{":
            k = j + 1
            depth = 1
            while k < len(src) and depth:
                depth += {"{": 1, "}": -1}.get(src[k], 0)
                k += 1
            return src[j + 1:k - 1]
    raise ExtractError("loops: definition of %s not found" % name)


def _norm(s):
    return re.sub(r"\s+", "", s)


def _braced(body):
    """give every loop / if / else a brace body so that one scanner handles them all: refuse
    unbraced control statements instead (the library's style braces everything)"""
    for m in re.finditer(r"\b(if|while|for)\s*\(", body):
        i = m.end()
        depth = 1
        while i < len(body) and depth:
            depth += {"(": 1, ")": -1}.get(body[i], 0)
            i += 1
        j = i
        while j < len(body) and body[j].isspace():
            j += 1
        if j < len(body) and body[j] not in "{;":
            raise ExtractError("loops: unbraced `%s` body near: %s" % (m.group(1), _norm(body[m.start():j + 30])[:80]))
        if m.group(1) != "while" and j < len(body) and body[j] == ";":
            raise ExtractError("loops: empty `%s` statement near: %s" % (m.group(1), _norm(body[m.start():j + 1])[:80]))
    for m in re.finditer(r"\belse\b\s*(?!if\b)(\S)", body):
        if m.group(1) != "{":
            raise ExtractError("loops: unbraced `else` body")


def profile_fn(body):
    _braced(body)
    loops = []      # finished loop records in order of their opening
    stack = []      # (kind, cond, loop record or None)
    outside = []
    i = 0
    n = len(body)
    pending_do = []
    while i < n:
        c = body[i]
        if c == "{":
            # header that owns this brace
            j = i - 1
            while j >= 0 and body[j].isspace():
                j -= 1
            kind, cond = "block", ""
            if j >= 0 and body[j] == ")":
                depth = 1
                k = j - 1
                while k >= 0 and depth:
                    depth += {")": 1, "(": -1}.get(body[k], 0)
                    k -= 1
                kw = re.search(r"(\w+)\s*$", body[:k + 1])
                kind = kw.group(1) if kw else "?"
                cond = _norm(body[k + 2:j])
            else:
                kw = re.search(r"(\w+)\s*$", body[:j + 1])
                if kw and kw.group(1) in ("do", "else"):
                    kind = kw.group(1)
            rec = None
            if kind in ("while", "for", "do"):
                rec = {"loop": "%s (%s)" % (kind, cond) if kind != "do" else "do", "depth": sum(1 for s in stack if s[2] is not None), "exits": []}
                loops.append(rec)
            elif kind == "switch":
                rec = {"loop": "switch (%s)" % cond, "depth": sum(1 for s in stack if s[2] is not None), "exits": [], "switch": True}
            stack.append((kind, cond, rec))
            i += 1
            continue
        if c == "}":
            if stack:
                kind, cond, rec = stack.pop()
                if kind == "do":
                    m = re.match(r"\}\s*while\s*\(", body[i:])
                    if m:
                        k = i + m.end()
                        depth = 1
                        while k < n and depth:
                            depth += {"(": 1, ")": -1}.get(body[k], 0)
                            k += 1
                        rec["loop"] = "do-while (%s)" % _norm(body[i + m.end():k - 1])
                        i = k
                        continue
            i += 1
            continue
        if c == "w":
            # bodiless `while (...) ;` (pure spin)
            m = re.match(r"while\s*\(", body[i:])
            if m and (i == 0 or not (body[i - 1].isalnum() or body[i - 1] == "_")):
                k = i + m.end()
                depth = 1
                while k < n and depth:
                    depth += {"(": 1, ")": -1}.get(body[k], 0)
                    k += 1
                j = k
                while j < n and body[j].isspace():
                    j += 1
                if j < n and body[j] == ";":
                    loops.append({"loop": "while (%s) ;" % _norm(body[i + m.end():k - 1]),
                                  "depth": sum(1 for s in stack if s[2] is not None), "exits": []})
                    i = j + 1
                    continue
        m = re.match(r"(return|break|goto)\b([^;{}]*);", body[i:]) if c in "rbg" else None
        if m and (i == 0 or not (body[i - 1].isalnum() or body[i - 1] == "_")):
            stmt = re.sub(r"\s+", " ", (m.group(1) + m.group(2)).strip())
            ifs = []
            target = None
            for s in reversed(stack):
                if s[2] is not None:
                    target = s
                    break
                if s[0] == "if":
                    ifs.append(s[1])
                elif s[0] == "else":
                    ifs.append("else")
            inner_if = ifs[0] if ifs else ""
            in_loop = [s for s in stack if s[2] is not None and not s[2].get("switch")]
            if m.group(1) == "break" and target is not None and target[2].get("switch"):
                pass  # leaves a switch, not a loop
            elif in_loop:
                # a return / goto leaves every enclosing loop; a break the innermost one
                recs = [in_loop[-1][2]] if m.group(1) == "break" else [s[2] for s in in_loop]
                for r in recs:
                    r["exits"].append([stmt, inner_if])
            else:
                outside.append(stmt)
            i += m.end()
            continue
        i += 1
    for r in loops:
        r.pop("switch", None)
    return {"loops": loops, "returns_outside_loops": outside}


def profile(repo, files, functions):
    out = {}
    srcs = {f: _strip(open(os.path.join(repo, f)).read()) for f in files}
    for fn in functions:
        body = None
        for f in files:
            try:
                body = _body(srcs[f], fn)
                break
            except ExtractError:
                continue
        if body is None:
            raise ExtractError("loops: definition of %s not found in %s" % (fn, files))
        out[fn] = profile_fn(body)
    return out


def ref_path(pid):
    return os.path.join(VERIF, "tools", "loop_profile", "%s.json" % pid)


def check(repo, pid):
    ref = json.load(open(ref_path(pid)))
    now = profile(repo, ref["files"], ref["functions"])
    diffs = []
    for fn in ref["functions"]:
        a, b = ref["profile"][fn], now[fn]
        if a != b:
            la, lb = a["loops"], b["loops"]
            if len(la) != len(lb):
                diffs.append("%s: %d loops, profile has %d: %s" % (fn, len(lb), len(la), [x["loop"][:60] for x in lb]))
            for x, y in zip(la, lb):
                if x != y:
                    diffs.append("%s: loop `%s` exits %s — profile: `%s` exits %s" % (fn, y["loop"][:90], y["exits"], x["loop"][:90], x["exits"]))
            if a["returns_outside_loops"] != b["returns_outside_loops"]:
                diffs.append("%s: returns outside loops %s — profile: %s" % (fn, b["returns_outside_loops"], a["returns_outside_loops"]))
    if diffs:
        raise ExtractError("loops: control skeleton differs from tools/loop_profile/%s.json (the model's loops run until their "
                           "condition says so and leave only where the profile says): %s" % (pid, "; ".join(diffs)[:1200]))
    nloops = sum(len(v["loops"]) for v in now.values())
    nexits = sum(len(l["exits"]) for v in now.values() for l in v["loops"])
    return {"functions": len(now), "loops": nloops, "loop_exits": nexits}


def main():
    pid = sys.argv[1]
    repo = "/repo"
    for a in sys.argv[2:]:
        if not a.startswith("--"):
            repo = a
    if "--write" in sys.argv:
        ref = json.load(open(ref_path(pid)))
        ref["profile"] = profile(repo, ref["files"], ref["functions"])
        json.dump(ref, open(ref_path(pid), "w"), indent=1)
        print(json.dumps(ref["profile"], indent=1))
        return 0
    try:
        print(check(repo, pid))
    except ExtractError as e:
        print(e)
        return 1
    return 0


if __name__ == "__main__":
    sys.exit(main())
