#!/usr/bin/env python3
"""io_extract.py — translator for property C08: reads the decision points of the descriptor
shims from /repo's CURRENT sources (src/fiber_io.c, src/fiber_event_native.c) and regenerates
lean/LibfiberVerif/Gen/IoDecisions.lean (written only if changed).

Deliberately dumb and fail-closed: every function it looks at must have one of the shapes it
knows; anything else is an extraction error (= obligation broken).  It emits data only.
"""
import os
import re
import sys


class ExtractError(Exception):
    pass


def strip_comments(txt):
    txt = re.sub(r"/\*.*?\*/", " ", txt, flags=re.S)
    txt = re.sub(r"//[^\n]*", " ", txt)
    return txt


def func_body(txt, header_re, what):
    """body (braces matched) of the first function whose header matches header_re"""
    m = re.search(header_re, txt)
    if not m:
        raise ExtractError("function not found: " + what)
    i = txt.index("{", m.end() - 1)
    depth = 0
    for j in range(i, len(txt)):
        if txt[j] == "{":
            depth += 1
        elif txt[j] == "}":
            depth -= 1
            if depth == 0:
                return re.sub(r"\s+", "", txt[i:j + 1])
    raise ExtractError("unbalanced braces in " + what)


def one_of(body, what, **shapes):
    """exactly one of the named shapes (substring on the whitespace-free body) must occur"""
    hits = [k for k, pat in shapes.items() if (pat if isinstance(pat, list) else [pat]) and
            all(p in body for p in (pat if isinstance(pat, list) else [pat]))]
    if len(hits) != 1:
        raise ExtractError("%s: unrecognised shape (matched %s)" % (what, hits))
    return hits[0]


def extract(repo):
    io = strip_comments(open(os.path.join(repo, "src", "fiber_io.c")).read())
    ev = strip_comments(open(os.path.join(repo, "src", "fiber_event_native.c")).read())
    d = {}
    m1 = re.search(r"#define\s+IO_FLAG_BLOCKING\s+(\d+)", io)
    m2 = re.search(r"#define\s+IO_FLAG_WAITABLE\s+(\d+)", io)
    if not m1 or not m2:
        raise ExtractError("IO_FLAG_* constants not found")
    d["flagBlocking"] = int(m1.group(1))
    d["flagWaitable"] = int(m2.group(1))

    b = func_body(io, r"static\s+inline\s+int\s+should_block\s*\(\s*int\s+fd\s*\)\s*\{", "should_block")
    both = "(fd_info[fd].flags_&(IO_FLAG_BLOCKING|IO_FLAG_WAITABLE))==(IO_FLAG_BLOCKING|IO_FLAG_WAITABLE)"
    d["blockNeedsBoth"] = one_of(b, "should_block", yes=both,
                                 no="fd_info[fd].flags_&(IO_FLAG_BLOCKING|IO_FLAG_WAITABLE)){") == "yes"
    if "!thread_locked&&fd_info&&" not in b or "fd<max_fd" not in b:
        raise ExtractError("should_block: guard shape changed")

    b = func_body(io, r"\bint\s+accept\s*\(\s*ACCEPTPARAMS\s*\)\s*\{", "accept")
    d["acceptLoops"] = one_of(b, "accept", yes="while(sock<0&&(errno==EWOULDBLOCK||errno==EAGAIN)&&should_block(sockfd)){",
                              yes2="while(sock<0&&fiber_io_would_block()&&should_block(sockfd)){",
                              no="if(sock<0&&(errno==EWOULDBLOCK||errno==EAGAIN)&&should_block(sockfd)){") != "no"

    fcntl = func_body(io, r"\bint\s+fcntl\s*\(\s*int\s+fd\s*,\s*int\s+cmd\s*,\s*\.\.\.\s*\)\s*\{", "fcntl")
    ioctl = func_body(io, r"\bint\s+ioctl\s*\(\s*IOCTLPARAMS\s*\)\s*\{", "ioctl")
    closed = func_body(ev, r"\bvoid\s+fiber_fd_closed\s*\(\s*int\s+fd\s*\)\s*\{", "fiber_fd_closed")
    close = func_body(io, r"\bint\s+close\s*\(\s*int\s+fd\s*\)\s*\{", "close")
    managed = re.search(r"static\s+inline\s+int\s+fd_is_managed\s*\(\s*int\s+fd\s*\)\s*\{", io)
    checks = [("fd_is_managed(fd)" in fcntl), ("fd_is_managed(d)" in ioctl),
              ("if(fd<0||fd>=max_fd){" in closed or "fiber_fd_closed_locked(" in closed and "if(fd<0||fd>=max_fd){" in closed),
              bool(managed)]
    if all(checks):
        mb = func_body(io, r"static\s+inline\s+int\s+fd_is_managed\s*\(\s*int\s+fd\s*\)\s*\{", "fd_is_managed")
        if "fd_info&&fd>=0&&(rlim_t)fd<max_fd&&(fd_info[fd].flags_&IO_FLAG_WAITABLE)" not in mb:
            raise ExtractError("fd_is_managed: unrecognised shape")
        if "fd>=0&&(rlim_t)fd<max_fd" not in close and "fiber_fd_close(fd," not in close:
            raise ExtractError("close: flags cleared without a range check")
        d["boundsChecked"] = True
    elif not any(checks):
        d["boundsChecked"] = False
    else:
        raise ExtractError("bounds checks present in some of fcntl/ioctl/fiber_fd_closed only: %s" % checks)

    w = func_body(ev, r"\bint\s+fiber_wait_for_event\s*\(\s*int\s+fd\s*,\s*uint32_t\s+events\s*\)\s*\{", "fiber_wait_for_event")
    d["errnoOnClosed"] = one_of(w, "fiber_wait_for_event (closed path)",
                                yes="if(this_fiber->scratch){errno=EBADF;returnFIBER_ERROR;}returnFIBER_SUCCESS;",
                                no="returnthis_fiber->scratch?FIBER_ERROR:FIBER_SUCCESS;") == "yes"
    d["ctlChecked"] = one_of(w, "fiber_wait_for_event (epoll_ctl)",
                             yes=["ctl_ret=epoll_ctl(event_fd,EPOLL_CTL_ADD,fd,&e);if(!ctl_ret){info->added=1;}",
                                  "if(ctl_ret){", "info->events=prev_events;fiber_spinlock_unlock(&info->spinlock);returnFIBER_ERROR;"],
                             no="if(!info->added){epoll_ctl(event_fd,EPOLL_CTL_ADD,fd,&e);info->added=1;}else{epoll_ctl(event_fd,EPOLL_CTL_MOD,fd,&e);}") == "yes"
    for must in ("info->events|=EPOLLIN;", "info->events|=EPOLLOUT;", "e.events=EPOLLONESHOT|info->events;",
                 "this_fiber->scratch=info->waiters;info->waiters=this_fiber;this_fiber->state=FIBER_STATE_WAITING;manager->spinlock_to_unlock=&info->spinlock;fiber_manager_yield(manager);"):
        if must not in w:
            raise ExtractError("fiber_wait_for_event: statement missing: " + must)

    p = func_body(ev, r"static\s+int\s+fiber_poll_events_internal\s*\(", "fiber_poll_events_internal")
    for must in ("info->events&=~events[i].events;info->events&=EPOLLIN|EPOLLOUT;if(info->events){",
                 "e.events=EPOLLONESHOT|info->events;", "epoll_ctl(event_fd,EPOLL_CTL_MOD,e.data.fd,&e);}fiber_event_wake_waiters(manager,info,0);fiber_spinlock_unlock(&info->spinlock);"):
        if must not in p:
            raise ExtractError("fiber_poll_events_internal: fd branch changed: " + must)
    wk = func_body(ev, r"static\s+void\s+fiber_event_wake_waiters\s*\(", "fiber_event_wake_waiters")
    if "while(info->waiters){fiber_t*constto_schedule=(fiber_t*)info->waiters;info->waiters=to_schedule->scratch;to_schedule->scratch=NULL;to_schedule->state=FIBER_STATE_READY;to_schedule->scratch=(void*)result;fiber_manager_schedule(manager,to_schedule);}" not in wk:
        raise ExtractError("fiber_event_wake_waiters: loop changed")
    cl_src = closed
    if "fiber_fd_closed_locked(" in closed:
        cl_src = func_body(ev, r"static\s+void\s+fiber_fd_closed_locked\s*\(", "fiber_fd_closed_locked")
    for must in ("if(info->events||info->added){epoll_ctl(event_fd,EPOLL_CTL_DEL,fd,NULL);info->events=0;info->added=0;}",
                 "fiber_event_wake_waiters("):
        if must not in cl_src:
            raise ExtractError("fiber_fd_closed: body changed: " + must)

    d["closeUnderLock"] = one_of(close, "close", yes="returnfiber_fd_close(fd,close_and_forget);",
                                 no="fiber_fd_closed(fd);") == "yes"

    # read family: do-while with the wait at the top, or try-first
    tries = []
    for name, hdr in (("read", r"\bssize_t\s+read\s*\(\s*int\s+fd"), ("readv", r"\bssize_t\s+readv\s*\(\s*int\s+fd"),
                      ("recv", r"\bssize_t\s+recv\s*\(\s*int\s+fd"), ("recvfrom", r"\bssize_t\s+recvfrom\s*\(\s*RECVFROMPARAMS"),
                      ("recvmsg", r"\bssize_t\s+recvmsg\s*\(\s*int\s+sockfd")):
        b = func_body(io, hdr + r"[^{;]*\)\s*\{", name)
        fdv = "fd" if name in ("read", "readv", "recv") else "sockfd"
        dw = "" if name in ("read", "readv") else "!(flags&MSG_DONTWAIT)&&"
        first = "do{if(%sshould_block(%s)){if(!fiber_wait_for_event(%s,FIBER_POLL_IN)){return-1;}}ret=fibershim_%s(" % (dw, fdv, fdv, name)
        cond = "}while(ret<0&&(errno==EWOULDBLOCK||errno==EAGAIN)&&%sshould_block(%s));returnret;" % (dw, fdv)
        cond2 = cond.replace("(errno==EWOULDBLOCK||errno==EAGAIN)", "fiber_io_would_block()")
        t_first = "while(1){ret=fibershim_%s(" % name
        t_cond = ["&&%sshould_block(%s))){break;}if(!fiber_wait_for_event(%s,FIBER_POLL_IN)){return-1;}}returnret;" % (dw, fdv, fdv)]
        k = one_of(b, name, waitfirst=[first, cond], waitfirst2=[first, cond2], tryfirst=[t_first] + t_cond)
        tries.append(k == "tryfirst")
    if len(set(tries)) != 1:
        raise ExtractError("read family is not uniform: %s" % tries)
    d["readTriesFirst"] = tries[0]

    # write family: loop until the kernel takes something or fails for real; MSG_DONTWAIT honoured
    for name, hdr, fdv, dw in (("write", r"\bssize_t\s+write\s*\(\s*int\s+fd", "fd", ""),
                               ("writev", r"\bssize_t\s+writev\s*\(\s*int\s+fd", "fd", ""),
                               ("send", r"\bssize_t\s+send\s*\(\s*int\s+sockfd", "sockfd", "!(flags&MSG_DONTWAIT)&&"),
                               ("sendto", r"\bssize_t\s+sendto\s*\(\s*int\s+sockfd", "sockfd", "!(flags&MSG_DONTWAIT)&&"),
                               ("sendmsg", r"\bssize_t\s+sendmsg\s*\(\s*int\s+sockfd", "sockfd", "!(flags&MSG_DONTWAIT)&&")):
        b = func_body(io, hdr + r"[^{;]*\)\s*\{", name)
        shape = "ret=fibershim_%s(" % name
        loop = "while(ret<0&&(errno==EWOULDBLOCK||errno==EAGAIN)&&%sshould_block(%s)){if(!fiber_wait_for_event(%s,FIBER_POLL_OUT)){return-1;}ret=fibershim_%s(" % (dw, fdv, fdv, name)
        loop2 = loop.replace("(errno==EWOULDBLOCK||errno==EAGAIN)", "fiber_io_would_block()")
        if shape not in b or (loop not in b and loop2 not in b) or not b.endswith("}returnret;}"):
            raise ExtractError("%s: loop shape changed" % name)
    d["writeLoops"] = True
    d["dontwaitHonoured"] = True

    c = func_body(io, r"\bint\s+connect\s*\(\s*int\s+sockfd", "connect")
    if "if(ret<0&&errno==EINPROGRESS&&should_block(sockfd)){if(!fiber_wait_for_event(sockfd,FIBER_POLL_OUT)){return-1;}" not in c and \
       "if(ret<0&&fiber_io_errno()==EINPROGRESS&&should_block(sockfd)){if(!fiber_wait_for_event(sockfd,FIBER_POLL_OUT)){return-1;}" not in c:
        raise ExtractError("connect: shape changed")

    d["fcntlMask"] = one_of(fcntl, "fcntl", yes="if(val&O_NONBLOCK){atomic_fetch_and(&fd_info[fd].flags_,~IO_FLAG_BLOCKING);}else{atomic_fetch_or(&fd_info[fd].flags_,IO_FLAG_BLOCKING);}",
                            no="if(cmd==F_SETFL&&(val==O_NONBLOCK||val==O_NDELAY)") == "yes"
    d["errnoHelper"] = "fiber_io_errno" in io
    return d


TEMPLATE = """/-
  Gen/IoDecisions.lean — GENERATED by extract/io_extract.py from /repo/src/fiber_io.c and
  /repo/src/fiber_event_native.c on every run of `tools/check.py C08` (written only if changed).
  Do not edit: the decision points of the descriptor shims as the CURRENT source has them.
-/
namespace LibfiberVerif.Gen.Io

/-- IO_FLAG_BLOCKING, IO_FLAG_WAITABLE -/
def flagBlocking : Nat := %(flagBlocking)d
def flagWaitable : Nat := %(flagWaitable)d
/-- should_block requires BOTH flags -/
def blockNeedsBoth : Bool := %(blockNeedsBoth)s
/-- accept retries in a loop -/
def acceptLoops : Bool := %(acceptLoops)s
/-- fcntl / ioctl / fiber_fd_closed index only managed descriptors in range -/
def boundsChecked : Bool := %(boundsChecked)s
/-- a wait ended by close() sets errno = EBADF -/
def errnoOnClosed : Bool := %(errnoOnClosed)s
/-- the read family calls the kernel before it waits -/
def readTriesFirst : Bool := %(readTriesFirst)s
/-- fcntl follows the O_NONBLOCK bit / hides the private one -/
def fcntlMask : Bool := %(fcntlMask)s
/-- fiber_wait_for_event fails when epoll_ctl fails -/
def ctlChecked : Bool := %(ctlChecked)s
/-- close(): sweep + real close under the descriptor's spinlock -/
def closeUnderLock : Bool := %(closeUnderLock)s
/-- write/writev/send/sendto/sendmsg retry in a loop after every wait -/
def writeLoops : Bool := %(writeLoops)s
/-- recv*/send* skip should_block and the wait when MSG_DONTWAIT is given -/
def dontwaitHonoured : Bool := %(dontwaitHonoured)s
/-- errno is read through calls the compiler cannot hoist across a wait (informational) -/
def errnoHelper : Bool := %(errnoHelper)s

end LibfiberVerif.Gen.Io
"""


def generate(repo, out):
    d = extract(repo)
    txt = TEMPLATE % {k: (str(v).lower() if isinstance(v, bool) else v) for k, v in d.items()}
    old = None
    try:
        old = open(out).read()
    except OSError:
        pass
    if old != txt:
        os.makedirs(os.path.dirname(out), exist_ok=True)
        tmp = out + ".tmp%d" % os.getpid()
        open(tmp, "w").write(txt)
        os.replace(tmp, out)
    return d


if __name__ == "__main__":
    repo = sys.argv[1] if len(sys.argv) > 1 else "/repo"
    if len(sys.argv) > 2:
        print(generate(repo, sys.argv[2]))
    else:
        print(extract(repo))
