#!/usr/bin/env python3
"""spin_extract.py — translator for property C18 (src/fiber_spinlock.c, include/fiber_spinlock.h),
facts a trace cannot show.

The model `Spin` lets a contender spin, however long it takes, until the load of `ticket` returns
its own ticket, counts both halves of the lock word modulo 2^32, and has no loop in trylock.  A
spin loop that gives up after 2^20 iterations, or a ticket kept in a wider/narrower local, differs
from that only after more polls / tickets than a feasible run performs.  Checked (fail closed:
`ExtractError` = obligation broken in check.py):

  spinloop  fiber_spinlock_lock contains exactly one loop, `while (<load of ticket> != my_ticket)`,
            whose body holds no break / goto / return / assignment to my_ticket, and the function
            has a single `return` (after the loop): the loop condition is the only way out
  width     the union is { struct { uint32_t ticket; uint32_t users; }; uint64_t blob; } in that
            order (the model's `lo32`/`hi32` decoding and the modulus 2^32), and the locals that
            carry a ticket (`my_ticket`, `old_ticket`) are 32 bits wide
  noloop    fiber_spinlock_trylock and fiber_spinlock_unlock contain no loop and no goto
            (`Spin.try_wait_free` is the model-side counterpart)
"""
import os
import re


class ExtractError(Exception):
    pass


def _strip(src):
    src = re.sub(r"/\*.*?\*/", "", src, flags=re.S)
    return re.sub(r"//[^\n]*", "", src)


def _body(src, name):
    m = re.search(r"\b%s\s*\([^)]*\)\s*\{" % re.escape(name), src)
    if not m:
        raise ExtractError("spin_extract: definition of %s not found" % name)
    i = m.end()
    depth = 1
    while i < len(src) and depth:
        depth += {"{": 1, "}": -1}.get(src[i], 0)
        i += 1
    return src[m.end():i - 1]


def _paren(text, i):
    """text inside the parenthesis that opens at text[i] == '(' and the index after it"""
    depth = 1
    j = i + 1
    while j < len(text) and depth:
        depth += {"(": 1, ")": -1}.get(text[j], 0)
        j += 1
    return text[i + 1:j - 1], j


def check(repo):
    hdr = _strip(open(os.path.join(repo, "include", "fiber_spinlock.h")).read())
    src = _strip(open(os.path.join(repo, "src", "fiber_spinlock.c")).read())

    # width: layout of the lock word
    flat = re.sub(r"\s+", " ", hdr)
    m = re.search(r"typedef union \{ struct \{ ([^{}]*?) \} (\w+) ; ([^{}]*?) \} fiber_spinlock_internal_t ;",
                  flat.replace(";", " ; ").replace("  ", " ").replace("  ", " "))
    if not m:
        raise ExtractError("spin_extract: union fiber_spinlock_internal_t not found in the expected shape")
    halves = [re.sub(r"\b_Atomic\b|\bvolatile\b", "", x).split() for x in m.group(1).split(";") if x.strip()]
    if [h[-1] for h in halves] != ["ticket", "users"] or any(h[:-1] != ["uint32_t"] for h in halves):
        raise ExtractError("spin_extract: lock word halves are not `uint32_t ticket; uint32_t users;` in that order: %r" % halves)
    whole = [re.sub(r"\b_Atomic\b|\bvolatile\b", "", x).split() for x in m.group(3).split(";") if x.strip()]
    if whole != [["uint64_t", "blob"]]:
        raise ExtractError("spin_extract: the whole lock word is not `uint64_t blob`: %r" % whole)

    # spinloop
    lock = _body(src, "fiber_spinlock_lock")
    loops = re.findall(r"\b(while|for|do)\b", lock)
    if loops != ["while"]:
        raise ExtractError("spin_extract: fiber_spinlock_lock: expected exactly one while loop, found %r" % loops)
    if re.search(r"\bgoto\b", lock):
        raise ExtractError("spin_extract: fiber_spinlock_lock: goto")
    w = re.search(r"\bwhile\s*\(", lock)
    cond, after = _paren(lock, w.end() - 1)
    c = re.sub(r"\s+", "", cond)
    if not re.fullmatch(r"atomic_load_explicit\(&spinlock->state\.counters\.ticket,memory_order_\w+\)!=my_ticket", c):
        raise ExtractError("spin_extract: fiber_spinlock_lock: spin condition is not `load(ticket) != my_ticket`: %s" % c[:120])
    rest = lock[after:].lstrip()
    if not rest.startswith("{"):
        raise ExtractError("spin_extract: fiber_spinlock_lock: spin loop has no brace body")
    depth = 1
    j = 1
    while j < len(rest) and depth:
        depth += {"{": 1, "}": -1}.get(rest[j], 0)
        j += 1
    loop_body, tail = rest[1:j - 1], rest[j:]
    for kw in ("break", "return", "goto"):
        if re.search(r"\b%s\b" % kw, loop_body):
            raise ExtractError("spin_extract: fiber_spinlock_lock: the spin loop can be left by `%s` (the model spins until its ticket is served)" % kw)
    if re.search(r"\bmy_ticket\s*(=(?!=)|[-+*/%&|^]=|\+\+|--)|(\+\+|--)\s*my_ticket\b", loop_body):
        raise ExtractError("spin_extract: fiber_spinlock_lock: my_ticket is modified inside the spin loop")
    if len(re.findall(r"\breturn\b", lock)) != 1 or not re.search(r"\breturn\b", tail):
        raise ExtractError("spin_extract: fiber_spinlock_lock: a return other than the one after the spin loop")
    if not re.search(r"\b(const\s+)?uint32_t\s+(const\s+)?my_ticket\s*=", lock):
        raise ExtractError("spin_extract: fiber_spinlock_lock: my_ticket is not a uint32_t")

    # noloop
    for fn in ("fiber_spinlock_trylock", "fiber_spinlock_unlock"):
        b = _body(src, fn)
        k = re.findall(r"\b(while|for|do|goto)\b", b)
        if k:
            raise ExtractError("spin_extract: %s: contains %r (the model has no loop there: trylock never waits)" % (fn, k))
    unlock = _body(src, "fiber_spinlock_unlock")
    if not re.search(r"\b(const\s+)?uint32_t\s+(const\s+)?old_ticket\s*=", unlock):
        raise ExtractError("spin_extract: fiber_spinlock_unlock: old_ticket is not a uint32_t")
    return {"spin_loop": "unbounded, single exit", "lock_word": "uint32 ticket | uint32 users | uint64 blob",
            "trylock_unlock": "loop-free"}


if __name__ == "__main__":
    import sys
    print(check(sys.argv[1] if len(sys.argv) > 1 else "/repo"))
