#!/usr/bin/env python3
"""wq_extract.py — translator for property C17 (work queue), facts a trace cannot show.

Input : <repo>/src/work_queue.c, <repo>/include/work_queue.h
Checks (fail closed: `ExtractError` = obligation broken in check.py):

  width    every variable that carries a value of `in_count` / `out_count` is 64 bits wide: the two
           struct fields, and every local in work_queue_push / work_queue_get_work whose initialiser
           mentions one of them (the model counts in unbounded naturals; a remainder kept in 16 or
           32 bits reads 0 after 2^16 / 2^32 pushes landed inside the worker's drain decision — no
           feasible run shows that).
  waitloop the worker's loop `while (!(*out = mpsc_fifo_trypop(...)))` is left only with an item or
           by the one `return WORK_QUEUE_EMPTY` under `if (<remainder> == 0)`: no other return,
           break or goto (the model's worker WAITS for an announced item however long its pusher
           takes; a bounded wait would need a pusher stalled for the whole bound to be seen).
"""
import os
import re

WIDE = {"int64_t", "uint64_t", "long", "unsigned long", "long long", "unsigned long long", "size_t", "ssize_t", "intptr_t", "uintptr_t"}


class ExtractError(Exception):
    pass


def _strip(src):
    src = re.sub(r"/\*.*?\*/", "", src, flags=re.S)
    return re.sub(r"//[^\n]*", "", src)


def _body(src, name):
    m = re.search(r"\b%s\s*\([^)]*\)\s*\{" % re.escape(name), src)
    if not m:
        raise ExtractError("wq_extract: definition of %s not found" % name)
    i = m.end()
    depth = 1
    while i < len(src) and depth:
        depth += {"{": 1, "}": -1}.get(src[i], 0)
        i += 1
    return src[m.end():i - 1]


def _block_after(text, start):
    """text of the brace block that opens at or after `start`"""
    i = text.index("{", start)
    depth = 1
    j = i + 1
    while j < len(text) and depth:
        depth += {"{": 1, "}": -1}.get(text[j], 0)
        j += 1
    return text[i + 1:j - 1]


def check(repo):
    hdr = _strip(open(os.path.join(repo, "include", "work_queue.h")).read())
    src = _strip(open(os.path.join(repo, "src", "work_queue.c")).read())
    for field in ("in_count", "out_count"):
        m = re.search(r"([A-Za-z_][\w \t]*?)\s+%s\s*;" % field, hdr)
        if not m:
            raise ExtractError("wq_extract: field %s not found in work_queue.h" % field)
        ty = re.sub(r"\b(volatile|_Atomic|const)\b", "", m.group(1)).strip()
        ty = re.sub(r"\s+", " ", ty)
        if ty not in WIDE:
            raise ExtractError("wq_extract: field %s is declared `%s`, not a 64-bit integer" % (field, m.group(1).strip()))
    for fn in ("work_queue_push", "work_queue_get_work"):
        body = _body(src, fn)
        for m in re.finditer(r"(?:^|[;{}])\s*((?:const\s+)?[A-Za-z_][\w \t]*?)\s+([A-Za-z_]\w*)\s*=\s*([^;]*);", body):
            ty, name, init = m.group(1), m.group(2), m.group(3)
            if not re.search(r"\b(in_count|out_count)\b", init):
                continue
            t = re.sub(r"\s+", " ", re.sub(r"\b(const|volatile)\b", "", ty)).strip()
            if t not in WIDE:
                raise ExtractError("wq_extract: %s: local `%s %s` holds a counter value but is not 64 bits wide" % (fn, ty.strip(), name))
    g = _body(src, "work_queue_get_work")
    m = re.search(r"while\s*\(\s*!\s*\(\s*\*\s*out\s*=\s*mpsc_fifo_trypop\s*\(", g)
    if not m:
        raise ExtractError("wq_extract: work_queue_get_work: the worker's wait loop is not in the known shape")
    loop = _block_after(g, m.end())
    flat = re.sub(r"\s+", "", loop)
    if re.search(r"\b(break|goto)\b", loop):
        raise ExtractError("wq_extract: work_queue_get_work: the wait loop can be left by break/goto")
    rets = re.findall(r"return[^;]*;", flat)
    if rets != ["returnWORK_QUEUE_EMPTY;"]:
        raise ExtractError("wq_extract: work_queue_get_work: the wait loop has other exits than the one `return WORK_QUEUE_EMPTY`: %r" % (rets,))
    if not re.search(r"if\(\w+==0\)\{returnWORK_QUEUE_EMPTY;\}", flat):
        raise ExtractError("wq_extract: work_queue_get_work: `return WORK_QUEUE_EMPTY` is not guarded by `if (<remainder> == 0)`")
    return {"width": 64, "waitloop": "unbounded"}


if __name__ == "__main__":
    import sys
    print(check(sys.argv[1] if len(sys.argv) > 1 else "/repo"))
