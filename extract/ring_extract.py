#!/usr/bin/env python3
"""ring_extract.py — translator for property C16 (lock-free ring buffer).

Input : <repo>/include/lockfree_ring_buffer.h
Output: one word handed to harness/ring.c (-> `init` note -> the Lean driver validates every
        trace against exactly this variant of Model/RingW.lean):

  asis    lockfree_ring_buffer_trypop decides with `high > low`, lockfree_ring_buffer_pop's
          retry test is `rb->high <= rb->low`  (comparison of the raw 64-bit counter values:
          not wrap-safe, Props/C16Wrap.lean asIs_pop_fails_after_wrap)
  signed  `(int64_t)(high - low) > 0` and `(int64_t)(rb->high - rb->low) <= 0`
          (sign of the difference: Props/C16Wrap.lean wrap_refines_fixed)

Deliberately dumb and strict: both sites must show the same variant in exactly one of these two
shapes, otherwise `ExtractError` is raised (= obligation broken in check.py; the model has no
machine for a mixed or unknown comparison)."""
import os
import re


class ExtractError(Exception):
    pass


def _strip(src):
    src = re.sub(r"/\*.*?\*/", "", src, flags=re.S)
    return re.sub(r"//[^\n]*", "", src)


def _body(src, name):
    m = re.search(r"\b%s\s*\([^)]*\)\s*\{" % re.escape(name), src)
    if not m:
        raise ExtractError("ring_extract: definition of %s not found" % name)
    i = m.end()
    depth = 1
    while i < len(src) and depth:
        depth += {"{": 1, "}": -1}.get(src[i], 0)
        i += 1
    return re.sub(r"\s+", "", src[m.end():i])


def variant(repo):
    path = os.path.join(repo, "include", "lockfree_ring_buffer.h")
    src = _strip(open(path).read())
    trypop = _body(src, "lockfree_ring_buffer_trypop")
    pop = _body(src, "lockfree_ring_buffer_pop")
    t_asis = "if(ret&&high>low&&" in trypop
    t_signed = "if(ret&&(int64_t)(high-low)>0&&" in trypop
    p_asis = "if(rb->high<=rb->low){" in pop
    p_signed = "if((int64_t)(rb->high-rb->low)<=0){" in pop
    if t_asis + t_signed != 1:
        raise ExtractError("ring_extract: lockfree_ring_buffer_trypop: emptiness test not in a known shape")
    if p_asis + p_signed != 1:
        raise ExtractError("ring_extract: lockfree_ring_buffer_pop: retry test not in a known shape")
    if t_asis != p_asis:
        raise ExtractError("ring_extract: trypop and pop compare the counters differently (mixed variant is not modelled)")
    return "asis" if t_asis else "signed"


if __name__ == "__main__":
    import sys
    print(variant(sys.argv[1] if len(sys.argv) > 1 else "/repo"))
