#!/usr/bin/env python3
"""poll_extract.py — translator for C09 (and the idle clause of C08): a fact no feasible run shows.

The sleep and descriptor models assume that a kernel thread which has run out of runnable fibers
POLLS the event engine (timer expirations, descriptor readiness) for as long as it idles.  In
src/fiber_manager.c that is the thread-local flag `should_check_events`, switched on when a kernel
thread's maintenance loop starts.  Checked (fail closed): it is declared `true` and, outside
fiber_shutdown(), only ever assigned `true` - nothing switches polling off again (a start-up interleaving in which
a worker sees the event engine before it is initialised would be needed to reach such a branch;
the deterministic scheduler starts the workers after fiber_manager_init has returned)."""
import os
import re


class ExtractError(Exception):
    pass


def check(repo):
    src = open(os.path.join(repo, "src", "fiber_manager.c")).read()
    src = re.sub(r"/\*.*?\*/", "", src, flags=re.S)
    src = re.sub(r"//[^\n]*", "", src)
    decl = re.findall(r"^[^\n;{}()]*\bbool\s+should_check_events\s*=\s*(\w+)\s*;", src, flags=re.M)
    if decl != ["true"]:
        raise ExtractError("poll_extract: declaration of should_check_events not in the known shape: %r" % (decl,))
    body = re.sub(r"^[^\n;{}()]*\bbool\s+should_check_events\s*=\s*\w+\s*;", "", src, flags=re.M)
    # fiber_shutdown() switches polling off while it moves the caller to kernel thread 0: the one
    # legitimate place (the runtime is being torn down)
    m = re.search(r"\bvoid\s+fiber_shutdown\s*\(\s*\)\s*\{", body)
    if m:
        i = m.end()
        depth = 1
        while i < len(body) and depth:
            depth += {"{": 1, "}": -1}.get(body[i], 0)
            i += 1
        body = body[:m.end()] + body[i - 1:]
    vals = re.findall(r"\bshould_check_events\s*=(?!=)\s*([^;]+);", body)
    if not vals:
        raise ExtractError("poll_extract: should_check_events is never switched on")
    bad = [v.strip() for v in vals if v.strip() != "true"]
    if bad:
        raise ExtractError("poll_extract: should_check_events is assigned %r: an idle kernel thread can stop polling the timer and the descriptors for good" % (bad,))
    uses = len(re.findall(r"\bshould_check_events\b", body))
    return {"assignments": len(vals), "uses": uses}


if __name__ == "__main__":
    import sys
    print(check(sys.argv[1] if len(sys.argv) > 1 else "/repo"))
