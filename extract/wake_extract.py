#!/usr/bin/env python3
"""wake_extract.py — translator for the wake-up loops of src/fiber_manager.c (C03, C05, C07, C12:
fiber_manager_wake_from_mpsc_queue; C06: fiber_manager_wake_from_mpmc_queue), facts a trace
cannot show.

The models of the blocking primitives let an unlocker / signaller / serial fiber WAIT, however long
it takes, for a waiter that has announced itself (counter already changed) but has not enqueued
itself yet, and wake exactly the number of waiters asked for.  A bounded retry or a capped count
only differs from that after millions of polls or with more than a thousand waiters.  Checked
(fail closed: `ExtractError` = obligation broken in check.py), for both functions:

  exits  the body of `do { ... } while (wake_count < count);` contains no break / goto / return;
         that loop condition is the only way out
  count  `count` is not assigned anywhere in the mpsc function, and only by the one `count -= 1`
         in the mpmc function (as found)
"""
import os
import re


class ExtractError(Exception):
    pass


def _strip(src):
    src = re.sub(r"/\*.*?\*/", "", src, flags=re.S)
    return re.sub(r"//[^\n]*", "", src)


def _body(src, name):
    m = re.search(r"\b%s\s*\([^)]*\)\s*\{" % re.escape(name), src)
    if not m:
        raise ExtractError("wake_extract: definition of %s not found" % name)
    i = m.end()
    depth = 1
    while i < len(src) and depth:
        depth += {"{": 1, "}": -1}.get(src[i], 0)
        i += 1
    return src[m.end():i - 1]


def check(repo):
    src = _strip(open(os.path.join(repo, "src", "fiber_manager.c")).read())
    for fn, allowed in (("fiber_manager_wake_from_mpsc_queue", []), ("fiber_manager_wake_from_mpmc_queue", ["count-=1"])):
        body = _body(src, fn)
        m = re.search(r"\bdo\s*\{", body)
        if not m:
            raise ExtractError("wake_extract: %s: no do-while loop" % fn)
        i = m.end()
        depth = 1
        while i < len(body) and depth:
            depth += {"{": 1, "}": -1}.get(body[i], 0)
            i += 1
        loop = body[m.end():i - 1]
        tail = re.sub(r"\s+", "", body[i:])
        if not tail.startswith("while(wake_count<count);"):
            raise ExtractError("wake_extract: %s: loop condition is not `wake_count < count`: %s" % (fn, tail[:60]))
        for kw in ("break", "goto", "return"):
            if re.search(r"\b%s\b" % kw, loop):
                raise ExtractError("wake_extract: %s: the wake loop can be left by `%s` (the model waits for an announced waiter without bound)" % (fn, kw))
        flat = re.sub(r"\s+", "", body)
        assigns = re.findall(r"(?<![\w>.])count(?:=(?!=)|[-+*/%&|^]=|\+\+|--)[^;]*", flat)
        assigns += re.findall(r"(?:\+\+|--)count\b", flat)
        assigns = [a.rstrip(";") for a in assigns]
        if sorted(assigns) != sorted(allowed):
            raise ExtractError("wake_extract: %s: `count` is modified (%r): the model wakes exactly the number asked for" % (fn, assigns))
    return {"wake_loops": "unbounded, exact count"}


if __name__ == "__main__":
    import sys
    print(check(sys.argv[1] if len(sys.argv) > 1 else "/repo"))
