#!/usr/bin/env python3
"""mpmc_extract.py — translator for property C13 (include/mpmc_fifo.h), facts a trace cannot show.

The model `Mpmc` lets a pusher / popper retry, however often it takes, until its CAS on
`tail` / `head` succeeds, and reports EMPTY only from the one place where `head->prev` was read
as NULL.  A retry loop that gives up after a bounded number of failed CASes ("return NULL after 64
attempts") differs from that only when one operation loses more races in a row than a feasible
run makes it lose — and it is exactly a pop that reports empty although the queue never was.
Checked (fail closed: `ExtractError` = obligation broken in check.py):

  push    mpmc_fifo_push is one `while (1)` loop; the only way out is the `return` under
          `if (CAS(&fifo->tail, &tail, new_node))`; no break, no goto, nothing after the loop
  trypop  mpmc_fifo_trypop is one `while (1)` loop; the ways out are exactly
          `return NULL` under `if (!prev)` and `break` under `if (CAS(&fifo->head, &head, prev))`,
          followed by the single `return ret`; no goto
"""
import os
import re


class ExtractError(Exception):
    pass


def _strip(src):
    src = re.sub(r"/\*.*?\*/", "", src, flags=re.S)
    return re.sub(r"//[^\n]*", "", src)


def _body(src, name):
    m = re.search(r"\b%s\s*\([^)]*\)\s*\{" % re.escape(name), src)
    if not m:
        raise ExtractError("mpmc_extract: definition of %s not found" % name)
    i = m.end()
    depth = 1
    while i < len(src) and depth:
        depth += {"{": 1, "}": -1}.get(src[i], 0)
        i += 1
    return src[m.end():i - 1]


def _header_before(text, i):
    """the control header (`if (...)`, `while (...)`, `else`, …) that owns the '{' at text[i]"""
    j = i - 1
    while j >= 0 and text[j].isspace():
        j -= 1
    if j >= 0 and text[j] == ")":
        depth = 1
        k = j - 1
        while k >= 0 and depth:
            depth += {")": 1, "(": -1}.get(text[k], 0)
            k -= 1
        cond = text[k + 2:j]
        kw = re.search(r"(\w+)\s*$", text[:k + 1])
        return (kw.group(1) if kw else "?"), re.sub(r"\s+", "", cond)
    kw = re.search(r"(\w+)\s*$", text[:j + 1])
    return (kw.group(1) if kw else "block"), ""


def loop_exits(fn_body, who):
    """[(exit statement, innermost enclosing `if` condition)] for the single `while (1)` loop of the
    function, and the text after the loop"""
    loops = re.findall(r"\b(while|for|do)\b", fn_body)
    if loops != ["while"]:
        raise ExtractError("mpmc_extract: %s: expected exactly one while loop, found %r" % (who, loops))
    m = re.search(r"\bwhile\s*\(\s*1\s*\)\s*\{", fn_body)
    if not m:
        raise ExtractError("mpmc_extract: %s: the retry loop is not `while (1) {`" % who)
    start = m.end()
    stack = []
    exits = []
    i = start
    depth = 1
    while i < len(fn_body) and depth:
        c = fn_body[i]
        if c == "{":
            stack.append(_header_before(fn_body, i))
            depth += 1
        elif c == "}":
            depth -= 1
            if stack and depth >= 1:
                stack.pop()
        else:
            mm = re.match(r"\b(return|break|goto)\b([^;]*);", fn_body[i:])
            if mm and (i == 0 or not (fn_body[i - 1].isalnum() or fn_body[i - 1] == "_")):
                ifs = [s for s in stack if s[0] == "if"]
                if any(s[0] not in ("if",) for s in stack):
                    raise ExtractError("mpmc_extract: %s: exit `%s` inside a `%s` block" % (
                        who, mm.group(0), [s[0] for s in stack if s[0] != "if"][0]))
                exits.append((re.sub(r"\s+", " ", (mm.group(1) + mm.group(2)).strip()), ifs[-1][1] if ifs else ""))
                i += mm.end() - 1
        i += 1
    return exits, fn_body[i:]


def _is_cas(cond, cell, expected, desired):
    return re.fullmatch(r"atomic_compare_exchange_(weak|strong)_explicit\(&fifo->%s,&%s,%s,memory_order_\w+,memory_order_\w+\)" % (
        cell, expected, desired), cond) is not None


def check(repo):
    src = _strip(open(os.path.join(repo, "include", "mpmc_fifo.h")).read())
    push = _body(src, "mpmc_fifo_push")
    exits, tail = loop_exits(push, "mpmc_fifo_push")
    if len(exits) != 1 or exits[0][0] != "return" or not _is_cas(exits[0][1], "tail", "tail", "new_node"):
        raise ExtractError("mpmc_extract: mpmc_fifo_push: the retry loop has other exits than `return` after a successful CAS on tail: %r" % exits)
    if tail.strip():
        raise ExtractError("mpmc_extract: mpmc_fifo_push: code after the retry loop: %s" % tail.strip()[:80])

    pop = _body(src, "mpmc_fifo_trypop")
    exits, tail = loop_exits(pop, "mpmc_fifo_trypop")
    want_ok = (len(exits) == 2 and exits[0] == ("return NULL", "!prev") and exits[1][0] == "break"
               and _is_cas(exits[1][1], "head", "head", "prev"))
    if not want_ok:
        raise ExtractError("mpmc_extract: mpmc_fifo_trypop: the retry loop has other exits than `return NULL` under `!prev` and `break` after a successful CAS on head (the model retries without bound; EMPTY only where head->prev was NULL): %r" % exits)
    if re.sub(r"\s+", "", tail) != "returnret;":
        raise ExtractError("mpmc_extract: mpmc_fifo_trypop: code after the retry loop is not `return ret;`: %s" % tail.strip()[:80])
    if re.search(r"\bgoto\b", push + pop):
        raise ExtractError("mpmc_extract: goto in push/trypop")
    return {"push_loop": "unbounded, exit = CAS(tail) success", "trypop_loop": "unbounded, exits = {!prev -> EMPTY, CAS(head) success}"}


if __name__ == "__main__":
    import sys
    print(check(sys.argv[1] if len(sys.argv) > 1 else "/repo"))
