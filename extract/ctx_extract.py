#!/usr/bin/env python3
"""ctx_extract.py — translator for property C19 (context switch).

Input : <repo>/src/fiber_context.c  (+ the header that defines FIBER_MIN_STACK_SIZE)
Output: /verif/lean/LibfiberVerif/Gen/CtxAsm.lean  (written only if its content changed)

Deliberately dumb and strict: it emits DATA (instruction list, operand bindings, store
sequence, masks, decision values), never proofs, and it fails closed — every statement at a
site it must understand has to match one of the shapes listed here, otherwise
`ExtractError` is raised (= obligation broken in check.py).

What is extracted
  (a) the instruction list of the x86-64 `fiber_context_swap` inline asm, the input operand
      constraints ([from] "D" = rdi, [to] "S" = rsi) and the C expressions bound to them;
  (b) the pointer/store statement sequence of the x86-64 `fiber_context_init`;
  (c) FIBER_MIN_STACK_SIZE, and per stack strategy what `fiber_context_alloc_stack`
      guarantees about the stack size, which allocation/release calls it pairs, and the
      shape of `fiber_context_destroy` for both switching back-ends.
"""
import os
import re
import sys

HERE = os.path.dirname(os.path.abspath(__file__))
VERIF = os.path.dirname(HERE)
OUT = os.path.join(VERIF, "lean", "LibfiberVerif", "Gen", "CtxAsm.lean")


class ExtractError(Exception):
    pass


def fail(msg):
    raise ExtractError("ctx_extract: " + msg)


# ----------------------------------------------------------------------------- lexing helpers

def strip_comments(src):
    """remove // and /* */ comments outside string/char literals (newlines are kept)"""
    out = []
    i, n = 0, len(src)
    while i < n:
        c = src[i]
        if c == '"' or c == "'":
            j = i + 1
            while j < n and src[j] != c:
                if src[j] == "\\":
                    j += 1
                if j < n and src[j] == "\n":
                    fail("unterminated literal")
                j += 1
            if j >= n:
                fail("unterminated literal at offset %d" % i)
            out.append(src[i:j + 1])
            i = j + 1
        elif src.startswith("//", i):
            while i < n and src[i] != "\n":
                i += 1
        elif src.startswith("/*", i):
            j = src.find("*/", i + 2)
            if j < 0:
                fail("unterminated block comment")
            out.append("\n" * src.count("\n", i, j + 2) or " ")
            i = j + 2
        else:
            out.append(c)
            i += 1
    return "".join(out)


def norm(s):
    """collapse whitespace, drop it next to punctuation"""
    s = re.sub(r"\s+", " ", s.strip())
    s = re.sub(r" ?([^\w ]) ?", r"\1", s)
    return s


def match_close(s, i, op, cl):
    """s[i] == op; index of the matching closer (string literals skipped)"""
    assert s[i] == op
    depth = 0
    n = len(s)
    while i < n:
        c = s[i]
        if c == '"' or c == "'":
            j = i + 1
            while s[j] != c:
                if s[j] == "\\":
                    j += 1
                j += 1
            i = j + 1
            continue
        if c == op:
            depth += 1
        elif c == cl:
            depth -= 1
            if depth == 0:
                return i
        i += 1
    fail("unbalanced %s%s" % (op, cl))


# ----------------------------------------------------------------------------- preprocessor sections

IF_RE = re.compile(r"^\s*#\s*(if|ifdef|ifndef|elif|else|endif)\b(.*)$")


def pp_chains(text):
    """top-level #if chains of `text`: list of chains, a chain = list of (directive, cond, body)"""
    lines = text.split("\n")
    chains = []
    depth = 0
    cur = None
    body = []
    for ln in lines:
        m = IF_RE.match(ln)
        if m:
            d, cond = m.group(1), m.group(2).strip()
            if d in ("if", "ifdef", "ifndef"):
                depth += 1
                if depth == 1:
                    cur = []
                    chains.append(cur)
                    cur.append([d, cond, None])
                    body = []
                    continue
            elif d in ("elif", "else"):
                if depth == 1:
                    cur[-1][2] = "\n".join(body)
                    cur.append([d, cond, None])
                    body = []
                    continue
            elif d == "endif":
                if depth == 0:
                    fail("#endif without #if")
                depth -= 1
                if depth == 0:
                    cur[-1][2] = "\n".join(body)
                    cur = None
                    body = []
                    continue
        if depth >= 1:
            body.append(ln)
    if depth != 0:
        fail("unterminated #if")
    return chains


def find_backend_sections(text):
    """the top-level chain that selects the switching back-end: returns (x86_64 asm body, fallback body)"""
    cands = []
    for ch in pp_chains(text):
        hits = [b for b in ch if "__x86_64__" in b[1] and "FIBER_FAST_SWITCHING" in b[1]]
        if hits:
            cands.append((ch, hits))
    if len(cands) != 1 or len(cands[0][1]) != 1:
        fail("expected exactly one `__x86_64__ && FIBER_FAST_SWITCHING` section, found %d" % sum(len(h) for _, h in cands))
    ch, hits = cands[0]
    b = hits[0]
    c = norm(b[1])
    if "__i386__" in c or "!" in c or "||" in c:
        fail("unexpected condition on the x86-64 section: %s" % b[1])
    if not re.fullmatch(r"(defined\(__GNUC__\)&&)?defined\(__x86_64__\)&&defined\(FIBER_FAST_SWITCHING\)", c):
        fail("unexpected condition on the x86-64 section: %s" % b[1])
    if ch[-1][0] != "else":
        fail("back-end chain has no #else (ucontext) branch")
    return b[2], ch[-1][2]


def function_body(section, name):
    """body text (between the braces) of the single definition of `name` in `section`"""
    ms = list(re.finditer(r"\b%s\s*\(" % re.escape(name), section))
    defs = []
    for m in ms:
        close = match_close(section, m.end() - 1, "(", ")")
        j = close + 1
        while j < len(section) and section[j].isspace():
            j += 1
        if j < len(section) and section[j] == "{":
            defs.append((j, match_close(section, j, "{", "}")))
    if len(defs) != 1:
        fail("expected exactly one definition of %s, found %d" % (name, len(defs)))
    a, b = defs[0]
    return section[a + 1:b]


def statements(body):
    """split a function body into top-level statements.  Preprocessor lines become
    ('pp', line); `if (...) {...}` / `if (...) stmt;` become ('if', cond, [sub statements]);
    everything else ('stmt', normalised text)."""
    out = []
    i, n = 0, len(body)
    while i < n:
        if body[i].isspace():
            i += 1
            continue
        if body[i] == "#":
            j = body.find("\n", i)
            j = n if j < 0 else j
            out.append(("pp", norm(body[i:j])))
            i = j
            continue
        m = re.match(r"if\s*\(", body[i:])
        if m:
            p = i + m.end() - 1
            q = match_close(body, p, "(", ")")
            cond = norm(body[p + 1:q])
            j = q + 1
            while body[j].isspace():
                j += 1
            if body[j] == "{":
                k = match_close(body, j, "{", "}")
                sub = statements(body[j + 1:k])
                i = k + 1
            else:
                k = j
                depth = 0
                while not (body[k] == ";" and depth == 0):
                    if body[k] in "([":
                        depth += 1
                    elif body[k] in ")]":
                        depth -= 1
                    k += 1
                sub = statements(body[j:k + 1])
                i = k + 1
            out.append(("if", cond, sub))
            m2 = re.match(r"\s*else\s*\{", body[i:])
            if m2:
                j = i + m2.end() - 1
                k = match_close(body, j, "{", "}")
                out.append(("else", "", statements(body[j + 1:k])))
                i = k + 1
            elif re.match(r"\s*else\b", body[i:]):
                fail("unsupported else form")
            continue
        if body[i] == "{":
            fail("unexpected nested block")
        k = i
        depth = 0
        while k < n and not (body[k] == ";" and depth == 0):
            c = body[k]
            if c == '"' or c == "'":
                j = k + 1
                while body[j] != c:
                    if body[j] == "\\":
                        j += 1
                    j += 1
                k = j + 1
                continue
            if c in "([":
                depth += 1
            elif c in ")]":
                depth -= 1
            k += 1
        if k >= n:
            fail("statement without ';': %r" % body[i:i + 60])
        out.append(("stmt", norm(body[i:k])))
        i = k + 1
    return out


# ----------------------------------------------------------------------------- (a) the asm

REGS = ["rax", "rcx", "rdi", "rsi", "rsp", "rbp", "rbx", "r12", "r13", "r14", "r15"]
CONSTRAINT_REG = {"D": "rdi", "S": "rsi", "a": "rax", "c": "rcx"}


def c_string_value(lit):
    """value of one C string literal (only \\n and \\t escapes are accepted)"""
    assert lit[0] == '"' and lit[-1] == '"'
    s = lit[1:-1]
    out = []
    i = 0
    while i < len(s):
        if s[i] == "\\":
            if i + 1 >= len(s) or s[i + 1] not in "nt":
                fail("unsupported escape in asm template: %r" % lit)
            out.append("\n" if s[i + 1] == "n" else "\t")
            i += 2
        else:
            out.append(s[i])
            i += 1
    return "".join(out)


def split_top(s, sep):
    """split at top-level `sep` (outside literals and parentheses)"""
    parts = []
    depth = 0
    cur = []
    i = 0
    while i < len(s):
        c = s[i]
        if c == '"' or c == "'":
            j = i + 1
            while s[j] != c:
                if s[j] == "\\":
                    j += 1
                j += 1
            cur.append(s[i:j + 1])
            i = j + 1
            continue
        if c in "([":
            depth += 1
        elif c in ")]":
            depth -= 1
        if c == sep and depth == 0:
            parts.append("".join(cur))
            cur = []
        else:
            cur.append(c)
        i += 1
    parts.append("".join(cur))
    return parts


def parse_operand_reg(tok, opmap):
    """%%reg or %[name] → register name"""
    m = re.fullmatch(r"%%(\w+)", tok)
    if m:
        if m.group(1) not in REGS:
            fail("unknown register %s" % tok)
        return m.group(1)
    m = re.fullmatch(r"%\[(\w+)\]", tok)
    if m:
        if m.group(1) not in opmap:
            fail("unknown asm operand %s" % tok)
        return opmap[m.group(1)]
    fail("unknown operand form %r" % tok)


def parse_instr(text, opmap):
    """one assembly line → (lean term, pretty string)"""
    t = text.strip()
    m = re.fullmatch(r"(\d+):", t)
    if m:
        return ".label %s" % m.group(1), t
    m = re.fullmatch(r"(\w+)\s+(.*)", t)
    if not m:
        fail("unparsable asm line %r" % text)
    mn = m.group(1)
    ops = [o.strip() for o in split_top(m.group(2), ",")]
    R = lambda tok: parse_operand_reg(tok, opmap)

    def memop(tok):
        mm = re.fullmatch(r"(\d*)\((%%\w+|%\[\w+\])\)", tok)
        if not mm:
            return None
        return (int(mm.group(1)) if mm.group(1) else 0, R(mm.group(2)))

    if mn == "leaq" and len(ops) == 2:
        mm = re.fullmatch(r"(\d+)f\(%%rip\)", ops[0])
        if not mm:
            fail("unknown leaq source %r" % ops[0])
        return ".leaLabel %s .%s" % (mm.group(1), R(ops[1])), t
    if mn == "movq" and len(ops) == 2:
        src_mem, dst_mem = memop(ops[0]), memop(ops[1])
        if src_mem and not dst_mem:
            return ".load %d .%s .%s" % (src_mem[0], src_mem[1], R(ops[1])), t
        if dst_mem and not src_mem:
            return ".store .%s %d .%s" % (R(ops[0]), dst_mem[0], dst_mem[1]), t
        if not src_mem and not dst_mem:
            return ".movReg .%s .%s" % (R(ops[0]), R(ops[1])), t
        fail("unknown movq form %r" % text)
    if mn == "pushq" and len(ops) == 1:
        return ".push .%s" % R(ops[0]), t
    if mn == "popq" and len(ops) == 1:
        return ".pop .%s" % R(ops[0]), t
    if mn in ("add", "addq") and len(ops) == 2:
        mm = re.fullmatch(r"\$(\d+)", ops[0])
        if not mm:
            fail("unknown add source %r" % ops[0])
        return ".addImm %s .%s" % (mm.group(1), R(ops[1])), t
    if mn == "jmp" and len(ops) == 1:
        mm = re.fullmatch(r"\*(%%\w+)", ops[0])
        if not mm:
            fail("unknown jmp target %r" % ops[0])
        return ".jmpReg .%s" % R(mm.group(1)), t
    fail("unknown mnemonic / operand form: %r" % text)


SWAP_OK_STMTS = [
    r"assert\(from_context\)", r"assert\(to_context\)",
    r"__tsan_switch_to_fiber\(to_context->tsan_fiber,0\)",
    r"__splitstack_getcontext\(from_context->splitstack_context\)",
    r"__splitstack_setcontext\(to_context->splitstack_context\)",
    r"__builtin_prefetch\(\(void\*\*\)to_sp([+-]\d+/\d+)?,[01],3\)",
]
SWAP_OK_PP = [r"#if __SANITIZE_THREAD__", r"#ifdef FIBER_STACK_SPLIT", r"#endif"]


def parse_sp_expr(e):
    m = re.fullmatch(r"(&?)(from|to)_context->ctx_stack_pointer", e)
    if not m:
        fail("asm operand bound to an unknown expression: %r" % e)
    return (".slotAddr" if m.group(1) else ".slotValue") + (" .fromCtx" if m.group(2) == "from" else " .toCtx")


def extract_swap(section):
    body = function_body(section, "fiber_context_swap")
    sts = statements(body)
    var = {}
    asm = None
    for st in sts:
        if st[0] == "pp":
            if not any(re.fullmatch(p, st[1]) for p in SWAP_OK_PP):
                fail("unexpected preprocessor line in fiber_context_swap: %s" % st[1])
            continue
        if st[0] != "stmt":
            fail("unexpected control flow in fiber_context_swap: %r" % (st,))
        s = st[1]
        m = re.fullmatch(r"void\*\*\*const (\w+)=(.*)", s) or re.fullmatch(r"void\*\*const (\w+)=(.*)", s)
        if m:
            if asm is not None:
                fail("declaration after the asm statement")
            var[m.group(1)] = parse_sp_expr(m.group(2))
            continue
        if s.startswith("__asm__ volatile(") or s.startswith("__asm__ __volatile__(") or s.startswith("asm volatile("):
            if asm is not None:
                fail("more than one asm statement in fiber_context_swap")
            asm = s
            continue
        if any(re.fullmatch(p, s) for p in SWAP_OK_STMTS):
            if asm is not None:
                fail("statement after the asm in fiber_context_swap: %s" % s)
            continue
        fail("unexpected statement in fiber_context_swap: %s" % s)
    if asm is None:
        fail("no asm statement in fiber_context_swap")
    if sts[-1] != ("stmt", asm):
        fail("the asm is not the last statement of fiber_context_swap")
    # the raw (un-normalised) asm text: re-slice from the body so string contents are intact
    m = re.search(r"(__asm__|asm)\s+(volatile|__volatile__)\s*\(", body)
    p = m.end() - 1
    q = match_close(body, p, "(", ")")
    inner = body[p + 1:q]
    parts = split_top(inner, ":")
    if len(parts) != 4:
        fail("asm statement: expected template : outputs : inputs : clobbers, got %d parts" % len(parts))
    template, outputs, inputs, clobbers = parts
    if outputs.strip():
        fail("asm statement has output operands: %r" % outputs)
    lits = re.findall(r'"(?:[^"\\]|\\.)*"', template)
    if re.sub(r'"(?:[^"\\]|\\.)*"', "", template).strip():
        fail("asm template contains something other than string literals")
    text = "".join(c_string_value(l) for l in lits)
    # inputs
    opmap = {}
    ins = []
    for op in split_top(inputs, ","):
        m = re.fullmatch(r'\[(\w+)\]\s*"(\w+)"\s*\((\w+)\)', op.strip())
        if not m:
            fail("unknown asm input operand %r" % op)
        nm, cons, v = m.groups()
        if cons not in CONSTRAINT_REG:
            fail("unknown asm constraint %r" % cons)
        if v not in var:
            fail("asm operand bound to unknown variable %r" % v)
        if nm in opmap or CONSTRAINT_REG[cons] in opmap.values():
            fail("duplicate asm operand %r" % nm)
        opmap[nm] = CONSTRAINT_REG[cons]
        ins.append((nm, cons, CONSTRAINT_REG[cons], v, var[v]))
    clob = [c.strip().strip('"') for c in split_top(clobbers, ",") if c.strip()]
    pieces = text.split("\n\t")
    if pieces[-1] != "":
        fail("asm template does not end with \\n\\t")
    instrs = []
    for pc in pieces[:-1]:
        if "\n" in pc or not pc.strip():
            fail("unexpected line structure in asm template: %r" % pc)
        term, pretty = parse_instr(pc.replace("\t", " "), opmap)
        instrs.append((term, " ".join(pretty.replace("%%", "%").split())))
    return {"instrs": instrs, "inputs": ins, "clobbers": clob}


# ----------------------------------------------------------------------------- (b) fresh frame

SP = r"context->ctx_stack_pointer"
INIT_TAIL_OK = [
    r"STACK_REGISTER\(context,context->ctx_stack,context->ctx_stack_size\)",
    r"context->tsan_fiber=__tsan_create_fiber\(0\)",
    r"return FIBER_SUCCESS",
]
INIT_VALS = {"param": ".param", "NULL": ".null", "(void*)run_function": ".runFunction", "0": ".zero"}


def parse_mask(tok):
    m = re.fullmatch(r"~(0[xX][0-9a-fA-F]+|\d+)", tok)
    if not m:
        fail("unknown alignment mask %r" % tok)
    return int(m.group(1), 0)


def extract_init(section):
    body = function_body(section, "fiber_context_init")
    sts = statements(body)
    i = 0
    info = {"checks_size_nonzero": False}
    # argument check
    st = sts[i]
    if st[0] == "if" and st[2] == [("stmt", "errno=EINVAL"), ("stmt", "return FIBER_ERROR")]:
        conds = st[1].split("||")
        if not all(re.fullmatch(r"!\w+", c) for c in conds):
            fail("unknown argument check %r" % st[1])
        info["checks_size_nonzero"] = "!stack_size" in conds
        i += 1
    st = sts[i]
    if not (st[0] == "if" and st[1] == "!fiber_context_alloc_stack(context,stack_size)"
            and st[2] == [("stmt", "return FIBER_ERROR")]):
        fail("expected `if (!fiber_context_alloc_stack(context, stack_size)) return FIBER_ERROR;`, got %r" % (st,))
    i += 1
    alloc_calls = sum(1 for s in sts if "fiber_context_alloc_stack" in repr(s))
    ops = []
    assert_mask = None
    clears = 0
    seen_tail = False
    for st in sts[i:]:
        if st[0] == "pp":
            if st[1] not in ("#if __SANITIZE_THREAD__", "#endif"):
                fail("unexpected preprocessor line in fiber_context_init: %s" % st[1])
            continue
        if st[0] != "stmt":
            fail("unexpected control flow in fiber_context_init: %r" % (st,))
        s = st[1]
        m = re.fullmatch(SP + r"=\(void\*\*\)\(\(char\*\)context->ctx_stack\+context->ctx_stack_size\)-(\d+)", s)
        if m and not seen_tail and not ops:
            ops += [".top", ".subSlots %s" % m.group(1)]
            continue
        m = re.fullmatch(SP + r"=\(void\*\)\(\(uintptr_t\)" + SP + r"&(~\w+)\)", s)
        if m and not seen_tail and ops:
            ops.append(".andNot %d" % parse_mask(m.group(1)))
            continue
        if s == "--" + SP and not seen_tail and ops:
            ops.append(".dec")
            continue
        m = re.fullmatch(r"\*--" + SP + r"=(.+)", s)
        if m and not seen_tail and ops:
            if m.group(1) not in INIT_VALS:
                fail("unknown value stored into the fresh frame: %r" % m.group(1))
            ops.append(".storeDec %s" % INIT_VALS[m.group(1)])
            continue
        m = re.fullmatch(r"assert\(\(\(uintptr_t\)" + SP + r"&(\w+)\)==0\)", s)
        if m and ops:
            assert_mask = int(m.group(1), 0)
            seen_tail = True
            continue
        if s == "context->is_thread=0":
            clears += 1
            seen_tail = True
            continue
        if any(re.fullmatch(p, s) for p in INIT_TAIL_OK):
            seen_tail = True
            continue
        fail("unexpected statement in fiber_context_init: %s" % s)
    if not ops:
        fail("no stack-pointer statements found in fiber_context_init")
    if sts[-1] != ("stmt", "return FIBER_SUCCESS"):
        fail("fiber_context_init does not end with return FIBER_SUCCESS")
    info.update({"ops": ops, "assert_mask": assert_mask, "clears_is_thread": clears == 1, "alloc_calls": alloc_calls})
    return info


# ----------------------------------------------------------------------------- (c) constants / decisions

def find_define(repo, name):
    hits = []
    for rel in ("include/fiber.h", "include/fiber_context.h", "src/fiber_context.c", "include/machine_specific.h"):
        p = os.path.join(repo, rel)
        if not os.path.exists(p):
            continue
        txt = strip_comments(open(p).read())
        for m in re.finditer(r"^\s*#\s*define\s+%s\s+\(?\s*(\d+)\s*\)?\s*$" % name, txt, re.M):
            hits.append((rel, int(m.group(1))))
    if len(hits) != 1:
        fail("expected exactly one numeric #define of %s, found %r" % (name, hits))
    return hits[0]


STRAT_COND = {"defined(FIBER_STACK_SPLIT)": "split", "defined(FIBER_STACK_MALLOC)": "malloc",
              "defined(FIBER_STACK_MMAP)": "mmap"}


def strategy_branches(body, fn):
    """the single #if chain over the stack strategies inside a function body:
    returns (prefix statements, {strategy: statements}, suffix statements)"""
    chains = [ch for ch in pp_chains(body) if any(norm(b[1]) in STRAT_COND for b in ch)]
    if len(chains) != 1:
        fail("%s: expected exactly one strategy #if chain, found %d" % (fn, len(chains)))
    ch = chains[0]
    res = {}
    for d, cond, txt in ch:
        if d == "else":
            if norm(txt) != "#error select a stack allocation strategy":
                fail("%s: unexpected #else branch" % fn)
            continue
        c = norm(cond)
        if c not in STRAT_COND or d not in ("if", "elif"):
            fail("%s: unexpected strategy condition %r" % (fn, cond))
        if STRAT_COND[c] in res:
            fail("%s: duplicate strategy branch" % fn)
        res[STRAT_COND[c]] = statements(txt)
    if set(res) != {"split", "malloc", "mmap"}:
        fail("%s: strategy branches are %r" % (fn, sorted(res)))
    # prefix / suffix: text outside the chain
    lines = body.split("\n")
    depth = 0
    pre, post, seen = [], [], False
    for ln in lines:
        m = IF_RE.match(ln)
        if m:
            d = m.group(1)
            if d in ("if", "ifdef", "ifndef"):
                depth += 1
                seen = True
            elif d == "endif":
                depth -= 1
            continue
        if depth == 0:
            (post if seen else pre).append(ln)
    return statements("\n".join(pre)), res, statements("\n".join(post))


def parse_clamp(st, consts):
    """`if (stack_size < N) stack_size = N;` → N or None"""
    if st[0] != "if":
        return None
    m = re.fullmatch(r"stack_size<(\w+)", st[1])
    if not m or st[2] != [("stmt", "stack_size=%s" % m.group(1))]:
        fail("unknown conditional in fiber_context_alloc_stack: %r" % (st,))
    tok = m.group(1)
    if tok.isdigit():
        return int(tok)
    if tok not in consts:
        fail("clamp refers to unknown constant %s" % tok)
    return consts[tok]


def extract_round_to_page(text):
    body = function_body(text, "fiber_round_to_page_size")
    sts = statements(body)
    want_if = ("if", "!fiberPageSize", [("stmt", "fiberPageSize=sysconf(_SC_PAGESIZE)"), None])
    if len(sts) != 4 or sts[0][0] != "if" or sts[0][1] != "!fiberPageSize" or len(sts[0][2]) != 2 \
            or sts[0][2][0] != want_if[2][0]:
        fail("fiber_round_to_page_size: unexpected shape %r" % (sts,))
    m = re.fullmatch(r"fiberPageSize-=(\d+)", sts[0][2][1][1])
    if not m:
        fail("fiber_round_to_page_size: unexpected page-size adjustment %r" % (sts[0][2][1],))
    slack = int(m.group(1))
    if sts[1] != ("stmt", "const size_t numPages=size/fiberPageSize+1"):
        fail("fiber_round_to_page_size: unexpected %r" % (sts[1],))
    m = re.fullmatch(r"const size_t numPagesAfterMin=numPages>=(\d+)\?numPages:(\d+)", sts[2][1])
    if not m or m.group(1) != m.group(2):
        fail("fiber_round_to_page_size: unexpected %r" % (sts[2],))
    if sts[3] != ("stmt", "return fiberPageSize*numPagesAfterMin"):
        fail("fiber_round_to_page_size: unexpected %r" % (sts[3],))
    return int(m.group(1)), slack


def extract_alloc(text, consts):
    body = function_body(text, "fiber_context_alloc_stack")
    pre, br, post = strategy_branches(body, "fiber_context_alloc_stack")
    common = None
    for st in pre:
        c = parse_clamp(st, consts)
        if c is None:
            fail("unexpected statement before the strategy selection in fiber_context_alloc_stack: %r" % (st,))
        common = max(common or 0, c)
    if post != [("stmt", "return context->ctx_stack?1:0")]:
        fail("fiber_context_alloc_stack: unexpected tail %r" % (post,))
    out = {}
    # split
    sts = br["split"]
    want = [("stmt", "context->ctx_stack=__splitstack_makecontext(stack_size,context->splitstack_context,&context->ctx_stack_size)"),
            ("stmt", "int off=0"),
            ("stmt", "__splitstack_block_signals_context(context->splitstack_context,&off,NULL)")]
    if sts != want:
        fail("split strategy: unexpected allocation code %r" % (sts,))
    out["split"] = {"allocs": [".splitstackMake"], "min": ".external"}
    # malloc
    sts = list(br["malloc"])
    clamp = common
    while sts and sts[0][0] == "if":
        c = parse_clamp(sts[0], consts)
        clamp = max(clamp or 0, c)
        sts.pop(0)
    if sts != [("stmt", "context->ctx_stack=malloc(stack_size)"), ("stmt", "context->ctx_stack_size=stack_size")]:
        fail("malloc strategy: unexpected allocation code %r" % (sts,))
    out["malloc"] = {"allocs": [".malloc"], "min": (".clamp %d" % clamp) if clamp else ".requested"}
    # mmap
    sts = list(br["mmap"])
    # the rounded size is computed in size_t: without this check a request within a page of
    # SIZE_MAX wraps to a tiny mapping whose only page is the guard page (found on the pinned
    # tree: fiber_context_init(ctx, SIZE_MAX, ...) crashed).  `.pages` below promises its minimum
    # for EVERY accepted request, so the check is required, not optional.
    wrap_check = ("if", "context->ctx_stack_size<stack_size", [("stmt", "errno=ENOMEM"), ("stmt", "return 0")])
    if len(sts) >= 2 and sts[1] == wrap_check:
        sts.pop(1)
    else:
        fail("mmap strategy: the rounded stack size can wrap around (no `ctx_stack_size < stack_size` check after fiber_round_to_page_size)")
    if len(sts) != 4 or sts[0] != ("stmt", "context->ctx_stack_size=fiber_round_to_page_size(stack_size)") \
            or sts[1] != ("stmt", "context->ctx_stack=mmap(0,context->ctx_stack_size,PROT_READ|PROT_WRITE,MAP_PRIVATE|MAP_ANONYMOUS,-1,0)") \
            or sts[2] != ("if", "context->ctx_stack==MAP_FAILED", [("stmt", "return 0")]):
        fail("mmap strategy: unexpected allocation code %r" % (sts,))
    guard = False
    if sts[3] == ("if", "mprotect(context->ctx_stack,1,PROT_NONE)",
                  [("stmt", "munmap(context->ctx_stack,context->ctx_stack_size)"), ("stmt", "return 0")]):
        guard = True
    else:
        fail("mmap strategy: unexpected guard-page code %r" % (sts[3],))
    pages, slack = extract_round_to_page(text)
    out["mmap"] = {"allocs": [".mmap"], "min": ".pages %d %d %s" % (pages, slack, "true" if guard else "false")}
    return out


def extract_free(text):
    body = function_body(text, "fiber_free_stack")
    pre, br, post = strategy_branches(body, "fiber_free_stack")
    if pre or post:
        fail("fiber_free_stack: statements outside the strategy selection")
    want = {"split": ([("stmt", "__splitstack_releasecontext(context->splitstack_context)")], ".splitstackRelease"),
            "malloc": ([("stmt", "free(context->ctx_stack)")], ".free"),
            "mmap": ([("stmt", "munmap(context->ctx_stack,context->ctx_stack_size)")], ".munmap")}
    out = {}
    for k, (w, kind) in want.items():
        if br[k] != w:
            fail("fiber_free_stack, %s strategy: unexpected release code %r" % (k, br[k]))
        out[k] = [kind]
    return out


def flat(sts):
    for st in sts:
        if st[0] in ("if", "else"):
            yield ("cond", st[1])
            for x in flat(st[2]):
                yield x
        else:
            yield st


def extract_destroy(section, backend):
    body = function_body(section, "fiber_context_destroy")
    sts = statements(body)
    calls = sum(1 for st in flat(sts) if st[0] == "stmt" and st[1] == "fiber_free_stack(context)")
    other = [st for st in flat(sts) if st[0] == "stmt" and "fiber_free_stack" in st[1] and st[1] != "fiber_free_stack(context)"]
    if other:
        fail("fiber_context_destroy: unknown use of fiber_free_stack %r" % other)
    guarded = False
    for st in sts:
        if st[0] == "if" and st[1] in ("context&&!context->is_thread", "!context->is_thread"):
            inner = [x for x in st[2] if x == ("stmt", "fiber_free_stack(context)")]
            if len(inner) == calls and calls > 0:
                guarded = True
    return {"backend": backend, "calls": calls, "guarded": guarded}


def extract_ucontext_init(section):
    body = function_body(section, "fiber_context_init")
    sts = list(flat(statements(body)))
    alloc = sum(1 for st in sts if st == ("cond", "!fiber_context_alloc_stack(context,stack_size)"))
    clears = sum(1 for st in sts if st == ("stmt", "context->is_thread=0"))
    return {"alloc_calls": alloc, "clears_is_thread": clears == 1}


# ----------------------------------------------------------------------------- emit

def lean_list(items, indent="  "):
    if not items:
        return "[]"
    return "[\n" + ",\n".join(indent + "  " + it for it in items) + "\n" + indent + "]"


def extract(repo):
    path = os.path.join(repo, "src", "fiber_context.c")
    raw = open(path).read()
    text = strip_comments(raw)
    asm_sec, uctx_sec = find_backend_sections(text)
    swap = extract_swap(asm_sec)
    init = extract_init(asm_sec)
    src_file, min_stack = find_define(repo, "FIBER_MIN_STACK_SIZE")
    consts = {"FIBER_MIN_STACK_SIZE": min_stack}
    alloc = extract_alloc(text, consts)
    free = extract_free(text)
    d_asm = extract_destroy(asm_sec, "asm")
    d_uc = extract_destroy(uctx_sec, "ucontext")
    uc_init = extract_ucontext_init(uctx_sec)
    return {"swap": swap, "init": init, "min_stack": min_stack, "min_stack_file": src_file,
            "alloc": alloc, "free": free, "destroy": [
                dict(d_asm, clears=init["clears_is_thread"], alloc_calls=init["alloc_calls"]),
                dict(d_uc, clears=uc_init["clears_is_thread"], alloc_calls=uc_init["alloc_calls"])]}


def render(x):
    sw, ini = x["swap"], x["init"]
    L = []
    L.append("/-")
    L.append("  Gen/CtxAsm.lean — GENERATED by extract/ctx_extract.py from src/fiber_context.c.")
    L.append("  Do not edit: regenerated (and overwritten when different) on every `check.py C19`.")
    L.append("-/")
    L.append("import LibfiberVerif.Model.Ctx")
    L.append("")
    L.append("namespace LibfiberVerif.Gen.CtxAsm")
    L.append("open LibfiberVerif.Ctx")
    L.append("")
    L.append("/-- the x86-64 `fiber_context_swap` asm, one entry per line of the template -/")
    n = len(sw["instrs"])
    L.append("def swapInstrs : List Instr := [")
    for k, (t, p) in enumerate(sw["instrs"]):
        L.append("    %-26s -- %s" % (t + ("," if k < n - 1 else ""), p))
    L.append("  ]")
    L.append("")
    L.append("/-- input operands: name, register selected by the constraint, bound C expression -/")
    L.append("def swapInputs : List AsmIn := " + lean_list(
        ['{ name := "%s", reg := .%s, expr := %s }' % (nm, reg, ex) for nm, cons, reg, v, ex in sw["inputs"]]))
    L.append("")
    L.append("/-- clobber list of the asm statement -/")
    L.append("def swapClobbers : List String := [%s]" % ", ".join('"%s"' % c for c in sw["clobbers"]))
    L.append("")
    L.append("/-- stack-pointer statements of the x86-64 `fiber_context_init`, in source order -/")
    L.append("def initOps : List InitOp := " + lean_list(ini["ops"]))
    L.append("")
    L.append("/-- mask of the `assert(((uintptr_t)sp & mask) == 0)` behind the stores (0 = no assert) -/")
    L.append("def initAssertMask : Nat := %d" % (ini["assert_mask"] or 0))
    L.append("/-- `fiber_context_init` rejects `stack_size == 0` -/")
    L.append("def initRejectsZeroSize : Bool := %s" % ("true" if ini["checks_size_nonzero"] else "false"))
    L.append("")
    L.append("/-- `FIBER_MIN_STACK_SIZE` (%s) -/" % x["min_stack_file"])
    L.append("def fiberMinStackSize : Nat := %d" % x["min_stack"])
    L.append("")
    L.append("/-- per stack strategy: allocation calls, release calls, guaranteed minimum size -/")
    L.append("def strategies : List Strategy := " + lean_list(
        ['{ name := "%s", allocs := [%s], frees := [%s], min := %s }' % (
            k, ", ".join(x["alloc"][k]["allocs"]), ", ".join(x["free"][k]), x["alloc"][k]["min"])
         for k in ("split", "mmap", "malloc")]))
    L.append("")
    L.append("/-- `fiber_context_destroy` / `fiber_context_init` shape per switching back-end -/")
    L.append("def destroyShapes : List DestroyShape := " + lean_list(
        ['{ backend := "%s", freeStackCalls := %d, guardedByNotThread := %s, initClearsIsThread := %s, initAllocCalls := %d }' % (
            d["backend"], d["calls"], "true" if d["guarded"] else "false", "true" if d["clears"] else "false", d["alloc_calls"])
         for d in x["destroy"]]))
    L.append("")
    L.append("end LibfiberVerif.Gen.CtxAsm")
    return "\n".join(L) + "\n"


def generate(repo, out=OUT):
    x = extract(repo)
    txt = render(x)
    old = None
    if os.path.exists(out):
        old = open(out).read()
    if old != txt:
        os.makedirs(os.path.dirname(out), exist_ok=True)
        tmp = out + ".tmp%d" % os.getpid()
        open(tmp, "w").write(txt)
        os.replace(tmp, out)
    return x, old != txt


def summary(x):
    """what the translator extracted, for evidence"""
    return {
        "swap_instructions": [p for _, p in x["swap"]["instrs"]],
        "swap_instrs_lean": [t for t, _ in x["swap"]["instrs"]],
        "swap_inputs": ["[%s] \"%s\" = %s <- %s (%s)" % i for i in x["swap"]["inputs"]],
        "swap_clobbers": x["swap"]["clobbers"],
        "init_ops": x["init"]["ops"],
        "init_assert_mask": x["init"]["assert_mask"],
        "FIBER_MIN_STACK_SIZE": x["min_stack"],
        "strategy_min": {k: x["alloc"][k]["min"] for k in x["alloc"]},
        "strategy_free": x["free"],
        "destroy": x["destroy"],
    }


if __name__ == "__main__":
    repo = os.environ.get("VERIF_REPO", "/repo")
    if len(sys.argv) > 1:
        repo = sys.argv[1]
    try:
        x, changed = generate(repo)
    except ExtractError as e:
        print(str(e))
        sys.exit(2)
    import json
    print(json.dumps(summary(x), indent=1))
    print("written" if changed else "unchanged", OUT)
