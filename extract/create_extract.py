#!/usr/bin/env python3
"""create_extract.py — translator for C19's release-exactly-once clause at the one place the context
harness does not reach: what src/fiber.c does with a context whose fiber_context_init FAILED.

fiber_context_init releases whatever it had allocated before it reports failure (checked by the
context harness for every strategy and back-end: nothing stays allocated behind a refused init).
The caller must therefore not destroy that context again.  Checked (fail closed: `ExtractError`):
in fiber_create_no_sched, the branch taken when fiber_context_init did not return FIBER_SUCCESS
contains only `free(...)` of the fiber's own blocks, an optional `errno = ...;` and `return NULL;`
- no call of fiber_context_destroy / fiber_destroy / any other function.
(The failing init itself needs an unsatisfiable stack size or an exhausted address space and a
non-default stack strategy; no run of the default build takes that branch.)"""
import os
import re


class ExtractError(Exception):
    pass


def check(repo):
    src = open(os.path.join(repo, "src", "fiber.c")).read()
    src = re.sub(r"/\*.*?\*/", "", src, flags=re.S)
    src = re.sub(r"//[^\n]*", "", src)
    m = re.search(r"\bfiber_create_no_sched\s*\([^)]*\)\s*\{", src)
    if not m:
        raise ExtractError("create_extract: fiber_create_no_sched not found")
    i = m.end()
    depth = 1
    while i < len(src) and depth:
        depth += {"{": 1, "}": -1}.get(src[i], 0)
        i += 1
    body = src[m.end():i - 1]
    flat = re.sub(r"\s+", "", body)
    k = flat.find("fiber_context_init(")
    if k < 0:
        raise ExtractError("create_extract: fiber_create_no_sched does not call fiber_context_init")
    # the `if (... fiber_context_init(...)) {` block
    j = flat.rfind("if(", 0, k)
    b = flat.find("{", k)
    if j < 0 or b < 0 or "FIBER_SUCCESS!=" not in flat[j:k] and "!fiber_context_init(" not in flat[j:k + 19]:
        raise ExtractError("create_extract: the result of fiber_context_init is not tested in the known shape")
    depth = 1
    e = b + 1
    while e < len(flat) and depth:
        depth += {"{": 1, "}": -1}.get(flat[e], 0)
        e += 1
    block = flat[b + 1:e - 1]
    stmts = [s for s in block.split(";") if s]
    for s in stmts:
        if re.fullmatch(r"free\(ret(->\w+)?\)", s) or s == "returnNULL" or re.fullmatch(r"errno=\w+", s):
            continue
        raise ExtractError("create_extract: after a FAILED fiber_context_init fiber_create_no_sched does `%s;` (the context was already released by the failing init)" % s)
    if "returnNULL" not in stmts:
        raise ExtractError("create_extract: the failure branch of fiber_create_no_sched does not return NULL")
    return {"failed_init_branch": stmts}


if __name__ == "__main__":
    import sys
    print(check(sys.argv[1] if len(sys.argv) > 1 else "/repo"))
