#!/usr/bin/env python3
"""sleep_extract.py — translator for property C09 (sleeping fibers).

Input : <repo>/src/fiber_event_native.c, <repo>/src/fiber_io.c, <repo>/include/fiber_event.h
Output: /verif/lean/LibfiberVerif/Gen/SleepDecisions.lean (written only if its content changed)
        and the decision string handed to harness/sleep.c (-> `init` note -> the Lean driver
        validates every trace against exactly this variant of Model/Sleep.lean).

Deliberately dumb and strict: it emits DATA (three booleans and the timer period), never
proofs, and it fails closed: every site must match one of the shapes listed here, otherwise
`ExtractError` is raised (= obligation broken in check.py).

Decisions (see Model/Sleep.lean `Variant`)
  nextFirst : in the `do { … } while (to_wake);` loop of the wake pass, `to_wake = to_wake->next;`
              comes before `to_schedule->state = FIBER_STATE_READY;` and
              `fiber_manager_schedule(manager, to_schedule);` (as found: after both)
  drains    : the timer fd is read in `fiber_event_wake_sleepers_locked`, which fiber_sleep
              calls between taking sleep_spinlock and reading timer_trigger_count
              (as found: read in fiber_poll_events_internal before the lock is taken)
  widen     : `(uint64_t)seconds * 1000 + useconds / 1000 + 1` and nanosleep splits tv_sec
              (as found: `seconds * 1000 + …` in 32 bits, `fiber_sleep(rqtp->tv_sec, …)`)
  period    : FIBER_TIME_RESOLUTION_MS * 1000 microseconds
"""
import os
import re
import sys

HERE = os.path.dirname(os.path.abspath(__file__))
VERIF = os.path.dirname(HERE)
OUT = os.path.join(VERIF, "lean", "LibfiberVerif", "Gen", "SleepDecisions.lean")


class ExtractError(Exception):
    pass


def strip_comments(src):
    src = re.sub(r"/\*.*?\*/", lambda m: "\n" * m.group(0).count("\n"), src, flags=re.S)
    return re.sub(r"//[^\n]*", "", src)


def norm(s):
    return re.sub(r"\s+", "", s)


def func_body(src, name):
    """text of the body of the (unique) definition of function `name`"""
    hits = [m for m in re.finditer(r"\b%s\s*\(" % re.escape(name), src)]
    bodies = []
    for m in hits:
        i = m.end() - 1
        depth = 0
        while i < len(src):
            if src[i] == "(":
                depth += 1
            elif src[i] == ")":
                depth -= 1
                if depth == 0:
                    break
            i += 1
        j = i + 1
        while j < len(src) and src[j] in " \t\r\n":
            j += 1
        if j < len(src) and src[j] == "{":
            d = 0
            k = j
            while k < len(src):
                if src[k] == "{":
                    d += 1
                elif src[k] == "}":
                    d -= 1
                    if d == 0:
                        bodies.append(src[j:k + 1])
                        break
                k += 1
    if len(bodies) != 1:
        raise ExtractError("sleep_extract: expected exactly one definition of %s, found %d" % (name, len(bodies)))
    return bodies[0]


def linux_branch(body):
    """drop the SOLARIS / #else branches of `#if defined(__linux__) … #elif … #endif`"""
    out = []
    keep = [True]
    for line in body.split("\n"):
        s = line.strip()
        if s.startswith("#if"):
            keep.append("__linux__" in s)
        elif s.startswith("#elif") or s.startswith("#else"):
            keep[-1] = False
        elif s.startswith("#endif"):
            keep.pop()
        elif all(keep):
            out.append(line)
    return "\n".join(out)


def decisions(repo, strict=True):
    errs = []

    def bad(msg):
        errs.append(msg)

    ev = strip_comments(open(os.path.join(repo, "src", "fiber_event_native.c")).read())
    io = strip_comments(open(os.path.join(repo, "src", "fiber_io.c")).read())
    hdr = strip_comments(open(os.path.join(repo, "include", "fiber_event.h")).read())

    m = re.search(r"#define\s+FIBER_TIME_RESOLUTION_MS\s+(\d+)\b", hdr)
    if not m:
        raise ExtractError("sleep_extract: FIBER_TIME_RESOLUTION_MS not found")
    period = int(m.group(1)) * 1000

    # ---- the wake loop
    has_locked = re.search(r"\bfiber_event_wake_sleepers_locked\s*\(", ev) is not None
    wake_name = "fiber_event_wake_sleepers_locked" if has_locked and re.search(
        r"static\s+void\s+fiber_event_wake_sleepers_locked\s*\(", ev) else "fiber_event_wake_sleepers"
    wake = norm(linux_branch(func_body(ev, wake_name)))
    mloop = re.search(r"do\{(.*?)\}while\(to_wake\);", wake)
    next_first = False
    if not mloop:
        bad("wake loop `do { … } while (to_wake);` not found in %s" % wake_name)
    else:
        loop = mloop.group(1)
        stmts = [s for s in loop.split(";") if s]
        want = {"fiber_t*constto_schedule=(fiber_t*)to_wake->waiter": "waiter",
                "to_schedule->state=FIBER_STATE_READY": "state",
                "fiber_manager_schedule(manager,to_schedule)": "sched",
                "to_wake=to_wake->next": "next",
                "assert(to_wake->waiter)": None}
        order = []
        for s in stmts:
            if s not in want:
                bad("unrecognised statement in the wake loop: %s" % s)
            elif want[s]:
                order.append(want[s])
        if order == ["waiter", "state", "sched", "next"]:
            next_first = False
        elif order == ["waiter", "next", "state", "sched"]:
            next_first = True
        else:
            bad("wake loop statement order not recognised: %s" % order)
    if "while((to_wake=waiter_remove_less_than(&sleepers,timer_trigger_count)))" not in wake:
        bad("outer wake loop shape not recognised")

    # ---- who reads the timer, and where
    poll = norm(linux_branch(func_body(ev, "fiber_poll_events_internal")))
    fsleep = norm(linux_branch(func_body(ev, "fiber_sleep")))
    read_in_poll = "fibershim_read(timer_fd" in poll
    read_in_wake = "fibershim_read(timer_fd" in wake
    between = None
    mm = re.search(r"fiber_spinlock_lock\(&sleep_spinlock\);(.*?)constuint64_twake_time=timer_trigger_count\+sleep_ms;"
                   r"wake_info\.wake_time=wake_time;waiter_insert\(&sleepers,&wake_info\);", fsleep)
    if not mm:
        bad("fiber_sleep: lock … wake_time = timer_trigger_count + sleep_ms … waiter_insert shape not recognised")
    else:
        between = mm.group(1)
    drains = False
    if read_in_poll and not read_in_wake and between == "":
        if "fiber_event_wake_sleepers(manager,timer_count)" not in poll:
            bad("poller: fiber_event_wake_sleepers(manager, timer_count) not found")
        if "fiber_spinlock_lock(&sleep_spinlock);timer_trigger_count+=trigger_count;" not in wake:
            bad("wake pass: lock; timer_trigger_count += trigger_count shape not recognised")
        drains = False
    elif (not read_in_poll) and read_in_wake and between == "fiber_event_wake_sleepers_locked(fiber_manager_get(),0);":
        outer = norm(linux_branch(func_body(ev, "fiber_event_wake_sleepers")))
        if outer != "{fiber_spinlock_lock(&sleep_spinlock);fiber_event_wake_sleepers_locked(manager,trigger_count);fiber_spinlock_unlock(&sleep_spinlock);}":
            bad("fiber_event_wake_sleepers: lock; …_locked; unlock shape not recognised")
        if "fiber_event_wake_sleepers(manager,0)" not in poll:
            bad("poller: fiber_event_wake_sleepers(manager, 0) not found")
        if not re.search(r"uint64_ttimer_count=0;if\(fibershim_read\(timer_fd,&timer_count,sizeof\(timer_count\)\)==sizeof\(timer_count\)\)"
                         r"\{trigger_count\+=timer_count;\}timer_trigger_count\+=trigger_count;", wake):
            bad("wake pass: read timer; timer_trigger_count += … shape not recognised")
        drains = True
    else:
        bad("timer read site / fiber_sleep prologue not recognised (read in poller: %s, in wake pass: %s, between lock and wake_time: %r)"
            % (read_in_poll, read_in_wake, between))
    tail = "fiber_manager_t*constmanager=fiber_manager_get();fiber_t*constthis_fiber=manager->current_fiber;" \
           "wake_info.waiter=this_fiber;this_fiber->state=FIBER_STATE_WAITING;" \
           "manager->spinlock_to_unlock=&sleep_spinlock;fiber_manager_yield(manager);returnFIBER_SUCCESS;}"
    if not fsleep.endswith(tail):
        bad("fiber_sleep: epilogue (waiter, state, spinlock_to_unlock, yield) not recognised")
    if "waiter_el_twake_info={};" not in fsleep:
        bad("fiber_sleep: `waiter_el_t wake_info = {};` not found")

    # ---- arithmetic
    widen_mul = None
    if "constuint64_tsleep_ms=seconds*1000+useconds/1000+1;" in fsleep:
        widen_mul = False
    elif "constuint64_tsleep_ms=(uint64_t)seconds*1000+useconds/1000+1;" in fsleep:
        widen_mul = True
    else:
        bad("fiber_sleep: sleep_ms expression not recognised")
    if not re.search(r"intfiber_sleep\(uint32_tseconds,uint32_tuseconds\)\{", norm(ev)):
        bad("fiber_sleep signature not recognised")
    nano = norm(func_body(io, "nanosleep"))
    widen_ns = None
    if "fiber_sleep(rqtp->tv_sec,rqtp->tv_nsec/1000+1);" in nano and "while" not in nano:
        widen_ns = False
    elif ("time_tseconds=rqtp->tv_sec;while(seconds>(time_t)UINT32_MAX){fiber_sleep(UINT32_MAX,0);seconds-=UINT32_MAX;}"
          "fiber_sleep(seconds,rqtp->tv_nsec/1000+1);") in nano:
        widen_ns = True
    else:
        bad("nanosleep: fiber_sleep call shape not recognised")
    if "fiber_sleep(useconds/1000000,useconds%1000000);" not in norm(func_body(io, "usleep")):
        bad("usleep: fiber_sleep(useconds / 1000000, useconds % 1000000) not found")
    if "fiber_sleep(seconds,0);" not in norm(func_body(io, "sleep")):
        bad("sleep: fiber_sleep(seconds, 0) not found")
    # (if one of the two sites was not recognised, the best guess for the run-time flags is the other)
    wm = widen_ns if widen_mul is None else widen_mul
    wn = widen_mul if widen_ns is None else widen_ns
    widen = bool(wm) and bool(wn)
    if widen_mul is not None and widen_ns is not None and widen_mul != widen_ns:
        bad("32-bit fix applied only in part (multiplication widened: %s, nanosleep splits tv_sec: %s): no model variant" % (widen_mul, widen_ns))

    d = {"nextFirst": next_first, "drains": drains, "widen": widen, "period": period}
    if errs and strict:
        e = ExtractError("sleep_extract: " + "; ".join(errs))
        e.partial = d
        raise e
    return d


def flags(d):
    return "%d%d%d" % (d["nextFirst"], d["drains"], d["widen"])


def render(d):
    b = lambda x: "true" if x else "false"
    return """/-
  Gen/SleepDecisions.lean — GENERATED by extract/sleep_extract.py from src/fiber_event_native.c,
  src/fiber_io.c and include/fiber_event.h.  Do not edit: regenerated (and overwritten when
  different) on every `check.py C09`.
-/
import LibfiberVerif.Model.Sleep

namespace LibfiberVerif.Gen.SleepDecisions
open LibfiberVerif.Sleep

/-- the variant of Model/Sleep.lean the working tree implements -/
def tree : Variant :=
  { nextFirst := %s, drains := %s, widen := %s, period := %d }

end LibfiberVerif.Gen.SleepDecisions
""" % (b(d["nextFirst"]), b(d["drains"]), b(d["widen"]), d["period"])


def write_gen(repo):
    err = None
    try:
        d = decisions(repo)
    except ExtractError as e:
        err = e
        d = getattr(e, "partial", None) or {"nextFirst": False, "drains": False, "widen": False, "period": 5000}
    txt = render(d)
    os.makedirs(os.path.dirname(OUT), exist_ok=True)
    old = open(OUT).read() if os.path.exists(OUT) else None
    if old != txt:
        tmp = OUT + ".tmp%d" % os.getpid()
        open(tmp, "w").write(txt)
        os.replace(tmp, OUT)
    if err:
        raise err
    return d


if __name__ == "__main__":
    repo = sys.argv[1] if len(sys.argv) > 1 else "/repo"
    print(decisions(repo))
