import LibfiberVerif.Registry
open LibfiberVerif

def readLines (path : String) : IO (List String) := do
  let txt ← IO.FS.readFile path
  return (txt.splitOn "\n").filter (fun l => !isComment l)

def main (args : List String) : IO UInt32 := do
  match args with
  | [model, path] =>
    let lines ← readLines path
    match registry.lookup model with
    | some f => f lines
    | none => IO.eprintln s!"unknown model {model}"; return 2
  | _ => IO.eprintln "usage: verifdrv <Model> <log>"; return 2
