/-
  Props/C10.lean — fiber_yield is fair on a kernel thread.

  "fiber_yield lets the other ready fibers of the thread run: a ready fiber is bypassed at most
   a bounded number of times - bounded by the number of ready fibers, independent of how long
   the others keep yielding - before it runs again."

  Model: `Sched.sys tgt` (Model/Sched.lean), validated against the real scheduler on one
  kernel thread (exact run order).  `Target.storeTo` is what src/fiber_scheduler_wsd.c does
  now; `Target.scheduleFrom` is what it did before the fix commit.

  Vocabulary (Proof/Sched.lean):
    Queued f s   := f ∈ s.frm ∨ f ∈ s.to                     (f is ready, not running)
    pos f l      := index of the first occurrence of f in l
    rank f s     := if f ∈ s.frm then pos f s.frm else 2 * s.frm.length + pos f s.to
    switches es  := number of `switch _` events in es         (context switches)
    scheds es    := number of `sched _` events in es          (newly created fibers)
    isSched e    := e is a `sched _` event
    Wf s         := (s.frm ++ s.to).Nodup ∧ s.cur ∉ s.frm ∧ s.cur ∉ s.to

  All theorems quantify over every accepted event list: any number of fibers, any pattern of
  yield / finish / create, any length.
-/
import LibfiberVerif.Proof.Sched

namespace LibfiberVerif.C10
open LibfiberVerif.Sched

/-! ## 0. well-formedness of every reachable state (both variants) -/

/-- No fiber is queued twice and the running fiber is not queued. -/
theorem reachable_wf (tgt : Target) : ∀ es s, (sys tgt).run es = some s →
    (s.frm ++ s.to).Nodup ∧ s.cur ∉ s.frm ∧ s.cur ∉ s.to := by
  intro es s h
  have hw := wf_of_run tgt h
  exact ⟨hw.nodup, hw.cur⟩

/-! ## 1. bounded bypass (the code as it is: `storeTo`) -/

/-- The measure is bounded by the number of ready fibers. -/
theorem rank_bounded : ∀ es s, (sys .storeTo).run es = some s → ∀ f, Queued f s →
    rank f s < 2 * s.frm.length + s.to.length ∧
    rank f s ≤ 2 * (s.frm.length + s.to.length) + 1 := by
  intro es s _ f hq
  have := rank_lt hq
  omega

/-- Every context switch to another fiber strictly decreases the rank of a queued fiber
    (and leaves it queued). -/
theorem switch_decreases_rank : ∀ es s, (sys .storeTo).run es = some s → ∀ f, Queued f s →
    ∀ g s', g ≠ f → (sys .storeTo).step s (.switch g) = some s' →
    Queued f s' ∧ rank f s' < rank f s := by
  intro es s _ f hq g s' hgf hst
  have hst' : step .storeTo s (.switch g) = some s' := hst
  have h := rank_step hq hst' (by intro h; injection h with h; exact hgf h)
  simp [isSwitch, isSched] at h
  exact ⟨h.1, by omega⟩

/-- `yield`, `finish`, `resumed` never increase it - however often the others yield. -/
theorem other_events_keep_rank : ∀ es s, (sys .storeTo).run es = some s → ∀ f, Queued f s →
    ∀ e s', isSwitch e = false → isSched e = false → (sys .storeTo).step s e = some s' →
    Queued f s' ∧ rank f s' ≤ rank f s := by
  intro es s _ f hq e s' h1 h2 hst
  have hst' : step .storeTo s e = some s' := hst
  have h := rank_step hq hst' (by intro h; subst h; simp [isSwitch] at h1)
  simpa [h1, h2] using h

/-- Creating a new fiber costs a waiting fiber at most one more bypass. -/
theorem sched_adds_at_most_one : ∀ es s, (sys .storeTo).run es = some s → ∀ f, Queued f s →
    ∀ g s', (sys .storeTo).step s (.sched g) = some s' →
    Queued f s' ∧ rank f s' ≤ rank f s + 1 := by
  intro es s _ f hq g s' hst
  have hst' : step .storeTo s (.sched g) = some s' := hst
  have h := rank_step hq hst' (by intro h; cases h)
  simpa [isSwitch, isSched] using h

/-- General form: from any reachable state in which `f` is ready, along ANY accepted
    continuation in which `f` is not switched to, the number of context switches is smaller
    than `2·|schedule_from| + |store_to|` (taken when `f` started waiting) plus the number of
    fibers created meanwhile - no matter how many `yield`s the continuation contains. -/
theorem bounded_bypass_with_creation : ∀ es s, (sys .storeTo).run es = some s →
    ∀ f, Queued f s →
    ∀ es' s', (sys .storeTo).runFrom s es' = some s' →
    (∀ e ∈ es', e ≠ .switch f) →
    Queued f s' ∧ switches es' < 2 * s.frm.length + s.to.length + scheds es' := by
  intro es s _ f hq es' s' hr hne
  have h := rank_run es' s s' hq hr hne
  have := rank_lt hq
  exact ⟨h.1, by omega⟩

/-- Bounded bypass: a ready fiber `f` is bypassed at most `2·n + 1` times
    (`n` = number of ready fibers when it starts waiting) before it runs again, independent of
    how often the others yield.  (No fiber creation in the continuation; see
    `bounded_bypass_with_creation` for the general form.) -/
theorem bounded_bypass : ∀ es s, (sys .storeTo).run es = some s →
    ∀ f, Queued f s →
    ∀ es' s', (sys .storeTo).runFrom s es' = some s' →
    (∀ e ∈ es', isSched e = false) →
    (∀ e ∈ es', e ≠ .switch f) →
    switches es' ≤ 2 * (s.frm.length + s.to.length) + 1 := by
  intro es s hs f hq es' s' hr hns hne
  have h := (bounded_bypass_with_creation es s hs f hq es' s' hr hne).2
  have h0 : scheds es' = 0 := by
    simp only [scheds, List.countP_eq_zero]
    intro e he; simp [hns e he]
  omega

/-! ## 2. while `f` waits, every other fiber runs at most twice -/

/-- From any reachable state in which `f` is ready: before `f` is switched to, any other
    fiber `g` is switched to at most twice (absent fiber creation). -/
theorem batch_runs_all : ∀ es s, (sys .storeTo).run es = some s →
    ∀ f g, g ≠ f → Queued f s →
    ∀ es' s', (sys .storeTo).runFrom s es' = some s' →
    (∀ e ∈ es', isSched e = false) →
    (∀ e ∈ es', e ≠ .switch f) →
    es'.count (.switch g) ≤ 2 := by
  intro es s hs f g hgf hq es' s' hr hns hne
  have hw := wf_of_run _ hs
  have h := credit_run hgf es' s s' hw hq hr hne hns
  have := credit_le_two (g := g) (f := f) hw
  omega

/-- Between two consecutive runs of `f` every other fiber is switched to at most twice
    (absent fiber creation in between): one batch of the two-queue scheme, plus the tail of
    the batch that was in progress when `f` yielded. -/
theorem between_consecutive_runs : ∀ es f es' s',
    (sys .storeTo).run (es ++ [.switch f] ++ es' ++ [.switch f]) = some s' →
    (∀ e ∈ es', isSched e = false) →
    (∀ e ∈ es', e ≠ .switch f) →
    ∀ g, g ≠ f → es'.count (.switch g) ≤ 2 := by
  intro es f es' s' hrun hns hne g hgf
  obtain ⟨s2, h12, hlast⟩ := runFrom_append_some hrun
  obtain ⟨s1, h1, hmid⟩ := runFrom_append_some h12
  have hw1 : Wf s1 := wf_of_run _ h1
  obtain ⟨sa, _, hfirst⟩ := runFrom_append_some h1
  -- after the first `switch f`, `f` is the running fiber ...
  have hst1 : step .storeTo sa (.switch f) = some s1 := by
    simp only [Sys.runFrom] at hfirst
    cases hx : (sys .storeTo).step sa (.switch f) with
    | none => simp [hx] at hfirst
    | some x => simp [hx] at hfirst; subst hfirst; exact hx
  have hc := switch_cur hst1
  have ha1 : Alive f s1 := Or.inr ⟨hc.1, by simp [hc.2]⟩
  have hnq : ¬ Queued f s1 := by
    intro hq
    cases hq with
    | inl h => exact hw1.cur.1 (hc.1 ▸ h)
    | inr h => exact hw1.cur.2 (hc.1 ▸ h)
  -- ... and right before the second one it is queued
  have hst2 : step .storeTo s2 (.switch f) = some s' := by
    simp only [Sys.runFrom] at hlast
    cases hx : (sys .storeTo).step s2 (.switch f) with
    | none => simp [hx] at hlast
    | some x => simp [hx] at hlast; subst hlast; exact hx
  have ha2 : Alive f s2 := Or.inl (switch_queued hst2)
  have h := credit2_run hgf es' s1 s2 hw1 ha1 hmid ha2 hne hns
  simp only [credit2, hnq, if_false] at h
  omega

/-! ## 3. the old variant (`scheduleFrom`) starves -/

/-- Main fiber 0 creates fibers 3, 2, 1 and then 0 and 1 yield to each other: for every `k`
    there is an accepted continuation with `2·k` context switches during which fiber 3 is
    ready all the time and never runs. -/
theorem unfair_witness (k : Nat) : ∃ (s0 : St) (es' : List Ev),
    (sys .scheduleFrom).run [.sched 3, .sched 2, .sched 1] = some s0 ∧
    Queued 3 s0 ∧ s0.frm.length + s0.to.length = 3 ∧
    (∃ s', (sys .scheduleFrom).runFrom s0 es' = some s') ∧
    (∀ e ∈ es', isSched e = false) ∧
    (∀ e ∈ es', e ≠ .switch 3) ∧
    switches es' = 2 * k ∧
    (∀ es1 es2, es' = es1 ++ es2 →
      ∃ s1, (sys .scheduleFrom).runFrom s0 es1 = some s1 ∧ Queued 3 s1) := by
  refine ⟨ppState, pingpong k, ppStart_run, by decide, by decide, ⟨ppState, pingpong_run k⟩,
    ?_, ?_, pingpong_switches k, ?_⟩
  · intro e he
    exact (ppCycle_props e (pingpong_mem k e he)).1
  · intro e he
    exact (ppCycle_props e (pingpong_mem k e he)).2
  · intro es1 es2 heq
    have hr := pingpong_run k
    rw [heq, Sys.runFrom_append] at hr
    cases h1 : (sys .scheduleFrom).runFrom ppState es1 with
    | none => simp [h1] at hr
    | some s1 =>
      refine ⟨s1, rfl, queued_run _ es1 ppState s1 (by decide) h1 ?_⟩
      intro e he
      have : e ∈ pingpong k := by rw [heq]; simp [he]
      exact (ppCycle_props e (pingpong_mem k e this)).2

/-- Consequently no bound that depends only on the state in which the fiber started waiting
    holds for the `scheduleFrom` variant: the statement of `bounded_bypass` is false for it,
    for every candidate bound `B`. -/
theorem scheduleFrom_unbounded (B : St → Nat) :
    ¬ ∀ es s, (sys .scheduleFrom).run es = some s →
      ∀ f, Queued f s →
      ∀ es' s', (sys .scheduleFrom).runFrom s es' = some s' →
      (∀ e ∈ es', isSched e = false) →
      (∀ e ∈ es', e ≠ .switch f) →
      switches es' ≤ B s := by
  intro hall
  obtain ⟨s0, es', h0, hq, _, ⟨s', hr⟩, hns, hne, hsw, _⟩ := unfair_witness (B ppState + 1)
  have hs0 : s0 = ppState := by
    have := ppStart_run
    simp only [ppStart] at this
    rw [this] at h0
    exact (Option.some.inj h0).symm
  subst hs0
  have := hall _ _ h0 3 hq es' s' hr hns hne
  omega

/-! ## 4. non-vacuity -/

/-- Four fibers on the real (`storeTo`) scheduler, everybody yields: the run order is
    3, 2, 1, 2, 3, 0 - all four fibers run. -/
example : (sys .storeTo).run
    [.sched 1, .sched 2, .sched 3,
     .yield 0, .switch 3, .resumed 3, .yield 3, .switch 2, .resumed 2, .yield 2, .switch 1,
     .resumed 1, .yield 1, .switch 2, .resumed 2, .yield 2, .switch 3, .resumed 3, .yield 3,
     .switch 0, .resumed 0]
    = some { frm := [], to := [3, 2, 1], cur := 0, phase := .running } := by decide

/-- The hypotheses of `bounded_bypass` / `batch_runs_all` are satisfiable and the sharp bound
    of `bounded_bypass_with_creation` is attained: fiber 0 starts waiting with
    `schedule_from = [2, 1]`, `store_to = [0]` and is bypassed `2·2 + 1 − 1 = 4` times
    (fiber 2 twice), then it is at the head of the queue. -/
example : ∃ es s es' s', (sys .storeTo).run es = some s ∧ Queued 0 s ∧
    (sys .storeTo).runFrom s es' = some s' ∧
    (∀ e ∈ es', isSched e = false) ∧ (∀ e ∈ es', e ≠ .switch 0) ∧
    switches es' + 1 = 2 * s.frm.length + s.to.length ∧
    es'.count (.switch 2) = 2 ∧
    (sys .storeTo).step s' (.switch 0) ≠ none :=
  ⟨[.sched 1, .sched 2, .sched 3, .yield 0, .switch 3],
   { frm := [2, 1], to := [0], cur := 3, phase := .running },
   [.resumed 3, .yield 3, .switch 2, .resumed 2, .yield 2, .switch 1,
    .resumed 1, .yield 1, .switch 2, .resumed 2, .yield 2, .switch 3, .resumed 3, .yield 3],
   { frm := [0], to := [2, 1], cur := 3, phase := .yielding },
   by decide⟩

/-- The hypotheses of `between_consecutive_runs` are satisfiable and its bound 2 is attained:
    between the two runs of fiber 3, fiber 2 runs twice and fiber 1 once. -/
example : ∃ s', (sys .storeTo).run
    ([.sched 1, .sched 2, .sched 3, .yield 0] ++ [.switch 3] ++
     [.resumed 3, .yield 3, .switch 2, .resumed 2, .yield 2, .switch 1,
      .resumed 1, .yield 1, .switch 2, .resumed 2, .yield 2] ++ [.switch 3]) = some s' ∧
    List.count (Ev.switch 2)
      ([.resumed 3, .yield 3, .switch 2, .resumed 2, .yield 2, .switch 1,
        .resumed 1, .yield 1, .switch 2, .resumed 2, .yield 2] : List Ev) = 2 :=
  ⟨{ frm := [0], to := [2, 1], cur := 3, phase := .running }, by decide⟩

/-- The same program on the `scheduleFrom` variant: after `sched 3, 2, 1` fibers 0 and 1
    alternate; eight context switches (more than the `2·3 + 1` that `bounded_bypass` allows)
    and fiber 3 has not run. -/
example : ∃ s', (sys .scheduleFrom).run
    ([.sched 3, .sched 2, .sched 1] ++ pingpong 4) = some s' ∧ Queued 3 s' ∧
    switches (pingpong 4) = 8 ∧ (∀ e ∈ pingpong 4, e ≠ .switch 3) :=
  ⟨{ frm := [1, 2, 3], to := [], cur := 0, phase := .running }, by decide⟩

end LibfiberVerif.C10
