/-
  Props/C10.lean — fiber_yield is fair on a kernel thread.

  "fiber_yield lets the other ready fibers of the thread run: a ready fiber is bypassed at most
   a bounded number of times - bounded by the number of ready fibers, independent of how long
   the others keep yielding - before it runs again."

  Model: `Sched.sys tgt` (Model/Sched.lean), validated against the real scheduler on one
  kernel thread (exact run order).  `Target.storeTo` is what src/fiber_scheduler_wsd.c does
  now; `Target.scheduleFrom` is what it did before the fix commit.

  Vocabulary (Proof/Sched.lean):
    Queued f s   := f ∈ s.frm ∨ f ∈ s.to                     (f is ready, not running)
    pos f l      := index of the first occurrence of f in l
    rank f s     := if f ∈ s.frm then pos f s.frm else 2 * s.frm.length + pos f s.to
    switches es  := number of `switch _` events in es         (context switches)
    scheds es    := number of `sched _` events in es          (newly created fibers)
    isSched e    := e is a `sched _` event
    Wf s         := (s.frm ++ s.to).Nodup ∧ s.cur ∉ s.frm ∧ s.cur ∉ s.to

  All theorems quantify over every accepted event list: any number of fibers, any pattern of
  yield / finish / create, any length.
-/
import LibfiberVerif.Proof.Sched
import LibfiberVerif.Proof.SchedN

namespace LibfiberVerif.C10
open LibfiberVerif.Sched

/-! ## 0. well-formedness of every reachable state (both variants) -/

/-- No fiber is queued twice and the running fiber is not queued. -/
theorem reachable_wf (tgt : Target) : ∀ es s, (sys tgt).run es = some s →
    (s.frm ++ s.to).Nodup ∧ s.cur ∉ s.frm ∧ s.cur ∉ s.to := by
  intro es s h
  have hw := wf_of_run tgt h
  exact ⟨hw.nodup, hw.cur⟩

/-! ## 1. bounded bypass (the code as it is: `storeTo`) -/

/-- The measure is bounded by the number of ready fibers. -/
theorem rank_bounded : ∀ es s, (sys .storeTo).run es = some s → ∀ f, Queued f s →
    rank f s < 2 * s.frm.length + s.to.length ∧
    rank f s ≤ 2 * (s.frm.length + s.to.length) + 1 := by
  intro es s _ f hq
  have := rank_lt hq
  omega

/-- Every context switch to another fiber strictly decreases the rank of a queued fiber
    (and leaves it queued). -/
theorem switch_decreases_rank : ∀ es s, (sys .storeTo).run es = some s → ∀ f, Queued f s →
    ∀ g s', g ≠ f → (sys .storeTo).step s (.switch g) = some s' →
    Queued f s' ∧ rank f s' < rank f s := by
  intro es s _ f hq g s' hgf hst
  have hst' : step .storeTo s (.switch g) = some s' := hst
  have h := rank_step hq hst' (by intro h; injection h with h; exact hgf h)
  simp [isSwitch, isSched] at h
  exact ⟨h.1, by omega⟩

/-- `yield`, `finish`, `resumed` never increase it - however often the others yield. -/
theorem other_events_keep_rank : ∀ es s, (sys .storeTo).run es = some s → ∀ f, Queued f s →
    ∀ e s', isSwitch e = false → isSched e = false → (sys .storeTo).step s e = some s' →
    Queued f s' ∧ rank f s' ≤ rank f s := by
  intro es s _ f hq e s' h1 h2 hst
  have hst' : step .storeTo s e = some s' := hst
  have h := rank_step hq hst' (by intro h; subst h; simp [isSwitch] at h1)
  simpa [h1, h2] using h

/-- Creating a new fiber costs a waiting fiber at most one more bypass. -/
theorem sched_adds_at_most_one : ∀ es s, (sys .storeTo).run es = some s → ∀ f, Queued f s →
    ∀ g s', (sys .storeTo).step s (.sched g) = some s' →
    Queued f s' ∧ rank f s' ≤ rank f s + 1 := by
  intro es s _ f hq g s' hst
  have hst' : step .storeTo s (.sched g) = some s' := hst
  have h := rank_step hq hst' (by intro h; cases h)
  simpa [isSwitch, isSched] using h

/-- General form: from any reachable state in which `f` is ready, along ANY accepted
    continuation in which `f` is not switched to, the number of context switches is smaller
    than `2·|schedule_from| + |store_to|` (taken when `f` started waiting) plus the number of
    fibers created meanwhile - no matter how many `yield`s the continuation contains. -/
theorem bounded_bypass_with_creation : ∀ es s, (sys .storeTo).run es = some s →
    ∀ f, Queued f s →
    ∀ es' s', (sys .storeTo).runFrom s es' = some s' →
    (∀ e ∈ es', e ≠ .switch f) →
    Queued f s' ∧ switches es' < 2 * s.frm.length + s.to.length + scheds es' := by
  intro es s _ f hq es' s' hr hne
  have h := rank_run es' s s' hq hr hne
  have := rank_lt hq
  exact ⟨h.1, by omega⟩

/-- Bounded bypass: a ready fiber `f` is bypassed at most `2·n + 1` times
    (`n` = number of ready fibers when it starts waiting) before it runs again, independent of
    how often the others yield.  (No fiber creation in the continuation; see
    `bounded_bypass_with_creation` for the general form.) -/
theorem bounded_bypass : ∀ es s, (sys .storeTo).run es = some s →
    ∀ f, Queued f s →
    ∀ es' s', (sys .storeTo).runFrom s es' = some s' →
    (∀ e ∈ es', isSched e = false) →
    (∀ e ∈ es', e ≠ .switch f) →
    switches es' ≤ 2 * (s.frm.length + s.to.length) + 1 := by
  intro es s hs f hq es' s' hr hns hne
  have h := (bounded_bypass_with_creation es s hs f hq es' s' hr hne).2
  have h0 : scheds es' = 0 := by
    simp only [scheds, List.countP_eq_zero]
    intro e he; simp [hns e he]
  omega

/-! ## 2. while `f` waits, every other fiber runs at most twice -/

/-- From any reachable state in which `f` is ready: before `f` is switched to, any other
    fiber `g` is switched to at most twice (absent fiber creation). -/
theorem batch_runs_all : ∀ es s, (sys .storeTo).run es = some s →
    ∀ f g, g ≠ f → Queued f s →
    ∀ es' s', (sys .storeTo).runFrom s es' = some s' →
    (∀ e ∈ es', isSched e = false) →
    (∀ e ∈ es', e ≠ .switch f) →
    es'.count (.switch g) ≤ 2 := by
  intro es s hs f g hgf hq es' s' hr hns hne
  have hw := wf_of_run _ hs
  have h := credit_run hgf es' s s' hw hq hr hne hns
  have := credit_le_two (g := g) (f := f) hw
  omega

/-- Between two consecutive runs of `f` every other fiber is switched to at most twice
    (absent fiber creation in between): one batch of the two-queue scheme, plus the tail of
    the batch that was in progress when `f` yielded. -/
theorem between_consecutive_runs : ∀ es f es' s',
    (sys .storeTo).run (es ++ [.switch f] ++ es' ++ [.switch f]) = some s' →
    (∀ e ∈ es', isSched e = false) →
    (∀ e ∈ es', e ≠ .switch f) →
    ∀ g, g ≠ f → es'.count (.switch g) ≤ 2 := by
  intro es f es' s' hrun hns hne g hgf
  obtain ⟨s2, h12, hlast⟩ := runFrom_append_some hrun
  obtain ⟨s1, h1, hmid⟩ := runFrom_append_some h12
  have hw1 : Wf s1 := wf_of_run _ h1
  obtain ⟨sa, _, hfirst⟩ := runFrom_append_some h1
  -- after the first `switch f`, `f` is the running fiber ...
  have hst1 : step .storeTo sa (.switch f) = some s1 := by
    simp only [Sys.runFrom] at hfirst
    cases hx : (sys .storeTo).step sa (.switch f) with
    | none => simp [hx] at hfirst
    | some x => simp [hx] at hfirst; subst hfirst; exact hx
  have hc := switch_cur hst1
  have ha1 : Alive f s1 := Or.inr ⟨hc.1, by simp [hc.2]⟩
  have hnq : ¬ Queued f s1 := by
    intro hq
    cases hq with
    | inl h => exact hw1.cur.1 (hc.1 ▸ h)
    | inr h => exact hw1.cur.2 (hc.1 ▸ h)
  -- ... and right before the second one it is queued
  have hst2 : step .storeTo s2 (.switch f) = some s' := by
    simp only [Sys.runFrom] at hlast
    cases hx : (sys .storeTo).step s2 (.switch f) with
    | none => simp [hx] at hlast
    | some x => simp [hx] at hlast; subst hlast; exact hx
  have ha2 : Alive f s2 := Or.inl (switch_queued hst2)
  have h := credit2_run hgf es' s1 s2 hw1 ha1 hmid ha2 hne hns
  simp only [credit2, hnq, if_false] at h
  omega

/-! ## 3. the old variant (`scheduleFrom`) starves -/

/-- Main fiber 0 creates fibers 3, 2, 1 and then 0 and 1 yield to each other: for every `k`
    there is an accepted continuation with `2·k` context switches during which fiber 3 is
    ready all the time and never runs. -/
theorem unfair_witness (k : Nat) : ∃ (s0 : St) (es' : List Ev),
    (sys .scheduleFrom).run [.sched 3, .sched 2, .sched 1] = some s0 ∧
    Queued 3 s0 ∧ s0.frm.length + s0.to.length = 3 ∧
    (∃ s', (sys .scheduleFrom).runFrom s0 es' = some s') ∧
    (∀ e ∈ es', isSched e = false) ∧
    (∀ e ∈ es', e ≠ .switch 3) ∧
    switches es' = 2 * k ∧
    (∀ es1 es2, es' = es1 ++ es2 →
      ∃ s1, (sys .scheduleFrom).runFrom s0 es1 = some s1 ∧ Queued 3 s1) := by
  refine ⟨ppState, pingpong k, ppStart_run, by decide, by decide, ⟨ppState, pingpong_run k⟩,
    ?_, ?_, pingpong_switches k, ?_⟩
  · intro e he
    exact (ppCycle_props e (pingpong_mem k e he)).1
  · intro e he
    exact (ppCycle_props e (pingpong_mem k e he)).2
  · intro es1 es2 heq
    have hr := pingpong_run k
    rw [heq, Sys.runFrom_append] at hr
    cases h1 : (sys .scheduleFrom).runFrom ppState es1 with
    | none => simp [h1] at hr
    | some s1 =>
      refine ⟨s1, rfl, queued_run _ es1 ppState s1 (by decide) h1 ?_⟩
      intro e he
      have : e ∈ pingpong k := by rw [heq]; simp [he]
      exact (ppCycle_props e (pingpong_mem k e this)).2

/-- Consequently no bound that depends only on the state in which the fiber started waiting
    holds for the `scheduleFrom` variant: the statement of `bounded_bypass` is false for it,
    for every candidate bound `B`. -/
theorem scheduleFrom_unbounded (B : St → Nat) :
    ¬ ∀ es s, (sys .scheduleFrom).run es = some s →
      ∀ f, Queued f s →
      ∀ es' s', (sys .scheduleFrom).runFrom s es' = some s' →
      (∀ e ∈ es', isSched e = false) →
      (∀ e ∈ es', e ≠ .switch f) →
      switches es' ≤ B s := by
  intro hall
  obtain ⟨s0, es', h0, hq, _, ⟨s', hr⟩, hns, hne, hsw, _⟩ := unfair_witness (B ppState + 1)
  have hs0 : s0 = ppState := by
    have := ppStart_run
    simp only [ppStart] at this
    rw [this] at h0
    exact (Option.some.inj h0).symm
  subst hs0
  have := hall _ _ h0 3 hq es' s' hr hns hne
  omega

/-! ## 4. non-vacuity -/

/-- Four fibers on the real (`storeTo`) scheduler, everybody yields: the run order is
    3, 2, 1, 2, 3, 0 - all four fibers run. -/
example : (sys .storeTo).run
    [.sched 1, .sched 2, .sched 3,
     .yield 0, .switch 3, .resumed 3, .yield 3, .switch 2, .resumed 2, .yield 2, .switch 1,
     .resumed 1, .yield 1, .switch 2, .resumed 2, .yield 2, .switch 3, .resumed 3, .yield 3,
     .switch 0, .resumed 0]
    = some { frm := [], to := [3, 2, 1], cur := 0, phase := .running } := by decide

/-- The hypotheses of `bounded_bypass` / `batch_runs_all` are satisfiable and the sharp bound
    of `bounded_bypass_with_creation` is attained: fiber 0 starts waiting with
    `schedule_from = [2, 1]`, `store_to = [0]` and is bypassed `2·2 + 1 − 1 = 4` times
    (fiber 2 twice), then it is at the head of the queue. -/
example : ∃ es s es' s', (sys .storeTo).run es = some s ∧ Queued 0 s ∧
    (sys .storeTo).runFrom s es' = some s' ∧
    (∀ e ∈ es', isSched e = false) ∧ (∀ e ∈ es', e ≠ .switch 0) ∧
    switches es' + 1 = 2 * s.frm.length + s.to.length ∧
    es'.count (.switch 2) = 2 ∧
    (sys .storeTo).step s' (.switch 0) ≠ none :=
  ⟨[.sched 1, .sched 2, .sched 3, .yield 0, .switch 3],
   { frm := [2, 1], to := [0], cur := 3, phase := .running },
   [.resumed 3, .yield 3, .switch 2, .resumed 2, .yield 2, .switch 1,
    .resumed 1, .yield 1, .switch 2, .resumed 2, .yield 2, .switch 3, .resumed 3, .yield 3],
   { frm := [0], to := [2, 1], cur := 3, phase := .yielding },
   by decide⟩

/-- The hypotheses of `between_consecutive_runs` are satisfiable and its bound 2 is attained:
    between the two runs of fiber 3, fiber 2 runs twice and fiber 1 once. -/
example : ∃ s', (sys .storeTo).run
    ([.sched 1, .sched 2, .sched 3, .yield 0] ++ [.switch 3] ++
     [.resumed 3, .yield 3, .switch 2, .resumed 2, .yield 2, .switch 1,
      .resumed 1, .yield 1, .switch 2, .resumed 2, .yield 2] ++ [.switch 3]) = some s' ∧
    List.count (Ev.switch 2)
      ([.resumed 3, .yield 3, .switch 2, .resumed 2, .yield 2, .switch 1,
        .resumed 1, .yield 1, .switch 2, .resumed 2, .yield 2] : List Ev) = 2 :=
  ⟨{ frm := [0], to := [2, 1], cur := 3, phase := .running }, by decide⟩

/-- The same program on the `scheduleFrom` variant: after `sched 3, 2, 1` fibers 0 and 1
    alternate; eight context switches (more than the `2·3 + 1` that `bounded_bypass` allows)
    and fiber 3 has not run. -/
example : ∃ s', (sys .scheduleFrom).run
    ([.sched 3, .sched 2, .sched 1] ++ pingpong 4) = some s' ∧ Queued 3 s' ∧
    switches (pingpong 4) = 8 ∧ (∀ e ∈ pingpong 4, e ≠ .switch 3) :=
  ⟨{ frm := [1, 2, 3], to := [], cur := 0, phase := .running }, by decide⟩

end LibfiberVerif.C10

/-! # C10 on N kernel threads with work stealing (model `SchedN`)

  The multi-thread corollary of §1–§2: model `SchedN.sys maxSteal` (Model/SchedN.lean) has
  kernel threads `k : Nat` (unbounded), each with `frm k` / `to k` / `cur k` and the events of
  `Sched` per thread at the granularity of the run-queue log (`pop` / `skip` / `switch` /
  `pushed` for fiber_scheduler_next and the pushes that follow it, `finish k sv` + `saved` for
  a fiber that parks in state SAVING_STATE_TO_WAIT, `idle` for the way into the maintenance
  loop), plus `steal k j w f`: thread `k`, inside a `fiber_scheduler_load_balance` call, takes
  the TOP (last list element) of thread `j`'s deque `w` and pushes it onto the BOTTOM of its own
  `schedule_from`.  Facts about load_balance in the model (source lines in Model/SchedN.lean):
  steal from the top (fiber_scheduler_wsd.c:136-137), push onto the thief's own `schedule_from`
  bottom (:142), at most `max_steal = 50` per call (:120,:135,:145), called only by a thread in
  scheduler code whose `schedule_from` is empty (fiber_manager.c:108-128 and :163-171) — its
  `store_to` may hold fibers (skipped ones, SAVING_STATE_TO_WAIT).  The guard
  `remote_count > local_count` (:135) is deliberately NOT assumed (the theorems hold without
  it); `steal_pingpong` shows that it does not prevent ping-pong either.

  Vocabulary (Proof/SchedN.lean):
    QueuedOn k f s     := f ∈ s.frm k ∨ f ∈ s.to k
    rankOn k f s       := Sched.rank f ⟨s.frm k, s.to k, _, _⟩   (the one-thread rank, on thread k)
    s.loc f            ghost: the thread holding f (queued or running); exact by `one_place`
    s.busy             ghost: the fibers that are somewhere; exact by `one_place`
    s.lb k             ghost: steals made by k in its load_balance call in progress (0 = none)
    s.sav f            f's state word is SAVING_STATE_TO_WAIT (its context is being saved)
    holderSwitches M f s es := number of `switch k _` events in the run of `es` from `s` with
                          `k` = the thread holding `f` at that moment
    stealsOf f es      := number of `steal _ _ _ f` events in es
    scheds es          := number of `sched _ _` events in es
    isRunOf f e        := e is `switch _ f`;   isSched e := e is `sched _ _`;
    isSchedOf f e      := e is `sched _ f`
    actor e            := the thread performing e

  Tie to the code: `SchedN.drive` replays the run-queue events (`rqpush` / `rqpop` / `rqsteal`),
  the context switches and the fiber-state accesses of fiber_manager_yield /
  fiber_scheduler_next of every N-thread log of harness/yield.c through `SchedN.step`, one
  model event per log line; the one-thread model is validated exactly (run order) by
  `Sched.drive`.
-/
namespace LibfiberVerif.SchedN
open LibfiberVerif.Sched (Phase)

/-! ## N.0 a fiber is in at most one place -/

/-- In every reachable state: `loc f = some k` iff `f` is queued on `k` or is `k`'s current
    fiber; no deque pair holds a fiber twice; the current fiber is not queued; `busy` lists
    exactly the fibers that are somewhere, once each.  Hence a fiber is in at most one place. -/
theorem one_place (M : Nat) : ∀ es s, (sys M).run es = some s →
    (∀ f k, s.loc f = some k ↔ (f ∈ s.frm k ∨ f ∈ s.to k ∨ s.cur k = some f)) ∧
    (∀ k, (s.frm k ++ s.to k).Nodup) ∧
    (∀ k f, s.cur k = some f → f ∉ s.frm k ∧ f ∉ s.to k) ∧
    (∀ f, f ∈ s.busy ↔ s.loc f ≠ none) ∧ s.busy.Nodup ∧
    (∀ f k j, (f ∈ s.frm k ∨ f ∈ s.to k ∨ s.cur k = some f) →
      (f ∈ s.frm j ∨ f ∈ s.to j ∨ s.cur j = some f) → k = j) := by
  intro es s h
  have hI := inv_of_run h
  have hloc : ∀ f k, (f ∈ s.frm k ∨ f ∈ s.to k ∨ s.cur k = some f) → s.loc f = some k := by
    intro f k hk
    rcases hk with hk | hk | hk
    · exact hI.frmLoc k f hk
    · exact hI.toLoc k f hk
    · exact hI.curLoc k f hk
  refine ⟨fun f k => ⟨hI.locSome f k, hloc f k⟩, hI.nodup, hI.curNot, hI.busyIff, hI.busyNodup, ?_⟩
  intro f k j hk hj
  have := (hloc f k hk).symm.trans (hloc f j hj)
  exact Option.some.inj this

/-! ## N.1 the rank of a queued fiber on the thread that holds it -/

/-- (a) A context switch on the holder to another fiber strictly decreases the rank, exactly as
    on one kernel thread. -/
theorem switch_on_holder_decreases_rank (M : Nat) : ∀ es s, (sys M).run es = some s →
    ∀ k f, QueuedOn k f s → ∀ g s', g ≠ f → (sys M).step s (.switch k g) = some s' →
    QueuedOn k f s' ∧ rankOn k f s' < rankOn k f s := by
  intro es s h k f hq g s' hgf hst
  exact rank_switch (inv_of_run h) hq hst hgf

/-- (a') fiber_scheduler_next on the holder skips another fiber whose context is still being
    saved (fiber_scheduler_wsd.c:108-109): no context switch, and the rank strictly decreases. -/
theorem skip_on_holder_decreases_rank (M : Nat) : ∀ es s, (sys M).run es = some s →
    ∀ k f, QueuedOn k f s → ∀ g s', g ≠ f → (sys M).step s (.skip k g) = some s' →
    QueuedOn k f s' ∧ rankOn k f s' < rankOn k f s := by
  intro es s _ k f hq g s' hgf hst
  exact rank_skip (M := M) hq hst hgf

/-- (b) Events of OTHER threads never increase the rank of `f` on its holder `k` and leave it
    queued there — except a steal that moves `f` itself. -/
theorem other_threads_keep_rank (M : Nat) : ∀ es s, (sys M).run es = some s →
    ∀ k f, QueuedOn k f s → ∀ e s', actor e ≠ k → isStealOf f e = false →
    (sys M).step s e = some s' →
    QueuedOn k f s' ∧ rankOn k f s' ≤ rankOn k f s := by
  intro es s h k f hq e s' ha hnf hst
  exact rank_other_thread (inv_of_run h) hq hst ha hnf

/-- (d) Stealing takes from the TOP, i.e. the entry the holder would have run LAST: a steal of
    another fiber `h ≠ f` from the holder leaves `f`'s rank unchanged, or lowers it by exactly 2
    when `f` waits in `store_to` and the loot comes out of `schedule_from`. -/
theorem steal_from_top_exact (M : Nat) : ∀ es s, (sys M).run es = some s →
    ∀ k f, QueuedOn k f s → ∀ j w h s', h ≠ f → (sys M).step s (.steal j k w h) = some s' →
    QueuedOn k f s' ∧
      rankOn k f s' = rankOn k f s - (if w = .frm ∧ f ∈ s.to k then 2 else 0) := by
  intro es s hr k f hq j w h s' hhf hst
  exact rank_steal_other (inv_of_run hr) hq hst hhf

/-- The holder's own events other than `skip`, `switch` and `steal` (`yield`, `pop`, `pushed`,
    `resumed`, `idle`, `finish`, `saved`) do not move `f`. -/
theorem holder_other_events_keep_rank (M : Nat) : ∀ es s, (sys M).run es = some s →
    ∀ k f, QueuedOn k f s → ∀ e s', actor e = k → isSched e = false →
    (∀ g, e ≠ .skip k g) → (∀ g, e ≠ .switch k g) → (∀ j w g, e ≠ .steal k j w g) →
    (sys M).step s e = some s' →
    QueuedOn k f s' ∧ rankOn k f s' = rankOn k f s := by
  intro es s _ k f hq e s' ha hns hsk hsw hst hstep
  exact rank_own_other hq hstep ha hns hsk hsw hst

/-- (c) A steal of `f` moves it from its holder `j` to the BOTTOM of the thief's
    `schedule_from`: rank 0 on the new holder, and the thief's next context switch is to `f`. -/
theorem stolen_fiber_is_next (M : Nat) : ∀ es s, (sys M).run es = some s →
    ∀ k j w f s', (sys M).step s (.steal k j w f) = some s' →
    s.loc f = some j ∧ s'.loc f = some k ∧ QueuedOn k f s' ∧ rankOn k f s' = 0 ∧
    ∀ g s'', (sys M).step s' (.switch k g) = some s'' → g = f := by
  intro es s h k j w f s' hst
  obtain ⟨h1, h2, h3, h4, h5, _⟩ := rank_stolen (inv_of_run h) hst
  exact ⟨h1, h2, h4, h5, fun g s'' hsw => switch_bottom (M := M) h3 hsw⟩

/-- (c, continued) ... unless the thief pushes more loot on top first.  When the holder `k` of a
    queued `f` steals, then EITHER `f` is loot of the load_balance call in progress (`f` is in
    `schedule_from k`, fewer than `maxSteal` steals so far) and the steal adds exactly 1 to its
    rank, OR `f` waits in `store_to k` and the steal adds exactly 2 (the loot is popped before
    the deques are swapped, and re-queued in front of `f` if it yields).
    The second case is what the real scheduler does when fiber_scheduler_next has returned NULL
    with skipped (SAVING_STATE_TO_WAIT) fibers in `store_to` — an earlier version of the model
    excluded it by requiring both deques to be empty at a load_balance call.  How often it can
    happen is bounded by the number of fibers, see `holder_bypass_bounded`. -/
theorem holder_steal_adds_one_or_two (M : Nat) : ∀ es s, (sys M).run es = some s →
    ∀ k f, QueuedOn k f s → ∀ j w h s', (sys M).step s (.steal k j w h) = some s' →
    QueuedOn k f s' ∧
    ((f ∈ s.frm k ∧ 0 < s.lb k ∧ s.lb k < M ∧ s'.lb k = s.lb k + 1 ∧
        rankOn k f s' = rankOn k f s + 1) ∨
     (f ∈ s.to k ∧ rankOn k f s' = rankOn k f s + 2)) := by
  intro es s hr k f hq j w h s' hst
  exact rank_holder_steals (inv_of_run hr) hq hst

/-- A load_balance call starts with an empty `schedule_from`: a thread that steals while its
    `schedule_from` is non-empty is inside a call (`0 < lb < maxSteal`). -/
theorem steal_needs_empty_schedule_from (M : Nat) : ∀ es s, (sys M).run es = some s →
    ∀ k j w h s', (sys M).step s (.steal k j w h) = some s' →
    s.phase k ≠ .running ∧ (s.frm k = [] ∨ (0 < s.lb k ∧ s.lb k < M)) := by
  intro es s _ k j w h s' hst
  obtain ⟨_, hp, _, n, _, hlb, _⟩ := step_steal hst
  refine ⟨hp, ?_⟩
  rcases lbNext_some hlb with h | h
  · exact Or.inl h.1
  · exact Or.inr ⟨h.2.1, h.2.2.1⟩

/-- (c, bound) Inside a load_balance call the rank of any fiber in the thief's `schedule_from`
    is below the number of steals of the call, which is at most `maxSteal` (50 in the code). -/
theorem loot_rank_lt_max_steal (M : Nat) (hM : 0 < M) : ∀ es s, (sys M).run es = some s →
    ∀ k f, 0 < s.lb k → f ∈ s.frm k → rankOn k f s < s.lb k ∧ s.lb k ≤ M := by
  intro es s h k f hl hf
  have := rank_lt_lb (inv_of_run h) hl hf
  have hmax : max M 1 = M := by rw [Nat.max_def]; split <;> omega
  exact ⟨this.1, hmax ▸ this.2⟩

/-! ## N.2 bounded bypass across holders -/

/-- A fiber whose context is saved keeps that property as long as it is not woken (a fiber
    becomes SAVING_STATE_TO_WAIT only at the end of its own run, and is nowhere then), and
    fiber_scheduler_next never skips it. -/
theorem ready_fiber_not_skipped (M : Nat) : ∀ es s, (sys M).run es = some s →
    ∀ f, s.sav f = false ∨ s.loc f = none → ∀ es' s1 k s2, (sys M).runFrom s es' = some s1 →
    (∀ e ∈ es', isSchedOf f e = false) → (sys M).step s1 (.skip k f) = some s2 → False := by
  intro es s h f hr es'
  have hI := inv_of_run h
  clear h
  induction es' generalizing s with
  | nil =>
    intro s1 k s2 h1 _ hsk
    simp [Sys.runFrom] at h1; subst h1
    exact not_skip_of_ready hI hr hsk
  | cons e es' ih =>
    intro s1 k s2 h1 hns hsk
    simp only [Sys.runFrom] at h1
    cases hst : (sys M).step s e with
    | none => simp [hst] at h1
    | some sa =>
      simp [hst] at h1
      exact ih sa (ready_step hI hst (hns e (by simp)) hr) (inv_step hI hst) s1 k s2 h1
        (fun e' he' => hns e' (by simp [he'])) hsk

/-- General form.  From any reachable state in which `f`'s context is saved, along ANY accepted
    continuation without `sched` in which `f` is not switched to: the context switches on the
    thread holding `f` at that time, summed over all holders `f` passes through, number at most
    `2·(number of fibers) + (maxSteal − 1)·(1 + number of times f itself is stolen)` —
    however often the others yield, whatever the other threads do (including load_balance calls
    of the holder while `f` waits in its `store_to`).
    The hypothesis `s.sav f = false` is new with the SAVING_STATE_TO_WAIT states of the model:
    a fiber that was woken while its context is still being saved sits in a run queue but
    cannot run; fiber_scheduler_next skips it for as long as the thread it parked on takes
    to finish the context switch, which no number of switches of the holder bounds. -/
theorem holder_bypass_bounded (M : Nat) : ∀ es s, (sys M).run es = some s →
    ∀ f, s.sav f = false → ∀ es' s', (sys M).runFrom s es' = some s' →
    (∀ e ∈ es', isSched e = false) → (∀ e ∈ es', isRunOf f e = false) →
    holderSwitches M f s es' ≤ 2 * s.busy.length + (M - 1) * (1 + stealsOf f es') := by
  intro es s h f hsv es' s' hr hns hnr
  have hI := inv_of_run h
  have h1 := pot_run es' s s' hI (Or.inl hsv) hr
    (fun e he => isSchedOf_of_isSched (hns e he)) hnr
  have h2 := pot_le hI f
  rw [scheds_eq_zero hns] at h1
  rw [Nat.mul_add]
  omega

/-- The hypothesis `s.sav f = false` of `holder_bypass_bounded` cannot be dropped: a fiber that
    sits in a run queue in state SAVING_STATE_TO_WAIT is bypassed for as long as the thread it
    parked on takes to complete the context switch.  Thread 1 steals fiber 1 and runs it, fiber 1
    parks (SAVING), fiber 0 on thread 0 wakes it at once, and thread 1 makes no further step.
    Fibers 0 and 2 then yield to each other on thread 0: for every `n` an accepted continuation
    without `sched`, without a steal and without a run of fiber 1, with `2·n` context switches on
    the thread that holds fiber 1 — 3 fibers exist.  (fiber_scheduler_next skips fiber 1 `2·n`
    times; the moment thread 1 performs `saved 1 1` the fiber is ready and the bound applies.) -/
theorem saving_fiber_bypassed_unboundedly (M : Nat) (n : Nat) : ∃ s0 s',
    (sys M).run [.sched 0 1, .sched 0 2, .steal 1 0 .to 1, .pushed 1 .frm 1, .pop 1 1,
      .switch 1 1, .finish 1 true, .sched 0 1] = some s0 ∧
    (sys M).runFrom s0 (savingSkipped n) = some s' ∧
    s0.sav 1 = true ∧ QueuedOn 0 1 s0 ∧ QueuedOn 0 1 s' ∧ s0.busy.length = 3 ∧
    (∀ e ∈ savingSkipped n, isSched e = false) ∧ (∀ e ∈ savingSkipped n, isRunOf 1 e = false) ∧
    stealsOf 1 (savingSkipped n) = 0 ∧
    holderSwitches M 1 s0 (savingSkipped n) = 2 * n := by
  obtain ⟨s0, h0, hp0, hb0⟩ := sv_setup M
  obtain ⟨s', h1, hp1, _, hc⟩ := saving_run M n hp0
  obtain ⟨c1, c2⟩ := saving_props n
  exact ⟨s0, s', h0, h1, hp0.sav1, Or.inr (by simp [hp0.to0]), Or.inr (by simp [hp1.to0]), hb0,
    fun e he => (c1 e he).1, fun e he => (c1 e he).2, c2, hc⟩

/-- The same with fibers being created / woken meanwhile (`f` itself is not: it is ready, not
    parked): every `sched` costs `f` at most 2 more bypasses. -/
theorem holder_bypass_bounded_with_wakeups (M : Nat) : ∀ es s, (sys M).run es = some s →
    ∀ f, s.sav f = false → ∀ es' s', (sys M).runFrom s es' = some s' →
    (∀ e ∈ es', isSchedOf f e = false) → (∀ e ∈ es', isRunOf f e = false) →
    holderSwitches M f s es' ≤
      2 * s.busy.length + (M - 1) * (1 + stealsOf f es') + 2 * scheds es' := by
  intro es s h f hsv es' s' hr hns hnr
  have hI := inv_of_run h
  have h1 := pot_run es' s s' hI (Or.inl hsv) hr hns hnr
  have h2 := pot_le hI f
  rw [Nat.mul_add]
  omega

/-- The bound the N-thread monitor of `SchedN.drive` applies: from the moment `f` is put into
    `store_to` of a thread (re-queued after a run, woken, or skipped) and for as long as it is
    neither woken again, skipped nor switched to, the context switches on its holders number at
    most `2·(number of fibers at that moment) + (maxSteal − 1)·(times f is stolen) +
    2·(fibers created or woken meanwhile)`. -/
theorem bypass_bound_from_store_to (M : Nat) : ∀ es s, (sys M).run es = some s →
    ∀ k f, f ∈ s.to k → s.sav f = false → ∀ es' s', (sys M).runFrom s es' = some s' →
    (∀ e ∈ es', isSchedOf f e = false) → (∀ e ∈ es', isRunOf f e = false) →
    holderSwitches M f s es' ≤ 2 * s.busy.length + (M - 1) * stealsOf f es' + 2 * scheds es' := by
  intro es s h k f hf hsv es' s' hr hns hnr
  have hI := inv_of_run h
  have h1 := pot_run es' s s' hI (Or.inl hsv) hr hns hnr
  have h2 := pot_le_of_to (M := M) hI hf
  omega

/-- Between two consecutive runs of `f` (absent fiber creation in between): at most
    `2·n + (maxSteal − 1)·(times f was stolen)` context switches on the threads holding `f`,
    `n` = number of fibers alive when `f` was switched to the first time. -/
theorem between_consecutive_runs_N (M : Nat) : ∀ es k f es' k' s_end,
    (sys M).run (es ++ [.switch k f] ++ es' ++ [.switch k' f]) = some s_end →
    (∀ e ∈ es', isSched e = false) → (∀ e ∈ es', isRunOf f e = false) →
    ∃ s1, (sys M).run (es ++ [.switch k f]) = some s1 ∧ s1.loc f = some k ∧
      holderSwitches M f s1 es' ≤ 2 * s1.busy.length + (M - 1) * stealsOf f es' := by
  intro es k f es' k' s_end hrun hns hnr
  simp only [Sys.run, Sys.runFrom_append] at hrun
  cases h1 : (sys M).runFrom (sys M).init es with
  | none => simp [h1] at hrun
  | some s0 =>
    simp only [h1, Option.bind_some, Sys.runFrom] at hrun
    cases hst : (sys M).step s0 (.switch k f) with
    | none => simp [hst] at hrun
    | some s1 =>
      simp only [hst, Option.bind_some] at hrun
      cases hmid : (sys M).runFrom s1 es' with
      | none => simp [hmid] at hrun
      | some s2 =>
        have hr1 : (sys M).run (es ++ [.switch k f]) = some s1 := by
          simp [Sys.run, Sys.runFrom_append, h1, Sys.runFrom, hst]
        have hI := inv_of_run hr1
        obtain ⟨_, hsv, frm', to', _, hs1⟩ := step_switch (M := M) hst
        have hc : s1.cur k = some f := by rw [hs1]; simp
        have hsv1 : s1.sav f = false := by rw [hs1]; exact hsv
        have hl := hI.curLoc k f hc
        have hp := pot_run es' s1 s2 hI (Or.inl hsv1) hmid
          (fun e he => isSchedOf_of_isSched (hns e he)) hnr
        rw [pot_cur hl hc, scheds_eq_zero hns] at hp
        exact ⟨s1, hr1, hl, by omega⟩

/-- The code's constant: `max_steal = 50`, so every steal of `f` costs it at most 49 more
    bypasses. -/
theorem between_consecutive_runs_code : ∀ es k f es' k' s_end,
    (sys codeMaxSteal).run (es ++ [.switch k f] ++ es' ++ [.switch k' f]) = some s_end →
    (∀ e ∈ es', isSched e = false) → (∀ e ∈ es', isRunOf f e = false) →
    ∃ s1, (sys codeMaxSteal).run (es ++ [.switch k f]) = some s1 ∧
      holderSwitches codeMaxSteal f s1 es' ≤ 2 * s1.busy.length + 49 * stealsOf f es' := by
  intro es k f es' k' s_end hrun hns hnr
  obtain ⟨s1, h1, _, h2⟩ := between_consecutive_runs_N codeMaxSteal es k f es' k' s_end hrun hns hnr
  exact ⟨s1, h1, h2⟩

/-- Under the hypothesis that rules out steal ping-pong — a stolen fiber is run by its thief
    before it is stolen again, i.e. `f` is stolen at most once between two of its runs — the
    bound depends on the number of fibers only: `2·n + 49`. -/
theorem between_consecutive_runs_no_resteal : ∀ es k f es' k' s_end,
    (sys codeMaxSteal).run (es ++ [.switch k f] ++ es' ++ [.switch k' f]) = some s_end →
    (∀ e ∈ es', isSched e = false) → (∀ e ∈ es', isRunOf f e = false) →
    stealsOf f es' ≤ 1 →
    ∃ s1, (sys codeMaxSteal).run (es ++ [.switch k f]) = some s1 ∧
      holderSwitches codeMaxSteal f s1 es' ≤ 2 * s1.busy.length + 49 := by
  intro es k f es' k' s_end hrun hns hnr h1
  obtain ⟨s1, hr, h2⟩ := between_consecutive_runs_code es k f es' k' s_end hrun hns hnr
  exact ⟨s1, hr, by omega⟩

/-- With one kernel thread's worth of events (nobody steals `f`) the bound is the one-thread
    bound `2·n`. -/
theorem between_consecutive_runs_not_stolen (M : Nat) : ∀ es k f es' k' s_end,
    (sys M).run (es ++ [.switch k f] ++ es' ++ [.switch k' f]) = some s_end →
    (∀ e ∈ es', isSched e = false) → (∀ e ∈ es', isRunOf f e = false) →
    stealsOf f es' = 0 →
    ∃ s1, (sys M).run (es ++ [.switch k f]) = some s1 ∧
      holderSwitches M f s1 es' ≤ 2 * s1.busy.length := by
  intro es k f es' k' s_end hrun hns hnr h0
  obtain ⟨s1, hr, _, h2⟩ := between_consecutive_runs_N M es k f es' k' s_end hrun hns hnr
  exact ⟨s1, hr, by simpa [h0] using h2⟩

/-! ## N.3 steal ping-pong -/

/-- STEAL PING-PONG.  The bounds above count context switches; they do not say that `f` runs.
    Two idle thieves can pass a ready fiber back and forth for ever: fiber 0 on thread 0 wakes
    fiber 5 (`sched 0 5`), the idle thread 2 steals it, then — each time before the holder's
    `fiber_scheduler_next` has popped it — thread 1 steals it from thread 2 and thread 2 steals
    it back (each `steal` followed by its `pushed`: the push_bottom onto the thief's
    `schedule_from`), while fiber 0 polls with `fiber_yield` (which finds nothing on thread 0 and
    returns).  For every `n` this is an accepted event list with `2·n` steals of fiber 5,
    `2·n` yields of the poller, no `sched`, no context switch at all — fiber 5 is ready all the
    time and never runs —, and `remote_count > local_count` holds at every steal (the victim
    deque has 1 entry, the thief's `schedule_from` 0), so the guard of load_balance does not
    prevent it.  It takes a kernel-thread schedule in which each thief is overtaken between
    its `push_bottom` (fiber_scheduler_wsd.c:142) and its pop (:106) every single time. -/
theorem steal_pingpong (M : Nat) (n : Nat) : ∃ s0 s',
    (sys M).run [.sched 0 5, .steal 2 0 .to 5, .pushed 2 .frm 5, .steal 1 2 .frm 5,
      .pushed 1 .frm 5] = some s0 ∧
    (sys M).runFrom s0 (stealPingpong n) = some s' ∧
    CountGuard M init [.sched 0 5, .steal 2 0 .to 5, .pushed 2 .frm 5, .steal 1 2 .frm 5,
      .pushed 1 .frm 5] ∧
    CountGuard M s0 (stealPingpong n) ∧
    (∀ e ∈ stealPingpong n, isSched e = false ∧ isSwitch e = false) ∧
    stealsOf 5 (stealPingpong n) = 2 * n ∧
    (stealPingpong n).count (.yield 0) = 2 * n ∧
    QueuedOn 1 5 s0 ∧ QueuedOn 1 5 s' ∧ s0.sav 5 = false := by
  obtain ⟨s0, h0, hp0, hg0⟩ := pp_setup M
  obtain ⟨s', h1, hp1, hg1⟩ := pingpong_run M n hp0
  obtain ⟨c1, c2, c3⟩ := pingpong_props n
  refine ⟨s0, s', h0, h1, hg0, hg1, c1, c2, c3, Or.inl (by simp [hp0.frm1]),
    Or.inl (by simp [hp1.frm1]), ?_⟩
  have : (sys M).run ppSetup = some s0 := h0
  simp [Sys.run, Sys.runFrom, sys, ppSetup, step, init, src, popTop, lbNext, setSrc, upd] at this
  rw [← this]

/-- Consequently the number of steals of a ready fiber before it runs is not bounded by
    anything: the term `stealsOf f es'` in the theorems above cannot be replaced by a constant
    without a hypothesis such as the one of `between_consecutive_runs_no_resteal`. -/
theorem steals_unbounded (M : Nat) (B : Nat) : ∃ s0 es' s',
    (sys M).run [.sched 0 5, .steal 2 0 .to 5, .pushed 2 .frm 5, .steal 1 2 .frm 5,
      .pushed 1 .frm 5] = some s0 ∧
    (sys M).runFrom s0 es' = some s' ∧
    (∀ e ∈ es', isSched e = false) ∧ (∀ e ∈ es', isRunOf 5 e = false) ∧
    B < stealsOf 5 es' := by
  obtain ⟨s0, s', h0, h1, _, _, c1, c2, _, _, _, _⟩ := steal_pingpong M (B + 1)
  refine ⟨s0, stealPingpong (B + 1), s', h0, h1, fun e he => (c1 e he).1, ?_, by omega⟩
  intro e he
  have := (c1 e he).2
  cases e <;> simp_all [isSwitch, isRunOf]

/-! ## N.4 non-vacuity (2 kernel threads, a steal in the middle of a batch) -/

/-- main fiber 0 creates 1, 2, 3 on thread 0; 3 and 2 run and yield; 1 has been popped and is
    about to run -/
def exPre : List Ev :=
  [.sched 0 1, .sched 0 2, .sched 0 3,
   .yield 0, .pop 0 3, .switch 0 3, .pushed 0 .to 0, .resumed 0,
   .yield 0, .pop 0 2, .switch 0 2, .pushed 0 .to 3, .resumed 0,
   .yield 0, .pop 0 1]

/-- Between two runs of fiber 1: it yields on thread 0 and is bypassed there by 2 and 3; then,
    in the middle of the batch, the idle thread 1 steals it from the top of `store_to 0`, steals
    fiber 0 from `schedule_from 0` on top of it in the same load_balance call, runs fiber 0
    first, and finally fiber 1. -/
def exMid : List Ev :=
  [.pushed 0 .to 2, .resumed 0, .yield 0, .pop 0 2, .switch 0 2,
   .pushed 0 .to 1, .resumed 0, .yield 0, .pop 0 3, .switch 0 3, .pushed 0 .to 2,
   .steal 1 0 .to 1, .pushed 1 .frm 1, .steal 1 0 .frm 0, .pushed 1 .frm 0,
   .pop 1 0, .switch 1 0, .resumed 1, .yield 1, .pop 1 1]

/-- The hypotheses of `between_consecutive_runs_N/_code/_no_resteal` are satisfiable by a
    two-thread run with a steal in the middle of a batch: 4 fibers, fiber 1 is stolen once,
    and is bypassed 3 times on its holders (twice on thread 0, once on the thief by the loot
    pushed on top of it) before it runs again, on thread 1. -/
example : ∃ s1 s_end,
    (sys codeMaxSteal).run (exPre ++ [.switch 0 1]) = some s1 ∧
    (sys codeMaxSteal).run (exPre ++ [.switch 0 1] ++ exMid ++ [.switch 1 1]) = some s_end ∧
    (∀ e ∈ exMid, isSched e = false) ∧ (∀ e ∈ exMid, isRunOf 1 e = false) ∧
    stealsOf 1 exMid = 1 ∧ s1.busy.length = 4 ∧ s1.loc 1 = some 0 ∧
    holderSwitches codeMaxSteal 1 s1 exMid = 3 ∧
    s_end.loc 1 = some 1 ∧ s_end.cur 1 = some 1 ∧ s_end.cur 0 = some 3 ∧ s_end.to 0 = [2] :=
  ⟨_, _, rfl, rfl, by decide, by decide, by decide, rfl, rfl, by decide, rfl, rfl, rfl, rfl⟩

/-- Clauses (c) and (d) on the same run.  Right before the steals thread 0 holds
    `schedule_from = [0]`, `store_to = [2, 1]`: fiber 1 has rank `2·1 + 1 = 3` there and fiber 2
    rank `2`.  Stealing fiber 1 (the TOP of `store_to`) puts it at rank 0 on thread 1 and leaves
    fiber 2 at rank 2; the next steal (fiber 0, out of `schedule_from 0`) raises the stolen
    fiber 1 to rank 1 on the thief and LOWERS fiber 2 on thread 0 by 2, to rank 0. -/
example :
    ((sys codeMaxSteal).run (exPre ++ [.switch 0 1] ++ exMid.take 11)).map
        (fun s => (s.frm 0, s.to 0, rankOn 0 1 s, rankOn 0 2 s)) = some ([0], [2, 1], 3, 2) ∧
    ((sys codeMaxSteal).run (exPre ++ [.switch 0 1] ++ exMid.take 12)).map
        (fun s => (s.frm 1, s.to 0, rankOn 1 1 s, rankOn 0 2 s, s.lb 1)) =
      some ([1], [2], 0, 2, 1) ∧
    ((sys codeMaxSteal).run (exPre ++ [.switch 0 1] ++ exMid.take 14)).map
        (fun s => (s.frm 1, s.frm 0, rankOn 1 1 s, rankOn 0 2 s, s.lb 1)) =
      some ([0, 1], [], 1, 0, 2) := by decide

/-- The first cycles of the steal ping-pong, concretely: after 5 + 16 events fiber 5 has been
    stolen 6 times, nothing has run, and it sits on thread 1 again. -/
example : ((sys codeMaxSteal).run
      ([.sched 0 5, .steal 2 0 .to 5, .pushed 2 .frm 5, .steal 1 2 .frm 5, .pushed 1 .frm 5] ++
        stealPingpong 2)).map
      (fun s => (s.frm 1, s.frm 2, s.loc 5, s.cur 0, s.cur 1, s.cur 2)) =
    some ([5], [], some 1, some 0, none, none) := rfl

/-- A fiber that parks in state SAVING_STATE_TO_WAIT, is woken at once and reaches a run queue
    while its context is still being saved (2 kernel threads).  Thread 1 steals fiber 1 and runs
    it; fiber 1 parks (`finish 1 true`); fiber 0 on thread 0 wakes it (`sched 0 1`) before
    thread 1 has left it; thread 0's fiber_scheduler_next pops fiber 1, finds it SAVING and skips
    it into `store_to 0` — fiber 2 moves from rank 1 to rank 0 without a context switch — and
    switches to fiber 2.  Then thread 1 goes into its maintenance loop (`idle`), marks fiber 1
    WAITING (`saved`), calls load_balance — its `schedule_from` is empty —, steals fiber 1 back
    and runs it.  Every event kind of the model occurs in this run. -/
def exSaving : List Ev :=
  [.sched 0 1, .sched 0 2, .steal 1 0 .to 1, .pushed 1 .frm 1, .pop 1 1, .switch 1 1,
   .finish 1 true, .sched 0 1, .yield 0, .pop 0 1, .skip 0 1, .pushed 0 .to 1,
   .pop 0 2, .switch 0 2, .pushed 0 .to 0, .idle 1, .saved 1 1,
   .steal 1 0 .to 1, .pushed 1 .frm 1, .pop 1 1, .switch 1 1, .resumed 1]

example :
    ((sys codeMaxSteal).run (exSaving.take 10)).map
        (fun s => (s.frm 0, s.to 0, s.sav 1, s.loc 1, rankOn 0 2 s)) =
      some ([], [1, 2], true, some 0, 1) ∧
    ((sys codeMaxSteal).run (exSaving.take 11)).map
        (fun s => (s.frm 0, s.to 0, s.sav 1, rankOn 0 2 s, s.cur 0)) =
      some ([2], [1], true, 0, some 0) ∧
    ((sys codeMaxSteal).run (exSaving.take 17)).map
        (fun s => (s.frm 0, s.to 0, s.sav 1, s.cur 0, s.cur 1)) =
      some ([], [0, 1], false, some 2, none) ∧
    ((sys codeMaxSteal).run exSaving).map
        (fun s => (s.frm 0, s.to 0, s.cur 0, s.cur 1, s.loc 1, s.busy)) =
      some ([], [0], some 2, some 1, some 1, [1, 2, 0]) := ⟨rfl, rfl, rfl, rfl⟩

/-- `holder_steal_adds_one_or_two`, second case, concretely: thread 1 holds the skipped fiber 1 in
    its `store_to` (rank 0) when its fiber_scheduler_next has returned NULL, goes into its
    maintenance loop and steals fiber 2 from thread 0: fiber 1 now has rank 2 on thread 1 and is
    run after the loot.  (Fiber 1 parked on thread 0 this time and was woken by fiber 3 on
    thread 1.) -/
def exStoreTo : List Ev :=
  [.sched 0 1, .sched 0 2, .sched 0 3, .steal 1 0 .to 1, .pushed 1 .frm 1,
   .steal 1 0 .to 2, .pushed 1 .frm 2, .pop 1 2, .switch 1 2,        -- thread 1 runs fiber 2
   .yield 0, .pop 0 3, .switch 0 3, .pushed 0 .to 0,                  -- thread 0 runs fiber 3
   .finish 0 true,                                                   -- fiber 3 parks, SAVING
   .sched 1 3,                                                       -- fiber 2 wakes it: to 1 = [3]
   .finish 1 false,                                                  -- fiber 2 is done
   .pop 1 1, .switch 1 1, .finish 1 false,                           -- thread 1 runs fiber 1: done
   .pop 1 3, .skip 1 3, .pushed 1 .to 3, .idle 1,                    -- fiber 3 still SAVING: skipped
   .steal 1 0 .to 0, .pushed 1 .frm 0]                               -- load_balance, store_to = [3]

example :
    ((sys codeMaxSteal).run (exStoreTo.take 23)).map
        (fun s => (s.frm 1, s.to 1, s.sav 3, rankOn 1 3 s, s.lb 1)) = some ([], [3], true, 0, 0) ∧
    ((sys codeMaxSteal).run exStoreTo).map
        (fun s => (s.frm 1, s.to 1, rankOn 1 3 s, s.lb 1, s.frm 0, s.to 0)) =
      some ([0], [3], 2, 1, [], []) := ⟨rfl, rfl⟩

end LibfiberVerif.SchedN
