/-
  Props/C07.lean — property C07 (src/fiber_rwlock.c, include/fiber_rwlock.h), theorems only.

  "A writer holds the lock alone - never with another writer or any reader - while any number
   of readers may share it.  Every unlock that leaves waiters admits either exactly one waiting
   writer or all currently waiting readers, so no fiber stays blocked on a lock nobody holds;
   the try variants never block and succeed only when immediate acquisition is legal."

  Every theorem is for every event list `es` accepted by the model (`run es = some s`):
  unbounded fibers, operations and steps, every interleaving of the individual accesses of
  rdlock / wrlock / tryrdlock / trywrlock / rdunlock / wrunlock (read of the state word, CAS,
  every access of the enqueue and of the pop-and-wake), any mix of readers and writers,
  including waiters that are counted in the word but not yet enqueued at hand-off time
  (those are just states with a pc between `counted` and `pushXchgd`).  The kernel thread a
  fiber runs on does not occur in the model: the result is for any number of kernel threads.

  Explicit hypothesis (see Model/RwLock.lean): fewer than 2^21 simultaneous holders / waiters,
  i.e. a CAS whose new word would overflow a 21-bit field is not a model step.

  Vocabulary (Proof/RwLock.lean):
    `Holds s f b`   f holds in mode b (true = write): from its acquiring CAS — or, for a waiter,
                    from the releaser's pop that hands the lock to it, resumed or not — until
                    its releasing CAS (`holds_iff` spells this out on the pcs);
    `s.tok b`       grants issued to queue b by a releasing CAS and not yet consumed by a pop:
                    the lock is already owned by "the next `tok b` fibers popped from queue b".
                    Holders are therefore counted as identified holders + pending grants
                    (occupancy, not identity: which waiter consumes a grant is decided by the
                    queue order, a later registrant may overtake one that is still enqueueing);
    `Waits s f b`   f is counted in waiting_readers / waiting_writers (or covered by a grant)
                    and not yet popped (`waits_iff`);
    `Popping s p q` p is inside fiber_manager_wake_from_mpsc_queue on queue q (`popping_iff`).
-/
import LibfiberVerif.Proof.RwLock

namespace LibfiberVerif.RwLock

/-- A writer holds the lock alone: if `f` holds for writing, any holder `g` (any mode) is `f`
    itself; in counts (identified holders + pending grants): at most one writer, and then no
    reader at all.  Readers may share (nothing bounds `holders false`). -/
theorem writer_exclusive (stub : Bool → Nat) (nodeOf : Nat → Nat) (es : List Ev) (s : St)
    (h : (sys stub nodeOf).run es = some s) :
    (∀ f g b, Holds s f true → Holds s g b → g = f ∧ b = true) ∧
    (s.holders true).length + s.tok true ≤ 1 ∧
    ((s.holders true).length + s.tok true = 1 → s.holders false = [] ∧ s.tok false = 0) := by
  have hI := inv_of_run h
  exact ⟨fun f g b hf hg => hI.writer_alone hf hg, hI.excl_lists.1, hI.excl_lists.2⟩

/-- Critical-section form: a writer inside the critical section is alone in it. -/
theorem cs_exclusive (stub : Bool → Nat) (nodeOf : Nat → Nat) (es : List Ev) (s : St)
    (h : (sys stub nodeOf).run es = some s) (f g : Nat) (b : Bool)
    (hf : s.pc f = .inCs true) (hg : s.pc g = .inCs b) : g = f := by
  have hI := inv_of_run h
  have h1 : Holds s f true := by rw [holds_iff]; exact Or.inr (Or.inr (Or.inr (Or.inl hf)))
  have h2 : Holds s g b := by rw [holds_iff]; exact Or.inr (Or.inr (Or.inr (Or.inl hg)))
  exact (hI.writer_alone h1 h2).1

/-- The state word matches the holders: `write_locked` = number of write holders (0 or 1),
    `reader_count` = number of read holders, both counting handed-off-not-yet-resumed fibers
    and pending grants; the ghost lists are exactly the fibers that hold (no duplicates). -/
theorem word_matches (stub : Bool → Nat) (nodeOf : Nat → Nat) (es : List Ev) (s : St)
    (h : (sys stub nodeOf).run es = some s) :
    s.w.wl = (s.holders true).length + s.tok true ∧
    s.w.rc = (s.holders false).length + s.tok false ∧
    (∀ f b, f ∈ s.holders b ↔ Holds s f b) ∧ (∀ b, (s.holders b).Nodup) ∧
    (s.w.wl = 1 ↔ ((∃ f, Holds s f true) ∨ s.tok true = 1)) ∧
    (s.w.wl < 2 ∧ s.w.rc < 2 ^ 21 ∧ s.w.wr < 2 ^ 21 ∧ s.w.ww < 2 ^ 21) := by
  have hI := inv_of_run h
  refine ⟨hI.a.cnt_w, hI.a.cnt_r, fun f b => hI.holds_mem.symm, hI.b.hnd, ?_, hI.a.fits⟩
  have h1 := hI.a.cnt_w
  have h2 := hI.a.fits.1
  constructor
  · intro hw
    cases hl : s.holders true with
    | nil => right; rw [hl] at h1; simp at h1; omega
    | cons f l => left; exact ⟨f, hI.holds_mem.2 (by rw [hl]; simp)⟩
  · rintro (⟨f, hf⟩ | ht)
    · have := List.length_pos_of_mem (hI.holds_mem.1 hf); omega
    · omega

/-- The waiting counters match the waiters: `waiting_readers` / `waiting_writers` + pending
    grants = number of fibers counted and not yet popped (enqueued or still enqueueing). -/
theorem waiting_matches (stub : Bool → Nat) (nodeOf : Nat → Nat) (es : List Ev) (s : St)
    (h : (sys stub nodeOf).run es = some s) :
    (s.waiters false).length = s.w.wr + s.tok false ∧
    (s.waiters true).length = s.w.ww + s.tok true ∧
    (∀ f b, f ∈ s.waiters b ↔ Waits s f b) ∧ (∀ b, (s.waiters b).Nodup) := by
  have hI := inv_of_run h
  exact ⟨hI.a.wait_r, hI.a.wait_w, fun f b => hI.waits_mem.symm, hI.b.wnd⟩

/-- A try variant succeeds only when immediate acquisition is legal: the successful CAS of
    tryrdlock happens in a state with no writer (holding or granted) and nobody waiting; the
    successful CAS of trywrlock in a state where the lock is completely free; and the caller
    holds from that CAS on. -/
theorem try_legal_only (stub : Bool → Nat) (nodeOf : Nat → Nat) (es : List Ev) (s s' : St)
    (h : (sys stub nodeOf).run es = some s) (f found expected desired : Nat) (b : Bool) (snap : Nat)
    (hpc : s.pc f = .tryRead b snap)
    (hst : (sys stub nodeOf).step s (.cas f found expected desired true) = some s') :
    (b = false → s.w.wl = 0 ∧ s.w.ww = 0 ∧ s.w.wr = 0 ∧ (∀ g, ¬ Holds s g true) ∧ s.tok true = 0) ∧
    (b = true → s.w = ⟨0, 0, 0, 0⟩ ∧ (∀ g c, ¬ Holds s g c) ∧ s.tok true = 0 ∧ s.tok false = 0) ∧
    Holds s' f b := by
  have hI := inv_of_run h
  obtain ⟨hsnap, hs'⟩ := step_cas_try hst hpc
  have hleg : tryLegal b snap = true := by
    have := hI.e f; rw [hpc] at this; simpa [view] using this
  rw [hsnap, tryLegal_enc s.w hI.a.fits b] at hleg
  have h1 := hI.a.cnt_w
  have h2 := hI.a.cnt_r
  refine ⟨?_, ?_, ?_⟩
  · rintro rfl
    simp only [Bool.false_eq_true, if_false] at hleg
    refine ⟨hleg.2.1, hleg.1, hleg.2.2, ?_, by omega⟩
    intro g hg
    have := List.length_pos_of_mem (hI.holds_mem.1 hg); omega
  · rintro rfl
    simp only [if_true] at hleg
    refine ⟨?_, ?_, by omega, by omega⟩
    · cases hw : s.w; simp_all
    · intro g c hg
      have := List.length_pos_of_mem (hI.holds_mem.1 hg)
      cases c <;> omega
  · rw [holds_iff]; right; left; subst hs'; simp

/-- The try variants never block: a fiber inside tryrdlock / trywrlock stays in the read – CAS
    – retry loop until it returns (success: it holds; failure: idle); no step takes it into
    the wait path. -/
theorem try_never_blocks (stub : Bool → Nat) (nodeOf : Nat → Nat) (s s' : St) (e : Ev)
    (hst : (sys stub nodeOf).step s e = some s') (f : Nat) (b : Bool)
    (hf : s.pc f = .tryCalled b ∨ (∃ snap, s.pc f = .tryRead b snap) ∨ ∃ r, s.pc f = .tryDone b r) :
    s'.pc f = .tryCalled b ∨ (∃ snap, s'.pc f = .tryRead b snap) ∨ (∃ r, s'.pc f = .tryDone b r) ∨
      s'.pc f = .held b ∨ s'.pc f = .idle :=
  step_try_closed hst f b hf

/-- Every unlock that leaves waiters admits exactly one waiting writer or all currently
    waiting readers: a releasing CAS by the last holder (the word says one holder) with
    waiters counted transfers ownership IN THAT SAME CAS — to one writer (`write_locked`
    stays/becomes 1, one grant on the write queue, `waiting_writers` − 1), or, if no writer
    waits, to all counted readers (`reader_count := waiting_readers`, that many grants on
    the read queue, `waiting_readers := 0`) — and the releaser goes on to pop exactly those. -/
theorem release_admits (stub : Bool → Nat) (nodeOf : Nat → Nat) (es : List Ev) (s s' : St)
    (h : (sys stub nodeOf).run es = some s) (f found expected desired : Nat) (b : Bool) (snap : Nat)
    (hpc : s.pc f = .unlockRead b snap)
    (hst : (sys stub nodeOf).step s (.cas f found expected desired true) = some s')
    (hlast : s.w.wl + s.w.rc = 1) (hw : 0 < s.w.wr ∨ 0 < s.w.ww) :
    (0 < s.w.ww ∧ s'.w = ⟨1, 0, s.w.wr, s.w.ww - 1⟩ ∧ s'.tok true = 1 ∧ s'.tok false = 0 ∧
      s'.pc f = .wakeLoop true 1) ∨
    (s.w.ww = 0 ∧ s'.w = ⟨0, s.w.wr, 0, 0⟩ ∧ s'.tok false = s.w.wr ∧ s'.tok true = 0 ∧
      s'.pc f = .wakeLoop false s.w.wr) := by
  have hI := inv_of_run h
  obtain ⟨hsnap, hs'⟩ := step_cas_unlock hst hpc
  have hf : f ∈ s.holders b := hI.holds_mem.1 (by rw [holds_iff]; simp [hpc])
  have hpos := List.length_pos_of_mem hf
  have hnew := unlockNew_enc s.w hI.a.fits b
  rw [← hsnap] at hnew
  obtain ⟨h1, h2, h3, h4, h5, h6, h7, h8⟩ := hI.a
  cases b
  · -- rdunlock
    have hrc : s.w.rc = 1 := by omega
    have hwl : s.w.wl = 0 := by omega
    have hww : s.w.ww ≠ 0 := by omega
    have hmod : (s.w.rc + 2097152 - 1) % 2097152 = 0 := by omega
    simp only [Bool.false_eq_true, if_false, if_pos hmod, if_pos hww] at hnew
    rw [hnew] at hs'
    rcases hs' with ⟨hn, -⟩ | ⟨q, n, hn, hs'⟩
    · simp at hn
    · simp only [Option.some.injEq, Prod.mk.injEq] at hn
      obtain ⟨rfl, rfl⟩ := hn
      left; subst hs'
      refine ⟨by omega, rfl, by simp [updB]; omega, by simp [updB]; omega, by simp⟩
  · -- wrunlock
    have hwl : s.w.wl = 1 := by omega
    have hrc : s.w.rc = 0 := by omega
    by_cases hww : s.w.ww ≠ 0
    · simp only [if_true, if_pos hww] at hnew
      rw [hnew] at hs'
      rcases hs' with ⟨hn, -⟩ | ⟨q, n, hn, hs'⟩
      · simp at hn
      · simp only [Option.some.injEq, Prod.mk.injEq] at hn
        obtain ⟨rfl, rfl⟩ := hn
        left; subst hs'
        refine ⟨by omega, by simp [hrc], by simp [updB]; omega, by simp [updB]; omega, by simp⟩
    · have hwr : s.w.wr ≠ 0 := by omega
      simp only [if_true, if_neg hww, if_pos hwr] at hnew
      rw [hnew] at hs'
      rcases hs' with ⟨hn, -⟩ | ⟨q, n, hn, hs'⟩
      · simp at hn
      · simp only [Option.some.injEq, Prod.mk.injEq] at hn
        obtain ⟨rfl, rfl⟩ := hn
        right; subst hs'
        refine ⟨by omega, by simp; omega, by simp [updB]; omega, by simp [updB]; omega, by simp⟩

/-- …and an unlock by the last holder with nobody counted as waiting frees the lock. -/
theorem release_frees (stub : Bool → Nat) (nodeOf : Nat → Nat) (es : List Ev) (s s' : St)
    (h : (sys stub nodeOf).run es = some s) (f found expected desired : Nat) (b : Bool) (snap : Nat)
    (hpc : s.pc f = .unlockRead b snap)
    (hst : (sys stub nodeOf).step s (.cas f found expected desired true) = some s')
    (hlast : s.w.wl + s.w.rc = 1) (hw : s.w.wr = 0 ∧ s.w.ww = 0) :
    s'.w = ⟨0, 0, 0, 0⟩ ∧ s'.pc f = .unlockDone := by
  have hI := inv_of_run h
  obtain ⟨hsnap, hs'⟩ := step_cas_unlock hst hpc
  have hf : f ∈ s.holders b := hI.holds_mem.1 (by rw [holds_iff]; simp [hpc])
  have hpos := List.length_pos_of_mem hf
  have hnew := unlockNew_enc s.w hI.a.fits b
  rw [← hsnap] at hnew
  obtain ⟨h1, h2, h3, h4, h5, h6, h7, h8⟩ := hI.a
  have hww : ¬ s.w.ww ≠ 0 := by omega
  have hwr : ¬ s.w.wr ≠ 0 := by omega
  cases b
  · have hmod : (s.w.rc + 2097152 - 1) % 2097152 = 0 := by omega
    simp only [Bool.false_eq_true, if_false, if_pos hmod, if_neg hww, if_neg hwr] at hnew
    rw [hnew] at hs'
    rcases hs' with ⟨-, hs'⟩ | ⟨q, n, hn, -⟩
    · subst hs'; refine ⟨?_, by simp⟩; simp; omega
    · simp at hn
  · simp only [if_true, if_neg hww, if_neg hwr] at hnew
    rw [hnew] at hs'
    rcases hs' with ⟨-, hs'⟩ | ⟨q, n, hn, -⟩
    · subst hs'; refine ⟨?_, by simp⟩; simp; omega
    · simp at hn

/-- No fiber stays blocked on a lock nobody holds.  Word level (the inductive form):
    waiting readers imply a writer holds or waits; waiting writers imply somebody holds.
    Fiber level: whenever some fiber is counted as waiting, either some fiber holds the lock,
    or a grant is pending and a releaser is inside its pop loop on that queue. -/
theorem no_stranded (stub : Bool → Nat) (nodeOf : Nat → Nat) (es : List Ev) (s : St)
    (h : (sys stub nodeOf).run es = some s) :
    (0 < s.w.wr → s.w.wl = 1 ∨ 0 < s.w.ww) ∧
    (0 < s.w.ww → s.w.wl = 1 ∨ 0 < s.w.rc) ∧
    (0 < s.w.wr ∨ 0 < s.w.ww → s.w.wl = 1 ∨ 0 < s.w.rc) ∧
    (∀ f b, Waits s f b → (∃ g c, Holds s g c) ∨ (∃ q p, 0 < s.tok q ∧ Popping s p q)) := by
  have hI := inv_of_run h
  obtain ⟨h1, h2, h3, h4, h5, h6, h7, h8⟩ := hI.a
  have hword : 0 < s.w.wr ∨ 0 < s.w.ww → s.w.wl = 1 ∨ 0 < s.w.rc := by
    rintro (hr | hw)
    · rcases h7 hr with hl | hw
      · exact Or.inl hl
      · exact h8 hw
    · exact h8 hw
  refine ⟨h7, h8, hword, ?_⟩
  intro f b hf
  have hpos := List.length_pos_of_mem (hI.waits_mem.1 hf)
  have key : ∀ c, 0 < (s.holders c).length + s.tok c →
      (∃ g c, Holds s g c) ∨ (∃ q p, 0 < s.tok q ∧ Popping s p q) := by
    intro c hc
    by_cases ht : 0 < s.tok c
    · obtain ⟨p, hp⟩ := hI.d.p4 c ht
      exact Or.inr ⟨c, p, ht, hp⟩
    · cases hl : s.holders c with
      | nil => rw [hl] at hc; simp at hc; omega
      | cons g l => exact Or.inl ⟨g, c, hI.holds_mem.2 (by rw [hl]; simp)⟩
  by_cases ht : 0 < s.tok b
  · exact key b (by omega)
  · have : 0 < s.w.wr ∨ 0 < s.w.ww := by cases b <;> omega
    rcases hword this with hl | hr
    · exact key true (by omega)
    · exact key false (by omega)

/-- The mpsc client obligation: each waiter queue has at most one consumer at a time. -/
theorem single_consumer (stub : Bool → Nat) (nodeOf : Nat → Nat) (es : List Ev) (s : St)
    (h : (sys stub nodeOf).run es = some s) (p p' : Nat) (q : Bool)
    (hp : Popping s p q) (hp' : Popping s p' q) : p = p' :=
  (inv_of_run h).d.p3 p p' q hp hp'

/-- …because the next hand-off to a queue needs the whole previous batch to be done: a
    releasing CAS that hands off to queue `q` happens only when no grant is pending on `q`
    and no fiber is popping `q` (not even finishing the wake-up of its last popped fiber). -/
theorem handoff_after_batch (stub : Bool → Nat) (nodeOf : Nat → Nat) (es : List Ev) (s s' : St)
    (h : (sys stub nodeOf).run es = some s) (f found expected desired : Nat) (b : Bool) (snap : Nat)
    (hpc : s.pc f = .unlockRead b snap)
    (hst : (sys stub nodeOf).step s (.cas f found expected desired true) = some s')
    (q : Bool) (n : Nat) (hh : (unlockNew b snap).2 = some (q, n)) :
    s.tok q = 0 ∧ 0 < n ∧ (∀ p, ¬ Popping s p q) ∧ s'.tok q = n ∧ s'.pc f = .wakeLoop q n := by
  have hI := inv_of_run h
  obtain ⟨hsnap, hs'⟩ := step_cas_unlock hst hpc
  have hf : f ∈ s.holders b := hI.holds_mem.1 (by rw [holds_iff]; simp [hpc])
  have hA := unlock_A hI.a b f hf
  rw [← hsnap, hh] at hA
  obtain ⟨-, ht0, hn, hall⟩ := hA
  have hpf : s.prk f = none := by simp [St.prk, hpc, view]
  refine ⟨ht0, hn, fun p => no_popper hI q f ht0 hall hpf p, ?_⟩
  rcases hs' with ⟨hn', -⟩ | ⟨q', n', hn', hs'⟩
  · rw [hh] at hn'; simp at hn'
  · rw [hh] at hn'; simp only [Option.some.injEq, Prod.mk.injEq] at hn'
    obtain ⟨rfl, rfl⟩ := hn'
    subst hs'; simp [ht0]

/-- The pop loop's counter is the number of grants still pending on its queue. -/
theorem pop_count (stub : Bool → Nat) (nodeOf : Nat → Nat) (es : List Ev) (s : St)
    (h : (sys stub nodeOf).run es = some s) (p : Nat) (q : Bool) (k : Nat)
    (hp : s.pc p = .wakeLoop q k) : s.tok q = k ∧ 0 < k :=
  (inv_of_run h).d.p1 p q k (by simp [St.pre, hp, view])

/-- The rdunlock branch "last reader hands off to waiting readers" is dead code: whenever a
    read holder could release, the hand-off (if any) goes to one writer.  (So deleting
    `waiting_readers = 0` from that branch is an equivalent mutant.) -/
theorem rdunlock_reader_branch_dead (stub : Bool → Nat) (nodeOf : Nat → Nat) (es : List Ev) (s : St)
    (h : (sys stub nodeOf).run es = some s) (f : Nat) (hf : Holds s f false) :
    (unlockNew false (encode s.w)).2 = none ∨ (unlockNew false (encode s.w)).2 = some (true, 1) := by
  have hI := inv_of_run h
  have hpos := List.length_pos_of_mem (hI.holds_mem.1 hf)
  rw [unlockNew_enc s.w hI.a.fits false]
  obtain ⟨h1, h2, h3, h4, h5, h6, h7, h8⟩ := hI.a
  simp only [Bool.false_eq_true, if_false]
  generalize (s.w.rc + 2097152 - 1) % 2097152 = r
  by_cases h0 : r = 0
  · by_cases hww : s.w.ww ≠ 0
    · simp [h0, hww]
    · have hwr : ¬ s.w.wr ≠ 0 := by omega
      simp only [if_pos h0, if_neg hww, if_neg hwr]; simp
  · simp [h0]

/-- The occupancy monitor that `verifdrv` evaluates on every implementation history (a writer
    in the critical section with anybody else; a try variant reporting success while the
    critical section is occupied incompatibly) never fires on a trace the model accepts. -/
theorem monitor_silent (stub : Bool → Nat) (nodeOf : Nat → Nat) (es : List Ev) (s : St)
    (h : (sys stub nodeOf).run es = some s) : monitor es = none :=
  monitor_none_of_run h

/-! ### non-vacuity: a concrete trace (a run of the real implementation, 5 fibers on 2 kernel
    threads, script `w,u|r,u|w,u|r,u,W,u|R,u`, as logged by harness/rwlock.c) -/

def demo : List Ev :=
  [.callLock 16 true, .rBlob 16 0, .cas 16 0 0 1 true, .retLock 16 true,
   .csEnter 16 true, .csExit 16, .callUnlock 16 true, .rBlob 16 1,
   .cas 16 1 1 0 true, .retUnlock 16, .callTry 20 false, .rBlob 20 0,
   .cas 20 0 0 2 true, .callLock 18 true, .rBlob 18 2, .retTry 20 false true,
   .csEnter 20 false, .cas 18 2 2 8796093022210 true, .wState 18 18 5, .rNode 18 18 21,
   .wData 18 21 18, .wNode 18 18 0, .wNext 18 21 0, .callLock 19 false,
   .xchgTail 18 true 2 21, .rBlob 19 8796093022210, .wNext 18 2 21, .cas 19 8796093022210 8796093022210 8796097216514 true,
   .wState 19 19 5, .rNode 19 19 22, .wData 19 22 19, .wNode 19 19 0,
   .wNext 19 22 0, .xchgTail 19 false 1 22, .wNext 19 1 22, .callLock 17 false,
   .csExit 20, .callUnlock 20 false, .rBlob 20 8796097216514, .rBlob 17 8796097216514,
   .cas 17 8796097216514 8796097216514 8796101410818 true, .wState 17 17 5, .cas 20 8796101410818 8796097216514 4194305 false, .rNode 17 17 20,
   .wData 17 20 17, .rBlob 20 8796101410818, .cas 20 8796101410818 8796101410818 8388609 true, .rHead 20 true 2,
   .wNode 17 17 0, .wNext 17 20 0, .xchgTail 17 false 22 20, .wNext 17 22 20,
   .rNext 20 2 21, .wHead 20 true 21, .rData 20 21 18, .wData 20 2 18,
   .rData 20 2 18, .wNode 20 18 2, .rState 20 18 3, .wState 20 18 2,
   .retUnlock 20, .retLock 18 true, .csEnter 18 true, .csExit 18,
   .callUnlock 18 true, .rBlob 18 8388609, .cas 18 8388609 8388609 4 true, .rHead 18 false 1,
   .rNext 18 1 22, .wHead 18 false 22, .rData 18 22 19, .wData 18 1 19,
   .rData 18 1 19, .wNode 18 19 1, .rState 18 19 3, .wState 18 19 2,
   .rHead 18 false 22, .rNext 18 22 20, .wHead 18 false 20, .rData 18 20 17,
   .wData 18 22 17, .rData 18 22 17, .wNode 18 17 22, .rState 18 17 3,
   .wState 18 17 2, .retUnlock 18, .retLock 19 false, .csEnter 19 false,
   .retLock 17 false, .csEnter 17 false, .csExit 19, .callUnlock 19 false,
   .rBlob 19 4, .cas 19 4 4 2 true, .retUnlock 19, .callTry 19 true,
   .rBlob 19 2, .retTry 19 true false, .csExit 17, .callUnlock 17 false,
   .rBlob 17 2, .cas 17 2 2 0 true, .retUnlock 17]

def dsys : Sys St Ev := sys (fun b => if b then 2 else 1) (fun k => k + 3)

/-- the whole trace is accepted and ends with the lock free -/
example : (dsys.run demo).map (fun s => (s.w, s.holders true, s.holders false, s.tok true, s.tok false)) =
    some (⟨0, 0, 0, 0⟩, [], [], 0, 0) := by decide

/-- `try_legal_only`: event 12 is a successful tryrdlock CAS from pc `tryRead` -/
example : (dsys.run (demo.take 12)).map (fun s => s.pc 20) = some (.tryRead false 0) ∧
    ((dsys.run (demo.take 12)).bind (fun s => dsys.step s (.cas 20 0 0 2 true))).isSome = true := by
  decide

/-- `release_admits`, first alternative: event 46 is the rdunlock CAS of the last reader (20)
    with one writer (18) and two readers (19 enqueued, 17 counted but NOT yet enqueued)
    waiting; it hands to the writer in that CAS; the readers keep waiting behind `wl = 1` -/
example : (dsys.run (demo.take 46)).map
      (fun s => (s.w, s.pc 20, s.pc 17, s.waiters true, s.waiters false)) =
    some (⟨0, 1, 2, 1⟩, .unlockRead false 8796101410818, .waitWroteData false 20, [18], [17, 19]) ∧
    (dsys.run (demo.take 47)).map (fun s => (s.w, s.pc 20, s.tok true, s.tok false)) =
    some (⟨1, 0, 2, 0⟩, .wakeLoop true 1, 1, 0) := by decide

/-- `release_admits`, second alternative: event 66 is the wrunlock CAS of writer 18 with two
    readers waiting and no writer: both are admitted in that CAS -/
example : (dsys.run (demo.take 66)).map (fun s => (s.w, s.pc 18, s.holders true)) =
    some (⟨1, 0, 2, 0⟩, .unlockRead true 8388609, [18]) ∧
    (dsys.run (demo.take 67)).map (fun s => (s.w, s.pc 18, s.tok true, s.tok false)) =
    some (⟨0, 2, 0, 0⟩, .wakeLoop false 2, 0, 2) := by decide

/-- a handed-off reader (19) holds before it is resumed, while the other grant is pending -/
example : (dsys.run (demo.take 70)).map (fun s => (s.pc 18, s.pc 19, s.woken 19)) =
      some (.popMoved false 1 1 22 19, .parked false 0, false) ∧
    (dsys.run (demo.take 70)).map (fun s => (s.holders false, s.waiters false, s.tok false)) =
      some ([19], [17], 1) := by decide

/-- a failed CAS loops back to the read (event 42), and a failing trywrlock returns without
    a CAS (event 97) -/
example : (dsys.run (demo.take 43)).map (fun s => s.pc 20) = some (.unlockCalled false) ∧
    (dsys.run (demo.take 97)).map (fun s => s.pc 19) = some (.tryDone true false) := by decide

end LibfiberVerif.RwLock
