/-
  Props/C20.lean — property C20:

  "The lock-free LIFO, the single-pusher/multi-popper FIFO, the flushable stack and the
   multi-waiter signal hand every pushed node (or waiting fiber) to exactly one taker, in
   LIFO respectively FIFO order, even when a node is popped, reused and pushed again while
   another thread still holds a stale snapshot.  A multi-signal raise either releases
   exactly one waiter or leaves the signal raised for the next wait (pending raises
   coalesce); it never releases two waiters and is never dropped while a fiber is waiting."

  This file has one namespace per structure:
    `C20.Lifo`      include/mpmc_lifo.h    (model Model/Lifo.lean,     invariant Proof/Lifo.lean)
    `C20.DistFifo`  include/dist_fifo.h    (model Model/DistFifo.lean, invariant Proof/DistFifo.lean)
    `C20.Stack`     include/mpmc_stack.h   (model Model/Stack.lean,    invariant Proof/Stack.lean)
    `C20.MultiSignal`  include/fiber_signal.h, fiber_multi_signal_t (model Model/MultiSignal.lean,
                    invariant Proof/MultiSignal*.lean; harness on the real fiber runtime)

  Every theorem quantifies over ALL event lists the model accepts (`run es = some s`): any
  number of threads, any number of nodes, any amount of node reuse, every interleaving of the
  two snapshot loads, the plain `next`/`data` accesses and the double-word CAS.  The models
  are tied to the C code by trace validation (tools/check.py C20).

  Client obligations are part of the models' `step` (a trace that breaks one is not accepted):
  a pushed node is non-NULL and owned by the pushing thread; dist_fifo has ONE pusher.
-/
import LibfiberVerif.Proof.Lifo
import LibfiberVerif.Proof.DistFifo
import LibfiberVerif.Proof.Stack
import LibfiberVerif.Proof.MultiSignal

namespace LibfiberVerif.Props.C20

/-! ################################################################################
    ## Part 1 — mpmc_lifo.h
    ################################################################################ -/
namespace Lifo
open LibfiberVerif LibfiberVerif.Lifo LibfiberVerif.NodeList

/-- `counter_counts_updates`: the counter word equals the number of successful CAS2s. -/
theorem counter_counts_updates (own0 : Nat → Nat) (es : List Ev) (s : St)
    (h : (sys own0).run es = some s) : s.counter = (es.filter casOk).length :=
  counter_counts h

/-- `cas2_success_means_unchanged`: if thread `t`'s CAS2 succeeds, then since `t`'s last
    counter load (`post` contains no later one) NO successful CAS2 happened, the counter is
    the loaded one and the head is the expected one. -/
theorem cas2_success_means_unchanged (own0 : Nat → Nat) (pre post : List Ev) (t c el eh nl nh : Nat)
    (s s' : St)
    (hrun : (sys own0).run (pre ++ [Ev.ldCounter t c] ++ post) = some s)
    (hlast : ∀ e ∈ post, ∀ c', e ≠ Ev.ldCounter t c')
    (hcas : step s (.cas2 t el eh nl nh true) = some s') :
    el = c ∧ s.counter = c ∧ s.head = eh ∧ ∀ e ∈ post, casOk e = false :=
  cas2_success_unchanged hrun hlast hcas

/-- The abstract stack IS the list of nodes reachable from `head` by following `next` (and
    is the only such list), has no duplicates, and contains exactly the un-owned nodes:
    nothing is lost, nothing is in twice, nothing a thread holds is still reachable. -/
theorem stack_is_reachable (own0 : Nat → Nat) (es : List Ev) (s : St)
    (h : (sys own0).run es = some s) :
    Chain s.next s.head s.stk ∧ (∀ l, Chain s.next s.head l → l = s.stk) ∧ s.stk.Nodup ∧
      ∀ n, n ∈ s.stk ↔ s.owner n = none :=
  have hI := inv_of_run h
  ⟨hI.chain, fun _ hl => chain_unique hl hI.chain, hI.nodup, hI.own⟩

/-- `Lifo.lifo_order`, step form: a successful pop CAS2 — however stale the popper's view
    of the node was in between — removes exactly the TOP of the abstract stack at the CAS
    instant, installs the SECOND element as head (the `next` it read is still right, despite
    reuse), and hands the node to the popping thread alone. -/
theorem pop_takes_top (own0 : Nat → Nat) (es : List Ev) (s s' : St) (t c h x el eh nl nh : Nat)
    (hrun : (sys own0).run es = some s) (hpc : s.pc t = .popGotNext c h x)
    (hcas : step s (.cas2 t el eh nl nh true) = some s') :
    s.counter = c ∧ s.head = h ∧ s.next h = x ∧ s.stk = h :: s'.stk ∧ Chain s'.next x s'.stk ∧
      s'.head = x ∧ s'.owner h = some t ∧ s'.lin = s.lin ++ [.pop h (s.data h)] :=
  pop_cas_success (inv_of_run hrun) hpc hcas

/-- a successful push CAS2 conses the (owned) node onto the stack as it is at the CAS instant -/
theorem push_puts_on_top (own0 : Nat → Nat) (es : List Ev) (s s' : St) (t n c h el eh nl nh : Nat)
    (hrun : (sys own0).run es = some s) (hpc : s.pc t = .pushWroteNext n c h)
    (hcas : step s (.cas2 t el eh nl nh true) = some s') :
    s.counter = c ∧ s.head = h ∧ s.next n = h ∧ s'.stk = n :: s.stk ∧ s'.head = n ∧
      s.owner n = some t ∧ s'.owner n = none ∧ s'.lin = s.lin ++ [.push n (s.data n)] :=
  push_cas_success (inv_of_run hrun) hpc hcas

/-- `Lifo.lifo_order`, history form: the linearisation (one entry per successful CAS2, and one
    per pop that loaded a NULL head) is a legal SEQUENTIAL stack history — every pop returns the
    most recently pushed node not yet popped, with the value it was pushed with, and "empty"
    is only answered when the stack is empty — and it ends in the current stack. -/
theorem lifo_order (own0 : Nat → Nat) (es : List Ev) (s : St) (h : (sys own0).run es = some s) :
    stackReplay s.lin = some (s.stk.map (fun n => (n, s.data n))) :=
  (inv_of_run h).lin

/-- `Lifo.exactly_once`: every node has been handed out exactly as often as it was pushed,
    not counting the copy that is in the stack right now (at most one: `stack_is_reachable`). -/
theorem exactly_once (own0 : Nat → Nat) (es : List Ev) (s : St) (h : (sys own0).run es = some s)
    (n : Nat) : pushCount n s.lin = takeCount n s.lin + (if n ∈ s.stk then 1 else 0) :=
  count_balance (inv_of_run h) n

/-- … so once the stack is drained (head = NULL) every push has been matched by exactly one pop. -/
theorem drained_all_taken (own0 : Nat → Nat) (es : List Ev) (s : St) (h : (sys own0).run es = some s)
    (hd : s.head = 0) (n : Nat) : pushCount n s.lin = takeCount n s.lin := by
  have hI := inv_of_run h
  have : s.stk = [] := by have := hI.chain; rw [hd] at this; exact chain_zero this
  have := count_balance hI n
  simp_all

/-- a node a thread is working with (about to push, or just popped) is owned by that thread
    only, and is not reachable from `head` -/
theorem held_node_is_private (own0 : Nat → Nat) (es : List Ev) (s : St) (h : (sys own0).run es = some s)
    (t n : Nat) (hc : claim (s.pc t) = some n) : s.owner n = some t ∧ n ∉ s.stk := by
  have hI := inv_of_run h
  have := hI.claimOk t n hc
  refine ⟨this.2, fun hm => ?_⟩
  have := (hI.own n).1 hm
  simp_all

/-! ### non-vacuity: node reuse under a stale snapshot — the ABA case

  Thread 1 snapshots (counter 2, head n2, n2->next = n1) and stalls.  Thread 0 pops n2, pops
  n1 and pushes n2 AGAIN: the head pointer is n2 again, but n2->next is NULL now and n1
  belongs to thread 0.  Thread 1's CAS2 FAILS — same pointer, counter 5 ≠ 2 — (had it
  succeeded, head would have become the privately owned n1); it retries and pops n2. -/

def abaTrace : List Ev := [
  .callPush 0 11, .wrData 0 1 11, .ldCounter 0 0, .ldHead 0 0, .wrNext 0 1 0, .cas2 0 0 0 1 1 true, .retPush 0,
  .callPush 0 22, .wrData 0 2 22, .ldCounter 0 1, .ldHead 0 1, .wrNext 0 2 1, .cas2 0 1 1 2 2 true, .retPush 0,
  .callPop 1, .ldCounter 1 2, .ldHead 1 2, .rdNext 1 2 1,
  .callPop 0, .ldCounter 0 2, .ldHead 0 2, .rdNext 0 2 1, .cas2 0 2 2 3 1 true, .rdData 0 2 22, .retPop 0 22,
  .callPop 0, .ldCounter 0 3, .ldHead 0 1, .rdNext 0 1 0, .cas2 0 3 1 4 0 true, .rdData 0 1 11, .retPop 0 11,
  .callPush 0 33, .wrData 0 2 33, .ldCounter 0 4, .ldHead 0 0, .wrNext 0 2 0, .cas2 0 4 0 5 2 true, .retPush 0,
  .cas2 1 2 2 3 1 false,
  .ldCounter 1 5, .ldHead 1 2, .rdNext 1 2 0, .cas2 1 5 2 6 0 true, .rdData 1 2 33, .retPop 1 33]

/-- the whole trace is accepted; at the end the stack is empty, n1 is thread 0's, n2 thread 1's -/
example : ((sys (fun _ => 0)).run abaTrace).map (fun s => (s.counter, s.head, s.stk, s.owner 1, s.owner 2))
    = some (6, 0, [], some 0, some 1) := by decide

/-- right before thread 1's failing CAS2 the head POINTER equals the expected pointer (n2)
    and only the counter differs (5 vs 2): the ABA situation, averted by the counter -/
example : ((sys (fun _ => 0)).run (abaTrace.take 39)).map
      (fun s => (s.counter, s.head, s.next 2, s.pc 1, (step s (.cas2 1 2 2 3 1 false)).isSome,
                 (step s (.cas2 1 2 2 3 1 true)).isSome))
    = some (5, 2, 0, .popGotNext 2 2 1, true, false) := by decide

end Lifo

/-! ################################################################################
    ## Part 2 — dist_fifo.h
    ################################################################################ -/
namespace DistFifo
open LibfiberVerif LibfiberVerif.DistFifo LibfiberVerif.NodeList

/-- `counter_counts_updates` -/
theorem counter_counts_updates (pusher stub : Nat) (own0 : Nat → Nat) (es : List Ev) (s : St)
    (h : (sys pusher stub own0).run es = some s) : s.counter = (es.filter casOk).length :=
  counter_counts h

/-- `cas2_success_means_unchanged`: a popper's CAS2 succeeds only if no successful CAS2
    happened since its last (plain) read of the counter word. -/
theorem cas2_success_means_unchanged (pusher stub : Nat) (own0 : Nat → Nat) (pre post : List Ev)
    (t c el eh nl nh : Nat) (s s' : St)
    (hrun : (sys pusher stub own0).run (pre ++ [Ev.rdCounter t c] ++ post) = some s)
    (hlast : ∀ e ∈ post, ∀ c', e ≠ Ev.rdCounter t c')
    (hcas : step s (.cas2 t el eh nl nh true) = some s') :
    el = c ∧ s.counter = c ∧ s.head = eh ∧ ∀ e ∈ post, casOk e = false :=
  cas2_success_unchanged hrun hlast hcas

/-- the abstract node list (stub first) IS what `next` spells from `head`, non-empty, without
    duplicates, and consists exactly of the un-owned nodes -/
theorem chain_is_reachable (pusher stub : Nat) (own0 : Nat → Nat) (hstub : stub ≠ 0) (es : List Ev) (s : St)
    (h : (sys pusher stub own0).run es = some s) :
    Chain s.next s.head s.chain ∧ (∀ l, Chain s.next s.head l → l = s.chain) ∧ s.chain ≠ [] ∧
      s.chain.Nodup ∧ ∀ n, n ∈ s.chain ↔ s.owner n = none :=
  have hI := inv_of_run hstub h
  ⟨hI.chain, fun _ hl => chain_unique hl hI.chain, hI.ne, hI.nodup, hI.own⟩

/-- client obligation carried through: only the distinguished thread is ever inside push -/
theorem single_pusher (pusher stub : Nat) (own0 : Nat → Nat) (hstub : stub ≠ 0) (es : List Ev) (s : St)
    (h : (sys pusher stub own0).run es = some s) (t : Nat) (hp : isPush (s.pc t) = true) :
    t = s.pusher :=
  (inv_of_run hstub h).pusherOnly t hp

/-- `DistFifo.exactly_once`, step form: a successful CAS2 — whatever the popper read from
    recycled nodes before — unlinks exactly the CURRENT stub, the data it read is the FIRST
    queued value, the successor becomes the stub, the old stub goes to the popping thread
    alone, and exactly that value is recorded as dequeued. -/
theorem pop_takes_first (pusher stub : Nat) (own0 : Nat → Nat) (hstub : stub ≠ 0) (es : List Ev)
    (s s' : St) (t c h x d el eh nl nh : Nat)
    (hrun : (sys pusher stub own0).run es = some s) (hpc : s.pc t = .popGotData c h x d)
    (hcas : step s (.cas2 t el eh nl nh true) = some s') :
    s.counter = c ∧ s.head = h ∧ s.next h = x ∧ s.data x = d ∧ s.chain = h :: s'.chain ∧
      s'.chain.head? = some x ∧ s'.head = x ∧ s'.owner h = some t ∧ s'.lin = s.lin ++ [.deq d] :=
  pop_cas_success (inv_of_run hstub hrun) hpc hcas

/-- `DistFifo.fifo`, history form: the linearisation (`enq` at the pusher's link store, `deq`
    at each successful CAS2) is a legal SEQUENTIAL FIFO history ending in the current content -/
theorem fifo (pusher stub : Nat) (own0 : Nat → Nat) (hstub : stub ≠ 0) (es : List Ev) (s : St)
    (h : (sys pusher stub own0).run es = some s) :
    fifoReplay s.lin = some (s.chain.tail.map s.data) :=
  (inv_of_run hstub h).lin

/-- `DistFifo.exactly_once` + `fifo`: the values popped so far, in pop order, followed by the
    values still queued, are EXACTLY the values pushed, in push order: every pushed value is
    popped at most once, in order, none is skipped or invented, none is lost. -/
theorem exactly_once (pusher stub : Nat) (own0 : Nat → Nat) (hstub : stub ≠ 0) (es : List Ev) (s : St)
    (h : (sys pusher stub own0).run es = some s) :
    enqs s.lin = deqs s.lin ++ s.chain.tail.map s.data :=
  fifo_prefix (inv_of_run hstub h)

/-- a node a thread is working with (the pusher's new node, a popper's unlinked stub) is
    owned by that thread only and is not linked -/
theorem held_node_is_private (pusher stub : Nat) (own0 : Nat → Nat) (hstub : stub ≠ 0) (es : List Ev)
    (s : St) (h : (sys pusher stub own0).run es = some s)
    (t n : Nat) (hc : claim (s.pc t) = some n) : s.owner n = some t ∧ n ∉ s.chain := by
  have hI := inv_of_run hstub h
  have := hI.claimOk t n hc
  refine ⟨this.2, fun hm => ?_⟩
  have := (hI.own n).1 hm
  simp_all

/-- EMPTY, partial: a trypop that reads `next = NULL` WHILE THE COUNTER IS STILL THE ONE IT READ
    has seen the current stub without successor: the fifo holds no value at that instant. -/
theorem empty_justified_partial (pusher stub : Nat) (own0 : Nat → Nat) (hstub : stub ≠ 0) (es : List Ev)
    (s s' : St) (t c h : Nat) (hrun : (sys pusher stub own0).run es = some s)
    (hpc : s.pc t = .popGotNode c h) (hrd : step s (.rdNext t h 0) = some s')
    (hcnt : s.counter = c) : s.chain = [h] ∧ s.chain.tail.map s.data = [] := by
  have := empty_justified (inv_of_run hstub hrun) hpc hrd hcnt
  simp [this]

/-! ### negative witness: EMPTY is NOT validated against the counter

  (Not one of C20's clauses — no node is lost, duplicated or reordered — but worth knowing.)
  `dist_fifo_trypop` returns EMPTY as soon as it reads `prev_head->next == NULL`, without a
  CAS2.  If the node it read as head has meanwhile been popped, handed back and is being
  pushed again (the pusher's `new_node->next = NULL`), the popper answers EMPTY although
  the fifo held a value during its whole call.  Reproduced on the unchanged C code:
  `distfifo 0,0,0 'p1,p2,p3,o,p4,o|o,o|o'`, VR_SCHED=freeze VR_SEED=380211206
  VR_FREEZE_DEN=6 VR_FREEZE_LEN=25 (thread 2 answers 0 while value 3 is queued). -/

def spuriousEmptyTrace : List Ev := [
  .callPush 0 11, .wrData 0 2 11, .rdTail 0 1, .wrNext 0 2 0, .fence 0 2, .wrNext 0 1 2, .wrTail 0 2, .retPush 0,
  .callPush 0 22, .wrData 0 3 22, .rdTail 0 2, .wrNext 0 3 0, .fence 0 2, .wrNext 0 2 3, .wrTail 0 3, .retPush 0,
  -- thread 1 starts a trypop and reads (counter 0, node n1)
  .callPop 1, .rdCounter 1 0, .fence 1 3, .rdNode 1 1,
  -- thread 0 pops 11 (gets the old stub n1) ...
  .callPop 0, .rdCounter 0 0, .fence 0 3, .rdNode 0 1, .rdNext 0 1 2, .rdData 0 2 11, .cas2 0 0 1 1 2 true,
  .wrData 0 1 11, .rdData 0 1 11, .retPop 0 11,
  -- ... and starts pushing n1 again: new_node->next = NULL
  .callPush 0 33, .wrData 0 1 33, .rdTail 0 3, .wrNext 0 1 0,
  -- thread 1 reads n1->next = NULL and answers EMPTY; 22 has been queued all the time
  .rdNext 1 1 0, .retPop 1 0]

/-- number of queued values after each prefix of a trace (`none` = prefix not accepted) -/
def queuedAfter (es : List Ev) : List (Option Nat) :=
  (List.range (es.length + 1)).map (fun k =>
    ((sys 0 1 (fun _ => 0)).run (es.take k)).map (fun s => s.chain.tail.length))

/-- The model (hence, by the replay above, the code) accepts a trace in which thread 1's
    trypop — events 17 … 36 — returns EMPTY although at every instant of that call at least
    one value was queued. -/
theorem empty_can_be_spurious :
    ((sys 0 1 (fun _ => 0)).run spuriousEmptyTrace).isSome = true ∧
    spuriousEmptyTrace[16]? = some (.callPop 1) ∧ spuriousEmptyTrace[35]? = some (.retPop 1 0) ∧
    ((queuedAfter spuriousEmptyTrace).drop 16).all (fun q => decide (q.getD 0 ≥ 1)) = true := by
  decide

/-! ### non-vacuity: node reuse under a stale snapshot — the ABA case

  Thread 1 reads (counter 0, node n1), n1->next = n2, n2->data = 11 and stalls.  Thread 0 pops
  (unlinks n1), pushes n1 again and pops twice more: the head pointer is n1 AGAIN (counter 3).
  Thread 1's CAS2 FAILS although the pointer matches (had it succeeded, head would have become
  n2, which thread 0 owns) and trypop returns RETRY. -/

def abaTrace : List Ev := [
  .callPush 0 11, .wrData 0 2 11, .rdTail 0 1, .wrNext 0 2 0, .fence 0 2, .wrNext 0 1 2, .wrTail 0 2, .retPush 0,
  .callPop 1, .rdCounter 1 0, .fence 1 3, .rdNode 1 1, .rdNext 1 1 2, .rdData 1 2 11,
  .callPop 0, .rdCounter 0 0, .fence 0 3, .rdNode 0 1, .rdNext 0 1 2, .rdData 0 2 11, .cas2 0 0 1 1 2 true,
  .wrData 0 1 11, .rdData 0 1 11, .retPop 0 11,
  .callPush 0 22, .wrData 0 1 22, .rdTail 0 2, .wrNext 0 1 0, .fence 0 2, .wrNext 0 2 1, .wrTail 0 1, .retPush 0,
  .callPop 0, .rdCounter 0 1, .fence 0 3, .rdNode 0 2, .rdNext 0 2 1, .rdData 0 1 22, .cas2 0 1 2 2 1 true,
  .wrData 0 2 22, .rdData 0 2 22, .retPop 0 22,
  .callPush 0 33, .wrData 0 2 33, .rdTail 0 1, .wrNext 0 2 0, .fence 0 2, .wrNext 0 1 2, .wrTail 0 2, .retPush 0,
  .cas2 1 0 1 1 2 false, .retRetry 1]

example : ((sys 0 1 (fun _ => 0)).run abaTrace).map
      (fun s => (s.counter, s.head, s.chain, enqs s.lin, deqs s.lin))
    = some (2, 1, [1, 2], [11, 22, 33], [11, 22]) := by decide

/-- right before thread 1's failing CAS2: pointer equal (n1), counter 2 ≠ 0 -/
example : ((sys 0 1 (fun _ => 0)).run (abaTrace.take 50)).map
      (fun s => (s.counter, s.head, s.pc 1, (step s (.cas2 1 0 1 1 2 false)).isSome,
                 (step s (.cas2 1 0 1 1 2 true)).isSome))
    = some (2, 1, .popGotData 0 1 2 11, true, false) := by decide

end DistFifo

/-! ################################################################################
    ## Part 3 — mpmc_stack.h
    ################################################################################ -/
namespace Stack
open LibfiberVerif LibfiberVerif.Stack LibfiberVerif.NodeList

/-- the abstract stack IS what `next` spells from `head`, without duplicates, and consists
    exactly of the un-owned nodes -/
theorem stack_is_reachable (own0 : Nat → Nat) (es : List Ev) (s : St)
    (h : (sys own0).run es = some s) :
    Chain s.next s.head s.stk ∧ (∀ l, Chain s.next s.head l → l = s.stk) ∧ s.stk.Nodup ∧
      ∀ n, n ∈ s.stk ↔ s.owner n = none :=
  have hI := inv_of_run h
  ⟨hI.chain, fun _ hl => chain_unique hl hI.chain, hI.nodup, hI.own⟩

/-- the classic single-word CAS push is ABA-safe HERE: whatever happened to the node `h` the
    pusher loaded (flushed, walked, pushed again), a successful CAS means `h` is the top right
    now and the pusher's node — whose `next` is `h` — is consed onto the current stack -/
theorem push_is_aba_safe (own0 : Nat → Nat) (es : List Ev) (s s' : St) (t n h found exp des : Nat)
    (hrun : (sys own0).run es = some s) (hpc : s.pc t = .pushWroteNext n h)
    (hcas : step s (.cas t found exp des true) = some s') :
    s.head = h ∧ s.next n = h ∧ s'.stk = n :: s.stk ∧ s'.head = n ∧ s.owner n = some t ∧
      s'.owner n = none ∧ s'.lin = s.lin ++ [.push n (s.data n)] :=
  push_cas_success (inv_of_run hrun) hpc hcas

/-- `Stack.flush_all_once`, step form: the exchange returns the pointer that heads exactly the
    abstract stack, empties the container, makes the flusher the sole owner of every taken
    node, and fixes the list to hand out: the content (newest first), reversed for fifo_flush. -/
theorem flush_takes_everything (own0 : Nat → Nat) (es : List Ev) (s s' : St) (t old : Nat) (fifo : Bool)
    (hrun : (sys own0).run es = some s) (hpc : s.pc t = .flushCalled fifo)
    (hx : step s (.xchg t old) = some s') :
    Chain s.next old s.stk ∧ s'.stk = [] ∧ s'.head = 0 ∧
      s'.res t = (if fifo then s.stk.reverse else s.stk) ∧
      (∀ n ∈ s.stk, s.owner n = none ∧ s'.owner n = some t) ∧
      s'.lin = s.lin ++ [.flush (s.stk.map (fun n => (n, s.data n)))] :=
  flush_takes_all (inv_of_run hrun) hpc hx

/-- … and what the flusher then walks (after `mpmc_stack_reverse` for a fifo flush) is exactly
    that list: the pointer it holds heads the not-yet-visited suffix; for `k = 0` this says the
    in-place reversal produced precisely the reversed content.  All nodes are its own. -/
theorem flush_hands_out_result (own0 : Nat → Nat) (es : List Ev) (s : St) (t p k : Nat) (rest : List Nat)
    (hrun : (sys own0).run es = some s) (hpc : s.pc t = .walk p k rest) :
    Chain s.next p rest ∧ rest = (s.res t).drop k ∧ ∀ n ∈ rest, s.owner n = some t :=
  walk_result (inv_of_run hrun) hpc

/-- history form: the linearisation (push at a successful CAS, flush at the exchange) is a
    legal sequential push / take-everything history ending in the current content -/
theorem lin_legal (own0 : Nat → Nat) (es : List Ev) (s : St) (h : (sys own0).run es = some s) :
    stackReplay s.lin = some (s.stk.map (fun n => (n, s.data n))) :=
  (inv_of_run h).lin

/-- `Stack.flush_all_once`, history form: a flush returns exactly the (node, value) pairs
    pushed since the previous flush (or since the start), each once, newest first (so
    `fifo_flush`, which reverses, hands them out in push order). -/
theorem flush_all_once (own0 : Nat → Nat) (es : List Ev) (s : St) (h : (sys own0).run es = some s)
    (pre mid post : List StackOp) (l : List (Nat × Nat))
    (hlin : s.lin = pre ++ mid ++ [.flush l] ++ post)
    (hpre : pre = [] ∨ ∃ pre' l0, pre = pre' ++ [.flush l0])
    (hmid : ∀ o ∈ mid, ∀ l', o ≠ .flush l') :
    l = (pushesOf mid).reverse := by
  have hI := inv_of_run h
  have hops := lin_ops h
  have hleg := hI.lin
  rw [hlin] at hleg hops
  -- the prefix up to and including this flush is legal by itself
  have hleg' : ∃ st, stackReplay (pre ++ mid ++ [.flush l]) = some st := by
    simp only [stackReplay] at hleg ⊢
    rw [stackReplayFrom_append] at hleg
    cases h1 : stackReplayFrom [] (pre ++ mid ++ [StackOp.flush l]) with
    | none => rw [h1] at hleg; simp at hleg
    | some st => exact ⟨st, rfl⟩
  obtain ⟨st, hst⟩ := hleg'
  have hmid' : ∀ o ∈ mid, isPushOp o = true := by
    intro o ho
    rcases hops o (by simp [ho]) with hp | ⟨l', hl'⟩
    · exact hp
    · exact absurd hl' (hmid o ho l')
  have hpre' : stackReplay pre = some [] := by
    rcases hpre with rfl | ⟨pre', l0, rfl⟩
    · rfl
    · simp only [stackReplay] at hst ⊢
      rw [List.append_assoc, stackReplayFrom_append] at hst
      cases h1 : stackReplayFrom [] (pre' ++ [StackOp.flush l0]) with
      | none => simp [h1] at hst
      | some st1 => rw [replay_flush_empty (st := st1) h1]
  exact (flush_since hst hpre' hmid').1

/-- exactly-once bookkeeping: every node has been handed out by flushes exactly as often as it
    was pushed, not counting the copy that is in the container right now (at most one) -/
theorem exactly_once (own0 : Nat → Nat) (es : List Ev) (s : St) (h : (sys own0).run es = some s)
    (n : Nat) : pushCount n s.lin = takeCount n s.lin + (if n ∈ s.stk then 1 else 0) :=
  count_balance (inv_of_run h) n

/-! ### non-vacuity: a node is flushed, walked and pushed again while a pusher holds a stale head

  Thread 1 loads head = n1 and writes n2->next = n1, then stalls.  Thread 0 flushes (takes n1),
  walks it and pushes n1 AGAIN.  Thread 1's CAS succeeds — the pointer is n1 again — and that
  is correct: n1 is the top right now.  A fifo flush then hands out 12 (n1) before 21 (n2). -/

def reuseTrace : List Ev := [
  .callPush 0 11, .wrData 0 1 11, .ldHead 0 0, .wrNext 0 1 0, .cas 0 0 0 1 true, .retPush 0,
  .callPush 1 21, .wrData 1 2 21, .ldHead 1 1, .wrNext 1 2 1,
  .callFlush 0 false, .xchg 0 1, .rdData 0 1 11, .item 0 11, .rdNext 0 1 0, .retFlush 0 1,
  .callPush 0 12, .wrData 0 1 12, .ldHead 0 0, .wrNext 0 1 0, .cas 0 0 0 1 true, .retPush 0,
  .cas 1 1 1 2 true, .retPush 1,
  .callFlush 0 true, .xchg 0 2, .rdNext 0 2 1, .wrNext 0 2 0, .rdNext 0 1 0, .wrNext 0 1 2,
  .rdData 0 1 12, .item 0 12, .rdNext 0 1 2, .rdData 0 2 21, .item 0 21, .rdNext 0 2 0, .retFlush 0 2]

example : ((sys (fun n => if n = 2 then 1 else 0)).run reuseTrace).map
      (fun s => (s.head, s.stk, s.res 0, s.owner 1, s.owner 2))
    = some (0, [], [1, 2], some 0, some 0) := by decide

example : ((sys (fun n => if n = 2 then 1 else 0)).run reuseTrace).map (fun s => s.lin)
    = some [.push 1 11, .flush [(1, 11)], .push 1 12, .push 2 21, .flush [(2, 21), (1, 12)]] := by
  decide


/-! ### mpmc_stack_push_timeout (bounded number of CAS attempts)

  The model accepts histories that mix `mpmc_stack_push` and `mpmc_stack_push_timeout` in any
  way; every theorem above (`stack_is_reachable`, `lin_legal`, `flush_all_once`,
  `exactly_once`, …) quantifies over all of them.  What is specific to the bounded push:

  (a) an operation that reports MPMC_RETRY left the container alone and still owns its node;
  (b) an operation that reports MPMC_SUCCESS made exactly the step `mpmc_stack_push` makes;
  (c) an operation called with `tries = b ≥ 1` performs at most `b` CAS attempts (exactly `b`,
      all failed, if it gives up).
  Client obligation in the model: `tries ≥ 1` (`tries` is a size_t that is decremented before
  it is tested, so `tries = 0` wraps around to SIZE_MAX tries). -/

/-- (a), step form: only a successful CAS and the exchange change `head`, the abstract stack,
    the ownership or the linearisation; every other step of every thread — in particular every
    step of a push_timeout that ends up giving up — leaves all four alone -/
theorem only_publishing_steps_change_container (own0 : Nat → Nat) (es : List Ev) (s s' : St) (e : Ev)
    (_hrun : (sys own0).run es = some s) (hstep : step s e = some s') (hq : publishes e = false) :
    s'.head = s.head ∧ s'.stk = s.stk ∧ s'.owner = s.owner ∧ s'.lin = s.lin :=
  step_frame hstep hq

/-- (a), the failed CAS itself: it found a head different from the expected one and changes no
    cell and no container ghost; the thread retries with the head it found while tries remain
    and gives up after the last one -/
theorem pushto_failed_cas_changes_nothing (own0 : Nat → Nat) (es : List Ev) (s s' : St)
    (t n h b found exp des : Nat)
    (_hrun : (sys own0).run es = some s) (hpc : s.pc t = .toWroteNext n h b)
    (hcas : step s (.cas t found exp des false) = some s') :
    found = s.head ∧ found ≠ h ∧ s'.head = s.head ∧ s'.next = s.next ∧ s'.data = s.data ∧
      s'.owner = s.owner ∧ s'.stk = s.stk ∧ s'.res = s.res ∧ s'.lin = s.lin ∧
      s'.pc t = (if b - 1 = 0 then .toGaveUp n else .toGotHead n found (b - 1)) :=
  pushto_cas_failure hpc hcas

/-- (a), at the return: `ret pushto 0` is only possible after giving up; the node is non-NULL,
    still owned by the caller and not in the container, and the return changes nothing -/
theorem pushto_failed_node_still_owned (own0 : Nat → Nat) (es : List Ev) (s s' : St) (t : Nat)
    (hrun : (sys own0).run es = some s) (hret : step s (.retPushTo t 0) = some s') :
    ∃ n, s.pc t = .toGaveUp n ∧ n ≠ 0 ∧ s'.owner n = some t ∧ n ∉ s'.stk ∧
      s'.head = s.head ∧ s'.next = s.next ∧ s'.data = s.data ∧ s'.owner = s.owner ∧
      s'.stk = s.stk ∧ s'.lin = s.lin ∧ s'.pc t = .idle := by
  have hI := inv_of_run hrun
  simp only [step] at hret
  split at hret <;> simp at hret
  rename_i n hpc
  subst hret
  obtain ⟨h0, ho, hn⟩ := gaveUp_unpublished hI hpc
  exact ⟨n, hpc, h0, ho, hn, rfl, rfl, rfl, rfl, rfl, rfl, by simp⟩

/-- (a) and (c), operation form: in a history in which thread `t`'s push_timeout returns 0,
    NONE of `t`'s events since the call changed the container (no successful CAS, no
    exchange), and `t` made exactly as many CAS attempts as the `tries` it was called with -/
theorem pushto_failed_never_published (own0 : Nat → Nat) (es : List Ev) (s' : St) (t : Nat)
    (hrun : (sys own0).run (es ++ [.retPushTo t 0]) = some s') :
    (∀ e ∈ curOp t es, tidOf e = t → publishes e = false) ∧
      ∃ v b, callOf t es = some (.callPushTo t v b) ∧ 1 ≤ b ∧ casCount t (curOp t es) = b := by
  simp only [Sys.run, Sys.runFrom_append] at hrun
  cases hs : (sys own0).runFrom (sys own0).init es with
  | none => simp [hs] at hrun
  | some s =>
    have hrun0 : (sys own0).run es = some s := hs
    simp only [hs, Option.bind_some, Sys.runFrom] at hrun
    have hret : step s (.retPushTo t 0) = some s' := by
      cases h1 : (sys own0).step s (.retPushTo t 0) with
      | none => simp [h1] at hrun
      | some s1 => simp [h1] at hrun; subst hrun; exact h1
    obtain ⟨n, hpc, _⟩ := pushto_failed_node_still_owned own0 es s s' t hrun0 hret
    have hO := opInv_of_run hrun0
    have hB := bud_of_run hrun0 t
    rw [hpc] at hB; simp only [BudOk] at hB
    refine ⟨hO.quiet t (by rw [hpc]; rfl), ?_⟩
    obtain ⟨v, hv⟩ := hO.call t (by rw [hpc]; rfl)
    have hc := hO.count t (by rw [hpc]; rfl)
    exact ⟨v, s.tries0 t, hv, callOf_budget_pos hrun0 hv, by rw [← hc, hB]⟩

/-- (b) a successful CAS of push_timeout is ABA-safe in exactly the sense of `push_is_aba_safe` -/
theorem pushto_is_aba_safe (own0 : Nat → Nat) (es : List Ev) (s s' : St) (t n h b found exp des : Nat)
    (hrun : (sys own0).run es = some s) (hpc : s.pc t = .toWroteNext n h b)
    (hcas : step s (.cas t found exp des true) = some s') :
    s.head = h ∧ s.next n = h ∧ s'.stk = n :: s.stk ∧ s'.head = n ∧ s.owner n = some t ∧
      s'.owner n = none ∧ s'.lin = s.lin ++ [.push n (s.data n)] ∧ s'.pc t = .toDone :=
  pushto_cas_success (inv_of_run hrun) hpc hcas

/-- (b) … and it IS the step of `mpmc_stack_push`: with the thread put at the corresponding pc
    of the unbounded push, the same CAS event is accepted and produces the same cells and the
    same container ghosts (so a successful push_timeout is an ordinary push for every clause) -/
theorem pushto_success_is_ordinary_push (own0 : Nat → Nat) (es : List Ev) (s s' : St)
    (t n h b found exp des : Nat)
    (_hrun : (sys own0).run es = some s) (hpc : s.pc t = .toWroteNext n h b)
    (hcas : step s (.cas t found exp des true) = some s') :
    ∃ s0', step { s with pc := upd s.pc t (.pushWroteNext n h) } (.cas t found exp des true) = some s0' ∧
      s'.head = s0'.head ∧ s'.next = s0'.next ∧ s'.data = s0'.data ∧ s'.owner = s0'.owner ∧
      s'.stk = s0'.stk ∧ s'.res = s0'.res ∧ s'.lin = s0'.lin :=
  pushto_success_is_push hpc hcas

/-- (b) `ret pushto 1` is only possible after the successful CAS -/
theorem pushto_success_only_after_cas (own0 : Nat → Nat) (es : List Ev) (s s' : St) (t : Nat)
    (_hrun : (sys own0).run es = some s) (hret : step s (.retPushTo t 1) = some s') :
    s.pc t = .toDone := by
  simp only [step] at hret
  split at hret <;> simp at hret
  assumption

/-- (c) budget: while thread `t` is inside a push_timeout called with `tries = b`, it has made
    at most `b` CAS attempts (the CAS events of `t` since its call note); once it gives up it
    has made exactly `b` -/
theorem pushto_attempts_le_budget (own0 : Nat → Nat) (es : List Ev) (s : St) (t : Nat)
    (hrun : (sys own0).run es = some s) (hin : inTo (s.pc t) = true) :
    ∃ v b, callOf t es = some (.callPushTo t v b) ∧ 1 ≤ b ∧ casCount t (curOp t es) ≤ b ∧
      (∀ n, s.pc t = .toGaveUp n → casCount t (curOp t es) = b) := by
  have hO := opInv_of_run hrun
  obtain ⟨v, hv⟩ := hO.call t hin
  have hc := hO.count t hin
  have hB := bud_of_run hrun t
  refine ⟨v, s.tries0 t, hv, callOf_budget_pos hrun hv, by rw [← hc]; exact hB.le, ?_⟩
  intro n hpc
  rw [hpc] at hB; simp only [BudOk] at hB
  rw [← hc, hB]

/-- (c) ghost form, every reachable state, every thread -/
theorem pushto_ghost_attempts_le_budget (own0 : Nat → Nat) (es : List Ev) (s : St) (t : Nat)
    (hrun : (sys own0).run es = some s) : s.att t ≤ s.tries0 t :=
  (bud_of_run hrun t).le

/-! ### non-vacuity: a push_timeout with budget 1 fails because another push intervenes between
    its load and its CAS; the SAME node is then pushed again (new value, budget 2) and flushed

  Thread 0: push_timeout(n1, 11, tries = 1) loads head = NULL, writes n1->next = NULL, stalls.
  Thread 1 pushes n2 (21).  Thread 0's CAS finds n2, not NULL: fails, budget used up, returns
  0 — the container is [n2], n1 is still thread 0's.  Thread 0 calls push_timeout(n1, 12, 2):
  succeeds on the first try.  Thread 1's fifo flush hands out 21 then 12; 11 never appears. -/

def timeoutTrace : List Ev := [
  .callPushTo 0 11 1, .wrData 0 1 11, .ldHead 0 0, .wrNext 0 1 0,
  .callPush 1 21, .wrData 1 2 21, .ldHead 1 0, .wrNext 1 2 0, .cas 1 0 0 2 true, .retPush 1,
  .cas 0 2 0 1 false, .retPushTo 0 0]

def timeoutTrace2 : List Ev := timeoutTrace ++ [
  .callPushTo 0 12 2, .wrData 0 1 12, .ldHead 0 2, .wrNext 0 1 2, .cas 0 2 2 1 true, .retPushTo 0 1,
  .callFlush 1 true, .xchg 1 1, .rdNext 1 1 2, .wrNext 1 1 0, .rdNext 1 2 0, .wrNext 1 2 1,
  .rdData 1 2 21, .item 1 21, .rdNext 1 2 1, .rdData 1 1 12, .item 1 12, .rdNext 1 1 0, .retFlush 1 2]

/-- after the failed push_timeout: the container holds only n2, n1 is still thread 0's, the
    linearisation has no trace of value 11, one attempt was made out of a budget of one -/
example : ((sys (fun n => if n = 2 then 1 else 0)).run timeoutTrace).map
      (fun s => (s.head, s.stk, s.owner 1, s.owner 2, s.att 0, s.tries0 0))
    = some (2, [2], some 0, none, 1, 1) := by decide
example : ((sys (fun n => if n = 2 then 1 else 0)).run timeoutTrace).map (fun s => (s.lin, s.pc 0))
    = some ([.push 2 21], .idle) := by decide

/-- the hypotheses of `pushto_failed_never_published` are satisfiable … -/
example : (curOp 0 (timeoutTrace.dropLast), callOf 0 (timeoutTrace.dropLast),
           casCount 0 (curOp 0 timeoutTrace.dropLast))
    = ([.wrData 0 1 11, .ldHead 0 0, .wrNext 0 1 0,
        .callPush 1 21, .wrData 1 2 21, .ldHead 1 0, .wrNext 1 2 0, .cas 1 0 0 2 true, .retPush 1,
        .cas 0 2 0 1 false], some (.callPushTo 0 11 1), 1) := by decide

/-- … and the node is re-pushed and flushed in push order -/
example : ((sys (fun n => if n = 2 then 1 else 0)).run timeoutTrace2).map
      (fun s => (s.head, s.stk, s.res 1, s.owner 1, s.owner 2))
    = some (0, [], [2, 1], some 1, some 1) := by decide
example : ((sys (fun n => if n = 2 then 1 else 0)).run timeoutTrace2).map (fun s => s.lin)
    = some [.push 2 21, .push 1 12, .flush [(1, 12), (2, 21)]] := by decide

/-- budget 2: the first CAS fails (another push intervened), the retry uses the refreshed head
    and succeeds; two attempts out of two -/
def retryTrace : List Ev := [
  .callPushTo 0 11 2, .wrData 0 1 11, .ldHead 0 0, .wrNext 0 1 0,
  .callPush 1 21, .wrData 1 2 21, .ldHead 1 0, .wrNext 1 2 0, .cas 1 0 0 2 true, .retPush 1,
  .cas 0 2 0 1 false, .wrNext 0 1 2, .cas 0 2 2 1 true, .retPushTo 0 1]

example : ((sys (fun n => if n = 2 then 1 else 0)).run retryTrace).map
      (fun s => (s.head, s.stk, s.next 1, s.owner 1, s.att 0, s.tries0 0))
    = some (1, [1, 2], 2, none, 2, 2) := by decide
example : ((sys (fun n => if n = 2 then 1 else 0)).run retryTrace).map (fun s => s.lin)
    = some [.push 2 21, .push 1 11] := by decide

/-- the model rejects a success report after giving up, a failure report after the successful
    CAS, a third attempt on a budget of … one, and a call with `tries = 0` -/
example : ((sys (fun n => if n = 2 then 1 else 0)).run (timeoutTrace.dropLast ++ [.retPushTo 0 1])) = none := by
  decide
example : ((sys (fun n => if n = 2 then 1 else 0)).run (timeoutTrace.dropLast ++ [.wrNext 0 1 2])) = none := by
  decide
example : ((sys (fun _ => 0)).run [.callPushTo 0 11 1, .wrData 0 1 11, .ldHead 0 0, .wrNext 0 1 0,
      .cas 0 0 0 1 true, .retPushTo 0 0]) = none := by decide
example : ((sys (fun _ => 0)).run [.callPushTo 0 11 0]) = none := by decide

/-- the API-level oracle of `stackMonitor`: a value whose push_timeout gave up must not be
    handed out -/
example : gaveUpBad [] [(true, [11])] [11]
    = some "invented: a flush handed out 11 although its push_timeout gave up (returned MPMC_RETRY)" := by
  decide
example : gaveUpBad [] [(true, [21, 12])] [11] = none := by decide

end Stack

/-! ################################################################################
    ## Part 4 — fiber_signal.h, fiber_multi_signal_t (multi-waiter signal)
    (section owned by the C11/multi-signal work; model Model/MultiSignal.lean, invariant
    Proof/MultiSignal*.lean; harness harness/multisignal.c on the real fiber runtime)

    "A multi-signal raise either releases exactly one waiter or leaves the signal raised
     for the next wait (pending raises coalesce); it never releases two waiters and is
     never dropped while a fiber is waiting."

    Actors are fibers (any number), on any number of kernel threads.  One model step per
    shared access: the two snapshot loads (counter FIRST, then head — torn snapshots are in
    the model), the plain read of `head->next` of a possibly stale head, the CAS2, the
    sleeper's hand-shake (`scratch`, the deferred READY_TO_WAKE write by its successor) and
    the raiser's spin on it.  `stack` is the ghost list of listed fibers, `waker f = some g`
    means raiser g popped f and has not woken it yet.
    ################################################################################ -/
namespace MultiSignal
open LibfiberVerif LibfiberVerif.MultiSignal

/-- the model as the driver instantiates it: fiber F<k> owns list node N<k> -/
abbrev msys := sys (fun k => k)

/-- `counter_counts_updates`: the counter word equals the number of successful CAS2s (every
    branch of wait / raise / raise_strict increments it), so a CAS2 that succeeds from a
    snapshot proves that nothing happened since the counter was read. -/
theorem counter_counts_updates (es : List Ev) (s : St) (h : msys.run es = some s) :
    s.counter = (es.filter casOkEv).length := by
  rw [(inv_of_run h).cnt]; exact updates_of_run h

/-- RAISED ⇒ no waiter is listed (and NULL ⇒ none either; a node ⇒ it is the top of the list
    and the `next` pointers spell out the rest). -/
theorem raised_no_waiter (es : List Ev) (s : St) (h : msys.run es = some s) :
    (s.head = .raised → s.stack = []) ∧ (s.head = .nil → s.stack = []) ∧
    (∀ n, s.head = .node n → ∃ rest, s.stack = n :: rest ∧ s.next n = headOf rest) := by
  obtain ⟨a, b, c⟩ := stack_of_head (inv_of_run h)
  exact ⟨a, b, fun n hn => by obtain ⟨rest, h1, h2, _⟩ := c n hn; exact ⟨rest, h1, h2⟩⟩

/-- `raise_one_or_latch`: the successful CAS2 of a raise (plain or strict, from ANY snapshot,
    however stale the `next` it read) either
    * pops EXACTLY the top listed fiber n — the list loses n and nothing else, this raiser (and
      only it: `waker n = some f`) goes on to wake n — or
    * finds NO fiber listed and leaves RAISED (latching it, or coalescing with a pending
      raise when it already was RAISED), waking nobody.
    In particular a raise is never dropped while a fiber is listed: with `s.stack ≠ []` only
    the first alternative is possible. -/
theorem raise_one_or_latch (es : List Ev) (s s' : St) (f ec : Nat) (eh : H) (nc : Nat) (nh : H)
    (h : msys.run es = some s) (hr : (s.pc f).raiseCas)
    (hs : step s (.cas2 f ec eh nc nh true) = some s') :
    (∃ n rest, s.stack = n :: rest ∧ eh = .node n ∧ s'.stack = rest ∧ s'.head = headOf rest ∧
        s'.pc f = .rPopped n ∧ s'.waker n = some f ∧ s'.released = s.released + 1) ∨
    (s.stack = [] ∧ (eh = .nil ∨ eh = .raised) ∧ s'.stack = [] ∧ s'.head = .raised ∧
        s'.pc f = .rDone false ∧ s'.released = s.released ∧ s'.waker = s.waker ∧ s'.wakes = s.wakes) :=
  raise_cas_ok (inv_of_run h) f ec eh nc nh hr hs

/-- never dropped while a fiber is waiting: if some fiber is listed, a raise's successful CAS2
    releases one -/
theorem raise_never_dropped (es : List Ev) (s s' : St) (f ec : Nat) (eh : H) (nc : Nat) (nh : H)
    (h : msys.run es = some s) (hr : (s.pc f).raiseCas) (hne : s.stack ≠ [])
    (hs : step s (.cas2 f ec eh nc nh true) = some s') :
    ∃ n rest, s.stack = n :: rest ∧ s'.stack = rest ∧ s'.waker n = some f := by
  rcases raise_one_or_latch es s s' f ec eh nc nh h hr hs with ⟨n, rest, h1, _, h3, _, _, h6, _⟩ | ⟨h1, _⟩
  · exact ⟨n, rest, h1, h3, h6⟩
  · exact absurd h1 hne

/-- a wait's successful CAS2 either CONSUMES a latched RAISED — the signal is reset to NULL and
    the wait returns without sleeping (`parks` unchanged) — or lists the fiber on top -/
theorem wait_consumes_or_lists (es : List Ev) (s s' : St) (f ec : Nat) (eh : H) (nc : Nat) (nh : H)
    (h : msys.run es = some s) (hw : (s.pc f).waitCas)
    (hs : step s (.cas2 f ec eh nc nh true) = some s') :
    (eh = .raised ∧ s.head = .raised ∧ s.stack = [] ∧ s'.head = .nil ∧ s'.stack = [] ∧
        s'.pc f = .waitDone ∧ s'.parks = s.parks ∧ s'.consumed = s.consumed + 1) ∨
    (eh ≠ .raised ∧ s'.head = .node f ∧ s'.stack = f :: s.stack ∧ s'.pc f = .wListed ∧
        s'.parks f = s.parks f + 1) :=
  wait_cas_ok (inv_of_run h) f ec eh nc nh hw hs

/-- a fiber that sleeps on the signal and has not been woken is either still listed (and then
    no raiser holds it) or held by a raiser that popped it (and then it is not listed): its
    wake-up is never lost and never duplicated -/
theorem sleeper_listed_or_held (es : List Ev) (s : St) (f : Nat) (h : msys.run es = some s)
    (hsl : (s.pc f).sleepy) (hun : s.wakes f + 1 = s.parks f) :
    (f ∈ s.stack ∧ ∀ g, ¬ (s.pc g).targets f) ∨ (f ∉ s.stack ∧ ∃ g, (s.pc g).targets f) :=
  asleep_accounted (inv_of_run h) f hsl hun

/-- never two: every sleep is ended by at most one wake-up (`wakes ≤ parks ≤ wakes + 1`), at
    most one raiser is on its way to wake a given fiber, and the list has no duplicates -/
theorem single_wake (es : List Ev) (s : St) (f : Nat) (h : msys.run es = some s) :
    s.wakes f ≤ s.parks f ∧ s.parks f ≤ s.wakes f + 1 ∧
    (∀ g g', (s.pc g).targets f → (s.pc g').targets f → g = g') ∧ s.stack.Nodup := by
  obtain ⟨a, b, c⟩ := single_wake_of_inv (inv_of_run h) f
  exact ⟨a, b, c, (inv_of_run h).nodup⟩

/-- the wake-up itself (`g->state = READY`, then schedule) happens only after the sleeper's
    context switch completed (its successor wrote the READY_TO_WAKE marker), the sleeper was
    owed exactly this wake-up, and afterwards it is owed none -/
theorem wake_after_marker (es : List Ev) (s s' : St) (g f : Nat) (h : msys.run es = some s)
    (hs : step s (.wStateReady g f) = some s') :
    s.pc f = .parked ∧ s.scratch f = true ∧ s.wakes f + 1 = s.parks f ∧ f ∉ s.stack ∧
    s'.wakes f = s'.parks f :=
  wake_after_marker_of_inv (inv_of_run h) g f hs

/-! ### non-vacuity: a trace of the real implementation (harness/multisignal.c, script
    `t|t|p,R,p`, 3 kernel threads, VR_SCHED=rand VR_SWITCH=2 VR_SEED=159) projected to model
    events.  It contains, in this order: a latch (NULL→RAISED), a CAS2 of waiter 16 that FAILS
    on its stale snapshot (0, NULL), a coalescing raise (RAISED→RAISED), waiter 16 consuming
    the latch (RAISED→NULL), waiter 16 listing itself, and a raise releasing it. -/
def witness : List Ev :=
  [.callTake 16, .ldTokens 16 0, .callWait 16, .clrScratch 16, .rNode 16 16 16, .callPublish 18,
   .faddTokens 18 0, .callRaise 18 false, .wData 16 16 16, .ldC 16 0, .ldC 18 0, .ldH 18 .nil,
   .ldH 16 .nil, .wNext 16 16 .nil, .cas2 18 0 .nil 1 .raised true, .retRaise 18 false false,
   .callRaise 18 false, .cas2 16 0 .nil 1 (.node 16) false, .ldC 18 1, .ldH 18 .raised,
   .cas2 18 1 .raised 2 .raised true, .retRaise 18 false false, .callPublish 18, .callTake 17,
   .ldTokens 17 1, .casTokens 17 1 1 0 true, .took 17, .ldTokens 17 0, .retTake 17, .ldC 16 2,
   .ldH 16 .raised, .cas2 16 2 .raised 3 .nil true, .retWait 16, .ldTokens 16 0, .callWait 16,
   .clrScratch 16, .rNode 16 16 16, .wData 16 16 16, .ldC 16 3, .ldH 16 .nil, .wNext 16 16 .nil,
   .faddTokens 18 0, .callRaise 18 false, .cas2 16 3 .nil 4 (.node 16) true, .ldC 18 4,
   .ldH 18 (.node 16), .wStateWaiting 16, .rNext 18 16 .nil, .setWait 1 16,
   .cas2 18 4 (.node 16) 5 .nil true, .rData 18 16 16, .wNode 18 16 16, .rScratch 18 16 true,
   .wStateReady 18 16, .retRaise 18 false true, .clrScratch 16, .retWait 16, .ldTokens 16 1,
   .casTokens 16 1 1 0 true, .took 16, .ldTokens 16 0, .retTake 16]

example : (msys.run witness).map (fun s => (s.counter, s.head, s.stack, s.tokens))
    = some (5, .nil, [], 0) := by decide

example : (msys.run witness).map (fun s => (s.latched, s.coalesced, s.consumed, s.released))
    = some (1, 1, 1, 1) := by decide

example : (msys.run witness).map (fun s => (s.parks 16, s.wakes 16, s.parks 17, s.wakes 17))
    = some (1, 1, 0, 0) := by decide

/-- the hypotheses of `raise_one_or_latch` are met inside that trace (first alternative): after
    49 events raiser 18 holds the snapshot (4, N16) and `next` = NULL, fiber 16 is listed … -/
example : (msys.run (witness.take 49)).map (fun s => (s.pc 18, s.stack, s.counter))
    = some (.rNext 4 16 .nil, [16], 4) := by decide

/-- … and its CAS2 succeeds, unlisting 16 and making 18 its waker -/
example : ((msys.run (witness.take 49)).bind (fun s => step s (.cas2 18 4 (.node 16) 5 .nil true))).map
      (fun s => (s.stack, s.waker 16, s.pc 18, s.released))
    = some ([], some 18, .rPopped 16, 1) := by decide

/-- the stale CAS2 of waiter 16 (snapshot (0, NULL) taken before the latch) is in the trace and
    fails: event 18 -/
example : witness[17]? = some (.cas2 16 0 .nil 1 (.node 16) false) := by decide

end MultiSignal

end LibfiberVerif.Props.C20
