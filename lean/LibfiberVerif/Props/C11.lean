/-
  Props/C11.lean — property C11:

  "Every message sent on a bounded, unbounded, single-producer or multi channel is received
   exactly once, messages of one sender arrive in the order sent, and a bounded channel never
   holds more than its capacity nor overwrites an unreceived message.  A receiver blocked on
   an empty channel (or a sender on a full multi channel) is always resumed by a later send
   (receive): a raise racing with a wait is either seen by it or remembered for the next wait,
   never lost."

  Models (actors are FIBERS, any number of them, on any number of kernel threads; one model
  step per shared access in program order; tied to /repo by trace validation, tools/check.py C11):
    Model/Signal.lean     fiber_signal_t + the parking hand-shake (set_wait_location)
    Model/Chan.lean       bounded / unbounded / sp channel (embeds the signal protocol unchanged)
    Model/MultiChan.lean  fiber_multi_channel_t under an abstract lock (C03)

  STATUS on the pinned tree
    Signal      all clauses proved.
    MultiChan   exactly-once / FIFO / capacity proved for both list disciplines.  `no_lost_wake`
                is PROVED IN FULL for the code in /repo (two waiter lists, since fix commit
                b18179b); for the earlier one-list code it is false — `no_lost_wake_false`
                keeps the machine-checked witness (a trace of that implementation) and
                `no_lost_wake_partial` what did hold (homogeneous waiter list).
    Chan        all clauses proved for the three kinds, for channels created with a ready_signal
                AND with a NULL signal (spinning), over histories that mix blocking receive and
                `*_try_receive`: exactly-once and per-sender FIFO, capacity / no-overwrite for
                the bounded ring, single wake-up, `receiver_resumed_*` (publish-then-raise vs
                clear-then-recheck); spinning channels never sleep and their receive loop takes
                an available message in its next pass (`spin_never_sleeps`, `receive_takes_*`);
                a try_receive reports empty only if the channel was empty at an instant of the
                call or the send of the message next in line was in flight (`try_empty_*`).
-/
import LibfiberVerif.Proof.Signal
import LibfiberVerif.Proof.MultiChanTwoStep
import LibfiberVerif.Proof.ChanWakeStep
import LibfiberVerif.Proof.ChanBWakeStep
import LibfiberVerif.Proof.ChanTry

namespace LibfiberVerif.Props.C11

/-! ################################################################################
    ## fiber_signal_t  (include/fiber_signal.h, harness/signal.c)
    ################################################################################ -/
namespace Signal
open LibfiberVerif LibfiberVerif.Signal

/-- `raise_seen_or_remembered` — the invariant behind "never lost".  `tokens > 0` = a
    completed publication that has not been taken; w = the signal's one waiter.  Then
    * if w has found nothing and is on its way to sleep (`committed`: it loaded 0 tokens,
      or is before the CAS inside fiber_signal_wait), the word is RAISED — so its CAS will
      fail and it looks again — or a publisher has not yet done its exchange (`inFlight`);
    * if w is asleep (in the word / parked, not yet woken), a publisher is still in flight
      or a raiser has exchanged w out of the word and is on its way to wake it.
    In every other state w will load `tokens` again before it can sleep ("receiver not
    parked"). -/
theorem raise_seen_or_remembered (es : List Ev) (s : St) (w : Nat) (h : sys.run es = some s)
    (hw : s.p.waiterId = some w) (ht : 0 < s.tokens) :
    (committed s w → s.p.word = .raised ∨ ∃ g, inFlight s g) ∧
    (asleep s w → ∃ g, inFlight s g ∨ (s.p.pc g).targets w) :=
  covered_of_inv (tinv_of_run h) w hw ht

/-- `never_lost` — with every other fiber outside any operation, a token present and the
    waiter asleep for ever is unreachable; and if the waiter has just decided to sleep, the
    raise is remembered (the word is RAISED). -/
theorem never_lost (es : List Ev) (s : St) (w : Nat) (h : sys.run es = some s)
    (hw : s.p.waiterId = some w) (ht : 0 < s.tokens) (hq : ∀ g, g ≠ w → s.tk g = .idle) :
    ¬ asleep s w ∧ (committed s w → s.p.word = .raised) :=
  not_lost_of_inv (tinv_of_run h) w hw ht hq

/-- `single_wake` — a sleep is ended by at most one wake-up (`wakes ≤ parks ≤ wakes + 1`) and
    at most one raiser is on its way to wake a given fiber. -/
theorem single_wake (es : List Ev) (s : St) (f : Nat) (h : sys.run es = some s) :
    s.p.wakes f ≤ s.p.parks f ∧ s.p.parks f ≤ s.p.wakes f + 1 ∧
    (∀ g g', (s.p.pc g).targets f → (s.p.pc g').targets f → g = g') :=
  single_wake_of_inv (tinv_of_run h).pinv f

/-- … and the wake-up (`old->state = READY`, then schedule) is issued only after the sleeper's
    hand-shake marker: the sleeper is `parked` (its successor wrote READY_TO_WAKE after the
    context switch), it was owed exactly this wake-up, and afterwards it is owed none. -/
theorem wake_after_marker (es : List Ev) (s s' : St) (g f : Nat) (h : sys.run es = some s)
    (hs : step s (.p (.wStateReady g f)) = some s') :
    s.p.pc f = .parked ∧ s.p.scratch f = true ∧ s.p.wakes f + 1 = s.p.parks f ∧
    s'.p.wakes f = s'.p.parks f := by
  have hp := (tinv_of_run h).pinv
  simp only [step, Option.map_eq_some_iff] at hs
  obtain ⟨p', hp', rfl⟩ := hs
  exact wake_after_marker_of_inv hp g f hp'

/-- the word holds a fiber only while that fiber is going to sleep / asleep and un-woken, and
    it is the signal's one waiter (client contract) -/
theorem word_is_sleeper (es : List Ev) (s : St) (f : Nat) (h : sys.run es = some s)
    (hw : s.p.word = .fiber f) : (s.p.pc f).sleepy ∧ s.p.wakes f + 1 = s.p.parks f ∧ s.p.waiterId = some f :=
  let hp := (tinv_of_run h).pinv
  ⟨(hp.word_sleepy f hw).1, (hp.word_sleepy f hw).2.1, hp.word_id f hw⟩

/-! non-vacuity: a trace of the real implementation (harness/signal.c, script `t,t|p,y,p`,
    2 kernel threads, VR_SEED=5) — the waiter finds a latched RAISED (CAS fails, consumes),
    later really sleeps, a raiser exchanges it out, spins for the marker and wakes it. -/
def witness : List Ev :=
  [.callPublish 17, .faddTokens 17 0, .callTake 16, .ldTokens 16 1, .fsubTokens 16 1,
   .p (.callRaise 17), .p (.xchg 17 .none), .p (.retRaise 17 false), .retTake 16, .callTake 16,
   .ldTokens 16 0, .p (.callWait 16), .p (.clrScratch 16), .p (.casWaiter 16 .raised false),
   .p (.stNone 16), .p (.retWait 16), .ldTokens 16 0, .p (.callWait 16), .p (.clrScratch 16),
   .p (.casWaiter 16 .none true), .callPublish 17, .p (.wStateWaiting 16), .p (.setWait 1 16),
   .faddTokens 17 0, .p (.callRaise 17), .p (.xchg 17 (.fiber 16)), .p (.stNone 17),
   .p (.rScratch 17 16 true), .p (.wStateReady 17 16), .p (.retRaise 17 true),
   .p (.clrScratch 16), .p (.stNone 16), .p (.retWait 16), .ldTokens 16 1, .fsubTokens 16 1,
   .retTake 16]

example : (sys.run witness).map (fun s => (s.tokens, s.published, s.taken, s.p.parks 16, s.p.wakes 16))
    = some (0, 2, 2, 1, 1) := by decide

/-- inside that trace the hypotheses of `raise_seen_or_remembered` hold with the waiter asleep:
    after 24 events a token is there, 16 is parked and publisher 17 is in flight -/
example : (sys.run (witness.take 24)).map
      (fun s => (s.tokens, s.p.waiterId, s.p.pc 16, s.p.word, s.fl))
    = some (1, some 16, .parked, .fiber 16, [17]) := by decide

end Signal

/-! ################################################################################
    ## fiber_multi_channel_t  (include/fiber_multi_channel.h, harness/multichan.c)

    `MultiChan.sys two cap`: `two = false` is the ONE-list discipline (blocked senders and
    receivers on one list, wake its head — the code before /repo commit b18179b), `two = true`
    the TWO-list discipline of /repo HEAD (a send wakes a blocked receiver, a receive a blocked
    sender).  The harness reports the discipline of the build under test (struct layout) and
    the trace is validated against that variant.
    ################################################################################ -/
namespace MultiChan
open LibfiberVerif LibfiberVerif.MultiChan

/-- `exactly_once` (and total FIFO), both disciplines: what has been received is exactly the
    first `low` messages in the order `high` was advanced — nothing lost, duplicated, invented
    or re-ordered — and everything received was sent (non-NULL). -/
theorem exactly_once (two : Bool) (cap : Nat) (es : List Ev) (s : St) (h : (sys two cap).run es = some s) :
    s.recvd = (s.sent.map Prod.snd).take s.low ∧ s.recvd <+: s.sent.map Prod.snd ∧
    s.sent.length = s.high ∧ s.low ≤ s.high ∧ (∀ p, p ∈ s.sent → p.2 ≠ 0) := by
  have hr := rinv_of_run h
  have e : s.recvd = (s.sent.map Prod.snd).take s.low := by rw [hr.recvd_eq, List.map_take]
  exact ⟨e, by rw [e]; exact List.take_prefix _ _, hr.len, hr.lowhigh.1, hr.nonzero⟩

/-- `fifo` — messages of one sender arrive in the order sent: the messages of fiber f appear
    in the (totally ordered, see `exactly_once`) delivery sequence in the order of f's calls
    to send; only f's call in progress may be missing. -/
theorem fifo (two : Bool) (cap : Nat) (es : List Ev) (s : St) (f : Nat) (h : (sys two cap).run es = some s) :
    sentBy s f <+: s.calls f ∧ sentBy s f ++ (s.pc f).pending = s.calls f := by
  have := (rinv_of_run h).calls_eq f
  exact ⟨⟨_, this⟩, this⟩

/-- `bounded` — never more than `size` messages are buffered … -/
theorem bounded (two : Bool) (cap : Nat) (es : List Ev) (s : St) (h : (sys two cap).run es = some s) :
    s.low ≤ s.high ∧ s.high - s.low ≤ s.cap :=
  (rinv_of_run h).lowhigh

/-- … and no unreceived message is overwritten: when a sender writes its message, the slot
    holds NULL and the ring is not full; the other buffered messages stay where they are. -/
theorem bounded_no_overwrite (two : Bool) (cap : Nat) (es : List Ev) (s s' : St) (f i x : Nat)
    (h : (sys two cap).run es = some s) (v hh l : Nat) (hpc : s.pc f = .gotLow (.send v) hh l)
    (hs : step s (.wBuf f i x) = some s') :
    s.buf i = 0 ∧ s.high - s.low < s.cap ∧
    (∀ j, s.low ≤ j → j < s.high → s'.buf (j % s.cap) = s.buf (j % s.cap)) := by
  have hi := linv_of_run h
  have hr := rinv_of_run h
  simp only [step, hpc] at hs
  split at hs <;> simp at hs
  rename_i hc
  obtain ⟨hlt, hidx, hx⟩ := hc
  subst hidx hx hs
  obtain ⟨h1, h2⟩ := send_slot_free hi hr f x hh l hpc hlt
  obtain ⟨e1, e2⟩ := hi.gotLow_eq f (.send x) hh l hpc
  subst e1 e2
  refine ⟨h1, h2, fun j hj1 hj2 => ?_⟩
  have : j % s.cap ≠ s.high % s.cap := mod_ne_of_lt hj2 (by omega)
  simp [upd, this]

/-- the buffered messages are where they belong -/
theorem buffered (two : Bool) (cap : Nat) (es : List Ev) (s : St) (i : Nat)
    (h : (sys two cap).run es = some s)
    (h1 : s.low ≤ i) (h2 : i < s.high) (h3 : ∀ f m, s.pc f ≠ .rCleared i m) :
    s.buf (i % s.cap) = val s i :=
  (rinv_of_run h).slots i h1 h2 h3

/-- mutual exclusion of the channel's critical section (from the abstract lock) -/
theorem critical_section_exclusive (two : Bool) (cap : Nat) (es : List Ev) (s : St) (f g : Nat)
    (h : (sys two cap).run es = some s) (hf : (s.pc f).inCS = true) (hg : (s.pc g).inCS = true) : f = g :=
  cs_unique (linv_of_run h) hf hg

/-- `no_lost_wake`, the full statement: in a state where nobody is active (every fiber is
    outside any operation or asleep and un-woken, the lock is free) no sleeper could proceed,
    i.e. every sleeping sender faces a full ring and every sleeping receiver an empty one. -/
def NoLostWake (two : Bool) (cap : Nat) : Prop :=
  ∀ es s, (sys two cap).run es = some s → quiescent s = true → ∀ f, stranded s f = false

/-- **`no_lost_wake` holds for the code in /repo** (two-list discipline, every capacity, any
    number of senders, receivers and kernel threads): a sender blocked on a full channel /
    a receiver blocked on an empty one is always resumed by a later receive / send.  Proof:
    while the receivers' list is non-empty, #buffered messages ≤ #receivers that are awake and
    have not taken their message (+1 while a sender still owes its wake-up), because every
    message put then wakes exactly one receiver; symmetrically for free slots and senders; in
    a quiescent state both bounds are 0 (Proof/MultiChanTwo*.lean). -/
theorem no_lost_wake (cap : Nat) : NoLostWake true cap :=
  fun _ s h hq f => not_stranded_two (inv2_of_run h) hq f

/-- Witness against `NoLostWake false 2` (the OLD code): the trace of the real implementation
    before commit b18179b for `multichan 1 1 's1,s2|s3|s4,s5,s6|r,r|r|r,r,r'` (1 kernel thread,
    capacity 2; it hung), projected to model events (189 of them). -/
def lostWakeTrace : List Ev :=
    [.callRecv 21, .fsub 21 1, .rHigh 21 0, .rLow 21 0, .rWaiters 21 0, .wScratch 21 21 0,
   .wWaiters 21 21, .wStateWaiting 21, .fadd 20 0, .callRecv 20, .fsub 20 1, .rHigh 20 0,
   .rLow 20 0, .rWaiters 20 21, .wScratch 20 20 21, .wWaiters 20 20, .wStateWaiting 20,
   .fadd 19 0, .callRecv 19, .fsub 19 1, .rHigh 19 0, .rLow 19 0, .rWaiters 19 20,
   .wScratch 19 19 20, .wWaiters 19 19, .wStateWaiting 19, .fadd 18 0, .callSend 18 4,
   .fsub 18 1, .rHigh 18 0, .rLow 18 0, .wBuf 18 0 4, .wHigh 18 1, .rWaiters 18 19,
   .rScratch 18 19 20, .wWaiters 18 20, .wScratch 18 19 0, .wStateReady 18 19, .fadd 18 0,
   .retSend 18, .callSend 18 5, .fsub 18 1, .rHigh 18 1, .rLow 18 0, .wBuf 18 1 5, .wHigh 18 2,
   .rWaiters 18 20, .rScratch 18 20 21, .wWaiters 18 21, .wScratch 18 20 0, .wStateReady 18 20,
   .fadd 18 0, .retSend 18, .callSend 18 6, .fsub 18 1, .rHigh 18 2, .rLow 18 0, .rWaiters 18 21,
   .wScratch 18 18 21, .wWaiters 18 18, .wStateWaiting 18, .fadd 17 0, .callSend 17 3,
   .fsub 17 1, .rHigh 17 2, .rLow 17 0, .rWaiters 17 18, .wScratch 17 17 18, .wWaiters 17 17,
   .wStateWaiting 17, .fadd 16 0, .callSend 16 1, .fsub 16 1, .rHigh 16 2, .rLow 16 0,
   .rWaiters 16 17, .wScratch 16 16 17, .wWaiters 16 16, .wStateWaiting 16, .fadd 20 0,
   .fsub 20 1, .rHigh 20 2, .rLow 20 0, .rBuf 20 0 4, .wBuf 20 0 0, .wLow 20 1, .rWaiters 20 16,
   .rScratch 20 16 17, .wWaiters 20 17, .wScratch 20 16 0, .wStateReady 20 16, .fadd 20 0,
   .retRecv 20 4, .fsub 19 1, .rHigh 19 2, .rLow 19 1, .rBuf 19 1 5, .wBuf 19 1 0, .wLow 19 2,
   .rWaiters 19 17, .rScratch 19 17 18, .wWaiters 19 18, .wScratch 19 17 0, .wStateReady 19 17,
   .fadd 19 0, .retRecv 19 5, .callRecv 19, .fsub 19 1, .rHigh 19 2, .rLow 19 2, .rWaiters 19 18,
   .wScratch 19 19 18, .wWaiters 19 19, .wStateWaiting 19, .fadd 0 0, .fsub 17 1, .rHigh 17 2,
   .rLow 17 2, .wBuf 17 0 3, .wHigh 17 3, .rWaiters 17 19, .rScratch 17 19 18, .wWaiters 17 18,
   .wScratch 17 19 0, .wStateReady 17 19, .fadd 17 0, .retSend 17, .fsub 16 1, .rHigh 16 3,
   .rLow 16 2, .wBuf 16 1 1, .wHigh 16 4, .rWaiters 16 18, .rScratch 16 18 21, .wWaiters 16 21,
   .wScratch 16 18 0, .wStateReady 16 18, .fadd 16 0, .retSend 16, .callSend 16 2, .fsub 16 1,
   .rHigh 16 4, .rLow 16 2, .rWaiters 16 21, .wScratch 16 16 21, .wWaiters 16 16,
   .wStateWaiting 16, .fadd 18 0, .fsub 18 1, .rHigh 18 4, .rLow 18 2, .rWaiters 18 16,
   .wScratch 18 18 16, .wWaiters 18 18, .wStateWaiting 18, .fadd 19 0, .fsub 19 1, .rHigh 19 4,
   .rLow 19 2, .rBuf 19 0 3, .wBuf 19 0 0, .wLow 19 3, .rWaiters 19 18, .rScratch 19 18 16,
   .wWaiters 19 16, .wScratch 19 18 0, .wStateReady 19 18, .fadd 19 0, .retRecv 19 3, .fsub 18 1,
   .rHigh 18 4, .rLow 18 3, .wBuf 18 0 6, .wHigh 18 5, .rWaiters 18 16, .rScratch 18 16 21,
   .wWaiters 18 21, .wScratch 18 16 0, .wStateReady 18 16, .fadd 18 0, .retSend 18, .fsub 16 1,
   .rHigh 16 5, .rLow 16 3, .rWaiters 16 21, .wScratch 16 16 21, .wWaiters 16 16,
   .wStateWaiting 16, .fadd 0 0]

set_option maxRecDepth 100000 in
/-- `no_lost_wake` is FALSE for the one-list discipline (finding F-C11, fixed in /repo by
    b18179b): the trace above is accepted by the model and ends with nobody active, two of two
    slots used, waiter list [sender 16, receiver 21] — receiver 21 is asleep although
    messages are buffered, because the wake-up it needed went to a sender at the head of the
    mixed list. -/
theorem no_lost_wake_false : ¬ NoLostWake false 2 := by
  intro hN
  have key : ((sys false 2).run lostWakeTrace).map (fun s => (quiescent s, stranded s 21)) = some (true, true) := by
    decide
  cases hr : (sys false 2).run lostWakeTrace with
  | none => rw [hr] at key; simp at key
  | some s =>
    rw [hr] at key
    simp only [Option.map_some, Option.some.injEq, Prod.mk.injEq] at key
    have := hN lostWakeTrace s hr key.1 21
    rw [key.2] at this; simp at this

set_option maxRecDepth 100000 in
example : ((sys false 2).run lostWakeTrace).map (fun s => (s.high, s.low, s.wl, s.everS && s.everR))
    = some (5, 3, [16, 21], true) := by decide

/-- `no_lost_wake_partial` (one-list discipline): the statement holds in every reachable state
    in which the waiter list has been homogeneous so far — only senders, or only receivers,
    have ever blocked.  What is missing for the full statement is exactly the case of F-C11. -/
theorem no_lost_wake_partial (cap : Nat) (es : List Ev) (s : St) (f : Nat)
    (h : (sys false cap).run es = some s) (hq : quiescent s = true)
    (hh : (s.everS && s.everR) = false) : stranded s f = false :=
  not_stranded_of_homogeneous (inv_of_run h) hq hh f

/-! non-vacuity of `no_lost_wake`: the SAME script on /repo HEAD (two lists) — the real run,
    projected to model events — is accepted by the two-list model, blocks senders and receivers
    alike, and ends quiescent with everything delivered in order. -/
def fixedTrace : List Ev :=
    [.callRecv 21, .fsub 21 1, .rHigh 21 0, .rLow 21 0, .rWaiters 21 0, .wScratch 21 21 0,
   .wWaiters 21 21, .wStateWaiting 21, .fadd 20 0, .callRecv 20, .fsub 20 1, .rHigh 20 0,
   .rLow 20 0, .rWaiters 20 21, .wScratch 20 20 21, .wWaiters 20 20, .wStateWaiting 20,
   .fadd 19 0, .callRecv 19, .fsub 19 1, .rHigh 19 0, .rLow 19 0, .rWaiters 19 20,
   .wScratch 19 19 20, .wWaiters 19 19, .wStateWaiting 19, .fadd 18 0, .callSend 18 4,
   .fsub 18 1, .rHigh 18 0, .rLow 18 0, .wBuf 18 0 4, .wHigh 18 1, .rWaiters 18 19,
   .rScratch 18 19 20, .wWaiters 18 20, .wScratch 18 19 0, .wStateReady 18 19, .fadd 18 0,
   .retSend 18, .callSend 18 5, .fsub 18 1, .rHigh 18 1, .rLow 18 0, .wBuf 18 1 5, .wHigh 18 2,
   .rWaiters 18 20, .rScratch 18 20 21, .wWaiters 18 21, .wScratch 18 20 0, .wStateReady 18 20,
   .fadd 18 0, .retSend 18, .callSend 18 6, .fsub 18 1, .rHigh 18 2, .rLow 18 0, .rSWaiters 18 0,
   .wScratch 18 18 0, .wSWaiters 18 18, .wStateWaiting 18, .fadd 17 0, .callSend 17 3,
   .fsub 17 1, .rHigh 17 2, .rLow 17 0, .rSWaiters 17 18, .wScratch 17 17 18, .wSWaiters 17 17,
   .wStateWaiting 17, .fadd 16 0, .callSend 16 1, .fsub 16 1, .rHigh 16 2, .rLow 16 0,
   .rSWaiters 16 17, .wScratch 16 16 17, .wSWaiters 16 16, .wStateWaiting 16, .fadd 20 0,
   .fsub 20 1, .rHigh 20 2, .rLow 20 0, .rBuf 20 0 4, .wBuf 20 0 0, .wLow 20 1, .rSWaiters 20 16,
   .rScratch 20 16 17, .wSWaiters 20 17, .wScratch 20 16 0, .wStateReady 20 16, .fadd 20 0,
   .retRecv 20 4, .fsub 19 1, .rHigh 19 2, .rLow 19 1, .rBuf 19 1 5, .wBuf 19 1 0, .wLow 19 2,
   .rSWaiters 19 17, .rScratch 19 17 18, .wSWaiters 19 18, .wScratch 19 17 0, .wStateReady 19 17,
   .fadd 19 0, .retRecv 19 5, .callRecv 19, .fsub 19 1, .rHigh 19 2, .rLow 19 2, .rWaiters 19 21,
   .wScratch 19 19 21, .wWaiters 19 19, .wStateWaiting 19, .fadd 0 0, .fsub 17 1, .rHigh 17 2,
   .rLow 17 2, .wBuf 17 0 3, .wHigh 17 3, .rWaiters 17 19, .rScratch 17 19 21, .wWaiters 17 21,
   .wScratch 17 19 0, .wStateReady 17 19, .fadd 17 0, .retSend 17, .fsub 16 1, .rHigh 16 3,
   .rLow 16 2, .wBuf 16 1 1, .wHigh 16 4, .rWaiters 16 21, .rScratch 16 21 0, .wWaiters 16 0,
   .wScratch 16 21 0, .wStateReady 16 21, .fadd 16 0, .retSend 16, .callSend 16 2, .fsub 16 1,
   .rHigh 16 4, .rLow 16 2, .rSWaiters 16 18, .wScratch 16 16 18, .wSWaiters 16 16,
   .wStateWaiting 16, .fadd 21 0, .fsub 21 1, .rHigh 21 4, .rLow 21 2, .rBuf 21 0 3,
   .wBuf 21 0 0, .wLow 21 3, .rSWaiters 21 16, .rScratch 21 16 18, .wSWaiters 21 18,
   .wScratch 21 16 0, .wStateReady 21 16, .fadd 21 0, .retRecv 21 3, .callRecv 21, .fsub 21 1,
   .rHigh 21 4, .rLow 21 3, .rBuf 21 1 1, .wBuf 21 1 0, .wLow 21 4, .rSWaiters 21 18,
   .rScratch 21 18 0, .wSWaiters 21 0, .wScratch 21 18 0, .wStateReady 21 18, .fadd 21 0,
   .retRecv 21 1, .callRecv 21, .fsub 21 1, .rHigh 21 4, .rLow 21 4, .rWaiters 21 0,
   .wScratch 21 21 0, .wWaiters 21 21, .wStateWaiting 21, .fadd 19 0, .fsub 19 1, .rHigh 19 4,
   .rLow 19 4, .rWaiters 19 21, .wScratch 19 19 21, .wWaiters 19 19, .wStateWaiting 19,
   .fadd 0 0, .fsub 18 1, .rHigh 18 4, .rLow 18 4, .wBuf 18 0 6, .wHigh 18 5, .rWaiters 18 19,
   .rScratch 18 19 21, .wWaiters 18 21, .wScratch 18 19 0, .wStateReady 18 19, .fadd 18 0,
   .retSend 18, .fsub 16 1, .rHigh 16 5, .rLow 16 4, .wBuf 16 1 2, .wHigh 16 6, .rWaiters 16 21,
   .rScratch 16 21 0, .wWaiters 16 0, .wScratch 16 21 0, .wStateReady 16 21, .fadd 16 0,
   .retSend 16, .fsub 21 1, .rHigh 21 6, .rLow 21 4, .rBuf 21 0 6, .wBuf 21 0 0, .wLow 21 5,
   .rSWaiters 21 0, .fadd 21 0, .retRecv 21 6, .fsub 19 1, .rHigh 19 6, .rLow 19 5, .rBuf 19 1 2,
   .wBuf 19 1 0, .wLow 19 6, .rSWaiters 19 0, .fadd 19 0, .retRecv 19 2]

set_option maxRecDepth 100000 in
example : ((sys true 2).run fixedTrace).map (fun s => (quiescent s, s.everS && s.everR, s.high, s.low, s.recvd))
    = some (true, true, 6, 6, [4, 5, 3, 1, 6, 2]) := by decide

set_option maxRecDepth 100000 in
/-- the one-list model rejects that trace (the fixed code reads `send_waiters`), and the two-list
    model rejects the old code's trace: the two disciplines are told apart by validation -/
example : ((sys false 2).run fixedTrace).isNone = true ∧ ((sys true 2).run lostWakeTrace).isNone = true := by
  decide

/-! non-vacuity of `no_lost_wake_partial`: a run of the old code (script `s1|r`, 1 kernel thread)
    in which a receiver blocks on the empty channel, the sender's internal_wake makes it READY,
    and it receives the message; the final state is quiescent and only a receiver ever blocked. -/
def blockedReceiverTrace : List Ev :=
  [.callRecv 17, .fsub 17 1, .rHigh 17 0, .rLow 17 0, .rWaiters 17 0, .wScratch 17 17 0,
   .wWaiters 17 17, .wStateWaiting 17, .fadd 16 0, .callSend 16 1, .fsub 16 1, .rHigh 16 0,
   .rLow 16 0, .wBuf 16 0 1, .wHigh 16 1, .rWaiters 16 17, .rScratch 16 17 0, .wWaiters 16 0,
   .wScratch 16 17 0, .wStateReady 16 17, .fadd 16 0, .retSend 16, .fsub 17 1, .rHigh 17 1,
   .rLow 17 0, .rBuf 17 0 1, .wBuf 17 0 0, .wLow 17 1, .rWaiters 17 0, .fadd 17 0, .retRecv 17 1]

example : ((sys false 2).run blockedReceiverTrace).map (fun s => (quiescent s, s.everS, s.everR))
    = some (true, false, true) := by decide

example : ((sys false 2).run blockedReceiverTrace).map (fun s => (s.recvd, s.sent.map Prod.snd))
    = some ([1], [1]) := by decide

/-- … and half-way through (after 9 events) the receiver is asleep, the state is quiescent and
    the ring is empty: exactly the situation the theorems allow -/
example : ((sys false 2).run (blockedReceiverTrace.take 9)).map
      (fun s => (quiescent s, sleeping s 17, stranded s 17, s.wl))
    = some (true, true, false, [17]) := by decide

end MultiChan

/-! ################################################################################
    ## bounded / unbounded / sp channel  (include/fiber_channel.h, harness/chan.c)

    One model, `Chan.sysM spin kind cap`, for the three single-receiver channels in both
    creation modes: `spin = false` — with a ready_signal (`Chan.sys kind cap` is this case,
    definitionally) — and `spin = true` — created with a NULL signal ("this channel will
    spin").  The signal protocol of the `Signal` section is embedded unchanged.  The receiver
    may mix blocking receives (`callRecv`) and `*_try_receive` (`callTry`) in any order; every
    theorem quantifies over all such histories.  Theorems with suffix `_queue` are for the
    unbounded (MPSC) and sp (SPSC) channels, `_bounded` for the bounded one.
    ################################################################################ -/
namespace Chan
open LibfiberVerif LibfiberVerif.Chan

/-- `sys` is the signal-mode instance of `sysM`: every theorem below, stated for `sysM spin`,
    holds verbatim for `sys k cap` -/
theorem sys_eq_sysM (k : Kind) (cap : Nat) : sys k cap = sysM false k cap := rfl

/-- the ready_signal of a channel obeys the signal protocol: every sleep of the receiver is
    ended by at most one wake-up, issued by one sender -/
theorem single_wake (spin : Bool) (k : Kind) (cap : Nat) (es : List Ev) (s : St) (f : Nat)
    (h : (sysM spin k cap).run es = some s) :
    s.p.wakes f ≤ s.p.parks f ∧ s.p.parks f ≤ s.p.wakes f + 1 ∧
    (∀ g g', (s.p.pc g).targets f → (s.p.pc g').targets f → g = g') :=
  Signal.single_wake_of_inv (pinv_of_run h) f

/-- only the channel's single receiver is ever in the signal word (client contract) -/
theorem word_is_receiver (spin : Bool) (k : Kind) (cap : Nat) (es : List Ev) (s : St) (f : Nat)
    (h : (sysM spin k cap).run es = some s) (hw : s.p.word = .fiber f) :
    (s.p.pc f).sleepy ∧ s.p.waiterId = some f :=
  let hp := pinv_of_run h
  ⟨(hp.word_sleepy f hw).1, hp.word_id f hw⟩

/-- `exactly_once` (unbounded / sp): what has been received — by blocking receives and
    try_receives alike — is exactly the first `hd` messages in the order the senders swapped the
    tail: nothing lost, duplicated, invented or re-ordered; messages are distinct and non-NULL. -/
theorem exactly_once_queue (spin : Bool) (k : Kind) (cap : Nat) (hk : k ≠ .bounded) (es : List Ev) (s : St)
    (h : (sysM spin k cap).run es = some s) :
    s.recvd = (s.sent.map Prod.snd).take s.hd ∧ s.recvd <+: s.sent.map Prod.snd ∧
    s.hd ≤ s.sent.length ∧ (s.sent.map Prod.snd).Nodup ∧ (∀ p, p ∈ s.sent → p.2 ≠ 0) := by
  have hq := qinv_of_run hk h
  exact ⟨hq.recvd_eq, by rw [hq.recvd_eq]; exact List.take_prefix _ _, hq.hd_le, hq.vnodup, hq.vnz⟩

/-- `per_sender_fifo` (unbounded / sp): the messages of fiber f are linearised — and therefore,
    by `exactly_once_queue`, received — in the order of f's calls to send. -/
theorem per_sender_fifo_queue (spin : Bool) (k : Kind) (cap : Nat) (hk : k ≠ .bounded) (es : List Ev) (s : St)
    (f : Nat) (h : (sysM spin k cap).run es = some s) :
    sentBy s f <+: s.calls f ∧ sentBy s f ++ (s.pc f).pending = s.calls f := by
  have := (qinv_of_run hk h).calls_eq f
  exact ⟨⟨_, this⟩, this⟩

/-- what the receiver reads out of a node IS the message with the next sequence number: the
    `data` word of every node still to be received holds its message -/
theorem data_intact_queue (spin : Bool) (k : Kind) (cap : Nat) (hk : k ≠ .bounded) (es : List Ev) (s : St)
    (i : Nat) (h : (sysM spin k cap).run es = some s) (h1 : s.hd ≤ i) (h2 : i < s.sent.length) :
    s.ndata (qval s i + 1) = qval s i :=
  (qinv_of_run hk h).data i h1 h2

/-- `receiver_resumed` (unbounded / sp) — the invariant: a message linked at the head of the
    queue while no sender is between publishing and its exchange of RAISED ⇒ if the receiver
    has decided to sleep its CAS will fail (word = RAISED: the raise is remembered), and if it
    is asleep a sender has taken it out of the word and is on its way to wake it (the raise
    was seen).  (On a spinning channel nobody ever decides to sleep or is asleep:
    `spin_never_sleeps`; there the statement holds because its premises are unreachable.) -/
theorem receiver_resumed_queue (spin : Bool) (k : Kind) (cap : Nat) (hk : k ≠ .bounded) (es : List Ev) (s : St)
    (w : Nat) (h : (sysM spin k cap).run es = some s) (ha : avail s) (hq : ∀ g, ¬ inFlight s g) :
    (committed s w → s.p.word = .raised) ∧
    (asleep s w → ∃ g, s.p.waker w = some g ∧ (s.p.pc g).targets w) := by
  cases spin with
  | false => exact resumed_of_inv (winv_of_run hk h) ha hq w
  | true =>
    obtain ⟨a, b⟩ := LibfiberVerif.Chan.spin_never_sleeps (spininv_of_run h) w
    exact ⟨fun hc => absurd hc a, fun hs => absurd hs b⟩

/-- … hence: with every other fiber outside any operation and a message available, the
    receiver is NOT asleep (a receiver blocked on the channel has been resumed), and if it has
    just decided to sleep the word is RAISED. -/
theorem receiver_not_stranded_queue (spin : Bool) (k : Kind) (cap : Nat) (hk : k ≠ .bounded) (es : List Ev)
    (s : St) (w : Nat) (h : (sysM spin k cap).run es = some s) (ha : avail s)
    (hidle : ∀ g, g ≠ w → s.pc g = .idle) :
    ¬ asleep s w ∧ (committed s w → s.p.word = .raised) := by
  cases spin with
  | false => exact not_stranded_of_inv (winv_of_run hk h) ha w hidle
  | true =>
    obtain ⟨a, b⟩ := LibfiberVerif.Chan.spin_never_sleeps (spininv_of_run h) w
    exact ⟨b, fun hc => absurd hc a⟩

/-- `exactly_once` (bounded): what has been received — by blocking receives and try_receives
    alike — is exactly the first `low` messages in the order the senders claimed their slots
    (CAS on `high`). -/
theorem exactly_once_bounded (spin : Bool) (cap : Nat) (es : List Ev) (s : St)
    (h : (sysM spin .bounded cap).run es = some s) :
    s.recvd = (s.sent.map Prod.snd).take s.low ∧ s.recvd <+: s.sent.map Prod.snd ∧
    s.sent.length = s.high ∧ s.low ≤ s.high ∧ (∀ p, p ∈ s.sent → p.2 ≠ 0) := by
  have hb := binv_of_run h
  exact ⟨hb.recvd_eq, by rw [hb.recvd_eq]; exact List.take_prefix _ _, hb.len, hb.lowhigh.1, hb.vnz⟩

/-- `per_sender_fifo` (bounded): a sender's messages are claimed — hence received — in the
    order of its calls to send. -/
theorem per_sender_fifo_bounded (spin : Bool) (cap : Nat) (es : List Ev) (s : St) (f : Nat)
    (h : (sysM spin .bounded cap).run es = some s) :
    sentBy s f <+: s.calls f ∧ sentBy s f ++ (s.pc f).pending = s.calls f := by
  have := (binv_of_run h).calls_eq f
  exact ⟨⟨_, this⟩, this⟩

/-- `bounded_no_overwrite`: the channel never holds more than `size` messages (claimed and not
    yet consumed); a sender writes only into a slot that holds NULL — the slot of the sequence
    number it claimed, which no other fiber writes —; and every message that is claimed and
    not yet consumed is either in its slot or still to be written by its (unique) claimer.
    The consumer (`rCleared`) may be a blocking receive or a try_receive. -/
theorem bounded_no_overwrite (spin : Bool) (cap : Nat) (es : List Ev) (s : St)
    (h : (sysM spin .bounded cap).run es = some s) :
    s.high - s.low ≤ s.cap ∧
    (∀ f v i, s.pc f = .sClaimed v i → s.low ≤ i ∧ i < s.high ∧ qown s i = f ∧ s.buf (i % s.cap) = 0) ∧
    (∀ i, s.low ≤ i → i < s.high → (∀ f m, s.pc f ≠ .rCleared i m) →
      s.buf (i % s.cap) = qval s i ∨ (s.buf (i % s.cap) = 0 ∧ s.pc (qown s i) = .sClaimed (qval s i) i)) ∧
    (∀ i j, s.low ≤ i → i < j → j < s.high → i % s.cap ≠ j % s.cap) := by
  have hb := binv_of_run h
  refine ⟨hb.lowhigh.2, fun f v i hf => ?_, hb.slots, fun i j h1 h2 h3 => ?_⟩
  · obtain ⟨a, b, c, _, e⟩ := hb.claimed f v i hf
    exact ⟨a, b, c, e⟩
  · exact mod_ne_of_lt h2 (by have := hb.lowhigh; omega)

/-- the write itself: at the step in which a sender stores its message the slot holds NULL -/
theorem send_writes_null_slot (spin : Bool) (cap : Nat) (es : List Ev) (s s' : St) (f i x : Nat)
    (h : (sysM spin .bounded cap).run es = some s) (v hh : Nat) (hpc : s.pc f = .sClaimed v hh)
    (hs : step s (.wBuf f i x) = some s') : s.buf i = 0 ∧ x = v := by
  have hb := binv_of_run h
  obtain ⟨hk, _⟩ := kind_of_run h
  simp only [step, hk, hpc] at hs
  split at hs
  · simp at hs
  · split at hs <;> simp at hs
    rename_i hc
    obtain ⟨hi, hx⟩ := hc
    subst hi
    exact ⟨(hb.claimed f v hh hpc).2.2.2.2, hx⟩

/-- `receiver_resumed` (bounded): the message with sequence number `low` is in its slot while no
    sender is between claiming a slot and its exchange of RAISED ⇒ the receiver's next CAS
    fails (word = RAISED) if it has decided to sleep, and if it is asleep a sender has taken
    it out of the word and is on its way to wake it. -/
theorem receiver_resumed_bounded (spin : Bool) (cap : Nat) (hcap : 0 < cap) (es : List Ev) (s : St) (w : Nat)
    (h : (sysM spin .bounded cap).run es = some s) (ha : bavail s) (hq : ∀ g, ¬ binFlight s g) :
    (committed s w → s.p.word = .raised) ∧
    (asleep s w → ∃ g, s.p.waker w = some g ∧ (s.p.pc g).targets w) := by
  cases spin with
  | false => exact bresumed_of_inv (bwinv_of_run hcap h) ha hq w
  | true =>
    obtain ⟨a, b⟩ := LibfiberVerif.Chan.spin_never_sleeps (spininv_of_run h) w
    exact ⟨fun hc => absurd hc a, fun hs => absurd hs b⟩

theorem receiver_not_stranded_bounded (spin : Bool) (cap : Nat) (hcap : 0 < cap) (es : List Ev) (s : St)
    (w : Nat) (h : (sysM spin .bounded cap).run es = some s) (ha : bavail s)
    (hidle : ∀ g, g ≠ w → s.pc g = .idle) :
    ¬ asleep s w ∧ (committed s w → s.p.word = .raised) := by
  cases spin with
  | false => exact bnot_stranded_of_inv (bwinv_of_run hcap h) ha w hidle
  | true =>
    obtain ⟨a, b⟩ := LibfiberVerif.Chan.spin_never_sleeps (spininv_of_run h) w
    exact ⟨b, fun hc => absurd hc a⟩

/-- `exactly_once` for all three kinds, both creation modes, any mix of receive and
    try_receive: the received messages are a prefix of the messages in linearisation order
    (slot claim / tail swap): each message is received at most once, only messages that were
    sent are received, and never out of that order. -/
theorem exactly_once (spin : Bool) (k : Kind) (cap : Nat) (es : List Ev) (s : St)
    (h : (sysM spin k cap).run es = some s) : s.recvd <+: s.sent.map Prod.snd := by
  cases k with
  | bounded => exact (exactly_once_bounded spin cap es s h).2.1
  | unbounded => exact (exactly_once_queue spin .unbounded cap (by simp) es s h).2.1
  | sp => exact (exactly_once_queue spin .sp cap (by simp) es s h).2.1

/-- `per_sender_fifo` for all three kinds, both creation modes -/
theorem per_sender_fifo (spin : Bool) (k : Kind) (cap : Nat) (es : List Ev) (s : St) (f : Nat)
    (h : (sysM spin k cap).run es = some s) : sentBy s f <+: s.calls f := by
  cases k with
  | bounded => exact (per_sender_fifo_bounded spin cap es s f h).1
  | unbounded => exact (per_sender_fifo_queue spin .unbounded cap (by simp) es s f h).1
  | sp => exact (per_sender_fifo_queue spin .sp cap (by simp) es s f h).1

/-! ### channels created with a NULL ready_signal ("this channel will spin") -/

/-- on a spinning channel no fiber ever touches a signal: the embedded protocol is still in its
    initial state (nobody ever parked, was woken, or is in the word), and no fiber is ever on
    its way to sleep or asleep — "a receiver blocked on an empty channel" does not sleep, it
    is somewhere in its receive loop -/
theorem spin_never_sleeps (k : Kind) (cap : Nat) (es : List Ev) (s : St)
    (h : (sysM true k cap).run es = some s) :
    s.p = Signal.pinit ∧ (∀ f, (s.pc f).usesSignal = false) ∧ ∀ w, ¬ committed s w ∧ ¬ asleep s w :=
  let hi := spininv_of_run h
  ⟨hi.proto, hi.nosig, LibfiberVerif.Chan.spin_never_sleeps hi⟩

/-- … and that loop takes a message as soon as one is available (bounded; either creation
    mode, blocking receive or try_receive): with the receiver at the top of its loop and the
    message with sequence number `low` in its slot, the next pass — these six events, all
    accepted — delivers exactly that message.  Together with `spin_never_sleeps` this is "a
    receiver blocked on an empty channel is always resumed by a later send" for spinning
    channels: a pass that finds nothing ends at the top of the loop again (`emptyPc`), the
    first pass after the send's write finds the message. -/
theorem receive_takes_bounded (spin : Bool) (cap : Nat) (hcap : 0 < cap) (es : List Ev) (s : St) (f : Nat)
    (h : (sysM spin .bounded cap).run es = some s) (hpc : s.pc f = .rTop) (ha : bavail s) :
    ∃ s', (sysM spin .bounded cap).run (es ++
        [.ldHigh f s.high, .ldLow f s.low, .rBuf f (s.low % s.cap) (s.buf (s.low % s.cap)),
         .wBuf f (s.low % s.cap) 0, .stLow f (s.low + 1), .retRecv f (s.buf (s.low % s.cap))]) = some s' ∧
      s'.pc f = .idle ∧ s'.recvd = s.recvd ++ [s.buf (s.low % s.cap)] ∧ s'.low = s.low + 1 := by
  obtain ⟨hk, hc⟩ := kind_of_run h
  obtain ⟨s', h1, h2⟩ := LibfiberVerif.Chan.receive_takes_bounded hk (binv_of_run h) (by rw [hc]; exact hcap) f hpc ha
  refine ⟨s', ?_, h2⟩
  have e : sysM s.spin s.kind s.cap = sysM spin .bounded cap := by rw [spin_of_run h, hk, hc]
  rw [e] at h1
  simp only [Sys.run] at h ⊢
  simp only [Sys.runFrom_append, h, Option.bind_some]
  exact h1

/-- the same for the unbounded / sp channels: a message linked at the head ⇒ the next pass of
    the loop pops that node and returns its message -/
theorem receive_takes_queue (spin : Bool) (k : Kind) (cap : Nat) (hk : k ≠ .bounded) (es : List Ev) (s : St)
    (f : Nat) (h : (sysM spin k cap).run es = some s) (hpc : s.pc f = .rTop) (ha : avail s) :
    ∃ s', (sysM spin k cap).run (es ++
        [.rHead f s.headNode, .rNext f s.headNode (headNext s), .wHead f (headNext s),
         .rData f (headNext s) (s.ndata (headNext s)), .wData f s.headNode (s.ndata (headNext s)),
         .rData f s.headNode (s.ndata (headNext s)), .retRecv f (s.ndata (headNext s))]) = some s' ∧
      s'.pc f = .idle ∧ s'.recvd = s.recvd ++ [s.ndata (headNext s)] ∧ s'.hd = s.hd + 1 := by
  obtain ⟨hks, hc⟩ := kind_of_run h
  obtain ⟨s', h1, h2⟩ := LibfiberVerif.Chan.receive_takes_queue (by rw [hks]; exact hk) f hpc ha
  refine ⟨s', ?_, h2⟩
  have e : sysM s.spin s.kind s.cap = sysM spin k cap := by rw [spin_of_run h, hks, hc]
  rw [e] at h1
  simp only [Sys.run] at h ⊢
  simp only [Sys.runFrom_append, h, Option.bind_some]
  exact h1

/-! ### `*_try_receive` -/

/-- a try_receive never waits: while the operation in progress is a try_receive no fiber is on
    its way into fiber_signal_wait (and there is one receiver: client contract, ghost-checked) -/
theorem try_never_waits (spin : Bool) (k : Kind) (cap : Nat) (es : List Ev) (s : St)
    (h : (sysM spin k cap).run es = some s) (ht : s.tryMode = true) (f : Nat) :
    s.pc f ≠ .rEmpty ∧ s.pc f ≠ .rWaiting :=
  (tinv_of_run h).nowait ht f

/-- `try_empty_bounded` — the STRONGEST true form of "try_receive reports empty only if the
    channel was empty at some instant of the call or a send was in flight" (bounded channel):
    if a try_receive of fiber f is about to return "empty" (`tEmpty`), then at some instant s1
    since the call began (`SinceCall`: no receive operation has started after s1, so s1 lies
    inside THIS call) either the channel was EMPTY — every message claimed so far had been
    received — or the send of THE MESSAGE NEXT IN LINE was in flight: its sender had claimed
    sequence number `low` by the CAS on `high` and not yet written the slot.  It cannot be
    strengthened to "no completed send was unreceived": `try_empty_despite_completed_send`. -/
theorem try_empty_bounded (spin : Bool) (cap : Nat) (es : List Ev) (s : St) (f : Nat)
    (h : (sysM spin .bounded cap).run es = some s) (hf : s.pc f = .tEmpty) :
    SinceCall (sysM spin .bounded cap) es
      (fun s1 => s1.sent.length = s1.recvd.length ∨ (s1.low < s1.high ∧ ∃ g v, s1.pc g = .sClaimed v s1.low)) :=
  (try_hist_bounded spin cap es s h).2 f hf

/-- `try_empty_queue` — the same for the unbounded / sp channels: EMPTY — every message swapped
    into the tail so far had been received — or the send of the message next in line was in
    flight: its sender had swapped the tail and not yet written `prev->next`. -/
theorem try_empty_queue (spin : Bool) (k : Kind) (hk : k ≠ .bounded) (cap : Nat) (es : List Ev) (s : St)
    (f : Nat) (h : (sysM spin k cap).run es = some s) (hf : s.pc f = .tEmpty) :
    SinceCall (sysM spin k cap) es
      (fun s1 => s1.sent.length = s1.recvd.length ∨
        (s1.hd < s1.sent.length ∧ ∃ g v prev, s1.pc g = .qSwapped v prev s1.hd)) :=
  try_hist_queue spin k hk cap es s h f hf

/-- state form (bounded), at the deciding read of ANY receive operation that finds nothing —
    the try_receive that will report empty, the blocking receive that will wait / loop: the
    receiver's load of `high` in this operation saw `high = low` (`emptySeen`, a ghost that is
    reset by every receive call and set only by that load: `emptySeen_set`), or the slot of
    the message next in line is NULL because its claimer has not written it yet -/
theorem empty_at_read_bounded (spin : Bool) (cap : Nat) (es : List Ev) (s s' : St) (f i x hh l : Nat)
    (h : (sysM spin .bounded cap).run es = some s) (hpc : s.pc f = .rLdLow hh l)
    (hs : step s (.rBuf f i x) = some s') (hnone : ¬ (x ≠ 0 ∧ hh > l)) :
    s.emptySeen = true ∨
    (x = 0 ∧ s.low < s.high ∧ s.pc (qown s s.low) = .sClaimed (qval s s.low) s.low) :=
  empty_bounded_of_inv (kind_of_run h).1 (binv_of_run h) (einv_of_run h) f i x hh l hpc hs hnone

/-- state form (unbounded / sp): `head->next` is NULL only if every message linearised so far
    has been received, or the node next in line is not linked yet and its sender is between
    its tail swap and the write of `prev->next` -/
theorem empty_at_read_queue (spin : Bool) (k : Kind) (hk : k ≠ .bounded) (cap : Nat) (es : List Ev) (s : St)
    (h : (sysM spin k cap).run es = some s) (h0 : headNext s = 0) :
    s.hd = s.sent.length ∨
    (s.hd < s.sent.length ∧ s.linked s.hd = false ∧ (s.pc (qown s s.hd)).swappedAt s.hd = true) :=
  empty_queue_of_inv (qinv_of_run hk h) (linv_of_run hk h) h0

/-! non-vacuity: runs of the real implementation (harness/chan.c, script `r,r|s1,s2`, 2 kernel
    threads, VR_SCHED=rand VR_SWITCH=2 VR_SEED=3) for the three kinds, projected to model
    events; in each the receiver really goes to sleep on the empty channel and is woken by the
    sender's raise (`woke 17 true`). -/
def traceUnbounded : List Ev :=
  [.callRecv 16, .rHead 16 1, .rNext 16 1 0, .p (.clrScratch 16), .p (.casWaiter 16 .none true),
   .callSend 17 1, .wData 17 2 1, .wNext 17 2 0, .p (.wStateWaiting 16), .xchgTail 17 1 2,
   .p (.setWait 1 16), .wNext 17 1 2, .p (.xchg 17 (.fiber 16)), .p (.stNone 17),
   .p (.rScratch 17 16 true), .p (.wStateReady 17 16), .woke 17 true, .retSend 17,
   .callSend 17 2, .wData 17 3 2, .wNext 17 3 0, .xchgTail 17 2 3, .wNext 17 2 3,
   .p (.xchg 17 .none), .woke 17 false, .retSend 17, .p (.clrScratch 16), .p (.stNone 16),
   .rHead 16 1, .rNext 16 1 2, .wHead 16 2, .rData 16 2 1, .wData 16 1 1, .rData 16 1 1,
   .retRecv 16 1, .callRecv 16, .rHead 16 2, .rNext 16 2 3, .wHead 16 3, .rData 16 3 2,
   .wData 16 2 2, .rData 16 2 2, .retRecv 16 2]

def traceSp : List Ev :=
  [.callRecv 16, .rHead 16 1, .rNext 16 1 0, .p (.clrScratch 16), .p (.casWaiter 16 .none true),
   .callSend 17 1, .wData 17 2 1, .wNext 17 2 0, .p (.wStateWaiting 16), .ldTail 17 1,
   .p (.setWait 1 16), .stTail 17 2, .wNext 17 1 2, .p (.xchg 17 (.fiber 16)), .p (.stNone 17),
   .p (.rScratch 17 16 true), .p (.wStateReady 17 16), .woke 17 true, .retSend 17,
   .callSend 17 2, .wData 17 3 2, .wNext 17 3 0, .ldTail 17 2, .stTail 17 3, .wNext 17 2 3,
   .p (.xchg 17 .none), .woke 17 false, .retSend 17, .p (.clrScratch 16), .p (.stNone 16),
   .rHead 16 1, .rNext 16 1 2, .wHead 16 2, .rData 16 2 1, .wData 16 1 1, .rData 16 1 1,
   .retRecv 16 1, .callRecv 16, .rHead 16 2, .rNext 16 2 3, .wHead 16 3, .rData 16 3 2,
   .wData 16 2 2, .rData 16 2 2, .retRecv 16 2]

def traceBounded : List Ev :=
  [.callRecv 16, .ldHigh 16 0, .ldLow 16 0, .rBuf 16 0 0, .p (.clrScratch 16),
   .p (.casWaiter 16 .none true), .callSend 17 1, .ldLow 17 0, .ldHigh 17 0, .rBuf 17 0 0,
   .casHigh 17 0 0 1 true, .p (.wStateWaiting 16), .p (.setWait 1 16), .wBuf 17 0 1,
   .p (.xchg 17 (.fiber 16)), .p (.stNone 17), .p (.rScratch 17 16 true),
   .p (.wStateReady 17 16), .woke 17 true, .retSend 17, .callSend 17 2, .ldLow 17 0,
   .ldHigh 17 1, .rBuf 17 1 0, .casHigh 17 1 1 2 true, .wBuf 17 1 2, .p (.xchg 17 .none),
   .woke 17 false, .retSend 17, .p (.clrScratch 16), .p (.stNone 16), .ldHigh 16 2, .ldLow 16 0,
   .rBuf 16 0 1, .wBuf 16 0 0, .stLow 16 1, .retRecv 16 1, .callRecv 16, .ldHigh 16 2,
   .ldLow 16 1, .rBuf 16 1 2, .wBuf 16 1 0, .stLow 16 2, .retRecv 16 2]

example : ((sys .unbounded 0).run traceUnbounded).map (fun s => (s.recvd, s.hd, s.p.parks 16, s.p.wakes 16))
    = some ([1, 2], 2, 1, 1) := by decide

example : ((sys .sp 0).run traceSp).map (fun s => (s.recvd, s.hd, s.p.parks 16, s.p.wakes 16))
    = some ([1, 2], 2, 1, 1) := by decide

example : ((sys .bounded 2).run traceBounded).map (fun s => (s.recvd, s.low, s.high, s.p.parks 16))
    = some ([1, 2], 2, 2, 1) := by decide

/-- the hypotheses of `receiver_resumed_queue` are met inside `traceUnbounded`: after 12 events
    the message is linked, the sender has not yet exchanged (in flight), the receiver is parked -/
example : ((sys .unbounded 0).run (traceUnbounded.take 12)).map
      (fun s => (headNext s, s.pc 17, s.p.pc 16, s.p.word))
    = some (2, .sPublished 1, .parked, .fiber 16) := by decide

/-- the hypotheses of `receiver_resumed_bounded` are met inside `traceBounded`: after 14 events
    the message is in its slot, the sender has not yet exchanged (in flight), the receiver is
    parked in the word -/
example : ((sys .bounded 2).run (traceBounded.take 14)).map
      (fun s => (s.buf (s.low % s.cap), s.pc 17, s.p.pc 16, s.p.word))
    = some (1, .sPublished 1, .parked, .fiber 16) := by decide

/-! non-vacuity with the new operations: more runs of the real implementation, projected.

    `traceMixed` — `chan 2 b 1 't,r,t,d|s1,s2,s3'` (VR_SCHED=rand VR_SWITCH=2 VR_SEED=3), bounded
    channel WITH a signal, capacity 2: a try_receive on the empty channel reports empty; the
    blocking receive that follows goes to sleep and is woken by the first send; the third send
    spins on the full ring; try_receives take messages 2 and 3, one more reports empty. -/
def traceMixed : List Ev :=
  [.callTry 16, .ldHigh 16 0, .ldLow 16 0, .rBuf 16 0 0, .retRecv 16 0, .callRecv 16, .ldHigh 16 0,
   .ldLow 16 0, .rBuf 16 0 0, .callSend 17 1, .p (.clrScratch 16), .p (.casWaiter 16 .none true),
   .p (.wStateWaiting 16), .ldLow 17 0, .ldHigh 17 0, .rBuf 17 0 0, .casHigh 17 0 0 1 true,
   .wBuf 17 0 1, .p (.xchg 17 (.fiber 16)), .p (.stNone 17), .p (.rScratch 17 16 false),
   .p (.setWait 1 16), .p (.rScratch 17 16 true), .p (.wStateReady 17 16), .woke 17 true,
   .retSend 17, .callSend 17 2, .ldLow 17 0, .ldHigh 17 1, .rBuf 17 1 0, .casHigh 17 1 1 2 true,
   .wBuf 17 1 2, .p (.xchg 17 .none), .woke 17 false, .retSend 17, .callSend 17 3, .ldLow 17 0,
   .ldHigh 17 2, .rBuf 17 0 1, .ldLow 17 0, .ldHigh 17 2, .rBuf 17 0 1, .p (.clrScratch 16),
   .p (.stNone 16), .ldHigh 16 2, .ldLow 16 0, .rBuf 16 0 1, .wBuf 16 0 0, .stLow 16 1,
   .retRecv 16 1, .callTry 16, .ldHigh 16 2, .ldLow 16 1, .rBuf 16 1 2, .wBuf 16 1 0, .stLow 16 2,
   .retRecv 16 2, .callTry 16, .ldHigh 16 2, .ldLow 16 2, .rBuf 16 0 0, .retRecv 16 0, .ldLow 17 2,
   .ldHigh 17 2, .rBuf 17 0 0, .casHigh 17 2 2 3 true, .wBuf 17 0 3, .p (.xchg 17 .none),
   .woke 17 false, .retSend 17, .callTry 16, .ldHigh 16 3, .ldLow 16 2, .rBuf 16 0 3, .wBuf 16 0 0,
   .stLow 16 3, .retRecv 16 3]

example : ((sys .bounded 2).run traceMixed).map (fun s => (s.recvd, s.tryEmpty, s.p.parks 16, s.p.wakes 16))
    = some ([1, 2, 3], 2, 1, 1) := by decide

/-- inside `traceMixed`: after 4 events the try_receive is about to report empty (`tEmpty`) and
    it saw the channel empty (hypothesis of `try_empty_bounded`, first disjunct) -/
example : ((sys .bounded 2).run (traceMixed.take 4)).map
      (fun s => (s.pc 16, s.tryMode, s.emptySeen, s.sent.length, s.recvd.length))
    = some (.tEmpty, true, true, 0, 0) := by decide

/-- `traceInflightB` — `chan 2 b 1 't,t,d|s1'` (VR_SEED=23 VR_SWITCH=2): the sender has claimed
    slot 0 (CAS on `high`) and not written it when the try_receive reads `high = 1 > low = 0`
    and a NULL slot: it reports empty although the channel is NOT empty — the send is in flight
    (second disjunct of `try_empty_bounded`); the next try_receive takes the message. -/
def traceInflightB : List Ev :=
  [.callSend 17 1, .ldLow 17 0, .ldHigh 17 0, .rBuf 17 0 0, .casHigh 17 0 0 1 true, .callTry 16,
   .ldHigh 16 1, .ldLow 16 0, .rBuf 16 0 0, .retRecv 16 0, .callTry 16, .ldHigh 16 1, .wBuf 17 0 1,
   .p (.xchg 17 .none), .ldLow 16 0, .woke 17 false, .retSend 17, .rBuf 16 0 1, .wBuf 16 0 0,
   .stLow 16 1, .retRecv 16 1]

example : ((sys .bounded 2).run (traceInflightB.take 9)).map
      (fun s => (s.pc 16, s.emptySeen, s.sent.length, s.recvd.length, s.pc 17))
    = some (.tEmpty, false, 1, 0, .sClaimed 1 0) := by decide

example : ((sys .bounded 2).run traceInflightB).map (fun s => (s.recvd, s.tryEmpty)) = some ([1], 1) := by
  decide

/-- `traceSpinU` — `chan 2 U 0 't,t,d|s1'` (VR_SEED=7): unbounded channel created with a NULL
    signal; the send never raises (`woke 17 false` straight after the link write); the first
    try_receive reads `head->next = NULL` between the sender's tail swap and its link write
    (in flight: second disjunct of `try_empty_queue`), the second one pops the message. -/
def traceSpinU : List Ev :=
  [.callSend 17 1, .wData 17 2 1, .wNext 17 2 0, .callTry 16, .rHead 16 1, .xchgTail 17 1 2,
   .rNext 16 1 0, .retRecv 16 0, .callTry 16, .rHead 16 1, .wNext 17 1 2, .woke 17 false,
   .retSend 17, .rNext 16 1 2, .wHead 16 2, .rData 16 2 1, .wData 16 1 1, .rData 16 1 1,
   .retRecv 16 1]

example : ((sysM true .unbounded 0).run (traceSpinU.take 7)).map
      (fun s => (s.pc 16, s.sent.length, s.recvd.length, s.hd, s.pc 17))
    = some (.tEmpty, 1, 0, 0, .qSwapped 1 1 0) := by decide

example : ((sysM true .unbounded 0).run traceSpinU).map (fun s => (s.recvd, s.tryEmpty, s.p.word))
    = some ([1], 1, .none) := by decide

/-- the signal-mode model rejects that run (a send that does not raise), the spin-mode model
    rejects a run of a channel with a signal: the two creation modes are told apart by validation -/
example : ((sys .unbounded 0).run traceSpinU).isNone = true ∧
    ((sysM true .unbounded 0).run traceUnbounded).isNone = true := by decide

/-- `traceSpinS` — `chan 2 S 0 't,t,d|s1'` (VR_SEED=2): single-producer channel, NULL signal -/
def traceSpinS : List Ev :=
  [.callTry 16, .rHead 16 1, .rNext 16 1 0, .retRecv 16 0, .callTry 16, .rHead 16 1, .rNext 16 1 0,
   .retRecv 16 0, .callTry 16, .rHead 16 1, .callSend 17 1, .wData 17 2 1, .wNext 17 2 0,
   .ldTail 17 1, .stTail 17 2, .rNext 16 1 0, .retRecv 16 0, .wNext 17 1 2, .callTry 16,
   .rHead 16 1, .woke 17 false, .retSend 17, .rNext 16 1 2, .wHead 16 2, .rData 16 2 1,
   .wData 16 1 1, .rData 16 1 1, .retRecv 16 1]

example : ((sysM true .sp 0).run traceSpinS).map (fun s => (s.recvd, s.tryEmpty, s.p.word))
    = some ([1], 3, .none) := by decide

/-- `traceSpinB` — `chan 2 B 1 'r,t,d|s1,s2,s3'` (VR_SEED=3): bounded channel, NULL signal: the
    blocking receive finds nothing three times and loops (through fiber_yield, skipped by
    projection) instead of sleeping, then takes message 1; try_receives take 2 and 3 and report
    empty twice while the third send is between its claim and its write. -/
def traceSpinB : List Ev :=
  [.callRecv 16, .ldHigh 16 0, .ldLow 16 0, .rBuf 16 0 0, .ldHigh 16 0, .ldLow 16 0, .callSend 17 1,
   .rBuf 16 0 0, .ldHigh 16 0, .ldLow 16 0, .ldLow 17 0, .rBuf 16 0 0, .ldHigh 17 0, .rBuf 17 0 0,
   .casHigh 17 0 0 1 true, .wBuf 17 0 1, .woke 17 false, .retSend 17, .callSend 17 2, .ldLow 17 0,
   .ldHigh 17 1, .rBuf 17 1 0, .casHigh 17 1 1 2 true, .ldHigh 16 2, .ldLow 16 0, .rBuf 16 0 1,
   .wBuf 16 0 0, .stLow 16 1, .retRecv 16 1, .callTry 16, .wBuf 17 1 2, .woke 17 false, .retSend 17,
   .callSend 17 3, .ldHigh 16 2, .ldLow 16 1, .ldLow 17 1, .rBuf 16 1 2, .wBuf 16 1 0, .ldHigh 17 2,
   .rBuf 17 0 0, .casHigh 17 2 2 3 true, .stLow 16 2, .retRecv 16 2, .callTry 16, .ldHigh 16 3,
   .ldLow 16 2, .rBuf 16 0 0, .retRecv 16 0, .callTry 16, .ldHigh 16 3, .ldLow 16 2, .rBuf 16 0 0,
   .retRecv 16 0, .wBuf 17 0 3, .woke 17 false, .retSend 17, .callTry 16, .ldHigh 16 3, .ldLow 16 2,
   .rBuf 16 0 3, .wBuf 16 0 0, .stLow 16 3, .retRecv 16 3]

example : ((sysM true .bounded 2).run traceSpinB).map (fun s => (s.recvd, s.tryEmpty, s.p.word, s.p.parks 16))
    = some ([1, 2, 3], 2, .none, 0) := by decide

/-- inside `traceSpinB`: after 16 events the message is in its slot and the blocking receiver
    is at the top of its loop — the hypotheses of `receive_takes_bounded` -/
example : ((sysM true .bounded 2).run (traceSpinB.take 16)).map
      (fun s => (s.pc 16, s.buf (s.low % s.cap), s.tryMode))
    = some (.rTop, 1, false) := by decide

/-- `traceBehind` — `chan 3 u 0 't,t,t,d|s1|s2'` (VR_SEED=3182 VR_SWITCH=2): sender 18 swaps the
    tail first and stalls before its link write; sender 17 then sends message 1 COMPLETELY
    (swap, link, raise, return); only then is try_receive called — and reports empty, because
    the node next in line (18's) is not linked. -/
def traceBehind : List Ev :=
  [.callSend 18 2, .wData 18 3 2, .wNext 18 3 0, .xchgTail 18 1 3, .callSend 17 1, .wData 17 2 1,
   .wNext 17 2 0, .xchgTail 17 3 2, .wNext 17 3 2, .p (.xchg 17 .none), .woke 17 false, .retSend 17,
   .callTry 16, .rHead 16 1, .rNext 16 1 0, .retRecv 16 0, .callTry 16, .rHead 16 1, .wNext 18 1 3,
   .rNext 16 1 3, .wHead 16 3, .p (.xchg 18 .raised), .woke 18 false, .retSend 18, .rData 16 3 2,
   .wData 16 1 2, .rData 16 1 2, .retRecv 16 2, .callTry 16, .rHead 16 3, .rNext 16 3 2, .wHead 16 2,
   .rData 16 2 1, .wData 16 3 1, .rData 16 3 1, .retRecv 16 1]

/-- `try_empty_*` cannot be strengthened to "try_receive reports empty only if no COMPLETED send
    is unreceived": in this accepted trace of the real code (`traceBehind`) fiber 17's send of
    message 1 has returned (pc idle, message linearised, not received) before the try_receive
    is even called, and throughout the call; the call nevertheless reports empty (`tEmpty`),
    because the send of the message NEXT IN LINE (fiber 18's) is in flight. -/
theorem try_empty_despite_completed_send :
    ∃ es s, (sys .unbounded 0).run es = some s ∧ s.pc 16 = .tEmpty ∧
      s.pc 17 = .idle ∧ (17, 1) ∈ s.sent ∧ 1 ∉ s.recvd ∧ s.pc 18 = .qSwapped 2 1 0 := by
  refine ⟨traceBehind.take 15, ?_⟩
  have key : ((sys .unbounded 0).run (traceBehind.take 15)).map
      (fun s => (s.pc 16, s.pc 17, s.pc 18)) = some (.tEmpty, .idle, .qSwapped 2 1 0) := by decide
  have key2 : ((sys .unbounded 0).run (traceBehind.take 15)).map
      (fun s => (s.sent, s.recvd)) = some ([(18, 2), (17, 1)], []) := by decide
  cases hr : (sys .unbounded 0).run (traceBehind.take 15) with
  | none => rw [hr] at key; simp at key
  | some s =>
    rw [hr] at key key2
    simp only [Option.map_some, Option.some.injEq, Prod.mk.injEq] at key key2
    obtain ⟨k1, k2, k5⟩ := key
    obtain ⟨k3, k4⟩ := key2
    exact ⟨s, rfl, k1, k2, by rw [k3]; simp, by rw [k4]; simp, k5⟩

/-- the whole run delivers everything exactly once, in linearisation order (2 before 1) -/
example : ((sys .unbounded 0).run traceBehind).map (fun s => (s.recvd, s.tryEmpty)) = some ([2, 1], 1) := by
  decide

end Chan

end LibfiberVerif.Props.C11
