/-
  Props/Tso.lean — the SC ⇐ TSO argument of DESIGN.md §3, machine-checked for the two places
  where an algorithm of the library relies on a STORE being visible before a LATER LOAD OF
  ANOTHER CELL (the only reordering x86-TSO allows):

    (a) `wsd_work_stealing_deque_pop_bottom`:   store(bottom, b) seq_cst ;  load(top)
    (b) `hazard_pointer_using` + its caller:    hp[i] = node ; store_load_barrier() ;  load(G)

  Models: `Model/Tso.lean` (store buffers), `Model/WsdTso.lean`, `Model/HpTso.lean`; each takes
  the strength of that one store/barrier as a parameter `fenced`.  Invariants:
  `Proof/Tso.lean`, `Proof/WsdTso.lean`, `Proof/HpTso.lean`.

  For `fenced = true` the safety property of the SC model (C02 `Wsd.exactly_once`, C14
  `Hp.no_reclaim_protected` / `Hp.use_not_reclaimed`) is proved over EVERY accepted trace of the
  store-buffer model — any interleaving, arbitrary `flush` events, any number of threads,
  unbounded runs.  For `fenced = false` a concrete accepted trace violates it (`decide`d).

  ## How `fenced = true` is tied to the code

  These two models are not driven by logs (nothing is registered in `Registry.lean`): the
  deterministic scheduler of `rt/` is sequentially consistent, a store buffer cannot be
  observed there.  What IS observed in every log, and REQUIRED by the SC models that the logs
  are replayed through, is the strength of the store / the presence of the barrier:

  * `Model/Wsd.lean`, `step`, event `.stBottom t x mo` at pc `.popGotArr b g`:
        `-- the seq_cst store`
        `if x = b ∧ mo = 5 then some { s with bottom := x, pc := upd s.pc t (.popStored b g) } else none`
    and event `.ldTop t x mo` at pc `.popStored b g`:
        `if x = s.top ∧ mo = 5 then …`
    (`mo` is the memory order argument of the `__tsan_atomic64_store/load` call the compiler
    emitted for that site, TSan numbering, 5 = seq_cst).  A log in which pop_bottom's store is
    weaker than seq_cst is a DIVERGENCE of C02's correspondence check.  Theorems
    `Wsd.popStored_only_by_seq_cst_store` and `Wsd.popStored_left_only_by_seq_cst_load` below:
    the SC model enters and leaves pop_bottom's window only through these two `mo5` events —
    exactly the pair (`stBottom` at `popGotB`, `ldTop` at `popStored`) between which
    `WsdTso.step` demands a drained buffer when `fenced = true`.  On x86-64 a seq_cst store is
    `xchg` (or `mov; mfence`): it does not complete before the store buffer has drained.

  * `Model/Hp.lean`, `ofRaw`:   `| "fence", ["1"] => some (.fence t)`
    (`rt/shim.h`: `#define store_load_barrier() (vr_fence(1), store_load_barrier())`, kind 2 is
    `write_barrier()`, a compiler-only barrier, kind 3 `load_load_barrier()`; neither decodes),
    `stepFence`:                 `| .acqPublished g sl p => some (setPc s t (.acqFenced g sl p))`
    `stepLdG`, validating load:  `| .acqFenced g' sl p => if g = g' ∧ v = s.g g then if v = p then … (.acqValidated sl p)`
    Theorems `Hp.acqFenced_only_by_fence` and `Hp.validated_only_after_fence` below: in the SC
    model a protection is validated only by a load that follows a `fence 1` event which follows
    the slot store — the event at which `HpTso.step` demands a drained buffer when
    `fenced = true`.  `store_load_barrier()` is `lock; addq $0,0(%rsp)` in
    include/machine_specific.h: a locked RMW, it drains the store buffer.

  Left in the trusted base (DESIGN.md §3): that the x86-64 code generated for a seq_cst store
  / for the body of `store_load_barrier()` really drains the store buffer, and that x86-TSO is
  the store-buffer machine of `Model/Tso.lean`.
-/
import LibfiberVerif.Proof.WsdTso
import LibfiberVerif.Proof.HpTso
import LibfiberVerif.Model.Hp

/-! # ===================== (a) the deque: pop_bottom's seq_cst store ===================== -/

namespace LibfiberVerif.WsdTso
open LibfiberVerif.Tso
open LibfiberVerif.Wsd (Res)

/-- **exactly once, on TSO with the seq_cst store.**  Same statement as `Wsd.exactly_once`
    (Props/C02.lean), over every accepted trace of the store-buffer model with `fenced = true`:
    as multisets  pushed = returned ⊎ owed ⊎ logical  where
    * `pushed`   values whose `push_bottom` has ISSUED `bottom := b + 1` (it may still sit in the
                 owner's store buffer, invisible to every thief),
    * `returned` values `pop_bottom` / `steal` calls have handed back,
    * `owed`     one entry per thread that has won a value and is on its way to the `return`,
    * `logical`  the values of indices `[top, hb)`; `hb` is the owner's view of `bottom`
                 except inside pop_bottom's window.
    Nothing is dropped, nothing is handed to two takers, nothing is invented — although every
    thief decides on a possibly stale `bottom` and reads possibly stale slots. -/
theorem exactly_once_fenced {n : Nat} {es : List Ev} {s : St} (h : (sys true n).run es = some s) :
    s.pushed.Perm (s.returned ++ s.owed.map Prod.snd ++ logical s)
    ∧ s.owed.Nodup
    ∧ (∀ u x, (u, x) ∈ s.owed ↔ holds s u = some x) := by
  obtain ⟨hI, hA⟩ := inv_acc_of_run h
  refine ⟨?_, hA.nodup, hA.mem⟩
  exact hI.perm.trans (List.Perm.append_right _ hA.perm)

/-- per value: handed back at most as often as it was pushed -/
theorem returned_le_pushed_fenced {n : Nat} {es : List Ev} {s : St}
    (h : (sys true n).run es = some s) (x : Int) : s.returned.count x ≤ s.pushed.count x := by
  obtain ⟨hp, -, -⟩ := exactly_once_fenced h
  rw [hp.count_eq x, List.count_append, List.count_append]
  omega

/-- **no double take**: if the pushed values are distinct, no value is held or has been
    returned twice — owner pop (with or without CAS) and thief steal never both succeed on the
    same element. -/
theorem no_double_take_fenced {n : Nat} {es : List Ev} {s : St} (h : (sys true n).run es = some s)
    (hd : s.pushed.Nodup) : (s.returned ++ s.owed.map Prod.snd).Nodup := by
  obtain ⟨hp, -, -⟩ := exactly_once_fenced h
  have := (hp.nodup_iff).mp hd
  exact (List.nodup_append.mp this).1

/-- **what the fence buys**: whenever the owner is past pop_bottom's load of `top`, its store
    buffer is EMPTY and memory `bottom` — what every thief reads — is the lowered value `b`;
    so the `top` it compared with is one no thief can move beyond `b`. -/
theorem pop_decides_on_drained_buffer {n : Nat} {es : List Ev} {s : St}
    (h : (sys true n).run es = some s) {b t : Int} (hpc : s.pc 0 = .popTake b t) :
    s.m.buf 0 = [] ∧ s.m.mem cBot = b ∧ t ≤ s.m.mem cTop ∧ s.m.mem cTop ≤ s.hb ∧
    ((t < b ∧ s.hb = b) ∨ (t = b ∧ s.hb = b + 1)) := by
  have hI := (inv_acc_of_run h).1
  have ho := hI.owner; rw [hpc] at ho; simp only [ownerOk] at ho
  obtain ⟨a, b', c, -, e⟩ := ho
  refine ⟨a, b', c, hI.tle, ?_⟩
  rcases e with e | e
  · exact Or.inl ⟨e.1, e.2.1⟩
  · exact Or.inr e

/-- **the key lemma**: once the owner has decided to take index `b` WITHOUT a CAS (`t < b`), a
    thief whose CAS on `top` can still succeed is at an index strictly below `b` — it cannot
    take the owner's element — and the value it read (from a possibly stale slot, after a
    possibly stale `bottom`) is the value of its own index. -/
theorem owner_take_excludes_thief {n : Nat} {es : List Ev} {s : St}
    (h : (sys true n).run es = some s) {b t : Int} (hpc : s.pc 0 = .popTake b t) (hlt : t < b)
    {u : Nat} {t' x : Int} (hu : s.pc u = .stealRead t' x) (hT : s.m.mem cTop = t') :
    t' < b ∧ x = s.vals t' := by
  have hI := (inv_acc_of_run h).1
  have hu0 : u ≠ 0 := by intro h0; subst h0; rw [hpc] at hu; cases hu
  have ht := hI.thief u hu0; rw [hu] at ht; simp only [thiefOk] at ht
  obtain ⟨a, b', -⟩ := ht.2 hT
  obtain ⟨-, -, -, -, e⟩ := pop_decides_on_drained_buffer h hpc
  rcases e with e | e
  · exact ⟨by omega, b'⟩
  · omega

/-- **stale reads are harmless**: a thief that has read `x` for index `t` and whose CAS can
    still succeed (`top = t`) has read the head of the logical contents, whatever was still
    buffered when it loaded `bottom` and the slot; and no store to that slot is pending. -/
theorem stale_reads_harmless {n : Nat} {es : List Ev} {s : St}
    (h : (sys true n).run es = some s) {u : Nat} {t x : Int} (hu : s.pc u = .stealRead t x)
    (hT : s.m.mem cTop = t) :
    t < s.hb ∧ x = s.vals t ∧ (∃ rest, logical s = x :: rest) ∧
    ∀ e ∈ s.m.buf 0, e.1 ≠ cSlot s.n t := by
  have hI := (inv_acc_of_run h).1
  have hu0 : u ≠ 0 := tid_ne_zero hI hu (by simp [ownerOk])
  have ht := hI.thief u hu0; rw [hu] at ht; simp only [thiefOk] at ht
  obtain ⟨a, b, c⟩ := ht.2 hT
  refine ⟨a, b, ⟨Wsd.seg s.vals (t + 1) (s.hb - (t + 1)).toNat, ?_⟩, c⟩
  rw [logical, hT, seg_head _ _ _ a, ← b]

/-- only the owner ever has buffered stores -/
theorem thieves_never_buffer {n : Nat} {es : List Ev} {s : St}
    (h : (sys true n).run es = some s) {u : Nat} (hu : u ≠ 0) : s.m.buf u = [] :=
  (inv_acc_of_run h).1.bufs u hu

/-! ### the unfenced variant: a concrete double take -/

/-- Two elements (7 at index 0, 8 at index 1), both published and drained.  The owner's
    pop_bottom issues `bottom := 1` — it stays in the store buffer — and loads `top = 0`:
    `t = 0 < b = 1`, so it takes index 1 (value 8) WITHOUT a CAS.  Thief 1 loads `top = 0` and
    the STALE `bottom = 2`, steals 7.  Thief 2 loads `top = 1` and the still stale
    `bottom = 2`, reads slot 1 and its CAS `1 → 2` succeeds: it steals 8 as well.  Only then
    does the owner's store drain. -/
def doubleTakeTrace : List Ev := [
  .callPush 0 7, .ldBottom 0 0, .ldTop 0 0, .wrSlot 0 0 7, .stBottom 0 1, .retPush 0,
  .callPush 0 8, .ldBottom 0 1, .ldTop 0 0, .wrSlot 0 1 8, .stBottom 0 2, .retPush 0,
  .flush 0, .flush 0, .flush 0, .flush 0,
  .callPop 0, .ldBottom 0 2, .stBottom 0 1,
  .ldTop 0 0,                                   -- overtakes the buffered store
  .rdSlot 0 1 8,
  .callSteal 1, .ldTop 1 0, .ldBottom 1 2, .rdSlot 1 0 7, .casTop 1 0 0 1 true, .retSteal 1 7,
  .callSteal 2, .ldTop 2 1, .ldBottom 2 2, .rdSlot 2 1 8, .casTop 2 1 1 2 true, .retSteal 2 8,
  .retPop 0 8,
  .flush 0]

/-- **without the seq_cst store the deque hands one element to two takers**: the trace above is
    accepted by the `fenced = false` model and ends with every thread idle, `8` pushed once and
    returned twice (by pop_bottom and by steal). -/
theorem double_take_unfenced : ∃ s, (sys false 4).run doubleTakeTrace = some s ∧
    s.pushed = [7, 8] ∧ s.returned = [7, 8, 8] ∧ s.returned.count 8 = 2 ∧ s.pushed.count 8 = 1 ∧
    s.pc 0 = .idle ∧ s.pc 1 = .idle ∧ s.pc 2 = .idle ∧ s.m.buf 0 = [] :=
  ⟨_, rfl, by decide, by decide, by decide, by decide, by decide, by decide, by decide, by decide⟩

/-- the moment of the damage: the owner holds 8 (taken without CAS) while its `bottom := 1`
    is still buffered and memory `bottom` is 2 -/
example : ((sys false 4).run (doubleTakeTrace.take 21)).map
    (fun s => (s.pc 0, s.m.buf 0, s.m.mem cBot, s.m.load 0 cBot, s.m.mem cTop))
    = some (.popDone (.val 8), [(cBot, 1)], 2, 1, 0) := by decide

/-- the same trace is NOT a trace of the fenced model: the load of `top` is refused while the
    store is buffered … -/
example : (sys true 4).run (doubleTakeTrace.take 19) ≠ none ∧
    (sys true 4).run (doubleTakeTrace.take 20) = none := by decide

/-- … and so `returned_le_pushed_fenced` fails for it only because `fenced = false` -/
example : ¬ ∀ s, (sys false 4).run doubleTakeTrace = some s → s.returned.count 8 ≤ s.pushed.count 8 := by
  obtain ⟨s, hs, -, -, h1, h2, -⟩ := double_take_unfenced
  intro h; have := h s hs; omega

/-- why the counter-example needs TWO elements: with a single element the owner's path goes
    through the CAS on `top` (a locked RMW, it drains the buffer first), which arbitrates even
    without the fence — the thief that saw the stale `bottom = 1` wins, the owner gets ABORT -/
example : ∃ s, (sys false 4).run [
    .callPush 0 7, .ldBottom 0 0, .ldTop 0 0, .wrSlot 0 0 7, .stBottom 0 1, .retPush 0,
    .flush 0, .flush 0,
    .callPop 0, .ldBottom 0 1, .stBottom 0 0, .ldTop 0 0, .rdSlot 0 0 7,
    .callSteal 1, .ldTop 1 0, .ldBottom 1 1, .rdSlot 1 0 7, .casTop 1 0 0 1 true, .retSteal 1 7,
    .flush 0, .casTop 0 1 0 1 false, .stBottom 0 1, .retPop 0 (-2)] = some s ∧
    s.pushed = [7] ∧ s.returned = [7] :=
  ⟨_, rfl, by decide, by decide⟩

/-! ### non-vacuity of the fenced theorems: buffered stores and flushes interleaved -/

/-- push 7 with both stores buffered: a thief sees the stale `bottom = 0` and gets EMPTY;
    push 8 (the owner's own load of `bottom` is forwarded from its buffer: 1);
    two flushes make 7 stealable while 8 is still invisible; a thief commits to index 0;
    the owner's pop_bottom queues `bottom := 1` behind the rest, must wait for three flushes
    before it may load `top`, then takes 8 without a CAS while the thief's CAS takes 7. -/
def fencedTrace : List Ev := [
  .callPush 0 7, .ldBottom 0 0, .ldTop 0 0, .wrSlot 0 0 7, .stBottom 0 1,
  .callSteal 1, .ldTop 1 0, .ldBottom 1 0, .retSteal 1 (-1),
  .retPush 0,
  .callPush 0 8, .ldBottom 0 1, .ldTop 0 0, .wrSlot 0 1 8, .stBottom 0 2, .retPush 0,
  .flush 0, .flush 0,
  .callSteal 1, .ldTop 1 0, .ldBottom 1 1, .rdSlot 1 0 7,
  .callPop 0, .ldBottom 0 2, .stBottom 0 1,
  .flush 0, .flush 0, .flush 0,
  .ldTop 0 0,
  .casTop 1 0 0 1 true,
  .rdSlot 0 1 8, .retPop 0 8, .retSteal 1 7]

example : ∃ s, (sys true 4).run fencedTrace = some s ∧
    s.pushed = [7, 8] ∧ s.returned = [8, 7] ∧ s.owed = [] ∧ logical s = [] ∧
    s.m.mem cTop = 1 ∧ s.m.mem cBot = 1 ∧ s.m.buf 0 = [] :=
  ⟨_, rfl, by decide, by decide, by decide, by decide, by decide, by decide, by decide⟩

/-- after event 16: four stores buffered; the thieves' `bottom` is 0, the owner's is 2 -/
example : ((sys true 4).run (fencedTrace.take 16)).map
    (fun s => (s.m.buf 0, s.m.mem cBot, s.m.load 0 cBot, s.pushed, logical s))
    = some ([(cSlot 4 0, 7), (cBot, 1), (cSlot 4 1, 8), (cBot, 2)], 0, 2, [7, 8], [7, 8]) := by decide

/-- after event 25 the lowering store is queued behind slot 1 / `bottom := 2`; loading `top`
    now is refused, and is accepted after the three flushes (hypothesis of
    `pop_decides_on_drained_buffer` / `owner_take_excludes_thief` at event 29, with the thief
    at `stealRead 0 7` and `top = 0`) -/
example : ((sys true 4).run (fencedTrace.take 25)).map (fun s => (s.pc 0, s.m.buf 0))
      = some (.popStored 1, [(cSlot 4 1, 8), (cBot, 2), (cBot, 1)]) ∧
    (sys true 4).run (fencedTrace.take 25 ++ [.ldTop 0 0]) = none ∧
    ((sys true 4).run (fencedTrace.take 29)).map
      (fun s => (s.pc 0, s.pc 1, s.m.buf 0, s.m.mem cBot, s.m.mem cTop, s.owed))
      = some (.popTake 1 0, .stealRead 0 7, [], 1, 0, [(0, 8)]) := ⟨by rfl, by decide, by rfl⟩

end LibfiberVerif.WsdTso

/-! ### the SC model of C02 admits pop_bottom's window only through the two seq_cst accesses -/

namespace LibfiberVerif.Wsd

/-- In `Model/Wsd.lean` — the model every C02 log is replayed through — the owner reaches
    `popStored` (pop_bottom between its store to `bottom` and its load of `top`) only by a
    store to `bottom` whose logged memory order is 5 = seq_cst. -/
theorem popStored_only_by_seq_cst_store {s s' : St} {e : Ev} {t : Nat} {b : Int} {g : Nat}
    (h : step s e = some s') (hpc' : s'.pc t = .popStored b g) (hpc : s.pc t ≠ .popStored b g) :
    e = .stBottom t b 5 ∧ s.pc t = .popGotArr b g := by
  cases e <;> simp only [step] at h <;> (repeat' split at h) <;> simp at h <;> subst h <;>
    simp [upd] at hpc' <;> grind

/-- … and leaves it only by a load of `top` whose logged memory order is seq_cst. -/
theorem popStored_left_only_by_seq_cst_load {s s' : St} {e : Ev} {t : Nat} {b : Int} {g : Nat}
    (h : step s e = some s') (hpc : s.pc t = .popStored b g) (hpc' : s'.pc t ≠ .popStored b g) :
    ∃ x, e = .ldTop t x 5 ∧ x = s.top := by
  cases e <;> simp only [step] at h <;> (repeat' split at h) <;> simp at h <;> subst h <;>
    simp [upd] at hpc' <;> grind

/-- the statement asked for: pop_bottom's store is accepted only with `mo = seq_cst` -/
theorem pop_bottom_store_is_seq_cst {s s' : St} {t : Nat} {x : Int} {m : Nat} {b : Int} {g : Nat}
    (h : step s (.stBottom t x m) = some s') (hpc : s.pc t = .popGotArr b g) : m = 5 ∧ x = b := by
  simp only [step, hpc] at h
  split at h
  · next hc => exact ⟨hc.2, hc.1⟩
  · cases h

end LibfiberVerif.Wsd

/-! # ============ (b) hazard pointers: `store_load_barrier()` in `hazard_pointer_using` ============ -/

namespace LibfiberVerif.HpTso
open LibfiberVerif.Tso

/-- **no reclaim of a validated node, on TSO with the barrier.**  When a scan hands node `n` to
    reclamation, no reader that validated `n` is still using it — for any number of threads,
    any interleaving, arbitrary `flush` events. -/
theorem no_reclaim_validated_fenced {N : Nat} {es : List Ev} {s s' : St} {w : Nat} {n : Int}
    (h : (sys true N).run es = some s) (hs : step s (.reclaim w n) = some s') :
    ∀ t, s.pc t ≠ .using n := by
  have hI := inv_of_run h
  intro t ht
  simp only [step] at hs
  split at hs <;> try (simp at hs; done)
  next old j f hpc =>
  split at hs <;> simp at hs
  rename_i hc
  obtain ⟨rfl, rfl, rfl⟩ := hc
  have hu := hI.pcs t; rw [ht] at hu; simp only [pcOk] at hu
  have := hI.scan_ok t n w s.N false ht hpc hu.2.1
  cases this

/-- the same as a state invariant: a node in use by a validated reader is never `free`
    (reclaimed); moreover the reader's slot store is IN MEMORY (its buffer is empty) for as long
    as it uses the node — that is what the barrier buys. -/
theorem validated_not_reclaimed_fenced {N : Nat} {es : List Ev} {s : St} {t : Nat} {p : Int}
    (h : (sys true N).run es = some s) (hu : s.pc t = .using p) :
    p ≠ 0 ∧ s.ns p ≠ .free ∧ s.m.buf t = [] ∧ s.m.mem (cSlot t) = p := by
  have := (inv_of_run h).pcs t; rw [hu] at this; simp only [pcOk] at this
  exact ⟨this.1, this.2.2.2.2, this.2.2.1, this.2.2.2.1⟩

/-- every dereference (`use`) is of a node that has not been reclaimed -/
theorem use_not_reclaimed_fenced {N : Nat} {es : List Ev} {s s' : St} {t : Nat} {p : Int}
    (h : (sys true N).run es = some s) (hs : step s (.use t p) = some s') : s.ns p ≠ .free := by
  simp only [step] at hs
  split at hs <;> try (simp at hs; done)
  next q hpc =>
  split at hs <;> simp at hs
  rename_i hpq; subst hpq
  exact (validated_not_reclaimed_fenced h hpc).2.1

/-- a scan that has passed the slot of a validated reader of its node has found it there -/
theorem scan_finds_validated_fenced {N : Nat} {es : List Ev} {s : St} {t w i : Nat} {p : Int}
    {f : Bool} (h : (sys true N).run es = some s) (hu : s.pc t = .using p)
    (hw : s.pc w = .wScan p i f) (hlt : t < i) : f = true :=
  (inv_of_run h).scan_ok t p w i f hu hw hlt

/-! ### the unfenced variant: a node reclaimed while in use -/

/-- Writer 1 installs node 5.  Reader 0 loads `G = 5`, issues `hp[0] = 5` — it stays in the
    store buffer —, passes the compiler-only barrier, re-loads `G = 5`: validated.  Writer 1
    unlinks 5 (`xchg G := 6`), scans: `hp[0]` in MEMORY is still 0, `hp[1] = 0`: not found,
    reclaims 5.  Reader 0 dereferences 5. -/
def reclaimInUseTrace : List Ev := [
  .xchgG 1 0 5,
  .callAcq 0, .ldG 0 5, .stSlot 0 5, .fence 0, .ldG 0 5,
  .xchgG 1 5 6, .ldSlot 1 0 0, .ldSlot 1 1 0, .reclaim 1 5,
  .use 0 5]

/-- **without a real store→load barrier a node is reclaimed while a validated reader uses it**:
    the trace above is accepted by the `fenced = false` model; at the end reader 0 is using
    node 5, node 5 has been reclaimed, and the reader's slot store is still in its buffer. -/
theorem reclaim_in_use_unfenced : ∃ s, (sys false 2).run reclaimInUseTrace = some s ∧
    s.pc 0 = .using 5 ∧ s.ns 5 = .free ∧ s.m.buf 0 = [(cSlot 0, 5)] ∧ s.m.mem (cSlot 0) = 0 :=
  ⟨_, rfl, by decide, by decide, by decide, by decide⟩

/-- the reclaim step itself happens while the reader is in `using 5` -/
example : ((sys false 2).run (reclaimInUseTrace.take 9)).map (fun s => (s.pc 0, s.pc 1))
      = some (.using 5, .wScan 5 2 false) ∧
    ((sys false 2).run (reclaimInUseTrace.take 10)).isSome = true := by decide

/-- the same trace is NOT a trace of the fenced model: the barrier is refused while the slot
    store is buffered -/
example : (sys true 2).run (reclaimInUseTrace.take 4) ≠ none ∧
    (sys true 2).run (reclaimInUseTrace.take 5) = none := by decide

/-! ### non-vacuity of the fenced theorems -/

/-- reader 0 publishes 5 (buffered); the writer unlinks 5 and scans slot 0 BEFORE the flush
    (reads 0); the flush and the barrier follow, the validating load finds 6 ≠ 5: retry — the
    writer reclaims 5, nobody validated it.  The reader then publishes 6, flush, barrier,
    validates and uses 6; the writer unlinks 6, finds it in slot 0, keeps it; the reader
    releases (buffered), the next scan still finds 6 in memory, keeps it; after the flush a third
    scan reclaims 6. -/
def fencedTrace : List Ev := [
  .xchgG 1 0 5,
  .callAcq 0, .ldG 0 5, .stSlot 0 5, .xchgG 1 5 6, .ldSlot 1 0 0, .flush 0, .fence 0, .ldG 0 6,
  .ldSlot 1 1 0, .reclaim 1 5,
  .ldG 0 6, .stSlot 0 6, .flush 0, .fence 0, .ldG 0 6, .use 0 6,
  .xchgG 1 6 0, .ldSlot 1 0 6, .ldSlot 1 1 0, .keep 1 6,
  .release 0, .ldSlot 1 0 6, .flush 0, .ldSlot 1 1 0, .keep 1 6,
  .ldSlot 1 0 0, .ldSlot 1 1 0, .reclaim 1 6]

example : ∃ s, (sys true 2).run fencedTrace = some s ∧ s.ns 5 = .free ∧ s.ns 6 = .free ∧
    s.pc 0 = .idle ∧ s.pc 1 = .idle :=
  ⟨_, rfl, by decide, by decide, by decide, by decide⟩

/-- hypotheses of `validated_not_reclaimed_fenced` / `scan_finds_validated_fenced`: after event
    19 reader 0 uses node 6 (retired by writer 1), whose scan has passed slot 0 and found it -/
example : ((sys true 2).run (fencedTrace.take 19)).map
    (fun s => (s.pc 0, s.pc 1, decide (s.ns 6 = .retired 1), s.m.buf 0, s.m.mem (cSlot 0)))
    = some (.using 6, .wScan 6 1 true, true, [], 6) := by rfl

/-- a buffered slot store with the writer racing past it (after event 6), and the fence refused
    until the flush -/
example : ((sys true 2).run (fencedTrace.take 6)).map (fun s => (s.pc 0, s.pc 1, s.m.buf 0))
      = some (.rdPublished 5, .wScan 5 1 false, [(cSlot 0, 5)]) ∧
    (sys true 2).run (fencedTrace.take 6 ++ [.fence 0]) = none := by decide

end LibfiberVerif.HpTso

/-! ### the SC model of C14 validates a protection only after a `fence 1` event -/

namespace LibfiberVerif.Hp

/-- In `Model/Hp.lean` — the model every C14 log is replayed through — a thread reaches
    `acqFenced` (between `hazard_pointer_using` and the validating re-load) only by the logged
    `fence 1` event (`store_load_barrier()`), and only right after its slot store. -/
theorem acqFenced_only_by_fence {s s' : St} {e : Ev} {t g sl p : Nat}
    (h : step s e = some s') (hpc' : s'.pc t = .acqFenced g sl p)
    (hpc : s.pc t ≠ .acqFenced g sl p) : e = .fence t ∧ s.pc t = .acqPublished g sl p := by
  cases e <;> simp only [step, stepCallJoin, stepRetJoin, stepLdHead, stepCasHead,
    stepWrNext, stepRdNext, stepStThr, stepLdThr, stepFaddThr, stepRdRc, stepWrRc,
    stepRdHp, stepWrHp, stepFence, stepLdG, stepXchgG, stepCallAcq, stepValidated,
    stepUse, stepRetAcq, stepCallRel, stepRetRel, stepCallX, stepAlloc,
    stepCallRetire, stepRetRetire, stepRcNote, stepRetX, stepCallScan, stepRetScan,
    stepReclaim, setPc] at h <;>
    (repeat' split at h) <;> simp at h <;> (try subst h) <;> (try simp [upd] at hpc') <;> grind

/-- … and a protection is validated (`acqValidated`, where the ghost `prot` is set) only by a
    load of `G` issued from `acqFenced`, i.e. after that fence. -/
theorem validated_only_after_fence {s s' : St} {e : Ev} {t sl p : Nat}
    (h : step s e = some s') (hpc' : s'.pc t = .acqValidated sl p)
    (hpc : s.pc t ≠ .acqValidated sl p) : ∃ g, e = .ldG t g p ∧ s.pc t = .acqFenced g sl p := by
  cases e <;> simp only [step, stepCallJoin, stepRetJoin, stepLdHead, stepCasHead,
    stepWrNext, stepRdNext, stepStThr, stepLdThr, stepFaddThr, stepRdRc, stepWrRc,
    stepRdHp, stepWrHp, stepFence, stepLdG, stepXchgG, stepCallAcq, stepValidated,
    stepUse, stepRetAcq, stepCallRel, stepRetRel, stepCallX, stepAlloc,
    stepCallRetire, stepRetRetire, stepRcNote, stepRetX, stepCallScan, stepRetScan,
    stepReclaim, setPc] at h <;>
    (repeat' split at h) <;> simp at h <;> (try subst h) <;> (try simp [upd] at hpc') <;> grind

end LibfiberVerif.Hp
