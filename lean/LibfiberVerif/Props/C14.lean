/-
  Props/C14.lean — property C14: hazard pointers (include/hazard_pointer.h, src/hazard_pointer.c).

  "A node retired through the hazard-pointer API is not handed to its reclamation callback while
   any thread holds a hazard pointer to it that was published and validated before the
   retirement, and no structure built on it dereferences a reclaimed node.  Once unprotected,
   every retired node is reclaimed after a bounded number of further retirements by the same
   thread, for any number of participating threads joining at any time."

  All theorems are about `Hp.sys K` (Model/Hp.lean): ANY number of threads/records (`Nat`-indexed),
  any `K ≥ 1`, any interleaving of the modelled shared accesses (records joining concurrently with
  scans included), any pattern of node addresses, unbounded runs.  `run es = some s` = "the event
  list `es` is accepted by the model"; the correspondence runs (tools/specs_c14.py) check that the
  event logs of the real code are such lists.

  Reading guide
  * `s.prot u j = n ≠ 0`  — thread `u` holds a VALIDATED protection of node `n` in slot `j`: it
    stored `n` in the slot, executed the fence, and re-read the global cell and found `n` again;
    `protection_only_of_unretired` says this can only be established while `n` is still in a global
    cell (hence before its retirement), `protection_held_until_overwrite` that it lasts until `u`
    itself overwrites the slot.
  * `.reclaim t n`        — `gc_function(n)` is called by the scan of thread `t`.
  Nothing in C14 was found to be false of the code: there is no `_partial` theorem here.
-/
import LibfiberVerif.Proof.HpBound

namespace LibfiberVerif.Hp

/-! ### binary search over sorted pointers -/

/-- `binary_search` on a sorted array — any length including 0, any address pattern, duplicates
    allowed — answers exactly membership. -/
theorem binary_search_correct (hay : List Nat) (needle : Nat) (hs : hay.Pairwise (· ≤ ·)) :
    binarySearch hay needle = true ↔ needle ∈ hay :=
  binarySearch_iff hs needle

/-- the iteration bound that makes the model's loop structurally recursive never bites: with any
    two bounds larger than the window the loop gives the same answer, sorted haystack or not -/
theorem binary_search_fuel_irrelevant (hay : List Nat) (needle f f' : Nat) (start end_ : Int)
    (h : (end_ - start + 1).toNat < f) (h' : (end_ - start + 1).toNat < f') :
    bsLoop hay needle f start end_ = bsLoop hay needle f' start end_ :=
  bsLoop_fuel hay needle f f' start end_ h h'

/-- what the model assumes of `qsort`: a sorted list with the same members and the same length -/
theorem sort_spec (pl : List Nat) :
    (isort pl).Pairwise (· ≤ ·) ∧ (∀ n, n ∈ isort pl ↔ n ∈ pl) ∧ (isort pl).length = pl.length :=
  ⟨sorted_isort pl, fun _ => mem_isort, length_isort pl⟩

/-! ### the scan covers every registered record and never overflows `plist` -/

/-- The `head` a scan reads gives access to EVERY record registered so far. -/
theorem scan_reads_whole_list {k : Nat} {es : List Ev} {s s' : St} {t v : Nat} {c : Bool}
    (hrun : (sys k).run es = some s) (hpc : s.pc t = .scanStart c)
    (hs : step s (.ldHead t v) = some s') :
    v ≠ 0 ∧ s'.pc t = .scanHead c v ∧ chain s v = s.recs := by
  have h1 := (inv12_of_run hrun).1
  simp only [step, stepLdHead, hpc] at hs
  split at hs
  · next hv =>
    simp only [Option.some.injEq] at hs; subst hs
    obtain ⟨rfl, h0⟩ := hv
    exact ⟨h0, by simp [setPc], h1.hd.symm⟩
  · cases hs

/-- The list reachable from a record pointer never changes afterwards (records are only pushed in
    front of the head and `next` of a pushed record is never written), and records are never
    removed — whatever the other threads, joiners included, do. -/
theorem reachable_list_immutable {k : Nat} {es : List Ev} {s s' : St} {e : Ev} {q : Nat}
    (hrun : (sys k).run es = some s) (hs : step s e = some s') (hq : ptrOk s q) :
    chain s' q = chain s q ∧ ptrOk s' q ∧ ∀ w ∈ s.recs, w ∈ s'.recs := by
  have f := frame3_step (inv12_of_run hrun).1 hs
  exact ⟨f.chain q hq, f.ptrOk hq, f.recs⟩

/-- **scan_covers.**  While a scan walks (`h` = the head it read, `cur` = its cursor, `i` = next
    slot, `pl` = plist so far, `walked` = records completely read):
    * the records already read followed by those still ahead are exactly the list reachable from
      `h` — so when the walk ends (`cur = 0`) every record registered before the head read has
      been traversed, however many records joined meanwhile;
    * `index = pl.length ≤ max_pointers = cap`: `plist` never overflows, although the capacity
      was computed from ONE read of `head->retire_threshold` and records keep joining;
    * every validated protection of a node retired by the scanner is already in `pl` or belongs
      to a slot the walk has not reached yet. -/
theorem scan_covers {k : Nat} (hk : 0 < k) {es : List Ev} {s : St} {t h cap cur i : Nat} {c : Bool}
    {pl walked : List Nat} (hrun : (sys k).run es = some s)
    (hpc : s.pc t = .scanWalk c h cap cur i pl walked) :
    walked.reverse ++ chain s cur = chain s h ∧
    (cur = 0 → walked.reverse = chain s h) ∧
    pl.length ≤ cap ∧
    (∀ u j n, s.prot u j = n → n ≠ 0 → n ∈ s.rlist t →
      n ∈ pl ∨ (cur ≠ 0 ∧ (u ∈ s.older (cur - 1) ∨ (u = cur - 1 ∧ i ≤ j)))) := by
  obtain ⟨_, h2, h3⟩ := inv_of_run hk hrun
  have hl := h3.loc t
  rw [hpc] at hl
  obtain ⟨a1, a2, a3, a4, a5, a6, a7, a8⟩ := hl.scan
  obtain ⟨_, hik, hcov⟩ := h2.pcok_at hpc
  refine ⟨a4, ?_, ?_, hcov⟩
  · intro e; subst e; simpa [chain] using a4
  · have hlen : (chain s h).length = walked.length + (chain s cur).length := by
      rw [← a4]; simp
    by_cases e : cur = 0
    · have := a7 e
      have h0 : (chain s cur).length = 0 := by simp [chain, e]
      rw [hlen, h0, Nat.add_zero] at a5
      omega
    · have h1' : 1 ≤ (chain s cur).length := by simp [chain, e]
      have : s.k * (walked.length + 1) ≤ s.k * (chain s h).length :=
        Nat.mul_le_mul_left _ (by omega)
      rw [Nat.mul_add, Nat.mul_one] at this
      omega

/-! ### nothing is reclaimed while protected -/

/-- A validated protection is established only by the validating re-read, on a slot that holds the
    node, and only while the node is still in a global cell — i.e. BEFORE its retirement. -/
theorem protection_only_of_unretired {k : Nat} {es : List Ev} {s s' : St} {e : Ev} {u j n : Nat}
    (hrun : (sys k).run es = some s) (hs : step s e = some s')
    (hnew : s'.prot u j = n) (hn : n ≠ 0) (hold : s.prot u j ≠ n) :
    (∃ g, e = .ldG u g n ∧ s.g g = n) ∧ s.ns n = .inG ∧ s.hp u j = n := by
  have h2 := (inv12_of_run hrun).2
  rcases prot_step hs u j with h | ⟨v, _, h⟩ | ⟨g, he, hg, g', hpc⟩
  · rw [hnew] at h; exact absurd h.symm hold
  · rw [hnew] at h; exact absurd h hn
  · rw [hnew] at he hg hpc
    refine ⟨⟨g, he, hg⟩, ?_, (h2.pcok_at hpc).2.2.1⟩
    rw [← hg]; exact h2.g_in g (by rw [hg]; exact hn)

/-- … and it is held until the owner itself overwrites that slot (`done_using` / `using`):
    no step of another thread, no scan and no join ends it. -/
theorem protection_held_until_overwrite {k : Nat} {es : List Ev} {s s' : St} {e : Ev} {u j n : Nat}
    (hrun : (sys k).run es = some s) (hs : step s e = some s') (hp : s.prot u j = n) (hn : n ≠ 0) :
    s'.prot u j = n ∨ ∃ v, e = .wrHp u u j v := by
  have h2 := (inv12_of_run hrun).2
  rcases prot_step hs u j with h | ⟨v, he, _⟩ | ⟨g, he, hg, g', hpc⟩
  · left; rw [h, hp]
  · exact Or.inr ⟨v, he⟩
  · -- a validating load on this slot happens only after the slot was overwritten (ghost cleared)
    have := (h2.pcok_at hpc).2.2.2
    rw [hp] at this; exact absurd this hn

/-- **no_reclaim_protected.**  When the scan of thread `t` hands node `n` to its reclamation
    callback, NO thread holds a validated protection of `n` — for any number of records, records
    joining during the scan, any `K`, any interleaving. -/
theorem no_reclaim_protected {k : Nat} {es : List Ev} {s s' : St} {t n : Nat}
    (hrun : (sys k).run es = some s) (hs : step s (.reclaim t n) = some s') :
    n ≠ 0 ∧ s.ns n = .retired t ∧ ∀ u j, s.prot u j ≠ n := by
  have h2 := (inv12_of_run hrun).2
  simp only [step] at hs
  unfold stepReclaim at hs
  split at hs
  case h_2 => cases hs
  next c sp m todo hpc =>
  split at hs
  case isFalse => cases hs
  next hv =>
  obtain ⟨rfl, hbs⟩ := hv
  have hl := h2.loc_at hpc
  obtain ⟨hn0, hnr⟩ := hl.rl n (by simp [Pc.todo])
  refine ⟨hn0, hnr, ?_⟩
  intro u j hp
  have : binarySearch sp n = true := hl.pcok u j n hp hn0 (by simp)
  rw [hbs] at this; cases this

/-- The client never touches a reclaimed node: every `use` (the harness's stand-in for a
    dereference by a structure built on hazard pointers) is of a node that is not free — it is
    still in a global cell, or unlinked, or retired and not yet reclaimed. -/
theorem use_not_reclaimed {k : Nat} {es : List Ev} {s s' : St} {t sl n : Nat}
    (hrun : (sys k).run es = some s) (hs : step s (.use t sl n) = some s') :
    n ≠ 0 ∧ s.prot t sl = n ∧ s.ns n ≠ .free := by
  have h2 := (inv12_of_run hrun).2
  simp only [step] at hs
  unfold stepUse at hs
  have key : ∀ p, p ≠ 0 → s.prot t sl = p → s.ns p ≠ .free := by
    intro p h0 hp hf
    have := ((h2.loc t).prot_ok sl p hp h0).2.2.2
    rw [hf] at this; cases this
  split at hs
  · next sl' p hpc =>
    split at hs
    · next hv =>
      obtain ⟨rfl, rfl⟩ := hv
      obtain ⟨a, b⟩ := h2.pcok_at hpc
      exact ⟨a, b, key n a b⟩
    · cases hs
  · split at hs
    · next hv => exact ⟨hv.1, hv.2, key n hv.1 hv.2⟩
    · cases hs
  · cases hs

/-! ### garbage stays bounded -/

/-- `hazard_pointer_free` scans as soon as `retired_count` has reached the threshold it loads. -/
theorem free_scans_at_threshold {s s' : St} {t r v : Nat} (hpc : s.pc t = .freeInc)
    (hs : step s (.ldThr t r v) = some s') :
    v = s.thr t ∧ (s.thr t ≤ s.rc t → s'.pc t = .scanStart true) ∧
    (s.rc t < s.thr t → s'.pc t = .freeDone) := by
  simp only [step, stepLdThr, hpc] at hs
  split at hs
  · next hv =>
    obtain ⟨rfl, rfl⟩ := hv
    simp only [Option.some.injEq] at hs; subst hs
    refine ⟨rfl, ?_, ?_⟩ <;> intro h <;> simp [setPc] <;> omega
  · cases hs

/-- What the decide phase of a scan does with the next retired node `n`: it is kept only if it
    was found in a hazard slot during THIS scan's walk (`sp` = the sorted snapshot), otherwise it
    is reclaimed right now — these are the only two steps the scanning thread can take. -/
theorem scan_decision {k : Nat} (hk : 0 < k) {es : List Ev} {s s' : St} {t n : Nat} {c : Bool}
    {sp todo : List Nat} {e : Ev} (hrun : (sys k).run es = some s)
    (hpc : s.pc t = .scanDecide c sp (n :: todo)) (hs : step s e = some s') (ht : t = e.tid) :
    (e = .reclaim t n ∧ n ∉ sp) ∨ (∃ v, e = .rdRc t t v ∧ n ∈ sp) := by
  obtain ⟨_, _, h3⟩ := inv_of_run hk hrun
  subst ht
  have hl := h3.loc e.tid
  rw [hpc] at hl
  have hsorted : Sorted sp := hl.scan.1
  cases e with
  | rdRc t r v =>
    have hpc' : s.pc t = _ := hpc
    simp only [step, stepRdRc, hpc'] at hs
    split at hs
    · next hv =>
      obtain ⟨hbs, rfl, _⟩ := hv
      exact Or.inr ⟨v, rfl, (binarySearch_iff hsorted n).mp hbs⟩
    · cases hs
  | reclaim t m =>
    have hpc' : s.pc t = _ := hpc
    simp only [step, stepReclaim, hpc'] at hs
    split at hs
    · next hv =>
      obtain ⟨rfl, hbs⟩ := hv
      refine Or.inl ⟨rfl, ?_⟩
      intro hm
      rw [(binarySearch_iff hsorted m).mpr hm] at hbs; cases hbs
    · cases hs
  | callJoin t => exfalso; have hpc' : s.pc t = _ := hpc; simp only [step, stepCallJoin, hpc'] at hs; try cases hs
  | retJoin t => exfalso; have hpc' : s.pc t = _ := hpc; simp only [step, stepRetJoin, hpc'] at hs; try cases hs
  | ldHead t v => exfalso; have hpc' : s.pc t = _ := hpc; simp only [step, stepLdHead, hpc'] at hs; try cases hs
  | casHead t f e d ok => exfalso; have hpc' : s.pc t = _ := hpc; simp only [step, stepCasHead, hpc'] at hs; try cases hs
  | wrNext t r v => exfalso; have hpc' : s.pc t = _ := hpc; simp only [step, stepWrNext, hpc'] at hs; try cases hs
  | rdNext t r v => exfalso; have hpc' : s.pc t = _ := hpc; simp only [step, stepRdNext, hpc'] at hs; try cases hs
  | stThr t r v => exfalso; have hpc' : s.pc t = _ := hpc; simp only [step, stepStThr, hpc'] at hs; try cases hs
  | ldThr t r v => exfalso; have hpc' : s.pc t = _ := hpc; simp only [step, stepLdThr, hpc'] at hs; try cases hs
  | faddThr t r old op => exfalso; have hpc' : s.pc t = _ := hpc; simp only [step, stepFaddThr, hpc'] at hs; try cases hs
  | wrRc t r v => exfalso; have hpc' : s.pc t = _ := hpc; simp only [step, stepWrRc, hpc'] at hs; try cases hs
  | rdHp t r i v => exfalso; have hpc' : s.pc t = _ := hpc; simp only [step, stepRdHp, hpc'] at hs; try cases hs
  | wrHp t r i v => exfalso; have hpc' : s.pc t = _ := hpc; simp only [step, stepWrHp, hpc'] at hs; try cases hs
  | fence t => exfalso; have hpc' : s.pc t = _ := hpc; simp only [step, stepFence, hpc'] at hs; try cases hs
  | ldG t g v => exfalso; have hpc' : s.pc t = _ := hpc; simp only [step, stepLdG, hpc'] at hs; try cases hs
  | xchgG t g old new => exfalso; have hpc' : s.pc t = _ := hpc; simp only [step, stepXchgG, hpc'] at hs; try cases hs
  | callAcq t g sl => exfalso; have hpc' : s.pc t = _ := hpc; simp only [step, stepCallAcq, hpc'] at hs; try cases hs
  | validated t sl n => exfalso; have hpc' : s.pc t = _ := hpc; simp only [step, stepValidated, hpc'] at hs; try cases hs
  | use t sl n => exfalso; have hpc' : s.pc t = _ := hpc; simp only [step, stepUse, hpc'] at hs; try cases hs
  | retAcq t n => exfalso; have hpc' : s.pc t = _ := hpc; simp only [step, stepRetAcq, hpc'] at hs; try cases hs
  | callRel t sl => exfalso; have hpc' : s.pc t = _ := hpc; simp only [step, stepCallRel, hpc'] at hs; try cases hs
  | retRel t => exfalso; have hpc' : s.pc t = _ := hpc; simp only [step, stepRetRel, hpc'] at hs; try cases hs
  | callX t g => exfalso; have hpc' : s.pc t = _ := hpc; simp only [step, stepCallX, hpc'] at hs; try cases hs
  | alloc t n => exfalso; have hpc' : s.pc t = _ := hpc; simp only [step, stepAlloc, hpc'] at hs; try cases hs
  | callRetire t n => exfalso; have hpc' : s.pc t = _ := hpc; simp only [step, stepCallRetire, hpc'] at hs; try cases hs
  | retRetire t => exfalso; have hpc' : s.pc t = _ := hpc; simp only [step, stepRetRetire, hpc'] at hs; try cases hs
  | rcNote t r v => exfalso; have hpc' : s.pc t = _ := hpc; simp only [step, stepRcNote, hpc'] at hs; try cases hs
  | retX t => exfalso; have hpc' : s.pc t = _ := hpc; simp only [step, stepRetX, hpc'] at hs; try cases hs
  | callScan t => exfalso; have hpc' : s.pc t = _ := hpc; simp only [step, stepCallScan, hpc'] at hs; try cases hs
  | retScan t => exfalso; have hpc' : s.pc t = _ := hpc; simp only [step, stepRetScan, hpc'] at hs; try cases hs

/-- the snapshot a scan collects grows only by the non-NULL value of the slot being read -/
theorem plist_only_slot_values {s s' : St} {t r i v h cap cur j : Nat} {c : Bool} {pl walked : List Nat}
    (hpc : s.pc t = .scanWalk c h cap cur j pl walked) (hs : step s (.rdHp t r i v) = some s') :
    r = cur - 1 ∧ i = j ∧ v = s.hp r i ∧
    s'.pc t = .scanWalk c h cap cur (j + 1) (if v = 0 then pl else pl ++ [v]) walked := by
  simp only [step, stepRdHp, hpc] at hs
  split at hs
  · next hv =>
    simp only [Option.some.injEq] at hs; subst hs
    exact ⟨hv.2.2.1, hv.2.2.2.1, hv.2.2.2.2, by simp [setPc]⟩
  · cases hs

/-- thresholds versus participating records, at every moment: `2·K·|L| ≤ retire_threshold(t)` for
    every duplicate-free list `L` of records that have completed `create_and_push` (so a record
    is accounted for before it can publish a hazard pointer), `retire_threshold(t) ≤ 2·K·N` for
    the `N` records in the list, and equality when no join is in progress. -/
theorem threshold_bounds {k : Nat} {es : List Ev} {s : St} {t : Nat} (hrun : (sys k).run es = some s)
    (ht : t ∈ s.recs) :
    (∀ L : List Nat, L.Nodup → (∀ j ∈ L, j ∈ s.recs ∧ (s.pc j).joined = true) →
        2 * L.length * s.k ≤ s.thr t) ∧
    s.thr t ≤ 2 * s.recs.length * s.k ∧
    ((∀ j ∈ s.recs, (s.pc j).joined = true) → s.thr t = 2 * s.recs.length * s.k) := by
  have h1 := (inv12_of_run hrun).1
  exact ⟨fun L hL hj => h1.thr_ge ht hL hj, h1.thr_le ht, fun hall => h1.thr_exact hall ht⟩

/-- **garbage_bounded.**  For every thread `t` that has joined:
    * `retired_count` is the length of its retired list (outside the three instructions that
      update both), the retired nodes are distinct, non-NULL and in state "retired by `t`";
    * outside `hazard_pointer_free`'s counting and outside a scan's decide phase
      `retired_count < retire_threshold ≤ 2·K·N` — so the next scan of `t` happens within
      `retire_threshold − retired_count ≤ 2·K·N` further retirements by `t`
      (`free_scans_at_threshold`), and that scan reclaims every retired node it does not find in
      a slot (`scan_decision`). -/
theorem garbage_bounded {k : Nat} (hk : 0 < k) {es : List Ev} {s : St} {t : Nat}
    (hrun : (sys k).run es = some s) (hj : (s.pc t).joined = true) :
    ((s.pc t).plain = true → s.rc t = (s.rlist t).length) ∧
    (s.rlist t).Nodup ∧ (∀ n ∈ s.rlist t, n ≠ 0 ∧ s.ns n = .retired t) ∧
    ((s.pc t).quiet = true → s.rc t < s.thr t) ∧
    s.thr t ≤ 2 * s.recs.length * s.k := by
  obtain ⟨h1, h2, h3⟩ := inv_of_run hk hrun
  have hl := h3.loc t
  have hl2 := h2.loc t
  refine ⟨?_, (List.nodup_append.mp hl2.rl_nd).1, fun n hn => hl2.rl n (by simp [hn]), ?_,
    h1.thr_le (joined_recs h1 hj)⟩
  · intro hp; have := hl.rcok; rw [RcOk_plain hp] at this; exact this
  · intro hq; exact hl.bound hq hj

/-- After a scan (all retired nodes decided): `retired_count ≤ index` — the number of non-NULL
    slots collected — and `2·index ≤ retire_threshold`; hence at least half of a full retired
    list is reclaimed by every scan that `hazard_pointer_free` triggers. -/
theorem scan_result_bounded {k : Nat} (hk : 0 < k) {es : List Ev} {s : St} {t : Nat} {c : Bool}
    {sp : List Nat} (hrun : (sys k).run es = some s) (hpc : s.pc t = .scanDecide c sp []) :
    s.rc t = (s.rlist t).length ∧ s.rc t ≤ sp.length ∧ 2 * sp.length ≤ s.thr t ∧ s.rc t < s.thr t := by
  obtain ⟨h1, h2, h3⟩ := inv_of_run hk hrun
  have hl := h3.loc t
  rw [hpc] at hl
  obtain ⟨a, b, c'⟩ := scan_end_bound h1 h2 h3 hpc
  exact ⟨hl.rcok, a, b, c'⟩

/-! ### non-vacuity: a concrete trace of the real code (the hypotheses above are satisfiable)

  `exTrace` is the event log of `harness/hazard.c` (K = 1, arena 4, one global cell, script
  `x0f,x0n,p5,s,p20,s|j,a00,p40,r0|p30,j`, VR_SEED=391, random schedule), cut after thread 0's second
  scan.  Thread 1 validates a protection of node 4 (event 27); thread 0 unlinks and retires node 4
  (34) and scans (45–58): the scan reads head = record 1, walks records 1 and 0, finds node 4 in
  thread 1's slot and KEEPS it, while thread 2 pushes its record in the middle of that scan (53) and
  only later bumps the older thresholds (60, 62); thread 1 releases (65–67); thread 0's next scan
  (68–80) starts from the new head — record 2, the late joiner — and reclaims node 4 (78). -/
def exTrace : List Ev := [
  .callJoin 0,
  .ldHead 0 0,
  .wrNext 0 0 0,
  .callJoin 1,
  .callJoin 2,
  .stThr 0 0 2,
  .casHead 0 0 0 1 true,
  .rdNext 0 0 0,
  .retJoin 0,
  .callX 0 0,
  .alloc 0 4,
  .ldHead 1 1,
  .wrNext 1 1 1,
  .rdNext 1 0 0,
  .stThr 1 1 4,
  .casHead 1 1 1 2 true,
  .rdNext 1 1 1,
  .faddThr 1 0 2 2,
  .xchgG 0 0 0 4,
  .rdNext 1 0 0,
  .retJoin 1,
  .callAcq 1 0 0,
  .ldG 1 0 4,
  .wrHp 1 1 0 4,
  .fence 1,
  .ldG 1 0 4,
  .validated 1 0 4,
  .use 1 0 4,
  .retAcq 1 4,
  .retX 0,
  .callX 0 0,
  .alloc 0 0,
  .xchgG 0 0 4 0,
  .callRetire 0 4,
  .rdRc 0 0 0,
  .wrRc 0 0 1,
  .ldThr 0 0 4,
  .retRetire 0,
  .rcNote 0 0 1,
  .retX 0,
  .ldHead 2 2,
  .wrNext 2 2 2,
  .rdNext 2 1 1,
  .rdNext 2 0 0,
  .callScan 0,
  .ldHead 0 2,
  .ldThr 0 1 4,
  .rdHp 0 1 0 4,
  .rdNext 0 1 1,
  .rdHp 0 0 0 0,
  .rdNext 0 0 0,
  .stThr 2 2 6,
  .casHead 2 2 2 3 true,
  .wrRc 0 0 0,
  .rdRc 0 0 0,
  .wrRc 0 0 1,
  .retScan 0,
  .rcNote 0 0 1,
  .rdNext 2 2 2,
  .faddThr 2 1 4 2,
  .rdNext 2 1 1,
  .faddThr 2 0 4 2,
  .rdNext 2 0 0,
  .retJoin 2,
  .callRel 1 0,
  .wrHp 1 1 0 0,
  .retRel 1,
  .callScan 0,
  .ldHead 0 3,
  .ldThr 0 2 6,
  .rdHp 0 2 0 0,
  .rdNext 0 2 2,
  .rdHp 0 1 0 0,
  .rdNext 0 1 1,
  .rdHp 0 0 0 0,
  .rdNext 0 0 0,
  .wrRc 0 0 0,
  .reclaim 0 4,
  .retScan 0,
  .rcNote 0 0 0
]

/-- the model accepts the whole trace -/
example : ((sys 1).run exTrace).isSome = true := by decide

/-- a scan in progress (hypothesis of `scan_covers`): thread 0 has read head = record 1, capacity 2,
    has completely read record 1 (collecting node 4) and is about to read record 0 -/
example : ((sys 1).run (exTrace.take 49)).map (fun s => s.pc 0)
    = some (.scanWalk false 2 2 1 0 [4] [1]) := by decide

/-- the protection survives the scan, and a record joined while the scan ran: after event 58 thread
    1 still holds its validated protection of node 4, node 4 is retired by thread 0 and still in its
    retired list (`retired_count = 1`), the list of records is 2,1,0, and record 0's threshold has
    not yet been bumped by the joiner (4 = 2·2·1) whereas the joiner's own is 6 = 2·3·1 -/
example : ((sys 1).run (exTrace.take 58)).map
    (fun s => (s.prot 1 0, decide (s.ns 4 = .retired 0), s.rlist 0, s.rc 0, s.recs, s.thr 0, s.thr 2,
               (s.pc 2).joined))
    = some (4, true, [4], 1, [2, 1, 0], 4, 6, false) := by rfl

/-- hypothesis of `no_reclaim_protected` / `scan_decision`: event 78 is the reclamation of node 4,
    accepted after the 77 events before it -/
example : exTrace.take 78 = exTrace.take 77 ++ [.reclaim 0 4] ∧
    ((sys 1).run (exTrace.take 78)).isSome = true := by decide

/-- at the end: node 4 is free again, no garbage is left, all three records have joined and every
    threshold is exactly 2·N·K = 6 (`threshold_bounds`) -/
example : ((sys 1).run exTrace).map
    (fun s => (decide (s.ns 4 = .free), s.rc 0, s.rlist 0, s.thr 0, s.thr 1, s.thr 2,
               (s.pc 0).joined && (s.pc 1).joined && (s.pc 2).joined))
    = some (true, 0, [], 6, 6, 6, true) := by rfl

/-- `binary_search` itself on a few address patterns (duplicates, ends, empty, absent) -/
example : binarySearch [1, 3, 3, 7] 3 = true ∧ binarySearch [1, 3, 3, 7] 7 = true ∧
    binarySearch [1, 3, 3, 7] 1 = true ∧ binarySearch [1, 3, 3, 7] 5 = false ∧
    binarySearch [] 5 = false ∧ binarySearch [2] 2 = true ∧ binarySearch [2] 9 = false := by decide

end LibfiberVerif.Hp
