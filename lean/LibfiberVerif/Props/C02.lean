/-
  Props/C02.lean — property C02: "every runnable fiber is run exactly once per wake-up".

  Section `Wsd` (this part): the run queue itself, the Chase–Lev work-stealing deque of
  src/work_stealing_deque.c, model `Model/Wsd.lean`, invariant `Proof/Wsd.lean`.
  All theorems quantify over every event list the model accepts: one owner (push_bottom /
  pop_bottom) interleaved arbitrarily with any number of thieves (steal), any initial array
  size `2^k0`, any number of growths, unbounded operation counts.

  (The whole-runtime half of C02 — quiescence: when every kernel thread has gone idle no
  runnable fiber remains queued — is a separate section of this file, over the runtime
  model; it uses the run queues only through `Wsd.exactly_once`.)
-/
import LibfiberVerif.Proof.Wsd
import LibfiberVerif.Proof.Rt

namespace LibfiberVerif.Wsd

/-! ### Wsd: exactly once -/

/-- **Nothing is dropped, nothing is handed out twice, nothing is invented** — in every
    reachable state, across growth and the single-element race, for any number of thieves.
    As multisets:  pushed = returned ⊎ owed ⊎ logical  where
    * `pushed`   values whose `push_bottom` has published them (`bottom := b + 1`),
    * `returned` values `pop_bottom` / `steal` calls have handed back to their callers,
    * `owed`     one entry `(thread, value)` for exactly those threads that have won a value
                 (CAS on `top` succeeded, or pop_bottom saw more than one element) and are still
                 on their way to the `return` (`holds` reads it off the thread's pc),
    * `logical`  the values of indices `[top, hb)` of the published array; `hb = bottom` except
                 inside pop_bottom's window (`bottom` lowered, fate of that element open). -/
theorem exactly_once {k0 : Nat} {es : List Ev} {s : St} (h : (sys k0).run es = some s) :
    s.pushed.Perm (s.returned ++ s.owed.map Prod.snd ++ logical s)
    ∧ s.owed.Nodup
    ∧ (∀ u x, (u, x) ∈ s.owed ↔ holds s u = some x) := by
  obtain ⟨hI, hA⟩ := inv_acc_of_run h
  refine ⟨?_, hA.nodup, hA.mem⟩
  exact hI.perm.trans (List.Perm.append_right _ hA.perm)

/-- At quiescence (every thread between operations) the accounting is purely API-level:
    the pushed values are exactly the returned ones plus the contents of slots
    `[top, bottom)` of the current array. -/
theorem exactly_once_quiescent {k0 : Nat} {es : List Ev} {s : St} (h : (sys k0).run es = some s)
    (hq : ∀ u, s.pc u = .idle) :
    s.top ≤ s.bottom ∧
    s.pushed.Perm (s.returned ++ seg (s.at s.arr) s.top (s.bottom - s.top).toNat) := by
  obtain ⟨hp, -, hm⟩ := exactly_once h
  obtain ⟨hI, -⟩ := inv_acc_of_run h
  have hb : s.bottom = s.hb := by
    have := hI.owner; rw [hq 0] at this; simpa [ownerOk] using this
  have ho : s.owed = [] := by
    cases hO : s.owed with
    | nil => rfl
    | cons a l =>
      have : (a.1, a.2) ∈ s.owed := by rw [hO]; simp
      have := (hm a.1 a.2).mp this
      simp [holds, hq a.1, holdsPc] at this
  refine ⟨by rw [hb]; exact hI.tle, ?_⟩
  rw [ho] at hp
  show s.pushed.Perm (s.returned ++ seg (atg s.k0 s.slot s.arr) s.top (s.bottom - s.top).toNat)
  simpa [logical, hb] using hp

/-- nothing invented, nothing duplicated, stated per value: a value is handed back at most as
    often as it was pushed -/
theorem returned_le_pushed {k0 : Nat} {es : List Ev} {s : St} (h : (sys k0).run es = some s)
    (x : Int) : s.returned.count x ≤ s.pushed.count x := by
  obtain ⟨hp, -, -⟩ := exactly_once h
  rw [hp.count_eq x, List.count_append, List.count_append]
  omega

/-! ### Wsd: ABORT and EMPTY are justified -/

/-- meaning of the ghost flag `raced`: it is cleared by the thread's own load of `top` and can
    only be set by ANOTHER thread's successful CAS on `top` -/
theorem raced_spec {s s' : St} {e : Ev} (h : step s e = some s') (t : Nat) :
    (∀ x mo, e = .ldTop t x mo → s'.raced t = false) ∧
    (s'.raced t = true → s.raced t = true ∨
      ∃ u f x d mo, u ≠ t ∧ e = .casTop u f x d true mo) := by
  cases e with
  | casTop u f x d ok mo =>
    refine ⟨by simp, ?_⟩
    simp only [step] at h
    (repeat' split at h) <;> simp at h <;> subst h <;> simp <;>
    · intro hr
      by_cases hut : u = t <;> simp_all
  | _ =>
    simp only [step] at h <;> (repeat' split at h) <;> simp at h <;> subst h <;>
      simp [upd] <;> grind

/-- **ABORT only on a race**: whenever `pop_bottom` or `steal` is about to return ABORT, a CAS
    on `top` by some other thread succeeded after this operation loaded `top`
    (`raced_spec`: the flag was cleared by that load and only such a CAS sets it). -/
theorem abort_only_on_race {k0 : Nat} {es : List Ev} {s : St} (h : (sys k0).run es = some s)
    (t : Nat) (ht : s.pc t = .popDone .abort ∨ s.pc t = .stealDone .abort) :
    s.raced t = true := by
  obtain ⟨hI, -⟩ := inv_acc_of_run h
  by_cases h0 : t = 0
  · subst h0
    have := hI.owner
    rcases ht with ht | ht <;> rw [ht] at this <;> simp [ownerOk] at this
    exact this.2
  · have := hI.thief t h0
    rcases ht with ht | ht <;> rw [ht] at this <;> simp [thiefOk] at this
    exact this

/-- the same at the CAS itself: a CAS on `top` fails only if another thread's CAS succeeded
    since this operation loaded `top` -/
theorem cas_fails_only_on_race {k0 : Nat} {es : List Ev} {s s' : St}
    (h : (sys k0).run es = some s) {t : Nat} {f x d : Int} {mo : Nat}
    (hs : step s (.casTop t f x d false mo) = some s') : s.raced t = true := by
  obtain ⟨hI, -⟩ := inv_acc_of_run h
  have hI' := inv_step hI hs
  simp only [step] at hs
  split at hs
  next b tt y hpc =>
    have ht := tid_zero hI hpc (by simp [thiefOk]); subst ht
    split at hs <;> simp at hs
    subst hs
    have := hI'.owner
    simp [upd, ownerOk] at this
    exact this.2.2.2
  next tt g y hpc =>
    have ht := tid_ne_zero hI hpc (by simp [ownerOk])
    split at hs <;> simp at hs
    subst hs
    have := hI'.thief t ht
    simpa [upd, thiefOk] using this
  next => simp at hs

/-- meaning of the ghost flag `wit`: it is assigned only by the load that decides EMPTY —
    steal's load of `bottom` (deque logically empty at that instant, or the owner inside
    pop_bottom's window) and pop_bottom's load of `top` on the EMPTY path (logically empty) -/
theorem wit_spec {s s' : St} {e : Ev} (h : step s e = some s') (t : Nat) :
    s'.wit t = s.wit t ∨
    (∃ x mo, e = .ldBottom t x mo ∧
      s'.wit t = (decide (s.hb ≤ s.top) || (s.pc 0).popWindow)) ∨
    (∃ x mo, e = .ldTop t x mo ∧ s'.wit t = decide (s.hb ≤ s.top)) := by
  cases e <;> simp only [step] at h <;> (repeat' split at h) <;> simp at h <;> subst h <;>
    simp [upd] <;> grind

/-- **EMPTY only if empty or racing**: whenever `pop_bottom` or `steal` is about to return
    EMPTY, then at the instant of its deciding load (`wit_spec`) the deque was logically empty
    (`hb ≤ top`, i.e. `logical = []`) or — for a thief only — the owner was inside the window of
    pop_bottom in which `bottom` is lowered (the thief raced with the owner for the last
    element).  Every path to `popDone .empty` / `stealDone .empty` passes through that load. -/
theorem empty_only_if_empty_or_race {k0 : Nat} {es : List Ev} {s : St}
    (h : (sys k0).run es = some s)
    (t : Nat) (ht : s.pc t = .popDone .empty ∨ s.pc t = .stealDone .empty) :
    s.wit t = true := by
  obtain ⟨hI, -⟩ := inv_acc_of_run h
  by_cases h0 : t = 0
  · subst h0
    have := hI.owner
    rcases ht with ht | ht <;> rw [ht] at this <;> simp [ownerOk] at this
    exact this.2
  · have := hI.thief t h0
    rcases ht with ht | ht <;> rw [ht] at this <;> simp [thiefOk] at this
    exact this

/-- `hb ≤ top` really means "no element": the logical contents are the empty list -/
theorem logical_nil_of_le {s : St} (h : s.hb ≤ s.top) : logical s = [] := by
  have : (s.hb - s.top).toNat = 0 := by omega
  simp [logical, this, seg]

/-! ### Wsd: a thief holding an old array generation -/

/-- **Stale array valid**: a thief that has read value `x` for index `t` from generation `g`
    (possibly retired: `g ≤ arr`, old generations are never freed or overwritten) and whose CAS
    can still succeed (`top = t`) has read exactly the head of the logical contents, i.e. the
    value that belongs to its index in the published generation. -/
theorem stale_array_valid {k0 : Nat} {es : List Ev} {s : St} (h : (sys k0).run es = some s)
    {u : Nat} {t : Int} {g : Nat} {x : Int} (hpc : s.pc u = .stealRead t g x) (htop : s.top = t) :
    g ≤ s.arr ∧ t < s.hb ∧ x = s.at s.arr t ∧ ∃ rest, logical s = x :: rest := by
  obtain ⟨hI, -⟩ := inv_acc_of_run h
  have hu := tid_ne_zero hI hpc (by simp [ownerOk])
  have := hI.thief u hu
  rw [hpc] at this; simp only [thiefOk] at this
  obtain ⟨-, -, hg, hx⟩ := this
  obtain ⟨hlt, hxe⟩ := hx htop
  refine ⟨hg, hlt, hxe, ?_⟩
  obtain ⟨n, hn⟩ : ∃ n, (s.hb - s.top).toNat = n + 1 := ⟨(s.hb - s.top).toNat - 1, by omega⟩
  refine ⟨seg (atg s.k0 s.slot s.arr) (s.top + 1) n, ?_⟩
  rw [logical, hn, seg, htop, ← hxe]

/-- and when that CAS succeeds the thief's value is what leaves the deque -/
theorem steal_takes_head {k0 : Nat} {es : List Ev} {s s' : St} (h : (sys k0).run es = some s)
    {u : Nat} {t : Int} {g : Nat} {x f e d : Int} {mo : Nat} (hpc : s.pc u = .stealRead t g x)
    (hs : step s (.casTop u f e d true mo) = some s') :
    logical s = x :: logical s' ∧ s'.taken = s.taken ++ [x] ∧ holds s' u = some x := by
  simp only [step] at hs
  rw [hpc] at hs
  simp only at hs
  split at hs
  next hc =>
    obtain ⟨hf, he, hd, hok, -⟩ := hc
    simp at hs
    subst hs
    have htop : s.top = t := by simpa [hf, he] using hok.symm
    obtain ⟨-, hlt, hx, -⟩ := stale_array_valid h hpc htop
    refine ⟨?_, rfl, by simp [holds, holdsPc, upd]⟩
    have hn : (s.hb - s.top).toNat = (s.hb - d).toNat + 1 := by omega
    simp only [logical]
    rw [hn, seg, hd, htop, ← at_eq, ← hx]
  next => simp at hs

/-! ### non-vacuity: the windows the property names are reachable -/

/-- one element, owner's pop_bottom and a thief's steal race for it; the thief's CAS wins,
    the owner gets ABORT; then both return -/
def raceTrace : List Ev := [
  .callPush 0 7, .ldBottom 0 0 2, .ldTop 0 0 2, .ldArr 0 0 5, .wrSlot 0 0 0 7, .stBottom 0 1 3, .retPush 0,
  .callSteal 1, .ldTop 1 0 2, .ldBottom 1 1 2, .ldArr 1 0 5, .rdSlot 1 0 0 7,
  .callPop 0, .ldBottom 0 1 2, .ldArr 0 0 5, .stBottom 0 0 5, .ldTop 0 0 5, .rdSlot 0 0 0 7,
  -- a second thief looks while the owner is inside its window: EMPTY although 7 is still there
  .callSteal 2, .ldTop 2 0 2, .ldBottom 2 0 2, .ldArr 2 0 5,
  .casTop 1 0 0 1 true 5,
  .casTop 0 1 0 1 false 5,
  .stBottom 0 1 3]

example : ∃ s, (sys 1).run raceTrace = some s ∧
    s.pc 0 = .popDone .abort ∧ s.raced 0 = true ∧
    s.pc 1 = .stealDone (.val 7) ∧ s.owed = [(1, 7)] ∧
    s.pc 2 = .stealDone .empty ∧ s.wit 2 = true ∧
    s.pushed = [7] ∧ s.returned = [] ∧ logical s = [] :=
  ⟨_, rfl, by decide, by decide, by decide, by decide, by decide, by decide, by decide, by decide,
    by decide⟩

example : ∃ s, (sys 1).run (raceTrace ++ [.retPop 0 (-2), .retSteal 1 7, .retSteal 2 (-1)]) = some s ∧
    (∀ u, s.pc u = .idle) ∧ s.pushed = [7] ∧ s.returned = [7] ∧ s.top = 1 ∧ s.bottom = 1 :=
  ⟨_, rfl, by intro u; simp [upd]; intro h2 h1 h0; simp [h0, h1, h2, sys, init], by decide, by decide, by decide, by decide⟩

/-- the same race won by the owner: the thief gets ABORT -/
example : ∃ s, (sys 1).run [
    .callPush 0 7, .ldBottom 0 0 2, .ldTop 0 0 2, .ldArr 0 0 5, .wrSlot 0 0 0 7, .stBottom 0 1 3, .retPush 0,
    .callSteal 1, .ldTop 1 0 2, .ldBottom 1 1 2, .ldArr 1 0 5, .rdSlot 1 0 0 7,
    .callPop 0, .ldBottom 0 1 2, .ldArr 0 0 5, .stBottom 0 0 5, .ldTop 0 0 5, .rdSlot 0 0 0 7,
    .casTop 0 0 0 1 true 5, .casTop 1 1 0 1 false 5, .stBottom 0 1 3] = some s ∧
    s.pc 0 = .popDone (.val 7) ∧ s.pc 1 = .stealDone .abort ∧ s.raced 1 = true ∧ s.owed = [(0, 7)] :=
  ⟨_, rfl, by decide, by decide, by decide, by decide⟩

/-- growth with a thief holding the old array: the thief loads generation 0, the owner's next
    push grows (copies index 0 into generation 1, publishes it, writes index 1 there), then the
    thief reads its slot from the RETIRED generation 0 and its CAS succeeds -/
def growTrace : List Ev := [
  .callPush 0 7, .ldBottom 0 0 2, .ldTop 0 0 2, .ldArr 0 0 5, .wrSlot 0 0 0 7, .stBottom 0 1 3, .retPush 0,
  .callSteal 1, .ldTop 1 0 2, .ldBottom 1 1 2, .ldArr 1 0 5,
  .callPush 0 8, .ldBottom 0 1 2, .ldTop 0 0 2, .ldArr 0 0 5,
  .rdSlot 0 0 0 7, .wrSlot 0 1 0 7, .stArr 0 1 5, .wrSlot 0 1 1 8, .stBottom 0 2 3, .retPush 0,
  .rdSlot 1 0 0 7]

example : ∃ s, (sys 1).run growTrace = some s ∧
    s.pc 1 = .stealRead 0 0 7 ∧ s.arr = 1 ∧ s.top = 0 ∧ logical s = [7, 8] :=
  ⟨_, rfl, by decide, by decide, by decide, by decide⟩

example : ∃ s, (sys 1).run (growTrace ++ [.casTop 1 0 0 1 true 5, .retSteal 1 7]) = some s ∧
    s.returned = [7] ∧ s.pushed = [7, 8] ∧ logical s = [8] ∧ s.owed = [] :=
  ⟨_, rfl, by decide, by decide, by decide, by decide⟩

end LibfiberVerif.Wsd

/-! # ===================== runtime half of C02 (model `Rt`) ===================== -/

/-! ## Section `Rt`: the whole runtime (model `Model/Rt.lean`, invariant `Proof/Rt.lean`)

  "Whenever a fiber is made runnable (created, yielded, woken) it is run exactly once for that
   wake-up: the run queues never drop an entry and never hand one entry to two takers, whether
   it is taken by the owning thread or stolen …"

  Here a run queue is a bag at the deque API (`rqpush` / `rqpop` / `rqsteal` call-site events of
  fiber_scheduler_wsd.c; the deque behind the API is the `Wsd` section above).  Every theorem
  quantifies over every event list `Rt.sys` accepts: any number (≤ 16) of kernel threads, any
  number of fibers, any interleaving.

  Vocabulary (Proof/Rt.lean):
    bagCnt s.bag g   number of run-queue entries holding g, over all queues, with multiplicity
    handCnt s.tpc g  number of kernel threads holding g in their hand (popped / stolen, not yet
                     re-queued or switched to)
    places s g       bagCnt + handCnt
    cnt p es         number of events of es satisfying p
    isWake g         `rqpush _ _ g` by fiber_scheduler_schedule: a wake-up (creation, yield's
                     to_schedule, a waker)
    isPush g         any `rqpush _ _ g` (wake-up, SAVING re-queue by fiber_scheduler_next,
                     re-push by load_balance after a steal)
    isTake g         `rqpop _ _ g` or `rqsteal _ _ g`
    isSwitch g       `switch _ g`
    isPopBy k g / isSwitchBy k g / isRequeueBy k g   the same restricted to kernel thread k
    popHand g p      1 if hand p holds g as the result of a pop (held/requeue/checked/armed)

  The idle clause ("when every kernel thread has gone idle no runnable fiber remains queued
  anywhere") is NOT a safety invariant of the model — a thread may stop polling while another
  still holds work — it is a liveness-flavoured statement about the runtime's idle detection.
  It is checked at run time on every log by `Rt.idleMonitor` (at each `tick` note, emitted when
  every kernel thread has polled and found nothing for several rounds, all run queues of the
  model state must be empty); no theorem is claimed for it.
-/

namespace LibfiberVerif.Rt

/-- **one_place**: every fiber is in at most one place — (number of run-queue entries holding
    it, over all queues, with multiplicity) + (number of kernel threads holding it in their
    hand) ≤ 1.  So one entry is never handed to two takers, by pop or by steal. -/
theorem one_place {es : List Ev} {s : St} (h : sys.run es = some s) (g : Nat) :
    places s g ≤ 1 :=
  places_le_one (inv_of_run h) g

/-- what `places` counts: it is positive iff g is in some run queue or some hand (no queue
    beyond the 32 and no thread beyond the 16 counted ones ever holds anything) -/
theorem places_meaning {es : List Ev} {s : St} (h : sys.run es = some s) (g : Nat) :
    0 < places s g ↔ (∃ q, g ∈ s.bag q) ∨ (∃ k, (s.tpc k).fib = some g) :=
  places_pos_iff (inv_of_run h) g

/-- the same, pairwise: no duplicate inside a queue, not in two queues, not in a queue and a
    hand, not in two hands -/
theorem one_place_pairwise {es : List Ev} {s : St} (h : sys.run es = some s) (g : Nat) :
    (∀ q, (s.bag q).count g ≤ 1) ∧
    (∀ q q', g ∈ s.bag q → g ∈ s.bag q' → q = q') ∧
    (∀ q k, g ∈ s.bag q → (s.tpc k).fib ≠ some g) ∧
    (∀ k k', (s.tpc k).fib = some g → (s.tpc k').fib = some g → k = k') := by
  have hI := inv_of_run h
  exact ⟨fun q => List.nodup_iff_count.mp (hI.nodup q) g, fun q q' => hI.bagbag q q' g,
    fun q k => hI.baghand q k g, fun k k' => hI.handhand k k' g⟩

/-- a fiber that is executing AND in a place is inside the P-saving window (state SAVING:
    every popper re-queues it); otherwise a running fiber is in no queue and no hand — it
    cannot be run a second time for the same wake-up -/
theorem running_in_place_is_saving {es : List Ev} {s : St} (h : sys.run es = some s)
    {g k : Nat} (hr : s.ctx g = .running k) (hp : 0 < places s g) : s.fst g = SAVING := by
  rcases (places_pos (inv_of_run h) hp).2.2 with hc | hc | hc
  · simp [hr] at hc
  · simp [hr] at hc
  · exact hc.1

/-- only tracked fibers (script fibers, the main fiber) are ever queued or held; maintenance
    fibers never are -/
theorem untracked_nowhere {es : List Ev} {s : St} (h : sys.run es = some s) {g : Nat}
    (htr : s.tracked g = false) : places s g = 0 := by
  by_cases hp : 0 < places s g
  · have := (places_pos (inv_of_run h) hp).1; simp [htr] at this
  · omega

/-- **token conservation at the queues**: nothing is dropped and nothing is invented —
    #pushes of g = #pops/steals that returned g + #entries holding g now -/
theorem token_conservation {es : List Ev} {s : St} (h : sys.run es = some s) (g : Nat) :
    cnt (isPush g) es = cnt (isTake g) es + bagCnt s.bag g :=
  (inv_hist_of_run h).2.token g

/-- **run_once_per_wake**: for every tracked fiber, #wake-ups = #context switches to it +
    (1 if it is queued or held now, else 0).  Steals with their re-push and SAVING re-queues
    move the one token around without creating or consuming one.  Hence each wake-up is
    consumed by exactly one context switch, or is the single pending entry. -/
theorem run_once_per_wake {es : List Ev} {s : St} (h : sys.run es = some s) {g : Nat}
    (htr : s.tracked g = true) :
    cnt (isWake g) es = cnt (isSwitch g) es + places s g ∧ places s g ≤ 1 :=
  ⟨(inv_hist_of_run h).2.wake g htr, one_place h g⟩

/-- so a fiber is never switched to more often than it was woken, and never woken twice
    without having been run in between -/
theorem switches_le_wakes {es : List Ev} {s : St} (h : sys.run es = some s) {g : Nat}
    (htr : s.tracked g = true) :
    cnt (isSwitch g) es ≤ cnt (isWake g) es ∧ cnt (isWake g) es ≤ cnt (isSwitch g) es + 1 := by
  obtain ⟨h1, h2⟩ := run_once_per_wake h htr
  omega

/-- **a switch consumes a pop by the same thread**: per kernel thread k, #pops returning g =
    #switches to g + #SAVING re-queues of g + (1 if k holds g from a pop now) -/
theorem pop_accounting {es : List Ev} {s : St} (h : sys.run es = some s) {g : Nat}
    (htr : s.tracked g = true) (k : Nat) :
    cnt (isPopBy k g) es =
      cnt (isSwitchBy k g) es + cnt (isRequeueBy k g) es + popHand g (s.tpc k) :=
  (inv_hist_of_run h).2.pops g k htr

theorem switches_le_pops {es : List Ev} {s : St} (h : sys.run es = some s) {g : Nat}
    (htr : s.tracked g = true) (k : Nat) :
    cnt (isSwitchBy k g) es ≤ cnt (isPopBy k g) es := by
  have := pop_accounting h htr k; omega

/-- before a fiber exists nothing is pushed, popped, stolen or switched to under its name -/
theorem nothing_before_create {es : List Ev} {s : St} (h : sys.run es = some s) {g : Nat}
    (hn : s.ctx g = .none) : cnt (isAbout g) es = 0 :=
  (inv_hist_of_run h).2.fresh g hn

/-! ### non-vacuity -/

/-- a steal: thread 1 steals fiber 16 from thread 0's queue, re-pushes it on its own queue,
    pops it and runs it — one wake-up, two pushes, two takes, one switch -/
def stealTrace : List Ev := [
  .create 0 16, .spawn, .rqpush 0 1 16 .wake,
  .rqsteal 1 1 (some 16), .rqpush 1 2 16 .other,
  .rqpop 1 2 (some 16), .rState 1 16 2 .next, .wState 1 16 1 .switchTo, .switch 1 16]

example : ∃ s, sys.run stealTrace = some s ∧ s.ctx 16 = .running 1 ∧ s.tracked 16 = true ∧
    cnt (isWake 16) stealTrace = 1 ∧ cnt (isPush 16) stealTrace = 2 ∧
    cnt (isTake 16) stealTrace = 2 ∧ cnt (isSwitch 16) stealTrace = 1 ∧ places s 16 = 0 :=
  ⟨_, rfl, by decide, by decide, by decide, by decide, by decide, by decide, by decide⟩

/-- in the middle of the steal the token is in the thief's hand -/
example : ∃ s, sys.run (stealTrace.take 4) = some s ∧ s.tpc 1 = .stolen 16 ∧
    bagCnt s.bag 16 = 0 ∧ handCnt s.tpc 16 = 1 ∧ places s 16 = 1 :=
  ⟨_, rfl, by decide, by decide, by decide, by decide⟩

/-- a second taker is rejected: once thread 1 has stolen the entry, thread 0's pop cannot
    return it, and a second wake-up push while it is held is rejected -/
example : sys.run (stealTrace.take 4 ++ [.rqpop 0 1 (some 16)]) = none ∧
    sys.run (stealTrace.take 4 ++ [.rqpush 0 1 16 .wake]) = none := by
  refine ⟨by decide, by decide⟩

/-- the P-saving window: the waker schedules a fiber that is still SAVING, another thread pops
    it, sees SAVING and re-queues it; after the original thread's switch and the maintenance
    flip it is popped again and run on the other kernel thread.  Fiber 16 over the whole trace:
    two wake-ups (creation; the waker), two switches to it (thread 0; thread 1), three pushes
    (the two wake-ups and the SAVING re-queue), three pops; thread 1 pops it twice, re-queues it
    once and switches to it once. -/
def savingTrace : List Ev := [
  .create 0 16, .create 0 17, .spawn,
  .rqpush 0 1 16 .wake, .rqpush 0 1 17 .wake,
  .rqsteal 1 1 (some 17), .rqpush 1 2 17 .other,
  .rqpop 1 2 (some 17), .rState 1 17 2 .next, .wState 1 17 1 .switchTo, .switch 1 17,
  .rState 0 0 1 .yield, .rqpop 0 1 (some 16), .rState 0 16 2 .next,
  .rState 0 0 1 .switchTo, .wState 0 0 2 .switchTo, .wState 0 16 1 .switchTo, .switch 0 16,
  .rState 0 0 2 .maint, .rqpush 0 1 0 .wake,
  .wState 0 16 5 .waitSaving, .rState 0 16 5 .yield,
  .rState 1 16 5 .wake, .rqpush 1 2 16 .wake,
  .rState 1 17 1 .yield, .rqpop 1 2 (some 16), .rState 1 16 5 .next, .rqpush 1 3 16 .next,
  .rqpop 0 1 (some 0), .rState 0 0 2 .next, .rState 0 16 5 .switchTo, .wState 0 0 1 .switchTo,
  .switch 0 0, .rState 0 16 5 .maint, .wState 0 16 3 .maint,
  .rqpop 1 3 (some 16), .rState 1 16 3 .next, .rState 1 17 1 .switchTo, .wState 1 17 2 .switchTo,
  .wState 1 16 1 .switchTo, .switch 1 16]

example : ∃ s, sys.run savingTrace = some s ∧ s.ctx 16 = .running 1 ∧
    cnt (isWake 16) savingTrace = 2 ∧ cnt (isSwitch 16) savingTrace = 2 ∧ places s 16 = 0 ∧
    cnt (isPush 16) savingTrace = 3 ∧ cnt (isTake 16) savingTrace = 3 ∧
    cnt (isPopBy 1 16) savingTrace = 2 ∧ cnt (isRequeueBy 1 16) savingTrace = 1 ∧
    cnt (isSwitchBy 1 16) savingTrace = 1 :=
  ⟨_, rfl, by decide, by decide, by decide, by decide, by decide, by decide, by decide, by decide,
    by decide⟩

/-- inside the window (after the re-queue): running on thread 0 AND queued, state SAVING -/
example : ∃ s, sys.run (savingTrace.take 28) = some s ∧ s.ctx 16 = .running 0 ∧
    places s 16 = 1 ∧ s.fst 16 = SAVING ∧ s.bag 3 = [16] :=
  ⟨_, rfl, by decide, by decide, by decide, by decide⟩

end LibfiberVerif.Rt
