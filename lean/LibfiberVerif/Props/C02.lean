/-
  Props/C02.lean — property C02: "every runnable fiber is run exactly once per wake-up".

  Section `Wsd` (this part): the run queue itself, the Chase–Lev work-stealing deque of
  src/work_stealing_deque.c, model `Model/Wsd.lean`, invariant `Proof/Wsd.lean`.
  All theorems quantify over every event list the model accepts: one owner (push_bottom /
  pop_bottom) interleaved arbitrarily with any number of thieves (steal), any initial array
  size `2^k0`, any number of growths, unbounded operation counts.

  (The whole-runtime half of C02 — quiescence: when every kernel thread has gone idle no
  runnable fiber remains queued — is a separate section of this file, over the runtime
  model; it uses the run queues only through `Wsd.exactly_once`.)
-/
import LibfiberVerif.Proof.Wsd

namespace LibfiberVerif.Wsd

/-! ### Wsd: exactly once -/

/-- **Nothing is dropped, nothing is handed out twice, nothing is invented** — in every
    reachable state, across growth and the single-element race, for any number of thieves.
    As multisets:  pushed = returned ⊎ owed ⊎ logical  where
    * `pushed`   values whose `push_bottom` has published them (`bottom := b + 1`),
    * `returned` values `pop_bottom` / `steal` calls have handed back to their callers,
    * `owed`     one entry `(thread, value)` for exactly those threads that have won a value
                 (CAS on `top` succeeded, or pop_bottom saw more than one element) and are still
                 on their way to the `return` (`holds` reads it off the thread's pc),
    * `logical`  the values of indices `[top, hb)` of the published array; `hb = bottom` except
                 inside pop_bottom's window (`bottom` lowered, fate of that element open). -/
theorem exactly_once {k0 : Nat} {es : List Ev} {s : St} (h : (sys k0).run es = some s) :
    s.pushed.Perm (s.returned ++ s.owed.map Prod.snd ++ logical s)
    ∧ s.owed.Nodup
    ∧ (∀ u x, (u, x) ∈ s.owed ↔ holds s u = some x) := by
  obtain ⟨hI, hA⟩ := inv_acc_of_run h
  refine ⟨?_, hA.nodup, hA.mem⟩
  exact hI.perm.trans (List.Perm.append_right _ hA.perm)

/-- At quiescence (every thread between operations) the accounting is purely API-level:
    the pushed values are exactly the returned ones plus the contents of slots
    `[top, bottom)` of the current array. -/
theorem exactly_once_quiescent {k0 : Nat} {es : List Ev} {s : St} (h : (sys k0).run es = some s)
    (hq : ∀ u, s.pc u = .idle) :
    s.top ≤ s.bottom ∧
    s.pushed.Perm (s.returned ++ seg (s.at s.arr) s.top (s.bottom - s.top).toNat) := by
  obtain ⟨hp, -, hm⟩ := exactly_once h
  obtain ⟨hI, -⟩ := inv_acc_of_run h
  have hb : s.bottom = s.hb := by
    have := hI.owner; rw [hq 0] at this; simpa [ownerOk] using this
  have ho : s.owed = [] := by
    cases hO : s.owed with
    | nil => rfl
    | cons a l =>
      have : (a.1, a.2) ∈ s.owed := by rw [hO]; simp
      have := (hm a.1 a.2).mp this
      simp [holds, hq a.1, holdsPc] at this
  refine ⟨by rw [hb]; exact hI.tle, ?_⟩
  rw [ho] at hp
  show s.pushed.Perm (s.returned ++ seg (atg s.k0 s.slot s.arr) s.top (s.bottom - s.top).toNat)
  simpa [logical, hb] using hp

/-- nothing invented, nothing duplicated, stated per value: a value is handed back at most as
    often as it was pushed -/
theorem returned_le_pushed {k0 : Nat} {es : List Ev} {s : St} (h : (sys k0).run es = some s)
    (x : Int) : s.returned.count x ≤ s.pushed.count x := by
  obtain ⟨hp, -, -⟩ := exactly_once h
  rw [hp.count_eq x, List.count_append, List.count_append]
  omega

/-! ### Wsd: ABORT and EMPTY are justified -/

/-- meaning of the ghost flag `raced`: it is cleared by the thread's own load of `top` and can
    only be set by ANOTHER thread's successful CAS on `top` -/
theorem raced_spec {s s' : St} {e : Ev} (h : step s e = some s') (t : Nat) :
    (∀ x mo, e = .ldTop t x mo → s'.raced t = false) ∧
    (s'.raced t = true → s.raced t = true ∨
      ∃ u f x d mo, u ≠ t ∧ e = .casTop u f x d true mo) := by
  cases e with
  | casTop u f x d ok mo =>
    refine ⟨by simp, ?_⟩
    simp only [step] at h
    (repeat' split at h) <;> simp at h <;> subst h <;> simp <;>
    · intro hr
      by_cases hut : u = t <;> simp_all
  | _ =>
    simp only [step] at h <;> (repeat' split at h) <;> simp at h <;> subst h <;>
      simp [upd] <;> grind

/-- **ABORT only on a race**: whenever `pop_bottom` or `steal` is about to return ABORT, a CAS
    on `top` by some other thread succeeded after this operation loaded `top`
    (`raced_spec`: the flag was cleared by that load and only such a CAS sets it). -/
theorem abort_only_on_race {k0 : Nat} {es : List Ev} {s : St} (h : (sys k0).run es = some s)
    (t : Nat) (ht : s.pc t = .popDone .abort ∨ s.pc t = .stealDone .abort) :
    s.raced t = true := by
  obtain ⟨hI, -⟩ := inv_acc_of_run h
  by_cases h0 : t = 0
  · subst h0
    have := hI.owner
    rcases ht with ht | ht <;> rw [ht] at this <;> simp [ownerOk] at this
    exact this.2
  · have := hI.thief t h0
    rcases ht with ht | ht <;> rw [ht] at this <;> simp [thiefOk] at this
    exact this

/-- the same at the CAS itself: a CAS on `top` fails only if another thread's CAS succeeded
    since this operation loaded `top` -/
theorem cas_fails_only_on_race {k0 : Nat} {es : List Ev} {s s' : St}
    (h : (sys k0).run es = some s) {t : Nat} {f x d : Int} {mo : Nat}
    (hs : step s (.casTop t f x d false mo) = some s') : s.raced t = true := by
  obtain ⟨hI, -⟩ := inv_acc_of_run h
  have hI' := inv_step hI hs
  simp only [step] at hs
  split at hs
  next b tt y hpc =>
    have ht := tid_zero hI hpc (by simp [thiefOk]); subst ht
    split at hs <;> simp at hs
    subst hs
    have := hI'.owner
    simp [upd, ownerOk] at this
    exact this.2.2.2
  next tt g y hpc =>
    have ht := tid_ne_zero hI hpc (by simp [ownerOk])
    split at hs <;> simp at hs
    subst hs
    have := hI'.thief t ht
    simpa [upd, thiefOk] using this
  next => simp at hs

/-- meaning of the ghost flag `wit`: it is assigned only by the load that decides EMPTY —
    steal's load of `bottom` (deque logically empty at that instant, or the owner inside
    pop_bottom's window) and pop_bottom's load of `top` on the EMPTY path (logically empty) -/
theorem wit_spec {s s' : St} {e : Ev} (h : step s e = some s') (t : Nat) :
    s'.wit t = s.wit t ∨
    (∃ x mo, e = .ldBottom t x mo ∧
      s'.wit t = (decide (s.hb ≤ s.top) || (s.pc 0).popWindow)) ∨
    (∃ x mo, e = .ldTop t x mo ∧ s'.wit t = decide (s.hb ≤ s.top)) := by
  cases e <;> simp only [step] at h <;> (repeat' split at h) <;> simp at h <;> subst h <;>
    simp [upd] <;> grind

/-- **EMPTY only if empty or racing**: whenever `pop_bottom` or `steal` is about to return
    EMPTY, then at the instant of its deciding load (`wit_spec`) the deque was logically empty
    (`hb ≤ top`, i.e. `logical = []`) or — for a thief only — the owner was inside the window of
    pop_bottom in which `bottom` is lowered (the thief raced with the owner for the last
    element).  Every path to `popDone .empty` / `stealDone .empty` passes through that load. -/
theorem empty_only_if_empty_or_race {k0 : Nat} {es : List Ev} {s : St}
    (h : (sys k0).run es = some s)
    (t : Nat) (ht : s.pc t = .popDone .empty ∨ s.pc t = .stealDone .empty) :
    s.wit t = true := by
  obtain ⟨hI, -⟩ := inv_acc_of_run h
  by_cases h0 : t = 0
  · subst h0
    have := hI.owner
    rcases ht with ht | ht <;> rw [ht] at this <;> simp [ownerOk] at this
    exact this.2
  · have := hI.thief t h0
    rcases ht with ht | ht <;> rw [ht] at this <;> simp [thiefOk] at this
    exact this

/-- `hb ≤ top` really means "no element": the logical contents are the empty list -/
theorem logical_nil_of_le {s : St} (h : s.hb ≤ s.top) : logical s = [] := by
  have : (s.hb - s.top).toNat = 0 := by omega
  simp [logical, this, seg]

/-! ### Wsd: a thief holding an old array generation -/

/-- **Stale array valid**: a thief that has read value `x` for index `t` from generation `g`
    (possibly retired: `g ≤ arr`, old generations are never freed or overwritten) and whose CAS
    can still succeed (`top = t`) has read exactly the head of the logical contents, i.e. the
    value that belongs to its index in the published generation. -/
theorem stale_array_valid {k0 : Nat} {es : List Ev} {s : St} (h : (sys k0).run es = some s)
    {u : Nat} {t : Int} {g : Nat} {x : Int} (hpc : s.pc u = .stealRead t g x) (htop : s.top = t) :
    g ≤ s.arr ∧ t < s.hb ∧ x = s.at s.arr t ∧ ∃ rest, logical s = x :: rest := by
  obtain ⟨hI, -⟩ := inv_acc_of_run h
  have hu := tid_ne_zero hI hpc (by simp [ownerOk])
  have := hI.thief u hu
  rw [hpc] at this; simp only [thiefOk] at this
  obtain ⟨-, -, hg, hx⟩ := this
  obtain ⟨hlt, hxe⟩ := hx htop
  refine ⟨hg, hlt, hxe, ?_⟩
  obtain ⟨n, hn⟩ : ∃ n, (s.hb - s.top).toNat = n + 1 := ⟨(s.hb - s.top).toNat - 1, by omega⟩
  refine ⟨seg (atg s.k0 s.slot s.arr) (s.top + 1) n, ?_⟩
  rw [logical, hn, seg, htop, ← hxe]

/-- and when that CAS succeeds the thief's value is what leaves the deque -/
theorem steal_takes_head {k0 : Nat} {es : List Ev} {s s' : St} (h : (sys k0).run es = some s)
    {u : Nat} {t : Int} {g : Nat} {x f e d : Int} {mo : Nat} (hpc : s.pc u = .stealRead t g x)
    (hs : step s (.casTop u f e d true mo) = some s') :
    logical s = x :: logical s' ∧ s'.taken = s.taken ++ [x] ∧ holds s' u = some x := by
  simp only [step] at hs
  rw [hpc] at hs
  simp only at hs
  split at hs
  next hc =>
    obtain ⟨hf, he, hd, hok, -⟩ := hc
    simp at hs
    subst hs
    have htop : s.top = t := by simpa [hf, he] using hok.symm
    obtain ⟨-, hlt, hx, -⟩ := stale_array_valid h hpc htop
    refine ⟨?_, rfl, by simp [holds, holdsPc, upd]⟩
    have hn : (s.hb - s.top).toNat = (s.hb - d).toNat + 1 := by omega
    simp only [logical]
    rw [hn, seg, hd, htop, ← at_eq, ← hx]
  next => simp at hs

/-! ### non-vacuity: the windows the property names are reachable -/

/-- one element, owner's pop_bottom and a thief's steal race for it; the thief's CAS wins,
    the owner gets ABORT; then both return -/
def raceTrace : List Ev := [
  .callPush 0 7, .ldBottom 0 0 2, .ldTop 0 0 2, .ldArr 0 0 5, .wrSlot 0 0 0 7, .stBottom 0 1 3, .retPush 0,
  .callSteal 1, .ldTop 1 0 2, .ldBottom 1 1 2, .ldArr 1 0 5, .rdSlot 1 0 0 7,
  .callPop 0, .ldBottom 0 1 2, .ldArr 0 0 5, .stBottom 0 0 5, .ldTop 0 0 5, .rdSlot 0 0 0 7,
  -- a second thief looks while the owner is inside its window: EMPTY although 7 is still there
  .callSteal 2, .ldTop 2 0 2, .ldBottom 2 0 2, .ldArr 2 0 5,
  .casTop 1 0 0 1 true 5,
  .casTop 0 1 0 1 false 5,
  .stBottom 0 1 3]

example : ∃ s, (sys 1).run raceTrace = some s ∧
    s.pc 0 = .popDone .abort ∧ s.raced 0 = true ∧
    s.pc 1 = .stealDone (.val 7) ∧ s.owed = [(1, 7)] ∧
    s.pc 2 = .stealDone .empty ∧ s.wit 2 = true ∧
    s.pushed = [7] ∧ s.returned = [] ∧ logical s = [] :=
  ⟨_, rfl, by decide, by decide, by decide, by decide, by decide, by decide, by decide, by decide,
    by decide⟩

example : ∃ s, (sys 1).run (raceTrace ++ [.retPop 0 (-2), .retSteal 1 7, .retSteal 2 (-1)]) = some s ∧
    (∀ u, s.pc u = .idle) ∧ s.pushed = [7] ∧ s.returned = [7] ∧ s.top = 1 ∧ s.bottom = 1 :=
  ⟨_, rfl, by intro u; simp [upd]; intro h2 h1 h0; simp [h0, h1, h2, sys, init], by decide, by decide, by decide, by decide⟩

/-- the same race won by the owner: the thief gets ABORT -/
example : ∃ s, (sys 1).run [
    .callPush 0 7, .ldBottom 0 0 2, .ldTop 0 0 2, .ldArr 0 0 5, .wrSlot 0 0 0 7, .stBottom 0 1 3, .retPush 0,
    .callSteal 1, .ldTop 1 0 2, .ldBottom 1 1 2, .ldArr 1 0 5, .rdSlot 1 0 0 7,
    .callPop 0, .ldBottom 0 1 2, .ldArr 0 0 5, .stBottom 0 0 5, .ldTop 0 0 5, .rdSlot 0 0 0 7,
    .casTop 0 0 0 1 true 5, .casTop 1 1 0 1 false 5, .stBottom 0 1 3] = some s ∧
    s.pc 0 = .popDone (.val 7) ∧ s.pc 1 = .stealDone .abort ∧ s.raced 1 = true ∧ s.owed = [(0, 7)] :=
  ⟨_, rfl, by decide, by decide, by decide, by decide⟩

/-- growth with a thief holding the old array: the thief loads generation 0, the owner's next
    push grows (copies index 0 into generation 1, publishes it, writes index 1 there), then the
    thief reads its slot from the RETIRED generation 0 and its CAS succeeds -/
def growTrace : List Ev := [
  .callPush 0 7, .ldBottom 0 0 2, .ldTop 0 0 2, .ldArr 0 0 5, .wrSlot 0 0 0 7, .stBottom 0 1 3, .retPush 0,
  .callSteal 1, .ldTop 1 0 2, .ldBottom 1 1 2, .ldArr 1 0 5,
  .callPush 0 8, .ldBottom 0 1 2, .ldTop 0 0 2, .ldArr 0 0 5,
  .rdSlot 0 0 0 7, .wrSlot 0 1 0 7, .stArr 0 1 5, .wrSlot 0 1 1 8, .stBottom 0 2 3, .retPush 0,
  .rdSlot 1 0 0 7]

example : ∃ s, (sys 1).run growTrace = some s ∧
    s.pc 1 = .stealRead 0 0 7 ∧ s.arr = 1 ∧ s.top = 0 ∧ logical s = [7, 8] :=
  ⟨_, rfl, by decide, by decide, by decide, by decide⟩

example : ∃ s, (sys 1).run (growTrace ++ [.casTop 1 0 0 1 true 5, .retSteal 1 7]) = some s ∧
    s.returned = [7] ∧ s.pushed = [7, 8] ∧ logical s = [8] ∧ s.owed = [] :=
  ⟨_, rfl, by decide, by decide, by decide, by decide⟩

end LibfiberVerif.Wsd
