/-
  Props/C18.lean — property C18 (fiber spinlock, src/fiber_spinlock.c):

  "While one fiber or thread holds a fiber spinlock no other lock or trylock on it succeeds;
   contenders acquire it in the order they took their tickets; trylock never waits and never
   succeeds while the lock is held or others are queued."  Any number of contenders on any
   number of kernel threads, all interleavings of lock/trylock/unlock, including wrap-around
   of the 32-bit ticket counters.

  All theorems are over EVERY event list the model `Spin.sys v0` accepts, for EVERY initial
  counter value `v0` (ticket = users = v0 mod 2^32), an unbounded number of threads and
  steps.  Hypothesis `BoundedRun (init v0) es`: fewer than 2^32 tickets are outstanding
  (holder + queued contenders) before every event of the run.  `boundedRun_of_threads` shows
  that it follows from "fewer than 2^32 distinct threads ever touch the lock".
-/
import LibfiberVerif.Proof.SpinFifo

namespace LibfiberVerif.Spin

local macro "M32" : term => `((4294967296 : Nat))

/-- **Mutual exclusion.**  At most one thread holds the lock (a thread holds it from the load
    that saw its ticket / its successful CAS until its unlock store). -/
theorem excl (v0 : Nat) (es : List Ev) (s : St)
    (hr : (sys v0).run es = some s) (hb : BoundedRun (init v0) es) (t1 t2 : Nat)
    (h1 : holder (s.pc t1) = true) (h2 : holder (s.pc t2) = true) : t1 = t2 :=
  (inv_of_run hr hb).excl t1 t2 h1 h2

/-- Mutual exclusion as the harness observes it: two threads are never both between their
    `cs enter` and `cs exit` notes. -/
theorem excl_cs (v0 : Nat) (es : List Ev) (s : St)
    (hr : (sys v0).run es = some s) (hb : BoundedRun (init v0) es) (t1 t2 : Nat)
    (h1 : s.pc t1 = .inCs) (h2 : s.pc t2 = .inCs) : t1 = t2 :=
  excl v0 es s hr hb t1 t2 (by simp [h1, holder]) (by simp [h2, holder])

/-- The concrete 32-bit counters are the ghost counters modulo 2^32 (so every statement below
    about `gTicket`/`gUsers` holds across wrap-around), and `gTicket ≤ gUsers`. -/
theorem counters_mod (v0 : Nat) (es : List Ev) (s : St)
    (hr : (sys v0).run es = some s) (hb : BoundedRun (init v0) es) :
    s.ticket = s.gTicket % M32 ∧ s.users = s.gUsers % M32 ∧ s.gTicket ≤ s.gUsers :=
  let hi := inv_of_run hr hb
  ⟨hi.tk, hi.us, hi.le⟩

/-- **No other lock succeeds while the lock is held; a thread acquires only when the ticket
    being served is its own.**  If the spin loop of `lock` exits (the load returns `my`), then
    at that instant nobody holds the lock and the ghost ticket of the thread is `gTicket`. -/
theorem lock_acquires_own_ticket (v0 : Nat) (es : List Ev) (s s' : St) (t x my g : Nat)
    (hr : (sys v0).run es = some s) (hb : BoundedRun (init v0) (es ++ [.ldTicket t x]))
    (hpc : s.pc t = .spinning my g) (hs : step s (.ldTicket t x) = some s')
    (hacq : s'.pc t = .lockDone) :
    g = s.gTicket ∧ ∀ t', holder (s.pc t') = false := by
  obtain ⟨hb1, hb2⟩ := boundedRun_append hr hb
  have hi := inv_of_run hr hb1
  have hbnd : Bnd s := by simp only [BoundedRun] at hb2; exact hb2.1
  have hi' := inv_step s s' _ hi hbnd hs
  have hsp := hi.spin _ _ _ hpc
  have htk := hi.tk
  unfold Bnd at hbnd
  simp only [step, hpc] at hs
  split at hs
  · next hx =>
    split at hs
    · next hmy =>
      have hg : g = s.gTicket := by omega
      refine ⟨hg, ?_⟩
      intro t'
      cases hh : holder (s.pc t') with
      | false => rfl
      | true => exact absurd hg ((hi.hold t' hh).2 t my g hpc)
    · simp at hs; subst hs; rw [hpc] at hacq; simp at hacq
  · simp at hs

/-- **FIFO.**  The threads whose `lock` spin loop has exited, in that order, are a prefix of
    the threads in the order of their `fetch_add(users)` (the order they took their tickets). -/
theorem fifo (v0 : Nat) (es : List Ev) (s : St)
    (hr : (sys v0).run es = some s) (hb : BoundedRun (init v0) es) : s.acq <+: s.order := by
  obtain ⟨q, hq⟩ := qinv_of_runFrom (inv_init v0) (qinv_init v0) hb hr
  exact ⟨q.map Prod.fst, hq.ord.symm⟩

/-- FIFO on observable events only: the sequence of threads returning from `lock` (`ret lock`
    notes) is a prefix of the sequence of threads performing `fetch_add(users)`.  This is the
    predicate the `order` monitor evaluates on implementation logs. -/
theorem fifo_trace (v0 : Nat) (es : List Ev) (s : St)
    (hr : (sys v0).run es = some s) (hb : BoundedRun (init v0) es) :
    es.filterMap retLockTid <+: es.filterMap faddTid := by
  have h1 := fifo v0 es s hr hb
  obtain ⟨l, hl, _⟩ := rinv_of_runFrom (rl := []) (inv_init v0)
    ⟨[], by simp [init], Or.inl ⟨rfl, by simp [init]⟩⟩ hb hr
  rw [← order_eq_trace hr]
  simp only [List.nil_append] at hl
  exact List.IsPrefix.trans ⟨l, hl.symm⟩ h1

/-- **trylock succeeds only on an idle lock.**  If the CAS of `trylock` succeeds then at that
    instant nobody holds the lock and nobody is queued (`gTicket = gUsers`, no holder, no
    spinning thread). -/
theorem try_only_idle (v0 : Nat) (es : List Ev) (s s' : St) (t ftk fus etk eus dtk dus : Nat)
    (hr : (sys v0).run es = some s)
    (hb : BoundedRun (init v0) (es ++ [.casBlob t ftk fus etk eus dtk dus true]))
    (hs : step s (.casBlob t ftk fus etk eus dtk dus true) = some s') :
    s.gTicket = s.gUsers ∧ (∀ t', holder (s.pc t') = false) ∧
      (∀ t' my g, s.pc t' ≠ .spinning my g) := by
  obtain ⟨hb1, hb2⟩ := boundedRun_append hr hb
  have hi := inv_of_run hr hb1
  have hbnd : Bnd s := by simp only [BoundedRun] at hb2; exact hb2.1
  unfold Bnd at hbnd
  have htk := hi.tk
  have hus := hi.us
  have hle := hi.le
  simp only [step] at hs
  split at hs <;> simp at hs
  obtain ⟨⟨h1, h2, h3, h4, h5, h6, h7, h8⟩, _⟩ := hs
  have hidle : s.gTicket = s.gUsers := by omega
  refine ⟨hidle, ?_, ?_⟩
  · intro t'
    cases hh : holder (s.pc t') with
    | false => rfl
    | true => have := (hi.hold t' hh).1; omega
  · intro t' my g hsp
    have := hi.spin _ _ _ hsp
    omega

/-- Contrapositive reading of `try_only_idle`: while some thread holds the lock or is queued,
    a `trylock` CAS the model accepts has `ok = false`. -/
theorem try_fails_when_busy (v0 : Nat) (es : List Ev) (s s' : St)
    (t ftk fus etk eus dtk dus : Nat) (ok : Bool)
    (hr : (sys v0).run es = some s)
    (hb : BoundedRun (init v0) (es ++ [.casBlob t ftk fus etk eus dtk dus ok]))
    (hs : step s (.casBlob t ftk fus etk eus dtk dus ok) = some s')
    (hbusy : (∃ t', holder (s.pc t') = true) ∨ (∃ t' my g, s.pc t' = .spinning my g)) :
    ok = false := by
  cases ok with
  | false => rfl
  | true =>
    obtain ⟨_, h1, h2⟩ := try_only_idle v0 es s s' t ftk fus etk eus dtk dus hr hb hs
    rcases hbusy with ⟨t', h⟩ | ⟨t', my, g, h⟩
    · rw [h1 t'] at h; cases h
    · exact absurd h (h2 t' my g)

/-- **trylock never waits (structure).**  After `call trylock` the events of the calling thread
    are exactly: one 8-byte load, one CAS, the return — whatever the other threads do in
    between (no loop). -/
theorem try_wait_free (v0 : Nat) (pre es : List Ev) (s s' : St) (t : Nat)
    (_hr : (sys v0).run pre = some s) (hcall : s.pc t = .tryCalled)
    (hr' : (sys v0).runFrom s es = some s') :
    TryShape t 3 (es.filter (fun e => e.tid = t)) := by
  have := tryShape_of_runFrom (v0 := v0) t es s s' (by simp [hcall, tryRank]) hr'
  simpa [hcall, tryRank] using this

/-- **trylock never waits (progress).**  In every state, a thread inside `trylock` has an
    enabled step, independently of the lock word and of every other thread. -/
theorem try_never_blocked (s : St) (t : Nat) (h : tryRank (s.pc t) ≠ 0) :
    ∃ e, e.tid = t ∧ (step s e).isSome = true :=
  try_enabled s t h

/-- Unlock by a thread that does not hold the lock is a client-contract violation: the model
    does not accept it. -/
theorem unlock_only_by_holder (s s' : St) (t : Nat) (hs : step s (.callUnlock t) = some s') :
    s.pc t = .held := by
  simp only [step] at hs
  split at hs
  · assumption
  · simp at hs

/-- The hypothesis is implied by a bound on the number of threads: if only threads `< n`
    with `n < 2^32` ever perform an event, fewer than 2^32 tickets are outstanding before
    every event of the run. -/
theorem bounded_of_threads (v0 n : Nat) (hn : n < M32) (es : List Ev)
    (hall : ∀ e ∈ es, e.tid < n) : BoundedRun (init v0) es :=
  boundedRun_of_threads v0 n hn es hall

/-- **No contender is stranded on a free lock (hand-off).**  Whenever tickets are outstanding
    (`gTicket < gUsers`: somebody drew a ticket that has not been released yet) and nobody
    holds the lock, the thread whose ticket is being served exists, is still in its spin
    loop, and its next load of `ticket` IS enabled and ends the loop — so an unlock store
    always admits exactly the next contender in ticket order, and a lock nobody holds with
    contenders queued cannot persist once that contender is scheduled. -/
theorem no_stranded_contender (v0 : Nat) (es : List Ev) (s : St)
    (hr : (sys v0).run es = some s) (hb : BoundedRun (init v0) es)
    (hout : s.gTicket < s.gUsers) (hfree : ∀ t, holder (s.pc t) = false) :
    ∃ t my s', s.pc t = .spinning my s.gTicket ∧
      step s (.ldTicket t s.ticket) = some s' ∧ s'.pc t = .lockDone ∧
      s'.acq = s.acq ++ [t] := by
  have hi := inv_of_run hr hb
  obtain ⟨t, h | ⟨_, h⟩⟩ := own_of_run hr hb s.gTicket (Nat.le_refl _) hout
  · obtain ⟨my, hpc⟩ := h
    have hmy := (hi.spin t my _ hpc).1
    have htk := hi.tk
    refine ⟨t, my, { s with acq := s.acq ++ [t], pc := upd s.pc t .lockDone }, hpc, ?_, ?_, rfl⟩
    · simp [step, hpc, htk, hmy]
    · simp [upd]
  · rw [hfree t] at h; cases h

/-- Every outstanding ticket has exactly one owner: the holder (ticket `gTicket`) or one
    thread in its spin loop — tickets are neither lost nor shared, across wrap-around. -/
theorem ticket_owned_once (v0 : Nat) (es : List Ev) (s : St)
    (hr : (sys v0).run es = some s) (hb : BoundedRun (init v0) es)
    (k : Nat) (h1 : s.gTicket ≤ k) (h2 : k < s.gUsers) :
    (∃ t, (∃ my, s.pc t = .spinning my k) ∨ (k = s.gTicket ∧ holder (s.pc t) = true)) ∧
    ∀ t1 t2 my1 my2, s.pc t1 = .spinning my1 k → s.pc t2 = .spinning my2 k → t1 = t2 :=
  ⟨own_of_run hr hb k h1 h2, fun t1 t2 my1 my2 a b => (inv_of_run hr hb).inj t1 t2 my1 my2 k a b⟩

/-! ### non-vacuity: concrete accepted traces -/

/-- Three threads, counters start at 2^32 − 1 and wrap: thread 0 locks, thread 1 queues and
    spins, thread 2's trylock fails (held + queued); 0 unlocks (store wraps to 0), 1 acquires
    with ticket 0 = 2^32 mod 2^32, leaves; finally 2's trylock succeeds on the idle lock. -/
def wrapTrace : List Ev := [
  .callLock 0, .faddUsers 0 4294967295, .callLock 1, .faddUsers 1 0,
  .ldTicket 1 4294967295,                       -- spins: 2^32−1 ≠ 0
  .ldTicket 0 4294967295, .retLock 0, .csEnter 0,
  .callTry 2, .ldBlob 2 4294967295 1,
  .casBlob 2 4294967295 1 1 1 1 2 false, .retTry 2 0,
  .ldTicket 1 4294967295,                       -- still spinning
  .csExit 0, .callUnlock 0, .ldTicket 0 4294967295, .stTicket 0 0, .retUnlock 0,
  .ldTicket 1 0, .retLock 1, .csEnter 1, .csExit 1,
  .callUnlock 1, .ldTicket 1 0, .stTicket 1 1, .retUnlock 1,
  .callTry 2, .ldBlob 2 1 1, .casBlob 2 1 1 1 1 1 2 true, .retTry 2 1,
  .csEnter 2 ]

example : ((sys 4294967295).run wrapTrace).map
    (fun s => (s.ticket, s.users, s.gTicket, s.gUsers, s.acq, s.order, s.pc 2)) =
    some (1, 2, 4294967297, 4294967298, [0, 1], [0, 1], .inCs) := by rfl

example : BoundedRun (init 4294967295) wrapTrace :=
  bounded_of_threads _ 3 (by decide) _ (by decide)

/-- the hypotheses of `try_only_idle` and `lock_acquires_own_ticket` are satisfiable -/
example : ∃ es s s', (sys 4294967295).run es = some s ∧
    BoundedRun (init 4294967295) (es ++ [.casBlob 2 1 1 1 1 1 2 true]) ∧
    step s (.casBlob 2 1 1 1 1 1 2 true) = some s' := by
  refine ⟨wrapTrace.take 28, _, _, rfl, bounded_of_threads _ 3 (by decide) _ (by decide), rfl⟩

example : ∃ es s s', (sys 4294967295).run es = some s ∧
    BoundedRun (init 4294967295) (es ++ [.ldTicket 1 0]) ∧ s.pc 1 = .spinning 0 4294967296 ∧
    step s (.ldTicket 1 0) = some s' ∧ s'.pc 1 = .lockDone := by
  refine ⟨wrapTrace.take 18, _, _, rfl, bounded_of_threads _ 3 (by decide) _ (by decide),
    by decide, rfl, by decide⟩

/-- the hypotheses of `no_stranded_contender` are satisfiable: after thread 0's unlock store
    (event 17 of `wrapTrace`) thread 1 is queued on a lock nobody holds -/
example : ∃ es s, (sys 4294967295).run es = some s ∧ BoundedRun (init 4294967295) es ∧
    s.gTicket < s.gUsers ∧ s.pc 1 = .spinning 0 s.gTicket ∧ s.pc 0 = .unlockDone := by
  refine ⟨wrapTrace.take 17, _, rfl, bounded_of_threads _ 3 (by decide) _ (by decide),
    by decide, by decide, by decide⟩

end LibfiberVerif.Spin
