/-
  Props/C13.lean — property C13:

  "The multi-producer/multi-consumer FIFO behaves as an atomic FIFO queue: every pushed value
   is popped exactly once, in an order consistent with one total order of the pushes that
   respects real-time precedence and each thread's program order.  A pop reports empty only
   if the queue was empty at some instant during the call or a push was still in flight."

  Model: `Mpmc.sys` (Model/Mpmc.lean) — include/mpmc_fifo.h (Ladan-Mozes/Shavit optimistic
  queue) at the granularity of the individual shared accesses, with hazard-pointer
  reclamation and node REUSE (a reclaimed node can be re-initialised and pushed again by
  anyone while other threads still hold its address: ABA is in the model).
  Every theorem quantifies over EVERY event list the model accepts: any number of pushers and
  poppers, any operation mix, any number of nodes, all interleavings of the atomic steps,
  including retirement, reclamation and reuse.

  Composition assumption (trusted base, discharged by C14's `Hp.no_reclaim_protected`): the
  ghost event `reclaim n` is enabled only if `n` is retired and no thread holds a slot on `n`
  that was published and validated before the retirement (`prot0`/`prot1`).

  Vocabulary (ghost fields of `Mpmc.St`):
    pushed     values in the order of their successful tail CAS (the total order of the pushes)
    popped     values in the order of the successful head CASes
    ordN j     node at position j of the tail-CAS order (position 0 = the initial dummy)
    hd         position of the current dummy = number of successful pops
    life n     free | owned t | inq | retired
-/
import LibfiberVerif.Proof.Mpmc

namespace LibfiberVerif.C13
open LibfiberVerif.Mpmc

set_option linter.unusedSimpArgs false
set_option linter.unusedVariables false

/-! ## 1. memory safety of the algorithm under reuse -/

/-- **No field of a free node is ever accessed.**  In every reachable state, for every
    thread, the node whose `value`/`prev`/`next` field the thread's next step dereferences
    (`nextAccess`, read off its program counter) is not free.  So the model's rule "reject any
    access to a free node" never fires on a trace produced by following the algorithm. -/
theorem no_access_free : ∀ es s, sys.run es = some s →
    ∀ t n, nextAccess (s.pc t) = some n → s.life n ≠ .free := by
  intro es s h t n hn
  exact next_not_free (inv_of_run h) t n hn

/-- `nextAccess` is faithful: every node-field access event the model accepts is the one
    `nextAccess` names for the acting thread (hence, with `no_access_free`, hits a non-free
    node; the guard in `step` is implied by the invariant). -/
theorem access_is_nextAccess : ∀ es s e s', sys.run es = some s → step s e = some s' →
    (∀ t n v, e = .wrValue t n v → nextAccess (s.pc t) = some n ∧ s.life n ≠ .free) ∧
    (∀ t n x, e = .rdValue t n x → nextAccess (s.pc t) = some n ∧ s.life n ≠ .free) ∧
    (∀ t n x, e = .wrPrev t n x → nextAccess (s.pc t) = some n ∧ s.life n ≠ .free) ∧
    (∀ t n x, e = .rdPrev t n x → nextAccess (s.pc t) = some n ∧ s.life n ≠ .free) ∧
    (∀ t n x, e = .wrNext t n x → nextAccess (s.pc t) = some n ∧ s.life n ≠ .free) := by
  intro es s e s' h hs
  have hI := inv_of_run h
  obtain ⟨a1, a2, a3, a4, a5⟩ := access_is_next hs
  exact ⟨fun t n v he => ⟨a1 t n v he, next_not_free hI t n (a1 t n v he)⟩,
         fun t n v he => ⟨a2 t n v he, next_not_free hI t n (a2 t n v he)⟩,
         fun t n v he => ⟨a3 t n v he, next_not_free hI t n (a3 t n v he)⟩,
         fun t n v he => ⟨a4 t n v he, next_not_free hI t n (a4 t n v he)⟩,
         fun t n v he => ⟨a5 t n v he, next_not_free hI t n (a5 t n v he)⟩⟩

/-- Validated protections are sound uses of the hazard-pointer API: a node in a validated
    slot is in the queue or retired — never free, never being re-initialised by a pusher. -/
theorem protected_not_reused : ∀ es s, sys.run es = some s →
    ∀ u n, ((u, n) ∈ s.prot0 ∨ (u, n) ∈ s.prot1) → s.life n = .inq ∨ s.life n = .retired := by
  intro es s h u n hm
  have hI := inv_of_run h
  rcases hm with hm | hm
  · exact hI.p0_life u n hm
  · exact hI.p1_life u n hm

/-- The client side of the hazard-pointer contract (what C14's `Hp` model assumes of its
    user): a retired node is unreachable from the shared cells the validating re-reads look
    at (`head`, `tail`), and so is a free or privately owned one — only nodes in the queue
    are ever published there.  (A node is retired once per incarnation, by the popper whose
    head CAS unlinked it, and is handed out again only after `reclaim`: `take` needs `free`.) -/
theorem retired_unreachable : ∀ es s, sys.run es = some s →
    s.life s.head = .inq ∧ s.life s.tail = .inq := by
  intro es s h
  have hI := inv_of_run h
  have hlt := hI.hd_lt
  refine ⟨?_, ?_⟩
  · rw [hI.head_eq]; exact hI.q_life s.hd (by omega) hlt
  · rw [hI.tail_eq]; exact hI.q_life (s.len - 1) (by omega) (by omega)

/-! ## 2. a successful pop returns the oldest value -/

/-- **pop_value.**  A successful head CAS by thread `t` happens in a state where the queue
    is non-empty (`hd + 1 < len`), swings `head` to the node at position `hd + 1`, and the
    value the pop will return (`popCased x`, later `ret pop x`) is that node's value, which
    is the `hd`-th pushed value. -/
theorem pop_value : ∀ es s t f e d s', sys.run es = some s →
    step s (.casHead t f e d true) = some s' →
    s.hd + 1 < s.len ∧ d = s.ordN (s.hd + 1) ∧
    s'.pc t = .popCased (s.value (s.ordN (s.hd + 1))) ∧
    s.pushed[s.hd]? = some (s.value (s.ordN (s.hd + 1))) ∧
    s'.popped = s.popped ++ [s.value (s.ordN (s.hd + 1))] ∧ s'.hd = s.hd + 1 := by
  intro es s t f e d s' h hs
  have hI := inv_of_run h
  simp only [step] at hs
  split at hs <;> try (simp at hs; done)
  rename_i hd p x hpc
  split at hs <;> try (simp at hs; done)
  rename_i hc
  simp at hs; subst hs
  obtain ⟨h1, h2, h3, h4⟩ := hc
  have hfe : f = e := by simpa using h4.symm
  have hfh : s.head = hd := by rw [← h1, hfe, h2]
  obtain ⟨c1, c2, c3, c4, c5⟩ := casHead_facts hI hpc hfh
  subst h3
  refine ⟨c1, c2, ?_, ?_, ?_, rfl⟩
  · simp [← c4]
  · rw [← c4]; exact c5
  · simp [← c4]

/-! ## 3. exactly once, in FIFO order -/

/-- **fifo_order.**  The values returned by successful pops, in head-CAS order, are exactly
    the first `hd` values of the tail-CAS order of the pushes: the i-th successful pop returns
    the i-th pushed value. -/
theorem fifo_order : ∀ es s, sys.run es = some s →
    s.popped = s.pushed.take s.hd ∧ s.hd ≤ s.pushed.length ∧ s.popped.length = s.hd := by
  intro es s h
  have hI := inv_of_run h
  have h1 := hI.popped_eq
  have h2 := hI.pushed_len
  have h3 := hI.hd_lt
  refine ⟨h1, by omega, ?_⟩
  rw [h1, List.length_take]; omega

/-- **exactly_once.**  Every pushed value (every successful tail CAS) is either already popped
    — once, at its own position — or still in the queue: `pushed = popped ++ contents`, where
    `contents` are the values currently stored in the nodes at positions `hd+1 … len-1`,
    all of which are in the queue (`inq`), pairwise distinct nodes.  Nothing is lost,
    duplicated or invented, whatever was retired, reclaimed and reused meanwhile. -/
theorem exactly_once : ∀ es s, sys.run es = some s →
    s.pushed = s.popped ++ (List.range' (s.hd + 1) (s.len - (s.hd + 1))).map (fun j => s.value (s.ordN j))
    ∧ (∀ j, s.hd ≤ j → j < s.len → s.life (s.ordN j) = .inq)
    ∧ (∀ i j, s.hd ≤ i → i < j → j < s.len → s.ordN i ≠ s.ordN j) := by
  intro es s h
  have hI := inv_of_run h
  refine ⟨?_, hI.q_life, ?_⟩
  · have hl := hI.pushed_len
    have hlt := hI.hd_lt
    rw [hI.popped_eq]
    conv => lhs; rw [← List.take_append_drop s.hd s.pushed]
    congr 1
    apply List.ext_getElem?
    intro i
    by_cases hi : i < s.len - (s.hd + 1)
    · rw [List.getElem?_drop, hI.pushed_val (s.hd + i) (by omega)]
      simp [List.getElem?_map, List.getElem?_range', hi]
      rw [hI.q_val (s.hd + 1 + i) (by omega) (by omega)]
      congr 1; omega
    · rw [List.getElem?_drop]
      rw [List.getElem?_eq_none (by omega)]
      simp [List.getElem?_map, List.getElem?_range', hi]
  · intro i j h1 h2 h3 he
    have a := hI.q_pos i h1 (by omega)
    have b := hI.q_pos j (by omega) h3
    rw [he] at a; omega

/-! ## 4. EMPTY is justified -/

/-- **empty_justified.**  When a pop reads `head->prev == NULL` (its linearisation point for
    EMPTY), the node it reads is the current dummy, and either the queue is empty at that very
    instant (`hd` is the last position of the tail-CAS order: every pushed value has been
    popped), or the push of the next node is still in flight: its thread has done the tail CAS
    and has not yet written `tail->prev` (pc `pushCased`, between `call push` and `ret push`). -/
theorem empty_justified : ∀ es s t h s', sys.run es = some s →
    step s (.rdPrev t h none) = some s' →
    h = s.ordN s.hd ∧ s'.pc t = .popEmpty ∧
    (s.hd + 1 = s.len ∧ s.popped = s.pushed
     ∨ ∃ u v, s.pc u = .pushCased (s.ordN (s.hd + 1)) v (s.ordN s.hd)) := by
  intro es s t h s' hr hs
  have hI := inv_of_run hr
  simp only [step] at hs
  split at hs <;> try (simp at hs; done)
  rename_i hd hpc
  split at hs <;> try (simp at hs; done)
  rename_i hc
  obtain ⟨rfl, hnone, hl⟩ := hc
  simp at hs; subst hs
  obtain ⟨e1, e2⟩ := empty_facts hI hpc hnone.symm
  refine ⟨e1, by simp, ?_⟩
  rcases e2 with e2 | ⟨u, hu⟩
  · left
    refine ⟨e2, ?_⟩
    rw [hI.popped_eq]; exact List.take_of_length_le (by have := hI.pushed_len; omega)
  · right
    cases hpu : s.pc u <;> simp [hpu, linking] at hu
    rename_i n v tl
    exact ⟨u, v, by rw [hpu, hu.1, hu.2]⟩

/-! ## 5. linearizability -/

/-- **linearizable.**  Project an accepted trace to the API level (`api`): invocations
    (`call push v`, `call pop`), responses (`ret push`, `ret pop x`) and one linearisation
    point per operation — the successful tail CAS for push, the successful head CAS for a
    successful pop, the read of `head->prev == NULL` on the validated head for EMPTY.  The
    projected trace is a run of the sequential specification `specSys`, i.e.
    * the operations, taken in the order of their linearisation points, form a legal history
      of ONE sequential FIFO queue (`Spec.q`): push appends, a successful pop removes and
      returns the oldest value, EMPTY happens only when the abstract queue is empty or while
      a push that has passed its linearisation point has not yet returned (the property's
      weakening; see `empty_justified`);
    * each thread's events follow invocation → linearisation point → response, and the
      response carries the value determined at the linearisation point (`Spec.ph`); hence
      every linearisation point lies between its operation's call and return, so the total
      order respects real-time precedence and each thread's program order;
    * the abstract queue is what is physically in the structure: `pushed.drop hd`. -/
theorem linearizable : ∀ es s, sys.run es = some s →
    ∃ a, specSys.run (es.filterMap api) = some a ∧
      a.q = s.pushed.drop s.hd ∧ (∀ t, a.ph t = phaseOf (s.pc t)) := by
  intro es s h
  obtain ⟨_, a, ha, hR⟩ := refines h
  exact ⟨a, ha, hR.q_eq, hR.ph_eq⟩

/-- **lin_between** (what a run of the specification means for one thread): after any API
    trace the specification accepts, a thread's phase is determined by ITS last event.  Since
    `Spec.step` lets a response happen only in phase `pushLin`/`popLin x` and a linearisation
    point only in phase `pushPend v`/`popPend`, in each thread's own event sequence a response
    is directly preceded by exactly one linearisation point of that operation, which is
    directly preceded by the invocation. -/
theorem lin_between : ∀ (l : List Api) a, specSys.run l = some a →
    ∀ t, PhaseAfter (a.ph t) (lastOf t l) := by
  intro l a h
  exact spec_phase_last h

/-- the per-thread shape, transported to model traces -/
theorem lin_between_trace : ∀ es s, sys.run es = some s →
    ∀ t, PhaseAfter (phaseOf (s.pc t)) (lastOf t (es.filterMap api)) := by
  intro es s h t
  obtain ⟨a, ha, _, hp⟩ := linearizable es s h
  rw [← hp t]; exact spec_phase_last ha t

/-! ## 6. non-vacuity: concrete accepted traces -/

/-- thread `t` pushes value `v` with node `n` onto tail `tl`, uncontended -/
def pushTrace (t n v tl : Nat) : List Ev :=
  [.take t n, .wrValue t n v, .callPush t v, .wrPrev t n none, .ldTail t tl,
   .wrSlot t t 0 (some tl), .fence t, .ldTail t tl, .wrNext t n (some tl),
   .casTail t tl tl n true, .wrPrev t tl (some n), .wrSlot t t 0 none, .retPush t]

/-- thread `t` pops value `x` = value of node `p` = `h->prev`, uncontended -/
def popTrace (t h p x : Nat) : List Ev :=
  [.callPop t, .ldHead t h, .wrSlot t t 0 (some h), .fence t, .ldHead t h, .rdPrev t h (some p),
   .wrSlot t t 1 (some p), .fence t, .ldHead t h, .rdValue t p x, .casHead t h h p true,
   .wrSlot t t 0 none, .wrSlot t t 1 none, .retPop t x]

/-- ABA, part 1: thread 1 loads `head = n0` and is preempted; thread 0 pops (n0 retired),
    scans (n0 reclaimed: nobody holds a validated slot on it), and pushes again REUSING n0;
    thread 1 then publishes its stale pointer and its re-validation of `head` fails. -/
def abaTrace1 : List Ev :=
  pushTrace 0 1 5 0 ++
  [.callPop 1, .ldHead 1 0] ++
  popTrace 0 0 1 5 ++
  [.callScan 0, .rdSlot 0 1 0 none, .rdSlot 0 1 1 none, .reclaim 0 0, .retScan 0] ++
  pushTrace 0 0 6 1 ++
  [.wrSlot 1 1 0 (some 0), .fence 1, .ldHead 1 1]

example : (sys.run abaTrace1).map (fun s => (s.pc 1, s.life 0, s.life 1, s.pushed, s.popped, s.head, s.tail))
    = some (.popCalled, .inq, .inq, [5, 6], [5], 1, 0) := by rfl

/-- ABA, part 2 (the address really comes back): as above, but before thread 1 resumes thread
    0 also pops the 6, so `head` is node n0 AGAIN — a recycled n0.  Thread 1's re-validation
    now succeeds on the stale pointer; that is harmless: n0 is legitimately the dummy, the
    slot protects it from now on, and the pop correctly reports EMPTY (everything pushed has
    been popped). -/
def abaTrace2 : List Ev :=
  pushTrace 0 1 5 0 ++
  [.callPop 1, .ldHead 1 0] ++
  popTrace 0 0 1 5 ++
  [.callScan 0, .rdSlot 0 1 0 none, .rdSlot 0 1 1 none, .reclaim 0 0, .retScan 0] ++
  pushTrace 0 0 6 1 ++
  popTrace 0 1 0 6 ++
  [.wrSlot 1 1 0 (some 0), .fence 1, .ldHead 1 0, .rdPrev 1 0 none, .wrSlot 1 1 0 none, .retPop 1 0]

example : (sys.run abaTrace2).map (fun s => (s.pc 1, s.life 0, s.life 1, s.pushed, s.popped, s.hd, s.len))
    = some (.idle, .inq, .retired, [5, 6], [5, 6], 2, 3) := by rfl

/-- the hypotheses of `linearizable` are satisfiable by this trace, and its API projection
    really is a run of the specification ending with an empty abstract queue -/
example : (specSys.run (abaTrace2.filterMap api)).map (fun a => (a.q, a.ph 0, a.ph 1, a.fl))
    = some ([], .idle, .idle, []) := by rfl

/-- A validated protection blocks reclamation: thread 1 validates `head = n0` (slot 0), thread
    0 pops (n0 retired) and scans — `reclaim n0` is NOT accepted while thread 1 holds the slot;
    after thread 1 has moved on (its slot overwritten) it is. -/
def protTrace : List Ev :=
  pushTrace 0 1 5 0 ++
  [.callPop 1, .ldHead 1 0, .wrSlot 1 1 0 (some 0), .fence 1, .ldHead 1 0] ++
  popTrace 0 0 1 5 ++
  [.callScan 0, .rdSlot 0 1 0 (some 0)]

example : (sys.run protTrace).map (fun s => (s.life 0, s.prot0)) = some (.retired, [(1, 0)]) := by rfl
example : (sys.run (protTrace ++ [.reclaim 0 0])).isNone = true := by rfl
/-- thread 1 reads the retired (not free!) n0's `prev`, publishes slot 1, fails its second
    re-validation, retries with the new head: slot 0 is overwritten, n0 becomes reclaimable -/
example : (sys.run (protTrace ++
    [.rdPrev 1 0 (some 1), .wrSlot 1 1 1 (some 1), .fence 1, .ldHead 1 1,
     .ldHead 1 1, .wrSlot 1 1 0 (some 1), .reclaim 0 0])).map (fun s => (s.life 0, s.pc 1))
    = some (.free, .popPub0 1) := by rfl

/-- EMPTY with a push in flight (the optimistic window): thread 0 has CASed the tail but not
    yet written `tail->prev`; thread 1's pop reports EMPTY although value 5 is already in the
    tail-CAS order.  This is the case the property's second clause allows, and the second
    disjunct of `empty_justified`. -/
def inflightTrace : List Ev :=
  (pushTrace 0 1 5 0).take 10 ++
  [.callPop 1, .ldHead 1 0, .wrSlot 1 1 0 (some 0), .fence 1, .ldHead 1 0, .rdPrev 1 0 none,
   .wrSlot 1 1 0 none, .retPop 1 0]

example : (sys.run inflightTrace).map (fun s => (s.pc 0, s.pc 1, s.pushed, s.popped, s.hd, s.len))
    = some (.pushCased 1 5 0, .idle, [5], [], 0, 2) := by rfl
example : (specSys.run (inflightTrace.filterMap api)).map (fun a => (a.q, a.fl)) = some ([5], [0]) := by rfl

/-- the model refuses an access to a free node (what a use-after-reclaim in the
    implementation would look like in the log): node 2 was never taken -/
example : (sys.run [.callPop 0, .ldHead 0 0, .wrSlot 0 0 0 (some 0), .fence 0, .ldHead 0 0,
    .rdPrev 0 2 none]).isNone = true := by rfl

/-- the specification is not vacuous either: it rejects a non-FIFO history, an EMPTY on a
    non-empty queue with no push in flight, and a response before the linearisation point -/
example : (specSys.run [.callPush 0 1, .linPush 0, .retPush 0, .callPush 0 2, .linPush 0, .retPush 0,
    .callPop 1, .linPopOk 1, .retPop 1 2]).isNone = true := by rfl
example : (specSys.run [.callPush 0 1, .linPush 0, .retPush 0, .callPop 1, .linPopEmpty 1]).isNone = true := by rfl
example : (specSys.run [.callPush 0 1, .retPush 0]).isNone = true := by rfl

end LibfiberVerif.C13
