/-
  Props/TsoSpin.lean — the ticket spinlock of src/fiber_spinlock.c on x86-TSO.

  `fiber_spinlock_unlock` releases the lock with a plain store (`mov`, C11 release) and no
  fence: on x86-64 the store sits in the releasing core's FIFO store buffer for an unbounded
  time, invisible to every other core.  `Props/C18.lean` proves the lock correct over
  sequentially consistent interleavings; this file proves, over the store-buffer machine
  `Model/SpinTso.lean`, that the delay is harmless:

    * mutual exclusion holds (`excl_tso`), tickets are served in order (`fifo_tso`), trylock
      succeeds only on a lock that is idle in memory AND in every buffer (`try_only_idle_tso`);
    * at most one store buffer is non-empty at any time, it is the pending release
      `[data stores …, ticket store]` of the last holder or the data stores of the current
      holder (`one_pending_release`, `holder_others_drained`);
    * the next holder sees every write of every previous critical section although nobody
      ever fences (`holder_sees_all_previous_writes`): the ticket store is the LAST entry of the
      releasing buffer, FIFO draining puts the data into memory before the ticket.

  All theorems are over EVERY event list the model `SpinTso.sys true v0` accepts: every
  interleaving, arbitrary `flush` events, every initial counter value, any number of threads,
  unbounded runs.  The counters are unbounded naturals here (no wrap-around; that is
  `Props/C18.lean`), hence no `BoundedRun` hypothesis.  With `fifoBuf = false` (stores may
  drain out of order, PSO-like) a concrete accepted trace reads stale data under the lock.

  Trusted: that x86-TSO is this store-buffer machine, and that `lock xadd` / `lock cmpxchg`
  wait for the store buffer to drain.
-/
import LibfiberVerif.Proof.SpinTso

namespace LibfiberVerif.SpinTso

/-- **Mutual exclusion on TSO.**  At most one thread holds the lock (from the load that saw
    its ticket / its successful CAS until its unlock store is ISSUED). -/
theorem excl_tso (v0 : Nat) (es : List Ev) (s : St) (hr : (sys true v0).run es = some s)
    (t1 t2 : Nat) (h1 : holder (s.pc t1) = true) (h2 : holder (s.pc t2) = true) : t1 = t2 :=
  (inv_of_run hr).excl t1 t2 h1 h2

/-- Mutual exclusion as the client sees it: two threads are never both inside the critical
    section. -/
theorem excl_cs_tso (v0 : Nat) (es : List Ev) (s : St) (hr : (sys true v0).run es = some s)
    (t1 t2 : Nat) (h1 : s.pc t1 = .inCs) (h2 : s.pc t2 = .inCs) : t1 = t2 :=
  excl_tso v0 es s hr t1 t2 (by simp [h1, holder]) (by simp [h2, holder])

/-- The memory cell `ticket` lags behind the issued unlock stores by at most ONE store:
    `ticket ≤ gIssued ≤ ticket + 1`, and `gIssued ≤ users`. -/
theorem counters_tso (v0 : Nat) (es : List Ev) (s : St) (hr : (sys true v0).run es = some s) :
    s.ticket ≤ s.gIssued ∧ s.gIssued ≤ s.ticket + 1 ∧ s.gIssued ≤ s.users :=
  let hi := inv_of_run hr
  ⟨hi.le1, hi.le3, hi.le2⟩

/-- **At most one pending release.**
    (1) At most one thread has a non-empty store buffer.
    (2) If `t`'s buffer contains an unlock store then the buffer is exactly
        `[data stores …, tk gIssued]` (the ticket store is its LAST entry), memory lags by that
        one store (`gIssued = ticket + 1`), and NOBODY holds the lock while it is pending.
    (3) Conversely, if memory lags (`gIssued ≠ ticket`) the buffer of `owner` (the thread of the
        most recent plain store) is that pending release. -/
theorem one_pending_release (v0 : Nat) (es : List Ev) (s : St)
    (hr : (sys true v0).run es = some s) :
    (∀ t1 t2, s.buf t1 ≠ [] → s.buf t2 ≠ [] → t1 = t2) ∧
    (∀ t, hasTk (s.buf t) = true →
      (∃ ds : List Int, s.buf t = ds.map Entry.dat ++ [.tk s.gIssued]) ∧
      s.gIssued = s.ticket + 1 ∧ ∀ t', holder (s.pc t') = false) ∧
    (s.gIssued ≠ s.ticket → hasTk (s.buf s.owner) = true) := by
  have hi := inv_of_run hr
  refine ⟨?_, ?_, ?_⟩
  · intro t1 t2 h1 h2
    rw [hi.own t1 h1, hi.own t2 h2]
  · intro t h
    obtain ⟨h1, h2, h3⟩ := hi.pending_release t h
    exact ⟨(rel_iff _ _).1 h1, h2, h3⟩
  · intro h
    exact rel_hasTk (hi.pend h)

/-- **While `t` holds the lock every OTHER thread's store buffer is empty**, `t`'s own buffer
    holds data stores only (no unlock store), and every unlock store issued so far has reached
    memory (`gIssued = ticket`). -/
theorem holder_others_drained (v0 : Nat) (es : List Ev) (s : St)
    (hr : (sys true v0).run es = some s) (t : Nat) (ht : holder (s.pc t) = true) :
    (∀ t', t' ≠ t → s.buf t' = []) ∧ allDat (s.buf t) = true ∧ s.gIssued = s.ticket :=
  let hi := inv_of_run hr
  ⟨fun t' hne => hi.others_empty t t' ht hne, (hi.hold t ht).2.2, (hi.hold t ht).2.1⟩

/-- A non-holder's non-empty buffer is the pending release: `[data stores …, tk gIssued]`. -/
theorem non_holder_buffer_shape (v0 : Nat) (es : List Ev) (s : St)
    (hr : (sys true v0).run es = some s) (t : Nat) (ht : holder (s.pc t) = false)
    (hne : s.buf t ≠ []) :
    ∃ ds : List Int, s.buf t = ds.map Entry.dat ++ [.tk s.gIssued] :=
  (rel_iff _ _).1 ((inv_of_run hr).nh t ht hne).1

/-- **The lock protects data on TSO without any fence in unlock.**  If `t` holds the lock, what
    `t` sees in the data cell (its own newest buffered store, else memory) is `lastWrite`: the
    most recent `csWrite` issued by ANY thread, in issue order.  Reason: every other thread's
    buffer is empty, so memory plus `t`'s own buffer contain all data writes of all previous
    critical sections. -/
theorem holder_view_is_last_write (v0 : Nat) (es : List Ev) (s : St)
    (hr : (sys true v0).run es = some s) (t : Nat) (ht : holder (s.pc t) = true) :
    rdD (s.buf t) s.data = s.lastWrite ∧ ∀ t', t' ≠ t → s.buf t' = [] :=
  let hi := inv_of_run hr
  ⟨hi.holder_view t ht, fun t' hne => hi.others_empty t t' ht hne⟩

/-- The same on events: a `csRead t v` the model accepts in a reachable state returns the value
    of the most recent `csWrite` by anybody (or the initial content if there was none). -/
theorem holder_sees_all_previous_writes (v0 : Nat) (es : List Ev) (s s' : St) (t : Nat) (v : Int)
    (hr : (sys true v0).run es = some s) (hs : step s (.csRead t v) = some s') :
    v = s.lastWrite ∧ ∀ t', t' ≠ t → s.buf t' = [] := by
  simp only [step] at hs
  split at hs
  · next h =>
    have ht : holder (s.pc t) = true := by simp [h.1, holder]
    obtain ⟨h1, h2⟩ := holder_view_is_last_write v0 es s hr t ht
    exact ⟨by rw [h.2, h1], h2⟩
  · simp at hs

/-- Once every buffer has drained, memory itself holds the last value written. -/
theorem memory_current_when_drained (v0 : Nat) (es : List Ev) (s : St)
    (hr : (sys true v0).run es = some s) (h : ∀ t, s.buf t = []) : s.data = s.lastWrite := by
  have := (inv_of_run hr).lw
  rw [h] at this
  exact this

/-- **FIFO on TSO.**  The threads whose `lock` spin loop has exited, in that order, are a prefix
    of the threads in the order of their `fetch_add(users)`. -/
theorem fifo_tso (v0 : Nat) (es : List Ev) (s : St) (hr : (sys true v0).run es = some s) :
    s.acq <+: s.order := by
  obtain ⟨q, hq⟩ := qinv_of_run hr
  exact ⟨q.map Prod.fst, hq.ord.symm⟩

/-- **A thread acquires only when its ticket has reached MEMORY.**  If the spin loop of `lock`
    exits then at that instant the value was read from memory, it is the thread's own ticket,
    every unlock store issued so far has drained, nobody holds the lock, and EVERY store
    buffer is empty — in particular all data stores of the previous holder are in memory. -/
theorem lock_acquires_drained (v0 : Nat) (es : List Ev) (s s' : St) (t x my : Nat)
    (hr : (sys true v0).run es = some s) (hpc : s.pc t = .spinning my)
    (hs : step s (.ldTicket t x) = some s') (hacq : s'.pc t = .lockDone) :
    x = my ∧ s.ticket = my ∧ s.gIssued = my ∧ (∀ t', holder (s.pc t') = false) ∧
      ∀ t', s.buf t' = [] :=
  (inv_of_run hr).lock_exit hpc hs hacq

/-- **trylock succeeds only on an idle lock.**  If the CAS of `trylock` succeeds then at that
    instant memory says idle (`ticket = users`), no unlock store is pending anywhere
    (`gIssued = ticket`; in fact EVERY store buffer is empty), nobody holds the lock and nobody
    is queued. -/
theorem try_only_idle_tso (v0 : Nat) (es : List Ev) (s s' : St) (t ftk fus etk eus dtk dus : Nat)
    (hr : (sys true v0).run es = some s)
    (hs : step s (.casBlob t ftk fus etk eus dtk dus true) = some s') :
    s.ticket = s.users ∧ s.gIssued = s.ticket ∧ (∀ t', holder (s.pc t') = false) ∧
      (∀ t' my, s.pc t' ≠ .spinning my) ∧ ∀ t', s.buf t' = [] :=
  (inv_of_run hr).cas_success hs

/-- **The stale ticket half is harmless.**  `trylock`'s 8-byte load may return a ticket half
    forwarded from the thread's own store buffer that memory does not hold yet (see
    `forwardTrace` below); `old.ticket = old.users` discards it.  In the model: the CAS step
    is the same function of the state whatever ticket half `ldBlob` recorded in the pc. -/
theorem stale_ticket_half_harmless (s : St) (t tk tk' us ftk fus etk eus dtk dus : Nat)
    (ok : Bool) :
    step { s with pc := upd s.pc t (.tryRead tk us) } (.casBlob t ftk fus etk eus dtk dus ok) =
    step { s with pc := upd s.pc t (.tryRead tk' us) } (.casBlob t ftk fus etk eus dtk dus ok) :=
  cas_ignores_ticket_half s t tk tk' us ftk fus etk eus dtk dus ok

/-- Locked operations wait for the own buffer: `fetch_add(users)` and the CAS are accepted only
    with an empty buffer. -/
theorem locked_ops_drained (s s' : St) (e : Ev)
    (he : (∃ t old, e = .faddUsers t old) ∨ (∃ t a b c d f g ok, e = .casBlob t a b c d f g ok))
    (hs : step s e = some s') : s.buf e.tid = [] := by
  rcases he with ⟨t, old, rfl⟩ | ⟨t, a, b, c, d, f, g, ok, rfl⟩
  · simp only [step] at hs
    split at hs <;> simp at hs
    exact hs.1.1
  · simp only [step] at hs
    split at hs <;> simp at hs
    exact hs.1.1

/-- A pending store can always drain: `flush t` is enabled whenever `t`'s buffer is non-empty
    (so a locked operation waiting for its own buffer, and a spinner waiting for the pending
    release of the previous holder, wait only for environment steps that are enabled). -/
theorem flush_enabled (s : St) (t : Nat) (h : s.buf t ≠ []) : (step s (.flush t)).isSome = true := by
  simp only [step]
  split
  · next h0 => exact absurd h0 h
  · rfl
  · rfl

/-! ### non-vacuity: concrete accepted traces -/

/-- Thread 0 locks, thread 1 queues.  0 writes 7 under the lock, unlocks: data store and
    ticket store sit in 0's buffer.  0 calls trylock: its 8-byte load sees the FORWARDED ticket
    1 while memory still holds 0, and thread 1 spins on the old memory value.  Two flushes
    (data first, then ticket); 0's CAS fails (1 is queued); 1 acquires and reads 7. -/
def forwardTrace : List Ev := [
  .callLock 0, .faddUsers 0 0, .ldTicket 0 0, .retLock 0, .csEnter 0,
  .callLock 1, .faddUsers 1 1, .ldTicket 1 0,
  .csWrite 0 7, .csRead 0 7, .csExit 0,
  .callUnlock 0, .ldTicket 0 0, .stTicket 0 1, .retUnlock 0,
  .callTry 0, .ldBlob 0 1 2,                    -- ticket half 1 forwarded; memory has 0
  .ldTicket 1 0,                                -- thread 1 still sees the old ticket
  .flush 0, .flush 0,                           -- data, then ticket
  .casBlob 0 1 2 2 2 2 3 false, .retTry 0 0,
  .ldTicket 1 1, .retLock 1, .csEnter 1, .csRead 1 7 ]

/-- after `ldBlob`: memory still has ticket 0 and data 0, both stores are buffered, the load
    returned the forwarded ticket half 1 -/
example : ((sys true 0).run (forwardTrace.take 17)).map
    (fun s => (s.ticket, s.users, s.data, s.buf 0, s.pc 0, s.pc 1, s.gIssued, s.lastWrite)) =
    some (0, 2, 0, [.dat 7, .tk 1], .tryRead 1 2, .spinning 1, 1, 7) := by rfl

/-- the whole trace is accepted; thread 1 is in the critical section and has read 7 -/
example : ((sys true 0).run forwardTrace).map
    (fun s => (s.ticket, s.users, s.data, s.buf 0, s.buf 1, s.pc 0, s.pc 1, s.acq, s.order)) =
    some (1, 2, 7, [], [], .idle, .inCs, [0, 1], [0, 1]) := by rfl

/-- a stale read is NOT accepted on TSO: same trace with `csRead 1 0` at the end -/
example : (sys true 0).run (forwardTrace.take 25 ++ [.csRead 1 0]) = none := by rfl

/-- the hypotheses of `holder_sees_all_previous_writes` are satisfiable -/
example : ∃ es s s', (sys true 0).run es = some s ∧ step s (.csRead 1 7) = some s' :=
  ⟨forwardTrace.take 25, _, _, rfl, rfl⟩

/-- the hypotheses of `lock_acquires_drained` are satisfiable -/
example : ∃ es s s', (sys true 0).run es = some s ∧ s.pc 1 = .spinning 1 ∧
    step s (.ldTicket 1 1) = some s' ∧ s'.pc 1 = .lockDone :=
  ⟨forwardTrace.take 22, _, _, rfl, by decide, rfl, by decide⟩

/-- A trylock on an idle lock succeeds once the releasing buffer has drained. -/
def tryTrace : List Ev := [
  .callTry 0, .ldBlob 0 0 0, .casBlob 0 0 0 0 0 0 1 true, .retTry 0 1, .csEnter 0,
  .csWrite 0 5, .csExit 0, .callUnlock 0, .ldTicket 0 0, .stTicket 0 1, .retUnlock 0,
  .callTry 0, .ldBlob 0 1 1,                    -- forwarded ticket half
  .flush 0, .flush 0,                           -- the CAS waits for the drain
  .casBlob 0 1 1 1 1 1 2 true, .retTry 0 1 ]

example : ((sys true 0).run tryTrace).map (fun s => (s.ticket, s.users, s.data, s.pc 0)) =
    some (1, 2, 5, .held) := by rfl

/-- the CAS is not enabled before the drain -/
example : (sys true 0).run (tryTrace.take 13 ++ [.casBlob 0 0 1 1 1 1 2 false]) = none := by rfl

/-- the hypotheses of `try_only_idle_tso` are satisfiable -/
example : ∃ es s s', (sys true 0).run es = some s ∧
    step s (.casBlob 0 1 1 1 1 1 2 true) = some s' :=
  ⟨tryTrace.take 15, _, _, rfl, rfl⟩

/-- **Counter-trace without FIFO buffers** (`fifoBuf = false`, PSO-like): thread 0's ticket
    store drains BEFORE its data store; thread 1 acquires the lock and reads the stale 0
    although the last write under the lock was 7. -/
def psoTrace : List Ev := [
  .callLock 0, .faddUsers 0 0, .ldTicket 0 0, .retLock 0, .csEnter 0,
  .callLock 1, .faddUsers 1 1,
  .csWrite 0 7, .csExit 0, .callUnlock 0, .ldTicket 0 0, .stTicket 0 1,
  .flushAny 0 1,                                -- the ticket store overtakes the data store
  .ldTicket 1 1, .retLock 1, .csEnter 1, .csRead 1 0 ]

example : ((sys false 0).run psoTrace).map
    (fun s => (s.ticket, s.data, s.lastWrite, s.buf 0, s.pc 1)) =
    some (1, 0, 7, [.dat 7], .inCs) := by rfl

/-- x86-TSO does not accept that trace -/
example : (sys true 0).run psoTrace = none := by rfl

end LibfiberVerif.SpinTso
