/-
  Props/C12.lean — the fiber barrier (src/fiber_barrier.c).

  "No fiber returns from its k-th fiber_barrier_wait before count fibers have entered their
   k-th wait, exactly one of them is told it is the serial fiber, and all of them do return.
   This holds round after round when the same barrier is reused immediately by the same
   fibers."

  Model: `Barrier.sys count queues nodeOf` (Model/Barrier.lean), one step per shared access of
  fiber_barrier_wait / fiber_manager_wait_in_mpsc_queue / fiber_manager_wake_from_mpsc_queue,
  validated against the real code on every run of the check.  `queues = 1` is the code as it
  is, `queues = 2` the candidate fix docs/fix-C12.diff.  Any number of fibers may exist; at
  most `count` of them ever call wait (client assumption of the property).

  Vocabulary (Model/Barrier.lean, Proof/Barrier.lean):
    s.rnd f        number of waits fiber f has started (its current round)
    s.entered k    number of fibers that have entered their k-th wait (counted at the fetch_add)
    s.told k       number of fibers told to be the serial fiber in their k-th wait
    s.serials      number of arrivals that took the serial branch
    sig pc         coarse class of a pc: kind idle | called | pend (arrived .. parked, entry not
                   popped) | woken | pre / post (serial fiber inside the wake loop, before /
                   after the effect of the current pop) | done; `need` = pops still to be made
    inWakeLoop pc  := kind pre or post
    pendW / needW  1 for a pending waiter / outstanding pops of a fiber in the wake loop
    tot g l        sum of g over the list l

  RESULT.  Clauses that hold for the code as it is, for every count ≥ 1:
    `one_serial_per_round`, `single_consumer`, `pending_accounted`.
  The clause "no fiber returns from its k-th wait before count fibers have entered it" is FALSE
  for the code as it is when count ≥ 3 (F-C12): `no_early_pass_false` is a kernel-checked
  witness, the prefix of a trace logged from the real implementation.  It holds for
  count ≤ 2 (`no_early_pass_partial`) and for the two-queue fix (`no_early_pass_fixed`); with
  it come `one_serial_per_caller_round_*` and `no_stranded_*`.

  Full-strength statement that is NOT a theorem of the code as it is:
      theorem no_early_pass (hc : 0 < count) : ∀ es s, (sys count 1 nodeOf).run es = some s →
        ∀ f k b s', (sys count 1 nodeOf).step s (.retWait f k b) = some s' → count ≤ s.entered k
-/
import LibfiberVerif.Proof.Barrier

namespace LibfiberVerif.C12
open LibfiberVerif.Barrier

/-- the serial fiber is inside `fiber_manager_wake_from_mpsc_queue` (it has not finished its
    last wake-up) -/
def inWakeLoop (p : Pc) : Prop := (sig p).kind = .pre ∨ (sig p).kind = .post

/-! ## 1. clauses that hold for every variant, every count ≥ 1 -/

/-- Exactly one arrival out of every `count` consecutive ones is told to be the serial fiber:
    the number of serial decisions is the number of completed blocks of `count` arrivals. -/
theorem one_serial_per_round {count queues : Nat} {nodeOf : Nat → Nat} (hc : 0 < count) :
    ∀ es s, (sys count queues nodeOf).run es = some s → s.serials = s.counter / count := by
  intro es s h
  exact (invA_of_run hc h).ser

/-- ... and a fiber is told so exactly when its own fetch_add completed such a block: a
    `ret wait _ 1` is accepted only from a fiber that went through the wake loop, a
    `ret wait _ 0` only from a fiber whose queue entry was popped and whose wake-up is complete. -/
theorem serial_iff_went_through_wake_loop {count queues : Nat} {nodeOf : Nat → Nat} :
    ∀ s f k b s', (sys count queues nodeOf).step s (.retWait f k b) = some s' →
      k = s.rnd f ∧ ((∃ c, s.pc f = .serialDone c ∧ b = true) ∨ (∃ c, s.pc f = .runnable c ∧ b = false)) := by
  intro s f k b s' h
  exact retWait_pc (count := count) (queues := queues) h

/-- The waiter queue has a single consumer: at most one fiber is inside the wake loop - also
    in the presence of F-C12 (the serial fibers of two consecutive rounds never overlap). -/
theorem single_consumer {count queues : Nat} {nodeOf : Nat → Nat} (hc : 0 < count) :
    ∀ es s, (sys count queues nodeOf).run es = some s →
      ∀ f g, inWakeLoop (s.pc f) → inWakeLoop (s.pc g) → f = g := by
  intro es s h f g hf hg
  exact (invA_of_run hc h).single f g hf hg

/-- Accounting (the safety half of "all of them do return"): the number of waiters whose queue
    entry has not been popped equals the number of arrivals of the round still being filled
    plus the pops the serial fiber in the wake loop has still to make.  In particular, once a
    round is complete and its serial fiber has left the wake loop, no waiter is left over -
    in number; WHICH waiter is popped is the business of `no_early_pass`. -/
theorem pending_accounted {count queues : Nat} {nodeOf : Nat → Nat} (hc : 0 < count) :
    ∀ es s, (sys count queues nodeOf).run es = some s →
      tot (fun x => pendW (sig (s.pc x))) s.members
        = s.counter % count + tot (fun x => needW (sig (s.pc x))) s.members := by
  intro es s h
  exact (invA_of_run hc h).acct

/-- The participants: never more than `count` distinct fibers, and only they are ever inside. -/
theorem participants {count queues : Nat} {nodeOf : Nat → Nat} (hc : 0 < count) :
    ∀ es s, (sys count queues nodeOf).run es = some s →
      s.members.Nodup ∧ s.members.length ≤ count ∧ ∀ f, s.pc f ≠ .idle → f ∈ s.members := by
  intro es s h
  have hI := invA_of_run hc h
  refine ⟨hI.nodup, hI.len, ?_⟩
  intro f hf
  apply hI.mem f
  show (sig (s.pc f)).kind ≠ .idle
  intro hk
  apply hf
  cases hp : s.pc f <;> simp [hp] at hk ⊢

/-! ## 2. no early pass -/

/-- Under `queues = 2 ∨ count ≤ 2`: a `ret wait k` is accepted only when `count` fibers have
    entered their k-th wait. -/
theorem no_early_pass_of {count queues : Nat} {nodeOf : Nat → Nat} (hc : 0 < count)
    (H : queues = 2 ∨ count ≤ 2) :
    ∀ es s, (sys count queues nodeOf).run es = some s →
      ∀ f k b s', (sys count queues nodeOf).step s (.retWait f k b) = some s' →
        1 ≤ k ∧ s.entered k = count ∧ s.told k = 1 := by
  intro es s h f k b s' hst
  obtain ⟨_, hK⟩ := invK_of_run hc H h
  obtain ⟨hk, hpc⟩ := retWait_pc (count := count) (queues := queues) hst
  have hf := hK.fib f
  have hf' : ∃ c, c + 1 = s.counter / count ∧ s.rnd f = s.counter / count := by
    rcases hpc with ⟨c, hp, _⟩ | ⟨c, hp, _⟩
    · simp [abs, hp, fiberOk] at hf; exact ⟨c, hf⟩
    · simp [abs, hp, fiberOk] at hf; exact ⟨c, hf⟩
  obtain ⟨c, h1, h2⟩ := hf'
  have hk' : k = s.counter / count := by rw [hk]; exact h2
  have := hK.past k (by omega) (by rw [hk']; exact Nat.le_refl _)
  exact ⟨by omega, this.1, this.2⟩

/-- The code as it is, count ≤ 2: no fiber returns from its k-th wait before `count` fibers
    have entered their k-th wait. -/
theorem no_early_pass_partial {count : Nat} {nodeOf : Nat → Nat} (hc : 0 < count) (h2 : count ≤ 2) :
    ∀ es s, (sys count 1 nodeOf).run es = some s →
      ∀ f k b s', (sys count 1 nodeOf).step s (.retWait f k b) = some s' → count ≤ s.entered k := by
  intro es s h f k b s' hst
  have := (no_early_pass_of hc (Or.inr h2) es s h f k b s' hst).2.1
  omega

/-- The two-queue fix (docs/fix-C12.diff), every count ≥ 1: the full-strength clause. -/
theorem no_early_pass_fixed {count : Nat} {nodeOf : Nat → Nat} (hc : 0 < count) :
    ∀ es s, (sys count 2 nodeOf).run es = some s →
      ∀ f k b s', (sys count 2 nodeOf).step s (.retWait f k b) = some s' → count ≤ s.entered k := by
  intro es s h f k b s' hst
  have := (no_early_pass_of hc (Or.inl rfl) es s h f k b s' hst).2.1
  omega

/-- Under the same hypotheses, in terms of the CALLERS' rounds: every round k that is complete
    (k ≤ counter / count) was entered by exactly `count` fibers and exactly one of them was
    told to be the serial fiber; the round being filled has `counter % count` arrivals and no
    serial fiber yet; later rounds are untouched. -/
theorem one_serial_per_caller_round_of {count queues : Nat} {nodeOf : Nat → Nat} (hc : 0 < count)
    (H : queues = 2 ∨ count ≤ 2) :
    ∀ es s, (sys count queues nodeOf).run es = some s →
      (∀ k, 1 ≤ k → k ≤ s.counter / count → s.entered k = count ∧ s.told k = 1) ∧
      (s.entered (s.counter / count + 1) = s.counter % count ∧ s.told (s.counter / count + 1) = 0) ∧
      (∀ k, s.counter / count + 1 < k → s.entered k = 0 ∧ s.told k = 0) := by
  intro es s h
  obtain ⟨_, hK⟩ := invK_of_run hc H h
  exact ⟨hK.past, hK.now, hK.future⟩

theorem one_serial_per_caller_round_partial {count : Nat} {nodeOf : Nat → Nat} (hc : 0 < count)
    (h2 : count ≤ 2) : ∀ es s, (sys count 1 nodeOf).run es = some s →
      ∀ k, 1 ≤ k → k ≤ s.counter / count → s.entered k = count ∧ s.told k = 1 := by
  intro es s h
  exact (one_serial_per_caller_round_of hc (Or.inr h2) es s h).1

theorem one_serial_per_caller_round_fixed {count : Nat} {nodeOf : Nat → Nat} (hc : 0 < count) :
    ∀ es s, (sys count 2 nodeOf).run es = some s →
      ∀ k, 1 ≤ k → k ≤ s.counter / count → s.entered k = count ∧ s.told k = 1 := by
  intro es s h
  exact (one_serial_per_caller_round_of hc (Or.inl rfl) es s h).1

/-- Safety half of "all of them do return", under the same hypotheses: a waiter whose round is
    complete (all `count` fibers have entered it) and whose queue entry has not been popped
    yet is never stranded - a serial fiber is inside the wake loop with at least one more pop
    to make.  (That the pop then happens is a matter of fair scheduling, decided per run by
    the check: status HANG / the `stranded` oracle.) -/
theorem no_stranded_of {count queues : Nat} {nodeOf : Nat → Nat} (hc : 0 < count)
    (H : queues = 2 ∨ count ≤ 2) :
    ∀ es s, (sys count queues nodeOf).run es = some s →
      ∀ g, (sig (s.pc g)).kind = .pend → count ≤ s.entered (s.rnd g) →
        ∃ f ∈ s.members, 1 ≤ needW (sig (s.pc f)) := by
  intro es s h g hg hent
  obtain ⟨hA, hK⟩ := invK_of_run hc H h
  have hgm : g ∈ s.members := hA.mem g (by show (sig (s.pc g)).kind ≠ .idle; rw [hg]; simp)
  have hf := hK.fib g
  have hg' : ((abs s).sg g).kind = .pend := hg
  simp [fiberOk, hg'] at hf
  -- g's round is complete, so it is not the round being filled
  have hnow := hK.now.1
  have hlt := Nat.mod_lt s.counter hc
  have hc1 : ((abs s).sg g).c + 1 = s.counter / count := by
    rcases hf.1 with e | e
    · exfalso
      have hr : s.rnd g = s.counter / count + 1 := by
        have := hf.2.1; simp only [abs] at this e ⊢; omega
      rw [hr] at hent
      have : s.entered (s.counter / count + 1) = s.counter % count := hnow
      omega
    · exact e
  -- so it is counted by pendW but not by pendAtW: outstanding pops exist
  apply exists_of_tot_pos
  apply Classical.byContradiction
  intro hz
  have hN : tot (fun x => needW (sig (s.pc x))) s.members = 0 := by omega
  have hacct := hA.acct
  have hcur := hK.cur
  have heq := eq_of_tot_eq (g := fun x => pendAtW (s.counter / count) (sig (s.pc x)))
    (g' := fun x => pendW (sig (s.pc x))) (l := s.members)
    (fun x _ => pendAtW_le_pendW _ _) (by
      simp only [abs] at hacct hcur; omega)
  have := heq g hgm
  have e1 : pendW (sig (s.pc g)) = 1 := by simp [pendW, hg]
  have e2 : pendAtW (s.counter / count) (sig (s.pc g)) = 0 := by
    simp only [abs] at hc1
    simp [pendAtW, hg]; omega
  omega

theorem no_stranded_partial {count : Nat} {nodeOf : Nat → Nat} (hc : 0 < count) (h2 : count ≤ 2) :
    ∀ es s, (sys count 1 nodeOf).run es = some s →
      ∀ g, (sig (s.pc g)).kind = .pend → count ≤ s.entered (s.rnd g) →
        ∃ f ∈ s.members, 1 ≤ needW (sig (s.pc f)) :=
  no_stranded_of hc (Or.inr h2)

theorem no_stranded_fixed {count : Nat} {nodeOf : Nat → Nat} (hc : 0 < count) :
    ∀ es s, (sys count 2 nodeOf).run es = some s →
      ∀ g, (sig (s.pc g)).kind = .pend → count ≤ s.entered (s.rnd g) →
        ∃ f ∈ s.members, 1 ≤ needW (sig (s.pc f)) :=
  no_stranded_of hc (Or.inl rfl)

/-! ## 3. the code as it is violates `no_early_pass` for count = 3 (F-C12)

  The witness is the first 50 model events of a log of the REAL implementation
  (`barrier 3 'w,w|w,w|w,w'`, VR_SCHED=pct VR_SEED=708740839 VR_PCT_D=3 VR_PCT_LEN=40; fibers
  16 17 18, nodes: 1 = the queue's stub, 19 20 21 = the fibers' own nodes):
  16 has done its fetch_add (round 1) but is stalled before its xchg; 17 is enqueued; 18 is the
  serial fiber, pops 17 and polls for a second waiter; 17 returns, re-enters (round 2) and
  enqueues; 18 pops 17 AGAIN.  Now `ret wait 2` of fiber 17 is enabled although only one
  fiber has entered its 2nd wait. -/

def nodeOf (k : Nat) : Nat := k + 3

def witness : List Ev := [
    .callWait 16 1, .fadd 16 0, .wState 16 16 5, .rNode 16 16 19, .wData 16 19 16, .wNode 16 16 0,
     .wNext 16 19 0, .callWait 17 1, .fadd 17 1, .wState 17 17 5, .rNode 17 17 20, .wData 17 20 17,
     .wNode 17 17 0, .wNext 17 20 0, .xchgTail 17 0 1 20, .wNext 17 1 20, .callWait 18 1,
     .fadd 18 2, .rHead 18 0 1, .rNext 18 1 20, .wHead 18 0 20, .rData 18 20 17, .wData 18 1 17,
     .rData 18 1 17, .wNode 18 17 1, .rState 18 17 3, .wState 18 17 2, .rHead 18 0 20,
     .rNext 18 20 0, .rHead 18 0 20, .rNext 18 20 0, .retWait 17 1 false, .callWait 17 2,
     .fadd 17 3, .wState 17 17 5, .rNode 17 17 1, .wData 17 1 17, .wNode 17 17 0, .wNext 17 1 0,
     .xchgTail 17 0 20 1, .wNext 17 20 1, .rHead 18 0 20, .rNext 18 20 1, .wHead 18 0 1,
     .rData 18 1 17, .wData 18 20 17, .rData 18 20 17, .wNode 18 17 20, .rState 18 17 3,
     .wState 18 17 2
  ]

/-- the state reached by the witness trace (it is accepted: `witness_accepted`) -/
def witnessState : St := (((sys 3 1 nodeOf).run witness).getD (init nodeOf))

theorem witness_accepted : ((sys 3 1 nodeOf).run witness).isSome = true := by decide

theorem no_early_pass_false :
    ∃ es s f k b s', (sys 3 1 nodeOf).run es = some s ∧
      (sys 3 1 nodeOf).step s (.retWait f k b) = some s' ∧ s.entered k < 3 := by
  have hrun : (sys 3 1 nodeOf).run witness = some witnessState := by
    unfold witnessState
    cases h : (sys 3 1 nodeOf).run witness with
    | none => have := witness_accepted; rw [h] at this; simp at this
    | some s => rfl
  have hstep : ((sys 3 1 nodeOf).step witnessState (.retWait 17 2 false)).isSome = true := by decide
  have hent : witnessState.entered 2 < 3 := by decide
  cases hs : (sys 3 1 nodeOf).step witnessState (.retWait 17 2 false) with
  | none => rw [hs] at hstep; simp at hstep
  | some s' => exact ⟨witness, witnessState, 17, 2, false, s', hrun, hs, hent⟩

/-- ... and the displaced round-1 waiter: in the same state fiber 16 has entered round 1, all
    three fibers have, fiber 18 (the round-1 serial fiber) has made both its pops, and fiber
    16 is still waiting: `no_stranded` fails as well. -/
theorem no_stranded_false :
    ∃ es s g, (sys 3 1 nodeOf).run es = some s ∧ (sig (s.pc g)).kind = .pend ∧
      3 ≤ s.entered (s.rnd g) ∧ ∀ f ∈ s.members, needW (sig (s.pc f)) = 0 := by
  have hrun : (sys 3 1 nodeOf).run witness = some witnessState := by
    unfold witnessState
    cases h : (sys 3 1 nodeOf).run witness with
    | none => have := witness_accepted; rw [h] at this; simp at this
    | some s => rfl
  refine ⟨witness, witnessState, 16, hrun, by decide, by decide, by decide⟩

/-! ## 4. non-vacuity: accepted traces of the real implementation -/

/-- `barrier 2 'w,w|w,w|w,w'` (VR_SCHED=rand VR_SEED=3): three fibers, two rounds, the code as
    it is; every access of the run, 82 model events -/
def demo : List Ev := [
    .callWait 18 1, .fadd 18 0, .wState 18 18 5, .rNode 18 18 21, .wData 18 21 18, .wNode 18 18 0,
     .wNext 18 21 0, .xchgTail 18 0 1 21, .callWait 16 1, .fadd 16 1, .wNext 18 1 21,
     .wState 16 16 5, .rNode 16 16 19, .wData 16 19 16, .callWait 17 1, .wNode 16 16 0,
     .wNext 16 19 0, .fadd 17 2, .xchgTail 16 0 21 19, .wNext 16 21 19, .rHead 17 0 1,
     .rNext 17 1 21, .wHead 17 0 21, .rData 17 21 18, .wData 17 1 18, .rData 17 1 18,
     .wNode 17 18 1, .rState 17 18 3, .wState 17 18 2, .rHead 17 0 21, .rNext 17 21 19,
     .wHead 17 0 19, .rData 17 19 16, .wData 17 21 16, .rData 17 21 16, .wNode 17 16 21,
     .rState 17 16 3, .wState 17 16 2, .retWait 17 1 true, .callWait 17 2, .fadd 17 3,
     .wState 17 17 5, .rNode 17 17 20, .wData 17 20 17, .wNode 17 17 0, .wNext 17 20 0,
     .xchgTail 17 0 19 20, .wNext 17 19 20, .retWait 18 1 false, .callWait 18 2, .fadd 18 4,
     .wState 18 18 5, .rNode 18 18 1, .wData 18 1 18, .wNode 18 18 0, .wNext 18 1 0,
     .xchgTail 18 0 20 1, .wNext 18 20 1, .retWait 16 1 false, .callWait 16 2, .fadd 16 5,
     .rHead 16 0 19, .rNext 16 19 20, .wHead 16 0 20, .rData 16 20 17, .wData 16 19 17,
     .rData 16 19 17, .wNode 16 17 19, .rState 16 17 3, .wState 16 17 2, .rHead 16 0 20,
     .rNext 16 20 1, .wHead 16 0 1, .rData 16 1 18, .wData 16 20 18, .rData 16 20 18,
     .wNode 16 18 20, .rState 16 18 3, .wState 16 18 2, .retWait 16 2 true, .retWait 18 2 false,
     .retWait 17 2 false
  ]

example : ((sys 3 1 nodeOf).run demo).isSome = true := by decide
/-- after the run: 6 arrivals, 2 serial decisions, every round entered by 3 and told once -/
example : ((sys 3 1 nodeOf).run demo).map (fun s => (s.counter, s.serials, s.members.length)) =
    some (6, 2, 3) := by decide
example : ((sys 3 1 nodeOf).run demo).map (fun s => (s.entered 1, s.entered 2, s.told 1, s.told 2)) =
    some (3, 3, 1, 1) := by decide

/-- `barrier 2 'w,w|w,w'` (VR_SCHED=rand VR_SEED=7): count = 2, the hypotheses of the
    `_partial` theorems are satisfiable by a trace with waiting, waking and returns -/
def demo2 : List Ev := [
    .callWait 16 1, .fadd 16 0, .wState 16 16 5, .rNode 16 16 19, .wData 16 19 16, .callWait 17 1,
     .wNode 16 16 0, .fadd 17 1, .wNext 16 19 0, .xchgTail 16 0 1 19, .wNext 16 1 19, .rHead 17 0 1,
     .rNext 17 1 19, .wHead 17 0 19, .rData 17 19 16, .wData 17 1 16, .rData 17 1 16,
     .wNode 17 16 1, .rState 17 16 3, .wState 17 16 2, .retWait 17 1 true, .callWait 17 2,
     .fadd 17 2, .wState 17 17 5, .rNode 17 17 20, .wData 17 20 17, .wNode 17 17 0, .wNext 17 20 0,
     .xchgTail 17 0 19 20, .wNext 17 19 20, .retWait 16 1 false, .callWait 16 2, .fadd 16 3,
     .rHead 16 0 19, .rNext 16 19 20, .wHead 16 0 20, .rData 16 20 17, .wData 16 19 17,
     .rData 16 19 17, .wNode 16 17 19, .rState 16 17 3, .wState 16 17 2, .retWait 16 2 true,
     .retWait 17 2 false
  ]

example : ((sys 2 1 nodeOf).run demo2).isSome = true := by decide
example : ((sys 2 1 nodeOf).run demo2).map (fun s => (s.counter, s.entered 1, s.entered 2, s.told 2)) =
    some (4, 2, 2, 1) := by decide

/-- the candidate fix (docs/fix-C12.diff) under the schedule of the known finding
    (`barrier 2 'w,w|w,w|w,w'`, VR_SCHED=freeze VR_SEED=4 VR_FREEZE_DEN=6 VR_FREEZE_LEN=300):
    accepted by the two-queue variant, both queues in use -/
def demoFixed : List Ev := [
    .callWait 18 1, .fadd 18 0, .wState 18 18 5, .rNode 18 18 21, .wData 18 21 18, .wNode 18 18 0,
     .wNext 18 21 0, .callWait 16 1, .fadd 16 1, .xchgTail 18 0 1 21, .wNext 18 1 21,
     .callWait 17 1, .fadd 17 2, .rHead 17 0 1, .rNext 17 1 21, .wHead 17 0 21, .rData 17 21 18,
     .wData 17 1 18, .rData 17 1 18, .wNode 17 18 1, .rState 17 18 3, .wState 17 18 2,
     .rHead 17 0 21, .rNext 17 21 0, .retWait 18 1 false, .callWait 18 2, .fadd 18 3,
     .wState 18 18 5, .rNode 18 18 1, .wData 18 1 18, .wNode 18 18 0, .wNext 18 1 0,
     .xchgTail 18 1 2 1, .wNext 18 2 1, .wState 16 16 5, .rNode 16 16 19, .wData 16 19 16,
     .wNode 16 16 0, .wNext 16 19 0, .xchgTail 16 0 21 19, .wNext 16 21 19, .rHead 17 0 21,
     .rNext 17 21 19, .wHead 17 0 19, .rData 17 19 16, .wData 17 21 16, .rData 17 21 16,
     .wNode 17 16 21, .rState 17 16 3, .wState 17 16 2, .retWait 17 1 true, .callWait 17 2,
     .fadd 17 4, .wState 17 17 5, .rNode 17 17 20, .wData 17 20 17, .wNode 17 17 0, .wNext 17 20 0,
     .xchgTail 17 1 1 20, .wNext 17 1 20, .retWait 16 1 false, .callWait 16 2, .fadd 16 5,
     .rHead 16 1 2, .rNext 16 2 1, .wHead 16 1 1, .rData 16 1 18, .wData 16 2 18, .rData 16 2 18,
     .wNode 16 18 2, .rState 16 18 3, .wState 16 18 2, .rHead 16 1 1, .rNext 16 1 20,
     .wHead 16 1 20, .rData 16 20 17, .wData 16 1 17, .rData 16 1 17, .wNode 16 17 1,
     .rState 16 17 3, .wState 16 17 2, .retWait 16 2 true, .retWait 17 2 false, .retWait 18 2 false
  ]

example : ((sys 3 2 nodeOf).run demoFixed).isSome = true := by decide
example : ((sys 3 2 nodeOf).run demoFixed).map (fun s => (s.counter, s.serials, s.entered 1, s.entered 2,
    ((s.q 0).order.length, (s.q 1).order.length))) = some (6, 2, 3, 3, (2, 2)) := by decide
/-- the one-queue model does NOT accept the fixed code's trace and vice versa: the two
    variants are told apart by the correspondence check -/
example : ((sys 3 1 nodeOf).run demoFixed).isSome = false := by decide
example : ((sys 3 2 nodeOf).run demo).isSome = false := by decide

end LibfiberVerif.C12
