/-
  Props/C08.lean — shimmed descriptor I/O.

  "A read/readv/recv*/write/writev/send*/accept/connect/close/fcntl/ioctl call on a socket or pipe
   made from a fiber returns a result the plain blocking call is allowed to return: data arrives
   complete, in order and unduplicated (a transfer may be short but never empty), a call on a
   descriptor in blocking mode suspends only the calling fiber and never fails with
   EAGAIN/EWOULDBLOCK, O_NONBLOCK/FIONBIO/MSG_DONTWAIT calls return immediately, and an invalid
   descriptor yields an error return, never a crash or out-of-bounds access.  A fiber blocked on a
   descriptor is always resumed when it becomes ready or is closed, and other fibers on the same
   kernel thread keep running meanwhile."

  Model: `IoShim.sys D maxFd` (Model/IoShim.lean), any number of fibers / kernel threads /
  descriptors / calls, every kernel answer an input.  `D : Decisions` are the decision points of
  the source; `codeDecisions` is what extract/io_extract.py read from the CURRENT
  src/fiber_io.c + src/fiber_event_native.c (Gen/IoDecisions.lean, regenerated on every run).
  Every theorem is stated for an arbitrary `D` with exactly the decisions it needs as
  hypotheses, and then instantiated for the code (`…_code`) through the `code_*` facts, which
  are `decide`d against the generated file: when the source changes a decision, the
  corresponding `code_*` obligation (and only the theorems that need it) break.

  What the source does NOT implement (known findings F-C08e/f/j, see known_findings.json):
  `readTriesFirst`, `fcntlMask`, `closeUnderLock` are false in the code; `close_wakes_all` is
  therefore only proved in its partial form and its full form is refuted by a witness.
  F-C08g (polling only when a kernel thread is idle) belongs to the scheduler (C01/C10) and
  F-C08i (errno's address cached across a migration) is below the model: the model reads the
  kernel's answer of the CURRENT call; both are covered by the harness oracles only.
-/
import LibfiberVerif.Proof.IoShim

namespace LibfiberVerif.C08
open LibfiberVerif.IoShim

/-! ## 0. the decision points of the current source -/

theorem code_blockNeedsBoth : codeDecisions.blockNeedsBoth = true := by decide
theorem code_acceptLoops : codeDecisions.acceptLoops = true := by decide
theorem code_boundsChecked : codeDecisions.boundsChecked = true := by decide
theorem code_errnoOnClosed : codeDecisions.errnoOnClosed = true := by decide
theorem code_ctlChecked : codeDecisions.ctlChecked = true := by decide
/-- write/writev/send/sendto/sendmsg retry after every wait; recv*/send* honour MSG_DONTWAIT
    (the shapes the model's `afterSys` / `enter` transcribe) -/
theorem code_loop_shapes : Gen.Io.writeLoops = true ∧ Gen.Io.dontwaitHonoured = true := by decide
theorem code_flag_values : Gen.Io.flagBlocking = FB ∧ Gen.Io.flagWaitable = FW := by decide
/-- the whole record: the tree after the fix commits F-C08a, b, c, d, h -/
theorem decisions_ok : codeDecisions = fixedDecisions := by decide

/-! ## 1. O_NONBLOCK / FIONBIO / MSG_DONTWAIT calls return immediately -/

theorem sb_both {D : Decisions} (h : D.blockNeedsBoth = true) (v : Nat) :
    sb D v = true ↔ v &&& (FB ||| FW) = (FB ||| FW) := by
  simp [sb, h]

/-- A fiber enters fiber_wait_for_event only from a call without MSG_DONTWAIT whose latest
    `should_block` evaluation loaded flags with BOTH IO_FLAG_BLOCKING and IO_FLAG_WAITABLE. -/
theorem nonblocking_immediate (D : Decisions) (ha : D.blockNeedsBoth = true) (m : Int) :
    ∀ es s, (sys D m).run es = some s → ∀ f c, s.pc f = .wantWait c →
      c.dw = false ∧ ∃ v, s.lastChk f = some v ∧ v &&& (FB ||| FW) = (FB ||| FW) := by
  intro es s h f c hpc
  have hs := sinv_of_run h f
  simp only [SOk, hpc, SOkC] at hs
  obtain ⟨h1, _, _, v, hv, hsb⟩ := hs
  exact ⟨h1, v, hv, (sb_both ha v).mp hsb⟩

/-- … and flags from which fcntl(O_NONBLOCK) / ioctl(FIONBIO, 1) cleared IO_FLAG_BLOCKING
    (`fetch_and ~IO_FLAG_BLOCKING`, operand 254) never satisfy that predicate. -/
theorem nonblock_flags_never_block (old : Nat) : (old &&& 254) &&& (FB ||| FW) ≠ (FB ||| FW) := by
  have h : (old &&& 254) &&& (FB ||| FW) = old &&& 2 := by
    rw [Nat.and_assoc]; rfl
  rw [h]
  have : old &&& 2 ≤ 2 := Nat.and_le_right
  intro h2
  have : (FB ||| FW) = 3 := rfl
  omega

theorem nonblocking_immediate_code (m : Int) :
    ∀ es s, (sys codeDecisions m).run es = some s → ∀ f c, s.pc f = .wantWait c →
      c.dw = false ∧ ∃ v, s.lastChk f = some v ∧ v &&& (FB ||| FW) = (FB ||| FW) :=
  nonblocking_immediate codeDecisions code_blockNeedsBoth m

/-! ## 2. a call on a descriptor in blocking mode never fails with EAGAIN -/

/-- When a read/write-family call or accept is about to return −1/EAGAIN, then MSG_DONTWAIT was
    given, or the descriptor is outside the table, or the `should_block` evaluation that
    followed the last underlying call saw flags that do not ask for blocking. -/
theorem blocking_never_eagain (D : Decisions) (hb : D.acceptLoops = true) (m : Int) :
    ∀ es s, (sys D m).run es = some s → ∀ f c, s.pc f = .retv c (.err EAGAIN) → c.op.xfer = true →
      c.dw = true ∨ inRange m c.fd = false ∨ ∃ v, s.lastChk f = some v ∧ sb D v = false := by
  intro es s h f c hpc hx
  have hs := sinv_of_run h f
  have hm : s.maxFd = m := by
    have := Sys.inv_of_run (sys D m) (fun s => s.maxFd = m) rfl
      (fun s e s' hi hst => by rw [step_maxFd hst]; exact hi) h
    exact this
  simp only [SOk, hpc, SOkC, hm] at hs
  have hj := (hs hx).2 rfl
  rcases hj with h1 | h1 | h1 | h1
  · exact Or.inl h1
  · exact Or.inr (Or.inl h1)
  · exact Or.inr (Or.inr h1)
  · rw [hb] at h1; exact absurd h1.2 (by decide)

/-- The value handed to the caller: a `ret` event with −1/EAGAIN is accepted only in such a state
    (a wait ended by close() reports EBADF, fix d). -/
theorem ret_eagain_justified (D : Decisions) (hb : D.acceptLoops = true) (hd : D.errnoOnClosed = true) (m : Int) :
    ∀ es s, (sys D m).run es = some s → ∀ f op s', op.xfer = true →
      (sys D m).step s (.ret f op (.err EAGAIN)) = some s' →
      ∃ c, c.op = op ∧ s.pc f = .retv c (.err EAGAIN) ∧
        (c.dw = true ∨ inRange m c.fd = false ∨ ∃ v, s.lastChk f = some v ∧ sb D v = false) := by
  intro es s h f op s' hx hst
  have hst' : step D s (.ret f op (.err EAGAIN)) = some s' := hst
  simp only [step] at hst'
  split at hst'
  · rename_i c r0 hpc
    split at hst'
    · rename_i hc
      obtain ⟨h1, h2⟩ := hc
      subst h2
      exact ⟨c, h1.symm, hpc, blocking_never_eagain D hb m es s h f c hpc (h1 ▸ hx)⟩
    · simp at hst'
  · rename_i c hpc
    split at hst'
    · rename_i hc
      have := hc.2 hd
      simp [EAGAIN, EBADF] at this
    · simp at hst'
  · rename_i c hpc
    have hs := sinv_of_run h f
    simp only [SOk, hpc, SOkC] at hs
    split at hst'
    · rename_i hc
      rw [hc.1] at hx
      rw [hx] at hs; simp at hs
    · simp at hst'
  · simp at hst'

theorem blocking_never_eagain_code (m : Int) :
    ∀ es s, (sys codeDecisions m).run es = some s → ∀ f op s', op.xfer = true →
      (sys codeDecisions m).step s (.ret f op (.err EAGAIN)) = some s' →
      ∃ c, c.op = op ∧ s.pc f = .retv c (.err EAGAIN) ∧
        (c.dw = true ∨ inRange m c.fd = false ∨ ∃ v, s.lastChk f = some v ∧ sb codeDecisions v = false) :=
  ret_eagain_justified codeDecisions code_acceptLoops code_errnoOnClosed m

/-! ## 3. transparency: complete, ordered, unduplicated, short but never invented -/

/-- The value a read/write-family call or accept returns is the LAST underlying call's; every
    earlier underlying call of the invocation failed with EAGAIN (so transferred nothing). -/
theorem transparent (D : Decisions) (m : Int) :
    ∀ es s, (sys D m).run es = some s → ∀ f c r, s.pc f = .retv c r → c.op.xfer = true →
      ∃ rest, s.syss f = r :: rest ∧ ∀ x ∈ rest, x = .err EAGAIN := by
  intro es s h f c r hpc hx
  have hs := sinv_of_run h f
  simp only [SOk, hpc, SOkC] at hs
  obtain ⟨rest, h1, h2⟩ := (hs hx).1
  refine ⟨rest, h1, ?_⟩
  intro x hxm
  have hr := h2 x hxm
  have hnc : c.op.isConnect = false := by
    cases hc : c.op <;> simp_all [Op.xfer, Op.isRead, Op.isWrite, Op.isAccept, Op.isConnect]
  cases x with
  | ok n => simp [retryable] at hr
  | err e => simp [retryable, hnc] at hr; rw [hr]

/-! ## 4. every index into fd_info / wait_info is inside [0, max_fd) -/

/-- `idx e` = the descriptor with which event `e` indexes one of the two tables. -/
theorem index_in_bounds (D : Decisions) (hc : D.boundsChecked = true) (m : Int) :
    ∀ es s, (sys D m).run es = some s → ∀ e s', (sys D m).step s e = some s' →
      ∀ fd, idx e = some fd → 0 ≤ fd ∧ fd < m := by
  intro es s h e s' hst fd hi
  have hm : s.maxFd = m :=
    Sys.inv_of_run (sys D m) (fun s => s.maxFd = m) rfl
      (fun s e s' hi hst => by rw [step_maxFd hst]; exact hi) h
  obtain ⟨hs, hx⟩ := xinv_sinv_of_run hc h
  have := index_step hc hs hx hst hi
  rw [hm] at this
  simpa [inRange] using this

theorem index_in_bounds_code (m : Int) :
    ∀ es s, (sys codeDecisions m).run es = some s → ∀ e s', (sys codeDecisions m).step s e = some s' →
      ∀ fd, idx e = some fd → 0 ≤ fd ∧ fd < m :=
  index_in_bounds codeDecisions code_boundsChecked m

/-! ## 5. a parked fiber is armed; the sweep of close() wakes everybody on the list -/

/-- Outside the critical sections: if somebody is parked on `fd` then its interest is armed in
    epoll (or the event is already on its way to a poller) — unless that descriptor NUMBER has
    been closed at some time (the close race, F-C08j). -/
theorem waiter_armed (D : Decisions) (hh : D.ctlChecked = true) (m : Int) :
    ∀ es s, (sys D m).run es = some s → ∀ fd, (s.sec fd = .free ∨ s.sec fd = .parked) →
      s.waiters fd ≠ [] → s.interest fd ≠ 0 ∨ s.everClosed fd = true := by
  intro es s h fd hsec hw
  have he := einv_of_run hh h fd
  unfold EOk at he
  rcases hsec with h1 | h1 <;> rw [h1] at he <;> exact he hw

theorem waiter_armed_code (m : Int) :
    ∀ es s, (sys codeDecisions m).run es = some s → ∀ fd, (s.sec fd = .free ∨ s.sec fd = .parked) →
      s.waiters fd ≠ [] → s.interest fd ≠ 0 ∨ s.everClosed fd = true :=
  waiter_armed codeDecisions code_ctlChecked m

/-- PARTIAL form of "a fiber blocked on a descriptor is resumed when it is closed": when the wake
    loop of fiber_fd_closed (or of the poller) is over, the waiter list is empty — everybody who
    was parked when the sweep took the lock has been made READY.  (Each of them got result −1
    from fiber_fd_closed: the `wScr` step of stage `l6` stores `res`.) -/
theorem close_wakes_all_partial (D : Decisions) (hh : D.ctlChecked = true) (m : Int) :
    ∀ es s, (sys D m).run es = some s → ∀ fd a, s.sec fd = .done a → s.waiters fd = [] := by
  intro es s h fd a hsec
  have he := einv_of_run hh h fd
  unfold EOk at he
  rw [hsec] at he
  exact he

/-! ## 6. an invalid descriptor yields an error return -/

/-- In every run in which the kernel rejects calls on descriptors that are not open (`kernelOk`):
    a shim called with a descriptor outside [0, max_fd) returns −1/EBADF (it hands the call to the
    real libc function and touches none of its tables, see `index_in_bounds`). -/
theorem invalid_fd_error (D : Decisions) (hc : D.boundsChecked = true) (m : Int) :
    ∀ es s, (sysK D m).run es = some s → ∀ f c r, s.pc f = .retv c r →
      inRange m c.fd = false → c.op.isCreate = false → r = .err EBADF := by
  intro es s h f c r hpc hr hcr
  obtain ⟨_, _, hbi, hm⟩ := allinv_of_runK hc h
  have := hbi f
  simp only [BOk, hpc, BOkC, hm] at this
  exact this hr hcr

theorem invalid_fd_error_code (m : Int) :
    ∀ es s, (sysK codeDecisions m).run es = some s → ∀ f c r, s.pc f = .retv c r →
      inRange m c.fd = false → c.op.isCreate = false → r = .err EBADF :=
  invalid_fd_error codeDecisions code_boundsChecked m

/-! ## 7. witnesses: what the source did before the fix commits, and what it still does -/

def rd5 : Call := { op := .read, fd := 5, dw := false }
def rd6 : Call := { op := .read, fd := 6, dw := false }
def acc5 : Call := { op := .accept, fd := 5, dw := false }

/-- main: socketpair() → descriptors 5, 6 -/
def mkpair : List Ev :=
  [.call 0 { op := .socketpair, fd := -1, dw := false }, .sys2 0 5 6 (.ok 0), .fOr 0 5 0 3, .sysCtl 0 5 (.ok 0),
   .fOr 0 6 0 3, .sysCtl 0 6 (.ok 0), .ret 0 .socketpair (.ok 0)]

/-- main: socket() → descriptor 5 (the listener) -/
def mklisten : List Ev :=
  [.call 0 { op := .socket, fd := -1, dw := false }, .sys 0 (-1) (.ok 5), .fOr 0 5 0 3, .sysCtl 0 5 (.ok 0),
   .ret 0 .socket (.ok 5)]

/-- fiber `f` registers for EPOLLIN on `fd` (first registration), parks; fiber `u` releases the lock -/
def waitIn (f : Nat) (fd : Int) (u : Nat) (t : Nat) : List Ev :=
  [.lkTake f fd t, .lkPoll f fd t, .rEvents f fd 0, .wEvents f fd 1, .rEvents f fd 1, .rAdded f fd 0,
   .ctl f 0 fd 1 true, .wAdded f fd 1, .rWaiters f fd 0, .wScr f f 0, .wWaiters f fd f, .wSt f f 3,
   .ulLoad u fd t, .ulStore u fd (t + 1)]

/-- poller `p` handles EPOLLIN on `fd` with the single waiter `g` -/
def pollIn (p : Nat) (fd : Int) (g : Nat) (t : Nat) : List Ev :=
  [.lkTake p fd t, .lkPoll p fd t, .rEvents p fd 1, .wEvents p fd 0, .rWaiters p fd g, .rScr p g 0,
   .wWaiters p fd 0, .wScr p g 0, .wSt p g 2, .wScr p g 0, .rWaiters p fd 0, .ulLoad p fd t, .ulStore p fd (t + 1)]

/-- F-C08a (before 6593346): fcntl(6, F_SETFL, O_NONBLOCK), then read(6) on the empty socket -/
def traceA : List Ev :=
  mkpair ++ [.call 16 { op := .fcntlNb, fd := 6, dw := false }, .fAnd 16 6 3 254, .ret 16 .fcntlNb (.ok 0),
             .call 16 rd6, .fLoad 16 6 2]

/-- `nonblocking_immediate` was FALSE for the old predicate: with IO_FLAG_BLOCKING cleared (flags = 2)
    the read still goes to fiber_wait_for_event. -/
theorem nonblocking_immediate_false_before_fix :
    ((sys currentDecisions 100).run traceA).map (fun s => (s.pc 16, s.lastChk 16)) =
      some (.wantWait rd6, some 2) := by decide

/-- … with the fixed predicate (and the `fd_is_managed` load of fix c) the same calls end in the
    underlying read, whose EAGAIN is then returned: no wait. -/
example : ((sys fixedDecisions 100).run (mkpair ++ [.call 16 { op := .fcntlNb, fd := 6, dw := false },
      .fLoad 16 6 3, .fAnd 16 6 3 254, .ret 16 .fcntlNb (.ok 0), .call 16 rd6, .fLoad 16 6 2, .sys 16 6 (.err 11),
      .fLoad 16 6 2])).map (fun s => (s.pc 16, s.lastChk 16)) =
    some (.retv rd6 (.err EAGAIN), some 2) := by decide

/-- F-C08b (before 8a6481a): two acceptors, one connection: the loser's second accept() fails with
    EAGAIN and the shim returns it although the listener is in blocking mode. -/
def traceB : List Ev :=
  mklisten ++ [.call 16 acc5, .sys 16 5 (.err 11), .fLoad 16 5 3] ++ waitIn 16 5 17 0 ++ pollIn 18 5 16 1 ++
    [.rScr 16 16 0, .sys 16 5 (.err 11)]

/-- `blocking_never_eagain` was FALSE for accept when it retried only once: about to return
    −1/EAGAIN, no MSG_DONTWAIT, descriptor in range, and NO `should_block` evaluation since the
    last underlying call. -/
theorem blocking_never_eagain_false_before_fix :
    ((sys currentDecisions 100).run traceB).map (fun s => (s.pc 16, s.lastChk 16, inRange 100 5)) =
      some (.retv acc5 (.err EAGAIN), none, true) := by decide

/-- with the loop the same prefix continues with another `should_block` evaluation -/
example : ((sys fixedDecisions 100).run traceB).map (fun s => s.pc 16) =
    some (.sbRetry acc5 (.err EAGAIN)) := by decide

/-- F-C08c (before 2f17cea): close(−1) takes the spinlock of wait_info[−1] -/
def traceC : List Ev := [.call 16 { op := .close, fd := -1, dw := false }, .lkTake 16 (-1) 0]

/-- `index_in_bounds` was FALSE without the bounds checks … -/
theorem index_in_bounds_false_before_fix :
    ((sys currentDecisions 100).run traceC).isSome = true ∧ idx (.lkTake 16 (-1) 0) = some (-1) := by decide

/-- … and the checked variant refuses that access (close(−1) goes straight to the real close). -/
example : ((sys fixedDecisions 100).run traceC).isSome = false := by decide
example : ((sysK fixedDecisions 100).run
    [.call 16 { op := .close, fd := -1, dw := false }, .sys 16 (-1) (.err EBADF), .ret 16 .close (.err EBADF)]).isSome = true := by decide

/-- F-C08j (NOT fixed; known finding): fiber 17 has passed `should_block` for read(5); fiber 16 runs
    close(5): the sweep finds nobody, releases the lock; fiber 17 now registers (EPOLL_CTL_ADD still
    succeeds) and parks; fiber 16 clears the flags and really closes the descriptor. -/
def traceJ : List Ev :=
  mkpair ++ [.call 17 rd5, .fLoad 17 5 3, .call 16 { op := .close, fd := 5, dw := false },
    .lkTake 16 5 0, .lkPoll 16 5 0, .rBoth 16 5 0 0, .rWaiters 16 5 0, .ulLoad 16 5 0, .ulStore 16 5 1] ++
  waitIn 17 5 18 1 ++ [.fStore 16 5 0, .sys 16 5 (.ok 0), .ret 16 .close (.ok 0)]

/-- The full clause "a fiber blocked on a descriptor is resumed when it is closed" is FALSE for the
    code as it is: descriptor 5 is closed, no critical section is in progress, nobody will ever
    touch wait_info[5] again on its behalf - and fiber 17 is parked on it, unarmed. -/
theorem close_wakes_all_false :
    ((sys codeDecisions 100).run traceJ).map
        (fun s => (s.isOpen 5, s.waiters 5, decide (s.sec 5 = .free), s.pc 17, s.interest 5, s.pc 16)) =
      some (false, [17], true, .inWait rd5, 0, .idle) := by decide

/-! ## 8. non-vacuity: the hypotheses of the theorems are met by non-trivial runs -/

/-- a blocking read that parks, is woken by the poller after a write, and returns the 10 bytes:
    passes through `wantWait` (theorem 1), a parked waiter with armed interest (theorem 5),
    `retv` (theorems 2, 3), indexes the tables (theorem 4), and obeys `kernelOk` (theorem 6) -/
def traceOk : List Ev :=
  mkpair ++ [.call 16 rd6, .fLoad 16 6 3] ++ waitIn 16 6 17 0 ++
  [.call 19 { op := .write, fd := 5, dw := false }, .sys 19 5 (.ok 10), .ret 19 .write (.ok 10)] ++
  pollIn 18 6 16 1 ++ [.rScr 16 16 0, .sys 16 6 (.ok 10), .ret 16 .read (.ok 10)]

example : ((sysK codeDecisions 100).run traceOk).map (fun s => (s.pc 16, s.waiters 6, s.events 6)) =
    some (.idle, [], 0) := by decide

/-- … the moment the reader is parked: waiters = [16], interest armed, lock released -/
example : ((sys codeDecisions 100).run (mkpair ++ [.call 16 rd6, .fLoad 16 6 3] ++ waitIn 16 6 17 0)).map
    (fun s => (s.waiters 6, s.interest 6, decide (s.sec 6 = .free), s.pc 16)) =
    some ([16], 1, true, .inWait rd6) := by decide

/-- … and the moment it is about to return: the last underlying result, preceded by nothing -/
example : ((sys codeDecisions 100).run (traceOk.take 41)).map (fun s => (s.pc 16, s.syss 16)) =
    some (.retv rd6 (.ok 10), [.ok 10]) := by decide

/-- a retried write: EAGAIN, wait, then 7 bytes - `transparent` with a non-empty EAGAIN prefix -/
example : ((sys codeDecisions 100).run (mkpair ++ [.call 16 { op := .write, fd := 5, dw := false },
      .sys 16 5 (.err 11), .fLoad 16 5 3])).map (fun s => (s.pc 16, s.syss 16)) =
    some (.wantWait { op := .write, fd := 5, dw := false }, [.err 11]) := by decide

end LibfiberVerif.C08
