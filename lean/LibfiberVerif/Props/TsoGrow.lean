/-
  Props/TsoGrow.lean — exactly-once for the Chase–Lev deque of src/work_stealing_deque.c on
  x86-TSO, INCLUDING ARRAY GROWTH (obligation of property C02; closes the gap left by
  `Props/Tso.lean` (a), whose store-buffer model has a fixed array).

  Model: `Model/WsdTsoGrow.lean` on top of the store-buffer layer `Model/Tso.lean`.
  Invariant: `Proof/WsdTsoGrow.lean`.

  ## What is proved  (machine `tso k0 = sys (fenced := true) (ordered := true) k0`, every
  accepted trace: any interleaving, arbitrary `flush` events, any number of thieves, unbounded
  runs, any number of growth steps, any initial size `2^k0`)

    * `exactly_once_tso_grow`, `returned_le_pushed_tso_grow`, `no_double_take_tso_grow` —
      the statement of `Wsd.exactly_once` / `WsdTso.exactly_once_fenced`.
    * `stale_generation_read_harmless`, `stale_generation_slot_valid` — a thief that holds a
      STALE array pointer (any older generation) reads, for an index its CAS can still win, the
      value of that index; the slot it is going to read is already right in memory and stays
      right in every later state of memory.
    * `superseded_generation_never_written`, `buffered_stores_target_visible_or_newer` — once
      the owner has issued the pointer store for generation `g + 1`, no store to generation `g`
      is ever issued again; and in memory order (every partial drain of the buffer) no store to a
      generation older than the currently VISIBLE pointer is pending: old generations are
      read-only from the moment any thief can know that they are old.
    * `pointer_store_behind_copy_stores` — the role of FIFO order: whatever pointer a drain of
      the buffer makes visible, the slots of that generation already hold every index that ANY
      earlier drain showed below `bottom`, and nothing still buffered will touch them.  "New
      pointer, but the copy of the slot still in the store buffer" is impossible.
    * `visible_pointer_monotone`, `pop_decides_on_drained_buffer_grow`, `thieves_never_buffer_grow`.
    * `copy_overtaken_unordered` — the SAME model with `ordered := false` (the pointer store may
      overtake buffered stores to other cells, as on a PSO machine) accepts a trace in which a
      thief reads the new pointer and an uninitialised slot: 7 is lost, 0 is returned though
      never pushed.  So the theorems above are not vacuous about store order.
    * non-vacuity: `growTrace` (growth while a thief holds the stale pointer, four stores
      buffered, the stale generation read after the new pointer is visible).

  ## What is assumed

    * x86-TSO is the store-buffer machine of `Model/Tso.lean`: one FIFO buffer per thread,
      loads forwarded from the own buffer, locked RMW (`cmpxchg` on `top`) only with a drained
      buffer and acting on memory.
    * a compiled seq_cst store (`xchg`, or `mov; mfence`) drains the buffer before the next
      load: pop_bottom's `store(bottom, b)` ; `load(top)` — as in `Props/Tso.lean` (a).
    * NOTHING ELSE for growth.  In particular the pointer store `d->underlying_array = a` is
      modelled as an ordinary buffered store.  In the C source the field is `_Atomic` and the
      plain assignment is a seq_cst store (every log shows `st underlying_array … mo5`); the
      proof does not use that strength — it uses only that x86 does not reorder two stores
      (TSO's FIFO buffer).  That is a property of the MACHINE: a `memory_order_relaxed` pointer
      store would be just as correct on x86 but not under the C11 model (no release edge from
      the copy loop to the thief's slot read); as written (seq_cst store, seq_cst load) the
      code is also correct C11.  The array header (`size_minus_one`) is written before the copy
      loop by `wsd_circular_array_create`, i.e. it is in front of the pointer store in the same
      FIFO buffer; it is not a registered cell (neither here nor in `Model/Wsd.lean`).

  ## How this is tied to the code

  The store-buffer model is not driven by logs (the scheduler of `rt/` is sequentially
  consistent).  Every log of the real code IS replayed through `Model/Wsd.lean`, which is the
  same program at the same granularity: the events of `WsdTsoGrow.step` are those of
  `Wsd.step` (`ldBottom stBottom ldTop casTop ldArr stArr rdSlot wrSlot` + call/ret) in the same
  program order per operation, minus the memory-order argument, plus `flush`; TSO only adds
  buffering.  This is a theorem, not a reading of two files: `every_sc_trace_is_a_tso_trace` (simulation
  `Proof/WsdTsoGrowSim.lean`) maps every trace accepted by `Wsd.sys k0` — hence every replayed
  log — event for event (`embed`: same access, a store followed by its `flush`) to a trace
  accepted by the TSO model, with equal `pushed` / `returned`, equal program counters and
  memory equal to the SC cells; `sc_returned_le_pushed_via_tso` re-derives the SC bound from the
  TSO theorem through it.
  What the TSO theorems rely on, and what `Wsd.step` demands of every log:
    * pop_bottom: `stBottom … mo = 5` at `popGotArr`, `ldTop … mo = 5` at `popStored`
      (`Props/Tso.lean`: `Wsd.popStored_only_by_seq_cst_store`, `…_left_only_by_seq_cst_load`);
    * growth: the PROGRAM ORDER copy stores → pointer store → element store → `bottom` store.
      `Wsd.arr_changes_only_by_store_after_copy` and `Wsd.publish_only_after_last_copy` below:
      in the log-validated model `underlying_array` changes only by a `stArr` event (logged
      order at least release — more than TSO needs) issued from `pushPublish`, and
      `pushPublish` is entered only by the LAST copy write into the new generation (or directly,
      when `[t, b)` is empty).  A log in which the pointer store came before a copy store is a
      DIVERGENCE of C02's correspondence check.
-/
import LibfiberVerif.Proof.WsdTsoGrow
import LibfiberVerif.Proof.WsdTsoGrowSim
import LibfiberVerif.Model.Wsd

namespace LibfiberVerif.WsdTsoGrow
open LibfiberVerif.Tso
open LibfiberVerif.Wsd (Res)

/-! ### exactly once -/

/-- **exactly once, on TSO, with growth.**  Over every accepted trace of the store-buffer model
    (seq_cst store in pop_bottom, FIFO buffers): as multisets
    pushed = returned ⊎ owed ⊎ logical, with `logical` the values of the indices `[top, hb)`.
    Nothing is dropped, nothing is handed to two takers, nothing is invented — although thieves
    decide on a stale `bottom`, may hold a stale array pointer and read slots of a superseded
    generation, and the copy of a growth step may sit in the owner's store buffer. -/
theorem exactly_once_tso_grow {k0 : Nat} {es : List Ev} {s : St} (h : (tso k0).run es = some s) :
    s.pushed.Perm (s.returned ++ s.owed.map Prod.snd ++ logical s)
    ∧ s.owed.Nodup
    ∧ (∀ u x, (u, x) ∈ s.owed ↔ holds s u = some x) := by
  obtain ⟨hI, hA⟩ := inv_acc_of_run h
  refine ⟨?_, hA.nodup, hA.mem⟩
  exact hI.perm.trans (List.Perm.append_right _ hA.perm)

/-- per value: handed back at most as often as it was pushed -/
theorem returned_le_pushed_tso_grow {k0 : Nat} {es : List Ev} {s : St}
    (h : (tso k0).run es = some s) (x : Int) : s.returned.count x ≤ s.pushed.count x := by
  obtain ⟨hp, -, -⟩ := exactly_once_tso_grow h
  rw [hp.count_eq x, List.count_append, List.count_append]
  omega

/-- **no double take**: if the pushed values are distinct, no value is held or has been
    returned twice. -/
theorem no_double_take_tso_grow {k0 : Nat} {es : List Ev} {s : St} (h : (tso k0).run es = some s)
    (hd : s.pushed.Nodup) : (s.returned ++ s.owed.map Prod.snd).Nodup := by
  obtain ⟨hp, -, -⟩ := exactly_once_tso_grow h
  have := (hp.nodup_iff).mp hd
  exact (List.nodup_append.mp this).1

/-! ### stale generations -/

/-- **a stale generation is still valid where it matters.**  A thief that holds array
    generation `g` — possibly superseded long ago: `g ≤ s.gen` is all that is known — and is
    about to read index `t`: if its CAS can still succeed (`top = t`), then `t` is a live index,
    the slot of `t` in generation `g` holds the value of `t` IN MEMORY NOW, and in every later
    state of memory (every partial drain of the owner's buffer): no pending store changes it. -/
theorem stale_generation_slot_valid {k0 : Nat} {es : List Ev} {s : St}
    (h : (tso k0).run es = some s) {u : Nat} {t : Int} {g : Nat} (hu : s.pc u = .stealGotArr t g)
    (hT : s.m.mem cTop = t) :
    g ≤ s.gen ∧ t < s.hb ∧ s.m.mem (cSlot s.k0 g t) = s.vals t ∧
    ∀ pre suf, s.m.buf 0 = pre ++ suf → applyAll s.m.mem pre (cSlot s.k0 g t) = s.vals t := by
  have hI := (inv_acc_of_run h).1
  have hu0 : u ≠ 0 := tid_ne_zero hI hu (by simp [ownerOk])
  have ht := hI.thief u hu0; rw [hu] at ht; simp only [thiefOk] at ht
  obtain ⟨a, b⟩ := ht.2.2 hT
  exact ⟨ht.2.1, a, b.now, b⟩

/-- **stale reads are harmless**: a thief that has read `x` for index `t` from generation `g`
    (current or stale) and whose CAS can still succeed has read the head of the logical
    contents. -/
theorem stale_generation_read_harmless {k0 : Nat} {es : List Ev} {s : St}
    (h : (tso k0).run es = some s) {u : Nat} {t x : Int} {g : Nat}
    (hu : s.pc u = .stealRead t g x) (hT : s.m.mem cTop = t) :
    t < s.hb ∧ x = s.vals t ∧ ∃ rest, logical s = x :: rest := by
  have hI := (inv_acc_of_run h).1
  have hu0 : u ≠ 0 := tid_ne_zero hI hu (by simp [ownerOk])
  have ht := hI.thief u hu0; rw [hu] at ht; simp only [thiefOk] at ht
  obtain ⟨a, b⟩ := ht.2 hT
  refine ⟨a, b, ⟨Wsd.seg s.vals (t + 1) (s.hb - (t + 1)).toNat, ?_⟩⟩
  rw [logical, hT, seg_head _ _ _ a, ← b]

/-- the generation the owner works on never goes back -/
theorem gen_mono_step {s s' : St} {e : Ev} (hI : Inv s) (h : step s e = some s') :
    s.gen ≤ s'.gen := by
  cases e <;> simp only [step] at h <;> (repeat' split at h) <;> simp at h <;> subst h <;>
    (try exact Nat.le_refl _)
  · next t g _ v b tt g' hpc hc =>
    have ht := tid_zero hI hpc (by simp [thiefOk]); subst ht
    have ho := hI.owner; rw [hpc] at ho; simp only [ownerOk] at ho
    show s.gen ≤ g; omega
  · next t g _ v b tt g' hpc hc =>
    have := hI.ord; rw [hc.1] at this; cases this

theorem gen_mono_runFrom {k0 : Nat} {s s' : St} {es : List Ev} (hI : Inv s)
    (h : (tso k0).runFrom s es = some s') : s.gen ≤ s'.gen := by
  induction es generalizing s with
  | nil => simp [Sys.runFrom] at h; subst h; exact Nat.le_refl _
  | cons e es ih =>
    simp only [Sys.runFrom] at h
    cases hst : (tso k0).step s e with
    | none => simp [hst] at h
    | some s1 =>
      simp [hst] at h
      exact Nat.le_trans (gen_mono_step hI hst) (ih (inv_step hI hst) h)

/-- every slot store is issued by the owner, into the generation it works on (the element
    store) or into the next one (a copy store of a growth step in progress) -/
theorem slot_store_targets_current_or_next {k0 : Nat} {es : List Ev} {s s' : St} {t g i : Nat}
    {x : Int} (h : (tso k0).run es = some s) (hs : step s (.wrSlot t g i x) = some s') :
    t = 0 ∧ (g = s.gen ∨ g = s.gen + 1) := by
  have hI := (inv_acc_of_run h).1
  simp only [step] at hs
  split at hs
  next v b tt g' j y hpc =>
    have ht := tid_zero hI hpc (by simp [thiefOk]); subst ht
    have ho := hI.owner; rw [hpc] at ho; simp only [ownerOk] at ho
    split at hs
    · next hc => exact ⟨rfl, Or.inr (by rw [hc.1, ho.2.2.2.2.1])⟩
    · simp at hs
  next v b g' hpc =>
    have ht := tid_zero hI hpc (by simp [thiefOk]); subst ht
    have ho := hI.owner; rw [hpc] at ho; simp only [ownerOk] at ho
    split at hs
    · next hc => exact ⟨rfl, Or.inl (by rw [hc.1, ho.2.2.2.1])⟩
    · simp at hs
  next => simp at hs

/-- **superseded generations are only ever read.**  Once the owner works on generation
    `s.gen`, no later step of any continuation of the run stores into a generation below it. -/
theorem superseded_generation_never_written {k0 : Nat} {es es' : List Ev} {s s1 s2 : St}
    {t g i : Nat} {x : Int} (h : (tso k0).run es = some s)
    (h1 : (tso k0).runFrom s es' = some s1) (hs : step s1 (.wrSlot t g i x) = some s2) :
    s.gen ≤ g := by
  have hrun : (tso k0).run (es ++ es') = some s1 := by
    simp only [Sys.run] at h ⊢
    rw [Sys.runFrom_append, h]; exact h1
  have := (slot_store_targets_current_or_next hrun hs).2
  have := gen_mono_runFrom (inv_acc_of_run h).1 h1
  omega

/-- **the same in memory order.**  Take any partial drain `μ` of the owner's buffer — a state
    of memory some thief may observe — and any store still buffered behind it: it is a `bottom`
    store, a pointer store to a NEWER generation than `μ` shows, or a slot store into a
    generation at least as new as the one `μ` shows.  A generation that memory already shows
    as superseded is never stored to again. -/
theorem buffered_stores_target_visible_or_newer {k0 : Nat} {es : List Ev} {s : St}
    (h : (tso k0).run es = some s) {pre suf : Buf} (hb : s.m.buf 0 = pre ++ suf)
    {c : Nat} {v : Int} (hc : (c, v) ∈ suf) :
    c = cBot ∨ (c = cArr ∧ applyAll s.m.mem pre cArr < v ∧ v ≤ s.gen) ∨
    ∃ g i, c = cSlot s.k0 g i ∧ applyAll s.m.mem pre cArr ≤ g :=
  ((inv_acc_of_run h).1.views pre suf hb).2.2.2 c v hc

/-- the pointer memory shows is a generation the owner has published, never ahead of it, and
    the owner reads its own newest pointer -/
theorem visible_pointer_monotone {k0 : Nat} {es : List Ev} {s : St}
    (h : (tso k0).run es = some s) {pre suf : Buf} (hb : s.m.buf 0 = pre ++ suf) :
    0 ≤ applyAll s.m.mem pre cArr ∧ applyAll s.m.mem pre cArr ≤ s.gen ∧
    s.m.load 0 cArr = s.gen := by
  have hI := (inv_acc_of_run h).1
  have hv := hI.views pre suf hb
  exact ⟨hv.1, hv.2.1, by rw [load_eq_view]; exact hI.arrOwn⟩

/-! ### the role of store order -/

/-- **the pointer store cannot overtake the copy stores.**  Split the owner's buffer into
    `pre ++ mid ++ suf`.  `μ` = memory after `pre` has drained (where some thief loaded
    `bottom`), `μ'` = memory after `pre ++ mid` (where it later loads the pointer and the slot).
    For every index `i` that `μ` shows as present (`top ≤ i < μ bottom`): the slot of `i` in
    the generation that `μ'` PUBLISHES holds the value of `i` in `μ'`, and no store still
    buffered behind `μ'` writes that slot.  If `μ'` shows a new pointer, the copy of every
    live index has drained before it. -/
theorem pointer_store_behind_copy_stores {k0 : Nat} {es : List Ev} {s : St}
    (h : (tso k0).run es = some s) {pre mid suf : Buf} (hb : s.m.buf 0 = pre ++ (mid ++ suf))
    {i : Int} (h1 : s.m.mem cTop ≤ i) (h2 : i < applyAll s.m.mem pre cBot) :
    let μ' := applyAll (applyAll s.m.mem pre) mid
    μ' (cSlot s.k0 (μ' cArr).toNat i) = s.vals i ∧
    ∀ e ∈ suf, e.1 ≠ cSlot s.k0 (μ' cArr).toNat i :=
  (inv_acc_of_run h).1.slots pre mid suf hb i h1 h2

/-- the instance a thief lives by: in memory as it is NOW, the generation the visible pointer
    names holds every index `[top, bottom)` that memory shows -/
theorem visible_generation_complete {k0 : Nat} {es : List Ev} {s : St}
    (h : (tso k0).run es = some s) {i : Int} (h1 : s.m.mem cTop ≤ i) (h2 : i < s.m.mem cBot) :
    s.m.mem (cSlot s.k0 (s.m.mem cArr).toNat i) = s.vals i :=
  (pointer_store_behind_copy_stores (pre := []) (mid := []) (suf := s.m.buf 0) h (by simp) h1 h2).1

/-- what the fence buys (as in the fixed-array model): past pop_bottom's load of `top` the
    owner's buffer is empty, so memory holds the lowered `bottom`, the newest pointer and every
    copied slot -/
theorem pop_decides_on_drained_buffer_grow {k0 : Nat} {es : List Ev} {s : St}
    (h : (tso k0).run es = some s) {b t : Int} {g : Nat} (hpc : s.pc 0 = .popTake b g t) :
    s.m.buf 0 = [] ∧ s.m.mem cBot = b ∧ g = s.gen ∧ s.m.mem cArr = s.gen ∧ t ≤ s.m.mem cTop ∧
    ((t < b ∧ s.hb = b) ∨ (t = b ∧ s.hb = b + 1)) := by
  have hI := (inv_acc_of_run h).1
  have ho := hI.owner; rw [hpc] at ho; simp only [ownerOk] at ho
  obtain ⟨a, b', c, -, d, e⟩ := ho
  have harr := hI.arrOwn; rw [view_of_drained a] at harr
  refine ⟨a, b', d, harr, c, ?_⟩
  rcases e with e | e
  · exact Or.inl ⟨e.1, e.2.1⟩
  · exact Or.inr e

/-- only the owner ever has buffered stores -/
theorem thieves_never_buffer_grow {k0 : Nat} {es : List Ev} {s : St}
    (h : (tso k0).run es = some s) {u : Nat} (hu : u ≠ 0) : s.m.buf u = [] :=
  (inv_acc_of_run h).1.bufs u hu

/-- on the TSO machine the overtaking pointer store is not an event -/
theorem no_early_pointer_store_on_tso {k0 : Nat} {es : List Ev} {s : St}
    (h : (tso k0).run es = some s) (t g : Nat) : step s (.stArrEarly t g) = none := by
  have hI := (inv_acc_of_run h).1
  cases hs : step s (.stArrEarly t g) with
  | none => rfl
  | some s' =>
    simp only [step] at hs
    split at hs
    · split at hs
      · next hc => have := hI.ord; rw [hc.1] at this; cases this
      · simp at hs
    · simp at hs

/-! ### same program as the log-validated SC model -/

/-- **every trace of `Model/Wsd.lean` is a trace of the TSO model.**  Each SC event becomes the
    same access on the store-buffer machine (`embed`: a store is followed by the `flush` that
    drains it; the memory-order argument is dropped).  At the end all buffers are empty, memory
    holds the SC cells, every thread is at the same program counter, and the same values have
    been pushed and returned.  In particular every log of the real code that C02's check has
    replayed through `Wsd.step` is a behaviour the theorems above speak about. -/
theorem every_sc_trace_is_a_tso_trace {k0 : Nat} {es : List Wsd.Ev} {a : Wsd.St}
    (h : (Wsd.sys k0).run es = some a) :
    ∃ c, (tso k0).run (es.flatMap embed) = some c ∧
      c.pushed = a.pushed ∧ c.returned = a.returned ∧ (∀ u, c.m.buf u = []) ∧
      c.m.mem cTop = a.top ∧ c.m.mem cBot = a.bottom ∧ c.m.mem cArr = a.arr ∧
      (∀ g j, c.m.mem (cSlot a.k0 g j) = a.slot g (Wsd.idx (a.k0 + g) j)) ∧
      ∀ u, c.pc u = ofPc (a.pc u) := by
  obtain ⟨c, hc, hS⟩ := sim_runFrom (f := true) (o := true) (sim_init true true k0) h
  exact ⟨c, hc, hS.pushed, hS.returned, hS.bufs, hS.top, hS.bot, hS.arr, hS.slot, hS.pc⟩

/-- the SC bound "returned at most as often as pushed" as a corollary of the TSO theorem -/
theorem sc_returned_le_pushed_via_tso {k0 : Nat} {es : List Wsd.Ev} {a : Wsd.St}
    (h : (Wsd.sys k0).run es = some a) (x : Int) : a.returned.count x ≤ a.pushed.count x := by
  obtain ⟨c, hc, hp, hr, -⟩ := every_sc_trace_is_a_tso_trace h
  rw [← hp, ← hr]; exact returned_le_pushed_tso_grow hc x

/-- growth included: an SC trace with a growth step, embedded -/
example : ∃ c, (tso 1).run (List.flatMap embed [
    .callPush 0 7, .ldBottom 0 0 2, .ldTop 0 0 2, .ldArr 0 0 5, .wrSlot 0 0 0 7, .stBottom 0 1 3,
    .retPush 0,
    .callPush 0 8, .ldBottom 0 1 2, .ldTop 0 0 2, .ldArr 0 0 5, .rdSlot 0 0 0 7, .wrSlot 0 1 0 7,
    .stArr 0 1 5, .wrSlot 0 1 1 8, .stBottom 0 2 3, .retPush 0]) = some c ∧
    c.grown = 1 ∧ c.pushed = [7, 8] ∧ c.m.mem cArr = 1 ∧ c.m.buf 0 = [] :=
  ⟨_, rfl, by decide, by decide, by decide, by decide⟩

/-! ### the weaker machine: the pointer store overtakes a copy store -/

/-- Initial array of 2 slots (`k0 = 1`).  7 is pushed (index 0) and drained.  push_bottom(8)
    finds `b - t = 1 ≥ size - 1` and grows: it reads 7 from generation 0 and issues the copy
    store `gen1[0] := 7` — buffered.  The pointer store `underlying_array := gen1` OVERTAKES it
    (`stArrEarly`) and drains.  A thief loads `top = 0`, `bottom = 1`, the NEW pointer, reads
    slot 0 of generation 1 — still uninitialised memory, 0 — and its CAS succeeds: it returns
    0.  The rest of the trace completes the push and lets the owner pop what is left: 8, then
    EMPTY.  7 is gone. -/
def overtakeTrace : List Ev := [
  .callPush 0 7, .ldBottom 0 0, .ldTop 0 0, .ldArr 0 0, .wrSlot 0 0 0 7, .stBottom 0 1, .retPush 0,
  .flush 0, .flush 0,
  .callPush 0 8, .ldBottom 0 1, .ldTop 0 0, .ldArr 0 0,
  .rdSlot 0 0 0 7, .wrSlot 0 1 0 7,
  .stArrEarly 0 1,                              -- overtakes the buffered copy store
  .flush 0,
  .callSteal 1, .ldTop 1 0, .ldBottom 1 1, .ldArr 1 1, .rdSlot 1 1 0 0, .casTop 1 0 0 1 true,
  .retSteal 1 0,
  .wrSlot 0 1 1 8, .stBottom 0 2, .retPush 0, .flush 0, .flush 0, .flush 0,
  .callPop 0, .ldBottom 0 2, .ldArr 0 1, .stBottom 0 1, .flush 0, .ldTop 0 1, .rdSlot 0 1 1 8,
  .casTop 0 1 1 2 true, .stBottom 0 2, .retPop 0 8, .flush 0,
  .callPop 0, .ldBottom 0 2, .ldArr 0 1, .stBottom 0 1, .flush 0, .ldTop 0 2, .stBottom 0 2,
  .retPop 0 (-1), .flush 0]

/-- **if the pointer store may overtake the copy stores, exactly-once fails**: the trace above
    is accepted by the `ordered = false` model (pop_bottom still fenced); at the end every thread
    is idle, every buffer empty, 7 and 8 were pushed, 0 and 8 were returned: 7 is lost and a
    value that was never pushed has been handed out. -/
theorem copy_overtaken_unordered : ∃ s, (sys true false 1).run overtakeTrace = some s ∧
    s.pushed = [7, 8] ∧ s.returned = [0, 8] ∧ s.owed = [] ∧ logical s = [] ∧
    s.returned.count 0 = 1 ∧ s.pushed.count 0 = 0 ∧ s.returned.count 7 = 0 ∧
    s.pc 0 = .idle ∧ s.pc 1 = .idle ∧ s.m.buf 0 = [] ∧ s.grown = 1 :=
  ⟨_, rfl, by decide, by decide, by decide, by decide, by decide, by decide, by decide, by decide,
    by decide, by decide, by decide⟩

/-- the moment of the damage (after event 17): memory shows the new pointer and `bottom = 1`,
    index 0 is live with value 7, its copy is still in the buffer and the slot of generation 1
    holds 0 — `visible_generation_complete` is false here -/
example : ((sys true false 1).run (overtakeTrace.take 17)).map
    (fun s => (s.m.buf 0, s.m.mem cArr, s.m.mem cTop, s.m.mem cBot,
               s.m.mem (cSlot s.k0 (s.m.mem cArr).toNat 0), s.vals 0))
    = some ([(cSlot 1 1 0, 7)], 1, 0, 1, 0, 7) := by decide

/-- so `returned_le_pushed_tso_grow` holds only because of the store order -/
example : ¬ ∀ s, (sys true false 1).run overtakeTrace = some s →
    s.returned.count 0 ≤ s.pushed.count 0 := by
  obtain ⟨s, hs, -, -, -, -, h1, h2, -⟩ := copy_overtaken_unordered
  intro h; have := h s hs; omega

/-- the same trace is NOT a trace of the TSO machine: up to the copy store it is, the overtaking
    pointer store is refused … -/
example : (tso 1).run (overtakeTrace.take 15) ≠ none ∧
    (tso 1).run (overtakeTrace.take 16) = none := by decide

/-- … and with the pointer store in FIFO position the thief cannot see the new pointer before
    the copy: after ONE flush memory still shows generation 0 (the thief reads 7 from the old
    array), after TWO it shows generation 1 with slot 0 already copied -/
example :
    ((tso 1).run (overtakeTrace.take 15 ++ [.stArr 0 1, .flush 0])).map
      (fun s => (s.m.buf 0, s.m.mem cArr, s.m.mem (cSlot 1 0 0), s.m.mem (cSlot 1 1 0)))
      = some ([(cArr, 1)], 0, 7, 7) ∧
    ((tso 1).run (overtakeTrace.take 15 ++ [.stArr 0 1, .flush 0, .flush 0])).map
      (fun s => (s.m.buf 0, s.m.mem cArr, s.m.mem (cSlot 1 1 0)))
      = some ([], 1, 7) := by decide

/-! ### non-vacuity: growth under a thief that holds the stale pointer -/

/-- Array of 2 slots.  7 is pushed and drained.  push_bottom(8) must grow: it reads 7 from
    generation 0; meanwhile thief 1 loads `top = 0`, `bottom = 1` and the pointer to generation
    0.  The owner issues the copy store, the pointer store, the element store of 8 and
    `bottom := 2`: FOUR stores buffered.  Two flushes: memory now shows generation 1, the
    thief's pointer is stale.  The thief reads slot 0 OF GENERATION 0 — valid, 7 — and its CAS
    wins.  Thief 2 loads the stale `bottom = 1`: EMPTY.  After the last two flushes it steals 8
    from generation 1. -/
def growTrace : List Ev := [
  .callPush 0 7, .ldBottom 0 0, .ldTop 0 0, .ldArr 0 0, .wrSlot 0 0 0 7, .stBottom 0 1, .retPush 0,
  .flush 0, .flush 0,
  .callPush 0 8, .ldBottom 0 1, .ldTop 0 0, .ldArr 0 0,
  .rdSlot 0 0 0 7,
  .callSteal 1, .ldTop 1 0, .ldBottom 1 1, .ldArr 1 0,
  .wrSlot 0 1 0 7, .stArr 0 1, .wrSlot 0 1 1 8, .stBottom 0 2, .retPush 0,
  .flush 0, .flush 0,
  .rdSlot 1 0 0 7, .casTop 1 0 0 1 true, .retSteal 1 7,
  .callSteal 2, .ldTop 2 1, .ldBottom 2 1, .ldArr 2 1, .retSteal 2 (-1),
  .flush 0, .flush 0,
  .callSteal 2, .ldTop 2 1, .ldBottom 2 2, .ldArr 2 1, .rdSlot 2 1 1 8, .casTop 2 1 1 2 true,
  .retSteal 2 8]

example : ∃ s, (tso 1).run growTrace = some s ∧
    s.pushed = [7, 8] ∧ s.returned = [7, 8] ∧ s.owed = [] ∧ logical s = [] ∧ s.grown = 1 ∧
    s.gen = 1 ∧ s.m.mem cArr = 1 ∧ s.m.mem cTop = 2 ∧ s.m.mem cBot = 2 ∧ s.m.buf 0 = [] :=
  ⟨_, rfl, by decide, by decide, by decide, by decide, by decide, by decide, by decide, by decide,
    by decide, by decide⟩

/-- after event 23: four stores buffered (copy, pointer, element, `bottom`); the thieves still
    see generation 0 and `bottom = 1`, the owner sees generation 1 and `bottom = 2` -/
example : ((tso 1).run (growTrace.take 23)).map
    (fun s => (s.m.buf 0, s.m.mem cArr, s.m.load 0 cArr, s.m.mem cBot, s.m.load 0 cBot, s.pc 1))
    = some ([(cSlot 1 1 0, 7), (cArr, 1), (cSlot 1 1 1, 8), (cBot, 2)], 0, 1, 1, 2,
            .stealGotArr 0 0) := by decide

/-- after event 25 (hypotheses of `stale_generation_slot_valid`): memory shows generation 1,
    thief 1 holds generation 0 and `top` is still its `t = 0`; two stores are still buffered;
    the stale slot holds 7 -/
example : ((tso 1).run (growTrace.take 25)).map
    (fun s => (s.pc 1, s.m.mem cArr, s.gen, s.m.mem cTop, s.m.buf 0))
    = some (.stealGotArr 0 0, 1, 1, 0, [(cSlot 1 1 1, 8), (cBot, 2)]) := by rfl

example : ((tso 1).run (growTrace.take 25)).map
    (fun s => (s.m.mem (cSlot 1 0 0), s.vals 0, s.hb)) = some (7, 7, 2) := by decide

/-- after event 26 (hypotheses of `stale_generation_read_harmless`) -/
example : ((tso 1).run (growTrace.take 26)).map (fun s => (s.pc 1, s.m.mem cTop, logical s))
    = some (.stealRead 0 0 7, 0, [7, 8]) := by decide

/-- two growth steps in a row (sizes 1 → 2 → 4, `k0 = 0`) with everything buffered until the
    end: the owner's copy loop reads its own pending stores (store forwarding) -/
example : ∃ s, (tso 0).run [
    .callPush 0 5, .ldBottom 0 0, .ldTop 0 0, .ldArr 0 0, .stArr 0 1, .wrSlot 0 1 0 5,
    .stBottom 0 1, .retPush 0,
    .callPush 0 6, .ldBottom 0 1, .ldTop 0 0, .ldArr 0 1, .rdSlot 0 1 0 5, .wrSlot 0 2 0 5,
    .stArr 0 2, .wrSlot 0 2 1 6, .stBottom 0 2, .retPush 0,
    .callSteal 1, .ldTop 1 0, .ldBottom 1 0, .ldArr 1 0, .retSteal 1 (-1),
    .flush 0, .flush 0, .flush 0, .flush 0, .flush 0, .flush 0, .flush 0,
    .callSteal 1, .ldTop 1 0, .ldBottom 1 2, .ldArr 1 2, .rdSlot 1 2 0 5, .casTop 1 0 0 1 true,
    .retSteal 1 5] = some s ∧ s.grown = 2 ∧ s.returned = [5] ∧ logical s = [6] :=
  ⟨_, rfl, by decide, by decide, by decide⟩

end LibfiberVerif.WsdTsoGrow

/-! ### the log-validated SC model issues the pointer store after the copy stores -/

namespace LibfiberVerif.Wsd

/-- In `Model/Wsd.lean` — the model every C02 log is replayed through — the published array
    changes only by a store to `underlying_array` whose logged order is at least release,
    issued by a thread that has finished the copy loop (`pushPublish`), to the next
    generation. -/
theorem arr_changes_only_by_store_after_copy {s s' : St} {e : Ev}
    (h : step s e = some s') (hne : s'.arr ≠ s.arr) :
    ∃ t g mo v b tt, e = .stArr t (g + 1) mo ∧ rel mo = true ∧ s.pc t = .pushPublish v b tt g ∧
      s'.arr = g + 1 := by
  cases e <;> simp only [step] at h <;> (repeat' split at h) <;> simp at h <;> subst h <;>
    simp at hne ⊢
  rename_i t1 g1 mo1 _ v1 b1 tt1 g1' heq hc
  exact ⟨t1, g1', mo1, ⟨rfl, hc.1, rfl⟩, hc.2, ⟨v1, b1, tt1, heq⟩, hc.1⟩

/-- … and `pushPublish` is entered only by the LAST copy write into the new generation
    (`wrSlot` to generation `g + 1` with `j + 1 ≥ b`), or straight from the load of the pointer
    when there is nothing to copy.  Program order in every accepted log: all copy stores, then
    the pointer store. -/
theorem publish_only_after_last_copy {s s' : St} {e : Ev} {t : Nat} {v b tt : Int} {g : Nat}
    (h : step s e = some s') (hpc' : s'.pc t = .pushPublish v b tt g)
    (hpc : s.pc t ≠ .pushPublish v b tt g) :
    (∃ i x j, e = .wrSlot t (g + 1) i x ∧ s.pc t = .pushCopyW v b tt g j x ∧ ¬ j + 1 < b) ∨
    (∃ mo, e = .ldArr t g mo ∧ s.pc t = .pushGotT v b tt ∧ ¬ tt < b) := by
  cases e <;> simp only [step] at h <;> (repeat' split at h) <;> simp at h <;> subst h <;>
    simp only [upd] at hpc' <;> split at hpc' <;> (try exact absurd hpc' hpc) <;>
    (try (simp at hpc'; done))
  · rename_i t1 g1 mo1 _ v1 b1 tt1 heq hc h2 h3 ht
    cases hpc'; subst ht
    exact Or.inr ⟨mo1, rfl, heq, h3⟩
  · rename_i t1 g1 i1 x1 _ v1 b1 tt1 g1' j1 y1 heq hc h3 ht
    cases hpc'; subst ht
    obtain ⟨hg, hi, hx⟩ := hc; subst hg; subst hx
    exact Or.inl ⟨_, _, _, rfl, heq, h3⟩

/-- the store itself: accepted at `pushPublish` only for the next generation and only with a
    logged order of release or stronger (the code's is seq_cst, `mo5`) -/
theorem pointer_store_is_release {s s' : St} {t g mo : Nat} {v b tt : Int} {g' : Nat}
    (h : step s (.stArr t g mo) = some s') (hpc : s.pc t = .pushPublish v b tt g') :
    g = g' + 1 ∧ rel mo = true := by
  simp only [step, hpc] at h
  split at h
  · next hc => exact hc
  · cases h

end LibfiberVerif.Wsd
