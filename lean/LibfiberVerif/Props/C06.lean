/-
  Props/C06.lean — property C06 (fiber semaphore, src/fiber_semaphore.c with
  fiber_manager_wait_in_mpmc_queue / fiber_manager_wake_from_mpmc_queue / the deferred
  `mpmc_to_push` of fiber_manager_do_maintenance):

  "At every instant the number of fiber_semaphore_wait/trywait calls that have succeeded is at
   most the initial value plus the number of posts begun (no over-admission), and no fiber
   remains blocked in wait while units are available and no post is in progress (no lost
   post).  trywait never blocks and never succeeds without a unit; once activity ceases the
   value equals initial + posts - successful waits."

  All theorems are over EVERY event list the model `Sem.sys v node0` accepts, for EVERY initial
  value `v ≥ 0` (a `Nat`), an unbounded number of fibers (`pc : Nat → Pc`) on an unbounded
  number of kernel threads (`slot`, `pp : Nat → _`), unbounded operation counts — including
  posts that find an announced waiter that its successor has not enqueued yet (the post's
  trypop gives up and the post re-reads the counter: `ldCounter` from `popH2`).

  Vocabulary (Model/Sem.lean, Proof/Sem.lean).  `admitted` = waits that saw a unit at their
  fetch_sub + trywaits whose CAS succeeded + waiters dequeued by a post; `retOk` = waits
  returned + trywaits returned success; `isBlocked (pc f)` = f decremented the counter without
  getting a unit and no post has dequeued it yet (announced, parked or enqueued); `mid` = the
  posts that dequeued a waiter and have not done their fetch_add yet; `pre` = posts begun that
  have had no effect yet.
-/
import LibfiberVerif.Proof.Sem

namespace LibfiberVerif.Sem

/-! ### no over-admission -/

/-- **No over-admission**, in every reachable state: the wait/trywait calls that have been
    admitted (and a fortiori those that have returned successfully) number at most the initial
    value plus the posts begun. -/
theorem no_over_admit (v node0 : Nat) (es : List Ev) (s : St)
    (h : (sys v node0).run es = some s) :
    s.retOk ≤ s.admitted ∧ s.admitted ≤ v + s.postsBegun := by
  have hi := inv_of_run h
  have h1 := hi.cnt; have h2 := hi.blocked; have h3 := hi.enq; have h4 := hi.popd
  have h5 := hi.posts; have h6 := hi.admd; have h7 := hi.neg; have h8 := hi.nonneg
  simp only [St.admitted]
  omega

/-- No over-admission on observable events only, at every instant: in every prefix of an
    accepted trace, #(`ret wait`) + #(`ret trywait 1`) ≤ initial + #(`call post`).  This is the
    predicate the monitor evaluates on implementation logs. -/
theorem no_over_admit_trace (v node0 : Nat) (es fs : List Ev) (s : St)
    (h : (sys v node0).run (es ++ fs) = some s) :
    es.countP isSuccRet ≤ v + es.countP isCallPost := by
  obtain ⟨s0, h0⟩ := run_prefix h
  have := no_over_admit v node0 es s0 h0
  have hc := trace_counts h0
  omega

/-! ### the counter -/

/-- **Counter identity.**  Every change of the counter is one of six kinds of step:
    counter = initial + (post CAS successes + post fetch_adds) − (wait fetch_subs that saw a
    unit + trywait CAS successes + wait fetch_subs that saw none). -/
theorem counter_eq (v node0 : Nat) (es : List Ev) (s : St)
    (h : (sys v node0).run es = some s) :
    s.counter = (v : Int) + s.nCasPost + s.nFadd - s.nFast - s.nTryOk - s.nBlocked :=
  (inv_of_run h).cnt

/-- **What the counter means.**  With `W` = blocked waiters (announced or enqueued, not
    dequeued) and `P` = posts that dequeued a waiter and have not incremented yet:
    if `W + P > 0` the counter is `−(W + P)` and every unit ever made available has been
    consumed; otherwise the counter is the number of free units
    `initial + completed increments − admitted`. -/
theorem counter_meaning (v node0 : Nat) (es : List Ev) (s : St)
    (h : (sys v node0).run es = some s) :
    (0 < s.pend.length + s.queue.length + s.mid.length →
      s.counter = -((s.pend.length + s.queue.length + s.mid.length : Nat) : Int) ∧
      v + s.nCasPost = s.nFast + s.nTryOk) ∧
    (s.pend.length + s.queue.length + s.mid.length = 0 →
      0 ≤ s.counter ∧ s.counter = (v : Int) + s.nCasPost + s.nFadd - s.admitted) := by
  have hi := inv_of_run h
  have h1 := hi.cnt; have h2 := hi.blocked; have h3 := hi.enq; have h4 := hi.popd
  have h7 := hi.neg; have h8 := hi.nonneg
  simp only [St.admitted]
  constructor <;> intro h0 <;> constructor <;> omega

/-- the ghost lists are exactly the fibers in the corresponding program-counter classes -/
theorem lists_exact (v node0 : Nat) (es : List Ev) (s : St)
    (h : (sys v node0).run es = some s) (f : Nat) :
    (f ∈ s.pend ++ s.queue ↔ isBlocked (s.pc f) = true) ∧ (f ∈ s.mid ↔ isMid (s.pc f) = true) ∧
    (f ∈ s.pre ↔ isPre (s.pc f) = true) ∧ (s.pend ++ s.queue).Nodup ∧ s.mid.Nodup := by
  have hi := inv_of_run h
  refine ⟨?_, ⟨hi.tMid.cls_of_mem, hi.tMid.mem⟩, ⟨hi.tPre.cls_of_mem, hi.tPre.mem⟩, ?_, ?_⟩
  · simp only [List.mem_append, isBlocked, Bool.or_eq_true]
    constructor
    · rintro (h1 | h1)
      · exact Or.inl (hi.tPend.cls_of_mem h1)
      · exact Or.inr (hi.tQueue.cls_of_mem h1)
    · rintro (h1 | h1)
      · exact Or.inl (hi.tPend.mem h1)
      · exact Or.inr (hi.tQueue.mem h1)
  · rw [List.nodup_iff_count]
    intro a
    have c1 := hi.tPend a; have c2 := hi.tQueue a
    rw [List.count_append, c1, c2]
    cases hp : s.pc a <;> simp [isPend, isQueued]
  · rw [List.nodup_iff_count]
    intro a
    have c1 := hi.tMid a
    rw [c1]; split <;> omega

/-! ### no lost post -/

/-- **No lost post.**  (1) Whenever the counter is non-negative (units available, or exactly
    none) NO fiber is blocked in wait and no post is between its dequeue and its increment —
    whether or not other posts are in progress.  (2) Whenever the counter is negative, the
    blocked waiters plus the posts that already dequeued a waiter and are about to increment
    number exactly −counter; in particular with no post in progress exactly −counter fibers are
    blocked, each waiting for a post that has not begun.  (`lists_exact`: `pend ++ queue` lists
    the blocked fibers without repetition, `mid` those posts.) -/
theorem no_lost_post (v node0 : Nat) (es : List Ev) (s : St)
    (h : (sys v node0).run es = some s) :
    (0 ≤ s.counter → (∀ f, isBlocked (s.pc f) = false) ∧ (∀ f, isMid (s.pc f) = false)) ∧
    (s.counter < 0 → -s.counter = (((s.pend ++ s.queue).length + s.mid.length : Nat) : Int)) ∧
    (s.counter < 0 → (∀ f, isMid (s.pc f) = false) →
      -s.counter = (((s.pend ++ s.queue).length : Nat) : Int)) := by
  have hi := inv_of_run h
  have h7 := hi.neg; have h8 := hi.nonneg
  refine ⟨?_, ?_, ?_⟩
  · intro h0
    have := h8 h0
    have e1 : s.pend = [] := List.eq_nil_of_length_eq_zero (by omega)
    have e2 : s.queue = [] := List.eq_nil_of_length_eq_zero (by omega)
    have e3 : s.mid = [] := List.eq_nil_of_length_eq_zero (by omega)
    constructor
    · intro f
      cases hb : isBlocked (s.pc f) with
      | false => rfl
      | true =>
        have := ((lists_exact v node0 es s h f).1).mpr hb
        simp [e1, e2] at this
    · intro f
      cases hb : isMid (s.pc f) with
      | false => rfl
      | true =>
        have := hi.tMid.mem hb
        simp [e3] at this
  · intro h0
    have := h7 h0
    simp only [List.length_append]
    omega
  · intro h0 hm
    have := h7 h0
    have e3 : s.mid = [] := hi.tMid.nil_of_none hm
    simp only [List.length_append]
    simp [e3] at this
    omega

/-- A waiter that a post has dequeued but not yet made READY always has that post right
    behind it (about to write its state and pass it to the scheduler): a dequeued waiter is
    never forgotten. -/
theorem dequeued_has_post (v node0 : Nat) (es : List Ev) (s : St)
    (h : (sys v node0).run es = some s) (g : Nat) (hg : s.pc g = .waitHanded) :
    ∃ f, s.pc f = .popped g :=
  (inv_of_run h).handed g hg

/-- A waiter is enqueued only by the kernel thread in whose deferred-push slot it announced
    itself, and only while it is parked (its state word is WAITING, it has switched away or is
    about to): slots hold parked fibers only, and no fiber is in two slots. -/
theorem deferred_push_slots (v node0 : Nat) (es : List Ev) (s : St)
    (h : (sys v node0).run es = some s) :
    (∀ k w, s.slot k = some w → s.pc w = .waitParked) ∧
    (∀ k k' w, s.slot k = some w → s.slot k' = some w → k = k') :=
  ⟨(inv_of_run h).slotP, (inv_of_run h).slotI⟩

/-! ### trywait -/

/-- **trywait is honest**: its CAS is attempted only with an expected value c > 0 it loaded
    from the counter, and succeeds only if the counter still is c — so a successful trywait
    takes one of `counter > 0` free units, and nothing else makes a trywait succeed
    (`retTry f true` is accepted only from `tryDone true`, which only this step produces). -/
theorem trywait_honest (v node0 : Nat) (es : List Ev) (s s' : St) (f : Nat) (a b c : Int)
    (h : (sys v node0).run es = some s) (ht : isTry (s.pc f) = true)
    (hs : step s (.casCounter f a b c true) = some s') :
    0 < s.counter ∧ s'.counter = s.counter - 1 ∧ s'.pc f = .tryDone true ∧
    (∀ f, isBlocked (s.pc f) = false) := by
  have hi := inv_of_run h
  simp only [step] at hs
  split at hs
  · rename_i c0 hpc
    have hc := hi.tryC f c0 hpc
    split at hs
    · rename_i hg
      simp at hs
      obtain ⟨g1, g2, g3, g4⟩ := hg
      simp at g4
      subst hs
      refine ⟨by omega, by simp; omega, by simp, ?_⟩
      exact ((no_lost_post v node0 es s h).1 (by omega)).1
    · simp at hs
  · rename_i c0 hpc
    rw [hpc] at ht; simp [isTry] at ht
  · rename_i hn1 hn2
    cases hp : s.pc f <;> simp [hp, isTry] at ht <;> simp_all

/-- a successful return of trywait is always preceded by such a CAS: the fiber is in the list
    of admitted-not-yet-returned calls -/
theorem trywait_success_admitted (v node0 : Nat) (es : List Ev) (s : St) (f : Nat)
    (h : (sys v node0).run es = some s) (hp : s.pc f = .tryDone true) : f ∈ s.adm :=
  (inv_of_run h).tAdm.mem (by simp [hp, isAdm])

/-- **trywait never blocks** (1): a fiber inside trywait can always take its next step by
    itself, whatever the other fibers are doing (load the counter, CAS, or return). -/
theorem trywait_enabled (s : St) (f : Nat) (ht : isTry (s.pc f) = true) :
    ∃ e, e.fiber = some f ∧ (step s e).isSome = true := by
  cases hp : s.pc f <;> simp [hp, isTry] at ht
  · refine ⟨.ldCounter f s.counter, rfl, ?_⟩
    simp only [step, hp]; (repeat' split) <;> simp_all
  · rename_i c
    refine ⟨.casCounter f s.counter c (c - 1) (decide (s.counter = c)), rfl, ?_⟩
    simp only [step, hp]; (repeat' split) <;> simp_all
  · rename_i r
    refine ⟨.retTry f r, rfl, ?_⟩
    simp only [step, hp]; (repeat' split) <;> simp_all

/-- **trywait never blocks** (2): structurally there is no parking step — whatever event the
    model accepts, a fiber inside trywait stays inside trywait or returns; it is never
    announced, parked or enqueued, and it never writes a fiber state word. -/
theorem trywait_no_parking (v node0 : Nat) (es : List Ev) (s s' : St) (e : Ev) (f : Nat)
    (h : (sys v node0).run es = some s) (ht : isTry (s.pc f) = true)
    (hs : step s e = some s') :
    (isTry (s'.pc f) = true ∨ s'.pc f = .idle) ∧
    (∀ k g, e ≠ .wWaiting k f g) ∧ (∀ g, e ≠ .wReady f g) := by
  have hq : ∀ g, s.queue.head? = some g → s.pc g = .waitQueued := fun g hq =>
    isQueued_eq ((inv_of_run h).tQueue.cls_of_mem (List.mem_of_head? hq))
  refine ⟨?_, ?_, ?_⟩
  · cases hp : s.pc f <;> simp [hp, isTry] at ht <;>
      (cases e <;> simp only [step] at hs <;> (repeat' (split at hs)) <;>
        (try (simp at hs; done)) <;> (try simp at hs) <;> (try subst hs) <;>
        (try simp only [upd]) <;> grind [isTry])
  · intro k g he
    subst he
    simp only [step] at hs
    cases hp : s.pc f <;> simp [hp, isTry] at ht <;> simp [hp] at hs
  · intro g he
    subst he
    simp only [step] at hs
    cases hp : s.pc f <;> simp [hp, isTry] at ht <;> simp [hp] at hs

/-- trywait fails only after loading a counter value ≤ 0 (no unit at that instant) -/
theorem trywait_fails_only_without_unit (s s' : St) (f : Nat) (c : Int)
    (hp : s.pc f = .tryCalled) (hs : step s (.ldCounter f c) = some s')
    (hf : s'.pc f = .tryDone false) : s.counter ≤ 0 := by
  simp only [step, hp] at hs
  split at hs
  · rename_i hc
    split at hs <;> simp at hs <;> subst hs <;> simp at hf
    omega
  · simp at hs

/-- **trywait never blocks and never succeeds without a unit** (the three facts above in one
    statement): in every reachable state, a fiber inside trywait (a) can take its next step by
    itself, (b) after any accepted event is still inside trywait or has returned and has not
    written a fiber state word (no parking), and (c) if its CAS succeeds, the counter was
    positive and is decremented by exactly one. -/
theorem trywait_nonblocking_and_honest (v node0 : Nat) (es : List Ev) (s : St) (f : Nat)
    (h : (sys v node0).run es = some s) (ht : isTry (s.pc f) = true) :
    (∃ e, e.fiber = some f ∧ (step s e).isSome = true) ∧
    (∀ e s', step s e = some s' →
      (isTry (s'.pc f) = true ∨ s'.pc f = .idle) ∧ (∀ k g, e ≠ .wWaiting k f g)) ∧
    (∀ a b c s', step s (.casCounter f a b c true) = some s' →
      0 < s.counter ∧ s'.counter = s.counter - 1) := by
  refine ⟨trywait_enabled s f ht, ?_, ?_⟩
  · intro e s' hs
    have := trywait_no_parking v node0 es s s' e f h ht hs
    exact ⟨this.1, this.2.1⟩
  · intro a b c s' hs
    have := trywait_honest v node0 es s s' f a b c h ht hs
    exact ⟨this.1, this.2.1⟩

/-! ### quiescence -/

/-- **Quiescent value.**  Once activity has ceased (no fiber is inside wait, trywait or post)
    the counter equals initial + posts − successful waits/trywaits, it is non-negative, the
    waiter queue is empty and no kernel thread has a deferred push pending. -/
theorem quiescent_value (v node0 : Nat) (es : List Ev) (s : St)
    (h : (sys v node0).run es = some s) (hq : ∀ f, s.pc f = .idle) :
    s.counter = (v : Int) + s.postsBegun - s.retOk ∧ 0 ≤ s.counter ∧
    s.queue = [] ∧ (∀ k, s.slot k = none) := by
  have hi := inv_of_run h
  have e1 : s.pend = [] := hi.tPend.nil_of_none (by intro f; simp [hq f, isPend])
  have e2 : s.queue = [] := hi.tQueue.nil_of_none (by intro f; simp [hq f, isQueued])
  have e3 : s.pre = [] := hi.tPre.nil_of_none (by intro f; simp [hq f, isPre])
  have e4 : s.mid = [] := hi.tMid.nil_of_none (by intro f; simp [hq f, isMid])
  have e5 : s.adm = [] := hi.tAdm.nil_of_none (by intro f; simp [hq f, isAdm])
  have h1 := hi.cnt; have h2 := hi.blocked; have h3 := hi.enq; have h4 := hi.popd
  have h5 := hi.posts; have h6 := hi.admd; have h7 := hi.neg; have h8 := hi.nonneg
  simp only [e1, e2, e3, e4, e5, List.length_nil] at *
  refine ⟨by omega, by omega, trivial, ?_⟩
  intro k
  cases hk : s.slot k with
  | none => rfl
  | some w =>
    have := hi.slotP k w hk
    rw [hq w] at this
    cases this

/-- Quiescent value on observable events only (what the monitor checks at `final v`): if the
    harness's `final v` note is accepted at the end of a trace, then
    v = initial + #(`call post`) − #(successful `ret wait` / `ret trywait 1`). -/
theorem quiescent_value_trace (v node0 : Nat) (es : List Ev) (s s' : St) (x : Int)
    (h : (sys v node0).run es = some s) (hs : step s (.final x) = some s') :
    x = (v : Int) + es.countP isCallPost - es.countP isSuccRet := by
  have hi := inv_of_run h
  have hc := trace_counts h
  simp only [step] at hs
  split at hs
  · rename_i hg
    obtain ⟨g0, g1, g2, g3, g4, g5⟩ := hg
    have h1 := hi.cnt; have h2 := hi.blocked; have h3 := hi.enq; have h4 := hi.popd
    have h5 := hi.posts; have h6 := hi.admd
    simp only [g1, g2, g3, g4, g5, List.length_nil] at *
    omega
  · simp at hs

/-! ### non-vacuity: concrete accepted traces

`demoLate` (initial value 0, fibers 16 = waiter and 17 = poster, kernel thread 0): the post
finds a waiter that is announced (counter = −1) but not enqueued — first before the waiter has
even written its state, then while it is parked and its successor has not run the deferred
push yet; both times the post's trypop gives up and the post re-reads the counter; after the
successor's tail CAS the post dequeues the waiter, makes it READY and increments.  So the
hypotheses `run es = some s`, `counter < 0`, `isBlocked`, `isMid`, `pc g = waitHanded`,
`slot k = some w`, `step s (final x) = some _` of the theorems above are all satisfiable. -/

def demoLate : List Ev := [
  .callWait 16, .fsub 16 0,
  .callPost 17, .ldCounter 17 (-1), .ldHead 17 100, .ldHead 17 100, .ldCounter 17 (-1),
  .wWaiting 0 16 16,
  .ldHead 17 100, .ldHead 17 100, .ldCounter 17 (-1),
  .ldTail 0 100, .ldTail 0 100, .casTail 0 100 100 101 true,
  .ldHead 17 100, .ldHead 17 100, .ldHead 17 100, .casHead 17 100 100 101 true,
  .wReady 17 16, .fadd 17 (-1), .retPost 17, .retWait 16, .getValue 0, .final 0]

example : ((sys 0 100).run demoLate).isSome = true := by decide

/-- announced, not enqueued: the post's trypop has just given up -/
example : ((sys 0 100).run (demoLate.take 7)).map
    (fun s => (s.counter, s.pc 16, s.pc 17, s.pend, s.queue)) =
    some (-1, .waitAnnounced, .popStart, [16], []) := by decide

/-- parked in kernel thread 0's deferred-push slot, still not enqueued -/
example : ((sys 0 100).run (demoLate.take 11)).map
    (fun s => (s.counter, s.pc 16, s.slot 0, s.pend, s.queue)) =
    some (-1, .waitParked, some 16, [16], []) := by decide

/-- dequeued, not READY yet; the post is between its dequeue and its increment -/
example : ((sys 0 100).run (demoLate.take 18)).map
    (fun s => (s.counter, s.pc 16, s.pc 17, s.pend ++ s.queue, s.mid)) =
    some (-1, .waitHanded, .popped 16, [], [17]) := by decide
example : ((sys 0 100).run (demoLate.take 18)).map (fun s => (s.admitted, s.postsBegun, s.retOk)) =
    some (1, 1, 0) := by decide

example : ((sys 0 100).run demoLate).map
    (fun s => (s.counter, s.retOk, s.postsBegun, s.pc 16, s.pc 17)) =
    some (0, 1, 1, .idle, .idle) := by decide

/-- `demoTry` (initial value 1): a trywait loses its CAS against a wait that takes the only
    unit and then fails honestly (counter 0); two posts race on the counter CAS; a later
    trywait succeeds from counter = 2.  Final value 1 = 1 + 2 posts − 2 successes. -/
def demoTry : List Ev := [
  .callTry 16, .ldCounter 16 1, .callWait 17, .fsub 17 1, .casCounter 16 0 1 0 false,
  .ldCounter 16 0, .retTry 16 false, .retWait 17,
  .callPost 17, .ldCounter 17 0, .callPost 18, .ldCounter 18 0, .casCounter 18 0 0 1 true,
  .casCounter 17 1 0 1 false, .ldCounter 17 1, .casCounter 17 1 1 2 true, .retPost 17,
  .retPost 18,
  .callTry 16, .ldCounter 16 2, .casCounter 16 2 2 1 true, .retTry 16 true, .final 1]

example : ((sys 1 100).run demoTry).map (fun s => (s.counter, s.retOk, s.postsBegun, s.tryFail)) =
    some (1, 2, 2, 1) := by decide

/-- a successful trywait CAS is an accepted step from a reachable state with counter > 0 -/
example : (((sys 1 100).run (demoTry.take 20)).bind
    (fun s => step s (.casCounter 16 2 2 1 true))).isSome = true := by decide

/-- the model REJECTS what the property forbids: a trywait CAS from 0, a wait admitted
    without a unit, a post that takes the CAS path while the counter is negative, and a post
    that returns after a wake without its increment -/
example : (((sys 0 100).run [.callTry 16, .ldCounter 16 0]).bind
    (fun s => step s (.casCounter 16 0 0 (-1) true))).isSome = false := by decide
example : ((sys 0 100).run [.callWait 16, .fsub 16 0, .retWait 16]).isSome = false := by decide
example : (((sys 0 100).run (demoLate.take 4)).bind
    (fun s => step s (.casCounter 17 (-1) (-1) 0 true))).isSome = false := by decide
example : (((sys 0 100).run (demoLate.take 19)).bind
    (fun s => step s (.retPost 17))).isSome = false := by decide

end LibfiberVerif.Sem
