/-
  Props/C09.lean — sleeping fibers wake exactly once and never early.

  "A fiber calling sleep/usleep/nanosleep/fiber_sleep is suspended for at least the requested
   duration and is then resumed exactly once, however many fibers sleep concurrently, share a
   wake-up tick or are stolen by another thread at the moment they are woken.  Other fibers on
   the same kernel thread keep running while it sleeps."

  Model: `Sleep.sys v` (Model/Sleep.lean).  `v : Variant` are the three decisions in which the
  code as found and the candidate fixes differ, plus the timer period:

    v.nextFirst  fiber_event_wake_sleepers reads `to_wake->next` before it makes the fiber
                 runnable                       (as found: after — F-C09a)
    v.drains     the timer is read under sleep_spinlock, by the poller and by fiber_sleep
                                                (as found: before the lock, poller only — F-C09b)
    v.widen      64-bit `seconds * 1000`, nanosleep splits tv_sec > UINT32_MAX
                                                (as found: 32-bit, truncated — F-C09c)

  `asFound` = (false, false, false), `fixed` = (true, true, true); the variant the working tree
  implements is `Gen.SleepDecisions.tree`, regenerated from the source on every check, and it
  is THAT variant every implementation trace is validated against.

  Every theorem quantifies over every accepted event list: any number of fibers sleeping and
  polling on any number of kernel threads, any durations (0, sub-tick, non-multiples,
  seconds + microseconds), equal or different deadlines, any phase of the timer (virtual time
  has microsecond resolution, `tick d k` advances it by any `d`), any interleaving.

  Vocabulary (Proof/Sleep.lean):
    toList t          in-order (id, wake_time) pairs of the sleepers tree, chains included
    Ordered t         binary-search-tree order on wake times
    drainAll t now    everything the wake loop removes from `t` at time `now`, in wake order,
                      and the tree that is left
    s.start f, s.req f         virtual time of `call sleep` and requested µs of fiber f's call
    s.stale f         ghost: a `ttc` read by fiber_sleep during this call was smaller than the
                      number of expirations at the start of that fiber_sleep call
    s.ovf f           ghost: the fiber_sleep calls made for this request guarantee less than
                      was requested (32-bit wrap of `sleep_ms` / truncated tv_sec)
    s.nPark/nWake/nRes f       number of times f parked in fiber_sleep / was made READY by a
                      wake pass / resumed from fiber_sleep
    s.badRead         ghost: the wake pass read a node although the node's fiber was not parked
    Quiet s           the lock is free or its owner is not in the middle of a wake pass
-/
import LibfiberVerif.Proof.Sleep
import LibfiberVerif.Gen.SleepDecisions

namespace LibfiberVerif.C09
open LibfiberVerif LibfiberVerif.Sleep LibfiberVerif.Sleep.Tree

def asFound : Variant := { nextFirst := false, drains := false, widen := false, period := 5000 }
def fixed : Variant := { nextFirst := true, drains := true, widen := true, period := 5000 }

/-- run `es` and evaluate `p` on the final state (false if the model rejects the trace) -/
def check (v : Variant) (es : List Ev) (p : St → Bool) : Bool :=
  match (sys v).run es with
  | some s => p s
  | none => false

theorem check_elim {v : Variant} {es : List Ev} {p : St → Bool} (h : check v es p = true) :
    ∃ s, (sys v).run es = some s ∧ p s = true := by
  unfold check at h
  split at h
  · rename_i s hs; exact ⟨s, hs, h⟩
  · simp at h

/-! ## 1. the pure tree functions (waiter_insert, waiter_remove_less_than, the wake loop) -/

/-- waiter_insert adds exactly the new element: the multiset of (id, wake_time) grows by it. -/
theorem insert_multiset (t : Tree) (id wt : Nat) :
    (insert t id wt).toList.Perm ((id, wt) :: t.toList) :=
  insert_toList_perm t id wt

theorem insert_keeps_order (t : Tree) (id wt : Nat) (h : Ordered t) : Ordered (insert t id wt) :=
  insert_ordered id wt h

/-- waiter_remove_less_than returns the first group of the in-order traversal, only if it is
    due, and NULL only if nothing in the tree is due. -/
theorem remove_returns_first_due (t : Tree) (now : Nat) (ho : Ordered t) :
    (∀ i w c t', removeLt t now = some ((i, w, c), t') →
        t.toList = group i w c ++ t'.toList ∧ w < now ∧ Ordered t') ∧
    (removeLt t now = none → ∀ x ∈ t.toList, now ≤ x.2) :=
  ⟨fun _ _ _ _ h => ⟨removeLt_toList h, removeLt_lt h, removeLt_ordered ho h⟩, removeLt_none ho⟩

/-- The wake loop returns every element with `wake_time < now` exactly once, and no other:
    the tree's traversal splits into what was woken (in this order) and what is left. -/
theorem remove_all_due_once (t : Tree) (now : Nat) (ho : Ordered t) :
    t.toList = (drainAll t now).1 ++ (drainAll t now).2.toList ∧
    (drainAll t now).1 = t.toList.filter (fun x => decide (x.2 < now)) ∧
    (drainAll t now).2.toList = t.toList.filter (fun x => !decide (x.2 < now)) ∧
    removeLt (drainAll t now).2 now = none := by
  obtain ⟨h1, h2, h3, _, h5⟩ := drainN_spec (size t) t now ho (Nat.le_refl _)
  have hs := filter_append_split (fun x : Nat × Nat => decide (x.2 < now)) (drainAll t now).1
    (drainAll t now).2.toList (by intro x hx; simpa using h2 x hx)
    (by intro x hx; have := h3 x hx; simp; omega)
  refine ⟨h1, ?_, ?_, h5⟩
  · conv => rhs; rw [h1]
    exact hs.1.symm
  · conv => rhs; rw [h1]
    exact hs.2.symm

/-- non-vacuity: three sleepers, two with the same deadline; the loop at time 4 wakes exactly
    the two that are due, chain order included -/
example : drainAll (insert (insert (insert .nil 1 5) 2 3) 3 3) 4 = ([(2, 3), (3, 3)], .node 1 5 [] .nil .nil) := by
  decide

/-! ## 2. resumed exactly once -/

/-- Between two parks of a fiber there is exactly one wake-up and exactly one resume:
    `nRes ≤ nWake ≤ nPark ≤ nRes + 1` in every reachable state, with equality whenever the
    fiber is not inside fiber_sleep's park/wake/resume window.  (The model accepts a READY
    write only for a parked fiber and a `resumed` note only from a woken one; that the
    implementation never does anything else is what trace validation checks.) -/
theorem wake_exactly_once (v : Variant) (hP : 0 < v.period) : ∀ es s, (sys v).run es = some s →
    ∀ f, s.nRes f ≤ s.nWake f ∧ s.nWake f ≤ s.nPark f ∧ s.nPark f ≤ s.nRes f + 1 ∧
      (s.pc f = .woken ↔ s.nWake f = s.nRes f + 1) ∧
      (s.pc f ≠ .woken → s.pc f ≠ .parkedL → s.pc f ≠ .parked → s.nPark f = s.nRes f) := by
  intro es s h f
  have hc := (allInv_of_run v hP h).C f
  by_cases h1 : s.pc f = .woken <;> by_cases h2 : s.pc f = .parkedL <;> by_cases h3 : s.pc f = .parked <;>
    simp_all <;> omega

/-- the same on the events themselves: in every accepted trace, for every fiber, the number of
    `resumed` notes, of READY writes by wake passes and of parks differ by at most one, in this
    order — a fiber is never made READY twice for one park, never resumed twice for one wake. -/
theorem wake_exactly_once_events (v : Variant) (hP : 0 < v.period) : ∀ es s, (sys v).run es = some s →
    ∀ f, es.countP (isResume f) ≤ es.countP (isWake f) ∧ es.countP (isWake f) ≤ es.countP (isPark f) ∧
      es.countP (isPark f) ≤ es.countP (isResume f) + 1 := by
  intro es s h f
  have hc := counters_count_events v h f
  have := wake_exactly_once v hP es s h f
  omega

/-- An API call returns only after every fiber_sleep call it makes has been resumed. -/
theorem returns_after_all_segments (v : Variant) (hP : 0 < v.period) : ∀ es s, (sys v).run es = some s →
    ∀ f, s.pc f = .done → s.segs f = [] ∧ s.credit f = s.guar f := by
  intro es s h f hd
  have hs := (allInv_of_run v hP h).S f
  have h1 := hs.1 (by simp [hd, Pc.inCall])
  have h2 := hs.2.1 hd
  rw [h2] at h1
  simp only [guaranteed] at h1
  exact ⟨h2, by omega⟩

/-- Every node the wake pass removes from the tree or follows through `next` belongs to a
    fiber that is parked in fiber_sleep at that moment (so the READY write it is about to do
    is that fiber's one and only wake-up). -/
theorem wake_targets_are_parked (v : Variant) (hP : 0 < v.period) : ∀ es s, (sys v).run es = some s →
    (s.tree.toList.map (·.1) ++ s.cur).Nodup ∧ (∀ m ∈ s.cur, s.pc m = .parked ∧ s.wake m < s.ttc) := by
  intro es s h
  have hm := (allInv_of_run v hP h).M
  refine ⟨hm.1, ?_⟩
  intro m hmem
  have h1 := hm.2.2.1 m hmem
  have h2 := hm.2.2.2.1 (by intro h0; rw [h0] at hmem; simp at hmem)
  exact ⟨h1.2.1, by rw [h1.1]; exact h2.1⟩

/-! ## 3. the waker never reads a node whose fiber may already run (F-C09a) -/

/-- With `next` read before the fiber is made runnable, every read of a node by the wake pass
    happens while the node's fiber is parked; no fiber is ever dropped from a wake chain. -/
theorem node_read_valid (v : Variant) (hP : 0 < v.period) (hn : v.nextFirst = true) :
    ∀ es s, (sys v).run es = some s → s.badRead = false ∧ s.lost = [] := by
  intro es s h
  have := (allInv_of_run v hP h).N.2.2.2 hn
  exact ⟨this.2.1, this.1⟩

/-- … and nothing that is due stays behind: whenever the lock is free (or its owner is not in
    the middle of a wake pass) every parked fiber's deadline is still ahead of
    timer_trigger_count, and every parked fiber is in the tree. -/
theorem no_lost_sleeper (v : Variant) (hP : 0 < v.period) (hn : v.nextFirst = true) :
    ∀ es s, (sys v).run es = some s → Quiet s →
    ∀ f, s.pc f = .parked → s.ttc ≤ s.wake f ∧ (f, s.wake f) ∈ s.tree.toList := by
  intro es s h hq f hf
  have hI := allInv_of_run v hP h
  have hlost := (hI.N.2.2.2 hn).1
  have hcur : s.cur = [] := by
    apply Classical.byContradiction
    intro hc
    obtain ⟨_, g, h2, h3⟩ := hI.M.2.2.2.1 hc
    have := hq g h2
    revert h3 this; cases s.pc g <;> simp [Pc.walking, Pc.inPass]
  rcases hI.N.1 f (by simp [hf, Pc.inTree]) with h1 | h1 | h1
  · simp only [ids, List.mem_map] at h1
    obtain ⟨x, hx, rfl⟩ := h1
    have hw := (hI.M.2.1 x hx).1
    refine ⟨by rw [hw]; exact hI.N.2.1 hq x hx, ?_⟩
    rw [hw]; exact hx
  · rw [hcur] at h1; simp at h1
  · rw [hlost] at h1; simp at h1

/-- in particular when the lock is free -/
theorem no_lost_sleeper_lock_free (v : Variant) (hP : 0 < v.period) (hn : v.nextFirst = true) :
    ∀ es s, (sys v).run es = some s → s.holder = none → ∀ f, s.pc f = .parked → s.ttc ≤ s.wake f :=
  fun es s h hh f hf =>
    (no_lost_sleeper v hP hn es s h (by intro g hg; rw [hh] at hg; simp at hg) f hf).1

/-- AS FOUND (F-C09a): two fibers sleep with the same deadline; the wake pass makes the first
    one READY, another kernel thread runs it (`resumed 16`), and only then the waker reads
    `to_wake->next` from 16's dead stack frame and finds NULL: fiber 17 is never woken although
    its deadline has passed and the lock is free again. -/
def lostTrace : List Ev := [
  .callSleep 16 .fs 0 1000 0, .lockFadd 16 0, .lockLd 16 0, .rTtc 16 0 true, .rRoot 16 0, .wRoot 16 16,
  .nodeNote 16 2, .wWaiter 16 16 16, .wState 16 16 3, .unlockLd 1 0, .unlockSt 1 1,
  .callSleep 17 .fs 0 1000 0, .lockFadd 17 1, .lockLd 17 1, .rTtc 17 0 true, .rRoot 17 16, .rWt 17 16 2,
  .rNext 17 16 0, .wNext 17 16 17, .nodeNote 17 2, .wWaiter 17 17 17, .wState 17 17 3,
  .unlockLd 1 1, .unlockSt 1 2,
  .tick 15000 3, .timerRead 1 3, .lockFadd 1 2, .lockLd 1 2, .rTtc 1 0 false, .wTtc 1 3, .rTtc 1 3 false,
  .rRoot 1 16, .rLeft 1 16 0, .rWt 1 16 2, .rRight 1 16 0, .wRoot 1 0, .rWaiter 1 16 16, .wState 1 16 2,
  .resumed 16, .staleNext 1 0,
  .rTtc 1 3 false, .rRoot 1 0, .unlockLd 1 2, .unlockSt 1 3]

theorem lost_sleeper_as_found :
    ∃ es s f, (sys asFound).run es = some s ∧ s.holder = none ∧ s.pc f = .parked ∧ s.wake f < s.ttc ∧
      f ∈ s.lost ∧ s.badRead = true := by
  have h : check asFound lostTrace (fun s => decide (s.holder = none) && decide (s.pc 17 = .parked) &&
      decide (s.wake 17 < s.ttc) && decide (17 ∈ s.lost) && s.badRead) = true := by rfl
  obtain ⟨s, hs, hp⟩ := check_elim h
  simp only [Bool.and_eq_true, decide_eq_true_eq] at hp
  exact ⟨lostTrace, s, 17, hs, hp.1.1.1.1, hp.1.1.1.2, hp.1.1.2, hp.1.2, hp.2⟩

/-- so the two clauses of §3 are FALSE for the code as found -/
theorem node_read_valid_false_as_found :
    ¬ (∀ es s, (sys asFound).run es = some s → s.badRead = false ∧ s.lost = []) := by
  intro hall
  obtain ⟨es, s, f, hs, _, _, _, hl, _⟩ := lost_sleeper_as_found
  have := (hall es s hs).2
  rw [this] at hl; simp at hl

theorem no_lost_sleeper_false_as_found :
    ¬ (∀ es s, (sys asFound).run es = some s → s.holder = none → ∀ f, s.pc f = .parked → s.ttc ≤ s.wake f) := by
  intro hall
  obtain ⟨es, s, f, hs, hh, hp, hw, _, _⟩ := lost_sleeper_as_found
  have := hall es s hs hh f hp
  omega

/-! ## 4. never early -/

/-- PARTIAL (every variant): a fiber about to return from its sleep call has been suspended for
    at least the requested time, PROVIDED no fiber_sleep call of this request read a `ttc` that
    was behind the timer (`stale`) and the 32-bit arithmetic did not lose part of the request
    (`ovf`).  `s.now` is the virtual time of the state in which `ret sleep` is the fiber's next
    event, `s.start f` the virtual time of its `call sleep`. -/
theorem never_early_partial (v : Variant) (hP : 0 < v.period) : ∀ es s, (sys v).run es = some s →
    ∀ f, s.pc f = .done → s.stale f = false → s.ovf f = false → s.start f + s.req f ≤ s.now := by
  intro es s h f hd hst hov
  have hI := allInv_of_run v hP h
  have hs := hI.S f
  have h1 := hs.1 (by simp [hd, Pc.inCall])
  have h2 := hs.2.1 hd
  have hr := hI.R f (by simp [hd, Pc.inCall]) hov
  rw [h2] at h1
  simp only [guaranteed] at h1
  have := h1.1 hst
  omega

/-- the first hypothesis holds whenever fiber_sleep reads `ttc` while no expiration is unread
    or in flight ("no unread expirations at call time") -/
theorem clean_read_not_stale (v : Variant) (hP : 0 < v.period) : ∀ es s, (sys v).run es = some s →
    ∀ f x s', s.pending = 0 → s.fl = [] → s.stale f = false →
    step v s (.rTtc f x true) = some s' → s'.stale f = false := by
  intro es s h f x s' hp hfl hst hstep
  have hI := allInv_of_run v hP h
  have hacct := hI.T.1
  rw [hp, hfl] at hacct; simp [flSum] at hacct
  simp only [step] at hstep
  (repeat' split at hstep) <;> simp at hstep <;> subst hstep
  all_goals
    have hc : (s.pc f).inCall = true := by simp_all [Pc.inCall]
    have := Nat.div_le_div_right (c := v.period) ((hI.S f).1 hc).2.1
    simp [upd, hst] <;> omega

/-- … and the second one for every request whose `seconds * 1000 + useconds / 1000 + 1` fits in
    32 bits (every request below 4 290 672 s; usleep: always) -/
theorem small_request_no_ovf (v : Variant) (hp : 1000 ≤ v.period) (s s' : St) (f : Nat) (kind : Kind)
    (a b t : Nat) (hno : noOvf kind a b) (h : step v s (.callSleep f kind a b t) = some s') :
    s'.ovf f = false := by
  simp only [step] at h
  split at h <;> simp at h
  subst h
  rename_i hc
  have := guaranteed_ge_req_small v hp kind a b hc.2.2.2 hno
  simp [upd]; omega

/-- with 64-bit arithmetic (F-C09c fixed) no request the C types allow is cut short -/
theorem widen_no_ovf (v : Variant) (hw : v.widen = true) (hp : 1000 ≤ v.period) :
    ∀ es s, (sys v).run es = some s → ∀ f, (s.pc f).inCall = true → s.ovf f = false := by
  intro es s h
  refine Sys.inv_of_run (sys v) (fun s => ∀ f, (s.pc f).inCall = true → s.ovf f = false)
    (by intro f hf; simp [sys, init, Pc.inCall] at hf) ?_ h
  intro s e s' hI hstep
  have hstep' : step v s e = some s' := hstep
  cases e with
  | callSleep f kind a b t =>
    simp only [step] at hstep'
    split at hstep' <;> simp at hstep'
    subst hstep'
    rename_i hc
    intro f' hf'
    by_cases hff : f' = f
    · subst hff
      have := guaranteed_ge_req v hw hp kind a b hc.2.2.2
      simp [upd]; omega
    · simp only [upd, hff, if_false] at hf' ⊢; exact hI f' hf'
  | _ =>
    simp only [step] at hstep' <;> (repeat' split at hstep') <;> simp at hstep' <;> (try subst hstep')
    all_goals (intro f' hf'; have := hI f'; (try simp only [upd, afterNext] at *); grind [Pc.inCall])

/-- FULL (F-C09b and F-C09c fixed): with the timer read under the lock and 64-bit arithmetic a
    fiber is never resumed early — for every duration the C types allow, any number of
    sleepers, any phase of the tick, any interleaving. -/
theorem never_early (v : Variant) (hd : v.drains = true) (hw : v.widen = true) (hp : 1000 ≤ v.period) :
    ∀ es s, (sys v).run es = some s → ∀ f, s.pc f = .done → s.start f + s.req f ≤ s.now := by
  intro es s h f hdone
  have hP : 0 < v.period := by omega
  have hD := invD_of_run v hP hd h
  have hst := hD.2.2.2 f (by simp [hdone, Pc.inCall])
  have hI := allInv_of_run v hP h
  have hs := hI.S f
  have h1 := hs.1 (by simp [hdone, Pc.inCall])
  have h2 := hs.2.1 hdone
  rw [h2] at h1
  simp only [guaranteed] at h1
  have := h1.1 hst
  have hr := hI.R f (by simp [hdone, Pc.inCall])
    (widen_no_ovf v hw hp es s h f (by simp [hdone, Pc.inCall]))
  omega

/-- AS FOUND (F-C09b): four expirations accumulate unread while nobody polls (virtual time
    20 000 µs), fiber 16 calls usleep(2000): wake_time = 0 + 3; the next poll reads 4 and makes
    it READY at once: it returns after 0 µs. -/
def earlyTrace : List Ev := [
  .tick 20000 4, .callSleep 16 .us 2000 0 20000, .lockFadd 16 0, .lockLd 16 0, .rTtc 16 0 true,
  .rRoot 16 0, .wRoot 16 16, .nodeNote 16 3, .wWaiter 16 16 16, .wState 16 16 3, .unlockLd 1 0, .unlockSt 1 1,
  .timerRead 1 4, .lockFadd 1 1, .lockLd 1 1, .rTtc 1 0 false, .wTtc 1 4, .rTtc 1 4 false,
  .rRoot 1 16, .rLeft 1 16 0, .rWt 1 16 3, .rRight 1 16 0, .wRoot 1 0, .rWaiter 1 16 16, .wState 1 16 2,
  .rNext 1 16 0, .rTtc 1 4 false, .rRoot 1 0, .unlockLd 1 1, .unlockSt 1 2, .resumed 16]

theorem early_wake_as_found :
    ∃ es s f, (sys asFound).run es = some s ∧ s.pc f = .done ∧ s.ovf f = false ∧
      s.now < s.start f + s.req f := by
  have h : check asFound earlyTrace (fun s => decide (s.pc 16 = .done) && !s.ovf 16 &&
      decide (s.now < s.start 16 + s.req 16)) = true := by decide
  obtain ⟨s, hs, hp⟩ := check_elim h
  simp only [Bool.and_eq_true, decide_eq_true_eq, Bool.not_eq_true'] at hp
  exact ⟨earlyTrace, s, 16, hs, hp.1.1, hp.1.2, hp.2⟩

/-- AS FOUND (F-C09c): fiber_sleep(4294968, 0): `4294968 * 1000` wraps to 704, the fiber is
    woken after 706 ticks = 3.53 s instead of 4 294 968 s — with an up-to-date `ttc`. -/
def overflowTrace : List Ev := [
  .callSleep 16 .fs 4294968 0 0, .lockFadd 16 0, .lockLd 16 0, .rTtc 16 0 true,
  .rRoot 16 0, .wRoot 16 16, .nodeNote 16 705, .wWaiter 16 16 16, .wState 16 16 3, .unlockLd 1 0, .unlockSt 1 1,
  .tick 3530000 706, .timerRead 1 706, .lockFadd 1 1, .lockLd 1 1, .rTtc 1 0 false, .wTtc 1 706, .rTtc 1 706 false,
  .rRoot 1 16, .rLeft 1 16 0, .rWt 1 16 705, .rRight 1 16 0, .wRoot 1 0, .rWaiter 1 16 16, .wState 1 16 2,
  .rNext 1 16 0, .rTtc 1 706 false, .rRoot 1 0, .unlockLd 1 1, .unlockSt 1 2, .resumed 16]

theorem overflow_short_sleep_as_found :
    ∃ es s f, (sys asFound).run es = some s ∧ s.pc f = .done ∧ s.stale f = false ∧
      s.now < s.start f + s.req f := by
  have h : check asFound overflowTrace (fun s => decide (s.pc 16 = .done) && !s.stale 16 &&
      decide (s.now < s.start 16 + s.req 16)) = true := by decide
  obtain ⟨s, hs, hp⟩ := check_elim h
  simp only [Bool.and_eq_true, decide_eq_true_eq, Bool.not_eq_true'] at hp
  exact ⟨overflowTrace, s, 16, hs, hp.1.1, hp.1.2, hp.2⟩

/-- so the full statement is FALSE for the code as found, for either reason -/
theorem never_early_false_as_found :
    ¬ (∀ es s, (sys asFound).run es = some s → ∀ f, s.pc f = .done → s.start f + s.req f ≤ s.now) := by
  intro hall
  obtain ⟨es, s, f, hs, hd, _, hlt⟩ := early_wake_as_found
  have := hall es s hs f hd
  omega

/-- non-vacuity of `never_early`: the same two scenarios on the fixed variant — fiber_sleep
    drains the four unread expirations first, the fiber sleeps until tick 8 (20 000 µs);
    `fiber_sleep(4294968, 0)` gets wake_time 4 294 968 001 -/
example : check fixed [
    .tick 20000 4, .callSleep 16 .us 2000 0 20000, .lockFadd 16 0, .lockLd 16 0, .timerRead 16 4,
    .rTtc 16 0 false, .wTtc 16 4, .rTtc 16 4 false, .rRoot 16 0, .rTtc 16 4 true,
    .rRoot 16 0, .wRoot 16 16, .nodeNote 16 7, .wWaiter 16 16 16, .wState 16 16 3, .unlockLd 1 0, .unlockSt 1 1,
    .tick 20000 4, .lockFadd 1 1, .lockLd 1 1, .timerRead 1 4, .rTtc 1 4 false, .wTtc 1 8, .rTtc 1 8 false,
    .rRoot 1 16, .rLeft 1 16 0, .rWt 1 16 7, .rRight 1 16 0, .wRoot 1 0, .rWaiter 1 16 16, .rNext 1 16 0,
    .wState 1 16 2, .rTtc 1 8 false, .rRoot 1 0, .unlockLd 1 1, .unlockSt 1 2, .resumed 16]
    (fun s => decide (s.pc 16 = .done) && decide (s.start 16 + s.req 16 ≤ s.now) && !s.badRead) = true := by decide

example : check fixed [
    .callSleep 16 .fs 4294968 0 0, .lockFadd 16 0, .lockLd 16 0, .timerRead 16 0,
    .rTtc 16 0 false, .wTtc 16 0, .rTtc 16 0 false, .rRoot 16 0, .rTtc 16 0 true,
    .rRoot 16 0, .wRoot 16 16, .nodeNote 16 4294968001]
    (fun s => decide (s.pc 16 = .inserted) && !s.ovf 16) = true := by decide

/-! ## 5. others keep running -/

/-- A sleeping fiber holds nothing: once its successor has released sleep_spinlock on its
    behalf (`parked`), the fiber owns no lock, so every other fiber's steps (sleeping, polling,
    anything else) are enabled exactly as if it did not exist.  That the kernel thread really
    runs them is the scheduler's property (C01/C02/C10) and is exercised by the harness's
    `w<i>` clock op (status STARVED otherwise). -/
theorem sleeper_holds_nothing (v : Variant) (hP : 0 < v.period) : ∀ es s, (sys v).run es = some s →
    ∀ f, s.pc f = .parked ∨ s.pc f = .woken → s.holder ≠ some f := by
  intro es s h f hf hh
  have := (allInv_of_run v hP h).L.2 f hh
  rcases hf with hf | hf <;> simp [hf, Pc.holds] at this

/-- timer accounting, every variant: every expiration is in exactly one place, and
    timer_trigger_count never runs ahead of the timer -/
theorem ttc_never_ahead (v : Variant) (hP : 0 < v.period) : ∀ es s, (sys v).run es = some s →
    s.ttc + s.pending + flSum s.fl = s.now / v.period ∧ s.ttc ≤ s.now / v.period := by
  intro es s h
  have := (allInv_of_run v hP h).T.1
  exact ⟨this, by omega⟩

/-! ## 6. the working tree -/

/-- the period the source configures is at least one millisecond (what the arithmetic needs) -/
theorem tree_period_ok : 1000 ≤ Gen.SleepDecisions.tree.period := by decide

/-- what the theorems above say about the variant extracted from the working tree: each clause
    under exactly the decision it depends on (all three hold for `fixed`, none for `asFound`) -/
theorem tree_spec :
    (Gen.SleepDecisions.tree.nextFirst = true →
      ∀ es s, (sys Gen.SleepDecisions.tree).run es = some s → s.badRead = false ∧ s.lost = [] ∧
        (s.holder = none → ∀ f, s.pc f = .parked → s.ttc ≤ s.wake f)) ∧
    (Gen.SleepDecisions.tree.drains = true → Gen.SleepDecisions.tree.widen = true →
      ∀ es s, (sys Gen.SleepDecisions.tree).run es = some s → ∀ f, s.pc f = .done →
        s.start f + s.req f ≤ s.now) ∧
    (∀ es s, (sys Gen.SleepDecisions.tree).run es = some s → ∀ f, s.pc f = .done → s.stale f = false →
        s.ovf f = false → s.start f + s.req f ≤ s.now) := by
  have hp := tree_period_ok
  have hP : 0 < Gen.SleepDecisions.tree.period := by omega
  refine ⟨fun hn es s h => ?_, fun hd hw => never_early _ hd hw hp, never_early_partial _ hP⟩
  have := node_read_valid _ hP hn es s h
  exact ⟨this.1, this.2, no_lost_sleeper_lock_free _ hP hn es s h⟩

end LibfiberVerif.C09
