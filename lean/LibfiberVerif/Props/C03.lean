/-
  Props/C03.lean — property C03 (src/fiber_mutex.c on fiber_manager_wait_in_mpsc_queue /
  fiber_manager_wake_from_mpsc_queue and include/mpsc_fifo.h), theorems only.

  "While one fiber holds a fiber mutex no other fiber's lock or trylock succeeds, and writes
   made in the critical section are seen by the next owner.  Unlocking a contended mutex
   passes ownership to exactly one waiter: no waiter stays blocked on a mutex nobody holds
   and one unlock never releases two waiters."

  Every theorem is for every event list `es` accepted by the model (`run es = some s`): any
  number of fibers (`Nat → Pc`) on any number of kernel threads, any number of
  lock / trylock / unlock calls, every interleaving of their individual shared accesses —
  in particular a locker that has decremented `counter` and has not yet done its
  `xchg(&tail)` / its `prev->next` write while the unlock's `fetch_add` and wake loop run
  (those are just states with `pc ∈ lockDec … pushCleared / pushXchgd`).

  Vocabulary (definitions in `Proof/Mutex.lean`, ghost fields in `Model/Mutex.lean`):
  * `s.owner`   ghost owner: set at an acquire point (uncontended `fetch_sub`, successful
                trylock CAS, the waker's `head := next` on behalf of the popped waiter),
                cleared by the release `fetch_add`.
  * `Holds s f` `pc f ∈ {acquired, held, tryDone true, unlockCalled}`, or `f` is `parked`
                with `owner = some f` (handed off, not yet resumed).
  * `Ann s f`   `f` is an announced waiter: it has done the contended `fetch_sub` and has not
                been handed the mutex (`pc f ∈ lockDec … pushCleared` = before `xchg(&tail)`,
                `pushXchgd` = before the `prev->next` write, or `parked` and not the owner).
  * `Pc.isWake` in the wake loop before the pop takes effect (`wakeLoop/popGotHead/popGotNext`);
    `Pc.isPost` after `head := next`, still finishing the pop / waking the fiber;
    `Pc.isPop = isWake ∨ isPost`: the consumer side of the waiter queue.
  * `s.order`, `s.hd`, `s.linked`: the waiter queue kept abstractly (C15 is the theorem that
                this is what mpsc_fifo.h implements); `order[hd]` is the oldest waiter not popped.
  * `s.inCs`, `s.data`, `s.seen`: the harness's critical section (`cs enter` reads the plain
                cell `shared` into `seen f`, yields, `cs exit` writes `seen f + 1`).

  Model guards that are assumptions (validated on every trace by tools/check.py, listed in
  tools/specs_c03.py): unlock is called by the owner after its critical section ended; a
  handed-off waiter returns from `lock` only after its waker finished waking it (a parked
  fiber runs only after it was scheduled — C01).
-/
import LibfiberVerif.Proof.Mutex

namespace LibfiberVerif.Mutex

/-! ### mutual exclusion -/

/-- At most one holder, and it is the ghost owner: `Holds s f ↔ owner = some f`; hence two
    holders are equal.  A handed-off waiter that has not resumed counts as the holder. -/
theorem excl (stub : Nat) (nodeOf : Nat → Nat) (es : List Ev) (s : St)
    (h : (sys stub nodeOf).run es = some s) :
    (∀ f, Holds s f ↔ s.owner = some f) ∧ (∀ f g, Holds s f → Holds s g → f = g) := by
  have hi := inv_of_run h
  refine ⟨hi.holds_iff, fun f g hf hg => ?_⟩
  have h1 := (hi.holds_iff f).1 hf
  have h2 := (hi.holds_iff g).1 hg
  rw [h1] at h2; cases h2; rfl

/-- Occupancy of the harness's critical section: at most one fiber, and it is the owner. -/
theorem inCs_le_one (stub : Nat) (nodeOf : Nat → Nat) (es : List Ev) (s : St)
    (h : (sys stub nodeOf).run es = some s) :
    s.inCs.length ≤ 1 ∧ ∀ f, f ∈ s.inCs → s.owner = some f ∧ s.pc f = .held := by
  rcases (inv_of_run h).inCs_cases with h0 | ⟨f, h1, h2, h3⟩
  · simp [h0]
  · rw [h1]; refine ⟨by simp, fun g hg => ?_⟩
    simp at hg; subst hg; exact ⟨h2, h3⟩

/-! ### the counting identity -/

/-- `counter = 1 − [owner ≠ none] − #announced`, where the announced fibers are those that
    have done the contended `fetch_sub` and have not yet been handed the mutex.  (An unlocker
    in its wake loop has already given the mutex up: `owner = none` there, and the waiter it
    is going to pop is still counted as announced until the pop.)  `Card P n` = "exactly `n`
    fibers satisfy `P`" (there is a duplicate-free list of length `n` enumerating them). -/
theorem counter_eq (stub : Nat) (nodeOf : Nat → Nat) (es : List Ev) (s : St)
    (h : (sys stub nodeOf).run es = some s) :
    ∃ n : Nat, Card (Ann s) n ∧ s.counter = 1 - (if s.owner = none then 0 else 1) - (n : Int) :=
  (inv_of_run h).cnt

/-- The same for any enumeration of the announced fibers. -/
theorem counter_eq_list (stub : Nat) (nodeOf : Nat → Nat) (es : List Ev) (s : St)
    (h : (sys stub nodeOf).run es = some s) (l : List Nat) (hnd : l.Nodup)
    (hl : ∀ f, f ∈ l ↔ Ann s f) :
    s.counter = 1 - (if s.owner = none then 0 else 1) - (l.length : Int) := by
  obtain ⟨n, hc, hn⟩ := (inv_of_run h).cnt
  have : Card (Ann s) l.length := ⟨l, hnd, hl, rfl⟩
  rw [← hc.unique this]; exact hn

/-- Consequences: `counter ≤ 1`, and `counter = 1` exactly when the mutex is free and nobody is
    announced.  So `fetch_sub` seeing 1 / a successful CAS ⇒ nobody owns, and a `fetch_add`
    with `old + 1 ≠ 1` ⇒ some announced waiter exists (see `unlock_step`). -/
theorem counter_one_iff (stub : Nat) (nodeOf : Nat → Nat) (es : List Ev) (s : St)
    (h : (sys stub nodeOf).run es = some s) :
    s.counter ≤ 1 ∧ (s.counter = 1 ↔ (s.owner = none ∧ ∀ g, ¬ Ann s g)) := by
  have hi := inv_of_run h
  refine ⟨hi.counter_le, hi.free_of_one, fun ⟨ho, hf⟩ => ?_⟩
  obtain ⟨n, hc, hn⟩ := hi.cnt
  have : n = 0 := hc.unique (Card.zero_iff.2 hf)
  subst this; simp [ho] at hn; exact hn

/-! ### acquiring -/

/-- A trylock CAS succeeds only in a state with no owner, no announced waiter and nobody in
    the wake loop / popping; it makes the caller the owner. -/
theorem try_only_free (stub : Nat) (nodeOf : Nat → Nat) (es : List Ev) (s s' : St)
    (h : (sys stub nodeOf).run es = some s) (f : Nat) (found : Int)
    (hs : (sys stub nodeOf).step s (.casCounter f found true) = some s') :
    found = 1 ∧ s.owner = none ∧ (∀ g, ¬ Ann s g) ∧ (∀ g, (s.pc g).isPop = false) ∧
    s'.owner = some f := by
  obtain ⟨-, h2, h3, h4, -⟩ := cas_step hs
  have h1 : found = 1 := h3.1 rfl
  obtain ⟨a, b, c⟩ := (inv_of_run h).acquire_free (by rw [← h2]; exact h1)
  exact ⟨h1, a, b, c, (h4 rfl).1⟩

/-- A trylock CAS that fails leaves owner and counter alone. -/
theorem try_fail_no_effect (stub : Nat) (nodeOf : Nat → Nat) (s s' : St) (f : Nat) (found : Int)
    (hs : (sys stub nodeOf).step s (.casCounter f found false) = some s') :
    found ≠ 1 ∧ s'.owner = s.owner ∧ s'.counter = s.counter := by
  obtain ⟨-, -, h3, -, h5⟩ := cas_step hs
  exact ⟨fun h => by simpa using h3.2 h, h5 rfl⟩

/-- `lock`'s `fetch_sub` acquires (saw 1) only in a state with no owner, no announced waiter
    and nobody in the wake loop; otherwise the caller becomes an announced waiter and the
    owner is unchanged. -/
theorem lock_fast_only_free (stub : Nat) (nodeOf : Nat → Nat) (es : List Ev) (s s' : St)
    (h : (sys stub nodeOf).run es = some s) (f : Nat) (old : Int)
    (hs : (sys stub nodeOf).step s (.fsub f old) = some s') :
    if old = 1 then
      s.owner = none ∧ (∀ g, ¬ Ann s g) ∧ (∀ g, (s.pc g).isPop = false) ∧ s'.owner = some f
    else s'.owner = s.owner ∧ ¬ Ann s f ∧ Ann s' f := by
  obtain ⟨h1, h2, -, h4⟩ := fsub_step hs
  split
  · next ho =>
    rw [if_pos ho] at h4
    obtain ⟨a, b, c⟩ := (inv_of_run h).acquire_free (by rw [← h2]; exact ho)
    exact ⟨a, b, c, h4.1⟩
  · next ho =>
    rw [if_neg ho] at h4
    refine ⟨h4.1, ?_, ?_⟩
    · rw [ann_iff, h1]; simp [Pc.isPre]
    · rw [ann_iff, h4.2]; simp [Pc.isPre]

/-! ### hand-off -/

/-- The release `fetch_add` is done by the owner and frees the mutex.  If it saw no waiter
    (`old + 1 = 1`) nobody is announced and the unlock is done; if it saw waiters
    (`old + 1 ≠ 1`) an announced waiter exists and the unlocker enters its wake loop. -/
theorem unlock_step (stub : Nat) (nodeOf : Nat → Nat) (es : List Ev) (s s' : St)
    (h : (sys stub nodeOf).run es = some s) (f : Nat) (old : Int)
    (hs : (sys stub nodeOf).step s (.fadd f old) = some s') :
    s.owner = some f ∧ s'.owner = none ∧
    (if old + 1 = 1 then s'.pc f = .unlockDone ∧ ∀ g, ¬ Ann s g
     else s'.pc f = .wakeLoop ∧ ∃ g, Ann s g) := by
  obtain ⟨-, -, h3, h4, h5⟩ := (inv_of_run h).fadd_step hs
  exact ⟨h3, h4, h5⟩

/-- A fiber in its wake loop stays there under every step of every fiber except its own
    `head := next` (the pop).  That step pops `order[hd]` — the OLDEST waiter not yet popped —,
    which is an announced waiter, already parked; the mutex had no owner, and the popped
    fiber becomes the owner (exactly one: `owner` is a single cell). -/
theorem handoff_one (stub : Nat) (nodeOf : Nat → Nat) (es : List Ev) (s s' : St)
    (h : (sys stub nodeOf).run es = some s) (e : Ev)
    (hs : (sys stub nodeOf).step s e = some s') (w : Nat) (hw : (s.pc w).isWake = true) :
    (s'.pc w).isWake = true ∨
    ∃ x n g, e = .wHead w x ∧ s.order[s.hd]? = some (n, g) ∧ Ann s g ∧ s.pc g = .parked ∧
      s.owner = none ∧ s'.owner = some g ∧ s'.hd = s.hd + 1 ∧ (s'.pc w).isPost = true :=
  (inv_of_run h).wake_exit hs hw

/-- Control flow of an unlock (holds for every step, no invariant needed): the wake loop is
    entered only by the caller's own `fetch_add` that saw waiters; the post-pop pcs only by
    its own `head := next`; and `unlockDone` (from which `ret unlock` is taken) only from the
    `fetch_add` that saw NO waiter or from the post-pop pcs.  So an unlock that saw waiters
    returns only after it popped. -/
theorem unlock_flow (stub : Nat) (nodeOf : Nat → Nat) (s s' : St) (e : Ev)
    (hs : (sys stub nodeOf).step s e = some s') (w : Nat) :
    ((s'.pc w).isWake = true → (s.pc w).isWake = true ∨ ∃ old, e = .fadd w old ∧ old + 1 ≠ 1) ∧
    ((s'.pc w).isPost = true → (s.pc w).isPost = true ∨ ∃ x, e = .wHead w x) ∧
    (s'.pc w = .unlockDone → s.pc w = .unlockDone ∨ (∃ old, e = .fadd w old ∧ old + 1 = 1) ∨
      (s.pc w).isPost = true) ∧
    (∀ s'', (sys stub nodeOf).step s (.retUnlock w) = some s'' → s.pc w = .unlockDone) := by
  refine ⟨fun h => ?_, post_flow hs w, unlockDone_flow hs w, fun s'' h => ?_⟩
  · rcases (wake_flow hs w).1 h with h1 | h1
    · exact Or.inl h1.1
    · exact Or.inr h1
  · simp only [sys, step] at h; split at h <;> simp at h; assumption

/-- Counting form, for every fiber `w` and every accepted trace: the number of `w`'s unlocks
    that saw waiters equals the number of pops by `w`, plus one if `w` is in its wake loop
    right now.  So one unlock never releases two waiters, every contended unlock that has left
    its loop (in particular: has returned) released exactly one, and `hd` is the total
    number of pops. -/
theorem handoff_count_eq (stub : Nat) (nodeOf : Nat → Nat) (es : List Ev) (s : St)
    (h : (sys stub nodeOf).run es = some s) (w : Nat) :
    es.countP (isContFadd w) = es.countP (isPopBy w) + (if (s.pc w).isWake then 1 else 0) ∧
    s.hd = es.countP isPopEv :=
  ⟨handoff_count h w, (counts h).1⟩

/-- No step makes a second fiber the owner while one exists: a step from a state with owner
    `g` keeps `g`, or is `g`'s own release `fetch_add`. -/
theorem no_second_owner (stub : Nat) (nodeOf : Nat → Nat) (es : List Ev) (s s' : St)
    (h : (sys stub nodeOf).run es = some s) (e : Ev)
    (hs : (sys stub nodeOf).step s e = some s') (g : Nat) (ho : s.owner = some g) :
    s'.owner = some g ∨ (s'.owner = none ∧ ∃ old, e = .fadd g old) := by
  have := owner_step (inv_of_run h) hs
  rw [ho] at this
  cases ha : absEv s e with
  | none => rw [ha] at this; exact Or.inl this
  | some a =>
    rw [ha] at this
    cases a with
    | acq f => simp [lockStep] at this
    | rel f =>
      simp [lockStep] at this
      obtain ⟨rfl, h2⟩ := this
      right; refine ⟨h2.symm, ?_⟩
      cases e <;> simp [absEv] at ha
      case fadd f old => subst ha; exact ⟨_, rfl⟩
      case wHead f n => split at ha <;> simp at ha

/-! ### no stranded waiter -/

/-- If some fiber is an announced waiter (including one that has decremented `counter` and
    not yet enqueued itself) then the mutex has an owner (who will see `old + 1 ≠ 1` at its
    `fetch_add`) or some unlocker is in its wake loop. -/
theorem no_stranded (stub : Nat) (nodeOf : Nat → Nat) (es : List Ev) (s : St)
    (h : (sys stub nodeOf).run es = some s) (g : Nat) (hg : Ann s g) :
    s.owner ≠ none ∨ ∃ w, (s.pc w).isWake = true := by
  rcases (inv_of_run h).free g hg with h1 | ⟨w, hw⟩
  · exact Or.inl h1
  · exact Or.inr ⟨w, (k_isWake _).1 hw⟩

/-- The partner: a fiber in the wake loop always has somebody to find — an entry of the queue
    not yet popped, or a locker between its `fetch_sub` and its `xchg(&tail)`. -/
theorem wake_loop_has_waiter (stub : Nat) (nodeOf : Nat → Nat) (es : List Ev) (s : St)
    (h : (sys stub nodeOf).run es = some s) (w : Nat) (hw : (s.pc w).isWake = true) :
    (∃ g, Ann s g) ∧ (s.hd < s.order.length ∨ ∃ g, (s.pc g).isPre = true) :=
  ⟨(inv_of_run h).wake_ann w ((k_isWake _).2 hw), (inv_of_run h).wake_has_waiter hw⟩

/-- A `trypop` in the wake loop fails (reads `next = NULL`, then yields and retries) only
    while some locker is inside the window between its `fetch_sub` and its `prev->next`
    write. -/
theorem wake_retry_justified (stub : Nat) (nodeOf : Nat → Nat) (es : List Ev) (s s' : St)
    (h : (sys stub nodeOf).run es = some s) (w hnode : Nat)
    (hs : (sys stub nodeOf).step s (.rNext w hnode 0) = some s') :
    s'.pc w = .wakeLoop ∧
    ∃ g, (s.pc g).isPre = true ∨ ∃ m p i, s.pc g = .pushXchgd m p i :=
  (inv_of_run h).retry_justified (nz_of_run h) hs

/-! ### the woken fiber is the new owner -/

/-- Data path of the hand-off, for every initial node assignment in which the fibers' nodes
    are distinct and differ from the queue's stub (`NodesOk`; the harness's assignment
    satisfies it: `nodesOk_harness`).  The fiber `g` a waker reads from the popped node — the
    one whose `mpsc_fifo_node` it sets, whose `state` it reads/writes and which it passes to
    `fiber_manager_schedule` — is exactly the fiber that was handed the mutex by the pop, and
    it is parked.  (Between `head := next` and the read of `next->data`, that cell already
    holds the owner.)  So the waiter that is woken is the one that now owns the mutex: no
    waiter is woken without owning, and the new owner is not left asleep. -/
theorem wakes_the_owner (stub : Nat) (nodeOf : Nat → Nat) (hn : NodesOk stub nodeOf)
    (es : List Ev) (s : St) (h : (sys stub nodeOf).run es = some s) :
    (∀ w g, (s.pc w).woken = some g → s.owner = some g ∧ s.pc g = .parked) ∧
    (∀ w hnode x, s.pc w = .popMoved hnode x → ∃ g, s.owner = some g ∧ s.ndata x = g) := by
  have hd := dp_of_run hn h
  have hi := inv_of_run h
  refine ⟨fun w g hw => ?_, fun w hnode x hw => (hd.moved w x (by rw [hw]; rfl)).2⟩
  have ho := hd.woke w g hw
  obtain ⟨g', h1, h2⟩ := hi.waking_owner (hi.post_waking w (by
    cases hp : s.pc w <;> simp_all [Pc.woken, Pc.k]))
  rw [ho] at h1; cases h1
  exact ⟨ho, (k_parked _).1 h2⟩

/-- Exclusive node ownership (the client side of mpsc_fifo.h's "the FIFO owns new_node after
    pushing, the caller owns the node after popping"): at any time a non-NULL node is claimed
    by at most one of: a fiber (its `mpsc_fifo_node` / the node it is enqueueing), a queue
    entry not yet popped, the queue's stub, a popper that has not yet handed it on. -/
theorem node_ownership_exclusive (stub : Nat) (nodeOf : Nat → Nat) (hn : NodesOk stub nodeOf)
    (es : List Ev) (s : St) (h : (sys stub nodeOf).run es = some s) :
    ∀ c c', claim s c ≠ 0 → claim s c = claim s c' → c = c' :=
  (dp_of_run hn h).inj

/-! ### single consumer of the waiter queue -/

/-- At most one fiber is inside `mpsc_fifo_trypop` / the wake loop (before or after the pop
    took effect) at any time — the client obligation of mpsc_fifo.h.  Before its pop the
    mutex is free; after it, the popped fiber is the owner and is still parked. -/
theorem single_consumer (stub : Nat) (nodeOf : Nat → Nat) (es : List Ev) (s : St)
    (h : (sys stub nodeOf).run es = some s) :
    (∀ f g, (s.pc f).isPop = true → (s.pc g).isPop = true → f = g) ∧
    (∀ f, (s.pc f).isWake = true → s.owner = none) ∧
    (∀ f, (s.pc f).isPost = true → ∃ g, s.owner = some g ∧ s.pc g = .parked) := by
  have hi := inv_of_run h
  refine ⟨fun f g hf hg => hi.pop_one f g ((k_isPop _).2 hf) ((k_isPop _).2 hg),
    fun f hf => (hi.wake_free f ((k_isWake _).2 hf)).1, fun f hf => ?_⟩
  obtain ⟨g, h1, h2⟩ := hi.waking_owner (hi.post_waking f ((k_post _).2 hf))
  exact ⟨g, h1, (k_parked _).1 h2⟩

/-! ### visibility of critical-section writes -/

/-- Critical sections are totally ordered: the `cs enter` / `cs exit` notes of every accepted
    trace strictly alternate (`csTrack` accepts `enter f` only when nobody is inside and
    `exit f` only when exactly `f` is), and the harness's occupancy monitor never fires.
    In the sequentially consistent model this is the visibility claim; on hardware it rests
    on the release `fetch_add` / acquiring `fetch_sub`, `CAS` on `counter` being seq_cst
    (`mo5` in the logs) and on the queue's release `xchg` (`mo3`) for the hand-off path. -/
theorem cs_total_order (stub : Nat) (nodeOf : Nat → Nat) (es : List Ev) (s : St)
    (h : (sys stub nodeOf).run es = some s) :
    es.foldlM csTrack [] = some s.inCs ∧ monitor es = none :=
  ⟨cs_alternate h, monitor_go_none es [] _ (cs_alternate h)⟩

/-- The protected plain cell: a fiber inside its critical section still sees the value it read
    on entry (nobody wrote in between), so its `shared = v + 1` loses no update: `data` equals
    the number of completed critical sections. -/
theorem cs_visibility (stub : Nat) (nodeOf : Nat → Nat) (es : List Ev) (s : St)
    (h : (sys stub nodeOf).run es = some s) :
    (∀ f, f ∈ s.inCs → s.seen f = s.data) ∧ s.data = es.countP isCsExit :=
  ⟨(inv_of_run h).cs_seen, (counts h).2⟩

/-! ### refinement of the atomic lock (composition assumption of C05 / C11) -/

/-- Projecting an accepted trace to its linearisation points (`absEv`: uncontended
    `fetch_sub`, successful CAS, the waker's `head := next` for the popped fiber ↦ `acq`;
    `fetch_add` ↦ `rel`) gives a run of the atomic lock `Lock` (`acq f` only when free,
    `rel f` only by the owner `f`), and the lock's state is the ghost owner. -/
theorem refines_lock (stub : Nat) (nodeOf : Nat → Nat) (es : List Ev) (s : St)
    (h : (sys stub nodeOf).run es = some s) :
    Lock.run (absRun (init stub nodeOf) es) = some s.owner :=
  refines h

/-- Step form: the owner changes only at a linearisation point, as the atomic lock allows. -/
theorem refines_lock_step (stub : Nat) (nodeOf : Nat → Nat) (es : List Ev) (s s' : St)
    (h : (sys stub nodeOf).run es = some s) (e : Ev)
    (hs : (sys stub nodeOf).step s e = some s') :
    match absEv s e with
    | none => s'.owner = s.owner
    | some a => lockStep s.owner a = some s'.owner :=
  owner_step (inv_of_run h) hs

/-! ### non-vacuity -/

/-- Fibers 16 and 17 (nodes 18, 19; stub 1).  16 locks; 17 announces itself (`fsub` sees 0);
    16 unlocks: its `fetch_add` sees a waiter while 17 has NOT yet done its `xchg(&tail)`, so
    the wake loop finds the queue empty and retries; 17 enqueues but has not linked yet:
    second retry; 17 links and parks; third `trypop` succeeds, 17 is handed the mutex, woken,
    runs its critical section and unlocks uncontended. -/
def contendedTrace : List Ev :=
  [.callLock 16, .fsub 16 1, .retLock 16, .csEnter 16,
   .callLock 17, .fsub 17 0,
   .csExit 16 1, .callUnlock 16, .fadd 16 (-1),
   .rHead 16 1, .rNext 16 1 0,
   .wState 17 17 5, .rNode 17 17 19, .wData 17 19 17, .wNode 17 17 0, .wNext 17 19 0,
   .xchgTail 17 1 19,
   .rHead 16 1, .rNext 16 1 0,
   .wNext 17 1 19,
   .rHead 16 1, .rNext 16 1 19, .wHead 16 19, .rData 16 19 17, .wData 16 1 17, .rData 16 1 17,
   .wNode 16 17 1, .rState 16 17 3, .wState 16 17 2,
   .retLock 17, .csEnter 17, .retUnlock 16, .csExit 17 2, .callUnlock 17, .fadd 17 0,
   .retUnlock 17]

example : ((sys 1 (· + 2)).run contendedTrace).map
    (fun s => (s.counter, s.owner, s.hd, s.order, s.data, s.inCs, s.pc 16, s.pc 17)) =
    some (1, none, 1, [(19, 17)], 2, [], .idle, .idle) := by rfl

/-- in the window: 16 is in its wake loop, 17 is announced but not enqueued, nobody owns -/
example : ((sys 1 (· + 2)).run (contendedTrace.take 11)).map
    (fun s => (s.counter, s.owner, s.order, s.pc 16, s.pc 17)) =
    some (0, none, [], .wakeLoop, .lockDec 0) := by rfl

/-- the hypotheses of `handoff_one` (pop case) and `wake_retry_justified` are satisfiable -/
example : ∃ es s s', (sys 1 (· + 2)).run es = some s ∧ (s.pc 16).isWake = true ∧
    (sys 1 (· + 2)).step s (.wHead 16 19) = some s' ∧ s'.owner = some 17 :=
  ⟨contendedTrace.take 22, _, _, rfl, rfl, rfl, rfl⟩

example : ∃ es s s', (sys 1 (· + 2)).run es = some s ∧
    (sys 1 (· + 2)).step s (.rNext 16 1 0) = some s' :=
  ⟨contendedTrace.take 18, _, _, rfl, rfl⟩

/-- `wakes_the_owner` is not vacuous: after the waker read fiber 17 from the popped node -/
example : NodesOk 1 (· + 2) ∧ ((sys 1 (· + 2)).run (contendedTrace.take 24)).map
    (fun s => ((s.pc 16).woken, s.owner, s.pc 17)) = some (some 17, some 17, .parked) :=
  ⟨nodesOk_harness, rfl⟩

end LibfiberVerif.Mutex
