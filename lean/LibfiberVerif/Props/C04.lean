/-
  Props/C04.lean — join / tryjoin / detach against a fiber's completion.

  "For every ordering of a fiber's completion against fiber_join, fiber_tryjoin and
   fiber_detach issued by other fibers: a successful join or tryjoin happens only after the
   fiber's function returned and yields exactly its return value; at most one joiner succeeds;
   joining a detached fiber fails.  The fiber's memory and stack are reclaimed exactly once,
   after it has finished and been joined or detached, and are not touched afterwards."

  Model: `Join.sys isTarget` (Model/Join.lean): src/fiber.c (fiber_mark_completed, fiber_join,
  fiber_tryjoin, fiber_detach) on top of set_and_wait / clear_or_wait, the deferred
  `set_wait_location` store done by the successor fiber and the `done_fiber` destruction
  (src/fiber_manager.c); validated event by event against the real code on 1-3 kernel threads.
  Any number of fibers, targets, calls and steps; `isTarget f = false` means f starts detached.

  Vocabulary
    s.retval g = some v   g's function returned v
    s.succ g              values delivered by the successful join/tryjoin calls on g so far; for a
                          call with a NULL result pointer (`callN` / `retN`) the value that was
                          handed to it and that it discarded (ghost, see Model/Join.lean)
    s.res a               the `result` cell of fiber a: a target's return value, and for a
                          fiber that makes calls its private hand-over slot
    s.nul a               a's call in flight has a NULL result pointer
    s.detX g              a detach has exchanged g's detach_state (g is detached)
    s.claimed g           a join/tryjoin claimed the finished g / g took its parked joiner
    s.destroyed g         fiber_destroy(g) ran;  s.late g = number of post-exchange accesses to
                          g's cells after that
    untainted s g         none of the three windows was opened on g (Model/Join.lean):
        tDetach  a detach's exchange found WAIT_TO_JOIN
        tThird   a join/tryjoin/detach found WAIT_FOR_JOINER although the finishing fiber had
                 itself found WAIT_TO_JOIN (it is a taker of the mailbox, not parked in it)
        tOver    an exchange of the finishing fiber / join / tryjoin found DETACHED and
                 overwrote it (detach slipped in between the load and the exchange)

  THE CODE AS IT IS DOES NOT HAVE THE PROPERTY AT FULL STRENGTH: every clause is proved for
  all histories in which no window was opened (`…_partial`, `untainted s g`), and for each
  clause that breaks a concrete accepted history of the model that opens a window and violates
  it is given (`…_fails`); the same histories are reproduced on the real code by
  tools/check.py C04 (known findings F-C04, F-C04b, F-C04c, F-C04d).
-/
import LibfiberVerif.Proof.Join

namespace LibfiberVerif.C04
open LibfiberVerif.Join

/-- one target fiber (id 16), every other fiber starts detached -/
def isT : Nat → Bool := fun f => f == 16

/-! ## witnesses (fiber 16 is the target, 17 / 18 are clients) -/

/-- F-C04: 17 joins and parks; 18 detaches while 16 is still running and wakes 17; 17's join
    returns SUCCESS with value 0 although 16's function has not returned -/
def wDetach : List Ev :=
  [.call 17 .join 16, .ldDet 17 16 0, .xchgDet 17 16 0 2, .wState 17 17 3, .wJi 16 16 17,
   .call 18 .detach 16, .xchgDet 18 16 2 3, .xchgJi 18 16 17, .wState 18 17 2, .ret 18 .detach 16 true 0,
   .ldRes 17 17 0, .stRes 17 17 0, .ret 17 .join 16 true 0]

/-- F-C04c: 17 joins and parks; 16 returns 1000 and exchanges 2 → 1; 18's join now sees
    WAIT_FOR_JOINER, reads the result, steals 17 out of the mailbox and wakes it: both joins
    return SUCCESS (18 with 1000, 17 with 0) and 16 spins in clear_or_wait for ever -/
def wThird : List Ev :=
  [.call 17 .join 16, .ldDet 17 16 0, .xchgDet 17 16 0 2, .wState 17 17 3, .wJi 16 16 17,
   .fnRet 16 1000, .stRes 16 16 1000, .ldDet 16 16 2, .xchgDet 16 16 2 1,
   .call 18 .join 16, .ldDet 18 16 1, .xchgDet 18 16 1 2, .ldRes 18 16 1000, .xchgJi 18 16 17,
   .wState 18 17 2, .ret 18 .join 16 true 1000,
   .ldRes 17 17 0, .stRes 17 17 0, .ret 17 .join 16 true 0, .xchgJi 16 16 0]

/-- F-C04b: 16 finishes and parks; 17's join claims it (1 → 2) and wakes it; 18's detach, issued
    meanwhile, finds the stale WAIT_TO_JOIN and waits for a mailbox entry that never comes —
    after 16 has been destroyed it still exchanges 16's join_info -/
def wStale : List Ev :=
  [.fnRet 16 1000, .stRes 16 16 1000, .ldDet 16 16 0, .xchgDet 16 16 0 1, .wState 16 16 3, .wJi 17 16 16,
   .call 17 .join 16, .call 18 .detach 16, .ldDet 17 16 1, .xchgDet 17 16 1 2, .ldRes 17 16 1000,
   .xchgJi 17 16 16, .wState 17 16 2, .ret 17 .join 16 true 1000,
   .xchgDet 18 16 2 3, .xchgJi 18 16 0, .wState 16 16 4, .destroy 17 16, .xchgJi 18 16 0]

/-- F-C04d: 17's join loads NONE, 18 detaches, 17's exchange overwrites DETACHED with
    WAIT_TO_JOIN and returns ERROR; 16 then finishes, finds WAIT_TO_JOIN and waits for ever for
    a joiner that does not exist -/
def wOver : List Ev :=
  [.call 17 .join 16, .ldDet 17 16 0, .call 18 .detach 16, .xchgDet 18 16 0 3, .ret 18 .detach 16 true 0,
   .xchgDet 17 16 3 2, .ret 17 .join 16 false 0,
   .fnRet 16 1000, .stRes 16 16 1000, .ldDet 16 16 2, .xchgDet 16 16 2 1, .xchgJi 16 16 0]

/-- joiner first, no window: the value is handed over, 16 is destroyed, nothing touches it later -/
def okJoinFirst : List Ev :=
  [.call 17 .join 16, .ldDet 17 16 0, .xchgDet 17 16 0 2, .wState 17 17 3, .wJi 16 16 17,
   .fnRet 16 1000, .stRes 16 16 1000, .ldDet 16 16 2, .xchgDet 16 16 2 1, .xchgJi 16 16 17,
   .ldRes 16 16 1000, .stRes 16 17 1000, .wState 16 17 2, .wState 16 16 4, .destroy 17 16,
   .ldRes 17 17 1000, .stRes 17 17 0, .ret 17 .join 16 true 1000]

/-- finisher first, tryjoin arrives while the finisher is still mid context-switch (the
    deferred store has not happened yet: first mailbox exchange returns NULL) -/
def okFinishFirst : List Ev :=
  [.fnRet 16 1000, .stRes 16 16 1000, .ldDet 16 16 0, .xchgDet 16 16 0 1, .wState 16 16 3,
   .call 17 .tryjoin 16, .ldDet 17 16 1, .ldDet 17 16 1, .xchgDet 17 16 1 2, .ldRes 17 16 1000,
   .xchgJi 17 16 0, .wJi 18 16 16, .xchgJi 17 16 16, .wState 17 16 2, .ret 17 .tryjoin 16 true 1000,
   .wState 16 16 4, .destroy 18 16]

/-- detach, then a join fails, then the fiber finishes and is destroyed -/
def okDetached : List Ev :=
  [.call 18 .detach 16, .xchgDet 18 16 0 3, .ret 18 .detach 16 true 0,
   .call 17 .join 16, .ldDet 17 16 3, .ret 17 .join 16 false 0,
   .fnRet 16 1000, .stRes 16 16 1000, .ldDet 16 16 3, .wState 16 16 4, .destroy 17 16]

/-- two targets (16 and 18) -/
def isT2 : Nat → Bool := fun f => f == 16 || f == 18

/-- NULL result pointer, joiner first: 17 does `fiber_join(16, NULL)` and parks; 16 returns 1000
    and hands it over into 17's slot; 17 wakes, does NOT read the slot, clears it, SUCCESS.
    Then 17 does `fiber_join(18, &r)`, parks, and is woken by 19's detach (the F-C04 window):
    it reads its slot — clear, not 16's value — and returns SUCCESS with 0. -/
def nullThenJoin : List Ev :=
  [.callN 17 .join 16, .ldDet 17 16 0, .xchgDet 17 16 0 2, .wState 17 17 3, .wJi 16 16 17,
   .fnRet 16 1000, .stRes 16 16 1000, .ldDet 16 16 2, .xchgDet 16 16 2 1, .xchgJi 16 16 17,
   .ldRes 16 16 1000, .stRes 16 17 1000, .wState 16 17 2, .wState 16 16 4, .destroy 17 16,
   .stRes 17 17 0, .retN 17 .join 16 true,
   .call 17 .join 18, .ldDet 17 18 0, .xchgDet 17 18 0 2, .wState 17 17 3, .wJi 18 18 17,
   .call 19 .detach 18, .xchgDet 19 18 2 3, .xchgJi 19 18 17, .wState 19 17 2, .ret 19 .detach 18 true 0,
   .ldRes 17 17 0, .stRes 17 17 0, .ret 17 .join 18 true 0]

/-- NULL result pointer, finisher first: `fiber_tryjoin(16, NULL)` claims the parked finished
    fiber without reading its result and wakes it -/
def nullTryjoin : List Ev :=
  [.fnRet 16 1000, .stRes 16 16 1000, .ldDet 16 16 0, .xchgDet 16 16 0 1, .wState 16 16 3, .wJi 18 16 16,
   .callN 17 .tryjoin 16, .ldDet 17 16 1, .ldDet 17 16 1, .xchgDet 17 16 1 2,
   .xchgJi 17 16 16, .wState 17 16 2, .retN 17 .tryjoin 16 true, .wState 16 16 4, .destroy 18 16]

/-- what the witnesses are judged by -/
def obs (s : St) : List Nat × Option Nat × Bool × Nat × Bool × Bool :=
  (s.succ 16, s.retval 16, s.destroyed 16, s.late 16, decide (untainted s 16), s.detX 16)

theorem wDetach_obs : ((sys isT).run wDetach).map obs = some ([0], none, false, 0, false, true) := by decide
theorem wThird_obs : ((sys isT).run wThird).map obs = some ([0, 1000], some 1000, false, 0, false, false) := by decide
theorem wStale_obs : ((sys isT).run wStale).map obs = some ([1000], some 1000, true, 1, false, true) := by decide
theorem wOver_obs : ((sys isT).run wOver).map (fun s => (decide (s.pc 16 = .fTake), s.first 16, decide (untainted s 16))) =
    some (true, none, false) := by decide
theorem okJoinFirst_obs : ((sys isT).run okJoinFirst).map obs = some ([1000], some 1000, true, 0, true, false) := by decide
theorem okFinishFirst_obs : ((sys isT).run okFinishFirst).map obs = some ([1000], some 1000, true, 0, true, false) := by decide
theorem okDetached_obs : ((sys isT).run okDetached).map obs = some ([], some 1000, true, 0, true, true) := by decide

/-- … and the two-target witness -/
def obs2 (s : St) : (List Nat × List Nat × Option Nat × Option Nat) × (Nat × Bool × Bool × Nat) :=
  ((s.succ 16, s.succ 18, s.retval 16, s.retval 18), (s.res 17, decide (untainted s 16), s.destroyed 16, s.late 16))

theorem nullThenJoin_obs : ((sys isT2).run nullThenJoin).map obs2 =
    some (([1000], [0], some 1000, none), (0, true, true, 0)) := by decide
theorem nullTryjoin_obs : ((sys isT).run nullTryjoin).map obs = some ([1000], some 1000, true, 0, true, false) := by decide

/-! ## 1. a successful join / tryjoin comes after the return and carries the return value -/

/-- FALSE at full strength: in `wDetach` a join has returned SUCCESS (value 0) although the
    target's function has not returned. -/
theorem success_after_return_fails :
    ¬ (∀ es s, (sys isT).run es = some s → ∀ g v, v ∈ s.succ g → s.retval g = some v) := by
  intro h
  have ho := wDetach_obs
  cases hr : (sys isT).run wDetach with
  | none => simp [hr] at ho
  | some s =>
    simp [hr, obs] at ho
    have := h _ _ hr 16 0 (by simp [ho.1])
    simp [ho.2.1] at this

/-- Without a window: every value delivered by a successful join/tryjoin on g is the value
    g's function returned (in particular the function has returned). -/
theorem success_after_return_partial (isTarget : Nat → Bool) : ∀ es s, (sys isTarget).run es = some s →
    ∀ g v, untainted s g → v ∈ s.succ g → s.retval g = some v := by
  intro es s h g v hu hv
  exact (inv_of_run h).i2.sv g v hu hv

/-- The same for calls that are about to return: every fiber on its way to report SUCCESS v
    for g (woken joiner, or claimer of the finished fiber) holds g's return value. -/
theorem pending_success_has_value (isTarget : Nat → Bool) : ∀ es s, (sys isTarget).run es = some s →
    ∀ g a op v, untainted s g → s.pc a = .retn op g true v → op ≠ .detach → s.retval g = some v := by
  intro es s h g a op v hu hp hop
  exact (inv_of_run h).i2.cv3 g a op v hu hp hop

/-! ## 1b. the joiner's hand-over slot (joins with and without a result pointer) -/

/-- (unconditional) The private hand-over slot of a fiber that makes calls is clear at every
    program point outside the stretch "parked in a mailbox … own clearing store": when it is
    idle, when it issues a call, all along the non-blocking paths, and when it is about to
    return from ANY join / tryjoin / detach — with or without a result pointer. -/
theorem slot_clear (isTarget : Nat → Bool) : ∀ es s, (sys isTarget).run es = some s →
    ∀ a, slotFree (s.pc a) = true → s.res a = 0 := by
  intro es s h a hp
  exact (inv_of_run h).i1.sc a hp

/-- (a) After a blocking join returns — `retn` is the program point between the last access of
    the call and its return, reached by a joiner that waited only through its clearing store —
    the joiner's slot is clear, whether or not the call had a result pointer and whether it was
    woken by the finishing fiber or by a detach (window F-C04). -/
theorem join_return_slot_clear (isTarget : Nat → Bool) : ∀ es s, (sys isTarget).run es = some s →
    ∀ a op g ok v, s.pc a = .retn op g ok v → s.res a = 0 := by
  intro es s h a op g ok v hp
  exact (inv_of_run h).i1.sc a (by simp [hp])

/-- … hence a later call by the same fiber starts with a clear slot, and so does the joiner that
    is about to park (the state in which the next hand-over finds it). -/
theorem next_call_slot_clear (isTarget : Nat → Bool) : ∀ es s, (sys isTarget).run es = some s →
    ∀ a, (s.pc a = .idle ∨ (∃ op g, s.pc a = .called op g) ∨ (∃ g, s.pc a = .jParking g)) → s.res a = 0 := by
  intro es s h a hp
  refine (inv_of_run h).i1.sc a ?_
  rcases hp with hp | ⟨op, g, hp⟩ | ⟨g, hp⟩ <;> simp [hp]

/-- The clearing store is not optional: a woken joiner (either variant) cannot return before
    it — the model accepts no `ret` / `retN` from the program points between the wake-up and
    the store, so a build that skips the store is rejected at the return note. -/
theorem woken_joiner_cannot_return (isTarget : Nat → Bool) : ∀ (s : St) a t,
    (s.pc a = .jWoken t ∨ ∃ w, s.pc a = .jGotRes t w) →
      (∀ op g ok v, (sys isTarget).step s (.ret a op g ok v) = none) ∧
      (∀ op g ok, (sys isTarget).step s (.retN a op g ok) = none) := by
  intro s a t hp
  rcases hp with hp | ⟨w, hp⟩ <;> exact ⟨fun op g ok v => by simp [sys, step, stepCore, hp],
    fun op g ok => by simp [sys, step, stepCore, hp]⟩

/-- With a NULL result pointer the woken joiner does not read its slot (a load is rejected),
    and the one store it may do to it writes 0 and leads to the SUCCESS return. -/
theorem null_joiner_clears_unread (isTarget : Nat → Bool) : ∀ (s : St) a t, s.pc a = .jWoken t → s.nul a = true →
    (∀ v, (sys isTarget).step s (.ldRes a a v) = none) ∧
    (∀ v s', (sys isTarget).step s (.stRes a a v) = some s' →
       v = 0 ∧ s'.res a = 0 ∧ s'.pc a = .retn .join t true (s.res a)) := by
  intro s a t hp hn
  refine ⟨fun v => by simp [sys, step, stepCore, hp, hn], ?_⟩
  intro v s' hst
  obtain ⟨s1, hc, rfl⟩ := step_some hst
  simp only [stepCore, hp] at hc
  split at hc
  · rename_i hh
    simp at hc
    subst hc
    simp [hh.2.1, upd_same]
  · simp at hc

/-- (b) (unconditional: every history, windows included)  What a joiner finds in its slot after
    the wake-up is either nothing or the return value of THE TARGET IT IS JOINING — the slot was
    clear when it parked (`slot_clear`) and only the finishing fiber whose mailbox it is parked
    in writes to it. -/
theorem woken_joiner_slot_own_target (isTarget : Nat → Bool) : ∀ es s, (sys isTarget).run es = some s →
    ∀ p t, (s.pc p = .jParked t ∨ s.pc p = .jWoken t) → s.res p = 0 ∨ s.retval t = some (s.res p) := by
  intro es s h p t hp
  rcases hp with hp | hp
  · exact (inv_of_run h).i1.jo1 p t hp
  · exact (inv_of_run h).i1.jo2 p t hp

/-- (b) (unconditional)  Every fiber on its way to report SUCCESS v for g holds either 0 or g's
    return value, never a value handed over for another target. -/
theorem pending_success_value_own_target (isTarget : Nat → Bool) : ∀ es s, (sys isTarget).run es = some s →
    ∀ a op g v, s.pc a = .retn op g true v → op ≠ .detach → v = 0 ∨ s.retval g = some v := by
  intro es s h a op g v hp hop
  exact (inv_of_run h).i1.jo4 a op g v hp hop

/-- (b) (unconditional)  The value delivered by a successful join / tryjoin on g (for a
    NULL-result call: the value it was handed and discarded) is g's return value or 0.  The 0 is
    the known window F-C04 (`wDetach`, `success_after_return_fails`: SUCCESS with NULL before the
    target returned); without a window `success_after_return_partial` excludes it. -/
theorem success_value_own_target (isTarget : Nat → Bool) : ∀ es s, (sys isTarget).run es = some s →
    ∀ g v, v ∈ s.succ g → v = 0 ∨ s.retval g = some v := by
  intro es s h g v hv
  exact (inv_of_run h).i1.jo5 g v hv

/-- … in particular a non-NULL value delivered for g is never the return value of a different
    fiber g' unless the two functions returned the same value. -/
theorem success_value_not_foreign (isTarget : Nat → Bool) : ∀ es s, (sys isTarget).run es = some s →
    ∀ g g' v, v ∈ s.succ g → v ≠ 0 → s.retval g' = some v → s.retval g = s.retval g' := by
  intro es s h g g' v hv hv0 hr
  rcases (inv_of_run h).i1.jo5 g v hv with h0 | h1
  · exact absurd h0 hv0
  · rw [h1, hr]

/-- The 0 cannot be dropped from (b) for the code as it is: in `nullThenJoin` the second join
    (with a result pointer, ended by a detach) returns SUCCESS 0 for a target that has not
    returned — but NOT the 1000 handed over for the first, NULL-result, join. -/
theorem success_value_own_target_zero_needed :
    ¬ (∀ es s, (sys isT2).run es = some s → ∀ g v, v ∈ s.succ g → s.retval g = some v) := by
  intro h
  have ho := nullThenJoin_obs
  cases hr : (sys isT2).run nullThenJoin with
  | none => simp [hr] at ho
  | some s =>
    simp [hr, obs2] at ho
    have := h _ _ hr 18 0 (by simp [ho.1.2.1])
    simp [ho.1.2.2.2] at this

/-- A build in which `fiber_join(g, NULL)` leaves the slot alone is rejected: the return note
    right after the wake-up is not accepted … -/
theorem nullThenJoin_without_clear_rejected :
    (sys isT2).run ((nullThenJoin.take 15) ++ [.retN 17 .join 16 true]) = none := by decide

/-- … and so is a later join by the same fiber that finds the stale value in its slot. -/
theorem nullThenJoin_stale_slot_rejected :
    (sys isT2).run ((nullThenJoin.take 27) ++ [.ldRes 17 17 1000]) = none := by decide

/-! ## 2. at most one joiner succeeds -/

/-- FALSE at full strength: two SUCCESSes in `wThird`. -/
theorem at_most_one_success_fails :
    ¬ (∀ es s, (sys isT).run es = some s → ∀ g, (s.succ g).length ≤ 1) := by
  intro h
  have ho := wThird_obs
  cases hr : (sys isT).run wThird with
  | none => simp [hr] at ho
  | some s =>
    simp [hr, obs] at ho
    have := h _ _ hr 16
    simp [ho.1] at this

theorem at_most_one_success_partial (isTarget : Nat → Bool) : ∀ es s, (sys isTarget).run es = some s →
    ∀ g, untainted s g → (s.succ g).length ≤ 1 := by
  intro es s h g hu
  exact (inv_of_run h).i2.sl g hu

/-- … and at any time at most one fiber is on a path that can still end in SUCCESS (parked or
    woken joiner, claimer of the finished fiber), none once a SUCCESS has been returned. -/
theorem one_claimant (isTarget : Nat → Bool) : ∀ es s, (sys isTarget).run es = some s →
    ∀ g, untainted s g →
      (∀ a a', claimPath (s.pc a) g = true → claimPath (s.pc a') g = true → a = a') ∧
      (s.succ g ≠ [] → ∀ a, claimPath (s.pc a) g = false) := by
  intro es s h g hu
  exact ⟨fun a a' => (inv_of_run h).i2.uq g a a' hu, fun hs a => (inv_of_run h).i2.sq g a hu hs⟩

/-! ## 3. joining a detached fiber fails -/

/-- Without a window a detached fiber stays DETACHED, it has never been joined successfully and
    the only clients still acting on it are detach calls waking the finished fiber. -/
theorem detached_fails (isTarget : Nat → Bool) : ∀ es s, (sys isTarget).run es = some s →
    ∀ g, untainted s g → s.detX g = true →
      s.det g = DET ∧ s.succ g = [] ∧ ∀ a, claimPath (s.pc a) g = true → detTake (s.pc a) g = true := by
  intro es s h g hu hd
  have I := (inv_of_run h).i2
  exact ⟨I.t4 g hu hd, I.dx1 g hu hd, fun a => I.dx2 g a hu hd⟩

/-- … so a join / tryjoin whose first load comes after the detach goes straight to its
    ERROR return. -/
theorem join_of_detached_returns_error (isTarget : Nat → Bool) : ∀ es s, (sys isTarget).run es = some s →
    ∀ g a op v s', untainted s g → s.detX g = true → s.pc a = .called op g →
      (sys isTarget).step s (.ldDet a g v) = some s' → s'.pc a = .retn op g false 0 := by
  intro es s h g a op v s' hu hd hp hst
  have hdet := (inv_of_run h).i2.t4 g hu hd
  obtain ⟨s1, hc, rfl⟩ := step_some hst
  simp only [stepCore, hp] at hc
  split at hc
  · simp at hc
  · rename_i hv
    have hv' : v = DET := by rw [← hdet]; exact Decidable.of_not_not hv
    split at hc
    · simp at hc
    · simp [hv', DET, WFJ] at hc
      subst hc
      simp

/-- In the failing history the overlapping join nevertheless returned SUCCESS on a fiber that
    is detached. -/
theorem detached_fails_fails :
    ¬ (∀ es s, (sys isT).run es = some s → ∀ g, s.detX g = true → s.succ g = []) := by
  intro h
  have ho := wDetach_obs
  cases hr : (sys isT).run wDetach with
  | none => simp [hr] at ho
  | some s =>
    simp [hr, obs] at ho
    have := h _ _ hr 16 ho.2.2.2.2.2
    simp [ho.1] at this

/-! ## 4. reclaimed exactly once, after finish and join-or-detach, not touched afterwards -/

/-- (unconditional) A destroyed fiber had written DONE, its function had returned, and it had
    been claimed by a join/tryjoin, taken its own joiner, or been detached. -/
theorem destroy_once_after (isTarget : Nat → Bool) : ∀ es s, (sys isTarget).run es = some s →
    ∀ g, s.destroyed g = true →
      s.pc g = .fDone ∧ (∃ v, s.retval g = some v) ∧ (s.claimed g = true ∨ s.detX g = true) := by
  intro es s h g hd
  have I := inv_of_run h
  have hp := I.i0.dst g hd
  refine ⟨hp, ⟨s.res g, I.i1.st g (by simp [hp])⟩, I.i1.dj g (Or.inr (Or.inr hp))⟩

/-- (unconditional) … and it is destroyed at most once, never by itself: the model accepts
    `destroy a g` only for a DONE, not yet destroyed g and a ≠ g. -/
theorem destroy_at_most_once (isTarget : Nat → Bool) : ∀ (s : St) a g s',
    (sys isTarget).step s (.destroy a g) = some s' →
      s.pc g = .fDone ∧ s.destroyed g = false ∧ a ≠ g ∧ s'.destroyed g = true := by
  intro s a g s' hst
  obtain ⟨s1, hc, rfl⟩ := step_some hst
  simp only [stepCore] at hc
  split at hc
  · rename_i hh
    simp at hc
    subst hc
    simp [hh.1, hh.2.1, hh.2.2]
  · simp at hc

/-- FALSE at full strength: in `wStale` the hanging detach exchanges 16's join_info after 16
    has been destroyed. -/
theorem not_touched_after_fails :
    ¬ (∀ es s, (sys isT).run es = some s → ∀ g, s.late g = 0) := by
  intro h
  have ho := wStale_obs
  cases hr : (sys isT).run wStale with
  | none => simp [hr] at ho
  | some s =>
    simp [hr, obs] at ho
    have := h _ _ hr 16
    simp [ho.2.2.2.1] at this

/-- Without a window no protocol participant (anything after a call's exchange of
    detach_state, the finishing fiber, the successor doing the deferred store) touches a
    destroyed fiber's cells. -/
theorem not_touched_after_partial (isTarget : Nat → Bool) : ∀ es s, (sys isTarget).run es = some s →
    ∀ g, untainted s g → s.late g = 0 := by
  intro es s h g hu
  exact (inv_of_run h).i3 g hu

/-! ## 5. nobody stays parked once the other party has exchanged detach_state -/

/-- FALSE at full strength: in `wOver` the finished fiber waits in clear_or_wait (mailbox empty)
    and no fiber is, or will be, a joiner of it. -/
theorem no_stranded_fails :
    ¬ (∀ es s, (sys isT).run es = some s → ∀ g, s.pc g = .fTake → ∃ p, joinerPark (s.pc p) g = true) := by
  intro h
  have ho := wOver_obs
  cases hr : (sys isT).run wOver with
  | none => simp [hr] at ho
  | some s =>
    simp [hr] at ho
    obtain ⟨p, hp⟩ := h _ _ hr 16 ho.1
    have := (inv_of_run hr).i0.fj p 16 (jpk_jp hp)
    simp [ho.2.1] at this

/-- Without a window every waiting party has a live counterpart:
    (i)   a client in clear_or_wait on g's mailbox: the finished g is on its way into the
          mailbox or in it (so the loop ends as soon as the deferred store lands);
    (ii)  the finished g in clear_or_wait on its own mailbox: its joiner (the fiber whose
          exchange found NONE) is on its way into the mailbox or in it;
    (iii) a parked joiner of g, once g has exchanged: g is busy delivering to exactly it;
    (iv)  the parked finished g, once somebody exchanged its detach_state: that client is in
          its take phase and will wake g. -/
theorem no_stranded (isTarget : Nat → Bool) : ∀ es s, (sys isTarget).run es = some s →
    ∀ g, untainted s g →
      (∀ b, takePh (s.pc b) g = true → parkF (s.pc g) = true) ∧
      (s.pc g = .fTake → ∃ p, s.first g = some p ∧ joinerPark (s.pc p) g = true) ∧
      (∀ p, joinerPark (s.pc p) g = true → finX (s.pc g) = true → delivering (s.pc g) p = true) ∧
      (parkF (s.pc g) = true → s.det g ≠ WFJ → ∃ b, s.taker g = some b ∧ takePh (s.pc b) g = true) := by
  intro es s h g hu
  have I := (inv_of_run h).i2
  refine ⟨fun b => I.c1 g b hu, ?_, fun p => I.iii g p hu, ?_⟩
  · intro hp
    obtain ⟨hne, hall⟩ := I.ii g hu hp
    cases hf : s.first g with
    | none => exact absurd hf hne
    | some p => exact ⟨p, rfl, hall p hf⟩
  · intro hp hd
    obtain ⟨hne, hall⟩ := I.iv g hu hp hd
    cases hf : s.taker g with
    | none => exact absurd hf hne
    | some b => exact ⟨b, rfl, hall b hf⟩

/-! ## non-vacuity: window-free histories that exercise the theorems -/

/-- joiner first: SUCCESS with the token, target destroyed, never touched afterwards -/
example : ∃ s, (sys isT).run okJoinFirst = some s ∧ untainted s 16 ∧ s.succ 16 = [1000] ∧
    s.retval 16 = some 1000 ∧ s.destroyed 16 = true ∧ s.late 16 = 0 := by
  have ho := okJoinFirst_obs
  cases hr : (sys isT).run okJoinFirst with
  | none => simp [hr] at ho
  | some s => simp [hr, obs] at ho; exact ⟨s, rfl, ho.2.2.2.2.1, ho.1, ho.2.1, ho.2.2.1, ho.2.2.2.1⟩

/-- finisher first, tryjoin while the finisher is mid context-switch -/
example : ∃ s, (sys isT).run okFinishFirst = some s ∧ untainted s 16 ∧ s.succ 16 = [1000] ∧
    s.retval 16 = some 1000 ∧ s.destroyed 16 = true ∧ s.late 16 = 0 := by
  have ho := okFinishFirst_obs
  cases hr : (sys isT).run okFinishFirst with
  | none => simp [hr] at ho
  | some s => simp [hr, obs] at ho; exact ⟨s, rfl, ho.2.2.2.2.1, ho.1, ho.2.1, ho.2.2.1, ho.2.2.2.1⟩

/-- detach, then a failing join, then completion and destruction -/
example : ∃ s, (sys isT).run okDetached = some s ∧ untainted s 16 ∧ s.detX 16 = true ∧ s.succ 16 = [] ∧
    s.destroyed 16 = true := by
  have ho := okDetached_obs
  cases hr : (sys isT).run okDetached with
  | none => simp [hr] at ho
  | some s => simp [hr, obs] at ho; exact ⟨s, rfl, ho.2.2.2.2.1, ho.2.2.2.2.2, ho.1, ho.2.2.1⟩

/-- NULL result pointer, joiner first, then a join with a result pointer by the same fiber: the
    first call succeeds (the discarded value was 16's), the slot is clear afterwards, the second
    call does not deliver 16's value -/
example : ∃ s, (sys isT2).run nullThenJoin = some s ∧ untainted s 16 ∧ s.succ 16 = [1000] ∧
    s.retval 16 = some 1000 ∧ s.res 17 = 0 ∧ s.succ 18 = [0] ∧ s.destroyed 16 = true ∧ s.late 16 = 0 := by
  have ho := nullThenJoin_obs
  cases hr : (sys isT2).run nullThenJoin with
  | none => simp [hr] at ho
  | some s => simp [hr, obs2] at ho; exact ⟨s, rfl, ho.2.2.1, ho.1.1, ho.1.2.2.1, ho.2.1, ho.1.2.1, ho.2.2.2.1, ho.2.2.2.2⟩

/-- NULL result pointer, finisher first (tryjoin) -/
example : ∃ s, (sys isT).run nullTryjoin = some s ∧ untainted s 16 ∧ s.succ 16 = [1000] ∧
    s.retval 16 = some 1000 ∧ s.destroyed 16 = true ∧ s.late 16 = 0 := by
  have ho := nullTryjoin_obs
  cases hr : (sys isT).run nullTryjoin with
  | none => simp [hr] at ho
  | some s => simp [hr, obs] at ho; exact ⟨s, rfl, ho.2.2.2.2.1, ho.1, ho.2.1, ho.2.2.1, ho.2.2.2.1⟩

end LibfiberVerif.C04
