/-
  Props/C01.lean — property C01: "a fiber runs on one kernel thread at a time and is resumed
  only from a saved state".

  "At every instant a fiber is executing on at most one kernel thread, and a fiber that
   suspends (yield, blocking on any primitive, I/O, sleep, completion) is never resumed - by a
   wake-up, a steal or its own thread - before that suspension has completed.  A finished
   fiber's stack and control block are never executed, scheduled or reclaimed while still in
   use."

  Model: `Rt.sys` (Model/Rt.lean) — kernel threads, run queues, the state word of every fiber,
  context switches, creation and destruction — validated against the instrumented runtime.
  Inductive invariant: `Rt.Inv` (Proof/Rt.lean).

  All theorems quantify over EVERY event list the model accepts: any number (≤ 16, the bound
  the model itself enforces on every log through `Ev.wf`) of kernel threads, any number of
  fibers, any interleaving of wake-ups, pops, steals and context switches, any length.

  Vocabulary:
    s.ctx g       ghost: none / fresh / running k / saved / dead — where g's context is
    s.cur k       the fiber kernel thread k is executing
    s.old k       the fiber k last switched away from (the one its maintenance works for)
    s.tpc k       what k is in the middle of: run / held g / requeue g / checked g / armed g / stolen g
    (s.tpc k).fib the fiber in k's hand (popped or stolen, not yet re-queued or run)
    s.bag q       run queue q (q / 2 is its owner)
    s.fst g       g's state word (RUNNING=1 READY=2 WAITING=3 DONE=4 SAVING=5)
    s.pub g       ghost: wakers can find g (it sits in some primitive's waiter list)
    s.tracked g   g is a script fiber or the main fiber (its state word is logged);
                  untracked = per-thread maintenance fibers, `s.maintOf g` = their thread
    mentions g e  event e names fiber g — including `touch _ g`: any access to a field of g's
                  control block other than `state` (result, join_info, detach_state,
                  mpsc_fifo_node, scratch)
-/
import LibfiberVerif.Proof.Rt

namespace LibfiberVerif.Rt

/-! ## 0. the bounds the model enforces on every log -/

/-- every accepted event carries a kernel-thread id < 16 and a run-queue id < 32 -/
theorem accepted_in_range {s s' : St} {e : Ev} (h : sys.step s e = some s') : e.wf = true :=
  (step_core h).1

/-! ## 1. a context switch always targets a saved context that runs nowhere -/

/-- **switch_target_saved** (state form).  Whenever kernel thread k has written
    `g.state := RUNNING` and is about to switch to g, g's context is saved (or was never
    run) and no kernel thread is executing g.  The `switch` step of the model has no guard on
    `ctx`: this is a theorem about every reachable state. -/
theorem switch_target_saved {es : List Ev} {s : St} (h : sys.run es = some s) {k g : Nat}
    (ha : s.tpc k = .armed g) :
    (s.ctx g = .saved ∨ s.ctx g = .fresh) ∧ ∀ k', k' < 16 → s.cur k' ≠ g := by
  have hI := inv_of_run h
  have hc := (hI.arm k g ha).1
  refine ⟨hc, fun k' hk' hcur => ?_⟩
  have := hI.live k' hk'
  rw [hcur] at this
  rcases hc with hc | hc <;> simp [hc] at this

/-- **switch_target_saved** (event form).  EVERY accepted `switch k g` — to a script fiber
    or to a kernel thread's maintenance fiber — finds g's context saved or fresh, with no
    kernel thread executing g; a maintenance fiber is switched to by its own thread only. -/
theorem switch_accepted_target_saved {es : List Ev} {s s' : St} (h : sys.run es = some s)
    {k g : Nat} (hs : sys.step s (.switch k g) = some s') :
    (s.ctx g = .saved ∨ s.ctx g = .fresh) ∧ (∀ k', k' < 16 → s.cur k' ≠ g) ∧
    (s.tracked g = false → s.maintOf g = k) := by
  have hI := inv_of_run h
  obtain ⟨hw, hc⟩ := step_core hs
  simp [Ev.wf] at hw
  have hok := (switch_ok_of_core hc).1
  have hc := switch_target hI hw hok
  refine ⟨hc, fun k' hk' hcur => ?_, fun htr => ?_⟩
  · have := hI.live k' hk'
    rw [hcur] at this
    rcases hc with hc | hc <;> simp [hc] at this
  · rcases hok.2 with h1 | h1
    · simp [h1.1] at htr
    · exact h1.2.2

/-- a maintenance fiber only ever runs on the kernel thread it belongs to -/
theorem maintenance_fiber_on_own_thread {es : List Ev} {s : St} (h : sys.run es = some s)
    {g k : Nat} (htr : s.tracked g = false) (hr : s.ctx g = .running k) : s.maintOf g = k :=
  (inv_of_run h).untr g k htr hr

/-- after an accepted switch the target runs on the switching thread, the fiber switched away
    from is saved -/
theorem switch_effect {s s' : St} {k g : Nat} (hs : sys.step s (.switch k g) = some s') :
    s'.ctx g = .running k ∧ s'.cur k = g ∧ s'.ctx (s.cur k) = .saved ∧ s'.old k = s.cur k := by
  obtain ⟨-, hc⟩ := step_core hs
  obtain ⟨⟨hne, -⟩, rfl⟩ := switch_ok_of_core hc
  simp [upd, Ne.symm hne]

/-! ## 2. a fiber runs on at most one kernel thread -/

/-- **live_unique**: the ghost "g's context is live on k" and the manager's `current_fiber`
    agree, in every reachable state -/
theorem live_unique {es : List Ev} {s : St} (h : sys.run es = some s) {k g : Nat} (hk : k < 16) :
    s.ctx g = .running k ↔ s.cur k = g := by
  have hI := inv_of_run h
  constructor
  · intro hr; exact (hI.liveU g k hr).2
  · intro hc; rw [← hc]; exact hI.live k hk

/-- a context is only ever live on a real kernel thread -/
theorem running_in_range {es : List Ev} {s : St} (h : sys.run es = some s) {k g : Nat}
    (hr : s.ctx g = .running k) : k < 16 :=
  ((inv_of_run h).liveU g k hr).1

/-- hence: at every instant a fiber is executing on at most one kernel thread -/
theorem one_thread_at_a_time {es : List Ev} {s : St} (h : sys.run es = some s) {k k' g : Nat}
    (hk : k < 16) (hk' : k' < 16) (h1 : s.cur k = g) (h2 : s.cur k' = g) : k = k' := by
  have a := (live_unique h hk).mpr h1
  have b := (live_unique h hk').mpr h2
  rw [a] at b; cases b; rfl

/-! ## 3. what sits in a run queue or in a thread's hand -/

/-- **queued_saved_or_saving**: a fiber in a run queue has a saved or fresh context, or is
    still marked SAVING (and then it is the running fiber of the thread it parks on); it is
    not finished and not destroyed -/
theorem queued_saved_or_saving {es : List Ev} {s : St} (h : sys.run es = some s) {q g : Nat}
    (hq : g ∈ s.bag q) :
    (s.ctx g = .saved ∨ s.ctx g = .fresh ∨ s.fst g = SAVING) ∧ s.ctx g ≠ .dead ∧ s.fst g ≠ DONE
    ∧ s.tracked g = true := by
  obtain ⟨htr, hd, hc⟩ := (inv_of_run h).bagQ q g hq
  refine ⟨?_, ?_, hd, htr⟩
  · rcases hc with hc | hc | hc
    · exact Or.inl hc
    · exact Or.inr (Or.inl hc)
    · exact Or.inr (Or.inr hc.1)
  · rcases hc with hc | hc | hc
    · simp [hc]
    · simp [hc]
    · intro hd'; simp [hd', Ctx.isRunning] at hc

/-- the same for a fiber in a kernel thread's hand (popped or stolen) -/
theorem held_saved_or_saving {es : List Ev} {s : St} (h : sys.run es = some s) {k g : Nat}
    (hq : (s.tpc k).fib = some g) :
    (s.ctx g = .saved ∨ s.ctx g = .fresh ∨ s.fst g = SAVING) ∧ s.ctx g ≠ .dead ∧ s.fst g ≠ DONE
    ∧ s.tracked g = true := by
  obtain ⟨htr, hd, hc⟩ := (inv_of_run h).handQ k g hq
  refine ⟨?_, ?_, hd, htr⟩
  · rcases hc with hc | hc | hc
    · exact Or.inl hc
    · exact Or.inr (Or.inl hc)
    · exact Or.inr (Or.inr hc.1)
  · rcases hc with hc | hc | hc
    · simp [hc]
    · simp [hc]
    · intro hd'; simp [hd', Ctx.isRunning] at hc

/-- the heart of "never resumed before the suspension has completed": once
    `fiber_scheduler_next` has looked at the state word and it was not SAVING, the context IS
    saved (or fresh) — SAVING is only ever cleared by the successor's maintenance, i.e. after
    the context switch away from the fiber -/
theorem checked_is_saved {es : List Ev} {s : St} (h : sys.run es = some s) {k g : Nat}
    (hc : s.tpc k = .checked g ∨ s.tpc k = .armed g) :
    (s.ctx g = .saved ∨ s.ctx g = .fresh) ∧ s.fst g ≠ SAVING := by
  have hI := inv_of_run h
  rcases hc with hc | hc
  · exact hI.chk k g hc
  · have := hI.arm k g hc
    exact ⟨this.1, by simp [this.2, RUNNING, SAVING]⟩

/-- a queued or held fiber that is nevertheless still executing is inside the P-saving window:
    its state word says SAVING, so every popper puts it back -/
theorem running_and_queued_is_saving {es : List Ev} {s : St} (h : sys.run es = some s)
    {g k : Nat} (hr : s.ctx g = .running k)
    (hp : (∃ q, g ∈ s.bag q) ∨ (∃ k', (s.tpc k').fib = some g)) : s.fst g = SAVING := by
  have hI := inv_of_run h
  have hQ : Q s g := by
    rcases hp with ⟨q, hq⟩ | ⟨k', hk'⟩
    · exact hI.bagQ q g hq
    · exact hI.handQ k' g hk'
  rcases hQ.2.2 with hc | hc | hc
  · simp [hr] at hc
  · simp [hr] at hc
  · exact hc.1

/-! ## 4. what wakers can find -/

/-- **published_is_safe**: a fiber that wakers can find has completed its suspension (context
    saved) or is still marked SAVING -/
theorem published_is_safe {es : List Ev} {s : St} (h : sys.run es = some s) {g : Nat}
    (hp : s.pub g = true) : s.ctx g = .saved ∨ s.fst g = SAVING := by
  rcases (inv_of_run h).pubS g hp with hc | hc
  · exact Or.inl hc
  · exact Or.inr hc.1

/-! ## 5. never resumed before the suspension has completed -/

/-- a fiber whose state word says SAVING is not switched to, by anyone -/
theorem no_resume_while_saving {es : List Ev} {s : St} (h : sys.run es = some s) {k g : Nat}
    (htr : s.tracked g = true) (hf : s.fst g = SAVING) : sys.step s (.switch k g) = none := by
  have hI := inv_of_run h
  cases hs : sys.step s (.switch k g) with
  | none => rfl
  | some s' =>
    exfalso
    obtain ⟨-, hc⟩ := step_core hs
    rcases (switch_ok_of_core hc).1.2 with h1 | h1
    · have := (hI.arm k g h1.2).2
      rw [hf] at this; simp [SAVING, RUNNING] at this
    · simp [htr] at h1

/-- **no_resume_before_save**.  Fiber g, running on kernel thread k, writes its parking state
    (`SAVING` through fiber_manager_wait_in_mpsc_queue, or `WAITING` through any of the
    deferred-publication waits).  Whatever events follow — wake-ups by other threads, pushes,
    pops, steals, re-queues, on any thread — NO `switch k' g` is accepted until thread k has
    performed its context switch away from g (`mid` contains a `switch k _`). -/
theorem no_resume_before_save {pre mid : List Ev} {k g v : Nat} {fn : Fn} {k' : Nat} {s' : St}
    (hfn : fn = .waitSaving ∨ fn = .waitDefer)
    (h : sys.run (pre ++ .wState k g v fn :: mid ++ [.switch k' g]) = some s') :
    ∃ x, Ev.switch k x ∈ mid := by
  apply Classical.byContradiction
  intro hno
  have hno' : ∀ x, Ev.switch k x ∉ mid := fun x hx => hno ⟨x, hx⟩
  -- split the run
  have e1 : pre ++ Ev.wState k g v fn :: mid ++ [Ev.switch k' g]
      = pre ++ ([Ev.wState k g v fn] ++ (mid ++ [Ev.switch k' g])) := by simp
  rw [e1] at h
  simp only [Sys.run, Sys.runFrom_append] at h
  cases h1 : sys.runFrom sys.init pre with
  | none => simp [h1] at h
  | some s1 =>
    simp only [h1, Option.bind_some] at h
    cases h2 : sys.runFrom s1 [Ev.wState k g v fn] with
    | none => simp [h2] at h
    | some s2 =>
      simp only [h2, Option.bind_some] at h
      cases h3 : sys.runFrom s2 mid with
      | none => simp [h3] at h
      | some s3 =>
        simp only [h3, Option.bind_some] at h
        -- the parking write is by the running fiber of thread k
        have hr1 : Sys.Reachable sys s1 := Sys.reachable_of_runFrom sys Sys.Reachable.init h1
        have hr2 : Sys.Reachable sys s2 := Sys.reachable_of_runFrom sys hr1 h2
        have hr3 : Sys.Reachable sys s3 := Sys.reachable_of_runFrom sys hr2 h3
        have hw : sys.step s1 (.wState k g v fn) = some s2 := by
          simp only [Sys.runFrom] at h2
          cases hst : sys.step s1 (.wState k g v fn) with
          | none => simp [hst] at h2
          | some x => simp [hst] at h2; rw [h2]
        obtain ⟨hwf, hc⟩ := step_core hw
        simp [Ev.wf] at hwf
        have hcur : s2.cur k = g := by
          simp only [core] at hc
          split at hc
          · simp at hc
          · rcases hfn with rfl | rfl
            · simp only at hc; split at hc <;> simp at hc
              next hg => subst hc; exact hg.1.symm
            · simp only at hc; split at hc <;> simp at hc
              next hg => subst hc; exact hg.1.symm
        have hcur3 : s3.cur k = g := by rw [cur_runFrom h3 hno', hcur]
        have hI3 : Inv s3 := Sys.inv_of_step sys Inv inv_init (fun _ _ _ hI hs => inv_step hI hs) hr3
        have hrun := hI3.live k hwf
        rw [hcur3] at hrun
        -- but an accepted switch needs a saved / fresh target
        simp only [Sys.runFrom] at h
        cases hst : sys.step s3 (.switch k' g) with
        | none => simp [hst] at h
        | some s4 =>
          obtain ⟨hwf', hc'⟩ := step_core hst
          simp [Ev.wf] at hwf'
          have := switch_target hI3 hwf' (switch_ok_of_core hc').1
          rcases this with this | this <;> simp [hrun] at this

/-! ## 6. finished fibers -/

/-- **done_not_scheduled**: a fiber whose state word says DONE is in no run queue and in no
    kernel thread's hand -/
theorem done_not_scheduled {es : List Ev} {s : St} (h : sys.run es = some s) {g : Nat}
    (hd : s.fst g = DONE) : (∀ q, g ∉ s.bag q) ∧ (∀ k, (s.tpc k).fib ≠ some g) := by
  have hI := inv_of_run h
  exact ⟨fun q hq => (hI.bagQ q g hq).2.1 hd, fun k hk => (hI.handQ k g hk).2.1 hd⟩

/-- **destroy_after_switch**: `destroy k g` is accepted only as thread k's maintenance for the
    fiber it has just switched away from: g's context is saved (its last switch-away is
    complete), no kernel thread executes it, it is in no run queue, in no hand, and no waker
    can find it -/
theorem destroy_after_switch {es : List Ev} {s s' : St} (h : sys.run es = some s) {k g : Nat}
    (hs : sys.step s (.destroy k g) = some s') :
    g = s.old k ∧ s.ctx g = .saved ∧ s.fst g = DONE ∧ (∀ k', k' < 16 → s.cur k' ≠ g) ∧
    (∀ q, g ∉ s.bag q) ∧ (∀ k', (s.tpc k').fib ≠ some g) ∧ s.pub g = false ∧
    s'.ctx g = .dead := by
  have hI := inv_of_run h
  obtain ⟨-, hc⟩ := step_core hs
  simp only [core] at hc
  split at hc <;> simp at hc
  next hg =>
    subst hc
    obtain ⟨hgo, hf, -, -, -, -, hm⟩ := hg
    subst hgo
    have hsv := hI.winC k (by simp [hm])
    have hns : s.fst (s.old k) ≠ SAVING := by simp [hf, DONE, SAVING]
    refine ⟨rfl, hsv, hf, fun k' hk' hcur => ?_, fun q => hI.winBag k q (by simp [hm]) hns,
      fun k' => hI.winHand k k' (by simp [hm]) hns, hI.winPub k (by simp [hm]) hns, by simp⟩
    have := hI.live k' hk'
    rw [hcur, hsv] at this; simp at this

/-- a destroyed fiber stays destroyed and NO later event names it: it is not created again,
    not pushed, popped or stolen, its state word is not read or written, no other field of its
    control block is accessed (`touch`), it is not switched to and not destroyed a second time -/
theorem dead_untouched {es fs : List Ev} {s : St} {g : Nat} (h : sys.run es = some s)
    (hd : s.ctx g = .dead) {s' : St} (hf : sys.runFrom s fs = some s') :
    s'.ctx g = .dead ∧ ∀ e ∈ fs, mentions g e = false := by
  have hI := inv_of_run h
  clear h
  induction fs generalizing s with
  | nil => simp [Sys.runFrom] at hf; subst hf; exact ⟨hd, by simp⟩
  | cons e fs ih =>
    simp only [Sys.runFrom] at hf
    cases hst : sys.step s e with
    | none => simp [hst] at hf
    | some s1 =>
      simp [hst] at hf
      obtain ⟨hd1, hm⟩ := dead_step hI hd hst
      obtain ⟨hd', hms⟩ := ih hd1 hf (inv_step hI hst)
      refine ⟨hd', ?_⟩
      intro e' he'
      rcases List.mem_cons.mp he' with rfl | he'
      · exact hm
      · exact hms e' he'

/-- the same over one event list: nothing after an accepted `destroy k g` names g — in
    particular no `touch _ g`: the control block is not touched afterwards -/
theorem destroyed_never_touched {es fs : List Ev} {k g : Nat} {s : St}
    (h : sys.run (es ++ .destroy k g :: fs) = some s) :
    s.ctx g = .dead ∧ ∀ e ∈ fs, mentions g e = false := by
  have e1 : es ++ Ev.destroy k g :: fs = (es ++ [Ev.destroy k g]) ++ fs := by simp
  rw [e1] at h
  simp only [Sys.run, Sys.runFrom_append] at h
  cases h1 : sys.runFrom sys.init es with
  | none => simp [h1] at h
  | some s1 =>
    simp only [h1, Option.bind_some] at h
    cases h2 : sys.runFrom s1 [Ev.destroy k g] with
    | none => simp [h2] at h
    | some s2 =>
      simp only [h2, Option.bind_some] at h
      have hw : sys.step s1 (.destroy k g) = some s2 := by
        simp only [Sys.runFrom] at h2
        cases hst : sys.step s1 (.destroy k g) with
        | none => simp [hst] at h2
        | some x => simp [hst] at h2; rw [h2]
      have hr1 : sys.run es = some s1 := h1
      have hdead := (destroy_after_switch hr1 hw).2.2.2.2.2.2.2
      have hr2 : sys.run (es ++ [Ev.destroy k g]) = some s2 := by
        simp [Sys.run, Sys.runFrom_append, h1, h2]
      exact dead_untouched hr2 hdead h

/-- **touch_only_live**: every accepted access to a field of g's control block (result,
    join_info, detach_state, mpsc_fifo_node, scratch) finds g not yet destroyed -/
theorem touch_only_live {es : List Ev} {s s' : St} (h : sys.run es = some s) {k g : Nat}
    (hs : sys.step s (.touch k g) = some s') : s.ctx g ≠ .dead := by
  intro hd
  have := (dead_step (inv_of_run h) hd hs).2
  simp [mentions] at this

/-- a destroyed fiber is nowhere: not executing, not queued, not held, not findable -/
theorem dead_is_nowhere {es : List Ev} {s : St} (h : sys.run es = some s) {g : Nat}
    (hd : s.ctx g = .dead) :
    (∀ k, k < 16 → s.cur k ≠ g) ∧ (∀ q, g ∉ s.bag q) ∧ (∀ k, (s.tpc k).fib ≠ some g) ∧
    s.pub g = false := by
  have hI := inv_of_run h
  refine ⟨fun k hk hc => ?_, fun q hq => ?_, fun k hk => ?_, ?_⟩
  · have := hI.live k hk; rw [hc, hd] at this; simp at this
  · have := (hI.bagQ q g hq).2.2; simp [hd, Ctx.isRunning] at this
  · have := (hI.handQ k g hk).2.2; simp [hd, Ctx.isRunning] at this
  · cases hp : s.pub g with
    | false => rfl
    | true => have := hI.pubS g hp; simp [hd, Ctx.isRunning] at this

/-! ## 7. non-vacuity: the windows the property names are reachable -/

/-- Two kernel threads.  Fiber 16 parks through P-saving on thread 0 (state := SAVING, visible
    to wakers at once); fiber 17, which thread 1 stole and runs, wakes it while it is STILL
    executing on thread 0 (the waker sees SAVING and pushes it on its own queue); thread 1 then
    pops it, sees SAVING, and puts it back. -/
def savingWindow : List Ev := [
  .create 0 16, .create 0 17, .spawn,
  .rqpush 0 1 16 .wake, .rqpush 0 1 17 .wake,
  -- thread 1 steals fiber 17 and runs it
  .rqsteal 1 1 (some 17), .rqpush 1 2 17 .other,
  .rqpop 1 2 (some 17), .rState 1 17 2 .next, .wState 1 17 1 .switchTo, .switch 1 17,
  -- thread 0: the main fiber yields to fiber 16; maintenance re-queues the main fiber
  .rState 0 0 1 .yield, .rqpop 0 1 (some 16), .rState 0 16 2 .next,
  .rState 0 0 1 .switchTo, .wState 0 0 2 .switchTo, .wState 0 16 1 .switchTo, .switch 0 16,
  .rState 0 0 2 .maint, .rqpush 0 1 0 .wake,
  -- fiber 16 parks: state := SAVING, enqueues itself on a mutex, yields
  .wState 0 16 5 .waitSaving, .rState 0 16 5 .yield,
  -- fiber 17 (thread 1) unlocks: pops 16 off the waiter list, sees SAVING, schedules it
  .rState 1 16 5 .wake, .rqpush 1 2 16 .wake,
  -- thread 1 yields: pops 16, sees SAVING, puts it back on its other queue
  .rState 1 17 1 .yield, .rqpop 1 2 (some 16), .rState 1 16 5 .next, .rqpush 1 3 16 .next]

/-- inside the window: fiber 16 is queued (on thread 1's queue) WHILE still executing on
    thread 0, marked SAVING, no longer findable by further wakers -/
example : ∃ s, sys.run savingWindow = some s ∧
    s.ctx 16 = .running 0 ∧ s.cur 0 = 16 ∧ s.fst 16 = SAVING ∧ s.bag 3 = [16] ∧
    s.pub 16 = false ∧ s.ctx 17 = .running 1 :=
  ⟨_, rfl, by decide, by decide, by decide, by decide, by decide, by decide⟩

/-- … then thread 0 completes the suspension (switches to the main fiber, whose maintenance
    flips SAVING → WAITING), and only now does thread 1's pop pass the check: fiber 16 resumes
    on a DIFFERENT kernel thread. -/
def savingResume : List Ev := savingWindow ++ [
  .rqpop 0 1 (some 0), .rState 0 0 2 .next, .rState 0 16 5 .switchTo, .wState 0 0 1 .switchTo,
  .switch 0 0, .rState 0 16 5 .maint, .wState 0 16 3 .maint,
  .rqpop 1 3 (some 16), .rState 1 16 3 .next, .rState 1 17 1 .switchTo, .wState 1 17 2 .switchTo,
  .wState 1 16 1 .switchTo, .switch 1 16]

example : ∃ s, sys.run savingResume = some s ∧
    s.ctx 16 = .running 1 ∧ s.cur 1 = 16 ∧ s.fst 16 = RUNNING ∧ s.ctx 0 = .running 0 ∧
    s.ctx 17 = .saved ∧ s.old 1 = 17 ∧ s.bag 3 = [] :=
  ⟨_, rfl, by decide, by decide, by decide, by decide, by decide, by decide, by decide⟩

/-- a resume attempted INSIDE the window is not an accepted event: a popper that reads the
    state word finds SAVING and can only re-queue; it never reaches `armed` -/
example : sys.run (savingWindow ++ [.rqpop 1 3 (some 16), .rState 1 16 5 .next]) ≠ none ∧
    sys.run (savingWindow ++ [.rqpop 1 3 (some 16), .rState 1 16 5 .next,
                              .wState 1 16 1 .switchTo]) = none ∧
    sys.run (savingWindow ++ [.switch 1 16]) = none := by
  refine ⟨by decide, by decide, by decide⟩

/-- a finished fiber: 16 completes on thread 0, switches to the main fiber, whose maintenance
    destroys it; afterwards every event naming 16 is rejected -/
def doneTrace : List Ev := [
  .create 0 16, .spawn, .rqpush 0 1 16 .wake,
  .rState 0 0 1 .yield, .rqpop 0 1 (some 16), .rState 0 16 2 .next,
  .wState 0 0 2 .switchTo, .wState 0 16 1 .switchTo, .switch 0 16,
  .rState 0 0 2 .maint, .rqpush 0 1 0 .wake,
  .wState 0 16 4 .done, .rState 0 16 4 .yield,
  .rqpop 0 1 (some 0), .rState 0 0 2 .next, .wState 0 0 1 .switchTo, .switch 0 0,
  .rState 0 16 4 .maint, .destroy 0 16]

example : ∃ s, sys.run doneTrace = some s ∧ s.ctx 16 = .dead ∧ s.ctx 0 = .running 0 :=
  ⟨_, rfl, by decide, by decide⟩

example : sys.run (doneTrace ++ [.destroy 0 16]) = none ∧
    sys.run (doneTrace ++ [.rqpush 0 1 16 .wake]) = none ∧
    sys.run (doneTrace ++ [.rState 1 16 4 .other]) = none := by
  refine ⟨by decide, by decide, by decide⟩

/-- the control block: a touch of fiber 16 (say a joiner reading `result`) is accepted right up
    to the destroy — also after 16 marked itself DONE and was switched away from — and rejected
    by ANY kernel thread after it -/
example : sys.run (doneTrace.take 18 ++ [.touch 1 16]) ≠ none ∧
    sys.run (doneTrace ++ [.touch 1 16]) = none ∧
    sys.run (doneTrace ++ [.touch 0 16]) = none ∧
    sys.run (doneTrace ++ [.touch 1 0]) ≠ none := by
  refine ⟨by decide, by decide, by decide, by decide⟩

/-- destroying before the switch away is rejected -/
example : sys.run (doneTrace.take 13 ++ [.destroy 0 16]) = none := by decide

end LibfiberVerif.Rt
