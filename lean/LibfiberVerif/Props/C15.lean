/-
  Props/C15.lean — property C15:

  "For the multi-producer/single-consumer, single-producer/single-consumer and relaxed
   multi-producer queues, every pushed item is returned by exactly one pop, items of one
   producer are returned in the order pushed (and, for the strict MPSC queue, pushes that
   completed before another began are returned first), and pop never returns an item that
   was not pushed.  A pop may report empty only when no completed push is pending or a push
   is still in flight."

  Models: `Mpsc.sys k stub` with `k = .mpsc` for include/mpsc_fifo.h and `k = .spsc` for
  include/spsc_fifo.h (Model/Mpsc.lean, Model/Spsc.lean), `Mpscr.sys np` for
  include/mpsc_relaxed_fifo.h (Model/Mpscr.lean).  All theorems quantify over EVERY event
  list the model accepts: any number of producer threads, any number of operations, every
  interleaving of the individual shared accesses (a producer's `next = NULL` / publication /
  link write against the consumer's `head` / `next` / `data` accesses), with nodes being
  reused as soon as trypop hands them back.

  Reading guide for the ghost fields (all are plain recordings made by `step`):
    `called`   payloads handed to push            (appended at `call push v`)
    `pushed`   payloads in PUBLICATION order      (appended at the tail xchg / tail store)
    `returned` payloads whose push has returned   (appended at `ret push`)
    `popped`   payloads in the order successful trypops RETURNED them (appended at `ret pop v`)
    `q`        the nodes owned by the queue, stub first.
    `peeked`   one entry `(i, v)` per `mpsc_fifo_peek` that reported a payload (appended at
               `ret peek v`, v ≠ 0): `v` = what it reported, `i` = the number of successful
               trypops that had RETURNED before it — the consumer runs one operation at a time,
               so "the consumer's next successful trypop after that peek" is the one that
               fills `popped[i]`.
  `mpsc_fifo_peek` exists for the strict MPSC queue only (`step` accepts `call peek` for
  `Kind.mpsc` alone, `spsc_has_no_peek`); its two reads `head`, `head->next` are the SAME model
  events (`rdHead`, `rdNext`) as trypop's, so every theorem below that speaks about a NULL read
  of `head->next` covers trypop and peek alike.
  Client obligations (one trypop / peek at a time; SPSC: one push at a time; a pushed node is owned
  by the pusher; payloads distinct and non-zero) are enforced by `step` itself, see the model
  headers.
-/
import LibfiberVerif.Proof.Mpsc
import LibfiberVerif.Proof.Spsc
import LibfiberVerif.Proof.Mpscr

namespace LibfiberVerif.Props.C15

open Mpsc (Kind St Ev Pc CPc sys step inflight)

/-! ## MPSC (`k = .mpsc`) and SPSC (`k = .spsc`) -/

section queue
variable (k : Kind) (stub : Nat) (h0 : stub ≠ 0)
include h0

/-- The i-th successful trypop returns the i-th published payload: pops come out in
    publication (tail xchg / tail store) order, none skipped. -/
theorem pop_is_next_in_order {es : List Ev} {s : St} (h : (sys k stub).run es = some s) :
    ∀ (i v : Nat), s.popped[i]? = some v → s.pushed[i]? = some v :=
  fun _ _ hi => Mpsc.idx_of_prefix (Mpsc.popped_prefix (Mpsc.invs_of_run h0 h).1) hi

/-- Exactly once: no payload is returned twice, and none is lost — every published payload
    has been returned, or is in the hands of the trypop in progress, or is the payload of a
    node still in the queue (and it is there once: `pushed` has no duplicates). -/
theorem exactly_once {es : List Ev} {s : St} (h : (sys k stub).run es = some s) :
    s.popped.Nodup ∧ s.pushed.Nodup ∧
      s.pushed = s.popped ++ inflight s ++ (s.q.drop 1).map s.data :=
  let ⟨hi, hv⟩ := Mpsc.invs_of_run h0 h
  ⟨Mpsc.popped_nodup hi hv, hv.pushedNd, hi.vals⟩

/-- trypop never returns something that was not pushed: every returned payload was handed
    to a push (and published by it) before; it is never the NULL token. -/
theorem never_invented {es : List Ev} {s : St} (h : (sys k stub).run es = some s) :
    ∀ v, v ∈ s.popped → v ∈ s.pushed ∧ v ∈ s.called ∧ v ≠ 0 := by
  obtain ⟨hi, hv⟩ := Mpsc.invs_of_run h0 h
  intro v hp
  obtain ⟨i, hi'⟩ := Mpsc.idx_of_mem hp
  have hpu : v ∈ s.pushed := Mpsc.mem_of_idx (Mpsc.idx_of_prefix (Mpsc.popped_prefix hi) hi')
  have hc := hv.pushedSub _ hpu
  exact ⟨hpu, hc, fun he => hv.callNz (he ▸ hc)⟩

/-- every completed push has published its payload (so it is covered by `exactly_once`) -/
theorem returned_published {es : List Ev} {s : St} (h : (sys k stub).run es = some s) :
    ∀ v, v ∈ s.returned → v ∈ s.pushed :=
  (Mpsc.invs_of_run h0 h).2.retSub

/-- Real-time FIFO (strict MPSC; also SPSC): if the push of `vA` had returned (state `s1`)
    before the push of `vB` was called, then `vA` is published before `vB` … -/
theorem realtime_fifo {es1 es2 : List Ev} {s1 s2 : St} {tB vA vB : Nat}
    (h1 : (sys k stub).run es1 = some s1) (hA : vA ∈ s1.returned)
    (h2 : (sys k stub).runFrom s1 (.callPush tB vB :: es2) = some s2) :
    ∀ (i j : Nat), s2.pushed[i]? = some vA → s2.pushed[j]? = some vB → i < j :=
  fun _ _ hi hj => Mpsc.realtime_core (Mpsc.invs_of_run h0 h1) hA h2 hi hj

/-- … and therefore returned first: if `vB` has been popped then `vA` was popped before it. -/
theorem realtime_fifo_pops {es1 es2 : List Ev} {s1 s2 : St} {tB vA vB : Nat}
    (h1 : (sys k stub).run es1 = some s1) (hA : vA ∈ s1.returned)
    (h2 : (sys k stub).runFrom s1 (.callPush tB vB :: es2) = some s2) :
    ∀ (j : Nat), s2.popped[j]? = some vB → ∃ i : Nat, i < j ∧ s2.popped[i]? = some vA := by
  intro j hj
  have hi1 := Mpsc.invs_of_run h0 h1
  obtain ⟨hi2, hv2⟩ := Mpsc.invs_of_runFrom hi1 h2
  have hpre := Mpsc.popped_prefix hi2
  have hjb := Mpsc.idx_of_prefix hpre hj
  -- `vA` is published in `s2`
  have hAp : vA ∈ s2.pushed := by
    obtain ⟨l, hl⟩ := Mpsc.pushed_prefix_of_runFrom h2
    rw [← hl]; exact List.mem_append_left _ (hi1.2.retSub _ hA)
  obtain ⟨i, hia⟩ := Mpsc.idx_of_mem hAp
  have hlt := Mpsc.realtime_core hi1 hA h2 hia hjb
  refine ⟨i, hlt, ?_⟩
  have hjl := Mpsc.idx_lt hj
  obtain ⟨l, hl⟩ := hpre
  rw [← hl, List.getElem?_append_left (by omega)] at hia
  exact hia

/-- Per-producer FIFO: two pushes of the same thread are published (hence, by
    `pop_is_next_in_order`, returned) in program order. -/
theorem per_producer_fifo {es1 es2 es3 : List Ev} {s1 s2 s3 s4 s : St} {t vA vB : Nat}
    (h1 : (sys k stub).run es1 = some s1)
    (hA : step k s1 (.callPush t vA) = some s2)
    (h2 : (sys k stub).runFrom s2 es2 = some s3)
    (hB : step k s3 (.callPush t vB) = some s4)
    (h3 : (sys k stub).runFrom s4 es3 = some s) :
    ∀ (i j : Nat), s.pushed[i]? = some vA → s.pushed[j]? = some vB → i < j := by
  intro i j hi hj
  have hi1 := Mpsc.invs_of_run h0 h1
  have hi2 : Mpsc.Inv k s2 ∧ Mpsc.VInv s2 := ⟨Mpsc.inv_step hi1.1 hA, Mpsc.vinv_step hi1.2 hA⟩
  have hi3 := Mpsc.invs_of_runFrom hi2 h2
  obtain ⟨_, hvA, _, hpcA⟩ := Mpsc.callPush_fresh hA
  obtain ⟨hidle, _, _, _⟩ := Mpsc.callPush_fresh hB
  have hret : vA ∈ s3.returned :=
    Mpsc.returned_when_idle hvA (by rw [hpcA]; rfl) h2 hidle
  have hrun : (sys k stub).runFrom s3 (.callPush t vB :: es3) = some s := by
    have : (sys k stub).step s3 (.callPush t vB) = some s4 := hB
    simp only [Sys.runFrom, this]; exact h3
  exact Mpsc.realtime_core hi3 hret hrun hi hj

/-- Empty is justified: at the instant a trypop reads `head->next = NULL`, either no node
    follows the stub in publication order, or the producer of the next node sits between its
    publication (xchg / tail store) and its link write. -/
theorem empty_justified {es : List Ev} {s s' : St} {t h : Nat}
    (hr : (sys k stub).run es = some s) (hs : step k s (.rdNext t h 0) = some s') :
    h = s.head ∧
      (s.q = [s.head] ∨ ∃ p v n, s.pc p = .xchgd v n s.head ∧ s.q[1]? = some n) :=
  Mpsc.empty_core (Mpsc.invs_of_run h0 hr).1 hs

/-- … in the words of the property: a trypop reads NULL only when no completed push is
    pending (every returned push has been popped) or a push is still in flight (between its
    publication and its link). -/
theorem empty_only_if_none_pending_or_inflight {es : List Ev} {s s' : St} {t h : Nat}
    (hr : (sys k stub).run es = some s) (hs : step k s (.rdNext t h 0) = some s') :
    (∀ v, v ∈ s.returned → v ∈ s.popped) ∨ ∃ p v n p', s.pc p = .xchgd v n p' :=
  let ⟨hi, hv⟩ := Mpsc.invs_of_run h0 hr
  Mpsc.empty_pending_core hi hv hs

/-- a trypop reports empty (returns 0) only after such a NULL read of `head->next` -/
theorem empty_report_after_null_read {es : List Ev} {s s' : St} {t : Nat}
    (hr : (sys k stub).run es = some s) (hs : step k s (.retPop t 0) = some s') :
    ∃ h, s.cpc = .gotNext h 0 :=
  let ⟨hi, hv⟩ := Mpsc.invs_of_run h0 hr
  Mpsc.ret_zero_core hi hv hs

/-! ### `mpsc_fifo_peek` -/

/-- What a peek reports, at the instant it returns: `0` only after a NULL read of `head->next`
    (nothing recorded); otherwise the payload that is NEXT in publication order,
    `pushed[popped.length]`, and exactly that is recorded in `peeked`. -/
theorem peek_report {es : List Ev} {s s' : St} {t v : Nat}
    (hr : (sys k stub).run es = some s) (hs : step k s (.retPeek t v) = some s') :
    (v = 0 ∧ (∃ h, s.cpc = .pkGotNext h 0) ∧ s'.peeked = s.peeked) ∨
      (v ≠ 0 ∧ s.pushed[s.popped.length]? = some v ∧
        s'.peeked = s.peeked ++ [(s.popped.length, v)]) :=
  let ⟨hi, hv⟩ := Mpsc.invs_of_run h0 hr
  Mpsc.peek_ret_core hi hv hs

/-- Peek returns exactly the payload the consumer's next successful trypop returns: in every
    reachable state, a peek that reported `v` after `i` successful trypops saw the `i`-th
    published payload, and if the `i`-th successful trypop has happened, it returned `v`. -/
theorem peek_is_next_pop {es : List Ev} {s : St} (h : (sys k stub).run es = some s) :
    ∀ i v, (i, v) ∈ s.peeked →
      s.pushed[i]? = some v ∧ ∀ w, s.popped[i]? = some w → w = v := by
  obtain ⟨hi, hv⟩ := Mpsc.invs_of_run h0 h
  intro i v hm
  have hp := hi.pk _ _ hm
  refine ⟨hp, fun w hw => ?_⟩
  have := Mpsc.idx_of_prefix (Mpsc.popped_prefix hi) hw
  rw [hp] at this
  exact (Option.some.inj this).symm

/-- … the same, along a run: a peek reports `v ≠ 0` in state `s1`; whatever happens afterwards
    (more pushes, more peeks, empty trypops), the first successful trypop after it — the one
    that fills `popped[s1.popped.length]` — returns `v`. -/
theorem peek_then_pop {es1 es2 : List Ev} {s1 s2 : St} {t v : Nat}
    (h1 : (sys k stub).run es1 = some s1) (hv0 : v ≠ 0)
    (h2 : (sys k stub).runFrom s1 (.retPeek t v :: es2) = some s2) :
    ∀ w, s2.popped[s1.popped.length]? = some w → w = v := by
  intro w hw
  have hi1 := Mpsc.invs_of_run h0 h1
  have hi2 := Mpsc.invs_of_runFrom hi1 h2
  have hfront : s1.pushed[s1.popped.length]? = some v := by
    simp only [Sys.runFrom] at h2
    cases hst : (sys k stub).step s1 (.retPeek t v) with
    | none => simp [hst] at h2
    | some s1' =>
      rcases Mpsc.peek_ret_core hi1.1 hi1.2 (k := k) hst with ⟨hz, _⟩ | ⟨_, hf, _⟩
      · exact absurd hz hv0
      · exact hf
  have hp2 := Mpsc.idx_of_prefix (Mpsc.pushed_prefix_of_runFrom h2) hfront
  have := Mpsc.idx_of_prefix (Mpsc.popped_prefix hi2.1) hw
  rw [hp2] at this
  exact (Option.some.inj this).symm

/-- Peek is stable: two peeks with no successful trypop between them (same count `i`) report
    the same payload. -/
theorem peek_stable {es : List Ev} {s : St} (h : (sys k stub).run es = some s) :
    ∀ i v v', (i, v) ∈ s.peeked → (i, v') ∈ s.peeked → v = v' := by
  obtain ⟨hi, _⟩ := Mpsc.invs_of_run h0 h
  intro i v v' hm hm'
  have := hi.pk _ _ hm
  rw [hi.pk _ _ hm'] at this
  exact (Option.some.inj this).symm

/-- … and once a peek has reported a payload, neither a later peek nor a trypop can find the
    queue "empty" before a trypop has taken that payload: while `(popped.length, v)` is in
    `peeked`, no NULL read of `head->next` is possible (links are never undone and only the
    consumer moves `head`). -/
theorem peek_no_empty_after_payload {es : List Ev} {s s' : St} {t h : Nat}
    (hr : (sys k stub).run es = some s) (hs : step k s (.rdNext t h 0) = some s') :
    ∀ v, (s.popped.length, v) ∉ s.peeked := by
  obtain ⟨hi, _⟩ := Mpsc.invs_of_run h0 hr
  have hpk := Mpsc.pkinv_of_run h0 hr
  intro v hm
  obtain ⟨_, hnx, hin, _⟩ := Mpsc.null_read_shape hi hs
  exact hpk.linked v hm (Mpsc.holds_of_inflight_nil hin) hnx

/-- peeks are recorded with the number of trypops that had returned: never ahead of `popped` -/
theorem peek_index_le {es : List Ev} {s : St} (h : (sys k stub).run es = some s) :
    ∀ i v, (i, v) ∈ s.peeked → i ≤ s.popped.length :=
  (Mpsc.pkinv_of_run h0 h).le

/-- Peek never reports something that was not pushed: every reported payload was handed to a
    push and published by it; it is never the NULL token. -/
theorem peek_never_invented {es : List Ev} {s : St} (h : (sys k stub).run es = some s) :
    ∀ i v, (i, v) ∈ s.peeked → v ∈ s.pushed ∧ v ∈ s.called ∧ v ≠ 0 := by
  obtain ⟨hi, hv⟩ := Mpsc.invs_of_run h0 h
  intro i v hm
  have hpu : v ∈ s.pushed := Mpsc.mem_of_idx (hi.pk _ _ hm)
  have hc := hv.pushedSub _ hpu
  exact ⟨hpu, hc, fun he => hv.callNz (he ▸ hc)⟩

/-- Peek never reports something that was already popped: at its return, the reported payload
    has not been returned by any trypop … -/
theorem peek_not_yet_popped {es : List Ev} {s s' : St} {t v : Nat}
    (hr : (sys k stub).run es = some s) (hs : step k s (.retPeek t v) = some s') (hv0 : v ≠ 0) :
    v ∉ s.popped := by
  obtain ⟨hi, hv⟩ := Mpsc.invs_of_run h0 hr
  rcases Mpsc.peek_ret_core hi hv hs with ⟨hz, _⟩ | ⟨_, hf, _⟩
  · exact absurd hz hv0
  · exact Mpsc.front_not_popped hi hv hf

/-- … and, over whole histories: the payload of a peek made after `i` successful trypops is
    returned by trypop number `i` and by no other (in particular by none of the first `i`). -/
theorem peek_popped_only_next {es : List Ev} {s : St} (h : (sys k stub).run es = some s) :
    ∀ i v, (i, v) ∈ s.peeked → ∀ j, s.popped[j]? = some v → j = i := by
  obtain ⟨hi, hv⟩ := Mpsc.invs_of_run h0 h
  intro i v hm j hj
  exact Mpsc.popped_idx_unique hi hv (hi.pk _ _ hm) hj

/-- A peek reports empty only after a NULL read of `head->next` … -/
theorem peek_empty_report_after_null_read {es : List Ev} {s s' : St} {t : Nat}
    (hr : (sys k stub).run es = some s) (hs : step k s (.retPeek t 0) = some s') :
    ∃ h, s.cpc = .pkGotNext h 0 := by
  rcases peek_report k stub h0 hr hs with ⟨_, hh, _⟩ | ⟨hne, _⟩
  · exact hh
  · exact absurd rfl hne

/-- … and that read (the consumer is inside a peek: `pkGotHead`) happens only when no node
    follows the stub or the next node's producer sits between its publication and its link
    write; in the words of the property: no completed push is pending, or a push is in
    flight. -/
theorem peek_empty_justified {es : List Ev} {s s' : St} {t h h' : Nat}
    (hr : (sys k stub).run es = some s) (hpk : s.cpc = .pkGotHead h')
    (hs : step k s (.rdNext t h 0) = some s') :
    s'.cpc = .pkGotNext h 0 ∧ h = s.head ∧
      (s.q = [s.head] ∨ ∃ p v n, s.pc p = .xchgd v n s.head ∧ s.q[1]? = some n) ∧
      ((∀ v, v ∈ s.returned → v ∈ s.popped) ∨ ∃ p v n p', s.pc p = .xchgd v n p') := by
  obtain ⟨hi, hv⟩ := Mpsc.invs_of_run h0 hr
  obtain ⟨hh, hj⟩ := Mpsc.empty_core hi hs
  refine ⟨?_, hh, hj, Mpsc.empty_pending_core hi hv hs⟩
  simp only [step, hpk] at hs
  split at hs <;> simp at hs
  rename_i hc
  rw [← hs, hc.2.1]

end queue

/-- spsc_fifo.h has no peek: the SPSC model (hence every sub-queue of the relaxed queue)
    rejects `call peek` in every state. -/
theorem spsc_has_no_peek (s : St) (t : Nat) : step .spsc s (.callPeek t) = none :=
  Mpsc.spsc_no_peek s t

/-- SPSC, strict emptiness: a trypop reads `head->next = NULL` only if every push that has
    returned has already been popped (the only push that can be in flight is a later one). -/
theorem spsc_empty_strict (stub : Nat) (h0 : stub ≠ 0) {es : List Ev} {s s' : St} {t h : Nat}
    (hr : (Spsc.sys stub).run es = some s) (hs : step .spsc s (.rdNext t h 0) = some s') :
    ∀ v, v ∈ s.returned → v ∈ s.popped :=
  Spsc.empty_strict h0 hr hs

/-- SPSC: the model really has a single producer — two threads are never inside push at once
    (`step` rejects the second call; this is the client obligation of spsc_fifo.h). -/
theorem spsc_single_producer (stub : Nat) (h0 : stub ≠ 0) {es : List Ev} {s : St}
    (hr : (Spsc.sys stub).run es = some s) (t t' : Nat)
    (ht : s.pc t ≠ .idle) (ht' : s.pc t' ≠ .idle) : t = t' :=
  Spsc.single_pusher h0 hr t t' ht ht'

/-! ## relaxed MPSC: reduction to one SPSC queue per producer number -/

section relaxed
variable (np : Nat)

/-- Reduction: in every reachable state of the relaxed queue, sub-queue `p` is in a state
    that the SPSC model (started with that sub-queue's stub) can reach by itself.  Hence every
    SPSC theorem above holds per sub-queue; the next theorems spell that out. -/
theorem mpscr_sub_reachable {es : List Mpscr.Ev} {s : Mpscr.St}
    (h : (Mpscr.sys np).run es = some s) (p : Nat) :
    ∃ l, (Spsc.sys (p + 1)).run l = some (s.sub p) :=
  Mpscr.sub_reachable h p

/-- per producer number: pops come out in that producer's publication order, none skipped -/
theorem mpscr_pop_is_next_in_order {es : List Mpscr.Ev} {s : Mpscr.St}
    (h : (Mpscr.sys np).run es = some s) (p : Nat) :
    ∀ (i v : Nat), (s.sub p).popped[i]? = some v → (s.sub p).pushed[i]? = some v :=
  fun _ _ hi => Mpsc.idx_of_prefix (Mpsc.popped_prefix (Mpscr.subOk_of_run h p).1) hi

/-- exactly once across the whole relaxed queue: per sub-queue nothing is returned twice and
    nothing is lost, and different sub-queues never carry the same payload -/
theorem mpscr_exactly_once {es : List Mpscr.Ev} {s : Mpscr.St}
    (h : (Mpscr.sys np).run es = some s) :
    (∀ p, (s.sub p).popped.Nodup ∧ (s.sub p).pushed.Nodup ∧
      (s.sub p).pushed =
        (s.sub p).popped ++ inflight (s.sub p) ++ ((s.sub p).q.drop 1).map (s.sub p).data) ∧
    (∀ p p' v, p ≠ p' → v ∈ (s.sub p).popped → v ∉ (s.sub p').popped) := by
  refine ⟨fun p => ?_, ?_⟩
  · obtain ⟨hi, hv⟩ := Mpscr.subOk_of_run h p
    exact ⟨Mpsc.popped_nodup hi hv, hv.pushedNd, hi.vals⟩
  · intro p p' v hne hp hp'
    have hd := Mpscr.dinv_of_run h
    have inCalled : ∀ q, v ∈ (s.sub q).popped → v ∈ (s.sub q).called := by
      intro q hq
      obtain ⟨hi, hv⟩ := Mpscr.subOk_of_run h q
      obtain ⟨i, hi'⟩ := Mpsc.idx_of_mem hq
      exact hv.pushedSub _ (Mpsc.mem_of_idx (Mpsc.idx_of_prefix (Mpsc.popped_prefix hi) hi'))
    exact hd.disj p p' v hne (inCalled p hp) (inCalled p' hp')

theorem mpscr_never_invented {es : List Mpscr.Ev} {s : Mpscr.St}
    (h : (Mpscr.sys np).run es = some s) (p : Nat) :
    ∀ v, v ∈ (s.sub p).popped → v ∈ (s.sub p).pushed ∧ v ∈ s.called ∧ v ≠ 0 := by
  obtain ⟨hi, hv⟩ := Mpscr.subOk_of_run h p
  intro v hp
  obtain ⟨i, hi'⟩ := Mpsc.idx_of_mem hp
  have hpu : v ∈ (s.sub p).pushed :=
    Mpsc.mem_of_idx (Mpsc.idx_of_prefix (Mpsc.popped_prefix hi) hi')
  have hc := hv.pushedSub _ hpu
  exact ⟨hpu, (Mpscr.dinv_of_run h).sub p v hc, fun he => hv.callNz (he ▸ hc)⟩

/-- Per-producer FIFO: if a push with producer number `p` had returned (`vA`, state `s1`)
    before thread `tB`, having announced the same producer number, called push with `vB`,
    then `vA` is published before `vB` in sub-queue `p` — and by
    `mpscr_pop_is_next_in_order` returned before it.  (No order is promised between different
    producer numbers.) -/
theorem mpscr_per_producer_fifo {es1 es2 : List Mpscr.Ev} {s1 s2 : Mpscr.St}
    {qi : Option Nat} {tB vA vB : Nat}
    (h1 : (Mpscr.sys np).run es1 = some s1) (hA : vA ∈ (s1.sub (s1.tq tB)).returned)
    (h2 : (Mpscr.sys np).runFrom s1 (.sub qi (.callPush tB vB) :: es2) = some s2) :
    ∀ (i j : Nat), (s2.sub (s1.tq tB)).pushed[i]? = some vA → (s2.sub (s1.tq tB)).pushed[j]? = some vB →
      i < j := by
  intro i j hi hj
  have hok1 := Mpscr.subOk_of_run h1
  have hok2 := Mpscr.subOk_runFrom' hok1 h2
  have hpre := Mpscr.sub_pushed_prefix_runFrom h2 (s1.tq tB)
  -- the call was accepted by the sub-queue, so `vB` was fresh there
  have hfresh : vB ∉ (s1.sub (s1.tq tB)).called := by
    simp only [Sys.runFrom] at h2
    cases hst : (Mpscr.sys np).step s1 (.sub qi (.callPush tB vB)) with
    | none => simp [hst] at h2
    | some s1' =>
      have hst' : Mpscr.step s1 (.sub qi (.callPush tB vB)) = some s1' := hst
      simp only [Mpscr.step, Mpscr.side] at hst'
      split at hst'
      next hc =>
        split at hst'
        next q' hq => exact (Mpsc.callPush_fresh hq).2.2.1
        next => simp at hst'
      next => simp at hst'
  exact Mpsc.realtime_abs (hok1 _).2 hA hfresh hpre (hok2 _).2.pushedNd hi hj

/-- EMPTY only after every sub-queue was examined: when trypop returns NULL, each of the
    `np` sub-queues is in `seen`, the list of sub-queues this call examined and found with
    `head->next = NULL` … -/
theorem mpscr_empty_examined_all {es : List Mpscr.Ev} {s s' : Mpscr.St} {t : Nat}
    (hnp : 0 < np) (hr : (Mpscr.sys np).run es = some s)
    (hs : Mpscr.step s (.retPop t 0) = some s') : ∀ j, j < np → j ∈ s.seen := by
  have hl := Mpscr.linv_of_run hr
  simp only [Mpscr.step] at hs
  split at hs
  next i c0 hcp =>
    split at hs
    next hc =>
      obtain ⟨_, hi, _⟩ := hc
      obtain ⟨_, _, hseen⟩ := hl.loop _ _ hcp
      intro j hj
      rw [hseen, hi, hl.npEq]
      exact Mpscr.examined_all hnp j hj
    next => simp at hs
  next i c0 idx hcp =>
    split at hs
    next hc => exact absurd rfl hc.2
    next => simp at hs
  next => simp at hs

/-- … and a sub-queue enters `seen` only at an instant at which it was empty or in flight: at
    the NULL read of its `head->next`, no node follows its stub or that node's producer sits
    between its tail store and its link write; in either case every push to that sub-queue
    that has returned has already been popped. -/
theorem mpscr_examined_justified {es : List Mpscr.Ev} {s s' : Mpscr.St} {qi : Option Nat}
    {t h : Nat} (hr : (Mpscr.sys np).run es = some s)
    (hs : Mpscr.step s (.sub qi (.rdNext t h 0)) = some s') :
    ∃ i c0 idx, s.cpc = .inSub i c0 idx ∧ s'.seen = s.seen ++ [idx] ∧
      h = (s.sub idx).head ∧
      ((s.sub idx).q = [h] ∨ ∃ p v n, (s.sub idx).pc p = .xchgd v n h ∧ (s.sub idx).q[1]? = some n) ∧
      (∀ v, v ∈ (s.sub idx).returned → v ∈ (s.sub idx).popped) := by
  have hok := Mpscr.subOk_of_run hr
  simp only [Mpscr.step, Mpscr.side] at hs
  split at hs
  next i c0 idx hcp =>
    split at hs
    next hc =>
      split at hs
      next q' hq =>
        split at hs
        next q'' hq2 =>
          simp at hs; subst hs
          obtain ⟨hi, hv⟩ := hok idx
          obtain ⟨hh, hj⟩ := Mpsc.empty_core hi hq
          refine ⟨i, c0, idx, hcp, rfl, hh, ?_, Mpsc.spsc_empty_core hi hv hq⟩
          rw [hh]; exact hj
        next => simp at hs
      next => simp at hs
    next => simp at hs
  next => simp at hs

end relaxed

/-! ## non-vacuity: concrete interleaved traces accepted by the models -/

/-- MPSC, threads 1 and 2 produce, thread 0 consumes, nodes 1 (stub) 2 3.
    Producer 1 publishes node 2 and stalls before linking; producer 2 runs a whole push of
    node 3 behind it; the consumer reads NULL (empty although push 20 has returned — the
    in-flight case of `empty_justified`); producer 1 links; the consumer pops 10, and the stub
    it got back (node 1) is pushed again with payload 30; the consumer pops 20. -/
def traceMpsc : List Ev := [
  .callPush 1 10, .wrDataClient 1 2 10, .wrNext 1 2 0, .xchgTail 1 1 2,
  .callPush 2 20, .wrDataClient 2 3 20, .wrNext 2 3 0, .xchgTail 2 2 3, .wrNext 2 2 3, .retPush 2 1,
  .callPop 0, .rdHead 0 1, .rdNext 0 1 0, .retPop 0 0,
  .wrNext 1 1 2, .retPush 1 1,
  .callPop 0, .rdHead 0 1, .rdNext 0 1 2, .wrHead 0 2, .rdDataPop 0 2 10, .wrDataPop 0 1 10,
  .rdDataClient 0 1 10, .retPop 0 10,
  .callPush 1 30, .wrDataClient 1 1 30, .wrNext 1 1 0, .xchgTail 1 3 1, .wrNext 1 3 1, .retPush 1 1,
  .callPop 0, .rdHead 0 2, .rdNext 0 2 3, .wrHead 0 3, .rdDataPop 0 3 20, .wrDataPop 0 2 20,
  .rdDataClient 0 2 20, .retPop 0 20]

example : ((sys .mpsc 1).run traceMpsc).map (fun s => (s.pushed, s.popped, s.returned, s.q)) =
    some ([10, 20, 30], [10, 20], [20, 10, 30], [3, 1]) := by decide

/-- the hypotheses of `realtime_fifo` / `per_producer_fifo` are satisfiable: after the first 24
    events push 20 has returned, then thread 1 calls push 30 -/
example : ((sys .mpsc 1).run (traceMpsc.take 24)).map (fun s => decide (20 ∈ s.returned)) = some true ∧
    (traceMpsc.drop 24).head? = some (.callPush 1 30) := by decide

/-- the hypothesis of `empty_justified` is satisfiable in its in-flight branch: the 13th event
    is a NULL read of `head->next` while `q = [1, 2, 3]` and producer 1 sits in `xchgd` -/
example : ((sys .mpsc 1).run (traceMpsc.take 12)).map (fun s => (s.q, s.pc 1, s.returned)) =
    some ([1, 2, 3], .xchgd 10 2 1, [20]) ∧ traceMpsc[12]? = some (.rdNext 0 1 0) := by decide

/-- MPSC with peeks (thread 0 is the consumer).  Producer 1 publishes node 2 and stalls before
    linking: the first peek reads NULL and reports empty (in-flight branch of
    `peek_empty_justified`).  After the link, a second peek reads `head`, `head->next`, then a
    whole push of 20 by producer 2 runs, then the peek reads the payload and reports 10; a third
    peek reports 10 again (`peek_stable`); the trypop returns 10 (`peek_is_next_pop`); the last
    peek reports 20. -/
def tracePeek : List Ev := [
  .callPush 1 10, .wrDataClient 1 2 10, .wrNext 1 2 0, .xchgTail 1 1 2,
  .callPeek 0, .rdHead 0 1, .rdNext 0 1 0, .retPeek 0 0,
  .wrNext 1 1 2, .retPush 1 1,
  .callPeek 0, .rdHead 0 1, .rdNext 0 1 2,
  .callPush 2 20, .wrDataClient 2 3 20, .wrNext 2 3 0, .xchgTail 2 2 3, .wrNext 2 2 3, .retPush 2 1,
  .rdDataPeek 0 2 10, .retPeek 0 10,
  .callPeek 0, .rdHead 0 1, .rdNext 0 1 2, .rdDataPeek 0 2 10, .retPeek 0 10,
  .callPop 0, .rdHead 0 1, .rdNext 0 1 2, .wrHead 0 2, .rdDataPop 0 2 10, .wrDataPop 0 1 10,
  .rdDataClient 0 1 10, .retPop 0 10,
  .callPeek 0, .rdHead 0 2, .rdNext 0 2 3, .rdDataPeek 0 3 20, .retPeek 0 20]

example : ((sys .mpsc 1).run tracePeek).map (fun s => (s.pushed, s.popped, s.peeked, s.q)) =
    some ([10, 20], [10], [(0, 10), (0, 10), (1, 20)], [2, 3]) := by decide

/-- the hypotheses of `peek_empty_justified` are satisfiable in the in-flight branch: the 7th
    event is a NULL read of `head->next` by a peek while `q = [1, 2]` and producer 1 sits in
    `xchgd`; and those of `peek_report` / `peek_then_pop`: the 21st event is `ret peek 10` -/
example : ((sys .mpsc 1).run (tracePeek.take 6)).map (fun s => (s.q, s.pc 1, s.cpc)) =
    some ([1, 2], .xchgd 10 2 1, .pkGotHead 1) ∧ tracePeek[6]? = some (.rdNext 0 1 0) ∧
    tracePeek[20]? = some (.retPeek 0 10) := by decide

/-- a peek is a consumer-side operation: while one is in progress the model rejects a trypop
    (and vice versa), and the SPSC model rejects peek altogether -/
example : ((sys .mpsc 1).run (tracePeek.take 11 ++ [.callPop 0])).isSome = false ∧
    ((sys .mpsc 1).run (tracePeek.take 27 ++ [.callPeek 0])).isSome = false ∧
    ((sys .spsc 1).run [.callPeek 0]).isSome = false := by decide

/-- SPSC: one producer (thread 1), consumer thread 0 interleaved inside the producer's
    load-tail / store-tail / link sequence; node 1 is reused. -/
def traceSpsc : List Ev := [
  .callPush 1 10, .wrDataClient 1 2 10, .wrNext 1 2 0, .ldTail 1 1,
  .callPop 0, .rdHead 0 1, .stTail 1 2, .rdNext 0 1 0, .retPop 0 0,
  .wrNext 1 1 2, .retPush 1 1,
  .callPop 0, .rdHead 0 1, .rdNext 0 1 2, .wrHead 0 2,
  .callPush 1 20, .wrDataClient 1 3 20,
  .rdDataPop 0 2 10, .wrDataPop 0 1 10, .rdDataClient 0 1 10, .retPop 0 10,
  .wrNext 1 3 0, .ldTail 1 2, .stTail 1 3, .wrNext 1 2 3, .retPush 1 1,
  .callPush 1 30, .wrDataClient 1 1 30, .wrNext 1 1 0, .ldTail 1 3, .stTail 1 1, .wrNext 1 3 1,
  .retPush 1 1,
  .callPop 0, .rdHead 0 2, .rdNext 0 2 3, .wrHead 0 3, .rdDataPop 0 3 20, .wrDataPop 0 2 20,
  .rdDataClient 0 2 20, .retPop 0 20]

example : ((Spsc.sys 1).run traceSpsc).map (fun s => (s.pushed, s.popped, s.returned, s.q)) =
    some ([10, 20, 30], [10, 20], [10, 20, 30], [3, 1]) := by decide

/-- relaxed MPSC with 2 producer numbers (stubs 1 and 2): thread 1 uses number 0, thread 2
    number 1; the consumer's first trypop finds sub-queue 0 in flight and takes 20 from
    sub-queue 1, a later one wraps around; the stub of sub-queue 1 (node 2) is re-pushed into
    sub-queue 0; the last trypop examines both sub-queues and returns NULL. -/
def traceMpscr : List Mpscr.Ev := [
  .producer 1 0, .sub none (.callPush 1 10), .sub none (.wrDataClient 1 3 10),
  .sub none (.wrNext 1 3 0), .sub (some 0) (.ldTail 1 1), .sub (some 0) (.stTail 1 3),
  .producer 2 1, .sub none (.callPush 2 20), .sub none (.wrDataClient 2 4 20),
  .sub none (.wrNext 2 4 0), .sub (some 1) (.ldTail 2 2), .sub (some 1) (.stTail 2 4),
  .sub none (.wrNext 2 2 4), .sub none (.retPush 2 1),
  .callPop 0, .rdCounter 0 0, .wrCounter 0 1, .sub (some 0) (.rdHead 0 1), .sub none (.rdNext 0 1 0),
  .rdCounter 0 1, .wrCounter 0 2, .sub (some 1) (.rdHead 0 2), .sub none (.rdNext 0 2 4),
  .sub (some 1) (.wrHead 0 4), .sub none (.rdDataPop 0 4 20), .sub none (.wrDataPop 0 2 20),
  .sub none (.rdDataClient 0 2 20), .retPop 0 20,
  .sub none (.wrNext 1 1 3), .sub none (.retPush 1 1),
  .producer 1 0, .sub none (.callPush 1 30), .sub none (.wrDataClient 1 2 30),
  .sub none (.wrNext 1 2 0), .sub (some 0) (.ldTail 1 3), .sub (some 0) (.stTail 1 2),
  .sub none (.wrNext 1 3 2), .sub none (.retPush 1 1),
  .callPop 0, .rdCounter 0 2, .wrCounter 0 3, .sub (some 0) (.rdHead 0 1), .sub none (.rdNext 0 1 3),
  .sub (some 0) (.wrHead 0 3), .sub none (.rdDataPop 0 3 10), .sub none (.wrDataPop 0 1 10),
  .sub none (.rdDataClient 0 1 10), .retPop 0 10,
  .callPop 0, .rdCounter 0 3, .wrCounter 0 4, .sub (some 1) (.rdHead 0 4), .sub none (.rdNext 0 4 0),
  .rdCounter 0 4, .wrCounter 0 5, .sub (some 0) (.rdHead 0 3), .sub none (.rdNext 0 3 2),
  .sub (some 0) (.wrHead 0 2), .sub none (.rdDataPop 0 2 30), .sub none (.wrDataPop 0 3 30),
  .sub none (.rdDataClient 0 3 30), .retPop 0 30,
  .callPop 0, .rdCounter 0 5, .wrCounter 0 6, .sub (some 1) (.rdHead 0 4), .sub none (.rdNext 0 4 0),
  .rdCounter 0 6, .wrCounter 0 7, .sub (some 0) (.rdHead 0 2), .sub none (.rdNext 0 2 0)]

example : ((Mpscr.sys 2).run traceMpscr).map
      (fun s => ((s.sub 0).pushed, (s.sub 0).popped, (s.sub 1).pushed, (s.sub 1).popped, s.seen)) =
    some ([10, 30], [10, 30], [20], [20], [1, 0]) := by decide

/-- … and the NULL return is then accepted (hypothesis of `mpscr_empty_examined_all`) -/
example : ((Mpscr.sys 2).run (traceMpscr ++ [.retPop 0 0])).isSome = true := by decide

end LibfiberVerif.Props.C15
