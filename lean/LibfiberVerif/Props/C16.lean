/-
  Props/C16.lean — property C16 (include/lockfree_ring_buffer.h), theorems only.

  "The fixed-size ring buffer never holds more than its capacity, never overwrites an item
   that has not been popped, and every successfully pushed item is popped exactly once in the
   order the pushes took effect.  trypush/trypop may fail only when the buffer is full/empty
   at some instant during the call or another operation on it is concurrently in progress."

  Every theorem is for every capacity `2^k` (all `k`, in particular all `k ≥ 1` the C code
  accepts), every event list `es` accepted by the model (`run es = some s`): unbounded
  threads, operations, steps, index wrap-around, all interleavings (including a popper
  stalled between its CAS and the slot clear and a pusher stalled between its CAS and the
  slot write: those are just states with `pc = popClaimed / pushClaimed`).

  The blocking wrappers `lockfree_ring_buffer_push` / `_pop` (loops around trypush / trypop)
  and `lockfree_ring_buffer_size` are part of the model: the theorems below are about every
  history mixing direct and blocking calls and size queries.  A blocking call is a wrapper
  frame (`wrap t`) around ordinary attempts, so every state-level theorem (capacity, never
  overwrite, exactly once in claim order, slot shapes) covers the attempts made on behalf of
  blocking calls verbatim; `ret_bpush_value`, `ret_bpop_value`, `retry_justified_*`,
  `size_bounds`, `size_value` are the clauses about the new return events.

  Ghost fields of `St` used in statements: `pushed` (values in the order their `high` CAS
  succeeded), `popped` (values in the order their `low` CAS succeeded), `written i` /
  `cleared i` (slot write / slot clear of claim index `i` happened), `arg t` (argument of
  thread `t`'s current trypush).  The proofs are in `Proof/Ring.lean`.

  Index wrap-around: modulo the CAPACITY here (`high`, `low` unbounded, slot = index mod 2^k);
  modulo 2^64 — the real width of `high` / `low` — in `Props/C16Wrap.lean` (refinement of
  this model by the 64-bit machine `Model/RingW.lean`, every clause restated, finding F-C16).
-/
import LibfiberVerif.Proof.Ring

namespace LibfiberVerif.Ring

/-- Capacity: `low ≤ high ≤ low + size`; `high` / `low` count the successful pushes / pops. -/
theorem bounded (k : Nat) (es : List Ev) (s : St) (h : (sys (2 ^ k)).run es = some s) :
    s.size = 2 ^ k ∧ s.low ≤ s.high ∧ s.high ≤ s.low + s.size ∧
    s.pushed.length = s.high ∧ s.popped.length = s.low := by
  obtain ⟨hi, -⟩ := inv_of_run h
  have d := hi.data
  exact ⟨d.size_eq, d.low_le, by rw [d.size_eq]; exact d.high_le, d.len_pushed, hi.popped_len⟩

/-- A pusher that has claimed index `i` (CAS done, slot not yet written — possibly stalled
    for arbitrarily long) finds its slot NULL in every reachable state. -/
theorem never_overwrite (k : Nat) (es : List Ev) (s : St) (h : (sys (2 ^ k)).run es = some s)
    (t v i : Nat) (hpc : s.pc t = .pushClaimed v i) : s.buf (idx s.size i) = 0 := by
  obtain ⟨hi, -⟩ := inv_of_run h
  rw [hi.data.size_eq, idx_two_pow]
  exact hi.never_overwrite hpc

/-- Event form: every slot write by a pusher that the model accepts hits a NULL slot. -/
theorem push_write_hits_null (k : Nat) (es : List Ev) (s s' : St)
    (h : (sys (2 ^ k)).run es = some s) (t j x v i : Nat)
    (hpc : s.pc t = .pushClaimed v i) (hs : (sys (2 ^ k)).step s (.wrBuf t j x) = some s') :
    s.buf j = 0 ∧ x = v ∧ x ≠ 0 := by
  obtain ⟨hi, -⟩ := inv_of_run h
  obtain ⟨hj, hx⟩ := step_wrBuf_push hs hpc
  have hok := hi.pcok t; rw [hpc] at hok
  refine ⟨by rw [hj]; exact never_overwrite k es s h t v i hpc, hx, ?_⟩
  rw [hx]; exact hi.data.nz _ _ hok.2.2.2.1

/-- Exactly once, in claim order: the popped values are precisely the first `low` pushed
    values, in the order the push CASes took effect; NULL is never pushed. -/
theorem pop_value (k : Nat) (es : List Ev) (s : St) (h : (sys (2 ^ k)).run es = some s) :
    s.popped = s.pushed.take s.low ∧ ∀ v ∈ s.pushed, v ≠ 0 := by
  obtain ⟨hi, -⟩ := inv_of_run h
  exact ⟨hi.data.popped_eq, hi.nz_mem⟩

/-- A popper that has claimed index `l` holds exactly `pushed[l]`, which is `popped[l]`. -/
theorem pop_claim_value (k : Nat) (es : List Ev) (s : St) (h : (sys (2 ^ k)).run es = some s)
    (t l x : Nat) (hpc : s.pc t = .popClaimed l x) :
    l < s.low ∧ s.pushed[l]? = some x ∧ s.popped[l]? = some x ∧ x ≠ 0 := by
  obtain ⟨hi, -⟩ := inv_of_run h
  have hok := hi.pcok t; rw [hpc] at hok
  exact ⟨hok.1, hok.2.2.2, hi.popped_getElem hok.1 hok.2.2.2, hi.data.nz _ _ hok.2.2.2⟩

/-- Occupied region: for `low ≤ i < high` the slot of `i` holds `pushed[i]` once written, and
    until then it is NULL and the pusher that claimed `i` (with value `pushed[i]`) is in flight. -/
theorem slot_shape (k : Nat) (es : List Ev) (s : St) (h : (sys (2 ^ k)).run es = some s)
    (i : Nat) (hlo : s.low ≤ i) (hhi : i < s.high) :
    (s.written i = true → s.pushed[i]? = some (s.buf (idx s.size i))) ∧
    (s.written i = false →
      ∃ t v, s.pc t = .pushClaimed v i ∧ s.pushed[i]? = some v ∧ s.buf (idx s.size i) = 0) := by
  obtain ⟨hi, -⟩ := inv_of_run h
  rw [hi.data.size_eq, idx_two_pow]
  exact hi.slot_shape hlo hhi

/-- Free region: for `high ≤ i < low + size` the slot of `i` is NULL, or still holds the
    previous lap's value `x` while the popper that claimed `i - size` has not cleared it. -/
theorem slot_shape_free (k : Nat) (es : List Ev) (s : St) (h : (sys (2 ^ k)).run es = some s)
    (i : Nat) (hlo : s.high ≤ i) (hhi : i < s.low + s.size) :
    s.buf (idx s.size i) = 0 ∨
    (s.size ≤ i ∧ ∃ t x, s.pc t = .popClaimed (i - s.size) x ∧ s.buf (idx s.size i) = x) := by
  obtain ⟨hi, -⟩ := inv_of_run h
  rw [hi.data.size_eq] at hhi ⊢
  rw [idx_two_pow]
  exact hi.slot_free hlo hhi

/-- A `trypop` returns a non-NULL `x` only after its own CAS claimed an index `l` with
    `pushed[l] = x` (so `x` is `popped[l]`) and it has cleared that slot. -/
theorem ret_pop_value (k : Nat) (es : List Ev) (s s' : St) (h : (sys (2 ^ k)).run es = some s)
    (t x : Nat) (hs : (sys (2 ^ k)).step s (.retPop t x) = some s') (hx : x ≠ 0) :
    ∃ l, l < s.low ∧ s.cleared l = true ∧ s.pushed[l]? = some x ∧ s.popped[l]? = some x := by
  obtain ⟨hi, -⟩ := inv_of_run h
  have hpc := (step_retPop hs).2 hx
  have hok := hi.pcok t; rw [hpc] at hok
  obtain ⟨l, h1, h2, h3⟩ := hok hx
  exact ⟨l, h1, h2, h3, hi.popped_getElem h1 h3⟩

/-- A `trypush` returns 1 only after its argument was appended to `pushed` (at some claim
    index `i`) and written to the slot. -/
theorem ret_push_value (k : Nat) (es : List Ev) (s s' : St) (h : (sys (2 ^ k)).run es = some s)
    (t : Nat) (hs : (sys (2 ^ k)).step s (.retPush t 1) = some s') :
    ∃ i, i < s.high ∧ s.written i = true ∧ s.pushed[i]? = some (s.arg t) := by
  obtain ⟨hi, -⟩ := inv_of_run h
  have hpc := (step_retPush hs).2 (by decide)
  have hok := hi.pcok t; rw [hpc, pvalOf_no (step_retPush_wrap hs)] at hok
  rcases hok with hok | ⟨-, hok⟩
  · cases hok
  · exact hok

/-- The ghost `arg t` used in `ret_push_value` is, by construction, the argument of thread
    `t`'s latest `callPush` event: only that event changes it. -/
theorem arg_tracks_call (k : Nat) (s s' : St) (e : Ev) (t : Nat)
    (hs : (sys (2 ^ k)).step s e = some s') :
    s'.arg t = match (generalizing := false) e with
      | .callPush u v => if t = u then v else s.arg t
      | _ => s.arg t :=
  step_arg hs t

/-- Why a `trypush` can see a non-NULL slot (and then return 0): a popper that has claimed
    an index of that slot has not cleared it yet, or the buffer is full right now, or another
    push has taken effect since this call read `high`. -/
theorem push_sees_nonnull_cause (k : Nat) (es : List Ev) (s : St)
    (h : (sys (2 ^ k)).run es = some s) (t v l i : Nat)
    (hpc : s.pc t = .pushGotHigh v l i) (hb : s.buf (idx s.size i) ≠ 0) :
    (∃ u j x, u ≠ t ∧ idx s.size j = idx s.size i ∧ s.pc u = .popClaimed j x) ∨
    s.high = s.low + s.size ∨ i < s.high := by
  obtain ⟨hi, -⟩ := inv_of_run h
  rw [hi.data.size_eq] at hb ⊢
  simp only [idx_two_pow] at hb ⊢
  exact hi.nonnull_cause hpc hb

/-- Why a `trypop` can see a NULL slot (and then return NULL): the pusher that claimed that
    index has not written it yet, or the buffer is empty right now, or another pop has taken
    effect since this call read `low`. -/
theorem pop_sees_null_cause (k : Nat) (es : List Ev) (s : St)
    (h : (sys (2 ^ k)).run es = some s) (t hh l : Nat)
    (hpc : s.pc t = .popGotLow hh l) (hb : s.buf (idx s.size l) = 0) :
    (∃ u v, u ≠ t ∧ s.pc u = .pushClaimed v l) ∨ s.high = s.low ∨ l < s.low := by
  obtain ⟨hi, -⟩ := inv_of_run h
  rw [hi.data.size_eq, idx_two_pow] at hb
  exact hi.null_cause hpc hb

/-- A `trypush` returns 0 only if at some instant of that call (a prefix `es1` of the trace
    with no `call`/`ret` of `t` after it, `t` inside a push) another thread was inside an
    operation on the buffer, or the buffer was full. -/
theorem failure_justified_push (k : Nat) (es : List Ev) (s s' : St)
    (h : (sys (2 ^ k)).run es = some s) (t : Nat)
    (hs : (sys (2 ^ k)).step s (.retPush t 0) = some s') :
    ∃ es1 es2 s1, es = es1 ++ es2 ∧ (sys (2 ^ k)).run es1 = some s1 ∧
      (∀ e ∈ es2, e.boundaryOf t = false) ∧ (s1.pc t).pushing = true ∧
      ((∃ u, u ≠ t ∧ s1.pc u ≠ .idle) ∨ s1.high = s1.low + s1.size) := by
  obtain ⟨-, hw⟩ := inv_of_run h
  have hwit := fail_push hw hs
  have hp := (step_retPush hs).1
  obtain ⟨es1, es2, s1, q1, q2, q3, -, q5, -, q6⟩ :=
    (witHist_of_run h).2 t (Pc.idle_of_pushing hp) hwit
  rw [hp] at q5
  refine ⟨es1, es2, s1, q1, q2, q6, q5, ?_⟩
  rcases (inv_of_run q2).1.justNow_elim q3 with h1 | ⟨-, h1⟩ | ⟨h1, -⟩
  · exact Or.inl h1
  · exact Or.inr h1
  · exact absurd ⟨q5, h1⟩ (Pc.not_pushing_popping _)

/-- A `trypop` returns NULL only if at some instant of that call another thread was inside
    an operation on the buffer, or the buffer was empty. -/
theorem failure_justified_pop (k : Nat) (es : List Ev) (s s' : St)
    (h : (sys (2 ^ k)).run es = some s) (t : Nat)
    (hs : (sys (2 ^ k)).step s (.retPop t 0) = some s') :
    ∃ es1 es2 s1, es = es1 ++ es2 ∧ (sys (2 ^ k)).run es1 = some s1 ∧
      (∀ e ∈ es2, e.boundaryOf t = false) ∧ (s1.pc t).popping = true ∧
      ((∃ u, u ≠ t ∧ s1.pc u ≠ .idle) ∨ s1.high = s1.low) := by
  obtain ⟨-, hw⟩ := inv_of_run h
  have hwit := fail_pop hw hs
  have hp := (step_retPop hs).1
  obtain ⟨es1, es2, s1, q1, q2, q3, q4, q5, q5', q6⟩ :=
    (witHist_of_run h).2 t (Pc.idle_of_popping hp) hwit
  have hnp : (s.pc t).pushing = false := by
    cases hpp : (s.pc t).pushing with
    | false => rfl
    | true => exact absurd ⟨hpp, hp⟩ (Pc.not_pushing_popping _)
  rw [hnp] at q5
  rcases (inv_of_run q2).1.justNow_elim q3 with h1 | ⟨h1, -⟩ | ⟨h1, h2⟩
  · exact ⟨es1, es2, s1, q1, q2, q6, by rw [q5']; exact hp, Or.inl h1⟩
  · rw [q5] at h1; cases h1
  · exact ⟨es1, es2, s1, q1, q2, q6, h1, Or.inr h2⟩

/-! ### the blocking wrappers `lockfree_ring_buffer_push` / `lockfree_ring_buffer_pop` -/

/-- A blocking push returns only after an attempt of its own succeeded: its argument `v` (held
    by the wrapper frame) was appended to `pushed` at some claim index `i` and written to the
    slot; the value it reports is 1; `v` is not NULL. -/
theorem ret_bpush_value (k : Nat) (es : List Ev) (s s' : St) (h : (sys (2 ^ k)).run es = some s)
    (t r : Nat) (hs : (sys (2 ^ k)).step s (.retBPush t r) = some s') :
    r = 1 ∧ ∃ v i, s.wrap t = .push v ∧ v ≠ 0 ∧ i < s.high ∧ s.written i = true ∧
      s.pushed[i]? = some v := by
  obtain ⟨hi, -⟩ := inv_of_run h
  obtain ⟨hr, hpc, ⟨v, hw⟩, -, -⟩ := step_retBPush hs
  have hok := hi.pcok t; rw [hpc, pvalOf_push hw] at hok
  rcases hok with hok | ⟨-, i, h1, h2, h3⟩
  · cases hok
  · exact ⟨hr, v, i, hw, hi.wrap_push t v hw, h1, h2, h3⟩

/-- A blocking pop returns only a non-NULL value `x` that an attempt of its own obtained: its
    CAS claimed an index `l` with `pushed[l] = x` (so `x` is `popped[l]`: exactly once, in claim
    order) and it has cleared that slot. -/
theorem ret_bpop_value (k : Nat) (es : List Ev) (s s' : St) (h : (sys (2 ^ k)).run es = some s)
    (t x : Nat) (hs : (sys (2 ^ k)).step s (.retBPop t x) = some s') :
    x ≠ 0 ∧ s.wrap t = .pop ∧
    ∃ l, l < s.low ∧ s.cleared l = true ∧ s.pushed[l]? = some x ∧ s.popped[l]? = some x := by
  obtain ⟨hi, -⟩ := inv_of_run h
  obtain ⟨hx, hpc, hw, -, -⟩ := step_retBPop hs
  have hok := hi.pcok t; rw [hpc] at hok
  obtain ⟨l, h1, h2, h3⟩ := hok hx
  exact ⟨hx, hw, l, h1, h2, h3, hi.popped_getElem h1 h3⟩

/-- A blocking call cannot end as a direct call: `retPush` / `retPop` are accepted only when
    the thread has no wrapper frame, i.e. a call that began with `callBPush` / `callBPop` ends
    with `retBPush` / `retBPop` (see `wrap_tracks_call`) and the theorems `ret_push_value`,
    `failure_justified_push`, … are about direct calls. -/
theorem direct_return_not_in_wrapper (k : Nat) (s s' : St) (t r : Nat) :
    ((sys (2 ^ k)).step s (.retPush t r) = some s' → s.wrap t = .no) ∧
    ((sys (2 ^ k)).step s (.retPop t r) = some s' → s.wrap t = .no) :=
  ⟨step_retPush_wrap, step_retPop_wrap⟩

/-- The wrapper frame `wrap t` is, by construction, set by thread `t`'s `callBPush v` /
    `callBPop`, removed by its `retBPush` / `retBPop`, and touched by no other event. -/
theorem wrap_tracks_call (k : Nat) (s s' : St) (e : Ev) (t : Nat)
    (hs : (sys (2 ^ k)).step s e = some s') :
    s'.wrap t = match (generalizing := false) e with
      | .callBPush u v => if t = u then .push v else s.wrap t
      | .callBPop u => if t = u then .pop else s.wrap t
      | .retBPush u _ => if t = u then .no else s.wrap t
      | .retBPop u _ => if t = u then .no else s.wrap t
      | _ => s.wrap t :=
  step_wrap hs t

/-- In every reachable state the wrapper frame fits the program counter (a blocking push is
    inside a push attempt or between two of them, a blocking pop likewise, an idle thread and
    a thread inside `size` have none), and a blocking push holds a non-NULL argument. -/
theorem wrap_shape (k : Nat) (es : List Ev) (s : St) (h : (sys (2 ^ k)).run es = some s) (t : Nat) :
    (∀ v, s.wrap t = .push v → v ≠ 0 ∧ (s.pc t).pushing = true) ∧
    (s.wrap t = .pop → (s.pc t).popping = true) ∧
    ((s.pc t).pushing = false → (s.pc t).popping = false → s.wrap t = .no) := by
  obtain ⟨hi, -⟩ := inv_of_run h
  have hw := hi.wrapok t
  refine ⟨fun v hv => ?_, fun hv => ?_, fun h1 h2 => hw.eq_no h1 h2⟩
  · rw [hv] at hw; exact hw
  · rw [hv] at hw; exact hw

/-- A blocking push goes round its loop (the wrapper re-reads `high` after a failed attempt)
    only if at some instant of that call another thread was inside an operation on the buffer,
    or the buffer was full: the failure justification of `trypush`, for the attempts made on
    behalf of a blocking push. -/
theorem retry_justified_push (k : Nat) (es : List Ev) (s s' : St)
    (h : (sys (2 ^ k)).run es = some s) (t x v : Nat) (hw : s.wrap t = .push v)
    (hs : (sys (2 ^ k)).step s (.wLdHigh t x) = some s') :
    ∃ es1 es2 s1, es = es1 ++ es2 ∧ (sys (2 ^ k)).run es1 = some s1 ∧
      (∀ e ∈ es2, e.boundaryOf t = false) ∧ (s1.pc t).pushing = true ∧
      ((∃ u, u ≠ t ∧ s1.pc u ≠ .idle) ∨ s1.high = s1.low + s1.size) := by
  obtain ⟨-, hW⟩ := inv_of_run h
  have hf := (step_wLdHigh_wrap hs).1 v hw
  have hwit := fail_attempt_push hW hf
  obtain ⟨hp0, hp, -, -, -⟩ := pushFailed_pc hf
  obtain ⟨es1, es2, s1, q1, q2, q3, -, q5, -, q6⟩ := (witHist_of_run h).2 t hp0 hwit
  rw [hp] at q5
  refine ⟨es1, es2, s1, q1, q2, q6, q5, ?_⟩
  rcases (inv_of_run q2).1.justNow_elim q3 with h1 | ⟨-, h1⟩ | ⟨h1, -⟩
  · exact Or.inl h1
  · exact Or.inr h1
  · exact absurd ⟨q5, h1⟩ (Pc.not_pushing_popping _)

/-- A blocking pop goes round its loop only if at some instant of that call another thread
    was inside an operation on the buffer, or the buffer was empty. -/
theorem retry_justified_pop (k : Nat) (es : List Ev) (s s' : St)
    (h : (sys (2 ^ k)).run es = some s) (t x : Nat) (hw : s.wrap t = .pop)
    (hs : (sys (2 ^ k)).step s (.wLdHigh t x) = some s') :
    ∃ es1 es2 s1, es = es1 ++ es2 ∧ (sys (2 ^ k)).run es1 = some s1 ∧
      (∀ e ∈ es2, e.boundaryOf t = false) ∧ (s1.pc t).popping = true ∧
      ((∃ u, u ≠ t ∧ s1.pc u ≠ .idle) ∨ s1.high = s1.low) := by
  obtain ⟨-, hW⟩ := inv_of_run h
  have hf := (step_wLdHigh_wrap hs).2 hw
  have hwit := fail_attempt_pop hW hf
  obtain ⟨hp0, -, hp, -, -⟩ := popFailed_pc hf
  obtain ⟨es1, es2, s1, q1, q2, q3, -, -, q5, q6⟩ := (witHist_of_run h).2 t hp0 hwit
  rw [hp] at q5
  refine ⟨es1, es2, s1, q1, q2, q6, q5, ?_⟩
  rcases (inv_of_run q2).1.justNow_elim q3 with h1 | ⟨h1, -⟩ | ⟨-, h1⟩
  · exact Or.inl h1
  · exact absurd ⟨h1, q5⟩ (Pc.not_pushing_popping _)
  · exact Or.inr h1

/-! ### `lockfree_ring_buffer_size` -/

/-- `size` never reports more than the capacity, never more than the number of items that were
    in the buffer (claimed by a push, not yet claimed by a pop: `high - low`) at the instant it
    read `high`, and never less than that number minus the pops that have taken effect since
    (up to the return).  Trace-level: `es1` is a prefix of the trace that ends inside this
    `size` call (no `call`/`ret` of `t` after it) — the instant `high` was read. -/
theorem size_bounds (k : Nat) (es : List Ev) (s s' : St) (h : (sys (2 ^ k)).run es = some s)
    (t n : Nat) (hs : (sys (2 ^ k)).step s (.retSize t n) = some s') :
    n ≤ 2 ^ k ∧
    ∃ es1 es2 s1, es = es1 ++ es2 ∧ (sys (2 ^ k)).run es1 = some s1 ∧
      (∀ e ∈ es2, e.boundaryOf t = false) ∧
      n ≤ s1.high - s1.low ∧ s1.high - s.low ≤ n := by
  obtain ⟨hi, -⟩ := inv_of_run h
  obtain ⟨hh, l, g, h2, hpc, hn⟩ := step_retSize hs
  have hok := hi.pcok t; rw [hpc] at hok; simp only [PcOk] at hok
  obtain ⟨p1, p2, p3, p4, p5, p6, p7, -⟩ := hok
  obtain ⟨es1, es2, s1, q1, q2, q3, q4, q5⟩ := (sizeHist_of_run h).2 t |>.2 hh l g h2 hpc
  refine ⟨by omega, es1, es2, s1, q1, q2, q5, by omega, by omega⟩

/-- The exact value: with `h`, `l` the values of `high`, `low` that `size` read (in that order),
    `g` the value of `low` when `high` was read and `h2` the value of `high` when `low` was
    read (ghost components of the program counter, see `size_ghost_tracks`), the result is
    `h - l` truncated at 0, which is (items at the first instant) − (pops between the two
    reads) and also (items at the second instant) − (pushes between the two reads), both
    truncated at 0.  In particular it is exact when nothing took effect between the reads. -/
theorem size_value (k : Nat) (es : List Ev) (s s' : St) (h : (sys (2 ^ k)).run es = some s)
    (t n : Nat) (hs : (sys (2 ^ k)).step s (.retSize t n) = some s') :
    ∃ hh l g h2, s.pc t = .sizeGotBoth hh l g h2 ∧ n = hh - l ∧
      g ≤ hh ∧ hh ≤ g + 2 ^ k ∧ l ≤ h2 ∧ h2 ≤ l + 2 ^ k ∧ g ≤ l ∧ hh ≤ h2 ∧ l ≤ s.low ∧ h2 ≤ s.high ∧
      n = (hh - g) - (l - g) ∧ n = (h2 - l) - (h2 - hh) ∧
      (l = g → n = hh - g) ∧ (h2 = hh → n = h2 - l) := by
  obtain ⟨hi, -⟩ := inv_of_run h
  obtain ⟨hh, l, g, h2, hpc, hn⟩ := step_retSize hs
  have hok := hi.pcok t; rw [hpc] at hok; simp only [PcOk] at hok
  obtain ⟨p1, p2, p3, p4, p5, p6, p7, p8⟩ := hok
  exact ⟨hh, l, g, h2, hpc, hn, p3, p4, p6, p8, p1, p5, p2, p7, by omega, by omega,
    fun _ => by omega, fun _ => by omega⟩

/-- The ghost components used by `size_value` are what their names say: `size`'s load of
    `high` stores the current `low` next to the value read, its load of `low` stores the
    current `high`; events of other threads do not touch the program counter. -/
theorem size_ghost_tracks (k : Nat) (s s' : St) (t : Nat) :
    (∀ x, (sys (2 ^ k)).step s (.wLdHigh t x) = some s' → s.pc t = .sizeCalled →
      x = s.high ∧ s'.pc t = .sizeGotHigh s.high s.low) ∧
    (∀ x hh g, (sys (2 ^ k)).step s (.wLdLow t x) = some s' → s.pc t = .sizeGotHigh hh g →
      x = s.low ∧ s'.pc t = .sizeGotBoth hh s.low g s.high) ∧
    (∀ e, (sys (2 ^ k)).step s e = some s' → t ≠ e.tid → s'.pc t = s.pc t) :=
  ⟨fun _ hs hpc => step_size_high hs hpc, fun _ _ _ hs hpc => step_size_low hs hpc,
    fun _ hs ht => step_pc_other hs t ht⟩

/-! ### non-vacuity: a concrete accepted trace

Capacity 2, threads 0 and 1 interleaved, four pushes (one loses its CAS and returns 0), three
successful pops and one pop of the empty buffer (returns NULL); claim index 2 wraps around to
slot 0.  So the hypotheses `run es = some s`, `step s (retPush t 0) = some _`,
`step s (retPop t 0) = some _`, `pc t = pushClaimed ..`, `pc t = popClaimed ..` of the
theorems above are all satisfiable. -/

def demo : List Ev := [
  -- thread 0 pushes 11 into slot 0
  .callPush 0 11, .ldLow 0 0, .ldHigh 0 0, .rdBuf 0 0 0, .casHigh 0 0 0 1 true, .wrBuf 0 0 11,
  .retPush 0 1,
  -- threads 0 and 1 race for claim index 1: thread 1 wins, thread 0's CAS fails
  .callPush 0 12, .callPush 1 13, .ldLow 0 0, .ldLow 1 0, .ldHigh 0 1, .ldHigh 1 1,
  .rdBuf 0 1 0, .rdBuf 1 1 0, .casHigh 1 1 1 2 true, .casHigh 0 2 1 2 false, .retPush 0 0,
  -- thread 0 pops 11 while thread 1 is still stalled between its CAS and its slot write
  .callPop 0, .ldHigh 0 2, .ldLow 0 0, .rdBuf 0 0 11, .casLow 0 0 0 1 true,
  .wrBuf 1 1 13, .retPush 1 1,
  .wrBuf 0 0 0, .retPop 0 11,
  -- thread 1 pushes 14: claim index 2 wraps around to slot 0
  .callPush 1 14, .ldLow 1 1, .ldHigh 1 2, .rdBuf 1 0 0, .casHigh 1 2 2 3 true, .wrBuf 1 0 14,
  .retPush 1 1,
  -- pops of 13 (slot 1) and 14 (slot 0), interleaved
  .callPop 0, .callPop 1, .ldHigh 0 3, .ldLow 0 1, .rdBuf 0 1 13, .casLow 0 1 1 2 true,
  .ldHigh 1 3, .ldLow 1 2, .rdBuf 1 0 14, .casLow 1 2 2 3 true, .wrBuf 1 0 0, .wrBuf 0 1 0,
  .retPop 1 14, .retPop 0 13,
  -- the buffer is empty: trypop returns NULL
  .callPop 0, .ldHigh 0 3, .ldLow 0 3, .rdBuf 0 1 0, .retPop 0 0]

example : ((sys (2 ^ 1)).run demo).isSome = true := by decide

example : ((sys (2 ^ 1)).run demo).map (fun s => (s.pushed, s.popped, s.high, s.low)) =
    some ([11, 13, 14], [11, 13, 14], 3, 3) := by decide

/-- a failed `trypush` (lost CAS) is an accepted step from a reachable state -/
example : (((sys (2 ^ 1)).run (demo.take 17)).bind
    (fun s => (sys (2 ^ 1)).step s (.retPush 0 0))).isSome = true := by decide

/-- a stalled pusher (`pushClaimed`) and a stalled popper (`popClaimed`) coexist -/
example : ((sys (2 ^ 1)).run (demo.take 23)).map (fun s => (s.pc 0, s.pc 1)) =
    some (.popClaimed 0 11, .pushClaimed 13 1) := by decide

/-! ### non-vacuity for the blocking wrappers and `size`: a second concrete accepted trace

Capacity 2, three threads, blocking and direct calls mixed.  Thread 0 pushes 21, 22 (blocking),
then its blocking push of 23 finds the buffer full: the attempt gives up before the CAS, the
wrapper reads `high = 2`, `low = 0` and relaxes.  Thread 2's `size` reads `high = 2`, thread 1's
blocking pop claims 21 between the two reads, `size` reads `low = 1` and reports 1 although 2
items were present when it read `high`.  Thread 0's second attempt fails on the not yet cleared
slot (no relax: `2 - 1 < 2`), the third succeeds.  Thread 1 pops 22, 23 and then spins on the
empty buffer (relax) until thread 0's direct trypush of 24 feeds it.  A last `size` reports 0. -/

def demo2 : List Ev := [
  .callBPush 0 21, .ldLow 0 0, .ldHigh 0 0, .rdBuf 0 0 0, .casHigh 0 0 0 1 true, .wrBuf 0 0 21,
  .retBPush 0 1,
  .callBPush 0 22, .ldLow 0 0, .ldHigh 0 1, .rdBuf 0 1 0, .casHigh 0 1 1 2 true, .wrBuf 0 1 22,
  .retBPush 0 1,
  -- blocking push on the full buffer: attempt fails, wrapper sees full and relaxes   (15 … 21)
  .callBPush 0 23, .ldLow 0 0, .ldHigh 0 2, .rdBuf 0 0 21, .wLdHigh 0 2, .wLdLow 0 0, .relax 0,
  -- size reads high = 2 (2 items present) …                                        (22, 23)
  .callSize 2, .wLdHigh 2 2,
  -- … a blocking pop claims 21 …                                                   (24 … 28)
  .callBPop 1, .ldHigh 1 2, .ldLow 1 0, .rdBuf 1 0 21, .casLow 1 0 0 1 true,
  -- … size reads low = 1 and reports 1                                             (29, 30)
  .wLdLow 2 1, .retSize 2 1,
  -- second attempt of the blocking push: slot 0 not yet cleared, no relax          (31 … 35)
  .ldLow 0 1, .ldHigh 0 2, .rdBuf 0 0 21, .wLdHigh 0 2, .wLdLow 0 1,
  .wrBuf 1 0 0, .retBPop 1 21,
  -- third attempt succeeds (claim index 2 wraps around to slot 0)
  .ldLow 0 1, .ldHigh 0 2, .rdBuf 0 0 0, .casHigh 0 2 2 3 true, .wrBuf 0 0 23, .retBPush 0 1,
  .callBPop 1, .ldHigh 1 3, .ldLow 1 1, .rdBuf 1 1 22, .casLow 1 1 1 2 true, .wrBuf 1 1 0,
  .retBPop 1 22,
  .callBPop 1, .ldHigh 1 3, .ldLow 1 2, .rdBuf 1 0 23, .casLow 1 2 2 3 true, .wrBuf 1 0 0,
  .retBPop 1 23,
  -- blocking pop on the empty buffer: attempt fails, wrapper sees empty and relaxes
  .callBPop 1, .ldHigh 1 3, .ldLow 1 3, .rdBuf 1 1 0, .wLdHigh 1 3, .wLdLow 1 3, .relax 1,
  -- a direct trypush feeds it
  .callPush 0 24, .ldLow 0 3, .ldHigh 0 3, .rdBuf 0 1 0, .casHigh 0 3 3 4 true, .wrBuf 0 1 24,
  .retPush 0 1,
  .ldHigh 1 4, .ldLow 1 3, .rdBuf 1 1 24, .casLow 1 3 3 4 true, .wrBuf 1 1 0, .retBPop 1 24,
  .callSize 2, .wLdHigh 2 4, .wLdLow 2 4, .retSize 2 0]

example : ((sys (2 ^ 1)).run demo2).isSome = true := by decide

example : ((sys (2 ^ 1)).run demo2).map (fun s => (s.pushed, s.popped, s.high, s.low)) =
    some ([21, 22, 23, 24], [21, 22, 23, 24], 4, 4) := by decide

/-- the hypothesis of `retry_justified_push` is satisfiable: the wrapper's re-read of `high`
    after the failed attempt is an accepted step from a reachable state with a push frame -/
example : (((sys (2 ^ 1)).run (demo2.take 18)).bind
    (fun s => (sys (2 ^ 1)).step s (.wLdHigh 0 2))).isSome = true := by decide

/-- a blocking push about to `cpu_relax()`: frame `push 23`, program counter `bpushFull` -/
example : ((sys (2 ^ 1)).run (demo2.take 20)).map (fun s => (s.pc 0, s.wrap 0)) =
    some (.bpushFull 23, .push 23) := by decide

/-- the hypothesis of `size_bounds` / `size_value` is satisfiable, with a pop taking effect
    between the two reads: 2 items when `high` was read (prefix of length 23), 1 reported -/
example : ((sys (2 ^ 1)).run (demo2.take 23)).map (fun s => s.high - s.low) = some 2 := by decide

example : (((sys (2 ^ 1)).run (demo2.take 29)).bind
    (fun s => (sys (2 ^ 1)).step s (.retSize 2 1))).isSome = true := by decide

example : ((sys (2 ^ 1)).run (demo2.take 29)).map (fun s => s.pc 2) =
    some (.sizeGotBoth 2 1 0 2) := by decide

/-- the hypotheses of `ret_bpush_value` / `ret_bpop_value` are satisfiable (third attempt of
    the blocking push; the blocking pop that had to wait) -/
example : (((sys (2 ^ 1)).run (demo2.take 42)).bind
    (fun s => (sys (2 ^ 1)).step s (.retBPush 0 1))).isSome = true := by decide

example : (((sys (2 ^ 1)).run (demo2.take 76)).bind
    (fun s => (sys (2 ^ 1)).step s (.retBPop 1 24))).isSome = true := by decide

/-- a blocking call cannot end as a direct call, and cannot report failure -/
example : (((sys (2 ^ 1)).run (demo2.take 42)).bind
    (fun s => (sys (2 ^ 1)).step s (.retPush 0 1))) = none := by decide

example : (((sys (2 ^ 1)).run (demo2.take 20)).bind
    (fun s => (sys (2 ^ 1)).step s (.retBPush 0 0))).isSome = false := by decide


end LibfiberVerif.Ring
