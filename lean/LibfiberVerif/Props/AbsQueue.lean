/-
  Props/AbsQueue.lean — the abstract waiter queue of the blocking primitives IS mpsc_fifo.h
  (`Mpsc.refines_seq` of DESIGN.md §3 item 5, for Mutex / Cond / RwLock / Barrier).

  The primitives' models (Model/Mutex.lean, Cond.lean, RwLock.lean, Barrier.lean) do not keep
  the cells `head` / `tail` / `next` of their MPSC waiter queue.  They keep the ghost list
  `order` of (node, fiber) in `xchg(&tail)` order, a flag `linked i` per entry, the number `hd`
  of entries popped and the current stub `headNode`, and DERIVE the cell values from these
  (`tailNode`, `headNext`); their `step` rejects every logged access whose value differs from
  the derived one.  Model/AbsQueue.lean isolates exactly that state and these observers
  (`AbsQueue.St`, `AbsQueue.tailNode`, `AbsQueue.headNext`: `mutex_tailNode` … `barrier_headNext`
  below are `rfl` / a map over the entry record) with the operations `enq` / `link` / `popTry` /
  `popCommit`.

  WHAT IS PROVED HERE, for every run of the access-level model of include/mpsc_fifo.h — any
  number of producers, one trypop at a time, unbounded operation counts, every interleaving of
  the individual accesses, nodes handed back by trypop being pushed again:

    * `refines_seq`       in every reachable state the concrete cells are the derived values:
                          `tail = tailNode (abs c)`, `head = (abs c).headNode`,
                          `head->next = headNext (abs c)`, and for EVERY entry not popped yet the
                          `next` cell of the node before it holds the entry's node if the entry
                          is linked and NULL if it is not, and the entry's `data` cell holds the
                          recorded payload (the fiber).
    * `step_simulates`    every access is the corresponding abstract operation on `abs c`
                          (tail xchg ↦ `enq`, the link write ↦ `link i`, the read of
                          `head->next` ↦ `popTry`, `head = x` ↦ `popCommit`; all other accesses
                          leave `abs c` unchanged), AND the values the access observes are the
                          ones the abstract queue predicts (`AbsQueue.step` accepts it).
    * `refines_trace`, `abs_reachable`   the same as trace inclusion / on reachable states.
    * `linked_is_link_written`   `linked i` of `abs c` means what the primitives' ghost flag
                          means: it is false exactly while the producer of entry `i` sits
                          between its tail xchg and its link write.
    * `pop_returns_oldest_linked`, `pop_reads_payload`, `pop_returns_in_order`, `fifo_is_order`,
      `empty_means_unlinked_or_none`, `null_read_justified`   the consequences in the words the
                          primitives use.

  PAYLOADS.  C15's model `Mpsc.step` identifies entries by distinct non-zero payloads (guard
  `v ≠ 0 ∧ v ∉ called` of `call push`); a primitive pushes the SAME fiber again and again.  The
  refinement is therefore proved for `MpscCore` (Model/AbsQueue.lean): `Mpsc.step .mpsc` on the
  same state and events, same accesses in the same order, same client obligations (one trypop
  at a time; a pushed node belongs to its pusher), WITHOUT that guard — payloads are arbitrary
  data carried in `node->data`; the refinement speaks about node identities and positions
  (`order[i]`, `hd`) only — plus three plain recordings (`hist`, `npop`, `stub`).  The recordings
  are needed because the full `order` (popped entries included, which is what the primitives
  keep) is not a function of the current cells: popped nodes are recycled.  `mpsc_step_is_core`
  / `mpsc_run_is_core_run` show every step / run of `Mpsc.sys .mpsc` is a step / run of
  `MpscCore`, so each log C15 validates against `Mpsc.sys .mpsc` is covered
  (`mpsc_refines_seq`), and C15's invariant `Mpsc.Inv` is reused unchanged (it never mentions
  payload distinctness).

  WHAT REMAINS ASSUMED for a primitive (validated per trace, not proved):
    * that the primitive's code performs, on its waiter queue, exactly the accesses of
      mpsc_fifo.h in program order and as a legal client — i.e. that the queue-part of a
      primitive's run, with fibers as threads, is an `MpscCore` run (single consumer at a time:
      only one fiber is inside `wake_from_mpsc_queue` of one queue; a fiber pushes only the node
      it owns).  The primitive's own `step` checks this on every validated log: it accepts the
      queue accesses only in that order, and rejects any access whose value differs from the
      derived one.  Given that, this file shows the derived values are the values of the real
      cells in EVERY interleaving, so the primitives' models never reject a real behaviour of
      mpsc_fifo.h and never accept an impossible one on account of the abstraction.
    * `mutex_*` below tie `Mutex.step`'s five queue steps to the operations of
      `AbsQueue` by unfolding; the analogous facts for Cond / RwLock / Barrier are only stated
      for the observers.
-/
import LibfiberVerif.Proof.AbsQueueRefine
import LibfiberVerif.Model.Mutex
import LibfiberVerif.Model.Cond
import LibfiberVerif.Model.RwLock
import LibfiberVerif.Model.Barrier

namespace LibfiberVerif.Props.AbsQueue

open Mpsc (Ev Pc CPc)
open MpscCore (abs proj sys step coreStep opsFrom)
open LibfiberVerif.AbsQueue (tailNode headNext prevNode Op)

/-! ## `Mpsc.sys .mpsc` (C15) is a restriction of the payload-agnostic core -/

/-- every step of C15's access-level model is a step of `MpscCore` on the same state -/
theorem mpsc_step_is_core {s s' : Mpsc.St} {e : Ev} (h : Mpsc.step .mpsc s e = some s') :
    coreStep s e = some s' :=
  MpscCore.coreStep_of_mpsc h

/-- … and the only steps `MpscCore` adds are `call push` notes whose payload is 0 or was used
    before (no additional access to any cell) -/
theorem core_step_is_mpsc_or_call {s s' : Mpsc.St} {e : Ev} (h : coreStep s e = some s') :
    Mpsc.step .mpsc s e = some s' ∨
      ∃ t v, e = .callPush t v ∧ s.pc t = .idle ∧ (s.cpc = .idle ∨ s.ct ≠ t) ∧
        s' = { s with pc := upd s.pc t (.called v), called := s.called ++ [v] } :=
  MpscCore.coreStep_cases h

/-- every run of `Mpsc.sys .mpsc` is a run of `MpscCore` ending in the same cells, program
    counters and ghost fields (with the recordings `hist`, `npop` added) -/
theorem mpsc_run_is_core_run {stub : Nat} {es : List Ev} {s : Mpsc.St}
    (h : (Mpsc.sys .mpsc stub).run es = some s) : ∃ c, (sys stub).run es = some c ∧ c.m = s :=
  MpscCore.lift_run h

section refinement
variable (stub : Nat) (h0 : stub ≠ 0)
include h0

/-! ## the refinement -/

/-- **refines_seq.**  In every reachable state the concrete cells of the queue are the values
    the primitives derive from `order` / `linked` / `hd` / `headNode`:
    `tail`, `head`, what a consumer reading `head->next` sees (NULL iff no entry follows or the
    next entry is not linked yet), and — for every entry `order[i]` not popped yet — the `next`
    cell of the node before it (`prevNode`: the node of `order[i-1]`, the initial stub for
    `i = 0`; for `i = hd` this is `head`), the entry's `data` cell, and `node ≠ NULL`. -/
theorem refines_seq {es : List Ev} {c : MpscCore.St} (h : (sys stub).run es = some c) :
    c.m.tail = tailNode (abs c) ∧
    c.m.head = (abs c).headNode ∧
    c.m.next c.m.head = headNext (abs c) ∧
    (abs c).headNode = prevNode (abs c) (abs c).hd ∧
    ∀ i n f, (abs c).hd ≤ i → (abs c).order[i]? = some (n, f) →
      c.m.next (prevNode (abs c) i) = (if (abs c).linked i then n else 0) ∧
        c.m.data n = f ∧ n ≠ 0 := by
  have hc := MpscCore.cinv_of_run h0 h
  refine ⟨MpscCore.tail_eq hc, rfl, MpscCore.headNext_eq hc, ?_, fun i n f hi he =>
    MpscCore.interior hc hi he⟩
  exact (MpscCore.prevNode_live (j := 0) hc hc.1.hq).symm

/-- **step_simulates.**  `abs (step c e) = applyO (abs c) (proj c e)`: the tail xchg is `enq`,
    the link write is `link i`, `head = x` is `popCommit`, the read of `head->next` is `popTry`
    (no state change), everything else stutters; and the abstract queue ACCEPTS the operation
    with the observed values (`stepO` = guard `ok` + `apply`): the `old` an xchg returns is
    `tailNode`, the value read from `head->next` is `headNext`, the node stored into `head` is
    the node of `order[hd]`, which is linked, the entry being linked exists and was not linked. -/
theorem step_simulates {es : List Ev} {c c' : MpscCore.St} {e : Ev}
    (h : (sys stub).run es = some c) (hs : step c e = some c') :
    abs c' = LibfiberVerif.AbsQueue.applyO (abs c) (proj c e) ∧
      LibfiberVerif.AbsQueue.stepO (abs c) (proj c e) = some (abs c') := by
  have hsim := MpscCore.step_simulates_core (MpscCore.cinv_of_run h0 h) hs
  exact ⟨MpscCore.stepO_apply hsim, hsim⟩

omit h0 in
/-- which operation each event is (the definition of `proj`, spelled out) -/
theorem proj_table (c : MpscCore.St) :
    (∀ t old new, proj c (.xchgTail t old new) = some (.enq new (c.m.data new) old)) ∧
    (∀ t n x v m p, c.m.pc t = .xchgd v m p →
        proj c (.wrNext t n x) = some (.link (c.npop + c.m.q.idxOf p))) ∧
    (∀ t n x v m, c.m.pc t = .haveNode v m → proj c (.wrNext t n x) = none) ∧
    (∀ t n x, proj c (.rdNext t n x) = some (.popTry x)) ∧
    (∀ t x, proj c (.wrHead t x) = some (.popCommit x (c.m.data x))) ∧
    (∀ t v, proj c (.callPush t v) = none) ∧ (∀ t n v, proj c (.wrDataClient t n v) = none) ∧
    (∀ t r, proj c (.retPush t r) = none) ∧ (∀ t, proj c (.callPop t) = none) ∧
    (∀ t x, proj c (.rdHead t x) = none) ∧ (∀ t n x, proj c (.rdDataPop t n x) = none) ∧
    (∀ t n x, proj c (.wrDataPop t n x) = none) ∧ (∀ t n x, proj c (.rdDataClient t n x) = none) ∧
    (∀ t v, proj c (.retPop t v) = none) := by
  refine ⟨fun _ _ _ => rfl, ?_, ?_, fun _ _ _ => rfl, fun _ _ => rfl, fun _ _ => rfl,
    fun _ _ _ => rfl, fun _ _ => rfl, fun _ => rfl, fun _ _ => rfl, fun _ _ _ => rfl,
    fun _ _ _ => rfl, fun _ _ _ => rfl, fun _ _ => rfl⟩
  · intro t n x v m p hpc; simp [proj, hpc]
  · intro t n x v m hpc; simp [proj, hpc]

/-- trace inclusion: the abstract operations performed along an accepted run (`opsFrom`) are
    an accepted run of the abstract queue, ending in `abs` of the final state -/
theorem refines_trace {es : List Ev} {c : MpscCore.St} (h : (sys stub).run es = some c) :
    (LibfiberVerif.AbsQueue.sys stub).run (opsFrom (MpscCore.init stub) es) = some (abs c) := by
  have := MpscCore.refines_runFrom (MpscCore.cinv_init h0) h
  rw [MpscCore.abs_init] at this
  exact this

/-- every reachable state of the access-level model abstracts to a reachable state of the
    abstract queue -/
theorem abs_reachable {c : MpscCore.St} (h : Sys.Reachable (sys stub) c) :
    Sys.Reachable (LibfiberVerif.AbsQueue.sys stub) (abs c) :=
  MpscCore.abs_reachable h0 h

/-- `linked i` (computed by `abs` from the cells: popped, or the `next` cell before the entry
    is non-NULL) is "the link write of entry `i` has happened": for an entry not popped yet it
    is false exactly while some producer sits at `xchgd _ node prev` — after its tail xchg,
    before its link write.  Popped entries are linked; indices beyond `order` are not. -/
theorem linked_is_link_written {es : List Ev} {c : MpscCore.St}
    (h : (sys stub).run es = some c) :
    (∀ i n f, (abs c).hd ≤ i → (abs c).order[i]? = some (n, f) →
      ((abs c).linked i = false ↔ ∃ t v, c.m.pc t = .xchgd v n (prevNode (abs c) i))) ∧
    (∀ i, i < (abs c).hd → (abs c).linked i = true) ∧
    (∀ i, (abs c).order.length ≤ i → (abs c).linked i = false) := by
  have hc := MpscCore.cinv_of_run h0 h
  refine ⟨fun i n f hi he => MpscCore.linked_false_iff hc hi he,
    (MpscCore.linked_dead_fresh c).1, fun i hi => (MpscCore.linked_dead_fresh c).2 i hi ?_⟩
  have h1 : (abs c).hd = c.npop := rfl
  have h2 : (abs c).order = c.hist := rfl
  have := hc.2.len
  have := hc.1.qpos
  rw [h2] at hi
  omega

/-! ## corollaries in the vocabulary of the primitives -/

/-- **pop_returns_oldest_linked.**  The node a successful trypop moves `head` to is the node of
    `order[hd]` — the OLDEST entry not popped yet —, that entry is linked, the node is what
    `head->next` held, its `data` cell holds that entry's payload (the fiber to wake), and the
    step is `popCommit`: `hd + 1`, `headNode := x`, `order` and `linked` unchanged. -/
theorem pop_returns_oldest_linked {es : List Ev} {c c' : MpscCore.St} {t x : Nat}
    (h : (sys stub).run es = some c) (hs : step c (.wrHead t x) = some c') :
    (abs c).order[(abs c).hd]? = some (x, c.m.data x) ∧ (abs c).linked (abs c).hd = true ∧
      headNext (abs c) = x ∧ x ≠ 0 ∧
      abs c' = { abs c with hd := (abs c).hd + 1, headNode := x } ∧
      LibfiberVerif.AbsQueue.popCommit (abs c) = some (c.m.data x, abs c') := by
  obtain ⟨h1, h2, h3, h4, h5⟩ := MpscCore.pop_commit (MpscCore.cinv_of_run h0 h) hs
  refine ⟨h1, h2, h3, h4, h5, ?_⟩
  rw [h5]
  simp [LibfiberVerif.AbsQueue.popCommit, h1, h2]

/-- the consumer's read of `x->data` after `head = x` returns the payload of the entry just
    popped, `order[hd - 1]`, whose node is `x` = the current stub -/
theorem pop_reads_payload {es : List Ev} {c c' : MpscCore.St} {t n d : Nat}
    (h : (sys stub).run es = some c) (hs : step c (.rdDataPop t n d) = some c') :
    ∃ k, (abs c).hd = k + 1 ∧ (abs c).order[k]? = some (n, d) ∧ (abs c).headNode = n :=
  MpscCore.pop_data (MpscCore.cinv_of_run h0 h) hs

/-- what trypop returns: on the empty path 0; otherwise the `k`-th successful trypop
    (`k` = number of payloads returned before) returns the payload of `order[k]` — by position,
    whether or not payloads repeat -/
theorem pop_returns_in_order {es : List Ev} {c c' : MpscCore.St} {t v : Nat}
    (h : (sys stub).run es = some c) (hs : step c (.retPop t v) = some c') :
    (∃ h0, c.m.cpc = .gotNext h0 0 ∧ v = 0 ∧ c'.m.popped = c.m.popped) ∨
      (∃ n, (abs c).hd = c.m.popped.length + 1 ∧
        (abs c).order[c.m.popped.length]? = some (n, v) ∧ c'.m.popped = c.m.popped ++ [v]) :=
  MpscCore.pop_return (MpscCore.cinv_of_run h0 h) hs

/-- **FIFO = `order`.**  The payloads returned so far, followed by the one a trypop in progress
    has taken out, are the payloads of `order[0 .. hd)` in that order; `order`'s payloads are
    `pushed` (C15's publication order); `hd` counts them. -/
theorem fifo_is_order {es : List Ev} {c : MpscCore.St} (h : (sys stub).run es = some c) :
    c.m.popped ++ Mpsc.inflight c.m = ((abs c).order.take (abs c).hd).map Prod.snd ∧
      (abs c).order.map Prod.snd = c.m.pushed ∧
      (abs c).hd = c.m.popped.length + (Mpsc.inflight c.m).length ∧
      (abs c).hd ≤ (abs c).order.length := by
  have hc := MpscCore.cinv_of_run h0 h
  have hf := MpscCore.fifo hc
  have hle : (abs c).hd ≤ (abs c).order.length := by
    have h1 : (abs c).hd = c.npop := rfl
    have h2 : (abs c).order = c.hist := rfl
    have := hc.2.len; have := hc.1.qpos
    rw [h1, h2]; omega
  refine ⟨hf, hc.2.pushed, ?_, hle⟩
  have := congrArg List.length hf
  simp only [List.length_append, List.length_map, List.length_take] at this
  omega

/-- **empty_means_unlinked_or_none.**  `headNext = 0` (what makes trypop fail and the wake loop
    retry) iff `order[hd]` does not exist or is not linked yet -/
theorem empty_means_unlinked_or_none {es : List Ev} {c : MpscCore.St}
    (h : (sys stub).run es = some c) :
    headNext (abs c) = 0 ↔
      ((abs c).order[(abs c).hd]? = none ∨ (abs c).linked (abs c).hd = false) :=
  MpscCore.headNext_zero_iff (MpscCore.cinv_of_run h0 h)

/-- the consumer's NULL read of `head->next`, as an access: it reads the current stub's cell,
    the abstract queue predicts NULL, and either nothing follows the stub or the next entry's
    producer sits between its tail xchg and its link write to the stub -/
theorem null_read_justified {es : List Ev} {c c' : MpscCore.St} {t n : Nat}
    (h : (sys stub).run es = some c) (hs : step c (.rdNext t n 0) = some c') :
    n = (abs c).headNode ∧ headNext (abs c) = 0 ∧
      ((abs c).order[(abs c).hd]? = none ∨
        ∃ m f p v, (abs c).order[(abs c).hd]? = some (m, f) ∧ (abs c).linked (abs c).hd = false ∧
          c.m.pc p = .xchgd v m (abs c).headNode) :=
  MpscCore.empty_read (MpscCore.cinv_of_run h0 h) hs

/-- `refines_seq` for C15's model itself: a log validated against `Mpsc.sys .mpsc` is covered -/
theorem mpsc_refines_seq {es : List Ev} {s : Mpsc.St}
    (h : (Mpsc.sys .mpsc stub).run es = some s) :
    ∃ c, (sys stub).run es = some c ∧ c.m = s ∧
      s.tail = tailNode (abs c) ∧ s.head = (abs c).headNode ∧
      s.next s.head = headNext (abs c) ∧
      (LibfiberVerif.AbsQueue.sys stub).run (opsFrom (MpscCore.init stub) es) = some (abs c) ∧
      (abs c).order.map Prod.snd = s.pushed ∧
      ∀ i n f, (abs c).hd ≤ i → (abs c).order[i]? = some (n, f) →
        s.next (prevNode (abs c) i) = (if (abs c).linked i then n else 0) ∧ s.data n = f := by
  obtain ⟨c, hr, hm⟩ := MpscCore.lift_run h
  obtain ⟨h1, h2, h3, _, h5⟩ := refines_seq stub h0 hr
  subst hm
  exact ⟨c, hr, rfl, h1, h2, h3, refines_trace stub h0 hr, (fifo_is_order stub h0 hr).2.1,
    fun i n f hi he => ⟨(h5 i n f hi he).1, (h5 i n f hi he).2.1⟩⟩

end refinement

/-! ## the abstract queue by itself -/

/-- shape of the reachable abstract states: `hd ≤ |order|`; indices at and beyond `|order|` are
    not linked (so `enq` need not reset `linked`, exactly as the primitives' xchg step does not);
    popped entries are linked; `headNode` is the node of the entry popped last -/
theorem abs_queue_wf {stub : Nat} {a : LibfiberVerif.AbsQueue.St}
    (h : Sys.Reachable (LibfiberVerif.AbsQueue.sys stub) a) :
    a.hd ≤ a.order.length ∧ (∀ i, a.order.length ≤ i → a.linked i = false) ∧
      (∀ i, i < a.hd → a.linked i = true) ∧ a.headNode = prevNode a a.hd :=
  let w := LibfiberVerif.AbsQueue.wf_of_reachable h
  ⟨w.hdLe, w.fresh, w.dead, w.head⟩

/-! ## the primitives use exactly this state, these observers and these operations -/

/-- the waiter-queue part of the mutex model's state -/
def ofMutex (s : Mutex.St) : LibfiberVerif.AbsQueue.St :=
  { stub := s.stub, order := s.order, linked := s.linked, hd := s.hd, headNode := s.headNode }

theorem mutex_tailNode (s : Mutex.St) : Mutex.tailNode s = tailNode (ofMutex s) := rfl
theorem mutex_headNext (s : Mutex.St) : Mutex.headNext s = headNext (ofMutex s) := rfl

/-- the mutex's tail xchg is `enq`, accepted with the observed old tail -/
theorem mutex_xchg_is_enq {s s' : Mutex.St} {f old new : Nat}
    (h : Mutex.step s (.xchgTail f old new) = some s') :
    LibfiberVerif.AbsQueue.step (ofMutex s) (.enq new f old) = some (ofMutex s') ∧
      ∃ m, s.pc f = .pushCleared m ∧ s'.pc f = .pushXchgd new old s.order.length := by
  simp only [Mutex.step] at h
  split at h
  next m hpc =>
    split at h <;> simp at h
    rename_i hc
    obtain ⟨rfl, rfl⟩ := hc
    subst h
    refine ⟨?_, new, hpc, by simp⟩
    have ht : Mutex.tailNode s = tailNode (ofMutex s) := rfl
    simp only [LibfiberVerif.AbsQueue.step, LibfiberVerif.AbsQueue.ok, ht, beq_self_eq_true,
      if_true]
    rfl
  next => simp at h

/-- the mutex's link write (the `wNext` of a fiber at `pushXchgd m p i`) is `link i` -/
theorem mutex_link_is_link {s s' : Mutex.St} {f n x m p i : Nat}
    (hpc : s.pc f = .pushXchgd m p i) (h : Mutex.step s (.wNext f n x) = some s') :
    ofMutex s' = LibfiberVerif.AbsQueue.link (ofMutex s) i ∧ n = p ∧ x = m := by
  simp only [Mutex.step, hpc] at h
  split at h <;> simp at h
  rename_i hc
  subst h
  exact ⟨rfl, hc.1, hc.2⟩

/-- the mutex's read of `head->next` is `popTry`: it must read `headNext`, state unchanged -/
theorem mutex_rNext_is_popTry {s s' : Mutex.St} {f n x : Nat}
    (h : Mutex.step s (.rNext f n x) = some s') :
    LibfiberVerif.AbsQueue.step (ofMutex s) (.popTry x) = some (ofMutex s') := by
  simp only [Mutex.step] at h
  split at h
  next h0 hpc =>
    split at h
    next hc =>
      have hx : x = headNext (ofMutex s) := hc.2
      split at h <;> simp at h <;> subst h <;>
        simp only [LibfiberVerif.AbsQueue.step, LibfiberVerif.AbsQueue.ok, ← hx,
          beq_self_eq_true, if_true] <;> rfl
    next => simp at h
  next => simp at h

/-- the mutex's `head = x` is the state change of `popCommit` (`hd + 1`, `headNode := x`); the
    fiber it hands the mutex to is the payload of `order[hd]` -/
theorem mutex_wHead_is_popCommit {s s' : Mutex.St} {f n : Nat}
    (h : Mutex.step s (.wHead f n) = some s') :
    ∃ nd g, (ofMutex s).order[(ofMutex s).hd]? = some (nd, g) ∧ s'.owner = some g ∧
      ofMutex s' = LibfiberVerif.AbsQueue.apply (ofMutex s) (.popCommit n g) := by
  simp only [Mutex.step] at h
  split at h
  next h0 x hpc =>
    split at h
    next hc =>
      subst hc
      split at h
      next nd g ho =>
        simp only [Option.some.injEq] at h
        subst h
        exact ⟨nd, g, ho, rfl, rfl⟩
      next => simp at h
    next => simp at h
  next => simp at h

/-- every other step of the mutex leaves its abstract queue alone -/
theorem mutex_other_steps_frame {s s' : Mutex.St} {e : Mutex.Ev}
    (h : Mutex.step s e = some s')
    (h1 : ∀ f o n, e ≠ .xchgTail f o n) (h2 : ∀ f n x, e ≠ .wNext f n x)
    (h3 : ∀ f n, e ≠ .wHead f n) : ofMutex s' = ofMutex s := by
  cases e <;> simp only [Mutex.step] at h <;>
    first
    | exact absurd rfl (h1 _ _ _)
    | exact absurd rfl (h2 _ _ _)
    | exact absurd rfl (h3 _ _)
    | (repeat' split at h) <;> simp at h <;> subst h <;> rfl

/-- the condition variable's waiter queue -/
def ofCond (s : Cond.St) : LibfiberVerif.AbsQueue.St :=
  { stub := s.stub, order := s.order, linked := s.linked, hd := s.hd, headNode := s.headNode }

theorem cond_tailNode (s : Cond.St) : Cond.tailNode s = tailNode (ofCond s) := rfl
theorem cond_headNext (s : Cond.St) : Cond.headNext s = headNext (ofCond s) := rfl

/-- the rwlock's two waiter queues -/
def ofRwLock (s : RwLock.St) (q : Bool) : LibfiberVerif.AbsQueue.St :=
  { stub := s.stub q, order := s.order q, linked := s.linked q, hd := s.hd q,
    headNode := s.headNode q }

theorem rwlock_tailNode (s : RwLock.St) (q : Bool) :
    RwLock.tailNode s q = tailNode (ofRwLock s q) := rfl
theorem rwlock_headNext (s : RwLock.St) (q : Bool) :
    RwLock.headNext s q = headNext (ofRwLock s q) := rfl

/-- a barrier queue (its entries carry the arrival round besides node and fiber) -/
def ofBarrierQ (a : Barrier.Q) : LibfiberVerif.AbsQueue.St :=
  { stub := a.stub, order := a.order.map (fun e => (e.node, e.fiber)), linked := a.linked,
    hd := a.hd, headNode := a.headNode }

theorem barrier_tailNode (a : Barrier.Q) : a.tailNode = tailNode (ofBarrierQ a) := by
  simp only [Barrier.Q.tailNode, tailNode, ofBarrierQ, List.getLast?_map]
  cases a.order.getLast? <;> rfl

theorem barrier_headNext (a : Barrier.Q) : a.headNext = headNext (ofBarrierQ a) := by
  simp only [Barrier.Q.headNext, headNext, ofBarrierQ, List.getElem?_map]
  cases a.order[a.hd]? <;> rfl

/-! ## non-vacuity -/

/-- Two producers (threads 1 and 2, fibers 16 and 17 as payloads), consumer thread 0, nodes
    1 (stub) 2 3.  The OLDER producer exchanges node 2 into `tail` and stalls before its link
    write; the YOUNGER one runs a whole push of node 3 behind it (exchanged and linked); the
    consumer's trypop reads `head->next = NULL` — the window the mutex's wake loop retries on;
    the older producer links; the consumer pops 16; the stub it got back (node 1) is pushed
    again WITH THE SAME PAYLOAD 16 (the same fiber waits again — `Mpsc.step` would reject this
    `call push`); the consumer pops 17. -/
def trace : List Ev := [
  .callPush 1 16, .wrDataClient 1 2 16, .wrNext 1 2 0, .xchgTail 1 1 2,
  .callPush 2 17, .wrDataClient 2 3 17, .wrNext 2 3 0, .xchgTail 2 2 3, .wrNext 2 2 3, .retPush 2 1,
  .callPop 0, .rdHead 0 1, .rdNext 0 1 0, .retPop 0 0,
  .wrNext 1 1 2, .retPush 1 1,
  .callPop 0, .rdHead 0 1, .rdNext 0 1 2, .wrHead 0 2, .rdDataPop 0 2 16, .wrDataPop 0 1 16,
  .rdDataClient 0 1 16, .retPop 0 16,
  .callPush 1 16, .wrDataClient 1 1 16, .wrNext 1 1 0, .xchgTail 1 3 1, .wrNext 1 3 1, .retPush 1 1,
  .callPop 0, .rdHead 0 2, .rdNext 0 2 3, .wrHead 0 3, .rdDataPop 0 3 17, .wrDataPop 0 2 17,
  .rdDataClient 0 2 17, .retPop 0 17]

/-- the window: after 12 events entry 0 = (node 2, fiber 16) is exchanged but NOT linked, entry
    1 = (node 3, fiber 17) is linked, nothing is popped; the abstract queue predicts
    `headNext = 0` although `order[hd]` exists, `tailNode = 3`; and the 13th event, the
    consumer's read `head->next = NULL`, is accepted -/
example :
    ((sys 1).run (trace.take 12)).map (fun c => ((abs c).order, (abs c).hd, (abs c).headNode)) =
      some ([(2, 16), (3, 17)], 0, 1) ∧
    ((sys 1).run (trace.take 12)).map
        (fun c => ((abs c).linked 0, (abs c).linked 1, (abs c).linked 2)) =
      some (false, true, false) ∧
    ((sys 1).run (trace.take 12)).map (fun c => (headNext (abs c), tailNode (abs c), c.m.pc 1)) =
      some (0, 3, .xchgd 16 2 1) ∧
    trace[12]? = some (.rdNext 0 1 0) ∧ ((sys 1).run (trace.take 13)).isSome = true := by
  decide

/-- the whole trace is accepted by `MpscCore`; at the end `order` holds all three entries (the
    recycled node 1 with the repeated payload 16 last), two are popped, the stub is node 3 -/
example :
    ((sys 1).run trace).map (fun c => ((abs c).order, (abs c).hd, (abs c).headNode)) =
      some ([(2, 16), (3, 17), (1, 16)], 2, 3) ∧
    ((sys 1).run trace).map
        (fun c => (headNext (abs c), tailNode (abs c), c.m.popped, c.m.next 3)) =
      some (1, 1, [16, 17], 1) := by
  decide

/-- the abstract operations of that run, and the abstract queue accepts them -/
example : opsFrom (MpscCore.init 1) trace =
    [.enq 2 16 1, .enq 3 17 2, .link 1, .popTry 0, .link 0, .popTry 2, .popCommit 2 16,
     .enq 1 16 3, .link 2, .popTry 3, .popCommit 3 17] ∧
    ((LibfiberVerif.AbsQueue.sys 1).run (opsFrom (MpscCore.init 1) trace)).map
        (fun a => (a.order, a.hd, a.headNode)) = some ([(2, 16), (3, 17), (1, 16)], 2, 3) := by
  decide

/-- C15's model accepts the trace up to the repeated payload and rejects the 25th event
    (`call push 16` again): the payload-agnostic core is really needed for the primitives -/
example : ((Mpsc.sys .mpsc 1).run (trace.take 24)).isSome = true ∧
    ((Mpsc.sys .mpsc 1).run (trace.take 25)).isSome = false ∧
    trace[24]? = some (.callPush 1 16) := by
  decide

/-- the hypotheses of `pop_returns_oldest_linked` / `null_read_justified` are satisfiable: the
    20th event is `head = 2`, the 13th is the NULL read -/
example : trace[19]? = some (.wrHead 0 2) ∧ ((sys 1).run (trace.take 20)).isSome = true ∧
    trace[12]? = some (.rdNext 0 1 0) := by
  decide

end LibfiberVerif.Props.AbsQueue
