/-
  Props/C16Wrap.lean — property C16, the clause "wrap-around of the indices", for the REAL
  width of the indices: `high` and `low` are `uint64_t` and wrap modulo 2^64.  Theorems only;
  the machine is `Model/RingW.lean` (exactly the C arithmetic on 64-bit values, counters
  starting at ANY value `c`), the proofs are in `Proof/RingW.lean`.

  Result.
  * Every comparison of the header that is made on the DIFFERENCE `high - low`
    (trypush `high - low < size`, push `high - low >= size`, size `(int64_t)(high - low)`) and
    both CASes are wrap-safe: `wrap_refines` — the 64-bit machine refines the unbounded model
    `Model/Ring.lean` event by event (same operations, threads, values, CAS outcomes, slot
    indices shifted by the constant `c`), for every starting value `c`, as long as no single
    call is overlapped by 2^63 or more successful pushes or by 2^63 or more successful pops
    (`Fresh`; the binding constraint is the sign bit in `size`, the others would tolerate
    2^64 - 2^k).  All clause theorems of `Props/C16.lean` transfer (`w_bounded` …).
  * The two comparisons made on the VALUES — trypop `high > low` and pop `high <= low` — are
    NOT wrap-safe: once `high` has crossed 2^64 and `low` has not, `high > low` is false with
    items in the buffer.  Finding F-C16: `asIs_pop_fails_after_wrap` (a machine-checked witness
    trace at `c = 2^64 - 1`, identical to the log of the real code:
    `ring 1 'p1,o' 18446744073709551615`), `asIs_failure_unjustified` (the failure is not
    justified: single thread, one item in the buffer throughout) and `asIs_dead_after_wrap`
    (from then on no pop ever succeeds again, whatever any number of threads do: the items are
    lost and the ring fills up and stays full).  For the code as it is the refinement therefore
    carries the extra hypothesis `NoWrap`: `c mod 2^64 + (number of pushes) < 2^64`.
  * With the two comparisons made on the sign of the difference (`fx = true`,
    docs/fix-C16.diff) the refinement holds for every `c` under `Fresh` alone:
    `wrap_refines_fixed`; `fixed_pops_after_wrap` is the run on which the code as it is fails.
-/
import LibfiberVerif.Proof.RingW
import LibfiberVerif.Props.C16

namespace LibfiberVerif.RingW
open Ring (Pc Ev Wrap idx)

/-! ### the refinement -/

/-- **Refinement, general form.**  Capacity `2^k` (`k ≤ 31`, as `lockfree_ring_buffer_create`
    asserts), `high = low = c mod 2^64` initially for ANY `c`.  If every state of the run `es` of
    the 64-bit machine is `Good` — `Fresh`: no call in progress has been overlapped by 2^63 or
    more pushes, nor by 2^63 or more pops; and, only for the code as it is (`fx = false`),
    `NoWrap`: `c mod 2^64 + pushes < 2^64` — then there is a run `esU` of the unbounded model
    with `es = esU.map (wrapEv c (2^k))` (event by event: same operation, thread, values, CAS
    outcome; counter value `x` of the unbounded run appears as `(c + x) mod 2^64`, slot `i` as
    slot `(c + i) mod 2^k`), the final states are related by `Rel c`, and the same holds after
    every prefix. -/
theorem wrap_refines (fx : Bool) (k c : Nat) (hk : k ≤ 31) (es : List Ev) (w : St)
    (h : (sys fx (2 ^ k) c).run es = some w) (hg : AllGood fx k c es) :
    ∃ esU u, es = esU.map (wrapEv c (2 ^ k)) ∧ (Ring.sys (2 ^ k)).run esU = some u ∧ Rel c w u ∧
      ∀ es1 es2 u1, esU = es1 ++ es2 → (Ring.sys (2 ^ k)).run es1 = some u1 →
        ∃ w1, (sys fx (2 ^ k) c).run (es1.map (wrapEv c (2 ^ k))) = some w1 ∧ Rel c w1 u1 :=
  refines hk h hg

/-- With `trypop` / `pop` comparing by the sign of the difference (`fx = true`) the only
    hypothesis is `Fresh`, at every state of the run: wrap-around of the 64-bit counters is
    harmless for every starting value and for runs of any length. -/
theorem wrap_refines_fixed (k c : Nat) (hk : k ≤ 31) (es : List Ev) (w : St)
    (h : (sys true (2 ^ k) c).run es = some w)
    (hf : ∀ es1 es2 w1, es = es1 ++ es2 → (sys true (2 ^ k) c).run es1 = some w1 → Fresh w1) :
    Refined true k c es w :=
  refines hk h (fun es1 es2 w1 h1 h2 => ⟨hf es1 es2 w1 h1 h2, fun hfx => by cases hfx⟩)

/-- Simple sufficient condition: fewer than 2^63 successful pushes (and pops) in the whole run,
    from any starting value — in particular across 2^32 and 2^63, and for `fx = true` across
    2^64; for the code as it is the run must stop before `high` crosses 2^64. -/
theorem wrap_refines_few (fx : Bool) (k c : Nat) (hk : k ≤ 31) (es : List Ev) (w : St)
    (h : (sys fx (2 ^ k) c).run es = some w)
    (h1 : w.pushed.length < H63) (h2 : w.popped.length < H63)
    (h3 : fx = false → c % M + w.pushed.length < M) : Refined fx k c es w :=
  refines hk h (allGood_of_few h h1 h2 h3)

/-- One step, from related states (what the run-level theorems are made of). -/
theorem wrap_step (fx : Bool) (k c : Nat) (hk : k ≤ 31) (w w' : St) (u : Ring.St) (e : Ev)
    (esU : List Ev) (hu : (Ring.sys (2 ^ k)).run esU = some u) (hR : Rel c w u)
    (hF : Fresh w) (hN : NoWrap fx c w) (hs : (sys fx (2 ^ k) c).step w e = some w') :
    ∃ e' u', (Ring.sys (2 ^ k)).step u e' = some u' ∧ wrapEv c (2 ^ k) e' = e ∧ Rel c w' u' :=
  sim_step hk hR (Ring.inv_of_run hu).1 hF hN hs

/-- "Same branch decisions, same returned values": `wrapEv` changes nothing but counter values
    and slot indices (`eraseEv` blanks exactly those). -/
theorem wrap_events_same (c S : Nat) (e : Ev) (t : Nat) :
    eraseEv (wrapEv c S e) = eraseEv e ∧ (wrapEv c S e).tid = e.tid ∧
    (wrapEv c S e).boundaryOf t = e.boundaryOf t :=
  ⟨eraseEv_wrapEv c S e, tid_wrapEv c S e, boundaryOf_wrapEv c S e t⟩

/-- Same slots: the slot the 64-bit machine uses for the wrapped counter value is the slot
    `(c + i) mod 2^k` — the unbounded model's slot `i mod 2^k` shifted by the constant `c`
    (capacity `2^k` divides `2^64`), and the shift is a bijection on slots. -/
theorem wrap_slots (k c i j : Nat) (hk : k ≤ 31) :
    idx (2 ^ k) (wr c i) = (c + i) % 2 ^ k ∧
    ((c + i) % 2 ^ k = (c + j) % 2 ^ k ↔ idx (2 ^ k) i = idx (2 ^ k) j) := by
  refine ⟨idx_wr (by omega) c i, ?_⟩
  rw [Ring.idx_two_pow, Ring.idx_two_pow]; exact add_mod_inj

/-! ### the clauses of C16 for the 64-bit machine

Hypotheses everywhere: a run `es` of the 64-bit machine, capacity `2^k`, `k ≤ 31`, any start
`c`, `AllGood` (see `wrap_refines`). -/

section clauses
variable (fx : Bool) (k c : Nat) (hk : k ≤ 31) (es : List Ev) (w : St)
  (h : (sys fx (2 ^ k) c).run es = some w) (hg : AllGood fx k c es)
include hk h hg

/-- Capacity: the 64-bit difference `high - low` is the number of items (pushes that took
    effect minus pops that took effect), between 0 and the capacity; `high` / `low` are the
    numbers of pushes / pops, plus `c`, modulo 2^64. -/
theorem w_bounded :
    w.size = 2 ^ k ∧ w.high = wr c w.pushed.length ∧ w.low = wr c w.popped.length ∧
    w.popped.length ≤ w.pushed.length ∧ w.pushed.length ≤ w.popped.length + 2 ^ k ∧
    wsub w.high w.low = w.pushed.length - w.popped.length ∧ wsub w.high w.low ≤ 2 ^ k := by
  obtain ⟨esU, u, -, hrunU, hR, -⟩ := refines hk h hg
  obtain ⟨b1, b2, b3, b4, b5⟩ := Ring.bounded k esU u hrunU
  have := pow_le_31 hk
  rw [b1] at b3
  have e : wsub w.high w.low = u.high - u.low := by
    rw [hR.high, hR.low]; exact wsub_wr_le b2 (by omega)
  rw [e, hR.pushed, hR.popped, b4, b5, hR.size, hR.high, hR.low]
  exact ⟨b1, rfl, rfl, b2, b3, rfl, by omega⟩

/-- Never overwrite: a pusher that has claimed the (wrapped) index `i` — CAS done, slot not
    yet written, possibly stalled for arbitrarily long — finds its slot NULL. -/
theorem w_never_overwrite (t v i : Nat) (hpc : w.pc t = .pushClaimed v i) :
    w.buf (idx w.size i) = 0 := by
  obtain ⟨esU, u, -, hrunU, hR, -⟩ := refines hk h hg
  have hsz : u.size = 2 ^ k := (Ring.bounded k esU u hrunU).1
  have hp := hR.pc t
  rw [hpc] at hp
  cases hu : u.pc t <;> rw [hu] at hp <;> simp only [wrapPc] at hp <;> try contradiction
  rename_i v' i'
  cases hp
  have := Ring.never_overwrite k esU u hrunU t v i' hu
  rw [hsz, Ring.idx_two_pow] at this
  rw [hR.size, hsz, idx_wr (by omega), ← this]
  have hb := hR.buf i'; rw [hsz] at hb; exact hb

/-- Exactly once, in the order the pushes took effect: the popped values are precisely the
    first `popped.length` pushed values; NULL is never pushed. -/
theorem w_pop_value : w.popped = w.pushed.take w.popped.length ∧ ∀ v ∈ w.pushed, v ≠ 0 := by
  obtain ⟨esU, u, -, hrunU, hR, -⟩ := refines hk h hg
  obtain ⟨p1, p2⟩ := Ring.pop_value k esU u hrunU
  obtain ⟨-, -, -, -, b5⟩ := Ring.bounded k esU u hrunU
  rw [hR.pushed, hR.popped, b5]; exact ⟨p1, p2⟩

/-- A popper that has claimed the (wrapped) index `l` holds exactly the value pushed by the
    claim with that index. -/
theorem w_pop_claim_value (t l x : Nat) (hpc : w.pc t = .popClaimed l x) :
    ∃ i, l = wr c i ∧ i < w.popped.length ∧ w.pushed[i]? = some x ∧ w.popped[i]? = some x ∧ x ≠ 0 := by
  obtain ⟨esU, u, -, hrunU, hR, -⟩ := refines hk h hg
  have hp := hR.pc t
  rw [hpc] at hp
  cases hu : u.pc t <;> rw [hu] at hp <;> simp only [wrapPc] at hp <;> try contradiction
  rename_i l' x'
  cases hp
  obtain ⟨q1, q2, q3, q4⟩ := Ring.pop_claim_value k esU u hrunU t l' x hu
  obtain ⟨-, -, -, -, b5⟩ := Ring.bounded k esU u hrunU
  exact ⟨l', rfl, by rw [hR.popped, b5]; exact q1, by rw [hR.pushed]; exact q2,
    by rw [hR.popped]; exact q3, q4⟩

/-- A `trypush` returns 0 only if at some instant of that call another thread was inside an
    operation on the buffer, or the buffer was full (by the 64-bit difference). -/
theorem w_failure_justified_push (w' : St) (t : Nat)
    (hs : (sys fx (2 ^ k) c).step w (.retPush t 0) = some w') :
    ∃ es1 es2 w1, es = es1 ++ es2 ∧ (sys fx (2 ^ k) c).run es1 = some w1 ∧
      (∀ e ∈ es2, e.boundaryOf t = false) ∧ (w1.pc t).pushing = true ∧
      ((∃ u, u ≠ t ∧ w1.pc u ≠ .idle) ∨ wsub w1.high w1.low = w1.size) := by
  obtain ⟨esU, u, hmap, hrunU, hR, hpre⟩ := refines hk h hg
  have hgw := hg es [] w (by simp) h
  obtain ⟨e', u', hsU, he, -⟩ := sim_step (fx := fx) hk hR (Ring.inv_of_run hrunU).1 hgw.1 hgw.2 hs
  have : e' = .retPush t 0 := by cases e' <;> simp only [wrapEv] at he <;> cases he <;> rfl
  subst this
  obtain ⟨a, b, s1, q1, q2, q3, q4, q5⟩ := Ring.failure_justified_push k esU u u' hrunU t hsU
  obtain ⟨w1, hw1, hR1⟩ := hpre a b s1 q1 q2
  refine ⟨a.map (wrapEv c (2 ^ k)), b.map (wrapEv c (2 ^ k)), w1,
    by rw [hmap, q1, List.map_append], hw1, ?_, ?_, ?_⟩
  · intro e hem
    obtain ⟨e0, h0, rfl⟩ := List.mem_map.mp hem
    rw [boundaryOf_wrapEv]; exact q3 e0 h0
  · rw [hR1.pc t, wrapPc_pushing]; exact q4
  · rcases q5 with ⟨v, hv, hne⟩ | heq
    · exact Or.inl ⟨v, hv, by rw [hR1.pc v]; exact fun hh => hne (wrapPc_idle.mp hh)⟩
    · right
      have hsz : s1.size = 2 ^ k := (Ring.bounded k a s1 q2).1
      have := pow_le_31 hk
      rw [hR1.high, hR1.low, hR1.size, wsub_wr_le (by omega) (by omega)]; omega

/-- A `trypop` returns NULL only if at some instant of that call another thread was inside an
    operation on the buffer, or the buffer was empty (`high = low`). -/
theorem w_failure_justified_pop (w' : St) (t : Nat)
    (hs : (sys fx (2 ^ k) c).step w (.retPop t 0) = some w') :
    ∃ es1 es2 w1, es = es1 ++ es2 ∧ (sys fx (2 ^ k) c).run es1 = some w1 ∧
      (∀ e ∈ es2, e.boundaryOf t = false) ∧ (w1.pc t).popping = true ∧
      ((∃ u, u ≠ t ∧ w1.pc u ≠ .idle) ∨ w1.high = w1.low) := by
  obtain ⟨esU, u, hmap, hrunU, hR, hpre⟩ := refines hk h hg
  have hgw := hg es [] w (by simp) h
  obtain ⟨e', u', hsU, he, -⟩ := sim_step (fx := fx) hk hR (Ring.inv_of_run hrunU).1 hgw.1 hgw.2 hs
  have : e' = .retPop t 0 := by cases e' <;> simp only [wrapEv] at he <;> cases he <;> rfl
  subst this
  obtain ⟨a, b, s1, q1, q2, q3, q4, q5⟩ := Ring.failure_justified_pop k esU u u' hrunU t hsU
  obtain ⟨w1, hw1, hR1⟩ := hpre a b s1 q1 q2
  refine ⟨a.map (wrapEv c (2 ^ k)), b.map (wrapEv c (2 ^ k)), w1,
    by rw [hmap, q1, List.map_append], hw1, ?_, ?_, ?_⟩
  · intro e hem
    obtain ⟨e0, h0, rfl⟩ := List.mem_map.mp hem
    rw [boundaryOf_wrapEv]; exact q3 e0 h0
  · rw [hR1.pc t, wrapPc_popping]; exact q4
  · rcases q5 with ⟨v, hv, hne⟩ | heq
    · exact Or.inl ⟨v, hv, by rw [hR1.pc v]; exact fun hh => hne (wrapPc_idle.mp hh)⟩
    · exact Or.inr (by rw [hR1.high, hR1.low, heq])

/-- `size` never reports more than the capacity, never more than the number of items present
    at the instant it read `high` (a prefix `es1` of the trace inside this call), and never
    less than that number minus the pops that have taken effect since — although it computes
    on wrapped 64-bit values and decides by the sign bit of their difference. -/
theorem w_size_bounds (w' : St) (t n : Nat)
    (hs : (sys fx (2 ^ k) c).step w (.retSize t n) = some w') :
    n ≤ 2 ^ k ∧
    ∃ es1 es2 w1, es = es1 ++ es2 ∧ (sys fx (2 ^ k) c).run es1 = some w1 ∧
      (∀ e ∈ es2, e.boundaryOf t = false) ∧
      n ≤ w1.pushed.length - w1.popped.length ∧ w1.pushed.length - w.popped.length ≤ n := by
  obtain ⟨esU, u, hmap, hrunU, hR, hpre⟩ := refines hk h hg
  have hgw := hg es [] w (by simp) h
  obtain ⟨e', u', hsU, he, -⟩ := sim_step (fx := fx) hk hR (Ring.inv_of_run hrunU).1 hgw.1 hgw.2 hs
  have : e' = .retSize t n := by cases e' <;> simp only [wrapEv] at he <;> cases he <;> rfl
  subst this
  obtain ⟨hn, a, b, s1, q1, q2, q3, q4, q5⟩ := Ring.size_bounds k esU u u' hrunU t n hsU
  obtain ⟨w1, hw1, hR1⟩ := hpre a b s1 q1 q2
  obtain ⟨-, -, -, b4, b5⟩ := Ring.bounded k a s1 q2
  obtain ⟨-, -, -, -, c5⟩ := Ring.bounded k esU u hrunU
  refine ⟨hn, a.map (wrapEv c (2 ^ k)), b.map (wrapEv c (2 ^ k)), w1,
    by rw [hmap, q1, List.map_append], hw1, ?_, ?_, ?_⟩
  · intro e hem
    obtain ⟨e0, h0, rfl⟩ := List.mem_map.mp hem
    rw [boundaryOf_wrapEv]; exact q3 e0 h0
  · rw [hR1.pushed, hR1.popped, b4, b5]; exact q4
  · rw [hR1.pushed, hR.popped, b4, c5]; exact q5

end clauses

/-! ### finding F-C16: `high > low` (trypop) and `high <= low` (pop) compare VALUES

`c = 2^64 - 1`, capacity 2, a single thread: trypush(1) succeeds and takes `high` from
2^64 - 1 to 0; the trypop that follows reads `high = 0`, `low = 2^64 - 1`, finds the item in
its slot — and returns NULL because `0 > 2^64 - 1` is false.  This is, value for value, the log
of the real code (`harness/ring.c`: `ring 1 'p1,o' 18446744073709551615`). -/

/-- 2^64 - 1 -/
abbrev m1 : Nat := 18446744073709551615

def wrapDemo : List Ev := [
  .callPush 0 1, .ldLow 0 m1, .ldHigh 0 m1, .rdBuf 0 1 0, .casHigh 0 m1 m1 0 true, .wrBuf 0 1 1,
  .retPush 0 1,
  .callPop 0, .ldHigh 0 0, .ldLow 0 m1, .rdBuf 0 1 1]

/-- The code as it is accepts the witness, and then `trypop` returns NULL: the buffer holds the
    item 1 (`pushed = [1]`, `popped = []`, slot 1 = 1), `high = 0`, `low = 2^64 - 1`. -/
theorem asIs_pop_fails_after_wrap :
    ((sys false (2 ^ 1) m1).run wrapDemo).map (fun w => (w.high, w.low, w.buf 1)) =
      some (0, m1, 1) ∧
    ((sys false (2 ^ 1) m1).run wrapDemo).map (fun w => (w.pushed, w.popped)) = some ([1], []) ∧
    (((sys false (2 ^ 1) m1).run wrapDemo).bind
      (fun w => ((sys false (2 ^ 1) m1).step w (.retPop 0 0)).map (fun w' => w'.pc 0))) =
      some .idle := by decide

/-- … and that failure is not justified: only thread 0 ever acts, and at every instant of the
    pop call (every prefix of the trace at which thread 0 is inside a pop) the buffer is not
    empty (`high ≠ low`, one item).  So `w_failure_justified_pop` does NOT hold for the code as
    it is beyond `NoWrap`. -/
theorem asIs_failure_unjustified :
    (∀ e ∈ wrapDemo, e.tid = 0) ∧
    ∀ n, n ≤ wrapDemo.length →
      ((sys false (2 ^ 1) m1).run (wrapDemo.take n)).any (fun w1 =>
        !(w1.pc 0).popping ||
          (decide (w1.high ≠ w1.low) && decide (w1.pushed.length - w1.popped.length = 1))) = true := by
  decide

/-- The unbounded model and the repaired comparison both refuse that return: they pop the item. -/
theorem fixed_pops_after_wrap :
    (((sys true (2 ^ 1) m1).run wrapDemo).bind
      (fun w => (sys true (2 ^ 1) m1).step w (.retPop 0 0))).isSome = false ∧
    ((sys true (2 ^ 1) m1).run (wrapDemo ++ [.casLow 0 m1 m1 0 true, .wrBuf 0 1 0, .retPop 0 1])).map
      (fun w => (w.high, w.low, w.pushed, w.popped)) = some (0, 0, [1], [1]) := by decide

/-- **The ring is dead after the wrap.**  The code as it is, capacity `2^k`, any start `c`:
    from a reachable quiescent state in which `high` has crossed 2^64 (`high < 2^k`) and `low`
    has not (`low ≥ 2^64 - 2^k`), no pop ever takes effect again — `low` and `popped` never
    change, whatever any number of threads do, for ever.  The items in the buffer are lost,
    pushes fill the remaining slots and then fail too, a blocking pop spins for ever. -/
theorem asIs_dead_after_wrap (k c : Nat) (hk : k ≤ 31) (w0 : St)
    (hsz : w0.size = 2 ^ k) (hq : ∀ t, w0.pc t = .idle)
    (hh : w0.high < 2 ^ k) (hl : M - 2 ^ k ≤ w0.low) (hl2 : w0.low < M)
    (es : List Ev) (w : St) (h : (sys false (2 ^ k) c).runFrom w0 es = some w) :
    w.popped = w0.popped ∧ w.low = w0.low := by
  have hD : Dead (2 ^ k) w0 := by
    have := dead_of_quiescent hq (by rw [hsz]; exact hh) (by rw [hsz]; exact hl) hl2
    rw [hsz] at this; exact this
  obtain ⟨-, h1, h2⟩ := dead_runFrom (pow_le_31 hk) hD h
  exact ⟨h2, h1⟩

/-- The witness reaches such a state: after the push of the witness trace (first 7 events) the
    machine is quiescent with `high = 0`, `low = 2^64 - 1` and the item 1 in the buffer; by
    `asIs_dead_after_wrap` that item is never popped. -/
theorem asIs_witness_is_dead (es : List Ev) (w : St) :
    ∃ w0, (sys false (2 ^ 1) m1).run (wrapDemo.take 7) = some w0 ∧ w0.pushed = [1] ∧
      w0.popped = [] ∧
      ((sys false (2 ^ 1) m1).runFrom w0 es = some w → w.popped = [] ∧ w.low = m1) := by
  have hrun : ((sys false (2 ^ 1) m1).run (wrapDemo.take 7)).isSome = true := by decide
  obtain ⟨w0, h0⟩ := Option.isSome_iff_exists.mp hrun
  have hf : ((sys false (2 ^ 1) m1).run (wrapDemo.take 7)).map
      (fun w => (w.size, w.high, w.low)) = some (2, 0, m1) := by decide
  have hf' : ((sys false (2 ^ 1) m1).run (wrapDemo.take 7)).map
      (fun w => (w.pushed, w.popped, w.pc 0)) = some ([1], [], .idle) := by decide
  rw [h0] at hf hf'
  simp only [Option.map_some, Option.some.injEq, Prod.mk.injEq] at hf hf'
  obtain ⟨f1, f2, f3⟩ := hf
  obtain ⟨f4, f5, f6⟩ := hf'
  have hq : ∀ t, w0.pc t = .idle := by
    intro t
    by_cases ht : t = 0
    · subst ht; exact f6
    · exact run_pc_idle (fx := false) (size := 2 ^ 1) (c := m1) (es := wrapDemo.take 7) (t0 := 0)
        (by decide) h0 t ht
  refine ⟨w0, h0, f4, f5, fun h => ?_⟩
  have := asIs_dead_after_wrap 1 m1 (by decide) w0 (by rw [f1]) hq (by rw [f2]; decide)
    (by rw [f3]; decide) (by rw [f3]; decide) es w h
  rw [f5, f3] at this; exact this

/-! ### non-vacuity of the refinement hypotheses

A run of the repaired machine that takes both counters across 2^64 (start 2^64 - 1, capacity
2, two pushes and two pops interleaved over two threads) satisfies `AllGood`, so `wrap_refines`
applies to it; a run of the code as it is that takes the counters across 2^63 does too. -/

/-- 2^63 - 1 -/
abbrev h1 : Nat := 9223372036854775807

def crossDemo (a b d : Nat) : List Ev := [
  .callPush 0 1, .ldLow 0 a, .ldHigh 0 a, .rdBuf 0 1 0, .casHigh 0 a a b true,
  .callPush 1 2, .ldLow 1 a, .ldHigh 1 b, .rdBuf 1 0 0, .casHigh 1 b b d true, .wrBuf 1 0 2,
  .wrBuf 0 1 1, .retPush 0 1, .retPush 1 1,
  .callPop 0, .ldHigh 0 d, .ldLow 0 a, .rdBuf 0 1 1, .casLow 0 a a b true, .wrBuf 0 1 0,
  .retPop 0 1,
  .callSize 1, .wLdHigh 1 d, .wLdLow 1 b, .retSize 1 1,
  .callBPop 1, .ldHigh 1 d, .ldLow 1 b, .rdBuf 1 0 2, .casLow 1 b b d true, .wrBuf 1 0 0,
  .retBPop 1 2]

example : ((sys true (2 ^ 1) m1).run (crossDemo m1 0 1)).map
    (fun w => (w.high, w.low, w.pushed, w.popped)) = some (1, 1, [1, 2], [1, 2]) := by decide

example : ∃ w, (sys true (2 ^ 1) m1).run (crossDemo m1 0 1) = some w ∧
    AllGood true 1 m1 (crossDemo m1 0 1) := by
  have hrun : ((sys true (2 ^ 1) m1).run (crossDemo m1 0 1)).isSome = true := by decide
  obtain ⟨w, h0⟩ := Option.isSome_iff_exists.mp hrun
  have hf : ((sys true (2 ^ 1) m1).run (crossDemo m1 0 1)).map
      (fun w => (w.pushed.length, w.popped.length)) = some (2, 2) := by decide
  rw [h0] at hf
  simp only [Option.map_some, Option.some.injEq, Prod.mk.injEq] at hf
  exact ⟨w, h0, allGood_of_few h0 (by rw [hf.1]; decide) (by rw [hf.2]; decide)
    (fun hfx => by cases hfx)⟩

example : ∃ w, (sys false (2 ^ 1) h1).run (crossDemo h1 (h1 + 1) (h1 + 2)) = some w ∧
    AllGood false 1 h1 (crossDemo h1 (h1 + 1) (h1 + 2)) := by
  have hrun : ((sys false (2 ^ 1) h1).run (crossDemo h1 (h1 + 1) (h1 + 2))).isSome = true := by
    decide
  obtain ⟨w, h0⟩ := Option.isSome_iff_exists.mp hrun
  have hf : ((sys false (2 ^ 1) h1).run (crossDemo h1 (h1 + 1) (h1 + 2))).map
      (fun w => (w.pushed.length, w.popped.length)) = some (2, 2) := by decide
  rw [h0] at hf
  simp only [Option.map_some, Option.some.injEq, Prod.mk.injEq] at hf
  exact ⟨w, h0, allGood_of_few h0 (by rw [hf.1]; decide) (by rw [hf.2]; decide)
    (fun _ => by rw [hf.1]; decide)⟩

/-- the code as it is rejects nothing of the crossing run up to the first pop … and then
    refuses the pop's CAS (it returns NULL instead): the same script on which the real code
    loses its items -/
example : (((sys false (2 ^ 1) m1).run ((crossDemo m1 0 1).take 18)).bind
    (fun w => (sys false (2 ^ 1) m1).step w (.casLow 0 m1 m1 0 true))).isSome = false := by decide

example : (((sys false (2 ^ 1) m1).run ((crossDemo m1 0 1).take 18)).bind
    (fun w => (sys false (2 ^ 1) m1).step w (.retPop 0 0))).isSome = true := by decide

end LibfiberVerif.RingW
