/-
  Props/QueueHist.lean — the API-level container monitor `QueueHist.check` raises NO FALSE ALARM.

  Statement.  Let `ops` be a history of completed operations that is `WellFormed` (call < ret,
  distinct positions, distinct pushed values — guaranteed by the harnesses and by `opsOf`) and
  `Linearizable cfg ops`: some total order of the operations respects real time and is a legal
  sequential history of the container selected by `cfg` (`seqStep` in
  Proof/QueueHistSound.lean; ends with an empty container when `cfg.drained`).  Then
  `check cfg ops = none`.  The theorem is proved for EVERY `cfg` (`check_sound`) and restated
  for each configuration a driver uses.

  Sequential container selected by `cfg` (state = list of present values, oldest first):
    push, ok      needs room (`capacity = 0`: unbounded), appends the value
    push, failed  container full                         | or `failOnlyAlone` and some other
                                                         | operation overlapped the call
    pop → v       v present and takeable: `fifo` oldest value (`perProducerFifo`: oldest value
                  of its producer thread), `lifo` newest value, `bag` any value
    pop → EMPTY   container empty | or `checkEmpty = false` (no promise about EMPTY)
                                  | or `failOnlyAlone` and some other operation overlapped it
                                  | or `emptyOkInFlight` and some push call overlapped it

  No clause of `check` had to be corrected: all of invented / duplicate / phantom / order (FIFO,
  per-producer FIFO, LIFO) / lost / emptyLie / overfull / fullLie are sound for all `cfg`.
-/
import LibfiberVerif.Proof.QueueHistSound

namespace LibfiberVerif.QueueHist

/-! ## Soundness -/

/-- No false alarm, any configuration. -/
theorem check_sound (cfg : Cfg) (ops : List Op) (hW : WellFormed ops)
    (hL : Linearizable cfg ops) : check cfg ops = none := by
  obtain ⟨lin, fin, hlin, hfin⟩ := hL
  exact check_sound_lin cfg ops lin fin hW hlin hfin

/-- The same with the linearization and its final content spelled out. -/
theorem check_sound' (cfg : Cfg) (ops lin fin : List Op) (hW : WellFormed ops)
    (hperm : lin.Perm ops)
    (hrealTime : lin.Pairwise (fun x y => ¬ y.ret < x.call))
    (hlegal : run cfg ops [] lin = some fin)
    (hdrained : cfg.drained = true → fin = []) : check cfg ops = none :=
  check_sound_lin cfg ops lin fin hW ⟨hperm, hrealTime, hlegal⟩ hdrained

/-- Contrapositive: an alarm on a well-formed history PROVES it is not linearizable. -/
theorem not_linearizable_of_alarm (cfg : Cfg) (ops : List Op) (hW : WellFormed ops)
    (h : (check cfg ops).isSome = true) : ¬ Linearizable cfg ops := by
  intro hL
  rw [check_sound cfg ops hW hL] at h
  cases h

/-- End to end for the drivers that use `opsOf` (`queueMonitor`, `Chan.fiberQueueMonitor`, Wsd):
    the history reconstructed from ANY sequence of call/return notes is positionally well-formed
    (`opsOf_wellFormed`), so only "the scripts push distinct values" remains as a hypothesis. -/
theorem monitor_sound (cfg : Cfg) (notes : List Note)
    (hvals : ∀ a ∈ opsOf notes, ∀ b ∈ opsOf notes, a.isPush = true → b.isPush = true →
      a.val = b.val → a = b)
    (hL : Linearizable cfg (opsOf notes)) : check cfg (opsOf notes) = none :=
  check_sound cfg (opsOf notes) (opsOf_wellFormed notes hvals) hL

/-- The real-time clause of `Linearization` in textbook form: `a` returned before `b` was called
    ⇒ `a` is listed before `b` (`Before lin a b := ∃ l1 l2 l3, lin = l1 ++ a :: l2 ++ b :: l3`). -/
theorem realTime_iff (ops lin : List Op) (hW : WellFormed ops) (hperm : lin.Perm ops) :
    lin.Pairwise (fun x y => ¬ y.ret < x.call) ↔
      ∀ a ∈ lin, ∀ b ∈ lin, a.ret < b.call → Before lin a b :=
  realTime_iff_before (hW.perm hperm).2.2.2.1 (hW.perm hperm).1

/-! ### The configurations in use (`grep queueMonitor\|QueueHist.check Model/*.lean`) -/

/-- Model/Lifo.lean (C20) -/
abbrev cfgLifo : Cfg := { disc := .lifo, capacity := 0, drained := true }
/-- Model/Spsc.lean (C15) and Model/Stack.lean (flush items as pops sharing positions) -/
abbrev cfgSpsc : Cfg := { disc := .fifo, capacity := 0, drained := true }
/-- Model/Mpsc.lean (C15) -/
abbrev cfgMpsc : Cfg := { disc := .fifo, capacity := 0, drained := true, failOnlyAlone := true }
/-- Model/Mpscr.lean (C15, relaxed MPSC) -/
abbrev cfgMpscr : Cfg := { disc := .fifo, capacity := 0, drained := true, perProducerFifo := true }
/-- Model/DistFifo.lean -/
abbrev cfgDistFifo : Cfg := { disc := .fifo, capacity := 0, drained := true, checkEmpty := false }
/-- Model/Ring.lean (C16) -/
abbrev cfgRing (size : Nat) : Cfg :=
  { disc := .fifo, capacity := size, drained := true, failOnlyAlone := true }
/-- Model/Wsd.lean (C02 deque) -/
abbrev cfgWsd : Cfg := { disc := .bag, drained := true, checkEmpty := true, failOnlyAlone := true }
/-- Model/Mpmc.lean (C13) -/
abbrev cfgMpmc : Cfg := { disc := .fifo, capacity := 0, drained := true, emptyOkInFlight := true }
/-- Model/Chan.lean (C11) -/
abbrev cfgChan (cap : Nat) (complete : Bool) : Cfg :=
  { disc := .fifo, capacity := cap, drained := complete, checkEmpty := true, emptyOkInFlight := true,
    perProducerFifo := true }
/-- Model/MultiChan.lean (C11) -/
abbrev cfgMultiChan (cap : Nat) (complete : Bool) : Cfg :=
  { disc := .fifo, capacity := cap, drained := complete, checkEmpty := false }

theorem check_sound_lifo (ops : List Op) (hW : WellFormed ops) (hL : Linearizable cfgLifo ops) :
    check { disc := .lifo, capacity := 0, drained := true } ops = none :=
  check_sound cfgLifo ops hW hL

theorem check_sound_spsc (ops : List Op) (hW : WellFormed ops) (hL : Linearizable cfgSpsc ops) :
    check { disc := .fifo, capacity := 0, drained := true } ops = none :=
  check_sound cfgSpsc ops hW hL

theorem check_sound_mpsc (ops : List Op) (hW : WellFormed ops) (hL : Linearizable cfgMpsc ops) :
    check { disc := .fifo, capacity := 0, drained := true, failOnlyAlone := true } ops = none :=
  check_sound cfgMpsc ops hW hL

theorem check_sound_mpscr (ops : List Op) (hW : WellFormed ops) (hL : Linearizable cfgMpscr ops) :
    check { disc := .fifo, capacity := 0, drained := true, perProducerFifo := true } ops = none :=
  check_sound cfgMpscr ops hW hL

theorem check_sound_distFifo (ops : List Op) (hW : WellFormed ops)
    (hL : Linearizable cfgDistFifo ops) :
    check { disc := .fifo, capacity := 0, drained := true, checkEmpty := false } ops = none :=
  check_sound cfgDistFifo ops hW hL

theorem check_sound_ring (size : Nat) (ops : List Op) (hW : WellFormed ops)
    (hL : Linearizable (cfgRing size) ops) :
    check { disc := .fifo, capacity := size, drained := true, failOnlyAlone := true } ops = none :=
  check_sound (cfgRing size) ops hW hL

theorem check_sound_wsd (ops : List Op) (hW : WellFormed ops) (hL : Linearizable cfgWsd ops) :
    check { disc := .bag, drained := true, checkEmpty := true, failOnlyAlone := true } ops = none :=
  check_sound cfgWsd ops hW hL

theorem check_sound_mpmc (ops : List Op) (hW : WellFormed ops) (hL : Linearizable cfgMpmc ops) :
    check { disc := .fifo, capacity := 0, drained := true, emptyOkInFlight := true } ops = none :=
  check_sound cfgMpmc ops hW hL

theorem check_sound_chan (cap : Nat) (complete : Bool) (ops : List Op) (hW : WellFormed ops)
    (hL : Linearizable (cfgChan cap complete) ops) :
    check { disc := .fifo, capacity := cap, drained := complete, checkEmpty := true,
            emptyOkInFlight := true, perProducerFifo := true } ops = none :=
  check_sound (cfgChan cap complete) ops hW hL

theorem check_sound_multiChan (cap : Nat) (complete : Bool) (ops : List Op) (hW : WellFormed ops)
    (hL : Linearizable (cfgMultiChan cap complete) ops) :
    check { disc := .fifo, capacity := cap, drained := complete, checkEmpty := false } ops = none :=
  check_sound (cfgMultiChan cap complete) ops hW hL


/-! ## What the clauses look for (sanity: the list programs say what the comments say) -/

/-- `check` is silent iff every clause is silent (`cInvented` … are the clauses of `check`, named;
    `check_eq : check cfg ops = checkClauses cfg ops` is `rfl`). -/
theorem check_silent_iff (cfg : Cfg) (ops : List Op) :
    check cfg ops = none ↔
      cInvented ops = none ∧ cDuplicate ops = none ∧ cPhantom ops = none ∧ cOrder cfg ops = none ∧
      cLost cfg ops = none ∧ cEmptyLie cfg ops = none ∧
      (0 < cfg.capacity → cOverfull cfg ops = none ∧ cFullLie cfg ops = none) :=
  check_eq_none_iff cfg ops

/-- `invented` is silent iff every successfully popped value has a push call that started before
    the pop returned -/
theorem invented_silent_iff (ops : List Op) :
    cInvented ops = none ↔
      ∀ p ∈ ops, okPop p = true → ∃ q ∈ ops, q.isPush = true ∧ q.val = p.val ∧ q.call < p.ret :=
  cInvented_eq_none_iff ops

/-- `duplicate` fires iff two different successful pop calls returned the same value -/
theorem duplicate_silent_iff (ops : List Op) :
    cDuplicate ops = none ↔
      ∀ p ∈ ops, ∀ q ∈ ops, okPop p = true → okPop q = true → q.val = p.val → q.call = p.call :=
  cDuplicate_eq_none_iff ops

/-- `phantom` is silent iff no successfully popped value is the value of a failed push -/
theorem phantom_silent_iff (ops : List Op) :
    cPhantom ops = none ↔
      ∀ p ∈ ops, ∀ q ∈ ops, okPop p = true → q.isPush = true → q.val = p.val → q.ok = true :=
  cPhantom_eq_none_iff ops

/-- `lost` is silent iff (when the harness drained) every successfully pushed value was popped -/
theorem lost_silent_iff (cfg : Cfg) (ops : List Op) :
    cLost cfg ops = none ↔
      (cfg.drained = true →
        ∀ a ∈ ops, okPush a = true → ∃ p ∈ ops, okPop p = true ∧ p.val = a.val) :=
  cLost_eq_none_iff cfg ops

/-! ## Non-vacuity: linearizable histories WITH overlap on which `check` is silent

`psh t v c r` = thread `t` pushed `v` successfully, called at position `c`, returned at `r`;
`pshF` = push that reported failure; `pp t v c r` = pop that returned `v`; `ppE` = pop that
reported EMPTY. -/

def psh (t v c r : Nat) : Op :=
  { thread := t, isPush := true, val := v, ok := true, call := c, ret := r }
def pshF (t v c r : Nat) : Op :=
  { thread := t, isPush := true, val := v, ok := false, call := c, ret := r }
def pp (t v c r : Nat) : Op :=
  { thread := t, isPush := false, val := v, ok := true, call := c, ret := r }
def ppE (t c r : Nat) : Op :=
  { thread := t, isPush := false, val := 0, ok := false, call := c, ret := r }

/-- the sequential specifications are what they should be -/
example : run cfgSpsc [] [] [psh 1 1 1 2, psh 1 2 3 4, pp 2 1 5 6, pp 2 2 7 8] = some [] := by decide
example : run cfgSpsc [] [] [psh 1 1 1 2, psh 1 2 3 4, pp 2 2 5 6] = none := by decide
example : run cfgLifo [] [] [psh 1 1 1 2, psh 1 2 3 4, pp 2 2 5 6, pp 2 1 7 8] = some [] := by decide
example : run cfgLifo [] [] [psh 1 1 1 2, psh 1 2 3 4, pp 2 1 5 6] = none := by decide
example : run cfgWsd [] [] [psh 1 1 1 2, psh 1 2 3 4, pp 2 1 5 6, pp 2 2 7 8] = some [] := by decide
example : run cfgWsd [] [] [psh 1 1 1 2, psh 1 2 3 4, pp 2 2 5 6, pp 2 1 7 8] = some [] := by decide
example : run cfgSpsc [] [] [ppE 1 1 2] = some [] := by decide
example : run cfgSpsc [] [] [psh 1 1 1 2, ppE 2 3 4] = none := by decide
example : run cfgSpsc [] [] [pp 1 7 1 2] = none := by decide
example : run (cfgRing 1) [] [] [psh 1 1 1 2, psh 1 2 3 4] = none := by decide
example : run (cfgRing 1) [psh 1 1 1 2, pshF 1 2 3 4] [] [psh 1 1 1 2, pshF 1 2 3 4]
    = some [psh 1 1 1 2] := by decide
example : run (cfgRing 2) [psh 1 1 1 2, pshF 1 2 3 4] [] [psh 1 1 1 2, pshF 1 2 3 4] = none := by
  decide

/-- two overlapping pushes, two overlapping pops; the linearization reorders both pairs -/
def hOverlap : List Op := [psh 2 2 2 3, psh 1 1 1 4, pp 1 1 6 7, pp 3 2 5 8]
example : WellFormed hOverlap := by decide
example : Linearization cfgSpsc hOverlap [psh 2 2 2 3, psh 1 1 1 4, pp 3 2 5 8, pp 1 1 6 7] [] := by
  decide
example : check cfgSpsc hOverlap = none := by decide

/-- an EMPTY pop during an in-flight push, STRICT queue: linearized before the push -/
def hEmptyInFlight : List Op := [ppE 2 2 3, psh 1 1 1 4, pp 2 1 5 6]
example : WellFormed hEmptyInFlight := by decide
example : Linearization cfgSpsc hEmptyInFlight [ppE 2 2 3, psh 1 1 1 4, pp 2 1 5 6] [] := by decide
example : check cfgSpsc hEmptyInFlight = none := by decide

/-- a try-push that FAILS although there is room (capacity 2, one item) because a pop overlaps
    it — legal for the ring buffer (`failOnlyAlone`) -/
def hSpuriousFail : List Op :=
  [psh 1 1 1 2, pp 3 1 4 5, pshF 2 2 3 6, psh 2 3 7 8, pp 3 3 9 10]
example : WellFormed hSpuriousFail := by decide
example : Linearization (cfgRing 2) hSpuriousFail
    [psh 1 1 1 2, pshF 2 2 3 6, pp 3 1 4 5, psh 2 3 7 8, pp 3 3 9 10] [] := by decide
example : check (cfgRing 2) hSpuriousFail = none := by decide

/-- a try-pop that reports EMPTY although value 1 is present throughout, because a push overlaps
    it: legal for the MPSC queue (`failOnlyAlone`) and for the optimistic MPMC queue
    (`emptyOkInFlight`) — and NOT for a strict queue (below) -/
def hSpuriousEmpty : List Op := [psh 1 1 1 2, psh 3 2 4 5, ppE 2 3 6, pp 2 1 7 8, pp 2 2 9 10]
example : WellFormed hSpuriousEmpty := by decide
example : Linearization cfgMpsc hSpuriousEmpty
    [psh 1 1 1 2, ppE 2 3 6, psh 3 2 4 5, pp 2 1 7 8, pp 2 2 9 10] [] := by decide
example : check cfgMpsc hSpuriousEmpty = none := by decide
example : Linearization cfgMpmc hSpuriousEmpty
    [psh 1 1 1 2, ppE 2 3 6, psh 3 2 4 5, pp 2 1 7 8, pp 2 2 9 10] [] := by decide
example : check cfgMpmc hSpuriousEmpty = none := by decide
example : check cfgSpsc hSpuriousEmpty = some
    "emptyLie: thread 2 pop at 3 reported empty while a value was present throughout" := by decide
example : ¬ Linearizable cfgSpsc hSpuriousEmpty :=
  not_linearizable_of_alarm _ _ (by decide) (by decide)

/-- stack: pop→1 overlaps push 3 and is linearized before it -/
def hLifo : List Op :=
  [psh 1 1 1 2, psh 1 2 3 4, pp 2 2 5 6, pp 2 1 8 9, psh 1 3 7 10, pp 2 3 11 12]
example : WellFormed hLifo := by decide
example : Linearization cfgLifo hLifo
    [psh 1 1 1 2, psh 1 2 3 4, pp 2 2 5 6, pp 2 1 8 9, psh 1 3 7 10, pp 2 3 11 12] [] := by decide
example : check cfgLifo hLifo = none := by decide

/-- relaxed MPSC: values of DIFFERENT producers may overtake each other -/
def hRelaxed : List Op := [psh 1 1 1 2, psh 2 2 3 4, pp 3 2 5 6, pp 3 1 7 8]
example : WellFormed hRelaxed := by decide
example : Linearization cfgMpscr hRelaxed hRelaxed [] := by decide
example : check cfgMpscr hRelaxed = none := by decide
example : check cfgSpsc hRelaxed = some "order: 1 pushed before 2 but popped after it" := by decide

/-- work-stealing deque as a bag: owner pop and thief steal overlap -/
def hBag : List Op := [psh 1 1 1 2, psh 1 2 3 4, pp 1 2 6 7, pp 2 1 5 8, ppE 2 9 10]
example : WellFormed hBag := by decide
example : Linearization cfgWsd hBag [psh 1 1 1 2, psh 1 2 3 4, pp 2 1 5 8, pp 1 2 6 7, ppE 2 9 10] [] := by
  decide
example : check cfgWsd hBag = none := by decide

/-- bounded channel of capacity 1: the second send blocks until the receive -/
def hChan : List Op := [psh 1 1 1 2, pp 2 1 4 5, psh 1 2 3 6, pp 2 2 7 8]
example : WellFormed hChan := by decide
example : Linearization (cfgChan 1 true) hChan hChan [] := by decide
example : check (cfgChan 1 true) hChan = none := by decide
example : check (cfgMultiChan 1 true) hChan = none := by decide
/-- an incomplete run (`drained = false`) may leave values behind -/
example : Linearization (cfgChan 1 false) [psh 1 1 1 2] [psh 1 1 1 2] [psh 1 1 1 2] := by decide
example : check (cfgChan 1 false) [psh 1 1 1 2] = none := by decide

/-- Model/Stack.lean: a flush `[5,6]` that handed out 2 then 1 (LIFO flush) is encoded as two pops
    sharing the flush's positions; listing them in container order linearizes them -/
def hFlush : List Op := [psh 1 1 1 2, psh 1 2 3 4, pp 2 2 5 6, pp 2 1 5 6, ppE 2 7 8]
example : WellFormed hFlush := by decide
example : Linearization cfgSpsc hFlush [psh 1 1 1 2, psh 1 2 3 4, pp 2 1 5 6, pp 2 2 5 6, ppE 2 7 8] [] := by
  decide
example : check cfgSpsc hFlush = none := by decide

/-- `opsOf` end to end: the notes of `hEmptyInFlight` -/
example : opsOf [.callPush 1 1, .callPop 2, .retPop 2 0, .retPush 1 1, .callPop 2, .retPop 2 1]
    = hEmptyInFlight := by decide

/-! ### Caveat: INCOMPLETE runs are outside the theorem

`opsOf` drops calls that never returned.  If a run stops while a push is still pending and its
value has already been popped, `invented` fires although the (incomplete) history is fine.
tools/check.py runs the monitor only next to the run status, and a run that stopped early has a
failing status (HANG/BUDGET) for every queue part, so this cannot turn a passing input into a
failing one; it can only add a misleading second message to an already failing run. -/
example : check cfgSpsc (opsOf [.callPush 1 5, .callPop 2, .retPop 2 5])
    = some "invented: pop returned 5 which was not pushed before" := by decide

/-! ## Contrast: one non-linearizable history per clause, on which that clause fires -/

def hInvented : List Op := [pp 1 9 1 2, psh 2 9 3 4]
example : check cfgSpsc hInvented = some "invented: pop returned 9 which was not pushed before" := by
  decide
example : ¬ Linearizable cfgSpsc hInvented := not_linearizable_of_alarm _ _ (by decide) (by decide)

def hDuplicate : List Op := [psh 1 1 1 2, pp 2 1 3 4, pp 3 1 5 6]
example : check cfgSpsc hDuplicate = some "duplicate: value 1 popped twice" := by decide
example : ¬ Linearizable cfgSpsc hDuplicate := not_linearizable_of_alarm _ _ (by decide) (by decide)

def hPhantom : List Op := [pshF 1 1 1 2, pp 2 1 3 4]
example : check (cfgRing 2) hPhantom
    = some "phantom: value 1 popped although its push reported failure" := by decide
example : ¬ Linearizable (cfgRing 2) hPhantom := not_linearizable_of_alarm _ _ (by decide) (by decide)

def hOrder : List Op := [psh 1 1 1 2, psh 1 2 3 4, pp 2 2 5 6, pp 2 1 7 8]
example : check cfgSpsc hOrder = some "order: 1 pushed before 2 but popped after it" := by decide
example : ¬ Linearizable cfgSpsc hOrder := not_linearizable_of_alarm _ _ (by decide) (by decide)
/-- same producer: also a per-producer-FIFO violation -/
example : check cfgMpscr hOrder = some "order: 1 pushed before 2 but popped after it" := by decide
example : ¬ Linearizable cfgMpscr hOrder := not_linearizable_of_alarm _ _ (by decide) (by decide)

def hOrderLifo : List Op := [psh 1 1 1 2, psh 1 2 3 4, pp 2 1 5 6, pp 2 2 7 8]
example : check cfgLifo hOrderLifo
    = some "order: 2 was pushed on top of 1 but 1 was popped from under it" := by decide
example : ¬ Linearizable cfgLifo hOrderLifo := not_linearizable_of_alarm _ _ (by decide) (by decide)

def hLost : List Op := [psh 1 1 1 2, psh 1 2 3 4, pp 2 1 5 6]
example : check cfgSpsc hLost = some "lost: value 2 was pushed successfully but never popped" := by
  decide
example : ¬ Linearizable cfgSpsc hLost := not_linearizable_of_alarm _ _ (by decide) (by decide)

def hEmptyLie : List Op := [psh 1 1 1 2, ppE 2 3 4, pp 2 1 5 6]
example : check cfgSpsc hEmptyLie = some
    "emptyLie: thread 2 pop at 3 reported empty while a value was present throughout" := by decide
example : ¬ Linearizable cfgSpsc hEmptyLie := not_linearizable_of_alarm _ _ (by decide) (by decide)
/-- the pop overlapped nothing, so the excuses of the weaker containers do not apply either -/
example : ¬ Linearizable cfgMpsc hEmptyLie := not_linearizable_of_alarm _ _ (by decide) (by decide)
example : ¬ Linearizable cfgMpmc hEmptyLie := not_linearizable_of_alarm _ _ (by decide) (by decide)
example : ¬ Linearizable cfgWsd hEmptyLie := not_linearizable_of_alarm _ _ (by decide) (by decide)

def hOverfull : List Op := [psh 1 1 1 2, psh 1 2 3 4, pp 2 1 5 6, pp 2 2 7 8]
example : check (cfgChan 1 true) hOverfull
    = some "overfull: after push of 2 more than 1 items are present" := by decide
example : ¬ Linearizable (cfgChan 1 true) hOverfull :=
  not_linearizable_of_alarm _ _ (by decide) (by decide)

def hFullLie : List Op := [psh 1 1 1 2, pshF 1 2 3 4, pp 2 1 5 6]
example : check (cfgRing 2) hFullLie
    = some "fullLie: push of 2 failed alone although the buffer had room" := by decide
example : ¬ Linearizable (cfgRing 2) hFullLie := not_linearizable_of_alarm _ _ (by decide) (by decide)

end LibfiberVerif.QueueHist
