/-
  Props/C05.lean — property C05 (src/fiber_cond.c on top of src/fiber_mutex.c and the wait / wake /
  deferred-unlock machinery of src/fiber_manager.c), theorems only.

  "fiber_cond_wait releases the caller's mutex and begins waiting as one atomic step with
   respect to signallers: a signal or broadcast issued after a waiter began waiting is never
   lost - signal releases one waiter if any is waiting, broadcast releases all of them - and
   no waiter is released without a signal or broadcast.  wait returns only with the mutex
   re-acquired."

  Every theorem is for every event list `es` the model accepts (`sys.run es = some s`): any
  number of fibers on any number of kernel threads, any number of operations, every
  interleaving of the individual shared accesses of waiters, signallers and broadcasters —
  including a signal that arrives while the waiter has registered (`fetch_add` done) but is
  not yet enqueued / not yet switched away (the signaller's wake loop finds the queue empty
  and retries), a waiter that is resumed and re-locks M before the deferred unlock of M on its
  behalf has run, and waiters that re-wait immediately.  The model is `Model/Cond.lean`
  (its two mutexes are the C03 model `Mutex.step` itself); proofs are in `Proof/Cond*.lean`.

  Ghost fields used in statements (updated in exactly one place each, never read by a guard):
    `nreg`     #registrations = waiters' `fetch_add(&waiter_count, 1)`
    `nclaim`   Σ claims: +1 per signal whose `fetch_sub` saw ≥ 1, +n per broadcast whose
               exchange returned n
    `miss`     1 between a signal's `fetch_sub` that saw 0 and its `fetch_add` back, else 0
    `hd`       #pops of `cond->waiters` (= #waiters released); `order` = (node, fiber) in
               `xchg(&tail)` order, so the released fibers are `(order.take hd).map (·.2)`
    per fiber `gh f`: `claimed`/`popped` (amount claimed / pops done in f's current signal or
               broadcast call), `nC`/`nE`/`nL` (#registrations / #enqueues / #links of f as a
               waiter), `nU` (#releases of M on f's behalf), `nP`/`nR` (#times f was popped /
               #returns of f from wait).
  `A f = 2f` names fiber f inside the mutex sub-models, `D w = 2w+1` the deferred-unlock agent
  of waiter w.
-/
import LibfiberVerif.Proof.CondTrace

namespace LibfiberVerif.Cond

/-- the fibers released so far, in release order -/
def released (s : St) : List Nat := (s.order.take s.hd).map (·.2)

/-! ### the waiter count -/

/-- `count_eq`: whenever the internal mutex I is free, `waiter_count` is exactly
    #registered − #claimed (the number of registered, unclaimed waiters). -/
theorem count_eq (es : List Ev) (s : St) (h : sys.run es = some s) (hfree : s.i.owner = none) :
    s.count = (s.nreg : Int) - s.nclaim := by
  have hi := inv_of_run h
  have hm : s.miss = 0 := by
    apply Classical.byContradiction; intro hne
    obtain ⟨f, hf⟩ := hi.missEx hne
    have h1 := hi.mi.holder (A f) (by rw [hi.holdI f (by rw [hf]; rfl)]; rfl)
    rw [hfree] at h1; cases h1
  have := hi.cnt; omega

/-- in every state: the count is off by at most the one signal that found nobody and has not
    yet put its decrement back (it holds I meanwhile). -/
theorem count_balance (es : List Ev) (s : St) (h : sys.run es = some s) :
    s.count + s.miss = (s.nreg : Int) - s.nclaim ∧ (s.miss = 0 ∨ s.miss = 1) ∧
      (s.miss = 1 → ∃ f, s.pc f = .sigMiss ∧ s.i.owner = some (A f)) := by
  have hi := inv_of_run h
  refine ⟨hi.cnt, ?_, ?_⟩
  · by_cases hm : s.miss = 0
    · exact Or.inl hm
    · obtain ⟨f, hf⟩ := hi.missEx hm; exact Or.inr (hi.missPc f hf)
  · intro hm
    obtain ⟨f, hf⟩ := hi.missEx (by omega)
    exact ⟨f, hf, hi.mi.holder (A f) (by rw [hi.holdI f (by rw [hf]; rfl)]; rfl)⟩

/-- claims never exceed registrations: no signal or broadcast ever claims a waiter that did not
    register -/
theorem claims_le_registrations (es : List Ev) (s : St) (h : sys.run es = some s) :
    s.nclaim ≤ s.nreg := by
  obtain ⟨hi, h2⟩ := inv2_of_run h
  have := hi.cnt; have := h2.cnt0; omega

/-! ### no spurious release -/

/-- `no_spurious`: never more waiters released than claimed by signals / broadcasts; every
    released fiber had registered (and every enqueued one); no fiber returns from wait more
    often than it was released. -/
theorem no_spurious (es : List Ev) (s : St) (h : sys.run es = some s) :
    (released s).length + s.owed = s.nclaim ∧ (∀ g ∈ released s, 1 ≤ (s.gh g).nC) ∧
      (∀ n g, (n, g) ∈ s.order → 1 ≤ (s.gh g).nC) ∧ ∀ w, (s.gh w).nR ≤ (s.gh w).nP := by
  have hi := inv_of_run h
  refine ⟨?_, ?_, hi.ordReg, ?_⟩
  · simp only [released, List.length_map, List.length_take]
    have := hi.pops; have := hi.hdLe; omega
  · intro g hg
    simp only [released, List.mem_map] at hg
    obtain ⟨⟨n, g'⟩, hm, rfl⟩ := hg
    exact hi.ordReg n g' (List.mem_of_mem_take hm)
  · intro w
    have := hi.loc w; simp only [Loc] at this
    have h3 := this.2.2.1
    split at h3 <;> omega

/-- a fiber returns from wait only after a signaller popped it (and then once per pop) -/
theorem wait_returns_after_release (es : List Ev) (s s' : St) (f : Nat)
    (h : sys.run es = some s) (hs : step s (.retWait f) = some s') :
    (s.gh f).nP = (s.gh f).nR + 1 ∧ (s'.gh f).nR = (s.gh f).nP := by
  have hi := inv_of_run h
  obtain ⟨hpc, -, -, -, hr⟩ := retWait_effect hs
  have := hi.loc f; rw [hpc] at this; simp only [Loc] at this
  exact ⟨this.2.2.1, by rw [hr, this.2.2.1]⟩

/-- every pop of `cond->waiters` is covered by a claim: the popper is inside its wake loop with
    at least one pop still owed, and the fiber popped is a linked, parked waiter that registered -/
theorem pop_is_claimed (es : List Ev) (s s' : St) (f x : Nat)
    (h : sys.run es = some s) (hs : step s (.wHead .C f x) = some s') :
    ∃ bc k hh n g, s.pc f = .wake bc k (.gotNext hh x) ∧ 1 ≤ k ∧ s.owed = k ∧
      (s.gh f).popped + k = (s.gh f).claimed ∧
      s.order[s.hd]? = some (n, g) ∧ s.pc g = .parked ∧ 1 ≤ (s.gh g).nC ∧ s'.pc g = .woken := by
  have hi := inv_of_run h
  obtain ⟨bc, k, hh, n, g, hpc, hord, hg, -, hw, -, -, -⟩ := popC_effect hs
  obtain ⟨ho, hk⟩ := hi.owedPc f bc k _ hpc
  have hl := hi.loc f; rw [hpc] at hl; simp only [Loc] at hl
  exact ⟨bc, k, hh, n, g, hpc, hk rfl, ho, hl.1.1, hord, hg,
    hi.ordReg n g (List.mem_of_getElem? hord), hw⟩

/-! ### signal releases one, broadcast releases all -/

/-- what a signal claims: 1 if its `fetch_sub` saw at least one registered, unclaimed waiter,
    else nothing (and then it will add the 1 back) -/
theorem signal_claims (es : List Ev) (s s' : St) (f : Nat) (old : Int)
    (h : sys.run es = some s) (hs : step s (.fsubCount f old) = some s') :
    old = s.count ∧ (s'.gh f).claimed = (if old ≥ 1 then 1 else 0) ∧ (s'.gh f).popped = 0 ∧
      s'.pc f = (if old ≥ 1 then .wake false 1 .top else .sigMiss) := by
  have hi := inv_of_run h
  obtain ⟨hpc, ho, hc, hp, hpc'⟩ := fsubCount_effect hs
  have hl := hi.loc f; rw [hpc] at hl; simp only [Loc] at hl
  refine ⟨ho, ?_, by rw [hp]; exact hl.1.2, hpc'⟩
  rw [hc]; split
  · rfl
  · exact hl.1.1

/-- `signal_releases_one`: a signal does not return before it has popped exactly what it
    claimed — one waiter if its `fetch_sub` saw ≥ 1, none otherwise; while it is in its wake
    loop the pops done plus the pops still to do equal the claim. -/
theorem signal_releases_one (es : List Ev) (s : St) (f : Nat) (h : sys.run es = some s) :
    (∀ s', step s (.retSignal f) = some s' →
        (s.gh f).popped = (s.gh f).claimed ∧ (s.gh f).claimed ≤ 1) ∧
    (∀ k w, s.pc f = .wake false k w → (s.gh f).popped + k = (s.gh f).claimed ∧ (s.gh f).claimed = 1) ∧
    (s.pc f = .sigMiss → (s.gh f).claimed = 0 ∧ (s.gh f).popped = 0) := by
  have hi := inv_of_run h
  refine ⟨?_, ?_, ?_⟩
  · intro s' hs
    have hpc := retSig_pre (by simpa only [step] using hs)
    have hl := hi.loc f; rw [hpc] at hl; simp only [Loc] at hl
    exact ⟨hl.1.1, hl.1.2 trivial⟩
  · intro k w hpc
    have hl := hi.loc f; rw [hpc] at hl; simp only [Loc] at hl
    exact ⟨hl.1.1, hl.1.2 trivial⟩
  · intro hpc
    have hl := hi.loc f; rw [hpc] at hl; simp only [Loc] at hl
    exact hl.1

/-- what a broadcast claims: exactly the `n` its exchange returned (= all registered, unclaimed
    waiters, by `count_eq`: I is held, nobody else is between `fetch_sub` and add-back) -/
theorem broadcast_claims (es : List Ev) (s s' : St) (f : Nat) (old : Int)
    (h : sys.run es = some s) (hs : step s (.xchgCount f old) = some s') :
    old = s.count ∧ old = (s.nreg : Int) - s.nclaim ∧ (s'.gh f).claimed = old.toNat ∧
      (s'.gh f).popped = 0 ∧ s'.count = 0 := by
  have hi := inv_of_run h
  obtain ⟨hpc, ho, hnn, hc, hp, hpc'⟩ := xchgCount_effect hs
  have hl := hi.loc f; rw [hpc] at hl; simp only [Loc] at hl
  -- at the instant of the exchange the caller holds I, so no signal is between fetch_sub and add-back
  have hmiss : s.miss = 0 := by
    simp only [step] at hs
    split at hs
    · simp only [Option.bind_eq_some_iff] at hs
      obtain ⟨s1, h1, -⟩ := hs
      obtain ⟨x, hx, -⟩ := stepI_shape h1
      exact (hi.granted hpc hx).2.2.2.1
    · cases hs
  have hcnt := hi.cnt
  refine ⟨ho, by omega, hc, by rw [hp]; exact hl.1.2, ?_⟩
  simp only [step] at hs
  split at hs
  · simp only [Option.bind_eq_some_iff] at hs
    obtain ⟨s1, h1, hs⟩ := hs
    obtain ⟨x, hx, rfl⟩ := stepI_shape h1
    simp only [] at hs
    split at hs
    · obtain ⟨y, hy, rfl⟩ := toUnlockI_shape hs; rfl
    · simp at hs; subst hs; rfl
  · cases hs

/-- `broadcast_releases_all`: a broadcast does not return before it has popped exactly the `n`
    waiters counted at its exchange. -/
theorem broadcast_releases_all (es : List Ev) (s : St) (f : Nat) (h : sys.run es = some s) :
    (∀ s', step s (.retBroadcast f) = some s' → (s.gh f).popped = (s.gh f).claimed) ∧
    (∀ k w, s.pc f = .wake true k w → (s.gh f).popped + k = (s.gh f).claimed) := by
  have hi := inv_of_run h
  refine ⟨?_, ?_⟩
  · intro s' hs
    have hpc := retSig_pre (by simpa only [step] using hs)
    have hl := hi.loc f; rw [hpc] at hl; simp only [Loc] at hl
    exact hl.1.1
  · intro k w hpc
    have hl := hi.loc f; rw [hpc] at hl; simp only [Loc] at hl
    exact hl.1.1

/-- `signal_releases_one`, over event lists: in any accepted trace, between a signal's
    `fetch_sub` on the waiter count (which read `old`) and that call's return, the signaller pops
    `cond->waiters` exactly once if `old ≥ 1` and not at all otherwise.  (`mid` is the rest of
    that call: it contains no further call / claim event of `f`.) -/
theorem signal_pops_exactly_claim (es mid : List Ev) (f : Nat) (old : Int) (s' : St)
    (h : sys.run (es ++ [.fsubCount f old] ++ mid ++ [.retSignal f]) = some s')
    (hmid : ∀ e ∈ mid, isSigStart f e = false) :
    popsBy f mid = if old ≥ 1 then 1 else 0 := by
  obtain ⟨s2, h2, hret⟩ := run_append h
  obtain ⟨s1, h1, hmidrun⟩ := run_append h2
  obtain ⟨s0, h0, hclaim⟩ := run_append h1
  have hc := signal_claims es s0 s1 f old h0 (runFrom_single hclaim)
  have hg := runFrom_sig f mid s1 s2 hmidrun hmid
  have hr := (signal_releases_one _ s2 f h2).1 s' (runFrom_single hret)
  rw [hc.2.2.1] at hg
  have : popsBy f mid = (s1.gh f).claimed := by omega
  rw [this, hc.2.1]

/-- `broadcast_releases_all`, over event lists: between a broadcast's exchange on the waiter
    count (which returned `n = old`) and that call's return, the broadcaster pops
    `cond->waiters` exactly `n` times. -/
theorem broadcast_pops_exactly_count (es mid : List Ev) (f : Nat) (old : Int) (s' : St)
    (h : sys.run (es ++ [.xchgCount f old] ++ mid ++ [.retBroadcast f]) = some s')
    (hmid : ∀ e ∈ mid, isSigStart f e = false) :
    (popsBy f mid : Int) = old := by
  obtain ⟨s2, h2, hret⟩ := run_append h
  obtain ⟨s1, h1, hmidrun⟩ := run_append h2
  obtain ⟨s0, h0, hclaim⟩ := run_append h1
  have hs := runFrom_single hclaim
  have hc := broadcast_claims es s0 s1 f old h0 hs
  have hnn := (xchgCount_effect hs).2.2.1
  have hg := runFrom_sig f mid s1 s2 hmidrun hmid
  have hr := (broadcast_releases_all _ s2 f h2).1 s' (runFrom_single hret)
  rw [hc.2.2.2.1] at hg
  have : popsBy f mid = old.toNat := by omega
  rw [this]; exact Int.toNat_of_nonneg hnn

/-! ### atomic unlock-and-wait -/

/-- `unlock_after_register`: for every waiter w, the k-th release of M on w's behalf comes after
    w's k-th link (its last step before switching away), which comes after its k-th enqueue
    (`xchg(&tail)`), which comes after its k-th registration (`fetch_add`).  Hence a signaller
    that synchronises with w through M finds w counted and enqueued. -/
theorem unlock_after_register (es : List Ev) (s : St) (w : Nat) (h : sys.run es = some s) :
    (s.gh w).nU ≤ (s.gh w).nL ∧ (s.gh w).nL ≤ (s.gh w).nE ∧ (s.gh w).nE ≤ (s.gh w).nC ∧
      (s.gh w).nC ≤ (s.gh w).nL + 1 := by
  have hi := inv_of_run h
  have hl := hi.loc w; simp only [Loc] at hl
  obtain ⟨-, h2, -, h4⟩ := hl
  split at h2 <;> omega

/-- the atomic step: from `call wait` until its link (its last access before switching away) the
    waiter w itself owns M; from the link until the deferred unlock its agent `D w` owns M
    (`nU w < nL w` = a link of w whose release is outstanding; at most one is).  So M is owned
    on w's behalf without interruption from before w is counted until after w is enqueued, and
    no fiber that synchronises through M — in particular no signaller holding M — can run in
    between: whoever else is between acquire and release of M would be a second owner. -/
theorem atomic_unlock_and_wait (es : List Ev) (s : St) (w : Nat) (h : sys.run es = some s) :
    (inWait (s.pc w) = true → s.m.owner = some (A w) ∧ s.m.pc (A w) = .held) ∧
    ((s.gh w).nU < (s.gh w).nL → s.m.owner = some (D w) ∧ s.m.pc (D w) = .held) ∧
    (s.gh w).nL ≤ (s.gh w).nU + 1 ∧
    (∀ f, f ≠ w → isHolder (s.m.pc (A f)) = true →
        inWait (s.pc w) = false ∧ (s.gh w).nU = (s.gh w).nL) := by
  obtain ⟨hi, h2⟩ := inv2_of_run h
  have hU : (s.gh w).nU ≤ (s.gh w).nL := by
    have := hi.loc w; simp only [Loc] at this; exact this.2.2.2
  refine ⟨?_, ?_, h2.oneLink w, ?_⟩
  · intro hw
    have := h2.waitHolds w hw
    exact ⟨hi.mim.holder (A w) (by rw [this]; rfl), this⟩
  · intro hlt
    have := h2.agentHolds w hlt
    exact ⟨hi.mim.holder (D w) (by rw [this]; rfl), this⟩
  · intro f hne hf
    have hof := hi.mim.holder (A f) hf
    refine ⟨?_, ?_⟩
    · cases hw : inWait (s.pc w) with
      | false => rfl
      | true =>
        have := hi.mim.holder (A w) (by rw [h2.waitHolds w hw]; rfl)
        rw [hof] at this; exact absurd (A_inj (Option.some.inj this)) hne
    · by_cases hlt : (s.gh w).nU < (s.gh w).nL
      · have := hi.mim.holder (D w) (by rw [h2.agentHolds w hlt]; rfl)
        rw [hof] at this; exact absurd (Option.some.inj this) (A_ne_D f w)
      · omega

/-- the release itself: a `fetch_add(M.counter)` is either the unlock of a fiber that owns M
    (harness-level), or the deferred unlock for the waiter w that registered on that kernel
    thread; the latter is accepted only when w's deferred agent holds M, i.e. strictly after
    w's link: at that instant w has been linked — hence enqueued and counted — more often than
    M was released for it.  (A mutated wait that unlocked M itself, before enqueueing, is not accepted.) -/
theorem deferred_release_after_link (es : List Ev) (s s' : St) (t g : Nat) (old : Int)
    (h : sys.run es = some s) (hs : step s (.fadd .M t g old) = some s') :
    (s.pc g = .idle ∧ s.m.pc (A g) = .unlockCalled ∧ s.m.owner = some (A g)) ∨
    (∃ w, s.deferred t = some w ∧ s.m.owner = some (D w) ∧
      (s.gh w).nU + 1 = (s.gh w).nL ∧ (s.gh w).nL ≤ (s.gh w).nE ∧ (s.gh w).nE ≤ (s.gh w).nC) := by
  obtain ⟨hi, hj⟩ := inv2_of_run h
  rcases faddM_pre hs with ⟨h1, h2⟩ | ⟨w, h1, h2, h3, -⟩
  · exact Or.inl ⟨h1, h2, hi.mim.holder (A g) (by rw [h2]; rfl)⟩
  · right
    have hlt := hi.dh w h2
    have hl := hi.loc w; simp only [Loc] at hl
    obtain ⟨-, hl2, -, hl4⟩ := hl
    have := hj.oneLink w
    refine ⟨w, h1, h3, by omega, ?_⟩
    split at hl2 <;> omega

/-! ### wait returns with the mutex -/

/-- `returns_with_mutex`: `ret wait` is accepted only from a fiber that owns M (it acquired M
    uncontended, or was handed M by an unlocker's pop), and it then holds M. -/
theorem returns_with_mutex (es : List Ev) (s s' : St) (f : Nat)
    (h : sys.run es = some s) (hs : step s (.retWait f) = some s') :
    s.m.owner = some (A f) ∧ s'.m.owner = some (A f) ∧ s'.m.pc (A f) = .held := by
  have hi := inv_of_run h
  obtain ⟨-, hheld, hown, hpre, -⟩ := retWait_effect hs
  have : s.m.owner = some (A f) := by
    rcases hpre with h1 | ⟨-, h2⟩
    · exact hi.mim.holder (A f) (by rw [h1]; rfl)
    · exact h2
  exact ⟨this, by rw [hown]; exact this, hheld⟩

/-- M is owned by at most one party at a time: whoever is between acquire and release of M —
    a fiber `A f` or a deferred agent `D w` — is the ghost owner (C03's exclusion, restated for
    the composed model including the hand-over to the deferred agent). -/
theorem mutex_exclusive (es : List Ev) (s : St) (h : sys.run es = some s) (a b : Nat)
    (ha : isHolder (s.m.pc a) = true) (hb : isHolder (s.m.pc b) = true) : a = b := by
  have hi := inv_of_run h
  have h1 := hi.mim.holder a ha
  have h2 := hi.mim.holder b hb
  rw [h1] at h2; exact Option.some.inj h2

/-! ### single consumer -/

/-- `single_consumer`: only the holder of the internal mutex I pops `cond->waiters`; more
    generally whoever has examined the waiter count and not finished its wake loop holds I, and
    there is at most one such fiber. -/
theorem single_consumer (es : List Ev) (s : St) (h : sys.run es = some s) :
    (∀ s' f x, step s (.wHead .C f x) = some s' →
        s.i.owner = some (A f) ∧ s.i.pc (A f) = .held) ∧
    (∀ f g, needsI (s.pc f) = true → needsI (s.pc g) = true → f = g) := by
  have hi := inv_of_run h
  refine ⟨?_, fun f g hf hg => hi.unique hf hg⟩
  intro s' f x hs
  obtain ⟨bc, k, hh, n, g, hpc, -⟩ := popC_effect hs
  have hheld := hi.holdI f (by rw [hpc]; rfl)
  exact ⟨hi.mi.holder (A f) (by rw [hheld]; rfl), hheld⟩

/-! ### non-vacuity: implementation traces (converted from logs of the instrumented build) -/

/-- what we look at in the final state -/
def obs (s : St) : Int × Nat × Nat × Nat × Nat × Int × Option Nat × Option Nat :=
  (s.count, s.nreg, s.nclaim, s.hd, s.owed, s.miss, s.m.owner, s.i.owner)

/-- `w | S` on 3 kernel threads (VR_SCHED=freeze, seed 309): the signal (fiber 17, not holding M)
    arrives while the waiter (fiber 16) has registered (`fetch_add` done) but is not yet
    enqueued: its `fetch_sub` sees 1, its first trypop finds the queue empty (`rNext 17 1 0`),
    it retries after the waiter's `xchg` + link, pops it; the deferred unlock of M is run by
    kernel thread 1's own fiber (fiber 1). -- 36 events -/
def traceRegisteredNotEnqueued : List Ev :=
  [.callLock 16, .fsub .M 16 1, .retLock 16, .callWait 16, .faddCount 1 16 0, .wState 16 16 5,
   .rNode 16 16 20, .callSignal 17 false, .fsub .I 17 1, .wData 16 20 16, .wNode 16 16 0,
   .fsubCount 17 1, .rHead .C 17 1, .rNext 17 1 0, .wNext 16 20 0, .xchgTail .C 16 1 20,
   .wNext 16 1 20, .rHead .C 17 1, .fadd .M 1 1 0, .rNext 17 1 20, .wHead .C 17 20, .rData 17 20 16,
   .wData 17 1 16, .rData 17 1 16, .wNode 17 16 1, .rState 17 16 3, .wState 17 16 2, .fadd .I 2 17 0,
   .retSignal 17, .fsub .M 16 1, .retWait 16, .csEnter 16, .csExit 16 1, .callUnlock 16,
   .fadd .M 2 16 0, .retUnlock 16]

example : (sys.run traceRegisteredNotEnqueued).map obs = some (0, 1, 1, 1, 0, 0, none, none) := by rfl
-- the window itself: after the signaller's failed trypop the waiter is registered, claimed, not enqueued
example : (sys.run (traceRegisteredNotEnqueued.take 14)).map
    (fun s => (s.count, s.nreg, s.nclaim, s.order, s.pc 16, s.pc 17)) =
    some (0, 1, 1, [], .waitClearedNode 20, .wake false 1 .top) := by rfl
example : (sys.run traceRegisteredNotEnqueued).map (fun s => ((s.gh 16).nR, (s.gh 16).nU, (s.gh 17).popped)) =
    some (1, 1, 1) := by rfl

-- hypotheses of `signal_pops_exactly_claim` are satisfiable by this implementation trace:
-- es = first 11 events, the claim (`fsubCount 17 1`), mid = the next 16 events, then `retSignal 17`
example : traceRegisteredNotEnqueued =
    traceRegisteredNotEnqueued.take 11 ++ [.fsubCount 17 1] ++
      (traceRegisteredNotEnqueued.drop 12).take 16 ++ [.retSignal 17] ++
      traceRegisteredNotEnqueued.drop 29 := by rfl
example : ∀ e ∈ (traceRegisteredNotEnqueued.drop 12).take 16, isSigStart 17 e = false := by decide
example : popsBy 17 ((traceRegisteredNotEnqueued.drop 12).take 16) = 1 := by rfl

/-- `w | w | b` on 2 kernel threads (seed 140): a broadcast that releases two waiters; the
    deferred unlock of M finds M contended and runs its own wake loop on M.waiters. -- 85 events -/
def traceBroadcastTwo : List Ev :=
  [.callLock 17, .fsub .M 17 1, .retLock 17, .callWait 17, .faddCount 1 17 0, .wState 17 17 5,
   .rNode 17 17 21, .wData 17 21 17, .wNode 17 17 0, .wNext 17 21 0, .xchgTail .C 17 1 21,
   .wNext 17 1 21, .fadd .M 1 16 0, .callLock 16, .fsub .M 16 1, .retLock 16, .callWait 16,
   .faddCount 1 16 1, .callLock 18, .fsub .M 18 0, .wState 16 16 5, .rNode 16 16 20, .wData 16 20 16,
   .wNode 16 16 0, .wNext 16 20 0, .xchgTail .C 16 21 20, .wState 18 18 5, .rNode 18 18 22,
   .wData 18 22 18, .wNode 18 18 0, .wNext 18 22 0, .wNext 16 21 20, .xchgTail .M 18 3 22,
   .wNext 18 3 22, .fadd .M 1 1 (-1), .rHead .M 1 3, .rNext 1 3 22, .wHead .M 1 22, .rData 1 22 18,
   .wData 1 3 18, .rData 1 3 18, .wNode 1 18 3, .rState 1 18 3, .wState 1 18 2, .retLock 18,
   .callBroadcast 18 true, .fsub .I 18 1, .xchgCount 18 2, .rHead .C 18 1, .rNext 18 1 21,
   .wHead .C 18 21, .rData 18 21 17, .wData 18 1 17, .rData 18 1 17, .wNode 18 17 1, .rState 18 17 3,
   .wState 18 17 2, .rHead .C 18 21, .rNext 18 21 20, .wHead .C 18 20, .rData 18 20 16,
   .wData 18 21 16, .rData 18 21 16, .wNode 18 16 21, .rState 18 16 3, .wState 18 16 2,
   .fadd .I 1 18 0, .retBroadcast 18, .callUnlock 18, .fadd .M 1 18 0, .retUnlock 18, .fsub .M 17 1,
   .retWait 17, .csEnter 17, .csExit 17 1, .callUnlock 17, .fadd .M 1 17 0, .retUnlock 17,
   .fsub .M 16 1, .retWait 16, .csEnter 16, .csExit 16 2, .callUnlock 16, .fadd .M 1 16 0,
   .retUnlock 16]

set_option maxRecDepth 20000 in
example : (sys.run traceBroadcastTwo).map obs = some (0, 2, 2, 2, 0, 0, none, none) := by rfl
set_option maxRecDepth 20000 in
example : (sys.run traceBroadcastTwo).map (fun s => (released s, (s.gh 16).nR, (s.gh 17).nR)) =
    some ([17, 16], 1, 1) := by rfl

/-- `w | w | b` on 2 kernel threads (seed 32): a waiter is released and re-locks M (its
    `fetch_sub` on M.counter) BEFORE the successor has performed the deferred unlock of M on its
    behalf — M is then handed back to it by that very unlock's wake loop. -- 112 events -/
def traceRelockBeforeDeferredUnlock : List Ev :=
  [.callLock 17, .fsub .M 17 1, .retLock 17, .callWait 17, .faddCount 1 17 0, .wState 17 17 5,
   .rNode 17 17 21, .wData 17 21 17, .wNode 17 17 0, .wNext 17 21 0, .xchgTail .C 17 1 21,
   .wNext 17 1 21, .callLock 18, .fadd .M 1 16 0, .fsub .M 18 1, .callLock 16, .fsub .M 16 0,
   .wState 16 16 5, .retLock 18, .callBroadcast 18 true, .rNode 16 16 20, .wData 16 20 16,
   .wNode 16 16 0, .wNext 16 20 0, .fsub .I 18 1, .xchgCount 18 1, .rHead .C 18 1,
   .xchgTail .M 16 3 20, .wNext 16 3 20, .rNext 18 1 21, .wHead .C 18 21, .rData 18 21 17,
   .wData 18 1 17, .rData 18 1 17, .wNode 18 17 1, .rState 18 17 3, .wState 18 17 2, .fadd .I 0 18 0,
   .retBroadcast 18, .callUnlock 18, .fadd .M 0 18 (-1), .rHead .M 18 3, .rNext 18 3 20,
   .wHead .M 18 20, .rData 18 20 16, .wData 18 3 16, .rData 18 3 16, .wNode 18 16 3, .rState 18 16 3,
   .wState 18 16 2, .fsub .M 17 0, .wState 17 17 5, .rNode 17 17 1, .wData 17 1 17, .wNode 17 17 0,
   .wNext 17 1 0, .xchgTail .M 17 20 1, .wNext 17 20 1, .retLock 16, .callWait 16, .faddCount 0 16 0,
   .wState 16 16 5, .rNode 16 16 3, .wData 16 3 16, .wNode 16 16 0, .wNext 16 3 0,
   .xchgTail .C 16 21 3, .wNext 16 21 3, .fadd .M 0 18 (-1), .rHead .M 18 20, .rNext 18 20 1,
   .wHead .M 18 1, .rData 18 1 17, .wData 18 20 17, .rData 18 20 17, .wNode 18 17 20,
   .rState 18 17 3, .wState 18 17 2, .retUnlock 18, .retWait 17, .csEnter 17, .csExit 17 1,
   .callUnlock 17, .fadd .M 0 17 0, .retUnlock 17, .callLock 19, .fsub .M 19 1, .retLock 19,
   .callBroadcast 19 true, .fsub .I 19 1, .xchgCount 19 1, .rHead .C 19 21, .rNext 19 21 3,
   .wHead .C 19 3, .rData 19 3 16, .wData 19 21 16, .rData 19 21 16, .wNode 19 16 21,
   .rState 19 16 3, .wState 19 16 2, .fadd .I 0 19 0, .retBroadcast 19, .callUnlock 19,
   .fadd .M 0 19 0, .retUnlock 19, .fsub .M 16 1, .retWait 16, .csEnter 16, .csExit 16 2,
   .callUnlock 16, .fadd .M 0 16 0, .retUnlock 16]

set_option maxRecDepth 20000 in
example : (sys.run traceRelockBeforeDeferredUnlock).map obs = some (0, 2, 2, 2, 0, 0, none, none) := by rfl

/-- a signal with nobody waiting: decrement, add back, no pop (hypotheses of `signal_claims`
    with `old = 0` are satisfiable) -/
example : (sys.run [.callSignal 16 false, .fsub .I 16 1, .fsubCount 16 0, .faddCount 0 16 (-1),
      .fadd .I 0 16 0, .retSignal 16]).map obs = some (0, 0, 0, 0, 0, 0, none, none) := by rfl
example : (sys.run [.callSignal 16 false, .fsub .I 16 1, .fsubCount 16 0]).map
    (fun s => (s.count, s.miss, s.pc 16, s.i.owner)) = some (-1, 1, .sigMiss, some 32) := by rfl

/-! ### negative checks: what the model refuses (each is what a mutated implementation would log) -/

/-- wait that unlocks M itself before enqueueing (`fetch_add(M.counter)` by the waiter) -/
example : sys.run [.callLock 16, .fsub .M 16 1, .retLock 16, .callWait 16, .faddCount 0 16 0,
    .fadd .M 0 16 0] = none := by rfl
/-- wait that enqueues before registering -/
example : sys.run [.callLock 16, .fsub .M 16 1, .retLock 16, .callWait 16, .wState 16 16 5] = none := by rfl
/-- a pop of the cond's queue by a fiber that made no claim -/
example : sys.run (traceRegisteredNotEnqueued.take 17 ++ [.rHead .C 18 1]) = none := by rfl
/-- wait that returns without re-acquiring M -/
example : sys.run (traceRegisteredNotEnqueued.take 29 ++ [.retWait 16]) = none := by rfl

end LibfiberVerif.Cond
