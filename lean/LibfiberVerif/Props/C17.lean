/-
  Props/C17.lean — property C17 (work queue: src/work_queue.c, include/work_queue.h over
  include/mpsc_fifo.h).

  "At most one caller at a time is told to start working; every pushed item is handed to a
   worker exactly once; and a worker is told the queue is empty only when every item pushed so
   far has been handed out — an item is never left queued with no active worker."

  All theorems are about EVERY event list the model `WorkQueue.sys` accepts: any number of
  pushing threads, any number of items, every interleaving of the individual shared accesses
  (announce `fadd` → terminate → exchange → link of a push; head/next/data accesses of the pop;
  compare → re-read → zero → `fsub` of the worker's "drained" decision), nodes being recycled.
  The model is tied to the C code by trace validation (`verifdrv WorkQueue`).

  Vocabulary (ghost fields are updated by `WorkQueue.step` next to the access they count):
  * "told to start working" = the thread's `fadd in_count` returned 1 (`Pc.isWorker` from then
    on, it is in `workers`) … "told EMPTY" = its `fsub in_count` returned 0;
  * `announced` = number of `fadd`s, `subtracted` = sum of the `fsub` operands,
    `xchgd` = item values in `xchg tail` order, `handed` = item values in the order
    `get_work` returned them, `pending` = threads between `fadd` and `xchg`,
    `hd`/`tl` = number of pops / exchanges (queue positions of the stub / the tail).
-/
import LibfiberVerif.Proof.WorkQueue

namespace LibfiberVerif.WorkQueue

/-! ### the ghost counters are what the trace says they are -/

/-- number of announcements (`__sync_add_and_fetch(&in_count, 1)`) in a trace -/
def announcedOf (es : List Ev) : Nat :=
  (es.filter fun | .faddIn _ _ => true | _ => false).length

/-- sum of the operands of all `__sync_sub_and_fetch(&in_count, op)` in a trace -/
def subtractedOf (es : List Ev) : Nat :=
  (es.map fun | .fsubIn _ _ op => op | _ => 0).sum

/-- item values returned by `get_work` (MORE_WORK), in order -/
def returnedOf (es : List Ev) : List Nat :=
  es.filterMap fun | .retGw _ v _ => if v = 0 then none else some v | _ => none

theorem ghost_eq_trace (es : List Ev) (s : St) (h : sys.run es = some s) :
    s.announced = announcedOf es ∧ s.subtracted = subtractedOf es ∧ s.handed = returnedOf es := by
  refine Sys.hist_inv_of_run sys
    (fun s es => s.announced = announcedOf es ∧ s.subtracted = subtractedOf es ∧
      s.handed = returnedOf es) ?_ ?_ h
  · simp [sys, init, announcedOf, subtractedOf, returnedOf]
  · intro s es e s' ⟨h1, h2, h3⟩ hs
    simp only [sys] at hs
    cases e <;> simp only [step] at hs <;> split at hs <;> simp at hs
    all_goals
      first
        | (obtain ⟨hc, rfl⟩ := hs)
        | (subst hs)
    all_goals
      simp_all [announcedOf, subtractedOf, returnedOf, List.filter_append, List.filterMap_append]
    -- `ret getwork v`, `v ≠ 0`
    all_goals (obtain ⟨rfl, rfl, hv⟩ := hc; simp [hv])

/-! ### clause 1: at most one caller at a time is told to start working -/

/-- the set of threads between "told START_WORKING" and "told EMPTY" never has two elements -/
theorem one_worker (es : List Ev) (s : St) (h : sys.run es = some s) :
    s.workers.length ≤ 1 :=
  (inv_of_run h).c.one

/-- the same, read off the program counters: two threads are never both between the `fadd`
    that returned 1 and the `fsub` that returned 0 -/
theorem one_worker_pc (es : List Ev) (s : St) (h : sys.run es = some s) (t t' : Nat)
    (ht : (s.pc t).isWorker = true) (ht' : (s.pc t').isWorker = true) : t = t' := by
  have I := (inv_of_run h).c
  have a := I.wk t ht
  have b := I.wk t' ht'
  rw [a] at b
  simpa using b

/-- single-consumer obligation of the MPSC fifo: only the active worker is inside `get_work` -/
theorem only_worker_pops (es : List Ev) (s : St) (h : sys.run es = some s) (t : Nat)
    (ht : (s.pc t).inGetWork = true) : s.workers = [t] :=
  (inv_of_run h).c.wk t (Pc.inGetWork_isWorker ht)

/-! ### the counting invariant -/

/-- `in_count = announced − subtracted` -/
theorem in_count_eq (es : List Ev) (s : St) (h : sys.run es = some s) :
    s.inCount + s.subtracted = s.announced :=
  (inv_of_run h).c.cnt

/-- … stated on the trace alone -/
theorem in_count_eq_trace (es : List Ev) (s : St) (h : sys.run es = some s) :
    s.inCount + subtractedOf es = announcedOf es := by
  have g := ghost_eq_trace es s h
  have c := in_count_eq es s h
  rw [g.1, g.2.1] at c; exact c

/-- `in_count` is zero exactly when nobody is working -/
theorem in_count_zero_iff (es : List Ev) (s : St) (h : sys.run es = some s) :
    s.inCount = 0 ↔ s.workers = [] := by
  have I := (inv_of_run h).c
  constructor
  · intro h0
    by_cases hw : s.workers = []
    · exact hw
    · have := I.pos hw; omega
  · intro hw; exact (I.idle0 hw).1

/-! ### clause 2: every pushed item is handed to a worker exactly once -/

/-- the items handed out are a prefix of the items in exchange order: the k-th item handed out
    is the k-th item exchanged into the fifo — none twice, none skipped, none invented -/
theorem each_item_once (es : List Ev) (s : St) (h : sys.run es = some s) :
    s.handed <+: s.xchgd := by
  have I := (inv_of_run h).m.chain
  rw [I.hand]; exact List.take_prefix _ _

/-- … with the handed-out list read off the trace -/
theorem each_item_once_trace (es : List Ev) (s : St) (h : sys.run es = some s) :
    returnedOf es <+: s.xchgd := by
  rw [← (ghost_eq_trace es s h).2.2]; exact each_item_once es s h

/-- if the pushed values are distinct no value is handed out twice -/
theorem handed_nodup (es : List Ev) (s : St) (h : sys.run es = some s) (hd : s.xchgd.Nodup) :
    s.handed.Nodup :=
  List.Sublist.nodup (each_item_once es s h).sublist hd

/-- nothing is invented: every value handed out is the argument of an earlier `call push` -/
theorem never_invented (es : List Ev) (s : St) (h : sys.run es = some s) (v : Nat)
    (hv : v ∈ s.handed) : ∃ t n, Ev.callPush t v n ∈ es :=
  (pushedInv_of_run h).1 v ((each_item_once es s h).subset hv)

/-- nothing is handed out before it was exchanged in, and at most one pop is in flight -/
theorem handed_le (es : List Ev) (s : St) (h : sys.run es = some s) :
    s.handed.length ≤ s.hd ∧ s.hd ≤ s.handed.length + 1 ∧ s.hd ≤ s.tl ∧ s.xchgd.length = s.tl ∧
      s.tl + s.pending.length = s.announced := by
  have I := inv_of_run h
  exact ⟨I.c.hle, I.c.hub, I.m.chain.hdtl, I.m.chain.xlen, I.c.ann.symm⟩

/-! ### clause 3: EMPTY only when everything announced has been handed out; nothing is left
    queued with no active worker -/

/-- an item announced and not yet handed out ⇒ an active worker exists -/
theorem none_stranded (es : List Ev) (s : St) (h : sys.run es = some s)
    (hlt : s.handed.length < s.announced) : s.workers ≠ [] := by
  have I := (inv_of_run h).c
  intro hw
  have := I.idle0 hw
  have := I.cnt
  omega

/-- with no active worker the fifo is empty (`head = tail`), every announced item has been
    exchanged in, popped and returned, and no push is between announce and exchange -/
theorem idle_all_handed (es : List Ev) (s : St) (h : sys.run es = some s) (hw : s.workers = []) :
    s.handed = s.xchgd ∧ s.handed.length = s.announced ∧ s.hd = s.tl ∧ s.head = s.tail ∧
      s.pending = [] := by
  have I := inv_of_run h
  have i0 := I.c.idle0 hw
  have cnt := I.c.cnt
  have ann := I.c.ann
  have hdtl := I.m.chain.hdtl
  have xlen := I.m.chain.xlen
  have hand := I.m.chain.hand
  have e1 : s.hd = s.tl := by omega
  have e2 : s.pending.length = 0 := by omega
  refine ⟨?_, by omega, e1, ?_, List.eq_nil_of_length_eq_zero e2⟩
  · rw [hand]; apply List.take_of_length_le; omega
  · rw [I.m.chain.head_eq, I.m.chain.tail_eq, e1]

/-- the step at which a worker is told EMPTY (its `sub_and_fetch` returns 0): at that very
    moment every item announced so far has been handed out, the fifo is empty and no push is
    in flight between announce and exchange -/
theorem empty_only_when_drained (es : List Ev) (s s' : St) (t old op : Nat)
    (h : sys.run es = some s) (hs : step s (.fsubIn t old op) = some s')
    (he : s'.pc t = .gwEmptyDone) :
    s'.workers = [] ∧ s'.handed.length = s'.announced ∧ s'.handed = s'.xchgd ∧ s'.hd = s'.tl ∧
      s'.pending = [] := by
  have h' : sys.run (es ++ [.fsubIn t old op]) = some s' := by
    simp only [Sys.run] at h ⊢
    rw [Sys.runFrom_append, h]; simp [Sys.runFrom, sys, hs]
  have I := (inv_of_run h).c
  have hw : s'.workers = [] := by
    have wk := I.wk t
    cases hpc : s.pc t <;> simp [step, hpc] at hs
    obtain ⟨hc, rfl⟩ := hs
    rw [hpc] at wk
    simp only [Pc.isWorker] at wk
    by_cases h0 : old - op = 0
    · simp [h0, wk]
    · simp [h0, upd] at he
  have a := idle_all_handed _ s' h' hw
  exact ⟨hw, a.2.1, a.1, a.2.2.1, a.2.2.2.2⟩

/-- conversely a thread is told to start working only when nobody is working:
    the `fadd` returned 1, i.e. `in_count` was 0 -/
theorem start_only_when_idle (es : List Ev) (s s' : St) (t old : Nat)
    (h : sys.run es = some s) (hs : step s (.faddIn t old) = some s')
    (hw : (s'.pc t).isWorker = true) : s.workers = [] ∧ s'.workers = [t] := by
  have I := (inv_of_run h).c
  cases hpc : s.pc t <;> simp [step, hpc] at hs
  obtain ⟨hc, rfl⟩ := hs
  by_cases h0 : old = 0
  · have : s.workers = [] := by
      by_cases hw' : s.workers = []
      · exact hw'
      · have := I.pos hw'; omega
    simp [h0, this]
  · simp [h0, upd, Pc.isWorker] at hw

/-! ### non-vacuity: a concrete accepted trace (taken from a run of the real code, harness
    script `p1,y2,p2|y4,p3`, VR_SEED=177) in which thread 1 announces item 3 between the
    worker's comparison `out_count == in_count` and its `sub_and_fetch` (which therefore
    returns 1, not 0), the worker then finds the fifo empty while item 3 is announced but not
    yet exchanged in, spins, receives it, is told EMPTY; then a recycled node is pushed. -/

def witness : List Ev :=
  [.callPush 0 1 2, .faddIn 0 0, .wrNext 0 2 0, .xchgTail 0 1 2,
   .wrNext 0 1 2, .retPush 0 1, .callGw 0, .rdHead 0 1,
   .rdNext 0 1 2, .wrHead 0 2, .rdData 0 2 1, .wrData 0 1 1,
   .rdOut 0 0, .callPush 1 3 3, .wrOut 0 1, .retGw 0 1 1,
   .callGw 0, .rdHead 0 2, .rdNext 0 2 0, .rdOut 0 1,
   .rdIn 0 1, .rdOut 0 1, .wrOut 0 0, .faddIn 1 1,
   .fsubIn 0 2 1, .wrNext 1 3 0, .xchgTail 1 2 3, .rdHead 0 2,
   .rdNext 0 2 0, .rdOut 0 0, .rdIn 0 1, .wrNext 1 2 3,
   .retPush 1 0, .rdHead 0 2, .rdNext 0 2 3, .wrHead 0 3,
   .rdData 0 3 3, .wrData 0 2 3, .rdOut 0 0, .wrOut 0 1,
   .retGw 0 3 2, .callGw 0, .rdHead 0 3, .rdNext 0 3 0,
   .rdOut 0 1, .rdIn 0 1, .rdOut 0 1, .wrOut 0 0,
   .fsubIn 0 1 1, .retGw 0 0 0, .callPush 0 2 2, .faddIn 0 0,
   .wrNext 0 2 0, .xchgTail 0 3 2, .wrNext 0 3 2, .retPush 0 1,
   .callGw 0, .rdHead 0 3, .rdNext 0 3 2, .wrHead 0 2,
   .rdData 0 2 2, .wrData 0 3 2, .rdOut 0 0, .wrOut 0 1,
   .retGw 0 2 3, .callGw 0, .rdHead 0 2, .rdNext 0 2 0,
   .rdOut 0 1, .rdIn 0 1, .rdOut 0 1, .wrOut 0 0,
   .fsubIn 0 1 1, .retGw 0 0 0]

/-- the model accepts it and ends idle with everything handed out in exchange order -/
example : (sys.run witness).map (fun s => (s.handed, s.xchgd, s.workers, s.announced, s.subtracted,
    s.inCount, s.hd, s.tl)) = some ([1, 3, 2], [1, 3, 2], [], 3, 3, 0, 3, 3) := by rfl

/-- in the middle of it (after the `fsub` that returned 1) a worker is active, one item is
    announced but neither exchanged nor handed out, and `in_count = 1` -/
example : (sys.run (witness.take 25)).map (fun s => (s.workers, s.pending, s.handed, s.xchgd,
    s.announced, s.subtracted, s.inCount)) = some ([0], [1], [1], [1], 2, 1, 1) := by rfl

/-- two threads told to start working at the same time is NOT accepted by the model:
    a second `fadd` that claims to have seen 0 while a worker is active is rejected -/
example : sys.run [.callPush 0 1 2, .faddIn 0 0, .callPush 1 3 3, .faddIn 1 0] = none := by decide

end LibfiberVerif.WorkQueue
