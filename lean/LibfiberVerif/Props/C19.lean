/-
  Props/C19.lean — property C19 (context switch), stated over the GENERATED program.

  "Across any sequence of switches among any number of contexts, a fiber observes on
   resumption exactly the callee-saved registers, stack pointer and stack contents it had
   when it was switched out, a new context starts its function with the given argument on a
   correctly aligned private stack, and a fiber's stack is released exactly once when the
   fiber is destroyed."

  `swap`      = `Gen.CtxAsm.swapInstrs` (the x86-64 asm of `fiber_context_swap`, re-extracted
                from src/fiber_context.c on every check) run on the machine of Model/Ctx.lean.
  `freshInit` = `Gen.CtxAsm.initOps` (the stack-pointer statements of `fiber_context_init`).
  All statements are ∀ register contents, ∀ memory, ∀ addresses (modular 64-bit arithmetic).

  Not modelled (differential harness only): `swapcontext` back-end, `__splitstack_*`,
  x87/MXCSR state.
-/
import LibfiberVerif.Proof.Ctx

namespace LibfiberVerif.Ctx
open LibfiberVerif.Gen.CtxAsm

/-! ## One switch -/

/-- After `swap`, the outgoing context's `ctx_stack_pointer` holds `rsp - 56` and the seven
    cells from there hold r15, r14, r13, r12, rbx, rbp and the resume address (label `0:`),
    i.e. exactly its callee-saved registers, stack pointer and continuation. -/
theorem swap_saves_frame (lbl : Nat → W) (fromSlot toSlot : W) (m : Machine)
    (hclear : fromSlot ∉ pushCells (m.reg .rsp)) :
    (swap lbl fromSlot toSlot m).mem fromSlot = m.reg .rsp - 56 ∧
    FrameAt (swap lbl fromSlot toSlot m).mem (m.reg .rsp - 56) (savedOf m.reg (lbl 0)) :=
  swap_saves_frame' lbl fromSlot toSlot m hclear

/-- `swap` A→B where B's slot points at a valid saved frame `sv` that does not overlap A's
    push area / slot: rbx, rbp, r12–r15, rsp and rip of the machine are exactly `sv`'s. -/
theorem swap_restores (lbl : Nat → W) (fromSlot toSlot : W) (m : Machine) (sv : Saved)
    (hf : FrameAt m.mem (m.mem toSlot) sv)
    (hd : ∀ a ∈ frameCells (m.mem toSlot), a ∉ pushCells (m.reg .rsp) ∧ a ≠ fromSlot) :
    savedOf (swap lbl fromSlot toSlot m).reg sv.rip = sv ∧
    (swap lbl fromSlot toSlot m).rip = .atAddr sv.rip :=
  swap_restores' lbl fromSlot toSlot m sv hf hd

/-- Only A's seven stack cells below its `rsp` and A's `ctx_stack_pointer` are written. -/
theorem swap_writes_only (lbl : Nat → W) (fromSlot toSlot : W) (m : Machine) (a : W)
    (hp : a ∉ pushCells (m.reg .rsp)) (hs : a ≠ fromSlot) :
    (swap lbl fromSlot toSlot m).mem a = m.mem a :=
  swap_writes_only' lbl fromSlot toSlot m a hp hs

/-- 8-byte alignment of the stack pointer is preserved by a switch into an aligned frame
    (the cell-addressed memory model is exact under this alignment). -/
theorem swap_keeps_alignment (lbl : Nat → W) (fromSlot toSlot : W) (m : Machine)
    (h : (m.mem toSlot).toNat % 8 = 0) :
    ((swap lbl fromSlot toSlot m).reg .rsp).toNat % 8 = 0 := by
  rw [swap_rsp]; bv_omega

/-! ## Any sequence of switches, any number of contexts and kernel threads -/

/-- The ghost snapshot recorded at a switch-out IS the machine state at that instant: the
    outgoing context's callee-saved registers and `rsp`, resume address label `0:`, and the
    memory right after the save. -/
theorem switch_out_snapshot (L : Layout) (lbl : Nat → W) (w : World) (t to : Nat) :
    (next L lbl w (.swap t to)).saved (w.running t) =
      some { regs := savedOf (w.reg t) (lbl 0),
             mem := (next L lbl w (.swap t to)).mem, arg := none } := by
  simp [next, upd]

/-- **Round trip over arbitrary sequences.**  From any world satisfying the invariant
    (e.g. no context suspended yet), after ANY list of steps whose client guards hold —
    swaps by any kernel thread to any suspended context (also one suspended by a different
    thread), arbitrary computation of the running fibers on their own cells, creation and
    destruction of contexts — a context that is resumed continues on the resuming thread
    with exactly the callee-saved registers, stack pointer and instruction pointer recorded
    when it was switched out (`sn.regs`), every cell it owns (its stack) has the contents it
    had then (`sn.mem`), and a context that has not run yet receives its `param` in `rdi`. -/
theorem roundtrip_any_sequence (L : Layout) (hL : L.Ok) (lbl : Nat → W) (w0 : World)
    (h0 : WInv L w0) (steps : List Step) (hv : Valid L lbl w0 steps)
    (t to : Nat) (sn : Snap)
    (hs : (runSteps L lbl w0 steps).saved to = some sn)
    (hg : Guard L (runSteps L lbl w0 steps) (.swap t to)) :
    let w' := next L lbl (runSteps L lbl w0 steps) (.swap t to)
    w'.running t = to ∧
    savedOf (w'.reg t) sn.regs.rip = sn.regs ∧
    w'.rip t = .atAddr sn.regs.rip ∧
    (∀ a, L.owns to a → w'.mem a = sn.mem a) ∧
    (∀ p, sn.arg = some p → w'.reg t .rdi = p) :=
  resume_exact' L hL lbl _ (inv_run L hL lbl w0 h0 steps hv) t to sn hs hg

/-- The invariant behind it is preserved by every guarded step sequence. -/
theorem invariant_any_sequence (L : Layout) (hL : L.Ok) (lbl : Nat → W) (w0 : World)
    (h0 : WInv L w0) (steps : List Step) (hv : Valid L lbl w0 steps) :
    WInv L (runSteps L lbl w0 steps) :=
  inv_run L hL lbl w0 h0 steps hv

/-! ## Fresh contexts -/

/-- The store sequence of `fiber_context_init` lays out a valid suspended frame, for every
    stack base and size (modular arithmetic; in-bounds is the separate obligation below):
    switching into it from any machine starts `run_function` (`rip = fn`) with
    `rdi = param`, all callee-saved registers zero, a NULL return address on top of the
    stack and `rsp ≡ 8 (mod 16)` — the state right after a `call`, as the psABI requires at
    function entry.  The value left in `ctx_stack_pointer` is 16-byte aligned (the
    `assert` in the source). -/
theorem fresh_frame_valid (lbl : Nat → W) (stack size fn param : W) (mem0 : W → W)
    (m : Machine) (fromSlot toSlot : W) :
    let s := freshInit stack size fn param mem0
    let cells := frameCells s.sp ++ [s.sp + 56, s.sp + 64]
    m.mem toSlot = s.sp →
    (∀ a ∈ cells, m.mem a = s.mem a) →
    (∀ a ∈ cells, a ∉ pushCells (m.reg .rsp) ∧ a ≠ fromSlot) →
    let m' := swap lbl fromSlot toSlot m
    m'.rip = .atAddr fn ∧ m'.reg .rdi = param ∧
    savedOf m'.reg fn = freshSaved s.sp fn ∧
    (m'.reg .rsp).toNat % 16 = 8 ∧ m'.mem (m'.reg .rsp) = 0 ∧
    s.sp.toNat % 16 = 0 := by
  intro s cells hslot hmem hd m'
  obtain ⟨hF, hret, hpar, hal, hal8⟩ := fresh_frame' stack size fn param mem0
  have hF' : FrameAt m.mem (m.mem toSlot) (freshSaved s.sp fn) := by
    rw [hslot]
    exact FrameAt_congr _ _ _ _ (fun a ha => hmem a (by simp [cells, ha])) hF
  have hd' : ∀ a ∈ frameCells (m.mem toSlot), a ∉ pushCells (m.reg .rsp) ∧ a ≠ fromSlot := by
    rw [hslot]; intro a ha; exact hd a (by simp [cells, ha])
  have hres := swap_restores' lbl fromSlot toSlot m _ hF' hd'
  have h56 := hd (s.sp + 56) (by simp [cells])
  have h64 := hd (s.sp + 64) (by simp [cells])
  refine ⟨hres.2, ?_, hres.1, ?_, ?_, hal⟩
  · show (swap lbl fromSlot toSlot m).reg .rdi = param
    rw [swap_rdi, hslot, savedMem_other _ _ _ _ _ h64.1 h64.2, hmem _ (by simp [cells])]
    exact hpar
  · show ((swap lbl fromSlot toSlot m).reg .rsp).toNat % 16 = 8
    rw [swap_rsp, hslot]; exact hal8
  · show (swap lbl fromSlot toSlot m).mem ((swap lbl fromSlot toSlot m).reg .rsp) = 0
    rw [swap_rsp, hslot, swap_mem, savedMem_other _ _ _ _ _ h56.1 h56.2,
      hmem _ (by simp [cells])]
    exact hret

/-- Inside the multi-context world: a context created by `fiber_context_init`, then left
    alone for ANY guarded step sequence, starts — when some thread first switches to it —
    at `fn` with `rdi = param`, zeroed callee-saved registers and `rsp ≡ 8 (mod 16)`. -/
theorem fresh_context_starts (L : Layout) (hL : L.Ok) (lbl : Nat → W) (w0 : World)
    (h0 : WInv L w0) (c : Nat) (stack size fn param : W)
    (hc : Guard L w0 (.create c stack size fn param))
    (steps : List Step)
    (hv : Valid L lbl (next L lbl w0 (.create c stack size fn param)) steps)
    (hnt : ∀ e ∈ steps, ¬ e.touches c) (t : Nat)
    (hg : Guard L (runSteps L lbl (next L lbl w0 (.create c stack size fn param)) steps)
      (.swap t c)) :
    let w' := next L lbl
      (runSteps L lbl (next L lbl w0 (.create c stack size fn param)) steps) (.swap t c)
    w'.running t = c ∧ w'.rip t = .atAddr fn ∧ w'.reg t .rdi = param ∧
    (w'.reg t .rsp).toNat % 16 = 8 ∧
    w'.reg t .rbx = 0 ∧ w'.reg t .rbp = 0 ∧ w'.reg t .r12 = 0 ∧ w'.reg t .r13 = 0 ∧
    w'.reg t .r14 = 0 ∧ w'.reg t .r15 = 0 := by
  have h1 := inv_step L hL lbl w0 h0 _ hc
  have hsaved : (next L lbl w0 (.create c stack size fn param)).saved c = some
      { regs := freshSaved (freshInit stack size fn param w0.mem).sp fn,
        mem := setM (freshInit stack size fn param w0.mem).mem (L.slot c)
          (freshInit stack size fn param w0.mem).sp,
        arg := some param } := by
    simp [next, upd]
  have hst := saved_stable L lbl _ h1 c _ hsaved steps hv hL hnt
  have hr := roundtrip_any_sequence L hL lbl _ h1 steps hv t c _ hst hg
  obtain ⟨hrun, hregs, hrip, _, harg⟩ := hr
  have hal := (fresh_frame' stack size fn param w0.mem).2.2.2.2
  simp only [freshSaved, savedOf, Saved.mk.injEq] at hregs
  obtain ⟨r1, r2, r3, r4, r5, r6, r7, _⟩ := hregs
  refine ⟨hrun, hrip, harg param rfl, ?_, r1, r2, r3, r4, r5, r6⟩
  rw [r7]; exact hal

/-! ## The fresh frame lies inside the stack — provided the stack is big enough -/

/-- Every store of `fiber_context_init` lies inside `[stack, stack + size)` when
    `size ≥ minBytes = 103` (any base address), … -/
theorem fresh_frame_in_bounds (stack size fn param : W) (mem : W → W)
    (hwrap : stack.toNat + size.toNat ≤ 2 ^ 64) (hmin : minBytes ≤ size.toNat) :
    ∀ a ∈ (freshInit stack size fn param mem).writes,
      stack.toNat ≤ a.toNat ∧ a.toNat + 8 ≤ stack.toNat + size.toNat :=
  fresh_in_bounds' stack size fn param mem hwrap hmin

/-- … or `size ≥ minBytesAligned = 88` when the base is 16-byte aligned (malloc, mmap). -/
theorem fresh_frame_in_bounds_aligned (stack size fn param : W) (mem : W → W)
    (hwrap : stack.toNat + size.toNat ≤ 2 ^ 64) (hal : stack.toNat % 16 = 0)
    (hmin : minBytesAligned ≤ size.toNat) :
    ∀ a ∈ (freshInit stack size fn param mem).writes,
      stack.toNat ≤ a.toNat ∧ a.toNat + 8 ≤ stack.toNat + size.toNat :=
  fresh_in_bounds_aligned' stack size fn param mem hwrap hal hmin

/-- `minBytes` is the smallest sufficient size: with 102 bytes at base 1 a store lands
    below the stack. -/
theorem min_bytes_tight :
    ∃ a ∈ (freshInit 1#64 102#64 0 0 (fun _ => 0)).writes, a.toNat < (1#64 : W).toNat := by
  simp [freshInit_writes, freshTop]

/-- `minBytesAligned` is the smallest sufficient size for a 16-byte aligned base. -/
theorem min_bytes_aligned_tight :
    ∃ a ∈ (freshInit 4096#64 87#64 0 0 (fun _ => 0)).writes, a.toNat < (4096#64 : W).toNat := by
  simp [freshInit_writes, freshTop]

/-- F-C19 witness: `fiber_context_init(ctx, 16, …)` on a 16-byte block at 0x1000 stores
    below the block (the first store already: `param` goes to 0x1000 - 16). -/
theorem tiny_stack_out_of_bounds :
    ∀ a ∈ (freshInit 4096#64 16#64 0 0 (fun _ => 0)).writes, a.toNat < (4096#64 : W).toNat := by
  simp [freshInit_writes, freshTop]

/-! ## Obligations tying the size hypothesis to the code (generated decision values)

`strategies` is what the translator found in `fiber_context_alloc_stack` /
`fiber_free_stack`.  For every stack strategy the code must GUARANTEE
`ctx_stack_size ≥ minBytes` for every accepted request (`stack_size ≥ 1`).
Assumptions used by `StackMin.guaranteed`: page size ≥ 4096; libgcc split-stack segments
are ≥ one page minus its header (re-checked dynamically by the harness). -/

def strategyMin (name : String) : Option Nat :=
  (strategies.find? (fun s => s.name == name)).map (fun s => s.min.guaranteed)

theorem strategies_complete : strategies.map (·.name) = ["split", "mmap", "malloc"] := by decide

theorem init_rejects_zero_size : initRejectsZeroSize = true := by decide

theorem split_strategy_guarantees_min :
    ∃ n, strategyMin "split" = some n ∧ minBytes ≤ n := by decide

theorem mmap_strategy_guarantees_min :
    ∃ n, strategyMin "mmap" = some n ∧ minBytes ≤ n := by decide

/-- FAILS on a tree where the malloc strategy allocates exactly the requested size
    (F-C19: `FIBER_MIN_STACK_SIZE` defined but never enforced). -/
theorem malloc_strategy_guarantees_min :
    ∃ n, strategyMin "malloc" = some n ∧ minBytes ≤ n := by decide

/-- the source's own alignment `assert` agrees with what is proved -/
theorem init_assert_mask_ok : initAssertMask = 15 := by decide

/-- the asm statement is a compiler memory barrier -/
theorem asm_clobbers_memory : "memory" ∈ swapClobbers ∧ "cc" ∈ swapClobbers := by decide

/-! ## A stack is released exactly once -/

/-- every strategy allocates with exactly one call and releases with exactly the matching
    one (malloc/free, mmap/munmap, __splitstack_makecontext/__splitstack_releasecontext) -/
theorem alloc_free_paired :
    ∀ s ∈ strategies, s.allocs.length = 1 ∧ s.frees = s.allocs.map AllocKind.matching := by
  decide

/-- for both switching back-ends: `init` then `destroy` allocates one stack and releases it
    exactly once; a context made by `fiber_context_init_from_thread` owns no stack and
    `destroy` releases nothing.  (Calling destroy twice is a client error: C04.) -/
theorem stack_released_exactly_once :
    destroyShapes.map (·.backend) = ["asm", "ucontext"] ∧
    ∀ d ∈ destroyShapes,
      (Life.destroy d (Life.init d {})).allocated = 1 ∧
      (Life.destroy d (Life.init d {})).released = 1 ∧
      (Life.destroy d (Life.initFromThread {})).released = 0 := by
  decide

/-! ## Non-vacuity: a concrete world satisfying every hypothesis above -/

/-- two kernel threads, three contexts, one 64 KiB region each -/
def exL : Layout where
  thr t := t < 2
  ctx c := c < 3
  slot c := BitVec.ofNat 64 ((c + 1) * 65536)
  owns c a := a.toNat / 65536 = c + 1

theorem exL_ok : exL.Ok := by
  constructor
  · intro c hc
    simp only [exL] at *
    have : c = 0 ∨ c = 1 ∨ c = 2 := by omega
    rcases this with rfl | rfl | rfl <;> decide
  · intro c d a _ _ h1 h2
    simp only [exL] at *
    omega

/-- thread `t` runs context `t`; context 2 does not exist yet -/
def exW : World where
  reg t := fun r => if r = .rsp then BitVec.ofNat 64 ((t + 1) * 65536 + 32768)
                    else BitVec.ofNat 64 (1000 * t + 7)
  rip _ := .inAsm
  mem _ := 0xdead
  running t := t
  saved _ := none

theorem exW_inv : WInv exL exW := by
  constructor <;> simp [exW, exL]
  · intro t ht; omega

/-- create context 2; thread 0 switches c0→c2; c2 computes; thread 1 switches c1→c0 (c0 was
    suspended by thread 0: a switch "on behalf of another thread"); thread 0 switches c2→c1 -/
def exSteps : List Step :=
  [ .create 2 196864 16384 0x401000 42,
    .swap 0 2,
    .compute 0 (fun r => if r = .rsp then 205056 else 99) .inAsm [(200960, 5)],
    .swap 1 0,
    .swap 0 1 ]

/-- all client guards of the five-step scenario hold -/
theorem ex_valid (lbl : Nat → W) : Valid exL lbl exW exSteps := by
  simp [Valid, Guard, next, upd, exL, exW, exSteps, pushCells, machineOf, freshInit_writes,
    freshTop]
  omega

theorem ex_valid3 (lbl : Nat → W) : Valid exL lbl exW (exSteps.take 3) := by
  simp [Valid, Guard, next, upd, exL, exW, exSteps, pushCells, machineOf, freshInit_writes,
    freshTop]
  omega

/-- `roundtrip_any_sequence` instantiated: c0 resumes on thread 1 with the registers it had
    on thread 0 (rbx = 7, rsp = 0x18000) at the resume label. -/
example (lbl : Nat → W) :
    let w := next exL lbl (runSteps exL lbl exW (exSteps.take 3)) (.swap 1 0)
    w.running 1 = 0 ∧ w.reg 1 .rbx = 7 ∧ w.reg 1 .rsp = 98304 ∧ w.rip 1 = .atAddr (lbl 0) := by
  have hs : (runSteps exL lbl exW (exSteps.take 3)).saved 0 = some _ := rfl
  have hg : Guard exL (runSteps exL lbl exW (exSteps.take 3)) (.swap 1 0) := by
    simp [Guard, runSteps, next, upd, exL, exW, exSteps, pushCells, machineOf]
  have h := roundtrip_any_sequence exL exL_ok lbl exW exW_inv _ (ex_valid3 lbl) 1 0 _ hs hg
  obtain ⟨h1, h2, h3, _, _⟩ := h
  simp only [savedOf, Saved.mk.injEq] at h2
  refine ⟨h1, ?_, ?_, h3⟩
  · exact h2.1.trans (by simp [next, exW])
  · exact h2.2.2.2.2.2.2.1.trans (by simp [next, exW])

/-- `fresh_context_starts` instantiated: context 2 starts at 0x401000 with rdi = 42. -/
example (lbl : Nat → W) :
    let w := next exL lbl (next exL lbl exW (.create 2 196864 16384 0x401000 42)) (.swap 0 2)
    w.rip 0 = .atAddr 0x401000 ∧ w.reg 0 .rdi = 42 ∧ (w.reg 0 .rsp).toNat % 16 = 8 := by
  have hc : Guard exL exW (.create 2 196864 16384 0x401000 42) := (ex_valid lbl).1
  have hg : Guard exL (runSteps exL lbl (next exL lbl exW (.create 2 196864 16384 0x401000 42)) [])
      (.swap 0 2) := (ex_valid lbl).2.1
  have h := fresh_context_starts exL exL_ok lbl exW exW_inv 2 196864 16384 0x401000 42 hc []
    trivial (by simp) 0 hg
  exact ⟨h.2.1, h.2.2.1, h.2.2.2.1⟩

/-- the size hypotheses of the bounds theorems are satisfiable and the conclusion is not
    trivially true: a 16 KiB stack at 0x30100 -/
example : ∀ a ∈ (freshInit 196864 16384 0x401000 42 (fun _ => 0)).writes,
    (196864 : W).toNat ≤ a.toNat ∧ a.toNat + 8 ≤ (196864 : W).toNat + (16384 : W).toNat :=
  fresh_frame_in_bounds _ _ _ _ _ (by decide) (by decide)

end LibfiberVerif.Ctx
