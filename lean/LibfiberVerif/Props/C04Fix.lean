/-
  Props/C04Fix.lean — property C04 for the CANDIDATE FIX docs/fix-C04.diff (NOT the code in
  /repo; Props/C04.lean is about that).  Model: `JoinCas.sys isTarget` (Model/JoinCas.lean),
  validated event by event against a scratch copy of the tree with the patch applied
  (VERIF_REPO=<copy> VERIF_C04_MODEL=JoinCas python3 tools/check.py C04).

  With every transition of detach_state a compare-and-swap, every clause of the property
  holds at FULL STRENGTH: no `untainted` hypothesis, all reachable states, any number of
  fibers, targets, overlapping calls and steps.  The witnesses of Props/C04.lean are not
  traces of this model (each of them needs an unconditional exchange); the three histories at
  the end show what the patched code does in those situations instead.
-/
import LibfiberVerif.Proof.JoinCas

namespace LibfiberVerif.C04Fix
open LibfiberVerif.JoinCas
open LibfiberVerif.Join (Op NONE WFJ WTJ DET)

/-- a successful join / tryjoin delivers exactly the value the fiber's function returned (so it
    comes after the return) -/
theorem success_after_return (isTarget : Nat → Bool) : ∀ es s, (sys isTarget).run es = some s →
    ∀ g v, v ∈ s.succ g → s.retval g = some v := by
  intro es s h g v hv
  exact (inv_of_run h).i2.sv g v hv

/-- … and so does every call that is about to return SUCCESS -/
theorem pending_success_has_value (isTarget : Nat → Bool) : ∀ es s, (sys isTarget).run es = some s →
    ∀ g a op v, s.pc a = .retn op g true v → op ≠ .detach → s.retval g = some v := by
  intro es s h g a op v hp hop
  exact (inv_of_run h).i2.cv3 g a op v hp hop

/-- at most one joiner succeeds; at any time at most one fiber is on a path that can still end
    in SUCCESS, none once a SUCCESS has been returned -/
theorem at_most_one_success (isTarget : Nat → Bool) : ∀ es s, (sys isTarget).run es = some s →
    ∀ g, (s.succ g).length ≤ 1 ∧
      (∀ a a', claimPath (s.pc a) g = true → claimPath (s.pc a') g = true → a = a') ∧
      (s.succ g ≠ [] → ∀ a, claimPath (s.pc a) g = false) := by
  intro es s h g
  have I := (inv_of_run h).i2
  exact ⟨I.sl g, fun a a' => I.uq g a a', fun hs a => I.sq g a hs⟩

/-- joining a detached fiber fails: a detached fiber stays DETACHED, has never been joined
    successfully, and the only clients still acting on it are detach calls waking the finished
    fiber -/
theorem detached_fails (isTarget : Nat → Bool) : ∀ es s, (sys isTarget).run es = some s →
    ∀ g, s.detX g = true →
      s.det g = DET ∧ s.succ g = [] ∧ ∀ a, claimPath (s.pc a) g = true → detTake (s.pc a) g = true := by
  intro es s h g hd
  have I := (inv_of_run h).i2
  exact ⟨I.t4 g hd, I.dx1 g hd, fun a => I.dx2 g a hd⟩

/-- a destroyed fiber had written DONE, its function had returned, and it had been claimed by a
    join/tryjoin, taken its own joiner, or been detached; nothing touches it afterwards -/
theorem destroy_once_after (isTarget : Nat → Bool) : ∀ es s, (sys isTarget).run es = some s →
    ∀ g, (s.destroyed g = true →
      s.pc g = .fDone ∧ (∃ v, s.retval g = some v) ∧ (s.claimed g = true ∨ s.detX g = true)) ∧
      s.late g = 0 := by
  intro es s h g
  have I := inv_of_run h
  refine ⟨fun hd => ?_, I.i3 g⟩
  have hp := I.i0.dst g hd
  exact ⟨hp, ⟨s.res g, I.i1.st g (by simp [hp])⟩, I.i1.dj g (Or.inr (Or.inr hp))⟩

/-- destroyed at most once, never by itself -/
theorem destroy_at_most_once (isTarget : Nat → Bool) : ∀ (s : St) a g s',
    (sys isTarget).step s (.destroy a g) = some s' →
      s.pc g = .fDone ∧ s.destroyed g = false ∧ a ≠ g ∧ s'.destroyed g = true := by
  intro s a g s' hst
  obtain ⟨s1, hc, rfl⟩ := step_some hst
  simp only [stepCore] at hc
  split at hc
  · rename_i hh
    simp at hc
    subst hc
    simp [hh.1, hh.2.1, hh.2.2]
  · simp at hc

/-- every waiting party has a live counterpart (see Props/C04.lean `no_stranded`), and the
    state WAIT_FOR_JOINER / WAIT_TO_JOIN always means what it says: the finished fiber /
    a joiner is parked or about to park, and nobody has claimed it yet -/
theorem no_stranded (isTarget : Nat → Bool) : ∀ es s, (sys isTarget).run es = some s →
    ∀ g,
      (∀ b, takePh (s.pc b) g = true → parkF (s.pc g) = true) ∧
      (s.pc g = .fTake → ∃ p, s.first g = some p ∧ joinerPark (s.pc p) g = true) ∧
      (∀ p, joinerPark (s.pc p) g = true → finX (s.pc g) = true → delivering (s.pc g) p = true) ∧
      (parkF (s.pc g) = true → s.det g ≠ WFJ → ∃ b, s.taker g = some b ∧ takePh (s.pc b) g = true) ∧
      (s.det g = WFJ → parkF (s.pc g) = true) ∧
      (s.det g = WTJ → finX (s.pc g) = false ∧ ∃ p, s.first g = some p ∧ joinerPark (s.pc p) g = true) := by
  intro es s h g
  have I0 := (inv_of_run h).i0
  have I := (inv_of_run h).i2
  have ex1 : ∀ {α} (o : Option α) (P : α → Prop), o ≠ none → (∀ x, o = some x → P x) → ∃ x, o = some x ∧ P x := by
    intro α o P hne hall
    cases ho : o with
    | none => exact absurd ho hne
    | some x => exact ⟨x, rfl, hall x ho⟩
  refine ⟨fun b => I.c1 g b, ?_, fun p => I.iii g p, ?_, I0.wfj g, ?_⟩
  · intro hp
    obtain ⟨hne, hall⟩ := I.ii g hp
    exact ex1 _ _ hne hall
  · intro hp hd
    obtain ⟨hne, hall⟩ := I.iv g hp hd
    exact ex1 _ _ hne hall
  · intro hd
    obtain ⟨hne, hall⟩ := I.c9 g hd
    exact ⟨I.wtj g hd, ex1 _ _ hne hall⟩

/-! ## what the patched code does in the situations of the four findings -/

def isT : Nat → Bool := fun f => f == 16

/-- F-C04's situation: 17 joins and parks, 18 detaches while 16 runs → the detach FAILS, the
    joiner stays parked and gets 1000 when 16 finishes -/
def fDetach : List Ev :=
  [.call 17 .join 16, .casDet 17 16 0 0 2 true, .wState 17 17 3, .wJi 16 16 17,
   .call 18 .detach 16, .casDet 18 16 2 0 3 false, .ret 18 .detach 16 false 0,
   .fnRet 16 1000, .stRes 16 16 1000, .casDet 16 16 2 0 1 false, .casDet 16 16 2 2 3 true,
   .xchgJi 16 16 17, .ldRes 16 16 1000, .stRes 16 17 1000, .wState 16 17 2, .wState 16 16 4, .destroy 17 16,
   .ldRes 17 17 1000, .stRes 17 17 0, .ret 17 .join 16 true 1000]

/-- F-C04c's situation: 17 parked, 16 claims it (2 → 3); 18's join now finds DETACHED → ERROR -/
def fThird : List Ev :=
  [.call 17 .join 16, .casDet 17 16 0 0 2 true, .wState 17 17 3, .wJi 16 16 17,
   .fnRet 16 1000, .stRes 16 16 1000, .casDet 16 16 2 0 1 false, .casDet 16 16 2 2 3 true,
   .call 18 .join 16, .casDet 18 16 3 0 2 false, .ret 18 .join 16 false 0,
   .xchgJi 16 16 17, .ldRes 16 16 1000, .stRes 16 17 1000, .wState 16 17 2, .wState 16 16 4,
   .ldRes 17 17 1000, .stRes 17 17 0, .ret 17 .join 16 true 1000]

/-- F-C04d's situation: a detach slips in before 17's swap → 17's CAS fails on DETACHED (nothing
    is overwritten) and 16 later sees DETACHED and just finishes -/
def fOver : List Ev :=
  [.call 17 .join 16, .call 18 .detach 16, .casDet 18 16 0 0 3 true, .ret 18 .detach 16 true 0,
   .casDet 17 16 3 0 2 false, .ret 17 .join 16 false 0,
   .fnRet 16 1000, .stRes 16 16 1000, .casDet 16 16 3 0 1 false, .wState 16 16 4, .destroy 17 16]

def obs (s : St) : List Nat × Option Nat × Bool × Nat × Bool :=
  (s.succ 16, s.retval 16, s.destroyed 16, s.late 16, s.detX 16)

theorem fDetach_obs : ((sys isT).run fDetach).map obs = some ([1000], some 1000, true, 0, false) := by decide
theorem fThird_obs : ((sys isT).run fThird).map obs = some ([1000], some 1000, false, 0, false) := by decide
theorem fOver_obs : ((sys isT).run fOver).map obs = some ([], some 1000, true, 0, true) := by decide

/-- non-vacuity: the theorems above are about histories like these -/
example : ∃ s, (sys isT).run fDetach = some s ∧ s.succ 16 = [1000] ∧ s.retval 16 = some 1000 ∧
    s.destroyed 16 = true ∧ s.late 16 = 0 := by
  have ho := fDetach_obs
  cases hr : (sys isT).run fDetach with
  | none => simp [hr] at ho
  | some s => simp [hr, obs] at ho; exact ⟨s, rfl, ho.1, ho.2.1, ho.2.2.1, ho.2.2.2.1⟩

end LibfiberVerif.C04Fix
