/-
  Proof/MultiSignal.lean — the invariant of the multi-waiter signal model along every run, and
  the lemmas behind the multi-signal clause of C20 (Props/C20.lean, section MultiSignal).
-/
import LibfiberVerif.Proof.MultiSignalS1
import LibfiberVerif.Proof.MultiSignalS2
import LibfiberVerif.Proof.MultiSignalS3
import LibfiberVerif.Proof.MultiSignalS4
import LibfiberVerif.Proof.MultiSignalS5

namespace LibfiberVerif.MultiSignal

theorem inv_step (s s' : St) (e : Ev) (hi : Inv s) (hs : step s e = some s') : Inv s' := by
  cases e with
  | callWait f => exact inv_step_callWait s s' f hi hs
  | retWait f => exact inv_step_retWait s s' f hi hs
  | callRaise f st => exact inv_step_callRaise s s' f st hi hs
  | retRaise f st r => exact inv_step_retRaise s s' f st r hi hs
  | clrScratch f => exact inv_step_clrScratch s s' f hi hs
  | rNode f g n => exact inv_step_rNode s s' f g n hi hs
  | wData f n g => exact inv_step_wData s s' f n g hi hs
  | ldC f c => exact inv_step_ldC s s' f c hi hs
  | ldH f h => exact inv_step_ldH s s' f h hi hs
  | rNext f n h => exact inv_step_rNext s s' f n h hi hs
  | wStateWaiting f => exact inv_step_wStateWaiting s s' f hi hs
  | setWait g f => exact inv_step_setWait s s' g f hi hs
  | rData f n g => exact inv_step_rData s s' f n g hi hs
  | wNode f g n => exact inv_step_wNode s s' f g n hi hs
  | rScratch f g ready => exact inv_step_rScratch s s' f g ready hi hs
  | wStateReady f g => exact inv_step_wStateReady s s' f g hi hs
  | callTake f => exact inv_step_callTake s s' f hi hs
  | took f => exact inv_step_took s s' f hi hs
  | retTake f => exact inv_step_retTake s s' f hi hs
  | callPublish f => exact inv_step_callPublish s s' f hi hs
  | ldTokens f v => exact inv_step_ldTokens s s' f v hi hs
  | casTokens f a b c ok => exact inv_step_casTokens s s' f a b c ok hi hs
  | faddTokens f old => exact inv_step_faddTokens s s' f old hi hs
  | peekHead f h => exact inv_step_peekHead s s' f h hi hs
  | wNext f n h => exact inv_step_wNext s s' f n h hi hs
  | cas2 f ec eh nc nh ok => exact inv_step_cas2 s s' f ec eh nc nh ok hi hs

theorem inv_of_run {es : List Ev} {s : St} (h : (sys (fun k => k)).run es = some s) : Inv s :=
  Sys.inv_of_run (sys (fun k => k)) Inv inv_init (fun s e s' hi hs => inv_step s s' e hi hs) h

/-! ### consequences -/

/-- the pcs of fiber_multi_signal_raise / _raise_strict from which the CAS2 is issued -/
def Pc.raiseCas (p : Pc) : Prop := (∃ c h, p = .rLdH c h) ∨ (∃ c n x, p = .rNext c n x)

/-- the pcs of fiber_multi_signal_wait from which the CAS2 is issued -/
def Pc.waitCas (p : Pc) : Prop := (∃ n c h, p = .wLdH n c h) ∨ (∃ n c h, p = .wNext n c h)

/-- A successful CAS2 of a raise either pops exactly the top waiter (which this raiser will
    wake) or finds no waiter listed and leaves RAISED. -/
theorem raise_cas_ok {s s' : St} (hi : Inv s) (f ec : Nat) (eh : H) (nc : Nat) (nh : H)
    (hr : (s.pc f).raiseCas) (hs : step s (.cas2 f ec eh nc nh true) = some s') :
    (∃ n rest, s.stack = n :: rest ∧ eh = .node n ∧ s'.stack = rest ∧ s'.head = headOf rest ∧
        s'.pc f = .rPopped n ∧ s'.waker n = some f ∧ s'.released = s.released + 1) ∨
    (s.stack = [] ∧ (eh = .nil ∨ eh = .raised) ∧ s'.stack = [] ∧ s'.head = .raised ∧
        s'.pc f = .rDone false ∧ s'.released = s.released ∧ s'.waker = s.waker ∧ s'.wakes = s.wakes) := by
  obtain ⟨hraised, hnil, hnode⟩ := stack_of_head hi
  by_cases hpre : true ≠ casOk s ec eh ∨ nc ≠ ec + 1
  · simp only [step, if_pos hpre] at hs; simp at hs
  simp only [step, if_neg hpre] at hs
  simp only [not_or, Decidable.not_not, casOk] at hpre
  obtain ⟨hok, hnc⟩ := hpre
  simp at hok
  obtain ⟨hcnt, hhead⟩ := hok
  simp only [Pc.raiseCas] at hr
  rcases hr with ⟨c, h, hpc⟩ | ⟨c, n, x, hpc⟩
  · right
    simp only [hpc] at hs
    split at hs <;> simp at hs
    rename_i hc
    obtain ⟨_, hec, heh, hh, hnh⟩ := hc
    subst hec heh hnh hs
    have hempty : s.stack = [] := by
      rcases hh with h' | h'
      · exact hnil (by rw [hhead, h'])
      · exact hraised (by rw [hhead, h'])
    simp [hempty, upd, hh]
  · left
    simp only [hpc] at hs
    split at hs <;> simp at hs
    rename_i hc
    obtain ⟨hec, heh, hnh⟩ := hc
    subst hec heh hnh hs
    obtain ⟨_, hsnap⟩ := hi.snapR3 f ec n nh hpc
    obtain ⟨_, hx⟩ := hsnap hcnt.symm
    obtain ⟨rest, hstk, hnx, _⟩ := hnode n hhead
    exact ⟨n, rest, hstk, rfl, by simp [hstk], by simp [hx, hnx], by simp [upd], by simp [upd], rfl⟩

/-- A successful CAS2 of a wait either consumes a latched RAISED (and the wait returns without
    sleeping) or lists the waiter on top. -/
theorem wait_cas_ok {s s' : St} (hi : Inv s) (f ec : Nat) (eh : H) (nc : Nat) (nh : H)
    (hw : (s.pc f).waitCas) (hs : step s (.cas2 f ec eh nc nh true) = some s') :
    (eh = .raised ∧ s.head = .raised ∧ s.stack = [] ∧ s'.head = .nil ∧ s'.stack = [] ∧
        s'.pc f = .waitDone ∧ s'.parks = s.parks ∧ s'.consumed = s.consumed + 1) ∨
    (eh ≠ .raised ∧ s'.head = .node f ∧ s'.stack = f :: s.stack ∧ s'.pc f = .wListed ∧
        s'.parks f = s.parks f + 1) := by
  obtain ⟨hraised, hnil, hnode⟩ := stack_of_head hi
  by_cases hpre : true ≠ casOk s ec eh ∨ nc ≠ ec + 1
  · simp only [step, if_pos hpre] at hs; simp at hs
  simp only [step, if_neg hpre] at hs
  simp only [not_or, Decidable.not_not, casOk] at hpre
  obtain ⟨hok, hnc⟩ := hpre
  simp at hok
  obtain ⟨hcnt, hhead⟩ := hok
  simp only [Pc.waitCas] at hw
  rcases hw with ⟨n, c, h, hpc⟩ | ⟨n, c, h, hpc⟩
  · simp only [hpc] at hs
    split at hs
    · left
      split at hs <;> simp at hs
      rename_i hc
      obtain ⟨hec, heh, hnh⟩ := hc
      subst hec heh hnh hs
      exact ⟨rfl, hhead, hraised hhead, rfl, hraised hhead, by simp [upd], rfl, rfl⟩
    all_goals (first | (simp at hs; done) | (rename_i hq; simp at hq))
  · right
    simp only [hpc] at hs
    split at hs <;> simp at hs
    rename_i hc
    obtain ⟨hec, heh, hnh⟩ := hc
    subst hec heh hnh hs
    obtain ⟨_, _, hnf, _, hnr⟩ := hi.snapW3 f n ec eh hpc
    subst hnf
    exact ⟨hnr, rfl, rfl, by simp [upd], by simp [upd]⟩

/-- each sleep is ended by at most one wake-up, issued by one raiser -/
theorem single_wake_of_inv {s : St} (hi : Inv s) (f : Nat) :
    s.wakes f ≤ s.parks f ∧ s.parks f ≤ s.wakes f + 1 ∧
    (∀ g g', (s.pc g).targets f → (s.pc g').targets f → g = g') := by
  refine ⟨?_, ?_, ?_⟩
  · rcases hi.counts f with h | h <;> omega
  · rcases hi.counts f with h | h <;> omega
  · intro g g' hg hg'
    have tw : ∀ g, (s.pc g).targets f → s.waker f = some g := by
      intro g hg
      rcases hg with h | h | h | h
      · exact hi.target_waker1 f g h
      · exact hi.target_waker2 f g h
      · exact hi.target_waker3 f g h
      · exact hi.target_waker4 f g h
    have a := tw g hg
    have b := tw g' hg'
    rw [a] at b; exact Option.some.inj b

/-- the wake-up happens after the sleeper's context switch (its marker), and it was owed -/
theorem wake_after_marker_of_inv {s s' : St} (hi : Inv s) (g f : Nat)
    (hs : step s (.wStateReady g f) = some s') :
    s.pc f = .parked ∧ s.scratch f = true ∧ s.wakes f + 1 = s.parks f ∧ f ∉ s.stack ∧
    s'.wakes f = s'.parks f := by
  simp only [step] at hs
  split at hs <;> simp at hs
  rename_i g' hpc
  obtain ⟨hg, hs⟩ := hs
  subst hg hs
  have hpk := hi.ready_parked g f hpc
  have hw := hi.target_waker4 f g hpc
  have := hi.waker_sleepy f g hw
  refine ⟨hpk, (hi.marker f).2 hpk, this.2.1, this.2.2.1, ?_⟩
  simp [upd]; omega

/-- a fiber that is asleep and not yet woken is listed, or a raiser holds it and will wake it:
    its wake-up cannot have been dropped -/
theorem asleep_accounted {s : St} (hi : Inv s) (f : Nat) (hsl : (s.pc f).sleepy)
    (hun : s.wakes f + 1 = s.parks f) :
    (f ∈ s.stack ∧ ∀ g, ¬ (s.pc g).targets f) ∨ (f ∉ s.stack ∧ ∃ g, (s.pc g).targets f) := by
  rcases hi.owed f hsl hun with h | ⟨g, h⟩
  · left
    refine ⟨h, fun g hg => ?_⟩
    have := (hi.listed f h).2.2.1 g
    rcases hg with h' | h' | h' | h'
    · exact this (hi.target_waker1 f g h')
    · exact this (hi.target_waker2 f g h')
    · exact this (hi.target_waker3 f g h')
    · exact this (hi.target_waker4 f g h')
  · right
    exact ⟨(hi.waker_sleepy f g h).2.2.1, g, hi.waker_target f g h⟩


/-- the successful double-word CASes of a trace -/
def casOkEv : Ev → Bool
  | .cas2 _ _ _ _ _ true => true
  | _ => false

theorem updates_step (s s' : St) (e : Ev) (hs : step s e = some s') :
    s'.updates = s.updates + (if casOkEv e then 1 else 0) := by
  cases e with
  | cas2 f ec eh nc nh ok =>
    by_cases hpre : ok ≠ casOk s ec eh ∨ nc ≠ ec + 1
    · simp only [step, if_pos hpre] at hs; simp at hs
    simp only [step, if_neg hpre] at hs
    cases ok <;> simp only [casOkEv] <;> (repeat' (split at hs))
    all_goals (first | contradiction | skip)
    all_goals (try simp at hs)
    all_goals (first | (subst hs; simp) | (obtain ⟨_, hs⟩ := hs; subst hs; simp))
  | _ =>
    simp only [step] at hs
    all_goals (repeat' (split at hs))
    all_goals (try simp at hs)
    all_goals (first | (subst hs; simp [casOkEv]) | (obtain ⟨_, hs⟩ := hs; subst hs; simp [casOkEv]))

theorem updates_of_run {es : List Ev} {s : St} (h : (sys (fun k => k)).run es = some s) :
    s.updates = (es.filter casOkEv).length := by
  refine Sys.hist_inv_of_run (sys (fun k => k)) (fun s es => s.updates = (es.filter casOkEv).length)
    (by simp [sys, init]) ?_ h
  intro s es e s' hI hs
  have := updates_step s s' e hs
  simp only [List.filter_append, List.length_append, this, hI]
  cases hc : casOkEv e <;> simp [List.filter, hc]

end LibfiberVerif.MultiSignal
