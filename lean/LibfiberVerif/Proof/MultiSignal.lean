/-
  Proof/MultiSignal.lean — invariants of the multi-waiter signal model (fiber_multi_signal_t,
  include/fiber_signal.h).  Multi-signal clause of property C20.

  Core of the ABA argument: `counter` is incremented by EVERY successful CAS2
  (`counter = updates`), a snapshot reads the counter FIRST, so a CAS2 that succeeds from a
  snapshot (c, h) proves that nothing changed since c was read: `head` is still h, and — for
  a raise — the node h is still the top of the list and its `next` is still what was read.
-/
import LibfiberVerif.Model.MultiSignal

namespace LibfiberVerif.MultiSignal

def headOf : List Nat → H
  | [] => .nil
  | n :: _ => .node n

/-- the `next` pointers of the listed nodes form the list -/
def Chain (next : Nat → H) : List Nat → Prop
  | [] => True
  | n :: rest => next n = headOf rest ∧ Chain next rest

theorem chain_upd_of_not_mem (next : Nat → H) (n : Nat) (h : H) :
    ∀ l : List Nat, n ∉ l → Chain next l → Chain (upd next n h) l := by
  intro l
  induction l with
  | nil => intros; trivial
  | cons m rest ih =>
    intro hn hc
    simp only [List.mem_cons, not_or] at hn
    refine ⟨?_, ih hn.2 hc.2⟩
    have : m ≠ n := fun e => hn.1 e.symm
    simp [upd, this, hc.1]

theorem headOf_eq_node {l : List Nat} {n : Nat} (h : headOf l = .node n) : ∃ rest, l = n :: rest := by
  cases l with
  | nil => simp [headOf] at h
  | cons m rest => simp [headOf] at h; exact ⟨rest, by rw [h]⟩

/-- f has listed itself and has not resumed -/
def Pc.sleepy (p : Pc) : Prop := p = .wListed ∨ p = .parking ∨ p = .parked

/-- the raiser has popped g's node and is about to wake g -/
def Pc.targets (p : Pc) (g : Nat) : Prop :=
  (∃ st, p = .rPopped st g) ∨ (∃ st, p = .rGotData st g g) ∨ (∃ st, p = .rGaveNode st g) ∨
  (∃ st, p = .rReady st g)

structure Inv (s : St) : Prop where
  cnt : s.counter = s.updates
  fnode_id : ∀ f, s.fnode f = f
  head_stack : s.head = headOf s.stack ∨ (s.stack = [] ∧ s.head = .raised)
  chain : Chain s.next s.stack
  nodup : s.stack.Nodup
  listed : ∀ n, n ∈ s.stack →
    (s.pc n).sleepy ∧ s.wakes n + 1 = s.parks n ∧ (∀ g, s.waker n ≠ some g) ∧ s.ndata n = n
  wEarly : ∀ f n, (s.pc f = .wGotNode n ∨ s.pc f = .wLoop n) → n = f
  wData : ∀ f, (s.pc f = .wLoop f ∨ (∃ c, s.pc f = .wLdC f c) ∨ (∃ c h, s.pc f = .wLdH f c h) ∨
      (∃ c h, s.pc f = .wNext f c h)) → s.ndata f = f
  snapW1 : ∀ f n c, s.pc f = .wLdC n c → c ≤ s.counter ∧ n = f
  snapW2 : ∀ f n c h, s.pc f = .wLdH n c h → c ≤ s.counter ∧ (c = s.counter → s.head = h) ∧ n = f
  snapW3 : ∀ f n c h, s.pc f = .wNext n c h →
    c ≤ s.counter ∧ (c = s.counter → s.head = h) ∧ n = f ∧ s.next n = h ∧ h ≠ .raised
  snapR1 : ∀ f st c, s.pc f = .rLdC st c → c ≤ s.counter
  snapR2 : ∀ f st c h, s.pc f = .rLdH st c h → c ≤ s.counter ∧ (c = s.counter → s.head = h)
  snapR3 : ∀ f st c n x, s.pc f = .rNext st c n x →
    c ≤ s.counter ∧ (c = s.counter → s.head = .node n ∧ x = s.next n)
  waker_target : ∀ f g, s.waker f = some g → (s.pc g).targets f
  target_waker : ∀ f g, (s.pc g).targets f → s.waker f = some g
  waker_sleepy : ∀ f g, s.waker f = some g →
    (s.pc f).sleepy ∧ s.wakes f + 1 = s.parks f ∧ f ∉ s.stack ∧ s.ndata f = f
  owed : ∀ f, (s.pc f).sleepy → s.wakes f + 1 = s.parks f → f ∈ s.stack ∨ ∃ g, s.waker f = some g
  counts : ∀ f, s.wakes f = s.parks f ∨ ((s.pc f).sleepy ∧ s.wakes f + 1 = s.parks f)
  woken_parked : ∀ f, (s.pc f).sleepy → s.wakes f = s.parks f → s.pc f = .parked
  marker : ∀ f, s.scratch f = true ↔ s.pc f = .parked
  ready_parked : ∀ r st g, s.pc r = .rReady st g → s.pc g = .parked

theorem inv_init : Inv (init (fun k => k)) := by
  constructor <;> simp [init, headOf, Chain, Pc.sleepy, Pc.targets]

end LibfiberVerif.MultiSignal
