/-
  Proof/Barrier.lean — invariants of Model/Barrier.lean (property C12).

  Structure:
  1. sums over the list of participating fibers (`tot`) and arithmetic on `counter`
  2. the coarse view of a state: every pc is classified by its signature `sig`
     (`Kind` + counter round + queue + outstanding pops); `abs : St → Abs`
  3. `ATrans`: the nine coarse transitions; `step_refines`: every accepted access-level
     step is one of them (most accesses are stutter steps)
  4. `InvA` (all variants of the code): participants, `serials = counter / count`,
     the accounting equation
        #pending waiters = counter % count + outstanding pops of the serial fibers,
     at most one fiber inside the wake loop
  5. `InvK` (only under `queues = 2 ∨ count ≤ 2`): every fiber's own round is the counter
     round of its arrival; pops never cross rounds; `entered` / `told` per round
-/
import LibfiberVerif.Model.Barrier

namespace LibfiberVerif.Barrier

/-! ## 1. sums over the participants -/

def tot (g : Nat → Nat) (l : List Nat) : Nat := (l.map g).sum

@[simp] theorem tot_nil (g : Nat → Nat) : tot g [] = 0 := rfl
@[simp] theorem tot_cons (g : Nat → Nat) (a : Nat) (l : List Nat) : tot g (a :: l) = g a + tot g l := by
  simp [tot]

theorem tot_congr {g g' : Nat → Nat} {l : List Nat} (h : ∀ x ∈ l, g x = g' x) : tot g l = tot g' l := by
  induction l with
  | nil => rfl
  | cons a l ih =>
    simp only [tot_cons]
    rw [h a (by simp), ih (fun x hx => h x (by simp [hx]))]

/-- changing the summand of one participant -/
theorem tot_change {g g' : Nat → Nat} {l : List Nat} {f : Nat}
    (hne : ∀ x, x ≠ f → g' x = g x) (hn : l.Nodup) (hf : f ∈ l) :
    tot g' l + g f = tot g l + g' f := by
  induction l with
  | nil => simp at hf
  | cons a l ih =>
    simp only [tot_cons]
    rw [List.nodup_cons] at hn
    by_cases ha : a = f
    · subst ha
      have : tot g' l = tot g l := tot_congr (fun x hx => hne x (by intro h; subst h; exact hn.1 hx))
      omega
    · have hf' : f ∈ l := by
        rcases List.mem_cons.mp hf with h | h
        · exact absurd h.symm ha
        · exact h
      have := ih hn.2 hf'
      have := hne a ha
      omega

theorem tot_change_not_mem {g g' : Nat → Nat} {l : List Nat} {f : Nat}
    (hne : ∀ x, x ≠ f → g' x = g x) (hf : f ∉ l) : tot g' l = tot g l :=
  tot_congr (fun x hx => hne x (by intro h; subst h; exact hf hx))

theorem le_tot {g : Nat → Nat} {l : List Nat} {x : Nat} (hx : x ∈ l) : g x ≤ tot g l := by
  induction l with
  | nil => simp at hx
  | cons a l ih =>
    simp only [tot_cons]
    rcases List.mem_cons.mp hx with h | h
    · subst h; omega
    · have := ih h; omega

theorem tot_eq_zero {g : Nat → Nat} {l : List Nat} (h : ∀ x ∈ l, g x = 0) : tot g l = 0 := by
  induction l with
  | nil => rfl
  | cons a l ih =>
    simp only [tot_cons]
    rw [h a (by simp), ih (fun x hx => h x (by simp [hx]))]

theorem tot_le_length {g : Nat → Nat} {l : List Nat} (h : ∀ x ∈ l, g x ≤ 1) : tot g l ≤ l.length := by
  induction l with
  | nil => simp
  | cons a l ih =>
    simp only [tot_cons, List.length_cons]
    have := h a (by simp)
    have := ih (fun x hx => h x (by simp [hx]))
    omega

/-- one participant that does not count -/
theorem tot_add_one_le {g : Nat → Nat} {l : List Nat} {f : Nat}
    (h : ∀ x ∈ l, g x ≤ 1) (hf : f ∈ l) (hg : g f = 0) : tot g l + 1 ≤ l.length := by
  induction l with
  | nil => simp at hf
  | cons a l ih =>
    simp only [tot_cons, List.length_cons]
    have h1 := h a (by simp)
    have h2 := tot_le_length (fun x hx => h x (List.mem_cons_of_mem a hx))
    rcases List.mem_cons.mp hf with e | e
    · subst e; omega
    · have := ih (fun x hx => h x (by simp [hx])) e
      omega

/-- two different participants that do not count -/
theorem tot_add_two_le {g : Nat → Nat} {l : List Nat} {f f' : Nat}
    (h : ∀ x ∈ l, g x ≤ 1) (hf : f ∈ l) (hf' : f' ∈ l) (hne : f ≠ f')
    (hg : g f = 0) (hg' : g f' = 0) : tot g l + 2 ≤ l.length := by
  induction l with
  | nil => simp at hf
  | cons a l ih =>
    simp only [tot_cons, List.length_cons]
    have h1 := h a (by simp)
    have hl : ∀ x ∈ l, g x ≤ 1 := fun x hx => h x (List.mem_cons_of_mem a hx)
    rcases List.mem_cons.mp hf with e | e
    · subst e
      rcases List.mem_cons.mp hf' with e' | e'
      · exact absurd e'.symm hne
      · have := tot_add_one_le hl e' hg'
        omega
    · rcases List.mem_cons.mp hf' with e' | e'
      · subst e'
        have := tot_add_one_le hl e hg
        omega
      · have := ih hl e e'
        omega

/-- if all but one participant must count, they all do -/
theorem all_count_of_tot {g : Nat → Nat} {l : List Nat} {f : Nat}
    (h : ∀ x ∈ l, g x ≤ 1) (hf : f ∈ l) (hg : g f = 0)
    (ht : l.length ≤ tot g l + 1) : ∀ x ∈ l, x ≠ f → g x = 1 := by
  intro x hx hxf
  have hx1 := h x hx
  by_cases h0 : g x = 1
  · exact h0
  · have h0' : g x = 0 := by omega
    have := tot_add_two_le h hx hf hxf h0' hg
    omega

/-- equal sums of pointwise ordered summands: pointwise equal -/
theorem eq_of_tot_eq {g g' : Nat → Nat} {l : List Nat}
    (h : ∀ x ∈ l, g x ≤ g' x) (ht : tot g l = tot g' l) : ∀ x ∈ l, g x = g' x := by
  induction l with
  | nil => intro x hx; simp at hx
  | cons a l ih =>
    simp only [tot_cons] at ht
    have ha := h a (by simp)
    have hl : ∀ x ∈ l, g x ≤ g' x := fun x hx => h x (List.mem_cons_of_mem a hx)
    have hle : tot g l ≤ tot g' l := by
      clear ih ht
      induction l with
      | nil => simp
      | cons b l ih2 =>
        simp only [tot_cons]
        have := hl b (by simp)
        have := ih2 (fun x hx => h x (by
          rcases List.mem_cons.mp hx with e | e
          · subst e; simp
          · simp [e])) (fun x hx => hl x (by simp [hx]))
        omega
    intro x hx
    rcases List.mem_cons.mp hx with e | e
    · subst e; omega
    · exact ih hl (by omega) x e

/-! ### arithmetic on the counter -/

theorem succ_not_dvd {count n : Nat} (hc : 0 < count) (h : (n + 1) % count ≠ 0) :
    (n + 1) % count = n % count + 1 ∧ (n + 1) / count = n / count := by
  have h1 := Nat.div_add_mod n count
  have h2 := Nat.mod_lt n hc
  have h3 : n % count + 1 < count := by
    by_cases h4 : n % count + 1 = count
    · exfalso
      apply h
      have : n + 1 = count * (n / count + 1) := by rw [Nat.mul_add]; omega
      rw [this]; exact Nat.mul_mod_right _ _
    · omega
  have h5 : n + 1 = count * (n / count) + (n % count + 1) := by omega
  constructor
  · rw [h5, Nat.mul_add_mod]; exact Nat.mod_eq_of_lt h3
  · rw [h5, Nat.mul_add_div hc, Nat.div_eq_of_lt h3]; simp

theorem succ_dvd {count n : Nat} (hc : 0 < count) (h : (n + 1) % count = 0) :
    n % count = count - 1 ∧ (n + 1) / count = n / count + 1 ∧ (n + 1) % count = 0 := by
  have h1 := Nat.div_add_mod n count
  have h2 := Nat.mod_lt n hc
  have h3 : n % count + 1 = count := by
    by_cases h4 : n % count + 1 < count
    · exfalso
      have h5 : n + 1 = count * (n / count) + (n % count + 1) := by omega
      rw [h5, Nat.mul_add_mod, Nat.mod_eq_of_lt h4] at h
      omega
    · omega
  have h5 : n + 1 = count * (n / count + 1) := by rw [Nat.mul_add]; omega
  refine ⟨by omega, ?_, h⟩
  rw [h5, Nat.mul_div_cancel_left _ hc]

/-! ## 2. the coarse view -/

inductive Kind
  | idle | called | pend | woken | pre | post | done
  deriving DecidableEq, Repr

/-- what the invariants need to know about a pc: `c` = counter round of the arrival,
    `q` = its waiter queue, `need` = pops the serial fiber still has to make -/
structure Sig where
  kind : Kind
  c : Nat
  q : Nat
  need : Nat
  deriving DecidableEq, Repr

def sig : Pc → Sig
  | .idle => ⟨.idle, 0, 0, 0⟩
  | .called => ⟨.called, 0, 0, 0⟩
  | .arrived q c => ⟨.pend, c, q, 0⟩
  | .waitSaving q c => ⟨.pend, c, q, 0⟩
  | .waitGotNode q c _ => ⟨.pend, c, q, 0⟩
  | .waitWroteData q c _ => ⟨.pend, c, q, 0⟩
  | .waitClearedNode q c _ => ⟨.pend, c, q, 0⟩
  | .pushCleared q c _ => ⟨.pend, c, q, 0⟩
  | .pushXchgd q c _ _ _ => ⟨.pend, c, q, 0⟩
  | .parked q c => ⟨.pend, c, q, 0⟩
  | .popped c => ⟨.woken, c, 0, 0⟩
  | .runnable c => ⟨.woken, c, 0, 0⟩
  | .wakeLoop q c need => ⟨.pre, c, q, need⟩
  | .popGotHead q c need _ => ⟨.pre, c, q, need⟩
  | .popGotNext q c need _ _ => ⟨.pre, c, q, need⟩
  | .popMoved q c need _ _ _ => ⟨.post, c, q, need⟩
  | .popGotData q c need _ _ _ => ⟨.post, c, q, need⟩
  | .popWrote q c need _ _ => ⟨.post, c, q, need⟩
  | .wakeGotFiber q c need _ _ => ⟨.post, c, q, need⟩
  | .wakeGaveNode q c need _ _ => ⟨.post, c, q, need⟩
  | .wakeReadState q c need _ => ⟨.post, c, q, need⟩
  | .serialDone c => ⟨.done, c, 0, 0⟩

@[simp] theorem sig_idle : sig .idle = ⟨.idle, 0, 0, 0⟩ := rfl
@[simp] theorem sig_called : sig .called = ⟨.called, 0, 0, 0⟩ := rfl
@[simp] theorem sig_arrived (q c : Nat) : sig (.arrived q c) = ⟨.pend, c, q, 0⟩ := rfl
@[simp] theorem sig_waitSaving (q c : Nat) : sig (.waitSaving q c) = ⟨.pend, c, q, 0⟩ := rfl
@[simp] theorem sig_waitGotNode (q c n : Nat) : sig (.waitGotNode q c n) = ⟨.pend, c, q, 0⟩ := rfl
@[simp] theorem sig_waitWroteData (q c n : Nat) : sig (.waitWroteData q c n) = ⟨.pend, c, q, 0⟩ := rfl
@[simp] theorem sig_waitClearedNode (q c n : Nat) : sig (.waitClearedNode q c n) = ⟨.pend, c, q, 0⟩ := rfl
@[simp] theorem sig_pushCleared (q c n : Nat) : sig (.pushCleared q c n) = ⟨.pend, c, q, 0⟩ := rfl
@[simp] theorem sig_pushXchgd (q c n p i : Nat) : sig (.pushXchgd q c n p i) = ⟨.pend, c, q, 0⟩ := rfl
@[simp] theorem sig_parked (q c : Nat) : sig (.parked q c) = ⟨.pend, c, q, 0⟩ := rfl
@[simp] theorem sig_popped (c : Nat) : sig (.popped c) = ⟨.woken, c, 0, 0⟩ := rfl
@[simp] theorem sig_runnable (c : Nat) : sig (.runnable c) = ⟨.woken, c, 0, 0⟩ := rfl
@[simp] theorem sig_wakeLoop (q c need : Nat) : sig (.wakeLoop q c need) = ⟨.pre, c, q, need⟩ := rfl
@[simp] theorem sig_popGotHead (q c need h : Nat) : sig (.popGotHead q c need h) = ⟨.pre, c, q, need⟩ := rfl
@[simp] theorem sig_popGotNext (q c need h x : Nat) : sig (.popGotNext q c need h x) = ⟨.pre, c, q, need⟩ := rfl
@[simp] theorem sig_popMoved (q c need h x g : Nat) : sig (.popMoved q c need h x g) = ⟨.post, c, q, need⟩ := rfl
@[simp] theorem sig_popGotData (q c need h x g : Nat) : sig (.popGotData q c need h x g) = ⟨.post, c, q, need⟩ := rfl
@[simp] theorem sig_popWrote (q c need h g : Nat) : sig (.popWrote q c need h g) = ⟨.post, c, q, need⟩ := rfl
@[simp] theorem sig_wakeGotFiber (q c need h g : Nat) : sig (.wakeGotFiber q c need h g) = ⟨.post, c, q, need⟩ := rfl
@[simp] theorem sig_wakeGaveNode (q c need h g : Nat) : sig (.wakeGaveNode q c need h g) = ⟨.post, c, q, need⟩ := rfl
@[simp] theorem sig_wakeReadState (q c need g : Nat) : sig (.wakeReadState q c need g) = ⟨.post, c, q, need⟩ := rfl
@[simp] theorem sig_serialDone (c : Nat) : sig (.serialDone c) = ⟨.done, c, 0, 0⟩ := rfl

structure Abs where
  counter : Nat
  members : List Nat
  rnd : Nat → Nat
  entered : Nat → Nat
  told : Nat → Nat
  serials : Nat
  sg : Nat → Sig

def abs (s : St) : Abs :=
  { counter := s.counter, members := s.members, rnd := s.rnd, entered := s.entered,
    told := s.told, serials := s.serials, sg := fun x => sig (s.pc x) }

/-- signature after a wake-up / a failed pop: loop again or done -/
def aw (q c need : Nat) : Sig := if need = 0 then ⟨.done, c, 0, 0⟩ else ⟨.pre, c, q, need⟩

theorem sig_afterWake (q c need : Nat) : sig (afterWake q c need) = aw q c need := by
  unfold afterWake aw; split <;> rfl

theorem sig_upd (pc : Nat → Pc) (f : Nat) (v : Pc) :
    (fun x => sig (upd pc f v x)) = upd (fun x => sig (pc x)) f (sig v) := by
  funext x; simp only [upd]; split <;> rfl

theorem upd_self {α : Type} (g : Nat → α) (f : Nat) : upd g f (g f) = g := by
  funext x; simp only [upd]; split
  · next h => rw [h]
  · rfl

/-- the coarse transitions -/
inductive ATrans (count queues : Nat) : Abs → Abs → Prop
  | stutter (a : Abs) : ATrans count queues a a
  | call (a : Abs) (f : Nat) (h : (a.sg f).kind = .idle) (hm : f ∈ a.members) :
      ATrans count queues a { a with sg := upd a.sg f ⟨.called, 0, 0, 0⟩ }
  | join (a : Abs) (f : Nat) (h : (a.sg f).kind = .idle) (hm : f ∉ a.members)
      (hl : a.members.length < count) :
      ATrans count queues a { a with sg := upd a.sg f ⟨.called, 0, 0, 0⟩, members := f :: a.members }
  | arrive (a : Abs) (f : Nat) (h : (a.sg f).kind = .called) (hmod : (a.counter + 1) % count ≠ 0) :
      ATrans count queues a
        { a with counter := a.counter + 1, rnd := upd a.rnd f (a.rnd f + 1),
                 entered := upd a.entered (a.rnd f + 1) (a.entered (a.rnd f + 1) + 1),
                 sg := upd a.sg f ⟨.pend, a.counter / count, (a.counter / count) % queues, 0⟩ }
  | serial (a : Abs) (f : Nat) (h : (a.sg f).kind = .called) (hmod : (a.counter + 1) % count = 0) :
      ATrans count queues a
        { a with counter := a.counter + 1, rnd := upd a.rnd f (a.rnd f + 1),
                 entered := upd a.entered (a.rnd f + 1) (a.entered (a.rnd f + 1) + 1),
                 told := upd a.told (a.rnd f + 1) (a.told (a.rnd f + 1) + 1),
                 serials := a.serials + 1,
                 sg := upd a.sg f ⟨.pre, a.counter / count, (a.counter / count) % queues, count - 1⟩ }
  | fail (a : Abs) (f q c need : Nat) (h : a.sg f = ⟨.pre, c, q, need⟩) :
      ATrans count queues a { a with sg := upd a.sg f (aw q c need) }
  | pop (a : Abs) (f g q c need c' : Nat) (hf : a.sg f = ⟨.pre, c, q, need⟩)
      (hg : a.sg g = ⟨.pend, c', q, 0⟩) :
      ATrans count queues a
        { a with sg := upd (upd a.sg g ⟨.woken, c', 0, 0⟩) f ⟨.post, c, q, need - 1⟩ }
  | wake (a : Abs) (f q c need : Nat) (h : a.sg f = ⟨.post, c, q, need⟩) :
      ATrans count queues a { a with sg := upd a.sg f (aw q c need) }
  | ret (a : Abs) (f : Nat) (h : (a.sg f).kind = .woken ∨ (a.sg f).kind = .done) :
      ATrans count queues a { a with sg := upd a.sg f ⟨.idle, 0, 0, 0⟩ }

/-! ## 3. every access-level step is a coarse transition -/

/-- a step that changes only the pc of `f`, to a pc with the same signature -/
theorem stutter_pc {count queues : Nat} (s : St) (f : Nat) (v : Pc) (h : sig v = sig (s.pc f))
    (s' : St) (hc : s'.counter = s.counter) (hm : s'.members = s.members) (hr : s'.rnd = s.rnd)
    (he : s'.entered = s.entered) (ht : s'.told = s.told) (hs : s'.serials = s.serials)
    (hp : s'.pc = upd s.pc f v) : ATrans count queues (abs s) (abs s') := by
  have : abs s' = abs s := by
    simp only [abs, hc, hm, hr, he, ht, hs, hp, sig_upd, h]
    congr 1
    exact upd_self (fun x => sig (s.pc x)) f
  rw [this]; exact .stutter _

macro "stut" hpc:term : tactic =>
  `(tactic| (refine stutter_pc _ _ _ ?_ _ rfl rfl rfl rfl rfl rfl rfl; simp [$hpc:term]))

theorem step_refines {count queues : Nat} {s s' : St} {e : Ev}
    (h : step count queues s e = some s') : ATrans count queues (abs s) (abs s') := by
  cases e with
  | callWait f k =>
    simp only [step] at h
    split at h
    · next hg =>
      split at h
      · next hm =>
        simp at h; subst h
        have hT := ATrans.call (count := count) (queues := queues) (abs s) f (by simp [abs, hg.1]) (by simpa [abs] using hm)
        simpa [abs, sig_upd] using hT
      · next hm =>
        split at h
        · next hl =>
          simp at h; subst h
          have hT := ATrans.join (count := count) (queues := queues) (abs s) f (by simp [abs, hg.1]) (by simpa [abs] using hm) (by simpa [abs] using hl)
          simpa [abs, sig_upd] using hT
        · simp at h
    · simp at h
  | fadd f old =>
    simp only [step] at h
    split at h
    · next hpc =>
      split at h
      · next ho =>
        subst ho
        split at h
        · next hmod =>
          simp at h; subst h
          have hT := ATrans.serial (count := count) (queues := queues) (abs s) f (by simp [abs, hpc]) (by simpa [abs] using hmod)
          simpa [abs, sig_upd] using hT
        · next hmod =>
          simp at h; subst h
          have hT := ATrans.arrive (count := count) (queues := queues) (abs s) f (by simp [abs, hpc]) (by simpa [abs] using hmod)
          simpa [abs, sig_upd] using hT
      · simp at h
    · simp at h
  | wState f g v =>
    simp only [step] at h
    split at h
    · next q c hpc =>
      split at h
      · simp at h; subst h; stut hpc
      · simp at h
    · next q c need g' hpc =>
      split at h
      · split at h
        · next c' hg =>
          simp at h; subst h
          have hT := ATrans.wake (count := count) (queues := queues) (abs s) f q c need (by simp [abs, hpc])
          have hgg : upd (fun x => sig (s.pc x)) g ⟨.woken, c', 0, 0⟩ = fun x => sig (s.pc x) := by
            have := upd_self (fun x => sig (s.pc x)) g
            simpa [hg] using this
          simpa [abs, sig_upd, sig_afterWake, hgg] using hT
        · simp at h
      · simp at h
    · simp at h
  | rState f g v =>
    simp only [step] at h
    split at h
    · next q c need h0 g' hpc =>
      split at h
      · split at h
        · simp at h; subst h; stut hpc
        · split at h
          · next c' hg =>
            simp at h; subst h
            have hT := ATrans.wake (count := count) (queues := queues) (abs s) f q c need (by simp [abs, hpc])
            have hgg : upd (fun x => sig (s.pc x)) g ⟨.woken, c', 0, 0⟩ = fun x => sig (s.pc x) := by
              have := upd_self (fun x => sig (s.pc x)) g
              simpa [hg] using this
            simpa [abs, sig_upd, sig_afterWake, hgg] using hT
          · simp at h
      · simp at h
    · simp at h
  | rNode f g n =>
    simp only [step] at h
    split at h
    · next q c hpc =>
      split at h
      · simp at h; subst h; stut hpc
      · simp at h
    · simp at h
  | wNode f g n =>
    simp only [step] at h
    split at h
    · next q c m hpc =>
      split at h
      · simp at h; subst h; stut hpc
      · simp at h
    · next q c need h0 g' hpc =>
      split at h
      · simp at h; subst h; stut hpc
      · simp at h
    · simp at h
  | wData f n g =>
    simp only [step] at h
    split at h
    · next q c m hpc =>
      split at h
      · simp at h; subst h; stut hpc
      · simp at h
    · next q c need h0 x0 g' hpc =>
      split at h
      · simp at h; subst h; stut hpc
      · simp at h
    · simp at h
  | rData f n g =>
    simp only [step] at h
    split at h
    · next q c need h0 x0 g' hpc =>
      split at h
      · simp at h; subst h; stut hpc
      · simp at h
    · next q c need h0 g' hpc =>
      split at h
      · simp at h; subst h; stut hpc
      · simp at h
    · simp at h
  | wNext f n x =>
    simp only [step] at h
    split at h
    · next q c m hpc =>
      split at h
      · simp at h; subst h; stut hpc
      · simp at h
    · next q c m p i hpc =>
      split at h
      · simp at h; subst h; stut hpc
      · simp at h
    · simp at h
  | rNext f n x =>
    simp only [step] at h
    split at h
    · next q c need h0 hpc =>
      split at h
      · split at h
        · simp at h; subst h
          have hT := ATrans.fail (count := count) (queues := queues) (abs s) f q c need (by simp [abs, hpc])
          simpa [abs, sig_upd, sig_afterWake] using hT
        · simp at h; subst h; stut hpc
      · simp at h
    · simp at h
  | xchgTail f qi old new =>
    simp only [step] at h
    split at h
    · next q c m hpc =>
      split at h
      · simp at h; subst h; stut hpc
      · simp at h
    · simp at h
  | rHead f qi n =>
    simp only [step] at h
    split at h
    · next q c need hpc =>
      split at h
      · simp at h; subst h; stut hpc
      · simp at h
    · simp at h
  | wHead f qi n =>
    simp only [step] at h
    split at h
    · next q c need h0 x0 hpc =>
      split at h
      · split at h
        · next e he =>
          split at h
          · next hg =>
            simp at h; subst h
            have hT := ATrans.pop (count := count) (queues := queues) (abs s) f e.fiber q c need e.c
              (by simp [abs, hpc]) (by simp [abs, hg])
            simpa [abs, sig_upd] using hT
          · simp at h
        · simp at h
      · simp at h
    · simp at h
  | retWait f k serial =>
    simp only [step] at h
    split at h
    · split at h
      · next c hpc =>
        split at h
        · simp at h; subst h
          have hT := ATrans.ret (count := count) (queues := queues) (abs s) f (by simp [abs, hpc])
          simpa [abs, sig_upd] using hT
        · simp at h
      · next c hpc =>
        split at h
        · simp at h
        · simp at h; subst h
          have hT := ATrans.ret (count := count) (queues := queues) (abs s) f (by simp [abs, hpc])
          simpa [abs, sig_upd] using hT
      · simp at h
    · simp at h

/-! ## 4. invariants of every variant of the code -/

def pendW (s : Sig) : Nat := if s.kind = .pend then 1 else 0
def needW (s : Sig) : Nat := if s.kind = .pre ∨ s.kind = .post then s.need else 0
def waking (s : Sig) : Prop := s.kind = .pre ∨ s.kind = .post

theorem pendW_le (s : Sig) : pendW s ≤ 1 := by unfold pendW; split <;> omega

theorem tot_upd_same (w : Sig → Nat) (sg : Nat → Sig) (f : Nat) (v : Sig) (l : List Nat)
    (h : w v = w (sg f)) : tot (fun x => w (upd sg f v x)) l = tot (fun x => w (sg x)) l := by
  apply tot_congr
  intro x _
  by_cases hx : x = f
  · subst hx; simp [h]
  · simp [upd_other _ _ _ _ hx]

theorem tot_upd_mem (w : Sig → Nat) (sg : Nat → Sig) (f : Nat) (v : Sig) (l : List Nat)
    (hn : l.Nodup) (hf : f ∈ l) :
    tot (fun x => w (upd sg f v x)) l + w (sg f) = tot (fun x => w (sg x)) l + w v := by
  have := tot_change (g := fun x => w (sg x)) (g' := fun x => w (upd sg f v x)) (l := l) (f := f)
    (by intro x hx; simp [upd_other _ _ _ _ hx]) hn hf
  simpa using this

structure InvA (count : Nat) (a : Abs) : Prop where
  nodup : a.members.Nodup
  len : a.members.length ≤ count
  mem : ∀ x, (a.sg x).kind ≠ .idle → x ∈ a.members
  ser : a.serials = a.counter / count
  acct : tot (fun x => pendW (a.sg x)) a.members
          = a.counter % count + tot (fun x => needW (a.sg x)) a.members
  preNeed : ∀ x, (a.sg x).kind = .pre → 1 ≤ (a.sg x).need ∨ count = 1
  needLe : ∀ x, needW (a.sg x) ≤ count - 1
  single : ∀ x y, waking (a.sg x) → waking (a.sg y) → x = y

theorem aw_cases (q c need : Nat) :
    (need = 0 ∧ aw q c need = ⟨.done, c, 0, 0⟩) ∨ (need ≠ 0 ∧ aw q c need = ⟨.pre, c, q, need⟩) := by
  unfold aw; split
  · left; exact ⟨‹_›, rfl⟩
  · right; exact ⟨‹_›, rfl⟩

theorem pw_upd {P : Sig → Prop} {sg : Nat → Sig} {f : Nat} {v : Sig}
    (h : ∀ x, P (sg x)) (hv : P v) : ∀ x, P (upd sg f v x) := by
  intro x; by_cases hx : x = f
  · subst hx; simpa using hv
  · simpa [upd_other _ _ _ _ hx] using h x

theorem mem_upd {sg : Nat → Sig} {f : Nat} {v : Sig} {l : List Nat}
    (h : ∀ x, (sg x).kind ≠ .idle → x ∈ l) (hf : v.kind ≠ .idle → f ∈ l) :
    ∀ x, (upd sg f v x).kind ≠ .idle → x ∈ l := by
  intro x hx; by_cases hxf : x = f
  · subst hxf; exact hf (by simpa using hx)
  · exact h x (by simpa [upd_other _ _ _ _ hxf] using hx)

theorem single_upd_nonwaking {sg : Nat → Sig} {f : Nat} {v : Sig}
    (hs : ∀ x y, waking (sg x) → waking (sg y) → x = y) (hv : ¬ waking v) :
    ∀ x y, waking (upd sg f v x) → waking (upd sg f v y) → x = y := by
  intro x y hx hy
  have hx' : waking (sg x) := by
    by_cases hxf : x = f
    · subst hxf; simp at hx; exact absurd hx hv
    · simpa [upd_other _ _ _ _ hxf] using hx
  have hy' : waking (sg y) := by
    by_cases hyf : y = f
    · subst hyf; simp at hy; exact absurd hy hv
    · simpa [upd_other _ _ _ _ hyf] using hy
  exact hs x y hx' hy'

theorem single_upd_waking {sg : Nat → Sig} {f : Nat} {v : Sig}
    (hs : ∀ x y, waking (sg x) → waking (sg y) → x = y) (hf : waking (sg f)) :
    ∀ x y, waking (upd sg f v x) → waking (upd sg f v y) → x = y := by
  have key : ∀ x, waking (upd sg f v x) → x = f := by
    intro x hx
    by_cases hxf : x = f
    · exact hxf
    · exact hs x f (by simpa [upd_other _ _ _ _ hxf] using hx) hf
  intro x y hx hy
  rw [key x hx, key y hy]

theorem single_upd_new {sg : Nat → Sig} {f : Nat} {v : Sig}
    (hno : ∀ y, y ≠ f → ¬ waking (sg y)) :
    ∀ x y, waking (upd sg f v x) → waking (upd sg f v y) → x = y := by
  have key : ∀ x, waking (upd sg f v x) → x = f := by
    intro x hx
    by_cases hxf : x = f
    · exact hxf
    · exact absurd (by simpa [upd_other _ _ _ _ hxf] using hx) (hno x hxf)
  intro x y hx hy
  rw [key x hx, key y hy]

theorem InvA.step {count queues : Nat} (hc : 0 < count) {a a' : Abs} (hI : InvA count a)
    (ht : ATrans count queues a a') : InvA count a' := by
  cases ht with
  | stutter => exact hI
  | call f h hm =>
    have hp : pendW ⟨.called, 0, 0, 0⟩ = pendW (a.sg f) := by simp [pendW, h]
    have hn : needW ⟨.called, 0, 0, 0⟩ = needW (a.sg f) := by simp [needW, h]
    refine ⟨hI.nodup, hI.len, mem_upd hI.mem (fun _ => hm), hI.ser, ?_,
      pw_upd (P := fun s => s.kind = .pre → 1 ≤ s.need ∨ count = 1) hI.preNeed (by simp),
      pw_upd (P := fun s => needW s ≤ count - 1) hI.needLe (by simp [needW]),
      single_upd_nonwaking hI.single (by simp [waking])⟩
    show tot (fun x => pendW (upd a.sg f _ x)) a.members = _ + tot (fun x => needW (upd a.sg f _ x)) a.members
    rw [tot_upd_same pendW _ _ _ _ hp, tot_upd_same needW _ _ _ _ hn]; exact hI.acct
  | join f h hm hl =>
    have hp : pendW ⟨.called, 0, 0, 0⟩ = pendW (a.sg f) := by simp [pendW, h]
    have hn : needW ⟨.called, 0, 0, 0⟩ = needW (a.sg f) := by simp [needW, h]
    refine ⟨List.nodup_cons.mpr ⟨hm, hI.nodup⟩, by simp only [List.length_cons]; omega, ?_, hI.ser, ?_,
      pw_upd (P := fun s => s.kind = .pre → 1 ≤ s.need ∨ count = 1) hI.preNeed (by simp),
      pw_upd (P := fun s => needW s ≤ count - 1) hI.needLe (by simp [needW]),
      single_upd_nonwaking hI.single (by simp [waking])⟩
    · exact mem_upd (fun x hx => List.mem_cons_of_mem _ (hI.mem x hx)) (fun _ => by simp)
    · show tot (fun x => pendW (upd a.sg f _ x)) (f :: a.members)
        = _ + tot (fun x => needW (upd a.sg f _ x)) (f :: a.members)
      simp only [tot_cons, upd_same]
      rw [tot_upd_same pendW _ _ _ _ hp, tot_upd_same needW _ _ _ _ hn]
      have := hI.acct
      have e1 : pendW ⟨.called, 0, 0, 0⟩ = 0 := rfl
      have e2 : needW ⟨.called, 0, 0, 0⟩ = 0 := rfl
      rw [e1, e2]; omega
  | arrive f h hmod =>
    have hfm : f ∈ a.members := hI.mem f (by simp [h])
    have hn : needW ⟨.pend, a.counter / count, a.counter / count % queues, 0⟩ = needW (a.sg f) := by
      simp [needW, h]
    have hp := tot_upd_mem pendW a.sg f ⟨.pend, a.counter / count, a.counter / count % queues, 0⟩
      a.members hI.nodup hfm
    have har := succ_not_dvd hc hmod
    refine ⟨hI.nodup, hI.len, mem_upd hI.mem (fun _ => hfm), ?_, ?_,
      pw_upd (P := fun s => s.kind = .pre → 1 ≤ s.need ∨ count = 1) hI.preNeed (by simp),
      pw_upd (P := fun s => needW s ≤ count - 1) hI.needLe (by simp [needW]),
      single_upd_nonwaking hI.single (by simp [waking])⟩
    · show a.serials = (a.counter + 1) / count
      rw [har.2]; exact hI.ser
    · show tot (fun x => pendW (upd a.sg f _ x)) a.members
        = (a.counter + 1) % count + tot (fun x => needW (upd a.sg f _ x)) a.members
      rw [tot_upd_same needW _ _ _ _ hn, har.1]
      have := hI.acct
      have e1 : pendW (a.sg f) = 0 := by simp [pendW, h]
      have e2 : pendW ⟨.pend, a.counter / count, a.counter / count % queues, 0⟩ = 1 := rfl
      rw [e1, e2] at hp
      omega
  | serial f h hmod =>
    have hfm : f ∈ a.members := hI.mem f (by simp [h])
    have hp : pendW ⟨.pre, a.counter / count, a.counter / count % queues, count - 1⟩ = pendW (a.sg f) := by
      simp [pendW, h]
    have hn := tot_upd_mem needW a.sg f ⟨.pre, a.counter / count, a.counter / count % queues, count - 1⟩
      a.members hI.nodup hfm
    have har := succ_dvd hc hmod
    have hacct := hI.acct
    refine ⟨hI.nodup, hI.len, mem_upd hI.mem (fun _ => hfm), ?_, ?_,
      pw_upd (P := fun s => s.kind = .pre → 1 ≤ s.need ∨ count = 1) hI.preNeed (by simp; omega),
      pw_upd (P := fun s => needW s ≤ count - 1) hI.needLe (by simp [needW]),
      single_upd_new ?_⟩
    · show a.serials + 1 = (a.counter + 1) / count
      rw [har.2.1, hI.ser]
    · show tot (fun x => pendW (upd a.sg f _ x)) a.members
        = (a.counter + 1) % count + tot (fun x => needW (upd a.sg f _ x)) a.members
      rw [tot_upd_same pendW _ _ _ _ hp, har.2.2]
      have e1 : needW (a.sg f) = 0 := by simp [needW, h]
      have e2 : needW ⟨.pre, a.counter / count, a.counter / count % queues, count - 1⟩ = count - 1 := by
        simp [needW]
      rw [e1, e2] at hn
      omega
    · -- a second fiber inside the wake loop: impossible by counting the participants
      intro y hy hw
      have hym : y ∈ a.members := hI.mem y (by rcases hw with e | e <;> simp [e])
      have hpy : pendW (a.sg y) = 0 := by rcases hw with e | e <;> simp [pendW, e]
      have hpf : pendW (a.sg f) = 0 := by simp [pendW, h]
      have := tot_add_two_le (g := fun x => pendW (a.sg x)) (fun x _ => pendW_le _) hym hfm hy hpy hpf
      have := hI.len
      omega
  | fail f q c need h =>
    have hfm : f ∈ a.members := hI.mem f (by simp [h])
    have hwf : waking (a.sg f) := by simp [waking, h]
    have hp : pendW (aw q c need) = pendW (a.sg f) := by
      rcases aw_cases q c need with ⟨_, e⟩ | ⟨_, e⟩ <;> simp [pendW, h, e]
    have hn : needW (aw q c need) = needW (a.sg f) := by
      rcases aw_cases q c need with ⟨e0, e⟩ | ⟨_, e⟩
      · rw [e, h]; simp [needW, e0]
      · rw [e, h]; try simp [needW]
    refine ⟨hI.nodup, hI.len, mem_upd hI.mem (fun _ => hfm), hI.ser, ?_,
      pw_upd (P := fun s => s.kind = .pre → 1 ≤ s.need ∨ count = 1) hI.preNeed ?_,
      pw_upd (P := fun s => needW s ≤ count - 1) hI.needLe (by rw [hn]; exact hI.needLe f),
      single_upd_waking hI.single hwf⟩
    · show tot (fun x => pendW (upd a.sg f _ x)) a.members = _ + tot (fun x => needW (upd a.sg f _ x)) a.members
      rw [tot_upd_same pendW _ _ _ _ hp, tot_upd_same needW _ _ _ _ hn]; exact hI.acct
    · rcases aw_cases q c need with ⟨_, e⟩ | ⟨e0, e⟩
      · rw [e]; simp
      · rw [e]; simp; omega
  | wake f q c need h =>
    have hfm : f ∈ a.members := hI.mem f (by simp [h])
    have hwf : waking (a.sg f) := by simp [waking, h]
    have hp : pendW (aw q c need) = pendW (a.sg f) := by
      rcases aw_cases q c need with ⟨_, e⟩ | ⟨_, e⟩ <;> simp [pendW, h, e]
    have hn : needW (aw q c need) = needW (a.sg f) := by
      rcases aw_cases q c need with ⟨e0, e⟩ | ⟨_, e⟩
      · rw [e, h]; simp [needW, e0]
      · rw [e, h]; try simp [needW]
    refine ⟨hI.nodup, hI.len, mem_upd hI.mem (fun _ => hfm), hI.ser, ?_,
      pw_upd (P := fun s => s.kind = .pre → 1 ≤ s.need ∨ count = 1) hI.preNeed ?_,
      pw_upd (P := fun s => needW s ≤ count - 1) hI.needLe (by rw [hn]; exact hI.needLe f),
      single_upd_waking hI.single hwf⟩
    · show tot (fun x => pendW (upd a.sg f _ x)) a.members = _ + tot (fun x => needW (upd a.sg f _ x)) a.members
      rw [tot_upd_same pendW _ _ _ _ hp, tot_upd_same needW _ _ _ _ hn]; exact hI.acct
    · rcases aw_cases q c need with ⟨_, e⟩ | ⟨e0, e⟩
      · rw [e]; simp
      · rw [e]; simp; omega
  | ret f h =>
    have hp : pendW ⟨.idle, 0, 0, 0⟩ = pendW (a.sg f) := by rcases h with e | e <;> simp [pendW, e]
    have hn : needW ⟨.idle, 0, 0, 0⟩ = needW (a.sg f) := by rcases h with e | e <;> simp [needW, e]
    refine ⟨hI.nodup, hI.len, mem_upd hI.mem (by simp), hI.ser, ?_,
      pw_upd (P := fun s => s.kind = .pre → 1 ≤ s.need ∨ count = 1) hI.preNeed (by simp),
      pw_upd (P := fun s => needW s ≤ count - 1) hI.needLe (by simp [needW]),
      single_upd_nonwaking hI.single (by simp [waking])⟩
    show tot (fun x => pendW (upd a.sg f _ x)) a.members = _ + tot (fun x => needW (upd a.sg f _ x)) a.members
    rw [tot_upd_same pendW _ _ _ _ hp, tot_upd_same needW _ _ _ _ hn]; exact hI.acct
  | pop f g q c need c' hf hg =>
    have hfm : f ∈ a.members := hI.mem f (by simp [hf])
    have hgm : g ∈ a.members := hI.mem g (by simp [hg])
    have hfg : f ≠ g := by intro e; rw [e, hg] at hf; simp at hf
    have hwf : waking (a.sg f) := by simp [waking, hf]
    -- the serial fiber still has a pop to make: otherwise count = 1 and nobody can be pending
    have hneed : 1 ≤ need := by
      rcases hI.preNeed f (by simp [hf]) with h1 | h1
      · simpa [hf] using h1
      · exfalso
        have hz : tot (fun x => needW (a.sg x)) a.members = 0 :=
          tot_eq_zero (fun x _ => by have := hI.needLe x; omega)
        have h1g : pendW (a.sg g) ≤ tot (fun x => pendW (a.sg x)) a.members :=
          le_tot (g := fun x => pendW (a.sg x)) hgm
        have := hI.acct
        have hm1 : a.counter % count = 0 := by rw [h1]; exact Nat.mod_one _
        have e1 : pendW (a.sg g) = 1 := by simp [pendW, hg]
        omega
    -- bookkeeping of the two sums
    have hp1 := tot_upd_mem pendW a.sg g ⟨.woken, c', 0, 0⟩ a.members hI.nodup hgm
    have hp2 : tot (fun x => pendW (upd (upd a.sg g ⟨.woken, c', 0, 0⟩) f ⟨.post, c, q, need - 1⟩ x)) a.members
        = tot (fun x => pendW (upd a.sg g ⟨.woken, c', 0, 0⟩ x)) a.members :=
      tot_upd_same pendW _ _ _ _ (by simp [pendW, upd_other _ _ _ _ hfg, hf])
    have hn1 : tot (fun x => needW (upd a.sg g ⟨.woken, c', 0, 0⟩ x)) a.members
        = tot (fun x => needW (a.sg x)) a.members :=
      tot_upd_same needW _ _ _ _ (by simp [needW, hg])
    have hn2 := tot_upd_mem needW (upd a.sg g ⟨.woken, c', 0, 0⟩) f ⟨.post, c, q, need - 1⟩
      a.members hI.nodup hfm
    have e1 : pendW (a.sg g) = 1 := by simp [pendW, hg]
    have e2 : pendW ⟨.woken, c', 0, 0⟩ = 0 := rfl
    have e3 : needW (upd a.sg g ⟨.woken, c', 0, 0⟩ f) = need := by
      simp [needW, upd_other _ _ _ _ hfg, hf]
    have e4 : needW ⟨.post, c, q, need - 1⟩ = need - 1 := by simp [needW]
    rw [e1, e2] at hp1
    rw [e3, e4] at hn2
    have hacct := hI.acct
    refine ⟨hI.nodup, hI.len, mem_upd (mem_upd hI.mem (fun _ => hgm)) (fun _ => hfm), hI.ser, ?_,
      pw_upd (P := fun s => s.kind = .pre → 1 ≤ s.need ∨ count = 1)
        (pw_upd (P := fun s => s.kind = .pre → 1 ≤ s.need ∨ count = 1) hI.preNeed (by simp)) (by simp),
      pw_upd (P := fun s => needW s ≤ count - 1)
        (pw_upd (P := fun s => needW s ≤ count - 1) hI.needLe (by simp [needW])) ?_,
      single_upd_waking (single_upd_nonwaking hI.single (by simp [waking]))
        (by simp [waking, upd_other _ _ _ _ hfg, hf])⟩
    · show tot (fun x => pendW (upd (upd a.sg g _) f _ x)) a.members
        = a.counter % count + tot (fun x => needW (upd (upd a.sg g _) f _ x)) a.members
      rw [hp2]; rw [hn1] at hn2; omega
    · have := hI.needLe f
      simp [needW, hf] at this ⊢; omega


theorem InvA.init (count : Nat) (nodeOf : Nat → Nat) : InvA count (abs (init nodeOf)) := by
  refine ⟨by simp [abs, Barrier.init], by simp [abs, Barrier.init], ?_, by simp [abs, Barrier.init], by simp [abs, Barrier.init],
    ?_, ?_, ?_⟩
  · intro x hx; simp [abs, Barrier.init] at hx
  · intro x hx; simp [abs, Barrier.init] at hx
  · intro x; simp [abs, Barrier.init, needW]
  · intro x y hx; simp [abs, Barrier.init, waking] at hx

/-! ## 5. rounds do not mix: invariants under `queues = 2 ∨ count ≤ 2` -/

def pendAtW (m : Nat) (s : Sig) : Nat := if s.kind = .pend ∧ s.c = m then 1 else 0

theorem pendAtW_le_pendW (m : Nat) (s : Sig) : pendAtW m s ≤ pendW s := by
  unfold pendAtW pendW; split
  · next h => simp [h.1]
  · omega

/-- relation between a fiber's signature, its own round `r` and the counter round `M`
    (= number of completed rounds) -/
def fiberOk (queues M : Nat) (isMember : Prop) (r : Nat) (s : Sig) : Prop :=
  match s.kind with
  | .idle => (isMember → r = M) ∧ (¬ isMember → r = 0)
  | .called => (isMember → r = M) ∧ (¬ isMember → r = 0)
  | .pend => (s.c = M ∨ s.c + 1 = M) ∧ r = s.c + 1 ∧ s.q = s.c % queues
  | .woken => s.c + 1 = M ∧ r = M
  | .done => s.c + 1 = M ∧ r = M
  | .pre => s.c + 1 = M ∧ r = M ∧ s.q = s.c % queues
  | .post => s.c + 1 = M ∧ r = M ∧ s.q = s.c % queues

structure InvK (count queues : Nat) (a : Abs) : Prop where
  full : 1 ≤ a.counter / count → a.members.length = count
  fib : ∀ x, fiberOk queues (a.counter / count) (x ∈ a.members) (a.rnd x) (a.sg x)
  cur : tot (fun x => pendAtW (a.counter / count) (a.sg x)) a.members = a.counter % count
  past : ∀ k, 1 ≤ k → k ≤ a.counter / count → a.entered k = count ∧ a.told k = 1
  now : a.entered (a.counter / count + 1) = a.counter % count ∧ a.told (a.counter / count + 1) = 0
  future : ∀ k, a.counter / count + 1 < k → a.entered k = 0 ∧ a.told k = 0

theorem fib_upd {queues M : Nat} {mem : Nat → Prop} {rnd : Nat → Nat} {sg : Nat → Sig} {f : Nat} {v : Sig}
    (h : ∀ x, fiberOk queues M (mem x) (rnd x) (sg x)) (hv : fiberOk queues M (mem f) (rnd f) v) :
    ∀ x, fiberOk queues M (mem x) (rnd x) (upd sg f v x) := by
  intro x; by_cases hx : x = f
  · subst hx; simpa using hv
  · simpa [upd_other _ _ _ _ hx] using h x

theorem InvK.step {count queues : Nat} (hc : 0 < count) (H : queues = 2 ∨ count ≤ 2)
    {a a' : Abs} (hA : InvA count a) (hK : InvK count queues a)
    (ht : ATrans count queues a a') : InvK count queues a' := by
  cases ht with
  | stutter => exact hK
  | call f h hm =>
    have hf := hK.fib f
    refine ⟨hK.full, fib_upd hK.fib ?_, ?_, hK.past, hK.now, hK.future⟩
    · simp [fiberOk, h] at hf ⊢; exact hf
    · show tot (fun x => pendAtW _ (upd a.sg f _ x)) a.members = _
      rw [tot_upd_same (pendAtW _) _ _ _ _ (by simp [pendAtW, h])]; exact hK.cur
  | join f h hm hl =>
    have hf := hK.fib f
    have hM : a.counter / count = 0 := by
      by_cases h1 : 1 ≤ a.counter / count
      · have := hK.full h1; omega
      · exact Nat.lt_one_iff.mp (Nat.lt_of_not_ge h1)
    refine ⟨?_, ?_, ?_, hK.past, hK.now, hK.future⟩
    · intro h1; show (f :: a.members).length = count
      exfalso
      have h1' : 1 ≤ a.counter / count := h1
      rw [hM] at h1'; omega
    · intro x; show fiberOk queues (a.counter / count) (x ∈ f :: a.members) (a.rnd x) (upd a.sg f _ x)
      by_cases hx : x = f
      · subst hx
        simp [fiberOk, h, hm] at hf
        simp [fiberOk, hf, hM]
      · have := hK.fib x
        simpa [upd_other _ _ _ _ hx, hx] using this
    · show tot (fun x => pendAtW _ (upd a.sg f _ x)) (f :: a.members) = _
      simp only [tot_cons, upd_same]
      rw [tot_upd_same (pendAtW _) _ _ _ _ (by simp [pendAtW, h])]
      have := hK.cur
      have e1 : pendAtW (a.counter / count) ⟨.called, 0, 0, 0⟩ = 0 := by simp [pendAtW]
      rw [e1]; omega
  | arrive f h hmod =>
    have hfm : f ∈ a.members := hA.mem f (by simp [h])
    have hf := hK.fib f
    simp [fiberOk, h, hfm] at hf
    have har := succ_not_dvd hc hmod
    have hp := tot_upd_mem (pendAtW (a.counter / count)) a.sg f
      ⟨.pend, a.counter / count, a.counter / count % queues, 0⟩ a.members hA.nodup hfm
    have e1 : pendAtW (a.counter / count) (a.sg f) = 0 := by simp [pendAtW, h]
    have e2 : pendAtW (a.counter / count) ⟨.pend, a.counter / count, a.counter / count % queues, 0⟩ = 1 := by
      simp [pendAtW]
    rw [e1, e2] at hp
    refine ⟨?_, ?_, ?_, ?_, ?_, ?_⟩
    · show 1 ≤ (a.counter + 1) / count → _
      rw [har.2]; exact hK.full
    · intro x
      show fiberOk queues ((a.counter + 1) / count) (x ∈ a.members) (upd a.rnd f (a.rnd f + 1) x) (upd a.sg f _ x)
      rw [har.2]
      by_cases hx : x = f
      · subst hx; simp [fiberOk, hf]
      · simpa [upd_other _ _ _ _ hx] using hK.fib x
    · show tot (fun x => pendAtW ((a.counter + 1) / count) (upd a.sg f _ x)) a.members = (a.counter + 1) % count
      rw [har.2, har.1]; have := hK.cur; omega
    · intro k hk1 hk2
      show upd a.entered (a.rnd f + 1) _ k = count ∧ a.told k = 1
      have hk2' : k ≤ a.counter / count := by rw [← har.2]; exact hk2
      rw [upd_other _ _ _ _ (by omega)]
      exact hK.past k hk1 hk2'
    · show upd a.entered (a.rnd f + 1) _ ((a.counter + 1) / count + 1) = (a.counter + 1) % count ∧
        a.told ((a.counter + 1) / count + 1) = 0
      rw [har.2, har.1, hf]
      have := hK.now
      simp [this.1, this.2]
    · intro k hk
      show upd a.entered (a.rnd f + 1) _ k = 0 ∧ a.told k = 0
      have hk' : a.counter / count + 1 < k := by rw [← har.2]; exact hk
      rw [upd_other _ _ _ _ (by omega)]
      exact hK.future k hk'
  | fail f q c need h =>
    have hf := hK.fib f
    refine ⟨hK.full, fib_upd hK.fib ?_, ?_, hK.past, hK.now, hK.future⟩
    · rcases aw_cases q c need with ⟨_, e⟩ | ⟨_, e⟩
      · rw [e]; simp [fiberOk, h] at hf ⊢; exact ⟨hf.1, hf.2.1⟩
      · rw [e]; simp [fiberOk, h] at hf ⊢; exact hf
    · show tot (fun x => pendAtW _ (upd a.sg f _ x)) a.members = _
      rw [tot_upd_same (pendAtW _) _ _ _ _ (by
        rcases aw_cases q c need with ⟨_, e⟩ | ⟨_, e⟩ <;> rw [e] <;> simp [pendAtW, h])]
      exact hK.cur
  | wake f q c need h =>
    have hf := hK.fib f
    refine ⟨hK.full, fib_upd hK.fib ?_, ?_, hK.past, hK.now, hK.future⟩
    · rcases aw_cases q c need with ⟨_, e⟩ | ⟨_, e⟩
      · rw [e]; simp [fiberOk, h] at hf ⊢; exact ⟨hf.1, hf.2.1⟩
      · rw [e]; simp [fiberOk, h] at hf ⊢; exact hf
    · show tot (fun x => pendAtW _ (upd a.sg f _ x)) a.members = _
      rw [tot_upd_same (pendAtW _) _ _ _ _ (by
        rcases aw_cases q c need with ⟨_, e⟩ | ⟨_, e⟩ <;> rw [e] <;> simp [pendAtW, h])]
      exact hK.cur
  | ret f h =>
    have hf := hK.fib f
    have hfm : f ∈ a.members := hA.mem f (by rcases h with e | e <;> simp [e])
    refine ⟨hK.full, fib_upd hK.fib ?_, ?_, hK.past, hK.now, hK.future⟩
    · rcases h with e | e <;> simp [fiberOk, e, hfm] at hf ⊢ <;> exact hf.2
    · show tot (fun x => pendAtW _ (upd a.sg f _ x)) a.members = _
      rw [tot_upd_same (pendAtW _) _ _ _ _ (by rcases h with e | e <;> simp [pendAtW, e])]
      exact hK.cur
  | serial f h hmod =>
    have hfm : f ∈ a.members := hA.mem f (by simp [h])
    have hf := hK.fib f
    simp [fiberOk, h, hfm] at hf
    have har := succ_dvd hc hmod
    have hacct := hA.acct
    have hpf : pendW (a.sg f) = 0 := by simp [pendW, h]
    have hle := tot_add_one_le (g := fun x => pendW (a.sg x)) (fun x _ => pendW_le _) hfm hpf
    have hlen := hA.len
    -- all the other participants are pending, nobody is being woken, everybody has joined
    have hP : tot (fun x => pendW (a.sg x)) a.members = count - 1 := by omega
    have hlen' : a.members.length = count := by omega
    have hall := all_count_of_tot (g := fun x => pendW (a.sg x)) (fun x _ => pendW_le _) hfm hpf (by omega)
    -- and all of them arrived in the round that is being completed
    have hcur := hK.cur
    have hpt := eq_of_tot_eq (g := fun x => pendAtW (a.counter / count) (a.sg x))
      (g' := fun x => pendW (a.sg x)) (l := a.members) (fun x _ => pendAtW_le_pendW _ _) (by omega)
    have hothers : ∀ x ∈ a.members, x ≠ f → (a.sg x).kind = .pend ∧ (a.sg x).c = a.counter / count := by
      intro x hx hxf
      have h1 : pendW (a.sg x) = 1 := hall x hx hxf
      have h2 : pendAtW (a.counter / count) (a.sg x) = pendW (a.sg x) := hpt x hx
      rw [h1] at h2
      unfold pendAtW at h2
      split at h2
      · assumption
      · omega
    refine ⟨fun _ => hlen', ?_, ?_, ?_, ?_, ?_⟩
    · intro x
      show fiberOk queues ((a.counter + 1) / count) (x ∈ a.members) (upd a.rnd f (a.rnd f + 1) x) (upd a.sg f _ x)
      rw [har.2.1]
      by_cases hx : x = f
      · subst hx; simp [fiberOk, hf]
      · rw [upd_other _ _ _ _ hx, upd_other _ _ _ _ hx]
        have hfx := hK.fib x
        by_cases hxm : x ∈ a.members
        · obtain ⟨hk, hcx⟩ := hothers x hxm hx
          simp [fiberOk, hk] at hfx ⊢
          refine ⟨Or.inr hcx, hfx.2.1, hfx.2.2⟩
        · have hk : (a.sg x).kind = .idle := by
            apply Classical.byContradiction; intro hne; exact hxm (hA.mem x hne)
          simp [fiberOk, hk, hxm] at hfx ⊢
          exact hfx
    · show tot (fun x => pendAtW ((a.counter + 1) / count) (upd a.sg f _ x)) a.members = (a.counter + 1) % count
      rw [har.2.1, har.2.2]
      apply tot_eq_zero
      intro x hx
      by_cases hxf : x = f
      · subst hxf; simp [pendAtW]
      · rw [upd_other _ _ _ _ hxf]; simp [pendAtW, (hothers x hx hxf).2]
    · intro k hk1 hk2
      show upd a.entered (a.rnd f + 1) _ k = count ∧ upd a.told (a.rnd f + 1) _ k = 1
      have hk2' : k ≤ a.counter / count + 1 := by rw [← har.2.1]; exact hk2
      rw [hf]
      by_cases hk : k = a.counter / count + 1
      · subst hk
        have := hK.now
        simp only [upd_same]
        omega
      · rw [upd_other _ _ _ _ hk, upd_other _ _ _ _ hk]
        exact hK.past k hk1 (by omega)
    · show upd a.entered (a.rnd f + 1) _ ((a.counter + 1) / count + 1) = (a.counter + 1) % count ∧
        upd a.told (a.rnd f + 1) _ ((a.counter + 1) / count + 1) = 0
      rw [har.2.1, har.2.2, hf, upd_other _ _ _ _ (by omega), upd_other _ _ _ _ (by omega)]
      exact hK.future _ (by omega)
    · intro k hk
      show upd a.entered (a.rnd f + 1) _ k = 0 ∧ upd a.told (a.rnd f + 1) _ k = 0
      have hk' : a.counter / count + 1 + 1 < k := by rw [← har.2.1]; exact hk
      rw [hf, upd_other _ _ _ _ (by omega), upd_other _ _ _ _ (by omega)]
      exact hK.future _ (by omega)
  | pop f g q c need c' hf hg =>
    have hfm : f ∈ a.members := hA.mem f (by simp [hf])
    have hgm : g ∈ a.members := hA.mem g (by simp [hg])
    have hfg : f ≠ g := by intro e; rw [e, hg] at hf; simp at hf
    have hkf := hK.fib f
    have hkg := hK.fib g
    simp [fiberOk, hf] at hkf
    simp [fiberOk, hg] at hkg
    -- the popped entry belongs to the round of the serial fiber that pops it
    have hround : c' + 1 = a.counter / count := by
      rcases hkg.1 with hcm | hcm
      · exfalso
        rcases H with H | H
        · -- two queues: a current-round entry sits in the other queue
          have := hkf.2.2; have := hkg.2.2; have := hkf.1
          subst H; omega
        · -- at most two participants: nobody of the current round can be pending
          have hg1 : pendAtW (a.counter / count) (a.sg g) ≤ tot (fun x => pendAtW (a.counter / count) (a.sg x)) a.members :=
            le_tot (g := fun x => pendAtW (a.counter / count) (a.sg x)) hgm
          have e1 : pendAtW (a.counter / count) (a.sg g) = 1 := by simp [pendAtW, hg, hcm]
          have hcur := hK.cur
          have hn1 : needW (a.sg f) ≤ tot (fun x => needW (a.sg x)) a.members :=
            le_tot (g := fun x => needW (a.sg x)) hfm
          have e2 : needW (a.sg f) = need := by simp [needW, hf]
          have hpf : pendW (a.sg f) = 0 := by simp [pendW, hf]
          have hle := tot_add_one_le (g := fun x => pendW (a.sg x)) (fun x _ => pendW_le _) hfm hpf
          have hacct := hA.acct
          have hlen := hA.len
          rcases hA.preNeed f (by simp [hf]) with h1 | h1
          · simp [hf] at h1; omega
          · have : a.counter % count = 0 := by rw [h1]; exact Nat.mod_one _
            omega
      · exact hcm
    refine ⟨hK.full, fib_upd (fib_upd hK.fib ?_) ?_, ?_, hK.past, hK.now, hK.future⟩
    · simp [fiberOk]; exact ⟨hround, by omega⟩
    · simp [fiberOk]; exact hkf
    · show tot (fun x => pendAtW _ (upd (upd a.sg g _) f _ x)) a.members = _
      rw [tot_upd_same (pendAtW _) _ _ _ _ (by simp [pendAtW, upd_other _ _ _ _ hfg, hf]),
        tot_upd_same (pendAtW _) _ _ _ _ (by simp [pendAtW, hg]; omega)]
      exact hK.cur


theorem InvK.init (count queues : Nat) (nodeOf : Nat → Nat) : InvK count queues (abs (init nodeOf)) := by
  refine ⟨?_, ?_, ?_, ?_, ?_, ?_⟩
  · intro h; simp [abs, Barrier.init] at h
  · intro x; simp [abs, Barrier.init, fiberOk]
  · simp [abs, Barrier.init]
  · intro k h1 h2; simp [abs, Barrier.init] at h2; omega
  · simp [abs, Barrier.init]
  · intro k _; simp [abs, Barrier.init]

/-! ## 6. the invariants along every accepted trace -/

theorem invA_of_run {count queues : Nat} {nodeOf : Nat → Nat} (hc : 0 < count)
    {es : List Ev} {s : St} (h : (sys count queues nodeOf).run es = some s) : InvA count (abs s) :=
  Sys.inv_of_run (sys count queues nodeOf) (fun s => InvA count (abs s))
    (InvA.init count nodeOf)
    (fun _ _ _ hI hst => InvA.step hc hI (step_refines hst)) h

theorem invK_of_run {count queues : Nat} {nodeOf : Nat → Nat} (hc : 0 < count)
    (H : queues = 2 ∨ count ≤ 2)
    {es : List Ev} {s : St} (h : (sys count queues nodeOf).run es = some s) :
    InvA count (abs s) ∧ InvK count queues (abs s) :=
  Sys.inv_of_run (sys count queues nodeOf) (fun s => InvA count (abs s) ∧ InvK count queues (abs s))
    ⟨InvA.init count nodeOf, InvK.init count queues nodeOf⟩
    (fun _ _ _ hI hst => ⟨InvA.step hc hI.1 (step_refines hst),
      InvK.step hc H hI.1 hI.2 (step_refines hst)⟩) h

theorem exists_of_tot_pos {g : Nat → Nat} {l : List Nat} (h : 1 ≤ tot g l) : ∃ x ∈ l, 1 ≤ g x := by
  apply Classical.byContradiction
  intro hne
  have : tot g l = 0 := tot_eq_zero (fun x hx => by
    apply Classical.byContradiction; intro h0; exact hne ⟨x, hx, by omega⟩)
  omega

/-- what an accepted `ret wait` event needs -/
theorem retWait_pc {count queues : Nat} {s s' : St} {f k : Nat} {b : Bool}
    (h : step count queues s (.retWait f k b) = some s') :
    k = s.rnd f ∧ ((∃ c, s.pc f = .serialDone c ∧ b = true) ∨ (∃ c, s.pc f = .runnable c ∧ b = false)) := by
  simp only [step] at h
  split at h
  · next hk =>
    refine ⟨hk, ?_⟩
    split at h
    · next c hpc =>
      split at h
      · next hb => exact Or.inl ⟨c, hpc, hb⟩
      · simp at h
    · next c hpc =>
      split at h
      · simp at h
      · next hb => exact Or.inr ⟨c, hpc, by simpa using hb⟩
    · simp at h
  · simp at h

end LibfiberVerif.Barrier
