/-
  Proof/Barrier.lean — invariants of Model/Barrier.lean (property C12).

  Structure:
  1. sums over the list of participating fibers (`tot`) and arithmetic on `counter`
  2. the coarse view of a state: every pc is classified by its signature `sig`
     (`Kind` + counter round + queue + outstanding pops); `abs : St → Abs`
  3. `ATrans`: the nine coarse transitions; `step_refines`: every accepted access-level
     step is one of them (most accesses are stutter steps)
  4. `InvA` (all variants of the code): participants, `serials = counter / count`,
     the accounting equation
        #pending waiters = counter % count + outstanding pops of the serial fibers,
     at most one fiber inside the wake loop
  5. `InvK` (only under `queues = 2 ∨ count ≤ 2`): every fiber's own round is the counter
     round of its arrival; pops never cross rounds; `entered` / `told` per round
-/
import LibfiberVerif.Model.Barrier

namespace LibfiberVerif.Barrier

/-! ## 1. sums over the participants -/

def tot (g : Nat → Nat) (l : List Nat) : Nat := (l.map g).sum

@[simp] theorem tot_nil (g : Nat → Nat) : tot g [] = 0 := rfl
@[simp] theorem tot_cons (g : Nat → Nat) (a : Nat) (l : List Nat) : tot g (a :: l) = g a + tot g l := by
  simp [tot]

theorem tot_congr {g g' : Nat → Nat} {l : List Nat} (h : ∀ x ∈ l, g x = g' x) : tot g l = tot g' l := by
  induction l with
  | nil => rfl
  | cons a l ih =>
    simp only [tot_cons]
    rw [h a (by simp), ih (fun x hx => h x (by simp [hx]))]

/-- changing the summand of one participant -/
theorem tot_change {g g' : Nat → Nat} {l : List Nat} {f : Nat}
    (hne : ∀ x, x ≠ f → g' x = g x) (hn : l.Nodup) (hf : f ∈ l) :
    tot g' l + g f = tot g l + g' f := by
  induction l with
  | nil => simp at hf
  | cons a l ih =>
    simp only [tot_cons]
    rw [List.nodup_cons] at hn
    by_cases ha : a = f
    · subst ha
      have : tot g' l = tot g l := tot_congr (fun x hx => hne x (by intro h; subst h; exact hn.1 hx))
      omega
    · have hf' : f ∈ l := by
        rcases List.mem_cons.mp hf with h | h
        · exact absurd h.symm ha
        · exact h
      have := ih hn.2 hf'
      have := hne a ha
      omega

theorem tot_change_not_mem {g g' : Nat → Nat} {l : List Nat} {f : Nat}
    (hne : ∀ x, x ≠ f → g' x = g x) (hf : f ∉ l) : tot g' l = tot g l :=
  tot_congr (fun x hx => hne x (by intro h; subst h; exact hf hx))

theorem le_tot {g : Nat → Nat} {l : List Nat} {x : Nat} (hx : x ∈ l) : g x ≤ tot g l := by
  induction l with
  | nil => simp at hx
  | cons a l ih =>
    simp only [tot_cons]
    rcases List.mem_cons.mp hx with h | h
    · subst h; omega
    · have := ih h; omega

theorem tot_eq_zero {g : Nat → Nat} {l : List Nat} (h : ∀ x ∈ l, g x = 0) : tot g l = 0 := by
  induction l with
  | nil => rfl
  | cons a l ih =>
    simp only [tot_cons]
    rw [h a (by simp), ih (fun x hx => h x (by simp [hx]))]

theorem tot_le_length {g : Nat → Nat} {l : List Nat} (h : ∀ x ∈ l, g x ≤ 1) : tot g l ≤ l.length := by
  induction l with
  | nil => simp
  | cons a l ih =>
    simp only [tot_cons, List.length_cons]
    have := h a (by simp)
    have := ih (fun x hx => h x (by simp [hx]))
    omega

/-- one participant that does not count -/
theorem tot_add_one_le {g : Nat → Nat} {l : List Nat} {f : Nat}
    (h : ∀ x ∈ l, g x ≤ 1) (hf : f ∈ l) (hg : g f = 0) : tot g l + 1 ≤ l.length := by
  induction l with
  | nil => simp at hf
  | cons a l ih =>
    simp only [tot_cons, List.length_cons]
    have h1 := h a (by simp)
    have h2 := tot_le_length (fun x hx => h x (List.mem_cons_of_mem a hx))
    rcases List.mem_cons.mp hf with e | e
    · subst e; omega
    · have := ih (fun x hx => h x (by simp [hx])) e
      omega

/-- two different participants that do not count -/
theorem tot_add_two_le {g : Nat → Nat} {l : List Nat} {f f' : Nat}
    (h : ∀ x ∈ l, g x ≤ 1) (hf : f ∈ l) (hf' : f' ∈ l) (hne : f ≠ f')
    (hg : g f = 0) (hg' : g f' = 0) : tot g l + 2 ≤ l.length := by
  induction l with
  | nil => simp at hf
  | cons a l ih =>
    simp only [tot_cons, List.length_cons]
    have h1 := h a (by simp)
    have hl : ∀ x ∈ l, g x ≤ 1 := fun x hx => h x (List.mem_cons_of_mem a hx)
    rcases List.mem_cons.mp hf with e | e
    · subst e
      rcases List.mem_cons.mp hf' with e' | e'
      · exact absurd e'.symm hne
      · have := tot_add_one_le hl e' hg'
        omega
    · rcases List.mem_cons.mp hf' with e' | e'
      · subst e'
        have := tot_add_one_le hl e hg
        omega
      · have := ih hl e e'
        omega

/-- if all but one participant must count, they all do -/
theorem all_count_of_tot {g : Nat → Nat} {l : List Nat} {f : Nat}
    (h : ∀ x ∈ l, g x ≤ 1) (hf : f ∈ l) (hg : g f = 0)
    (ht : l.length ≤ tot g l + 1) : ∀ x ∈ l, x ≠ f → g x = 1 := by
  intro x hx hxf
  have hx1 := h x hx
  by_cases h0 : g x = 1
  · exact h0
  · have h0' : g x = 0 := by omega
    have := tot_add_two_le h hx hf hxf h0' hg
    omega

/-- equal sums of pointwise ordered summands: pointwise equal -/
theorem eq_of_tot_eq {g g' : Nat → Nat} {l : List Nat}
    (h : ∀ x ∈ l, g x ≤ g' x) (ht : tot g l = tot g' l) : ∀ x ∈ l, g x = g' x := by
  induction l with
  | nil => intro x hx; simp at hx
  | cons a l ih =>
    simp only [tot_cons] at ht
    have ha := h a (by simp)
    have hl : ∀ x ∈ l, g x ≤ g' x := fun x hx => h x (List.mem_cons_of_mem a hx)
    have hle : tot g l ≤ tot g' l := by
      clear ih ht
      induction l with
      | nil => simp
      | cons b l ih2 =>
        simp only [tot_cons]
        have := hl b (by simp)
        have := ih2 (fun x hx => h x (by
          rcases List.mem_cons.mp hx with e | e
          · subst e; simp
          · simp [e])) (fun x hx => hl x (by simp [hx]))
        omega
    intro x hx
    rcases List.mem_cons.mp hx with e | e
    · subst e; omega
    · exact ih hl (by omega) x e

/-! ### arithmetic on the counter -/

theorem succ_not_dvd {count n : Nat} (hc : 0 < count) (h : (n + 1) % count ≠ 0) :
    (n + 1) % count = n % count + 1 ∧ (n + 1) / count = n / count := by
  have h1 := Nat.div_add_mod n count
  have h2 := Nat.mod_lt n hc
  have h3 : n % count + 1 < count := by
    by_cases h4 : n % count + 1 = count
    · exfalso
      apply h
      have : n + 1 = count * (n / count + 1) := by rw [Nat.mul_add]; omega
      rw [this]; exact Nat.mul_mod_right _ _
    · omega
  have h5 : n + 1 = count * (n / count) + (n % count + 1) := by omega
  constructor
  · rw [h5, Nat.mul_add_mod]; exact Nat.mod_eq_of_lt h3
  · rw [h5, Nat.mul_add_div hc, Nat.div_eq_of_lt h3]; simp

theorem succ_dvd {count n : Nat} (hc : 0 < count) (h : (n + 1) % count = 0) :
    n % count = count - 1 ∧ (n + 1) / count = n / count + 1 ∧ (n + 1) % count = 0 := by
  have h1 := Nat.div_add_mod n count
  have h2 := Nat.mod_lt n hc
  have h3 : n % count + 1 = count := by
    by_cases h4 : n % count + 1 < count
    · exfalso
      have h5 : n + 1 = count * (n / count) + (n % count + 1) := by omega
      rw [h5, Nat.mul_add_mod, Nat.mod_eq_of_lt h4] at h
      omega
    · omega
  have h5 : n + 1 = count * (n / count + 1) := by rw [Nat.mul_add]; omega
  refine ⟨by omega, ?_, h⟩
  rw [h5, Nat.mul_div_cancel_left _ hc]

/-! ## 2. the coarse view -/

inductive Kind
  | idle | called | pend | woken | pre | post | done
  deriving DecidableEq, Repr

/-- what the invariants need to know about a pc: `c` = counter round of the arrival,
    `q` = its waiter queue, `need` = pops the serial fiber still has to make -/
structure Sig where
  kind : Kind
  c : Nat
  q : Nat
  need : Nat
  deriving DecidableEq, Repr

def sig : Pc → Sig
  | .idle => ⟨.idle, 0, 0, 0⟩
  | .called => ⟨.called, 0, 0, 0⟩
  | .arrived q c => ⟨.pend, c, q, 0⟩
  | .waitSaving q c => ⟨.pend, c, q, 0⟩
  | .waitGotNode q c _ => ⟨.pend, c, q, 0⟩
  | .waitWroteData q c _ => ⟨.pend, c, q, 0⟩
  | .waitClearedNode q c _ => ⟨.pend, c, q, 0⟩
  | .pushCleared q c _ => ⟨.pend, c, q, 0⟩
  | .pushXchgd q c _ _ _ => ⟨.pend, c, q, 0⟩
  | .parked q c => ⟨.pend, c, q, 0⟩
  | .popped c => ⟨.woken, c, 0, 0⟩
  | .runnable c => ⟨.woken, c, 0, 0⟩
  | .wakeLoop q c need => ⟨.pre, c, q, need⟩
  | .popGotHead q c need _ => ⟨.pre, c, q, need⟩
  | .popGotNext q c need _ _ => ⟨.pre, c, q, need⟩
  | .popMoved q c need _ _ _ => ⟨.post, c, q, need⟩
  | .popGotData q c need _ _ _ => ⟨.post, c, q, need⟩
  | .popWrote q c need _ _ => ⟨.post, c, q, need⟩
  | .wakeGotFiber q c need _ _ => ⟨.post, c, q, need⟩
  | .wakeGaveNode q c need _ _ => ⟨.post, c, q, need⟩
  | .wakeReadState q c need _ => ⟨.post, c, q, need⟩
  | .serialDone c => ⟨.done, c, 0, 0⟩

@[simp] theorem sig_idle : sig .idle = ⟨.idle, 0, 0, 0⟩ := rfl
@[simp] theorem sig_called : sig .called = ⟨.called, 0, 0, 0⟩ := rfl
@[simp] theorem sig_arrived (q c : Nat) : sig (.arrived q c) = ⟨.pend, c, q, 0⟩ := rfl
@[simp] theorem sig_waitSaving (q c : Nat) : sig (.waitSaving q c) = ⟨.pend, c, q, 0⟩ := rfl
@[simp] theorem sig_waitGotNode (q c n : Nat) : sig (.waitGotNode q c n) = ⟨.pend, c, q, 0⟩ := rfl
@[simp] theorem sig_waitWroteData (q c n : Nat) : sig (.waitWroteData q c n) = ⟨.pend, c, q, 0⟩ := rfl
@[simp] theorem sig_waitClearedNode (q c n : Nat) : sig (.waitClearedNode q c n) = ⟨.pend, c, q, 0⟩ := rfl
@[simp] theorem sig_pushCleared (q c n : Nat) : sig (.pushCleared q c n) = ⟨.pend, c, q, 0⟩ := rfl
@[simp] theorem sig_pushXchgd (q c n p i : Nat) : sig (.pushXchgd q c n p i) = ⟨.pend, c, q, 0⟩ := rfl
@[simp] theorem sig_parked (q c : Nat) : sig (.parked q c) = ⟨.pend, c, q, 0⟩ := rfl
@[simp] theorem sig_popped (c : Nat) : sig (.popped c) = ⟨.woken, c, 0, 0⟩ := rfl
@[simp] theorem sig_runnable (c : Nat) : sig (.runnable c) = ⟨.woken, c, 0, 0⟩ := rfl
@[simp] theorem sig_wakeLoop (q c need : Nat) : sig (.wakeLoop q c need) = ⟨.pre, c, q, need⟩ := rfl
@[simp] theorem sig_popGotHead (q c need h : Nat) : sig (.popGotHead q c need h) = ⟨.pre, c, q, need⟩ := rfl
@[simp] theorem sig_popGotNext (q c need h x : Nat) : sig (.popGotNext q c need h x) = ⟨.pre, c, q, need⟩ := rfl
@[simp] theorem sig_popMoved (q c need h x g : Nat) : sig (.popMoved q c need h x g) = ⟨.post, c, q, need⟩ := rfl
@[simp] theorem sig_popGotData (q c need h x g : Nat) : sig (.popGotData q c need h x g) = ⟨.post, c, q, need⟩ := rfl
@[simp] theorem sig_popWrote (q c need h g : Nat) : sig (.popWrote q c need h g) = ⟨.post, c, q, need⟩ := rfl
@[simp] theorem sig_wakeGotFiber (q c need h g : Nat) : sig (.wakeGotFiber q c need h g) = ⟨.post, c, q, need⟩ := rfl
@[simp] theorem sig_wakeGaveNode (q c need h g : Nat) : sig (.wakeGaveNode q c need h g) = ⟨.post, c, q, need⟩ := rfl
@[simp] theorem sig_wakeReadState (q c need g : Nat) : sig (.wakeReadState q c need g) = ⟨.post, c, q, need⟩ := rfl
@[simp] theorem sig_serialDone (c : Nat) : sig (.serialDone c) = ⟨.done, c, 0, 0⟩ := rfl

structure Abs where
  counter : Nat
  members : List Nat
  rnd : Nat → Nat
  entered : Nat → Nat
  told : Nat → Nat
  serials : Nat
  sg : Nat → Sig

def abs (s : St) : Abs :=
  { counter := s.counter, members := s.members, rnd := s.rnd, entered := s.entered,
    told := s.told, serials := s.serials, sg := fun x => sig (s.pc x) }

/-- signature after a wake-up / a failed pop: loop again or done -/
def aw (q c need : Nat) : Sig := if need = 0 then ⟨.done, c, 0, 0⟩ else ⟨.pre, c, q, need⟩

theorem sig_afterWake (q c need : Nat) : sig (afterWake q c need) = aw q c need := by
  unfold afterWake aw; split <;> rfl

theorem sig_upd (pc : Nat → Pc) (f : Nat) (v : Pc) :
    (fun x => sig (upd pc f v x)) = upd (fun x => sig (pc x)) f (sig v) := by
  funext x; simp only [upd]; split <;> rfl

theorem upd_self {α : Type} (g : Nat → α) (f : Nat) : upd g f (g f) = g := by
  funext x; simp only [upd]; split
  · next h => rw [h]
  · rfl

/-- the coarse transitions -/
inductive ATrans (count queues : Nat) : Abs → Abs → Prop
  | stutter (a : Abs) : ATrans count queues a a
  | call (a : Abs) (f : Nat) (h : (a.sg f).kind = .idle) (hm : f ∈ a.members) :
      ATrans count queues a { a with sg := upd a.sg f ⟨.called, 0, 0, 0⟩ }
  | join (a : Abs) (f : Nat) (h : (a.sg f).kind = .idle) (hm : f ∉ a.members)
      (hl : a.members.length < count) :
      ATrans count queues a { a with sg := upd a.sg f ⟨.called, 0, 0, 0⟩, members := f :: a.members }
  | arrive (a : Abs) (f : Nat) (h : (a.sg f).kind = .called) (hmod : (a.counter + 1) % count ≠ 0) :
      ATrans count queues a
        { a with counter := a.counter + 1, rnd := upd a.rnd f (a.rnd f + 1),
                 entered := upd a.entered (a.rnd f + 1) (a.entered (a.rnd f + 1) + 1),
                 sg := upd a.sg f ⟨.pend, a.counter / count, (a.counter / count) % queues, 0⟩ }
  | serial (a : Abs) (f : Nat) (h : (a.sg f).kind = .called) (hmod : (a.counter + 1) % count = 0) :
      ATrans count queues a
        { a with counter := a.counter + 1, rnd := upd a.rnd f (a.rnd f + 1),
                 entered := upd a.entered (a.rnd f + 1) (a.entered (a.rnd f + 1) + 1),
                 told := upd a.told (a.rnd f + 1) (a.told (a.rnd f + 1) + 1),
                 serials := a.serials + 1,
                 sg := upd a.sg f ⟨.pre, a.counter / count, (a.counter / count) % queues, count - 1⟩ }
  | fail (a : Abs) (f q c need : Nat) (h : a.sg f = ⟨.pre, c, q, need⟩) :
      ATrans count queues a { a with sg := upd a.sg f (aw q c need) }
  | pop (a : Abs) (f g q c need c' : Nat) (hf : a.sg f = ⟨.pre, c, q, need⟩)
      (hg : a.sg g = ⟨.pend, c', q, 0⟩) :
      ATrans count queues a
        { a with sg := upd (upd a.sg g ⟨.woken, c', 0, 0⟩) f ⟨.post, c, q, need - 1⟩ }
  | wake (a : Abs) (f q c need : Nat) (h : a.sg f = ⟨.post, c, q, need⟩) :
      ATrans count queues a { a with sg := upd a.sg f (aw q c need) }
  | ret (a : Abs) (f : Nat) (h : (a.sg f).kind = .woken ∨ (a.sg f).kind = .done) :
      ATrans count queues a { a with sg := upd a.sg f ⟨.idle, 0, 0, 0⟩ }

end LibfiberVerif.Barrier
