/-
  Proof/Sem.lean — the inductive invariant of the semaphore model (`Model/Sem.lean`), for
  every initial value, any number of fibers and kernel threads, all accepted event lists.

  The ghost lists `pend`, `queue`, `pre`, `mid`, `adm` are tied to the program counters by
  multiplicity: a fiber occurs in a list exactly once if its pc is in the list's class and not
  at all otherwise.  Everything else is linear arithmetic over the monotone event counters and
  the lengths of those lists.
-/
import LibfiberVerif.Model.Sem

namespace LibfiberVerif.Sem

/-! ### pc classes -/

/-- decremented the counter without getting a unit, not enqueued yet -/
def isPend : Pc → Bool
  | .waitAnnounced | .waitParked => true
  | _ => false

/-- enqueued on the waiter queue, not dequeued yet -/
def isQueued : Pc → Bool
  | .waitQueued => true
  | _ => false

/-- inside post, no effect on the semaphore yet -/
def isPre : Pc → Bool
  | .postCalled | .popStart | .popH1 _ | .popH2 _ | .popH3 _ | .postCas _ => true
  | _ => false

/-- inside post, dequeued a waiter, has not incremented the counter yet -/
def isMid : Pc → Bool
  | .popped _ | .postWoke => true
  | _ => false

/-- admitted (got a unit or was handed a post), has not returned yet -/
def isAdm : Pc → Bool
  | .waitFast | .waitHanded | .waitReady | .tryDone true => true
  | _ => false

/-- blocked in wait: announced or enqueued, no post has dequeued it -/
def isBlocked (p : Pc) : Bool := isPend p || isQueued p

/-- inside trywait -/
def isTry : Pc → Bool
  | .tryCalled | .tryCas _ | .tryDone _ => true
  | _ => false

/-- `L` lists exactly the fibers whose pc is in class `cls`, each once -/
def Tracks (L : List Nat) (pc : Nat → Pc) (cls : Pc → Bool) : Prop :=
  ∀ g, L.count g = if cls (pc g) = true then 1 else 0

theorem Tracks.mem {L : List Nat} {pc : Nat → Pc} {cls : Pc → Bool} (h : Tracks L pc cls)
    {f : Nat} (hf : cls (pc f) = true) : f ∈ L := by
  have := h f
  rw [if_pos hf] at this
  exact List.count_pos_iff.mp (by omega)

theorem Tracks.cls_of_mem {L : List Nat} {pc : Nat → Pc} {cls : Pc → Bool} (h : Tracks L pc cls)
    {f : Nat} (hf : f ∈ L) : cls (pc f) = true := by
  have := h f
  have hp := List.count_pos_iff.mpr hf
  by_cases hc : cls (pc f) = true
  · exact hc
  · rw [if_neg hc] at this; omega

theorem Tracks.nil_of_none {L : List Nat} {pc : Nat → Pc} {cls : Pc → Bool} (h : Tracks L pc cls)
    (hn : ∀ f, cls (pc f) = false) : L = [] := by
  rw [List.eq_nil_iff_forall_not_mem]
  intro f hf
  have := h.cls_of_mem hf
  rw [hn f] at this
  cases this

theorem Tracks.len_erase {L : List Nat} {pc : Nat → Pc} {cls : Pc → Bool} (h : Tracks L pc cls)
    {f : Nat} (hf : cls (pc f) = true) : (L.erase f).length + 1 = L.length := by
  have hm := h.mem hf
  have := List.length_erase_of_mem hm
  have := List.length_pos_of_mem hm
  omega

/-! ### the invariant -/

structure Inv (v : Nat) (s : St) : Prop where
  /-- every change of the counter is mirrored by exactly one event counter -/
  cnt : s.counter = (v : Int) + s.nCasPost + s.nFadd - s.nFast - s.nTryOk - s.nBlocked
  blocked : s.nBlocked = s.nEnq + s.pend.length
  enq : s.nEnq = s.nPopped + s.queue.length
  popd : s.nPopped = s.nFadd + s.mid.length
  posts : s.postsBegun = s.nCasPost + s.nPopped + s.pre.length
  admd : s.nFast + s.nTryOk + s.nPopped = s.retOk + s.adm.length
  /-- a negative counter counts the blocked waiters plus the posts that dequeued one and have
      not incremented yet; a non-negative counter means there are none of either -/
  neg : s.counter < 0 → -s.counter = ((s.pend.length + s.queue.length + s.mid.length : Nat) : Int)
  nonneg : 0 ≤ s.counter → s.pend.length + s.queue.length + s.mid.length = 0
  tPend : Tracks s.pend s.pc isPend
  tQueue : Tracks s.queue s.pc isQueued
  tPre : Tracks s.pre s.pc isPre
  tMid : Tracks s.mid s.pc isMid
  tAdm : Tracks s.adm s.pc isAdm
  tryC : ∀ f c, s.pc f = .tryCas c → 0 < c
  postC : ∀ f c, s.pc f = .postCas c → 0 ≤ c
  slotP : ∀ k w, s.slot k = some w → s.pc w = .waitParked
  slotI : ∀ k k' w, s.slot k = some w → s.slot k' = some w → k = k'
  /-- a dequeued waiter that has not been made READY yet has a post about to do so -/
  handed : ∀ g, s.pc g = .waitHanded → ∃ f, s.pc f = .popped g

theorem inv_init (v node0 : Nat) : Inv v (init v node0) := by
  constructor <;> simp [init, Tracks, isPend, isQueued, isPre, isMid, isAdm] <;> omega

/-- list fields: multiplicity bookkeeping after one step that changes the pcs of `f` and `g` -/
local macro "track" hi:term "," f:term "," g:term : tactic =>
  `(tactic| (intro x
             have t1 := ($hi).tPend x; have t2 := ($hi).tQueue x; have t3 := ($hi).tPre x
             have t4 := ($hi).tMid x; have t5 := ($hi).tAdm x
             by_cases hx : x = $f
             · subst hx
               simp_all [Tracks, upd, List.count_cons, List.count_erase, List.count_append,
                 isPend, isQueued, isPre, isMid, isAdm]
             · have hx' : ¬ ($f = x) := fun h => hx h.symm
               by_cases hy : x = $g
               · subst hy
                 simp_all [Tracks, upd, List.count_cons, List.count_erase, List.count_append,
                   isPend, isQueued, isPre, isMid, isAdm]
               · have hy' : ¬ ($g = x) := fun h => hy h.symm
                 simp_all [Tracks, upd, List.count_cons, List.count_erase, List.count_append]))

/-- counter / length arithmetic after one step -/
local macro "arith" hi:term : tactic =>
  `(tactic| (have h1 := ($hi).cnt; have h2 := ($hi).blocked; have h3 := ($hi).enq
             have h4 := ($hi).popd; have h5 := ($hi).posts; have h6 := ($hi).admd
             have h7 := ($hi).neg; have h8 := ($hi).nonneg
             simp only [List.length_cons, List.length_append, List.length_nil] at *
             omega))

/-- facts about pc payloads and the deferred-push slots after one step -/
local macro "pcfacts" hi:term : tactic =>
  `(tactic| (have q1 := ($hi).tryC; have q2 := ($hi).postC; have q3 := ($hi).slotP
             have q4 := ($hi).slotI; have q5 := ($hi).handed
             intros
             simp [upd] at *
             grind))

/-- all conjuncts of the invariant after a step that changed the pcs of `f` and `g` -/
local macro "close_inv" hi:term "," f:term "," g:term : tactic =>
  `(tactic| (constructor
             all_goals first
               | (arith $hi; done)
               | (track $hi, $f, $g; done)
               | (pcfacts $hi; done)))

theorem inv_callWait {v : Nat} {s s' : St} {f : _} (hi : Inv v s)
    (hs : step s (.callWait f) = some s') : Inv v s' := by
  simp only [step] at hs
  split at hs <;> simp at hs
  subst hs
  close_inv hi, f, f

theorem inv_retWait {v : Nat} {s s' : St} {f : _} (hi : Inv v s)
    (hs : step s (.retWait f) = some s') : Inv v s' := by
  simp only [step] at hs
  split at hs <;> simp at hs
  all_goals
    subst hs
    have l1 := hi.tAdm.len_erase (f := f) (by simp_all [isAdm])
    close_inv hi, f, f

theorem inv_fsub {v : Nat} {s s' : St} {f old : _} (hi : Inv v s)
    (hs : step s (.fsub f old) = some s') : Inv v s' := by
  simp only [step] at hs
  split at hs <;> (try split at hs) <;> (try split at hs) <;> simp at hs
  all_goals
    subst hs
    subst_vars
    close_inv hi, f, f

theorem inv_wWaiting {v : Nat} {s s' : St} {k f g : _} (hi : Inv v s)
    (hs : step s (.wWaiting k f g) = some s') : Inv v s' := by
  simp only [step] at hs
  split at hs <;> (try split at hs) <;> simp at hs
  subst hs
  rename_i hpc hc
  obtain ⟨hg, hslot⟩ := hc
  subst hg
  close_inv hi, g, g

theorem inv_callTry {v : Nat} {s s' : St} {f : _} (hi : Inv v s)
    (hs : step s (.callTry f) = some s') : Inv v s' := by
  simp only [step] at hs
  split at hs <;> simp at hs
  subst hs
  close_inv hi, f, f

theorem inv_retTry {v : Nat} {s s' : St} {f r : _} (hi : Inv v s)
    (hs : step s (.retTry f r) = some s') : Inv v s' := by
  simp only [step] at hs
  split at hs <;> (try split at hs) <;> (try split at hs) <;> simp at hs
  · subst hs
    subst_vars
    have l1 := hi.tAdm.len_erase (f := f) (by simp_all [isAdm])
    close_inv hi, f, f
  · subst hs
    subst_vars
    rename_i hr'
    simp at hr'
    subst hr'
    close_inv hi, f, f

theorem inv_callPost {v : Nat} {s s' : St} {f : _} (hi : Inv v s)
    (hs : step s (.callPost f) = some s') : Inv v s' := by
  simp only [step] at hs
  split at hs <;> simp at hs
  subst hs
  close_inv hi, f, f

theorem inv_retPost {v : Nat} {s s' : St} {f : _} (hi : Inv v s)
    (hs : step s (.retPost f) = some s') : Inv v s' := by
  simp only [step] at hs
  split at hs <;> simp at hs
  subst hs
  close_inv hi, f, f

theorem inv_getValue {v : Nat} {s s' : St} {x : _} (hi : Inv v s)
    (hs : step s (.getValue x) = some s') : Inv v s' := by
  simp only [step] at hs
  split at hs <;> simp at hs
  subst hs
  exact hi

theorem inv_final {v : Nat} {s s' : St} {x : _} (hi : Inv v s)
    (hs : step s (.final x) = some s') : Inv v s' := by
  simp only [step] at hs
  split at hs <;> simp at hs
  subst hs
  exact hi

theorem inv_ldTail {v : Nat} {s s' : St} {k x : _} (hi : Inv v s)
    (hs : step s (.ldTail k x) = some s') : Inv v s' := by
  simp only [step] at hs
  split at hs <;> (try split at hs) <;> (try split at hs) <;> simp at hs
  all_goals
    subst hs
    close_inv hi, 0, 0

theorem inv_ldCounter {v : Nat} {s s' : St} {f c : _} (hi : Inv v s)
    (hs : step s (.ldCounter f c) = some s') : Inv v s' := by
  simp only [step] at hs
  split at hs <;> (try split at hs) <;> (try split at hs) <;> simp at hs
  all_goals
    subst hs
    subst_vars
    close_inv hi, f, f

theorem inv_ldHead {v : Nat} {s s' : St} {f x : _} (hi : Inv v s)
    (hs : step s (.ldHead f x) = some s') : Inv v s' := by
  simp only [step] at hs
  split at hs <;> (try split at hs) <;> (try split at hs) <;> simp at hs
  all_goals
    subst hs
    subst_vars
    close_inv hi, f, f

theorem isQueued_eq {p : Pc} (h : isQueued p = true) : p = .waitQueued := by
  cases p <;> simp [isQueued] at h ⊢

theorem inv_casCounter {v : Nat} {s s' : St} {f : Nat} {a b c : Int} {ok : Bool} (hi : Inv v s)
    (hs : step s (.casCounter f a b c ok) = some s') : Inv v s' := by
  simp only [step] at hs
  split at hs <;> (try split at hs) <;> (try split at hs) <;> simp at hs
  · subst hs
    rename_i c0 hpc hc hok
    have p1 := hi.tryC f c0 hpc
    obtain ⟨h1, h2, h3, h4⟩ := hc
    subst_vars
    simp at h4
    close_inv hi, f, f
  · subst hs
    close_inv hi, f, f
  · subst hs
    rename_i c0 hpc hc hok
    have p1 := hi.postC f c0 hpc
    have l1 := hi.tPre.len_erase (f := f) (by simp_all [isPre])
    obtain ⟨h1, h2, h3, h4⟩ := hc
    subst_vars
    simp at h4
    close_inv hi, f, f
  · subst hs
    close_inv hi, f, f

theorem inv_fadd {v : Nat} {s s' : St} {f : Nat} {old : Int} (hi : Inv v s)
    (hs : step s (.fadd f old) = some s') : Inv v s' := by
  simp only [step] at hs
  split at hs <;> (try split at hs) <;> simp at hs
  subst hs
  subst_vars
  have l1 := hi.tMid.len_erase (f := f) (by simp_all [isMid])
  close_inv hi, f, f

theorem inv_wReady {v : Nat} {s s' : St} {f g : Nat} (hi : Inv v s)
    (hs : step s (.wReady f g) = some s') : Inv v s' := by
  simp only [step] at hs
  split at hs <;> (try split at hs) <;> simp at hs
  subst hs
  rename_i hc
  obtain ⟨h1, h2, h3⟩ := hc
  subst h1
  close_inv hi, f, g

theorem inv_casHead {v : Nat} {s s' : St} {f a b c : Nat} {ok : Bool} (hi : Inv v s)
    (hs : step s (.casHead f a b c ok) = some s') : Inv v s' := by
  simp only [step] at hs
  split at hs <;> (try split at hs) <;> (try split at hs) <;> (try split at hs) <;>
    (try split at hs) <;> simp at hs
  · subst hs
    rename_i h hpc hc hok g q n ns hq hn hd
    obtain ⟨hd1, hgf⟩ := hd
    have hg : s.pc g = .waitQueued :=
      isQueued_eq (hi.tQueue.cls_of_mem (by rw [hq]; simp))
    have l1 := hi.tPre.len_erase (f := f) (by simp_all [isPre])
    have l2 : s.queue.length = q.length + 1 := by rw [hq]; simp
    have tq := hi.tQueue
    rw [hq] at tq
    close_inv hi, f, g
  · subst hs
    close_inv hi, f, f

theorem inv_casTail {v : Nat} {s s' : St} {k a b c : Nat} {ok : Bool} (hi : Inv v s)
    (hs : step s (.casTail k a b c ok) = some s') : Inv v s' := by
  simp only [step] at hs
  split at hs <;> (try split at hs) <;> (try split at hs) <;> (try split at hs) <;> simp at hs
  · subst hs
    rename_i w tl hslot hpp hc hok hpw
    have l1 := hi.tPend.len_erase (f := w) (by simp_all [isPend])
    close_inv hi, w, w
  · subst hs
    close_inv hi, 0, 0

theorem inv_step (v : Nat) (s : St) (e : Ev) (s' : St) (hi : Inv v s)
    (hs : step s e = some s') : Inv v s' := by
  cases e with
  | callWait f => exact inv_callWait hi hs
  | retWait f => exact inv_retWait hi hs
  | fsub f old => exact inv_fsub hi hs
  | wWaiting k f g => exact inv_wWaiting hi hs
  | callTry f => exact inv_callTry hi hs
  | retTry f r => exact inv_retTry hi hs
  | callPost f => exact inv_callPost hi hs
  | retPost f => exact inv_retPost hi hs
  | getValue x => exact inv_getValue hi hs
  | final x => exact inv_final hi hs
  | ldTail k x => exact inv_ldTail hi hs
  | ldCounter f c => exact inv_ldCounter hi hs
  | ldHead f x => exact inv_ldHead hi hs
  | casCounter f a b c ok => exact inv_casCounter hi hs
  | fadd f old => exact inv_fadd hi hs
  | wReady f g => exact inv_wReady hi hs
  | casHead f a b c ok => exact inv_casHead hi hs
  | casTail k a b c ok => exact inv_casTail hi hs

theorem inv_of_run {v node0 : Nat} {es : List Ev} {s : St}
    (h : (sys v node0).run es = some s) : Inv v s :=
  Sys.inv_of_run (sys v node0) (Inv v) (inv_init v node0)
    (fun s e s' hi hs => inv_step v s e s' hi hs) h

/-! ### the ghost counters are functions of the trace (what the monitor counts) -/

/-- a wait that returned, or a trywait that returned success -/
def isSuccRet : Ev → Bool
  | .retWait _ => true
  | .retTry _ true => true
  | _ => false

def isCallPost : Ev → Bool
  | .callPost _ => true
  | _ => false

theorem step_counts {s s' : St} {e : Ev} (hs : step s e = some s') :
    s'.retOk = s.retOk + (if isSuccRet e = true then 1 else 0) ∧
    s'.postsBegun = s.postsBegun + (if isCallPost e = true then 1 else 0) := by
  cases e <;> simp only [step] at hs <;> (repeat' (split at hs)) <;> (try (simp at hs; done)) <;>
    simp at hs <;> subst hs <;> simp_all [isSuccRet, isCallPost]

theorem trace_counts {v node0 : Nat} {es : List Ev} {s : St}
    (h : (sys v node0).run es = some s) :
    s.retOk = es.countP isSuccRet ∧ s.postsBegun = es.countP isCallPost := by
  refine Sys.hist_inv_of_run (sys v node0)
    (fun s es => s.retOk = es.countP isSuccRet ∧ s.postsBegun = es.countP isCallPost)
    (by simp [sys, init]) ?_ h
  intro s es e s' hI hs
  have hc := step_counts (s := s) (s' := s') (e := e) hs
  obtain ⟨h1, h2⟩ := hI
  simp only [List.countP_append, List.countP_cons, List.countP_nil]
  omega

/-- every prefix of an accepted trace is accepted -/
theorem run_prefix {v node0 : Nat} {es fs : List Ev} {s : St}
    (h : (sys v node0).run (es ++ fs) = some s) : ∃ s0, (sys v node0).run es = some s0 := by
  simp only [Sys.run, Sys.runFrom_append] at h
  cases h0 : (sys v node0).runFrom (sys v node0).init es with
  | none => simp [h0] at h
  | some s0 => exact ⟨s0, h0⟩

/-- the fiber that performs an event (kernel-thread events of the deferred push: `none`) -/
def Ev.fiber : Ev → Option Nat
  | .callWait f | .retWait f | .callTry f | .retTry f _ | .callPost f | .retPost f => some f
  | .fsub f _ | .fadd f _ | .ldCounter f _ | .casCounter f _ _ _ _ => some f
  | .wWaiting _ f _ | .wReady f _ | .ldHead f _ | .casHead f _ _ _ _ => some f
  | .ldTail _ _ | .casTail _ _ _ _ _ | .getValue _ | .final _ => none

end LibfiberVerif.Sem
