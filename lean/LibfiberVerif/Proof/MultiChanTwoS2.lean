/-
  Proof/MultiChanTwoS2.lean — `MultiChan.Inv2` (two-list discipline) is preserved by the events
  of group S2 (one lemma per event; several modules so that they compile in parallel).
-/
import LibfiberVerif.Proof.MultiChanTwo

set_option linter.unusedSimpArgs false
set_option linter.unusedVariables false

namespace LibfiberVerif.MultiChan

set_option maxHeartbeats 8000000 in
theorem inv2_step_fadd (s s' : St) (f old : _) (hl : LInv s) (hr : RInv s) (hi : Inv2 s) (hs : step s (.fadd f old) = some s') : Inv2 s' := by
  have hI := hi
  have hlh := hr.lowhigh
  obtain ⟨l1, l2, l3, l4, l5, l6, l7⟩ := hl
  obtain ⟨h1, h2, h3, h4, h5, h6, h7, h8, h9, h10, h11, h12, h13, h14, h15, h16, h17, h18, h19, h20, h21, h22, h23, h24, h25, h26, h27, h28, h29, h30, h31, h32, h33, h34, h35, h36, h37, h38, h39, h40⟩ := hi
  simp only [step, h1] at hs
  repeat' (split at hs)
  all_goals (try simp at hs)
  all_goals (try contradiction)
  all_goals (first | subst hs | (obtain ⟨_, hs⟩ := hs; subst hs))
  all_goals (constructor <;> m2_close)

set_option maxHeartbeats 8000000 in
theorem inv2_step_rHigh (s s' : St) (f h : _) (hl : LInv s) (hr : RInv s) (hi : Inv2 s) (hs : step s (.rHigh f h) = some s') : Inv2 s' := by
  have hI := hi
  have hlh := hr.lowhigh
  obtain ⟨l1, l2, l3, l4, l5, l6, l7⟩ := hl
  obtain ⟨h1, h2, h3, h4, h5, h6, h7, h8, h9, h10, h11, h12, h13, h14, h15, h16, h17, h18, h19, h20, h21, h22, h23, h24, h25, h26, h27, h28, h29, h30, h31, h32, h33, h34, h35, h36, h37, h38, h39, h40⟩ := hi
  simp only [step, h1] at hs
  repeat' (split at hs)
  all_goals (try simp at hs)
  all_goals (try contradiction)
  all_goals (first | subst hs | (obtain ⟨_, hs⟩ := hs; subst hs))
  all_goals (constructor <;> m2_close)

set_option maxHeartbeats 8000000 in
theorem inv2_step_rLow (s s' : St) (f l : _) (hl : LInv s) (hr : RInv s) (hi : Inv2 s) (hs : step s (.rLow f l) = some s') : Inv2 s' := by
  have hI := hi
  have hlh := hr.lowhigh
  obtain ⟨l1, l2, l3, l4, l5, l6, l7⟩ := hl
  obtain ⟨h1, h2, h3, h4, h5, h6, h7, h8, h9, h10, h11, h12, h13, h14, h15, h16, h17, h18, h19, h20, h21, h22, h23, h24, h25, h26, h27, h28, h29, h30, h31, h32, h33, h34, h35, h36, h37, h38, h39, h40⟩ := hi
  simp only [step, h1] at hs
  repeat' (split at hs)
  all_goals (try simp at hs)
  all_goals (try contradiction)
  all_goals (first | subst hs | (obtain ⟨_, hs⟩ := hs; subst hs))
  all_goals (constructor <;> m2_close)

set_option maxHeartbeats 8000000 in
theorem inv2_step_rBuf (s s' : St) (f i x : _) (hl : LInv s) (hr : RInv s) (hi : Inv2 s) (hs : step s (.rBuf f i x) = some s') : Inv2 s' := by
  have hI := hi
  have hlh := hr.lowhigh
  obtain ⟨l1, l2, l3, l4, l5, l6, l7⟩ := hl
  obtain ⟨h1, h2, h3, h4, h5, h6, h7, h8, h9, h10, h11, h12, h13, h14, h15, h16, h17, h18, h19, h20, h21, h22, h23, h24, h25, h26, h27, h28, h29, h30, h31, h32, h33, h34, h35, h36, h37, h38, h39, h40⟩ := hi
  simp only [step, h1] at hs
  repeat' (split at hs)
  all_goals (try simp at hs)
  all_goals (try contradiction)
  all_goals (first | subst hs | (obtain ⟨_, hs⟩ := hs; subst hs))
  all_goals (constructor <;> m2_close)

set_option maxHeartbeats 8000000 in
theorem inv2_step_wBuf (s s' : St) (f i x : _) (hl : LInv s) (hr : RInv s) (hi : Inv2 s) (hs : step s (.wBuf f i x) = some s') : Inv2 s' := by
  have hI := hi
  have hlh := hr.lowhigh
  obtain ⟨l1, l2, l3, l4, l5, l6, l7⟩ := hl
  obtain ⟨h1, h2, h3, h4, h5, h6, h7, h8, h9, h10, h11, h12, h13, h14, h15, h16, h17, h18, h19, h20, h21, h22, h23, h24, h25, h26, h27, h28, h29, h30, h31, h32, h33, h34, h35, h36, h37, h38, h39, h40⟩ := hi
  simp only [step, h1] at hs
  repeat' (split at hs)
  all_goals (try simp at hs)
  all_goals (try contradiction)
  all_goals (first | subst hs | (obtain ⟨_, hs⟩ := hs; subst hs))
  all_goals (constructor <;> m2_close)

end LibfiberVerif.MultiChan
