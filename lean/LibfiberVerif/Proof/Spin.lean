/-
  Proof/Spin.lean — invariants of the ticket spinlock model (property C18).
-/
import LibfiberVerif.Model.Spin

namespace LibfiberVerif.Spin

local macro "M32" : term => `((4294967296 : Nat))

/-- Fewer than 2^32 tickets are outstanding (holder + queued contenders). -/
def Bnd (s : St) : Prop := s.gUsers - s.gTicket < M32

structure Inv (s : St) : Prop where
  tk : s.ticket = s.gTicket % M32
  us : s.users = s.gUsers % M32
  le : s.gTicket ≤ s.gUsers
  spin : ∀ t my g, s.pc t = .spinning my g → my = g % M32 ∧ s.gTicket ≤ g ∧ g < s.gUsers
  inj : ∀ t1 t2 my1 my2 g, s.pc t1 = .spinning my1 g → s.pc t2 = .spinning my2 g → t1 = t2
  hold : ∀ t, holder (s.pc t) = true →
    s.gTicket < s.gUsers ∧ ∀ t' my g, s.pc t' = .spinning my g → g ≠ s.gTicket
  excl : ∀ t1 t2, holder (s.pc t1) = true → holder (s.pc t2) = true → t1 = t2
  unl : ∀ t x, s.pc t = .unlockRead x → x = s.ticket

theorem inv_init (v0 : Nat) : Inv (init v0) := by
  constructor <;> simp [init, holder]

/-- close an `Inv s'` goal once `s'` is an explicit record -/
local macro "spin_close" : tactic =>
  `(tactic| (constructor <;> (intros; simp only [upd] at *; grind [holder])))

theorem inv_step (s s' : St) (e : Ev) (hi : Inv s) (hb : Bnd s) (hs : step s e = some s') :
    Inv s' := by
  obtain ⟨htk, hus, hle, hspin, hinj, hhold, hexcl, hunl⟩ := hi
  unfold Bnd at hb
  cases e with
  | casBlob t ftk fus etk eus dtk dus ok =>
    simp only [step] at hs
    split at hs <;> simp at hs
    obtain ⟨⟨h1, h2, h3, h4, h5, h6, h7⟩, hs⟩ := hs
    subst h1 h2 h3 h4 h5 h6
    cases ok with
    | false => simp at hs; subst hs; spin_close
    | true =>
      simp at hs h7
      have hidle : s.gTicket = s.gUsers := by omega
      subst hs; spin_close
  | ldTicket t x =>
    simp only [step] at hs
    split at hs <;> simp at hs
    · obtain ⟨h1, hs⟩ := hs
      split at hs <;> simp at hs <;> subst hs
      · -- the load saw my ticket: my ghost ticket is the one being served
        spin_close
      · exact ⟨htk, hus, hle, hspin, hinj, hhold, hexcl, hunl⟩
    · obtain ⟨h1, hs⟩ := hs; subst hs; spin_close
  | _ =>
    simp only [step] at hs <;> split at hs <;> simp at hs
    all_goals first
      | (subst hs; spin_close)
      | (obtain ⟨h1, hs⟩ := hs; subst hs; spin_close)

/-! ### runs in which fewer than 2^32 tickets are outstanding before every event -/

/-- `Bnd` holds in the state before each event of the run. -/
def BoundedRun : St → List Ev → Prop
  | _, [] => True
  | s, e :: es => Bnd s ∧ match step s e with
    | none => True
    | some s' => BoundedRun s' es

theorem runFrom_cons {v0 : Nat} {s s' : St} {e : Ev} {es : List Ev}
    (h : (sys v0).runFrom s (e :: es) = some s') :
    ∃ s1, step s e = some s1 ∧ (sys v0).runFrom s1 es = some s' := by
  simp only [Sys.runFrom, sys] at h
  split at h
  · simp at h
  · next s1 h1 => exact ⟨s1, h1, h⟩

theorem inv_of_runFrom {v0 : Nat} {es : List Ev} : ∀ {s0 s : St}, Inv s0 → BoundedRun s0 es →
    (sys v0).runFrom s0 es = some s → Inv s := by
  induction es with
  | nil => intro s0 s hi _ hr; simp [Sys.runFrom] at hr; subst hr; exact hi
  | cons e es ih =>
    intro s0 s hi hb hr
    obtain ⟨s1, h1, hr'⟩ := runFrom_cons hr
    simp only [BoundedRun, h1] at hb
    exact ih (inv_step s0 s1 e hi hb.1 h1) hb.2 hr'

theorem inv_of_run {v0 : Nat} {es : List Ev} {s : St}
    (hr : (sys v0).run es = some s) (hb : BoundedRun (init v0) es) : Inv s :=
  inv_of_runFrom (inv_init v0) hb hr

/-- splitting a bounded run -/
theorem boundedRun_append {v0 : Nat} {es fs : List Ev} : ∀ {s0 s : St},
    (sys v0).runFrom s0 es = some s → BoundedRun s0 (es ++ fs) →
    BoundedRun s0 es ∧ BoundedRun s fs := by
  induction es with
  | nil => intro s0 s hr hb; simp [Sys.runFrom] at hr; subst hr; simpa [BoundedRun] using hb
  | cons e es ih =>
    intro s0 s hr hb
    obtain ⟨s1, h1, hr'⟩ := runFrom_cons hr
    simp only [List.cons_append, BoundedRun, h1] at hb ⊢
    exact ⟨⟨hb.1, (ih hr' hb.2).1⟩, (ih hr' hb.2).2⟩

end LibfiberVerif.Spin
