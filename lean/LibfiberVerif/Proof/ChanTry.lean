/-
  Proof/ChanTry.lean — `*_try_receive` (property C11): a try_receive reports "empty" only if
  the channel was empty at some instant of the call, or the send of the message NEXT IN LINE was
  in flight (bounded: slot claimed by the CAS on `high`, message not yet written; unbounded / sp:
  tail swapped, `prev->next` not yet written).  Both the state form (at the deciding read) and
  the history form (`SinceCall`: an instant since the call began) are proved, for channels with
  and without a ready_signal.
-/
import LibfiberVerif.Proof.ChanSpin

set_option linter.unusedSimpArgs false
set_option linter.unusedVariables false

namespace LibfiberVerif.Chan
open Signal (PSt PEv PPc pstep PInv pinit)

/-! ### bounded: what the receiver's (stale) copy of `high` means -/

/-- `emptySeen` is set whenever the copy of `high` the receiver holds does not exceed `low`:
    that copy was read in THIS operation, when `high = low` (see `emptySeen_set`) -/
structure EInv (s : St) : Prop where
  e1 : ∀ f h, s.pc f = .rLdHigh h → h ≤ s.low → s.emptySeen = true
  e2 : ∀ f h l, s.pc f = .rLdLow h l → h ≤ l → s.emptySeen = true

theorem einv_init (spin : Bool) (cap : Nat) : EInv (initM spin .bounded cap) := by
  constructor <;> simp [initM]

macro "ce_close" : tactic =>
  `(tactic| (intros; (try simp only [upd] at *); first | done | grind [Pc.isRecv]))

set_option maxHeartbeats 4000000 in
theorem einv_step (s s' : St) (e : Ev) (hk : s.kind = .bounded) (hb : BInv s) (he : EInv s)
    (hs : step s e = some s') : EInv s' := by
  have hrecv := hb.recv_id
  have hlh := hb.lowhigh
  have h14 := hb.rLdHigh_le
  have h15 := hb.rLdLow_eq
  have h17 := hb.rCleared_eq
  obtain ⟨e1, e2⟩ := he
  cases e with
  | p pe =>
    rcases proto_shape s s' pe hs with ⟨p', rfl⟩ | ⟨p', X, rfl, ht⟩
    · exact ⟨e1, e2⟩
    · generalize hpa : s.pc (pactor pe) = a at ht
      cases ht <;> (constructor <;> ce_close)
  | _ =>
    simp only [step, emptyPc, pubPc, hk] at hs
    all_goals (repeat' (split at hs))
    all_goals (try simp at hs)
    all_goals (try contradiction)
    all_goals (first | subst hs | (obtain ⟨_, hs⟩ := hs; subst hs))
    all_goals (constructor <;> ce_close)

theorem einv_of_run {spin : Bool} {cap : Nat} {es : List Ev} {s : St}
    (h : (sysM spin .bounded cap).run es = some s) : EInv s := by
  have : s.kind = .bounded ∧ BInv s ∧ EInv s :=
    Sys.inv_of_run (sysM spin .bounded cap) (fun s => s.kind = .bounded ∧ BInv s ∧ EInv s)
      ⟨rfl, binv_initM spin cap, einv_init spin cap⟩
      (fun s e s' hi hs => ⟨(kind_step s s' e hs).1.trans hi.1, binv_step s s' e hi.1 hi.2.1 hs,
        einv_step s s' e hi.1 hi.2.1 hi.2.2 hs⟩) h
  exact this.2.2

theorem qval_nz_b {s : St} (hb : BInv s) {i : Nat} (hi : i < s.high) : qval s i ≠ 0 := by
  have hlt : i < s.sent.length := by rw [hb.len]; exact hi
  obtain ⟨p, hp, he⟩ := qval_mem s i hlt
  rw [← he]; exact hb.vnz p hp

/-- bounded, state form: at the deciding read of a receive operation that finds nothing, either
    the receiver's load of `high` in this operation saw the channel empty, or the slot of the
    message next in line is still NULL because its sender — which has claimed sequence number
    `low` — has not written it yet (that send is in flight) -/
theorem empty_bounded_of_inv {s s' : St} (hk : s.kind = .bounded) (hb : BInv s) (he : EInv s)
    (f i x h l : Nat) (hpc : s.pc f = .rLdLow h l) (hs : step s (.rBuf f i x) = some s')
    (hnone : ¬ (x ≠ 0 ∧ h > l)) :
    s.emptySeen = true ∨
    (x = 0 ∧ s.low < s.high ∧ s.pc (qown s s.low) = .sClaimed (qval s s.low) s.low) := by
  obtain ⟨hh, hl⟩ := hb.rLdLow_eq f h l hpc
  subst hl
  by_cases hle : h ≤ s.low
  · exact Or.inl (he.e2 f h s.low hpc hle)
  · right
    have hx0 : x = 0 := by
      by_cases hx : x = 0
      · exact hx
      · exact absurd ⟨hx, by omega⟩ hnone
    have hlt : s.low < s.high := by omega
    simp only [step, hk, hpc] at hs
    split at hs
    · simp at hs
    rename_i hc
    simp only [not_or, Decidable.not_not] at hc
    obtain ⟨_, hxb⟩ := hc
    split at hs
    · rename_i hi
      subst hi
      have hnocl : ∀ g m, s.pc g ≠ .rCleared s.low m := by
        intro g m hg
        have := brecv_unique hb (f := f) (g := g) (by simp [hpc, Pc.isRecv]) (by simp [hg, Pc.isRecv])
        subst this; rw [hpc] at hg; simp at hg
      rcases hb.slots s.low (Nat.le_refl _) hlt hnocl with h' | ⟨_, h'⟩
      · exfalso
        apply qval_nz_b hb hlt
        rw [← h', ← hxb, hx0]
      · exact ⟨hx0, hlt, h'⟩
    · simp at hs

/-! ### queues: an unlinked node belongs to a sender between its tail swap and its link write -/

def Pc.swappedAt : Pc → Nat → Bool
  | .qSwapped _ _ i, j => i == j
  | .idle, _ => false | .sTop _, _ => false | .sLdLow _ _, _ => false | .sLdHigh _ _ _, _ => false
  | .sRdBuf _ _ _ _, _ => false | .sClaimed _ _, _ => false | .qCalled _, _ => false | .qData _, _ => false
  | .qCleared _, _ => false | .qLdTail _ _, _ => false | .sPublished _, _ => false | .sRaising _, _ => false
  | .sRaised _ _, _ => false | .sDone, _ => false | .rTop, _ => false | .rLdHigh _, _ => false
  | .rLdLow _ _, _ => false | .rRdBuf _ _ _, _ => false | .rCleared _ _, _ => false | .rGotHead _, _ => false
  | .rGotNext _ _, _ => false | .rMoved _ _, _ => false | .rGotData _ _, _ => false | .rWrote _ _, _ => false
  | .rEmpty, _ => false | .rWaiting, _ => false | .rDone _, _ => false | .tEmpty, _ => false

theorem swappedAt_iff (p : Pc) (j : Nat) : p.swappedAt j = true ↔ ∃ v prev, p = .qSwapped v prev j := by
  cases p <;> simp [Pc.swappedAt]

structure LInv (s : St) : Prop where
  len : s.order.length = s.sent.length
  onz : ∀ n, n ∈ s.order → n ≠ 0
  l1 : ∀ i, i < s.order.length → s.linked i = false → (s.pc (qown s i)).swappedAt i = true
  sw : ∀ f v prev i, s.pc f = .qSwapped v prev i → i < s.order.length ∧ qown s i = f

theorem linv_init (spin : Bool) (k : Kind) (cap : Nat) : LInv (initM spin k cap) := by
  constructor <;> simp [initM]

theorem qown_append_lt (s : St) (p : Nat × Nat) (i : Nat) (h : i < s.sent.length) :
    ((((s.sent ++ [p])[i]?).map Prod.fst).getD 0) = qown s i :=
  lown_append_lt s.sent p i h

theorem qown_append_len (l : List (Nat × Nat)) (p : Nat × Nat) :
    ((((l ++ [p])[l.length]?).map Prod.fst).getD 0) = p.1 := by
  simp

/-- a sender swaps the tail: its entry is the new last one, unlinked, and it is at `qSwapped` -/
theorem linv_push (s : St) (f v prev : Nat) (hl : LInv s) (hnsw : ∀ v' p' i', s.pc f ≠ .qSwapped v' p' i') :
    LInv { s with order := s.order ++ [v + 1], sent := s.sent ++ [(f, v)],
                  pc := upd s.pc f (.qSwapped v prev s.order.length) } := by
  obtain ⟨l0, lz, l1, l2⟩ := hl
  constructor
  case len => simp [l0]
  case onz =>
    intro n hn
    simp only [List.mem_append, List.mem_singleton] at hn
    rcases hn with hn | hn
    · exact lz n hn
    · omega
  case l1 =>
    intro i hi hlk
    simp only [List.length_append, List.length_singleton] at hi
    simp only [qown] at *
    by_cases hlt : i < s.order.length
    · rw [lown_append_lt s.sent (f, v) i (by omega)]
      have := l1 i hlt hlk
      simp only [upd]
      split
      · rename_i hf
        rw [hf] at this
        rw [swappedAt_iff] at this
        obtain ⟨v', p', hh⟩ := this
        exact absurd hh (hnsw _ _ _)
      · exact this
    · have hie : i = s.sent.length := by omega
      subst hie
      rw [qown_append_len]
      simp [upd, Pc.swappedAt, l0]
  case sw =>
    intro g v' p' i hg
    simp only [upd] at hg
    simp only [List.length_append, List.length_singleton, qown]
    split at hg
    · rename_i hgf
      simp at hg
      obtain ⟨_, _, rfl⟩ := hg
      refine ⟨by omega, ?_⟩
      rw [l0, qown_append_len]; exact hgf.symm
    · obtain ⟨a, b⟩ := l2 g v' p' i hg
      refine ⟨by omega, ?_⟩
      rw [lown_append_lt s.sent (f, v) i (by omega)]; exact b

/-- frame: fiber f moves between pcs that are not `qSwapped`; queue and links untouched -/
theorem linv_congr (s t : St) (f : Nat) (X : Pc) (ho : t.order = s.order) (hse : t.sent = s.sent)
    (hlk : t.linked = s.linked) (hpc : t.pc = upd s.pc f X) (hl : LInv s)
    (hold : ∀ v p i, s.pc f ≠ .qSwapped v p i) (hX : ∀ v p i, X ≠ .qSwapped v p i) : LInv t := by
  obtain ⟨l0, lz, l1, l2⟩ := hl
  have hqo : ∀ i, qown t i = qown s i := by intro i; simp [qown, hse]
  constructor
  case len => rw [ho, hse]; exact l0
  case onz => rw [ho]; exact lz
  case l1 =>
    intro i hi hlk'
    rw [ho] at hi
    rw [hlk] at hlk'
    have := l1 i hi hlk'
    rw [hpc, hqo]
    simp only [upd]
    split
    · rename_i hf
      rw [hf, swappedAt_iff] at this
      obtain ⟨v', p', hh⟩ := this
      exact absurd hh (hold _ _ _)
    · exact this
  case sw =>
    intro g v' p'' i hg
    rw [hpc] at hg
    simp only [upd] at hg
    rw [ho, hqo]
    split at hg
    · exact absurd hg (hX _ _ _)
    · exact l2 g v' p'' i hg

set_option maxHeartbeats 4000000 in
theorem linv_step (s s' : St) (e : Ev) (hk : s.kind ≠ .bounded) (hl : LInv s) (hs : step s e = some s') :
    LInv s' := by
  cases e with
  | p pe =>
    rcases proto_shape s s' pe hs with ⟨p', rfl⟩ | ⟨p', X, rfl, ht⟩
    · obtain ⟨l0, lz, l1, l2⟩ := hl
      exact ⟨l0, lz, l1, l2⟩
    · refine linv_congr s _ (pactor pe) X rfl rfl rfl rfl hl ?_ ?_
      · intro v p i h; generalize s.pc (pactor pe) = a at ht h; subst h; cases ht
      · intro v p i h; subst h; generalize s.pc (pactor pe) = a at ht; cases ht
  | xchgTail f o n =>
    simp only [step] at hs
    split at hs
    · simp at hs
    split at hs
    · rename_i v hpc
      split at hs <;> simp at hs
      subst hs
      exact linv_push s f v o hl (by simp [hpc])
    · simp at hs
  | stTail f n =>
    simp only [step] at hs
    split at hs
    · simp at hs
    split at hs
    · rename_i v t hpc
      split at hs <;> simp at hs
      subst hs
      exact linv_push s f v t hl (by simp [hpc])
    · simp at hs
  | wNext f n x =>
    simp only [step] at hs
    split at hs
    · simp at hs
    split at hs
    · rename_i v hpc
      split at hs <;> simp at hs
      subst hs
      exact linv_congr s _ f _ rfl rfl rfl rfl hl (by simp [hpc]) (by simp)
    · rename_i v prev i hpc
      split at hs <;> simp at hs
      subst hs
      obtain ⟨l0, lz, l1, l2⟩ := hl
      have hX : ∀ v' p' i', pubPc s v ≠ .qSwapped v' p' i' := by
        intro v' p' i'; simp only [pubPc]; split <;> simp
      constructor
      case len => exact l0
      case onz => exact lz
      case l1 =>
        intro j hj hlk
        simp only [upd] at hlk
        split at hlk
        · simp at hlk
        · rename_i hji
          have := l1 j hj hlk
          show (upd s.pc f (pubPc s v) (qown s j)).swappedAt j = true
          simp only [upd]
          split
          · rename_i hf
            rw [hf, hpc] at this
            simp [Pc.swappedAt] at this
            exact absurd this.symm hji
          · exact this
      case sw =>
        intro g v' p'' i' hg
        simp only [upd] at hg
        split at hg
        · exact absurd hg (hX _ _ _)
        · exact l2 g v' p'' i' hg
    · simp at hs
  | _ =>
    simp only [step, emptyPc, pubPc, hk, ne_eq, not_false_eq_true, true_or, ↓reduceIte] at hs
    all_goals (repeat' (split at hs))
    all_goals (try simp at hs)
    all_goals (try contradiction)
    all_goals (first | subst hs | (obtain ⟨_, hs⟩ := hs; subst hs))
    all_goals (exact linv_congr s _ _ _ rfl rfl rfl rfl hl (by simp [*]) (by simp))

theorem linv_of_run {spin : Bool} {k : Kind} {cap : Nat} {es : List Ev} {s : St}
    (hk : k ≠ .bounded) (h : (sysM spin k cap).run es = some s) : LInv s := by
  have : s.kind = k ∧ LInv s :=
    Sys.inv_of_run (sysM spin k cap) (fun s => s.kind = k ∧ LInv s) ⟨rfl, linv_init spin k cap⟩
      (fun s e s' hi hs => ⟨(kind_step s s' e hs).1.trans hi.1,
        linv_step s s' e (by rw [hi.1]; exact hk) hi.2 hs⟩) h
  exact this.2

/-- queues, state form: `head->next` reads NULL only if every message linearised so far has been
    received (the queue is empty), or the node next in line is not linked yet — its sender is
    between its tail swap and the write of `prev->next` (that send is in flight) -/
theorem empty_queue_of_inv {s : St} (hq : QInv s) (hl : LInv s) (h0 : headNext s = 0) :
    s.hd = s.sent.length ∨
    (s.hd < s.sent.length ∧ s.linked s.hd = false ∧ (s.pc (qown s s.hd)).swappedAt s.hd = true) := by
  by_cases hlt : s.hd < s.sent.length
  · right
    have hlo : s.hd < s.order.length := by rw [hl.len]; exact hlt
    simp only [headNext, List.getElem?_eq_getElem hlo] at h0
    have hlk : s.linked s.hd = false := by
      by_cases hlk : s.linked s.hd = true
      · simp only [hlk, if_true] at h0
        exact absurd h0 (hl.onz _ (List.getElem_mem hlo))
      · simpa using hlk
    exact ⟨hlt, hlk, hl.l1 s.hd hlo hlk⟩
  · left
    have := hq.hd_le
    omega

/-! ### history form -/

/-- events that begin a receive operation -/
def Ev.isRecvCall : Ev → Bool
  | .callRecv _ => true
  | .callTry _ => true
  | _ => false

/-- `SinceCall M es P`: P held at some instant s1 of the run, and no receive operation has
    begun since — so if a receive operation is in progress at the end of `es`, s1 is an instant
    of THAT operation -/
def SinceCall (M : Sys St Ev) (es : List Ev) (P : St → Prop) : Prop :=
  ∃ es1 es2 s1, es = es1 ++ es2 ∧ M.run es1 = some s1 ∧ (∀ e, e ∈ es2 → e.isRecvCall = false) ∧ P s1

theorem SinceCall.now {M : Sys St Ev} {es : List Ev} {s : St} {P : St → Prop}
    (h : M.run es = some s) (hp : P s) : SinceCall M es P :=
  ⟨es, [], s, by simp, h, by simp, hp⟩

theorem SinceCall.snoc {M : Sys St Ev} {es : List Ev} {P : St → Prop} (h : SinceCall M es P)
    (e : Ev) (he : e.isRecvCall = false) : SinceCall M (es ++ [e]) P := by
  obtain ⟨es1, es2, s1, rfl, hr, hn, hp⟩ := h
  refine ⟨es1, es2 ++ [e], s1, by simp, hr, ?_, hp⟩
  intro e' he'
  simp only [List.mem_append, List.mem_singleton] at he'
  rcases he' with h' | rfl
  · exact hn e' h'
  · exact he

theorem SinceCall.mono {M : Sys St Ev} {es : List Ev} {P Q : St → Prop} (h : SinceCall M es P)
    (hpq : ∀ es1 s1, M.run es1 = some s1 → P s1 → Q s1) : SinceCall M es Q := by
  obtain ⟨es1, es2, s1, he, hr, hn, hp⟩ := h
  exact ⟨es1, es2, s1, he, hr, hn, hpq es1 s1 hr hp⟩

theorem run_snoc (M : Sys St Ev) {es : List Ev} {s s' : St} {e : Ev} (h : M.run es = some s)
    (hs : M.step s e = some s') : M.run (es ++ [e]) = some s' := by
  simp only [Sys.run] at h ⊢
  simp [Sys.runFrom_append, h, Sys.runFrom, hs]

/-- a receive call resets `emptySeen` -/
theorem call_resets (s s' : St) (e : Ev) (hc : e.isRecvCall = true) (hs : step s e = some s') :
    s'.emptySeen = false := by
  cases e <;> simp [Ev.isRecvCall] at hc
  all_goals (simp only [step] at hs; split at hs <;> simp at hs; subst hs; rfl)

/-- `emptySeen` becomes true only by the receiver's load of `high`, at an instant when the
    channel is empty (`high = low`) -/
theorem emptySeen_set (s s' : St) (e : Ev) (h0 : s.emptySeen = false) (h1 : s'.emptySeen = true)
    (hs : step s e = some s') : s.high = s.low := by
  cases e with
  | p pe =>
    rcases proto_shape s s' pe hs with ⟨p', rfl⟩ | ⟨p', X, rfl, ht⟩ <;> simp [h0] at h1
  | _ =>
    simp only [step, emptyPc, pubPc] at hs
    all_goals (repeat' (split at hs))
    all_goals (try simp at hs)
    all_goals (try contradiction)
    all_goals (first | subst hs | (obtain ⟨_, hs⟩ := hs; subst hs))
    all_goals (first | (simp [h0] at h1; done) | (simpa using h1))

/-- a receive call cannot begin while a receive operation is in progress -/
theorem no_call_while_recv (s s' : St) (e : Ev) (f : Nat) (hrid : ∀ g, (s.pc g).isRecv = true → s.receiver = some g)
    (hf : (s.pc f).isRecv = true) (hs : step s e = some s') : e.isRecvCall = false := by
  have hr := hrid f hf
  cases e <;> simp [Ev.isRecvCall]
  all_goals
    (simp only [step] at hs
     split at hs <;> simp at hs
     rename_i hc
     obtain ⟨hidle, hrc, _⟩ := hc
     rw [hr] at hrc
     simp at hrc
     subst hrc
     rw [hidle] at hf
     simp [Pc.isRecv] at hf)

/-- the only ways into `tEmpty` -/
theorem tEmpty_enter (s s' : St) (e : Ev) (f : Nat) (h1 : s.pc f ≠ .tEmpty) (h2 : s'.pc f = .tEmpty)
    (hs : step s e = some s') :
    (∃ i x h l, e = .rBuf f i x ∧ s.kind = .bounded ∧ s.pc f = .rLdLow h l ∧ ¬ (x ≠ 0 ∧ h > l)) ∨
    (∃ n h, e = .rNext f n 0 ∧ s.kind ≠ .bounded ∧ s.pc f = .rGotHead h ∧ headNext s = 0) := by
  cases e with
  | p pe =>
    exfalso
    rcases proto_shape s s' pe hs with ⟨p', rfl⟩ | ⟨p', X, rfl, ht⟩
    · exact h1 h2
    · simp only [upd] at h2
      split at h2
      · rename_i hf; subst h2; generalize s.pc (pactor pe) = a at ht; cases ht
      · exact h1 h2
  | rBuf g i x =>
    left
    simp only [step, emptyPc] at hs
    split at hs
    · simp at hs
    rename_i hc
    simp only [not_or, Decidable.not_not] at hc
    split at hs
    · split at hs <;> simp at hs
      subst hs
      simp only [upd] at h2
      split at h2
      · simp at h2
      · exact absurd h2 h1
    · rename_i h l hpc
      split at hs
      · split at hs
        · simp at hs; subst hs
          simp only [upd] at h2
          split at h2
          · simp at h2
          · exact absurd h2 h1
        · rename_i hnone
          simp at hs; subst hs
          simp only [upd] at h2
          split at h2
          · rename_i hfg; subst hfg
            exact ⟨i, x, h, l, rfl, hc.1, hpc, hnone⟩
          · exact absurd h2 h1
      · simp at hs
    · simp at hs
  | rNext g n x =>
    right
    simp only [step, emptyPc] at hs
    split at hs
    · simp at hs
    rename_i hk
    split at hs
    · rename_i h hpc
      split at hs
      · rename_i hc
        obtain ⟨hn, hx⟩ := hc
        split at hs
        · rename_i hx0
          simp at hs; subst hs
          simp only [upd] at h2
          split at h2
          · rename_i hfg; subst hfg; subst hx0
            exact ⟨n, h, rfl, hk, hpc, hx.symm⟩
          · exact absurd h2 h1
        · simp at hs; subst hs
          simp only [upd] at h2
          split at h2
          · simp at h2
          · exact absurd h2 h1
      · simp at hs
    · simp at hs
  | _ =>
    exfalso
    simp only [step, pubPc] at hs
    all_goals (repeat' (split at hs))
    all_goals (try simp at hs)
    all_goals (try contradiction)
    all_goals (first | subst hs | (obtain ⟨_, hs⟩ := hs; subst hs))
    all_goals (simp only [upd] at h2; (try split at h2) <;> first | exact h1 h2 | simp at h2)

/-- bounded: the channel is empty — everything sent (claimed) so far has been received — or the
    send of the message next in line is in flight (claimed, not yet written) -/
def emptyOrInflightB (s : St) : Prop :=
  s.sent.length = s.recvd.length ∨ (s.low < s.high ∧ ∃ g v, s.pc g = .sClaimed v s.low)

/-- queues: the channel is empty — everything sent (swapped into the tail) so far has been
    received — or the send of the message next in line is in flight (swapped, not yet linked) -/
def emptyOrInflightQ (s : St) : Prop :=
  s.sent.length = s.recvd.length ∨ (s.hd < s.sent.length ∧ ∃ g v prev, s.pc g = .qSwapped v prev s.hd)

theorem recvd_len_b {s : St} (hb : BInv s) : s.recvd.length = s.low := by
  rw [hb.recvd_eq]; simp [hb.len]; exact Nat.min_eq_left hb.lowhigh.1

theorem recvd_len_q {s : St} (hq : QInv s) : s.recvd.length = s.hd := by
  rw [hq.recvd_eq]; simp; exact Nat.min_eq_left hq.hd_le

/-- history invariant, bounded -/
theorem try_hist_bounded (spin : Bool) (cap : Nat) (es : List Ev) (s : St)
    (h : (sysM spin .bounded cap).run es = some s) :
    (s.emptySeen = true → SinceCall (sysM spin .bounded cap) es (fun t => t.high = t.low)) ∧
    (∀ f, s.pc f = .tEmpty → SinceCall (sysM spin .bounded cap) es emptyOrInflightB) := by
  have key := Sys.hist_inv_of_run (sysM spin .bounded cap)
    (fun s es => (sysM spin .bounded cap).run es = some s ∧
      (s.emptySeen = true → SinceCall (sysM spin .bounded cap) es (fun t => t.high = t.low)) ∧
      (∀ f, s.pc f = .tEmpty → SinceCall (sysM spin .bounded cap) es emptyOrInflightB))
    ⟨rfl, by simp [sysM, initM], by simp [sysM, initM]⟩
    (fun s es e s' hi hs => by
      obtain ⟨hr, h1, h2⟩ := hi
      have hr' := run_snoc _ hr hs
      have hb := binv_of_run hr
      have he := einv_of_run hr
      have hk := (kind_of_run hr).1
      have hs0 : step s e = some s' := hs
      have part1 : s'.emptySeen = true →
          SinceCall (sysM spin .bounded cap) (es ++ [e]) (fun t => t.high = t.low) := by
        intro h'
        by_cases hc : e.isRecvCall = true
        · have := call_resets s s' e hc hs0; rw [this] at h'; simp at h'
        · have hc' : e.isRecvCall = false := by simpa using hc
          by_cases h0 : s.emptySeen = true
          · exact (h1 h0).snoc e hc'
          · have h0' : s.emptySeen = false := by simpa using h0
            exact (SinceCall.now hr (emptySeen_set s s' e h0' h' hs0)).snoc e hc'
      refine ⟨hr', part1, ?_⟩
      intro f hf
      by_cases hold : s.pc f = .tEmpty
      · exact (h2 f hold).snoc e (no_call_while_recv s s' e f hb.recv_id (by simp [hold, Pc.isRecv]) hs0)
      · rcases tEmpty_enter s s' e f hold hf hs0 with ⟨i, x, hh, l, rfl, _, hpc, hnone⟩ | ⟨n, hh, rfl, hk', _⟩
        · rcases empty_bounded_of_inv hk hb he f i x hh l hpc hs0 hnone with hes | ⟨_, hlt, hcl⟩
          · have hnc : (Ev.rBuf f i x).isRecvCall = false := rfl
            have hs1 : s'.emptySeen = true := by
              -- rBuf does not touch emptySeen
              simp only [step, emptyPc] at hs0
              repeat' (split at hs0)
              all_goals (try simp at hs0)
              all_goals (first | (subst hs0; exact hes) | contradiction)
            refine (part1 hs1).mono ?_
            intro es1 s1 hr1 hp
            have hb1 := binv_of_run hr1
            left
            rw [recvd_len_b hb1, hb1.len]; exact hp
          · exact (SinceCall.now hr (Or.inr ⟨hlt, _, _, hcl⟩)).snoc _ rfl
        · exact absurd hk hk')
    h
  exact ⟨key.2.1, key.2.2⟩

/-- history invariant, unbounded / sp -/
theorem try_hist_queue (spin : Bool) (k : Kind) (hk : k ≠ .bounded) (cap : Nat) (es : List Ev) (s : St)
    (h : (sysM spin k cap).run es = some s) :
    ∀ f, s.pc f = .tEmpty → SinceCall (sysM spin k cap) es emptyOrInflightQ := by
  have key := Sys.hist_inv_of_run (sysM spin k cap)
    (fun s es => (sysM spin k cap).run es = some s ∧
      (∀ f, s.pc f = .tEmpty → SinceCall (sysM spin k cap) es emptyOrInflightQ))
    ⟨rfl, by simp [sysM, initM]⟩
    (fun s es e s' hi hs => by
      obtain ⟨hr, h2⟩ := hi
      have hr' := run_snoc _ hr hs
      have hq := qinv_of_run hk hr
      have hl := linv_of_run hk hr
      have hks := (kind_of_run hr).1
      have hs0 : step s e = some s' := hs
      refine ⟨hr', ?_⟩
      intro f hf
      by_cases hold : s.pc f = .tEmpty
      · exact (h2 f hold).snoc e (no_call_while_recv s s' e f hq.recv_id (by simp [hold, Pc.isRecv]) hs0)
      · rcases tEmpty_enter s s' e f hold hf hs0 with ⟨i, x, hh, l, rfl, hkb, _, _⟩ | ⟨n, hh, rfl, _, hpc, h0⟩
        · rw [hks] at hkb; exact absurd hkb hk
        · rcases empty_queue_of_inv hq hl h0 with hemp | ⟨hlt, _, hsw⟩
          · exact (SinceCall.now hr (Or.inl (by rw [recvd_len_q hq]; exact hemp.symm))).snoc _ rfl
          · rw [swappedAt_iff] at hsw
            obtain ⟨v, prev, hsw⟩ := hsw
            exact (SinceCall.now hr (Or.inr ⟨hlt, _, v, prev, hsw⟩)).snoc _ rfl)
    h
  exact key.2

/-! ### a try_receive never waits -/

/-- single receiver (ghost-checked client contract) + while the operation in progress is a
    try_receive nobody is on the way into fiber_signal_wait -/
structure TInv (s : St) : Prop where
  rid : ∀ g, (s.pc g).isRecv = true → s.receiver = some g
  nowait : s.tryMode = true → ∀ f, s.pc f ≠ .rEmpty ∧ s.pc f ≠ .rWaiting

theorem tinv_init (spin : Bool) (k : Kind) (cap : Nat) : TInv (initM spin k cap) := by
  constructor <;> simp [initM, Pc.isRecv]

set_option maxHeartbeats 4000000 in
theorem tinv_step (s s' : St) (e : Ev) (hi : TInv s) (hs : step s e = some s') : TInv s' := by
  obtain ⟨t1, t2⟩ := hi
  cases e with
  | p pe =>
    rcases proto_shape s s' pe hs with ⟨p', rfl⟩ | ⟨p', X, rfl, ht⟩
    · exact ⟨t1, t2⟩
    · generalize hpa : s.pc (pactor pe) = a at ht
      cases ht <;> (constructor <;> ce_close)
  | _ =>
    simp only [step, emptyPc, pubPc] at hs
    all_goals (repeat' (split at hs))
    all_goals (try simp at hs)
    all_goals (try contradiction)
    all_goals (first | subst hs | (obtain ⟨_, hs⟩ := hs; subst hs))
    all_goals (constructor <;> ce_close)

theorem tinv_of_run {spin : Bool} {k : Kind} {cap : Nat} {es : List Ev} {s : St}
    (h : (sysM spin k cap).run es = some s) : TInv s :=
  Sys.inv_of_run (sysM spin k cap) TInv (tinv_init spin k cap) (fun s e s' hi hs => tinv_step s s' e hi hs) h

end LibfiberVerif.Chan
