/-
  Proof/ChanQueueStep.lean — `Chan.QInv` (unbounded / sp channel: order, data words,
  exactly-once, per-sender FIFO) is preserved by every event.
-/
import LibfiberVerif.Proof.ChanQueue

set_option linter.unusedSimpArgs false
set_option linter.unusedVariables false

namespace LibfiberVerif.Chan

macro "cq_close" : tactic =>
  `(tactic| (intros; (try simp only [upd, qval, sentBy, isOld] at *); first | done | grind [Pc.pending, Pc.isRecv]))

theorem qval_lt (s : St) (i : Nat) (h : i < s.sent.length) : qval s i = (s.sent[i]).2 := by
  simp [qval, List.getElem?_eq_getElem h]

theorem qval_mem (s : St) (i : Nat) (h : i < s.sent.length) : ∃ p, p ∈ s.sent ∧ p.2 = qval s i :=
  ⟨s.sent[i], List.getElem_mem h, (qval_lt s i h).symm⟩

theorem qval_inj {s : St} (hq : QInv s) {i j : Nat} (hi : i < s.sent.length) (hj : j < s.sent.length)
    (h : qval s i = qval s j) : i = j := by
  have hn := hq.vnodup
  rw [qval_lt s i hi, qval_lt s j hj] at h
  have hi' : i < (s.sent.map Prod.snd).length := by simpa using hi
  have hj' : j < (s.sent.map Prod.snd).length := by simpa using hj
  have : (s.sent.map Prod.snd)[i] = (s.sent.map Prod.snd)[j] := by simpa using h
  exact (List.getElem_inj hn).mp this

theorem qval_nz {s : St} (hq : QInv s) {i : Nat} (hi : i < s.sent.length) : qval s i ≠ 0 := by
  obtain ⟨p, hp, he⟩ := qval_mem s i hi
  rw [← he]; exact hq.vnz p hp

/-- an old node is none of the nodes from position hd-1 on, nor the node of a pending message -/
theorem isOld_ne {s : St} (hq : QInv s) {h : Nat} (ho : isOld s h) :
    (∀ i, s.hd ≤ i + 1 → i < s.sent.length → qval s i + 1 ≠ h) ∧
    (∀ f v, v ∈ (s.pc f).pending → v + 1 ≠ h) := by
  constructor
  · intro i h1 h2 he
    rcases ho with ho | ⟨j, hj1, hj2, hj3⟩
    · rw [ho] at he; exact qval_nz hq h2 (by omega)
    · rw [hj3] at he
      have := qval_inj hq h2 hj2 (by omega)
      omega
  · intro f v hv he
    obtain ⟨hvnz, _, hfresh⟩ := hq.pend f v hv
    rcases ho with ho | ⟨j, hj1, hj2, hj3⟩
    · rw [ho] at he; omega
    · rw [hj3] at he
      obtain ⟨p, hp, hpe⟩ := qval_mem s j hj2
      exact hfresh p hp (by omega)

/-- `headNext ≠ 0`: there is a next message and it is the one with sequence number hd -/
theorem headNext_ne_zero {s : St} (hq : QInv s) {x : Nat} (hx : x = headNext s) (hne : x ≠ 0) :
    s.hd < s.sent.length ∧ x = qval s s.hd + 1 := by
  simp only [headNext, hq.ord] at hx
  split at hx
  · rename_i n hn
    simp only [List.getElem?_map, Option.map_eq_some_iff] at hn
    obtain ⟨a, ⟨p, hp, rfl⟩, rfl⟩ := hn
    have hlt : s.hd < s.sent.length := by
      by_cases h : s.hd < s.sent.length
      · exact h
      · rw [List.getElem?_eq_none (by omega)] at hp; simp at hp
    split at hx
    · refine ⟨hlt, ?_⟩
      rw [hx, qval_lt s s.hd hlt]
      rw [List.getElem?_eq_getElem hlt] at hp
      simp at hp; rw [hp]
    · exact absurd hx hne
  · exact absurd hx hne

set_option maxHeartbeats 4000000 in
theorem qinv_step_callSend (s s' : St) (f v : _) (hk : s.kind ≠ .bounded) (hq : QInv s) (hs : step s (.callSend f v) = some s') : QInv s' := by
  have hQ := hq
  obtain ⟨q1, q2, q3, q4, q5, q6, q7, q8, q9, q10, q11, q12, q13, q14, q15, q16, q17, q18, q19, q20⟩ := hq
  simp only [step, emptyPc, pubPc] at hs
  repeat' (split at hs)
  all_goals (try simp at hs)
  all_goals (try contradiction)
  all_goals (first | subst hs | (obtain ⟨_, hs⟩ := hs; subst hs))
  all_goals (constructor <;> cq_close)

set_option maxHeartbeats 4000000 in
theorem qinv_step_woke (s s' : St) (f r : _) (hk : s.kind ≠ .bounded) (hq : QInv s) (hs : step s (.woke f r) = some s') : QInv s' := by
  have hQ := hq
  obtain ⟨q1, q2, q3, q4, q5, q6, q7, q8, q9, q10, q11, q12, q13, q14, q15, q16, q17, q18, q19, q20⟩ := hq
  simp only [step, emptyPc, pubPc] at hs
  repeat' (split at hs)
  all_goals (try simp at hs)
  all_goals (try contradiction)
  all_goals (first | subst hs | (obtain ⟨_, hs⟩ := hs; subst hs))
  all_goals (constructor <;> cq_close)

set_option maxHeartbeats 4000000 in
theorem qinv_step_retSend (s s' : St) (f : _) (hk : s.kind ≠ .bounded) (hq : QInv s) (hs : step s (.retSend f) = some s') : QInv s' := by
  have hQ := hq
  obtain ⟨q1, q2, q3, q4, q5, q6, q7, q8, q9, q10, q11, q12, q13, q14, q15, q16, q17, q18, q19, q20⟩ := hq
  simp only [step, emptyPc, pubPc] at hs
  repeat' (split at hs)
  all_goals (try simp at hs)
  all_goals (try contradiction)
  all_goals (first | subst hs | (obtain ⟨_, hs⟩ := hs; subst hs))
  all_goals (constructor <;> cq_close)

set_option maxHeartbeats 4000000 in
theorem qinv_step_callRecv (s s' : St) (f : _) (hk : s.kind ≠ .bounded) (hq : QInv s) (hs : step s (.callRecv f) = some s') : QInv s' := by
  have hQ := hq
  obtain ⟨q1, q2, q3, q4, q5, q6, q7, q8, q9, q10, q11, q12, q13, q14, q15, q16, q17, q18, q19, q20⟩ := hq
  simp only [step, emptyPc, pubPc] at hs
  repeat' (split at hs)
  all_goals (try simp at hs)
  all_goals (try contradiction)
  all_goals (first | subst hs | (obtain ⟨_, hs⟩ := hs; subst hs))
  all_goals (constructor <;> cq_close)

set_option maxHeartbeats 4000000 in
theorem qinv_step_callTry (s s' : St) (f : _) (hk : s.kind ≠ .bounded) (hq : QInv s) (hs : step s (.callTry f) = some s') : QInv s' := by
  have hQ := hq
  obtain ⟨q1, q2, q3, q4, q5, q6, q7, q8, q9, q10, q11, q12, q13, q14, q15, q16, q17, q18, q19, q20⟩ := hq
  simp only [step, emptyPc, pubPc] at hs
  repeat' (split at hs)
  all_goals (try simp at hs)
  all_goals (try contradiction)
  all_goals (first | subst hs | (obtain ⟨_, hs⟩ := hs; subst hs))
  all_goals (constructor <;> cq_close)

set_option maxHeartbeats 4000000 in
theorem qinv_step_retRecv (s s' : St) (f v : _) (hk : s.kind ≠ .bounded) (hq : QInv s) (hs : step s (.retRecv f v) = some s') : QInv s' := by
  have hQ := hq
  obtain ⟨q1, q2, q3, q4, q5, q6, q7, q8, q9, q10, q11, q12, q13, q14, q15, q16, q17, q18, q19, q20⟩ := hq
  simp only [step, emptyPc, pubPc] at hs
  repeat' (split at hs)
  all_goals (try simp at hs)
  all_goals (try contradiction)
  all_goals (first | subst hs | (obtain ⟨_, hs⟩ := hs; subst hs))
  all_goals (constructor <;> cq_close)

set_option maxHeartbeats 4000000 in
theorem qinv_step_ldLow (s s' : St) (f l : _) (hk : s.kind ≠ .bounded) (hq : QInv s) (hs : step s (.ldLow f l) = some s') : QInv s' := by
  have hQ := hq
  obtain ⟨q1, q2, q3, q4, q5, q6, q7, q8, q9, q10, q11, q12, q13, q14, q15, q16, q17, q18, q19, q20⟩ := hq
  simp only [step, emptyPc, pubPc] at hs
  repeat' (split at hs)
  all_goals (try simp at hs)
  all_goals (try contradiction)
  all_goals (first | subst hs | (obtain ⟨_, hs⟩ := hs; subst hs))
  all_goals (constructor <;> cq_close)

set_option maxHeartbeats 4000000 in
theorem qinv_step_ldHigh (s s' : St) (f h : _) (hk : s.kind ≠ .bounded) (hq : QInv s) (hs : step s (.ldHigh f h) = some s') : QInv s' := by
  have hQ := hq
  obtain ⟨q1, q2, q3, q4, q5, q6, q7, q8, q9, q10, q11, q12, q13, q14, q15, q16, q17, q18, q19, q20⟩ := hq
  simp only [step, emptyPc, pubPc] at hs
  repeat' (split at hs)
  all_goals (try simp at hs)
  all_goals (try contradiction)
  all_goals (first | subst hs | (obtain ⟨_, hs⟩ := hs; subst hs))
  all_goals (constructor <;> cq_close)

set_option maxHeartbeats 4000000 in
theorem qinv_step_rBuf (s s' : St) (f i x : _) (hk : s.kind ≠ .bounded) (hq : QInv s) (hs : step s (.rBuf f i x) = some s') : QInv s' := by
  have hQ := hq
  obtain ⟨q1, q2, q3, q4, q5, q6, q7, q8, q9, q10, q11, q12, q13, q14, q15, q16, q17, q18, q19, q20⟩ := hq
  simp only [step, emptyPc, pubPc] at hs
  repeat' (split at hs)
  all_goals (try simp at hs)
  all_goals (try contradiction)
  all_goals (first | subst hs | (obtain ⟨_, hs⟩ := hs; subst hs))
  all_goals (constructor <;> cq_close)

set_option maxHeartbeats 4000000 in
theorem qinv_step_casHigh (s s' : St) (f a b c ok : _) (hk : s.kind ≠ .bounded) (hq : QInv s) (hs : step s (.casHigh f a b c ok) = some s') : QInv s' := by
  have hQ := hq
  obtain ⟨q1, q2, q3, q4, q5, q6, q7, q8, q9, q10, q11, q12, q13, q14, q15, q16, q17, q18, q19, q20⟩ := hq
  simp only [step, emptyPc, pubPc] at hs
  repeat' (split at hs)
  all_goals (try simp at hs)
  all_goals (try contradiction)
  all_goals (first | subst hs | (obtain ⟨_, hs⟩ := hs; subst hs))
  all_goals (constructor <;> cq_close)

set_option maxHeartbeats 4000000 in
theorem qinv_step_wBuf (s s' : St) (f i x : _) (hk : s.kind ≠ .bounded) (hq : QInv s) (hs : step s (.wBuf f i x) = some s') : QInv s' := by
  have hQ := hq
  obtain ⟨q1, q2, q3, q4, q5, q6, q7, q8, q9, q10, q11, q12, q13, q14, q15, q16, q17, q18, q19, q20⟩ := hq
  simp only [step, emptyPc, pubPc] at hs
  repeat' (split at hs)
  all_goals (try simp at hs)
  all_goals (try contradiction)
  all_goals (first | subst hs | (obtain ⟨_, hs⟩ := hs; subst hs))
  all_goals (constructor <;> cq_close)

set_option maxHeartbeats 4000000 in
theorem qinv_step_stLow (s s' : St) (f l : _) (hk : s.kind ≠ .bounded) (hq : QInv s) (hs : step s (.stLow f l) = some s') : QInv s' := by
  have hQ := hq
  obtain ⟨q1, q2, q3, q4, q5, q6, q7, q8, q9, q10, q11, q12, q13, q14, q15, q16, q17, q18, q19, q20⟩ := hq
  simp only [step, emptyPc, pubPc] at hs
  repeat' (split at hs)
  all_goals (try simp at hs)
  all_goals (try contradiction)
  all_goals (first | subst hs | (obtain ⟨_, hs⟩ := hs; subst hs))
  all_goals (constructor <;> cq_close)

set_option maxHeartbeats 4000000 in
theorem qinv_step_wNext (s s' : St) (f n x : _) (hk : s.kind ≠ .bounded) (hq : QInv s) (hs : step s (.wNext f n x) = some s') : QInv s' := by
  have hQ := hq
  obtain ⟨q1, q2, q3, q4, q5, q6, q7, q8, q9, q10, q11, q12, q13, q14, q15, q16, q17, q18, q19, q20⟩ := hq
  simp only [step, emptyPc, pubPc] at hs
  repeat' (split at hs)
  all_goals (try simp at hs)
  all_goals (try contradiction)
  all_goals (first | subst hs | (obtain ⟨_, hs⟩ := hs; subst hs))
  all_goals (constructor <;> cq_close)

set_option maxHeartbeats 4000000 in
theorem qinv_step_ldTail (s s' : St) (f t : _) (hk : s.kind ≠ .bounded) (hq : QInv s) (hs : step s (.ldTail f t) = some s') : QInv s' := by
  have hQ := hq
  obtain ⟨q1, q2, q3, q4, q5, q6, q7, q8, q9, q10, q11, q12, q13, q14, q15, q16, q17, q18, q19, q20⟩ := hq
  simp only [step, emptyPc, pubPc] at hs
  repeat' (split at hs)
  all_goals (try simp at hs)
  all_goals (try contradiction)
  all_goals (first | subst hs | (obtain ⟨_, hs⟩ := hs; subst hs))
  all_goals (constructor <;> cq_close)

set_option maxHeartbeats 4000000 in
theorem qinv_step_rHead (s s' : St) (f h : _) (hk : s.kind ≠ .bounded) (hq : QInv s) (hs : step s (.rHead f h) = some s') : QInv s' := by
  have hQ := hq
  obtain ⟨q1, q2, q3, q4, q5, q6, q7, q8, q9, q10, q11, q12, q13, q14, q15, q16, q17, q18, q19, q20⟩ := hq
  simp only [step, emptyPc, pubPc] at hs
  repeat' (split at hs)
  all_goals (try simp at hs)
  all_goals (try contradiction)
  all_goals (first | subst hs | (obtain ⟨_, hs⟩ := hs; subst hs))
  all_goals (constructor <;> cq_close)

set_option maxHeartbeats 4000000 in
theorem qinv_step_rData (s s' : St) (f n d : _) (hk : s.kind ≠ .bounded) (hq : QInv s) (hs : step s (.rData f n d) = some s') : QInv s' := by
  have hQ := hq
  obtain ⟨q1, q2, q3, q4, q5, q6, q7, q8, q9, q10, q11, q12, q13, q14, q15, q16, q17, q18, q19, q20⟩ := hq
  simp only [step, emptyPc, pubPc] at hs
  repeat' (split at hs)
  all_goals (try simp at hs)
  all_goals (try contradiction)
  all_goals (first | subst hs | (obtain ⟨_, hs⟩ := hs; subst hs))
  all_goals (constructor <;> cq_close)

/-- the receiver is the only fiber in a receive pc -/
theorem recv_unique {s : St} (hq : QInv s) {f g : Nat} (hf : (s.pc f).isRecv = true) (hg : (s.pc g).isRecv = true) :
    f = g := by
  have a := hq.recv_id f hf
  have b := hq.recv_id g hg
  rw [a] at b; exact Option.some.inj b

set_option maxHeartbeats 4000000 in
theorem qinv_step_rNext (s s' : St) (f n x : Nat) (hk : s.kind ≠ .bounded) (hq : QInv s)
    (hs : step s (.rNext f n x) = some s') : QInv s' := by
  have hQ := hq
  obtain ⟨q1, q2, q3, q4, q5, q6, q7, q8, q9, q10, q11, q12, q13, q14, q15, q16, q17, q18, q19, q20⟩ := hq
  simp only [step, emptyPc, pubPc] at hs
  split at hs
  · simp at hs
  split at hs
  · rename_i h hpc
    split at hs
    · rename_i hc
      obtain ⟨hn, hx⟩ := hc
      have hh := hQ.rGotHead_eq f h hpc
      split at hs
      · repeat' (split at hs)
        all_goals (simp at hs; subst hs; constructor <;> cq_close)
      · simp at hs; subst hs
        rename_i hne
        obtain ⟨hlt, hxe⟩ := headNext_ne_zero hQ hx hne
        constructor
        case rGotNext_eq =>
          intro g h' x' hg
          simp only [upd] at hg
          split at hg
          · simp at hg; obtain ⟨rfl, rfl⟩ := hg; exact ⟨hh, hlt, hxe⟩
          · have := recv_unique hQ (f := f) (g := g) (by simp [hpc, Pc.isRecv]) (by simp [hg, Pc.isRecv])
            subst this; contradiction
        all_goals cq_close
    · simp at hs
  · simp at hs

set_option maxHeartbeats 4000000 in
theorem qinv_step_wHead (s s' : St) (f x : Nat) (hk : s.kind ≠ .bounded) (hq : QInv s)
    (hs : step s (.wHead f x) = some s') : QInv s' := by
  have hQ := hq
  obtain ⟨q1, q2, q3, q4, q5, q6, q7, q8, q9, q10, q11, q12, q13, q14, q15, q16, q17, q18, q19, q20⟩ := hq
  simp only [step, emptyPc, pubPc] at hs
  split at hs
  · simp at hs
  split at hs
  · rename_i h x' hpc
    split at hs <;> simp at hs
    rename_i hx
    subst hx hs
    obtain ⟨hh, hlt, hxe⟩ := hQ.rGotNext_eq f h x hpc
    have huniq : ∀ g, (s.pc g).isRecv = true → g = f := fun g hg =>
      (recv_unique hQ (by simp [hpc, Pc.isRecv]) hg).symm
    have hdat : s.ndata x = qval s s.hd := by rw [hxe]; exact hQ.data s.hd (Nat.le_refl _) hlt
    have hold : h = 1 ∨ ∃ j, j + 1 < s.hd + 1 ∧ j < s.sent.length ∧ h = qval s j + 1 := by
      rw [hh, hQ.head]
      split
      · exact Or.inl rfl
      · rename_i hne
        exact Or.inr ⟨s.hd - 1, by omega, by omega, rfl⟩
    constructor
    case hd_le => simp only; omega
    case head => simp only [hxe]; simp [qval]
    case data => intro i h1 h2; exact hQ.data i (by simp only at h1; omega) h2
    case recvd_eq =>
      simp only
      rw [q10, hdat, List.take_succ]
      simp [qval, List.getElem?_map, List.getElem?_eq_getElem hlt]
    case rGotNext_eq =>
      intro g h' x' hg
      simp only [upd] at hg
      split at hg
      · simp at hg
      · have := huniq g (by simp [hg, Pc.isRecv]); contradiction
    case rMoved_eq =>
      intro g h' x' hg
      simp only [upd] at hg
      split at hg
      · simp at hg; obtain ⟨rfl, rfl⟩ := hg
        refine ⟨by simp, by simpa [qval] using hxe, by simpa [qval] using hdat, ?_⟩
        simpa [isOld, qval] using hold
      · have := huniq g (by simp [hg, Pc.isRecv]); contradiction
    case rGotData_old =>
      intro g h' d hg
      simp only [upd] at hg
      split at hg
      · simp at hg
      · have := huniq g (by simp [hg, Pc.isRecv]); contradiction
    case rWrote_old =>
      intro g h' d hg
      simp only [upd] at hg
      split at hg
      · simp at hg
      · have := huniq g (by simp [hg, Pc.isRecv]); contradiction
    case rGotHead_eq =>
      intro g h' hg
      simp only [upd] at hg
      split at hg
      · simp at hg
      · have := huniq g (by simp [hg, Pc.isRecv]); contradiction
    all_goals cq_close
  · simp at hs

set_option maxHeartbeats 4000000 in
theorem qinv_step_wData (s s' : St) (f n d : Nat) (hk : s.kind ≠ .bounded) (hq : QInv s)
    (hs : step s (.wData f n d) = some s') : QInv s' := by
  have hQ := hq
  obtain ⟨q1, q2, q3, q4, q5, q6, q7, q8, q9, q10, q11, q12, q13, q14, q15, q16, q17, q18, q19, q20⟩ := hq
  simp only [step, emptyPc, pubPc] at hs
  split at hs
  · simp at hs
  split at hs
  · -- the harness (sender) stores the value into its fresh node
    rename_i v hpc
    split at hs <;> simp at hs
    rename_i hc
    obtain ⟨hn, hd⟩ := hc
    subst hn hd hs
    obtain ⟨hvnz, hvu, hfresh⟩ := hQ.pend f d (by simp [hpc, Pc.pending])
    have hne : ∀ i, i < s.sent.length → qval s i + 1 ≠ d + 1 := by
      intro i hi he
      obtain ⟨p, hp, hpe⟩ := qval_mem s i hi
      exact hfresh p hp (by omega)
    have hpu : ∀ g v, g ≠ f → v ∈ (s.pc g).pending → v + 1 ≠ d + 1 := by
      intro g v hg hv he
      have : v = d := by omega
      subst this
      exact hg (hQ.pend_uniq g f v hv (by simp [hpc, Pc.pending]))
    constructor
    case data =>
      intro i h1 h2
      show upd s.ndata (d + 1) d (qval s i + 1) = qval s i
      rw [upd_other _ _ _ _ (hne i h2)]; exact hQ.data i h1 h2
    case rMoved_eq =>
      intro g h x hg
      simp only [upd] at hg
      split at hg
      · simp at hg
      · obtain ⟨a, b, c, e⟩ := hQ.rMoved_eq g h x hg
        refine ⟨a, by simpa [qval] using b, ?_, by simpa [isOld, qval] using e⟩
        show upd s.ndata (d + 1) d x = qval s (s.hd - 1)
        rw [upd_other _ _ _ _ (by rw [b]; exact hne (s.hd - 1) (by omega))]; exact c
    case qData_nd1 =>
      intro g v hg
      simp only [upd] at hg ⊢
      split at hg
      · simp at hg; subst hg; simp [upd]
      · rename_i hgf
        show upd s.ndata (d + 1) d (v + 1) = v
        rw [upd_other _ _ _ _ (hpu g v hgf (by simp [hg, Pc.pending]))]; exact hQ.qData_nd1 g v hg
    case qData_nd2 =>
      intro g v hg
      simp only [upd] at hg ⊢
      split at hg
      · simp at hg
      · rename_i hgf
        show upd s.ndata (d + 1) d (v + 1) = v
        rw [upd_other _ _ _ _ (hpu g v hgf (by simp [hg, Pc.pending]))]; exact hQ.qData_nd2 g v hg
    case qData_nd3 =>
      intro g v t hg
      simp only [upd] at hg ⊢
      split at hg
      · simp at hg
      · rename_i hgf
        show upd s.ndata (d + 1) d (v + 1) = v
        rw [upd_other _ _ _ _ (hpu g v hgf (by simp [hg, Pc.pending]))]; exact hQ.qData_nd3 g v t hg
    all_goals cq_close
  · -- the receiver copies the message into the node it returns (the old stub)
    rename_i h d' hpc
    split at hs <;> simp at hs
    rename_i hc
    obtain ⟨hn, hd⟩ := hc
    subst hn hd hs
    have hold := hQ.rGotData_old f n d hpc
    obtain ⟨hne1, hne2⟩ := isOld_ne hQ hold
    have huniq : ∀ g, (s.pc g).isRecv = true → g = f := fun g hg =>
      (recv_unique hQ (by simp [hpc, Pc.isRecv]) hg).symm
    constructor
    case data =>
      intro i h1 h2
      simp only at h1 h2
      show upd s.ndata n d (qval s i + 1) = qval s i
      rw [upd_other _ _ _ _ (hne1 i (by omega) h2)]; exact hQ.data i h1 h2
    case rMoved_eq =>
      intro g h x hg
      simp only [upd] at hg
      split at hg
      · simp at hg
      · have := huniq g (by simp [hg, Pc.isRecv]); contradiction
    case rGotData_old =>
      intro g h x hg
      simp only [upd] at hg
      split at hg
      · simp at hg
      · have := huniq g (by simp [hg, Pc.isRecv]); contradiction
    case rWrote_old =>
      intro g h x hg
      simp only [upd] at hg
      split at hg
      · simp at hg; obtain ⟨rfl, rfl⟩ := hg; simpa [isOld, qval] using hold
      · have := huniq g (by simp [hg, Pc.isRecv]); contradiction
    case qData_nd1 =>
      intro g v hg
      simp only [upd] at hg ⊢
      split at hg
      · simp at hg
      · show upd s.ndata n d (v + 1) = v
        rw [upd_other _ _ _ _ (hne2 g v (by simp [hg, Pc.pending]))]; exact hQ.qData_nd1 g v hg
    case qData_nd2 =>
      intro g v hg
      simp only [upd] at hg ⊢
      split at hg
      · simp at hg
      · show upd s.ndata n d (v + 1) = v
        rw [upd_other _ _ _ _ (hne2 g v (by simp [hg, Pc.pending]))]; exact hQ.qData_nd2 g v hg
    case qData_nd3 =>
      intro g v t hg
      simp only [upd] at hg ⊢
      split at hg
      · simp at hg
      · show upd s.ndata n d (v + 1) = v
        rw [upd_other _ _ _ _ (hne2 g v (by simp [hg, Pc.pending]))]; exact hQ.qData_nd3 g v t hg
    all_goals cq_close
  · simp at hs

def lval (l : List (Nat × Nat)) (i : Nat) : Nat := ((l[i]?).map Prod.snd).getD 0

theorem qval_eq_lval (s : St) (i : Nat) : qval s i = lval s.sent i := rfl

theorem lval_append_lt (l : List (Nat × Nat)) (p : Nat × Nat) (i : Nat) (h : i < l.length) :
    lval (l ++ [p]) i = lval l i := by
  simp [lval, List.getElem?_append_left h]

theorem lval_append_len (l : List (Nat × Nat)) (p : Nat × Nat) : lval (l ++ [p]) l.length = p.2 := by
  simp [lval]

/-- linearisation of a send on a queue kind: the node is swapped in at the tail -/
theorem qinv_push (s : St) (f v prev : Nat) (hq : QInv s) (hpend : (s.pc f).pending = [v])
    (hnd : s.ndata (v + 1) = v) :
    QInv { s with order := s.order ++ [v + 1], sent := s.sent ++ [(f, v)],
                  pc := upd s.pc f (.qSwapped v prev s.order.length) } := by
  have hQ := hq
  obtain ⟨hvnz, hvu, hfresh⟩ := hQ.pend f v (by simp [hpend])
  have hlt : ∀ i, i < s.sent.length → lval (s.sent ++ [(f, v)]) i = qval s i := fun i hi =>
    lval_append_lt _ _ i hi
  have hothers : ∀ g, g ≠ f → ∀ v', v' ∈ (s.pc g).pending → v' ≠ v := by
    intro g hg v' hv' e
    subst e
    exact hg (hQ.pend_uniq g f v' hv' (by simp [hpend]))
  constructor
  case ord => simp [hQ.ord]
  case vnz =>
    intro p hp
    simp only [List.mem_append, List.mem_singleton] at hp
    rcases hp with hp | hp
    · exact hQ.vnz p hp
    · subst hp; exact hvnz
  case vnodup =>
    simp only [List.map_append, List.map_cons, List.map_nil]
    refine List.nodup_append.2 ⟨hQ.vnodup, by simp, ?_⟩
    intro a ha b hb
    simp only [List.mem_singleton] at hb
    simp only [List.mem_map] at ha
    obtain ⟨p, hp, rfl⟩ := ha
    subst hb
    exact hfresh p hp
  case pend =>
    intro g v' hv'
    simp only [upd] at hv'
    split at hv'
    · simp [Pc.pending] at hv'
    · rename_i hgf
      obtain ⟨a, b, c⟩ := hQ.pend g v' hv'
      refine ⟨a, b, ?_⟩
      intro p hp
      simp only [List.mem_append, List.mem_singleton] at hp
      rcases hp with hp | hp
      · exact c p hp
      · subst hp; exact (hothers g hgf v' hv').symm
  case vused =>
    intro p hp
    simp only [List.mem_append, List.mem_singleton] at hp
    rcases hp with hp | hp
    · exact hQ.vused p hp
    · subst hp; exact hvu
  case pend_uniq =>
    intro g g' v' h1 h2
    simp only [upd] at h1 h2
    split at h1
    · simp [Pc.pending] at h1
    · split at h2
      · simp [Pc.pending] at h2
      · exact hQ.pend_uniq g g' v' h1 h2
  case hd_le => have := hQ.hd_le; simp only [List.length_append, List.length_singleton]; omega
  case head =>
    have := hQ.head
    simp only [this]
    split
    · rfl
    · rename_i hne
      show qval s (s.hd - 1) + 1 = lval (s.sent ++ [(f, v)]) (s.hd - 1) + 1
      rw [hlt (s.hd - 1) (by have := hQ.hd_le; omega)]
  case data =>
    intro i h1 h2
    simp only [List.length_append, List.length_singleton] at h1 h2
    show s.ndata (lval (s.sent ++ [(f, v)]) i + 1) = lval (s.sent ++ [(f, v)]) i
    by_cases hi : i < s.sent.length
    · rw [hlt i hi]; exact hQ.data i h1 hi
    · have : i = s.sent.length := by omega
      subst this
      rw [lval_append_len]; exact hnd
  case recvd_eq =>
    simp only [List.map_append]
    rw [List.take_append_of_le_length (by simpa using hQ.hd_le)]; exact hQ.recvd_eq
  case calls_eq =>
    intro g
    simp only [sentBy, List.filter_append, List.map_append, upd]
    by_cases hgf : g = f
    · subst hgf
      have := hQ.calls_eq g
      simp only [sentBy, hpend] at this
      simp [Pc.pending, List.filter, this]
    · have := hQ.calls_eq g
      simp only [sentBy] at this
      have hfg : ¬ f = g := fun e => hgf e.symm
      simp [hgf, hfg, List.filter, this]
  case recv_id =>
    intro g hg
    simp only [upd] at hg
    split at hg
    · simp [Pc.isRecv] at hg
    · exact hQ.recv_id g hg
  case qData_nd1 =>
    intro g v' hg; simp only [upd] at hg; split at hg
    · simp at hg
    · exact hQ.qData_nd1 g v' hg
  case qData_nd2 =>
    intro g v' hg; simp only [upd] at hg; split at hg
    · simp at hg
    · exact hQ.qData_nd2 g v' hg
  case qData_nd3 =>
    intro g v' t hg; simp only [upd] at hg; split at hg
    · simp at hg
    · exact hQ.qData_nd3 g v' t hg
  case rGotHead_eq =>
    intro g h hg; simp only [upd] at hg; split at hg
    · simp at hg
    · exact hQ.rGotHead_eq g h hg
  case rGotNext_eq =>
    intro g h x hg; simp only [upd] at hg; split at hg
    · simp at hg
    · obtain ⟨a, b, c⟩ := hQ.rGotNext_eq g h x hg
      refine ⟨a, by simp only [List.length_append, List.length_singleton]; omega, ?_⟩
      show x = lval (s.sent ++ [(f, v)]) s.hd + 1
      rw [hlt s.hd b]; exact c
  case rMoved_eq =>
    intro g h x hg; simp only [upd] at hg; split at hg
    · simp at hg
    · obtain ⟨a, b, c, d⟩ := hQ.rMoved_eq g h x hg
      have hl : s.hd - 1 < s.sent.length := by have := hQ.hd_le; omega
      refine ⟨a, ?_, ?_, ?_⟩
      · show x = lval (s.sent ++ [(f, v)]) (s.hd - 1) + 1
        rw [hlt _ hl]; exact b
      · show s.ndata x = lval (s.sent ++ [(f, v)]) (s.hd - 1)
        rw [hlt _ hl]; exact c
      · rcases d with d | ⟨j, j1, j2, j3⟩
        · exact Or.inl d
        · refine Or.inr ⟨j, j1, by simp only [List.length_append, List.length_singleton]; omega, ?_⟩
          show h = lval (s.sent ++ [(f, v)]) j + 1
          rw [hlt j j2]; exact j3
  case rGotData_old =>
    intro g h d hg; simp only [upd] at hg; split at hg
    · simp at hg
    · rcases hQ.rGotData_old g h d hg with d' | ⟨j, j1, j2, j3⟩
      · exact Or.inl d'
      · refine Or.inr ⟨j, j1, by simp only [List.length_append, List.length_singleton]; omega, ?_⟩
        show h = lval (s.sent ++ [(f, v)]) j + 1
        rw [hlt j j2]; exact j3
  case rWrote_old =>
    intro g h d hg; simp only [upd] at hg; split at hg
    · simp at hg
    · rcases hQ.rWrote_old g h d hg with d' | ⟨j, j1, j2, j3⟩
      · exact Or.inl d'
      · refine Or.inr ⟨j, j1, by simp only [List.length_append, List.length_singleton]; omega, ?_⟩
        show h = lval (s.sent ++ [(f, v)]) j + 1
        rw [hlt j j2]; exact j3

theorem qinv_step_xchgTail (s s' : St) (f o n : Nat) (hk : s.kind ≠ .bounded) (hq : QInv s)
    (hs : step s (.xchgTail f o n) = some s') : QInv s' := by
  simp only [step, emptyPc, pubPc] at hs
  split at hs
  · simp at hs
  split at hs
  · rename_i v hpc
    split at hs <;> simp at hs
    subst hs
    exact qinv_push s f v o hq (by simp [hpc, Pc.pending]) (hq.qData_nd2 f v hpc)
  · simp at hs

theorem qinv_step_stTail (s s' : St) (f n : Nat) (hk : s.kind ≠ .bounded) (hq : QInv s)
    (hs : step s (.stTail f n) = some s') : QInv s' := by
  simp only [step, emptyPc, pubPc] at hs
  split at hs
  · simp at hs
  split at hs
  · rename_i v t hpc
    split at hs <;> simp at hs
    subst hs
    exact qinv_push s f v t hq (by simp [hpc, Pc.pending]) (hq.qData_nd3 f v t hpc)
  · simp at hs

set_option maxHeartbeats 4000000 in
theorem qinv_pctrans (s : St) (p' : Signal.PSt) (f : Nat) (X : Pc) (hq : QInv s)
    (ht : PcTrans (s.pc f) X) : QInv { s with p := p', pc := upd s.pc f X } := by
  have hQ := hq
  obtain ⟨q1, q2, q3, q4, q5, q6, q7, q8, q9, q10, q11, q12, q13, q14, q15, q16, q17, q18, q19, q20⟩ := hq
  generalize hpc : s.pc f = a at ht
  cases ht <;> (constructor <;> cq_close)

theorem qinv_step_p (s s' : St) (pe : Signal.PEv) (hq : QInv s) (hs : step s (.p pe) = some s') : QInv s' := by
  rcases proto_shape s s' pe hs with ⟨p', rfl⟩ | ⟨p', X, rfl, ht⟩
  · obtain ⟨q1, q2, q3, q4, q5, q6, q7, q8, q9, q10, q11, q12, q13, q14, q15, q16, q17, q18, q19, q20⟩ := hq
    constructor <;> cq_close
  · exact qinv_pctrans s p' _ X hq ht

theorem qinv_step (s s' : St) (e : Ev) (hk : s.kind ≠ .bounded) (hq : QInv s) (hs : step s e = some s') :
    QInv s' := by
  cases e with
  | p pe => exact qinv_step_p s s' pe hq hs
  | callSend f v => exact qinv_step_callSend s s' f v hk hq hs
  | woke f r => exact qinv_step_woke s s' f r hk hq hs
  | retSend f => exact qinv_step_retSend s s' f hk hq hs
  | callRecv f => exact qinv_step_callRecv s s' f hk hq hs
  | callTry f => exact qinv_step_callTry s s' f hk hq hs
  | retRecv f v => exact qinv_step_retRecv s s' f v hk hq hs
  | ldLow f l => exact qinv_step_ldLow s s' f l hk hq hs
  | ldHigh f h => exact qinv_step_ldHigh s s' f h hk hq hs
  | rBuf f i x => exact qinv_step_rBuf s s' f i x hk hq hs
  | casHigh f a b c ok => exact qinv_step_casHigh s s' f a b c ok hk hq hs
  | wBuf f i x => exact qinv_step_wBuf s s' f i x hk hq hs
  | stLow f l => exact qinv_step_stLow s s' f l hk hq hs
  | wNext f n x => exact qinv_step_wNext s s' f n x hk hq hs
  | xchgTail f o n => exact qinv_step_xchgTail s s' f o n hk hq hs
  | ldTail f t => exact qinv_step_ldTail s s' f t hk hq hs
  | stTail f n => exact qinv_step_stTail s s' f n hk hq hs
  | rHead f h => exact qinv_step_rHead s s' f h hk hq hs
  | wHead f x => exact qinv_step_wHead s s' f x hk hq hs
  | rNext f n x => exact qinv_step_rNext s s' f n x hk hq hs
  | rData f n d => exact qinv_step_rData s s' f n d hk hq hs
  | wData f n d => exact qinv_step_wData s s' f n d hk hq hs

/-- the kind, capacity and creation mode of a channel never change -/
theorem kind_step (s s' : St) (e : Ev) (hs : step s e = some s') : s'.kind = s.kind ∧ s'.cap = s.cap := by
  cases e with
  | p pe =>
    rcases proto_shape s s' pe hs with ⟨p', rfl⟩ | ⟨p', X, rfl, _⟩ <;> exact ⟨rfl, rfl⟩
  | _ =>
    simp only [step] at hs
    all_goals (repeat' (split at hs))
    all_goals (try simp at hs)
    all_goals (try contradiction)
    all_goals (first | (subst hs; exact ⟨rfl, rfl⟩) | (obtain ⟨_, hs⟩ := hs; subst hs; exact ⟨rfl, rfl⟩))

theorem spin_step (s s' : St) (e : Ev) (hs : step s e = some s') : s'.spin = s.spin := by
  cases e with
  | p pe =>
    rcases proto_shape s s' pe hs with ⟨p', rfl⟩ | ⟨p', X, rfl, _⟩ <;> rfl
  | _ =>
    simp only [step] at hs
    all_goals (repeat' (split at hs))
    all_goals (try simp at hs)
    all_goals (try contradiction)
    all_goals (first | (subst hs; rfl) | (obtain ⟨_, hs⟩ := hs; subst hs; rfl))

theorem kind_of_run {spin : Bool} {k : Kind} {cap : Nat} {es : List Ev} {s : St}
    (h : (sysM spin k cap).run es = some s) : s.kind = k ∧ s.cap = cap :=
  Sys.inv_of_run (sysM spin k cap) (fun s => s.kind = k ∧ s.cap = cap) ⟨rfl, rfl⟩
    (fun s e s' hi hs => by
      obtain ⟨a, b⟩ := kind_step s s' e hs
      exact ⟨a.trans hi.1, b.trans hi.2⟩) h

theorem spin_of_run {spin : Bool} {k : Kind} {cap : Nat} {es : List Ev} {s : St}
    (h : (sysM spin k cap).run es = some s) : s.spin = spin :=
  Sys.inv_of_run (sysM spin k cap) (fun s => s.spin = spin) rfl
    (fun s e s' hi hs => (spin_step s s' e hs).trans hi) h

theorem qinv_of_run {spin : Bool} {k : Kind} {cap : Nat} (hk : k ≠ .bounded) {es : List Ev} {s : St}
    (h : (sysM spin k cap).run es = some s) : QInv s := by
  have : s.kind = k ∧ QInv s :=
    Sys.inv_of_run (sysM spin k cap) (fun s => s.kind = k ∧ QInv s) ⟨rfl, qinv_initM spin k cap⟩
      (fun s e s' hi hs => ⟨(kind_step s s' e hs).1.trans hi.1,
        qinv_step s s' e (by rw [hi.1]; exact hk) hi.2 hs⟩) h
  exact this.2

end LibfiberVerif.Chan
