/-
  Proof/Signal.lean — invariants of the token harness (`Signal.step`) on top of the
  fiber_signal_t protocol: a raise is seen or remembered, never lost.  Property C11.
-/
import LibfiberVerif.Proof.SignalProto

namespace LibfiberVerif.Signal

/-! ### the token harness: a raise is seen or remembered -/

/-- g has published a token and not yet exchanged RAISED into the word -/
def inFlight (s : St) (g : Nat) : Prop :=
  s.tk g = .published ∨ (s.tk g = .raising true ∧ s.p.pc g = .raiseCalled)

/-- w found no token and is on its way to the CAS that would put it to sleep -/
def committed (s : St) (w : Nat) : Prop :=
  s.tk w = .takeSaw 0 ∨ s.p.pc w = .waitCalled ∨ s.p.pc w = .wCleared

/-- w is in the word / parked and nobody has woken it yet -/
def asleep (s : St) (w : Nat) : Prop :=
  (s.p.pc w).sleepy ∧ s.p.wakes w + 1 = s.p.parks w

structure TInv (s : St) : Prop where
  pinv : PInv s.p
  fl_nodup : s.fl.Nodup
  fl_inflight : ∀ g, g ∈ s.fl → inFlight s g
  idle_link : ∀ f, s.tk f ≠ .takeWaiting → (∀ b, s.tk f ≠ .raising b) → s.p.pc f = .idle
  raising_link : ∀ f b, s.tk f = .raising b → ¬ (s.p.pc f).inWait
  taker_id : ∀ f, (s.tk f = .takeLoop ∨ (∃ v, s.tk f = .takeSaw v) ∨ s.tk f = .takeWaiting ∨ s.tk f = .takeDone) →
    s.p.waiterId = some f
  cov_pre : 0 < s.tokens → s.fl = [] → ∀ w, s.p.waiterId = some w → committed s w → s.p.word = .raised
  cov_asleep : 0 < s.tokens → s.fl = [] → ∀ w, asleep s w → ∃ g, s.p.waker w = some g

theorem tinv_init : TInv init := by
  constructor
  · exact pinv_init
  all_goals simp [init, pinit, inFlight, committed, asleep, PPc.sleepy, PPc.inWait]

theorem pinv_set_waiter (p : PSt) (f : Nat) (hi : PInv p) (h : p.waiterId = none ∨ p.waiterId = some f) :
    PInv { p with waiterId := some f } := by
  obtain ⟨h1, h2, h3, h4, h5, h6, h7, h8, h9, h10, h11, h12⟩ := hi
  constructor <;> (intros; simp only [PPc.sleepy, PPc.targets, PPc.inWait] at *; grind)

theorem pinv_of_step (s s' : St) (e : Ev) (hi : PInv s.p) (hs : step s e = some s') : PInv s'.p := by
  cases e with
  | p pe =>
    cases pe <;> simp only [step] at hs
    all_goals (try split at hs) <;> (try simp at hs)
    all_goals first
      | (obtain ⟨p', hp, rfl⟩ := hs; exact pinv_step _ _ _ hi hp)
      | (obtain ⟨_, p', hp, rfl⟩ := hs; exact pinv_step _ _ _ hi hp)
  | callTake f =>
    simp only [step] at hs
    split at hs <;> simp at hs
    subst hs
    rename_i hc
    exact pinv_set_waiter _ _ hi hc.2
  | _ =>
    simp only [step] at hs
    split at hs <;> simp at hs
    all_goals first
      | (subst hs; exact hi)
      | (obtain ⟨_, rfl⟩ := hs; exact hi)

local macro "tok_close" : tactic =>
  `(tactic| (intros; (try simp only [upd, inFlight, committed, asleep, PPc.sleepy, PPc.targets, PPc.inWait] at *); first | done | grind))

set_option maxHeartbeats 4000000 in
theorem tinv_step (s s' : St) (e : Ev) (hi : TInv s) (hs : step s e = some s') : TInv s' := by
  have hp' := pinv_of_step s s' e hi.pinv hs
  obtain ⟨hp, h2, h3, h4, h5, h6, h7, h8⟩ := hi
  obtain ⟨p1, p2, p3, p4, p5, p6, p7, p8, p9, p10, p11, p12⟩ := hp
  cases e with
  | p pe =>
    cases pe <;> simp only [step, pstep] at hs
    all_goals (repeat' (split at hs))
    all_goals (try simp at hs)
    all_goals (subst hs; refine ⟨hp', ?_, ?_, ?_, ?_, ?_, ?_, ?_⟩ <;> tok_close)
  | _ =>
    simp only [step] at hs
    all_goals (repeat' (split at hs))
    all_goals (try simp at hs)
    all_goals (subst hs; refine ⟨hp', ?_, ?_, ?_, ?_, ?_, ?_, ?_⟩ <;> tok_close)

theorem tinv_of_run {es : List Ev} {s : St} (h : sys.run es = some s) : TInv s :=
  Sys.inv_of_run sys TInv tinv_init (fun s e s' hi hs => tinv_step s s' e hi hs) h

/-- a published token that has not been taken is announced, remembered, or being acted upon -/
theorem covered_of_inv {s : St} (hi : TInv s) (w : Nat) (hw : s.p.waiterId = some w)
    (ht : 0 < s.tokens) :
    (committed s w → s.p.word = .raised ∨ ∃ g, inFlight s g) ∧
    (asleep s w → ∃ g, inFlight s g ∨ (s.p.pc g).targets w) := by
  obtain ⟨hp, h2, h3, h4, h5, h6, h7, h8⟩ := hi
  by_cases hfl : s.fl = []
  · refine ⟨fun hc => Or.inl (h7 ht hfl w hw hc), fun ha => ?_⟩
    obtain ⟨g, hg⟩ := h8 ht hfl w ha
    exact ⟨g, Or.inr (hp.waker_target w g hg)⟩
  · obtain ⟨g, hg⟩ := List.exists_mem_of_ne_nil _ hfl
    exact ⟨fun _ => Or.inr ⟨g, h3 g hg⟩, fun _ => ⟨g, Or.inl (h3 g hg)⟩⟩

/-- with every other fiber outside any operation, the waiter cannot be asleep while a token
    is there, and if it has decided to sleep the word is RAISED (its CAS will fail) -/
theorem not_lost_of_inv {s : St} (hi : TInv s) (w : Nat) (hw : s.p.waiterId = some w)
    (ht : 0 < s.tokens) (hq : ∀ g, g ≠ w → s.tk g = .idle) :
    ¬ asleep s w ∧ (committed s w → s.p.word = .raised) := by
  have hc := covered_of_inv hi w hw ht
  obtain ⟨hp, h2, h3, h4, h5, h6, h7, h8⟩ := hi
  have noflight : ∀ g, inFlight s g → g = w := by
    intro g hg
    by_cases hgw : g = w
    · exact hgw
    · have := hq g hgw
      simp [inFlight, this] at hg
  have hwait : ∀ p : PPc, p.sleepy ∨ p = .waitCalled ∨ p = .wCleared → p.inWait ∧ p ≠ .idle := by
    intro p hp
    simp only [PPc.sleepy, PPc.inWait] at *
    rcases hp with (h | h | h) | h | h <;> subst h <;> simp
  -- whenever w is inside the wait, it is not a publisher in flight
  have wnot : (s.p.pc w).inWait → s.p.pc w ≠ .idle → ¬ inFlight s w := by
    intro hin hne hf
    simp only [inFlight] at hf
    rcases hf with hf | ⟨hf, hpc⟩
    · have := h4 w (by simp [hf]) (by simp [hf]); exact hne this
    · exact h5 w true hf hin
  constructor
  · intro ha
    obtain ⟨g, hg⟩ := hc.2 ha
    have hsl := hwait _ (Or.inl ha.1)
    rcases hg with hg | hg
    · have := noflight g hg; subst this; exact wnot hsl.1 hsl.2 hg
    · by_cases hgw : g = w
      · subst hgw
        simp only [PPc.targets, asleep, PPc.sleepy] at hg ha
        rcases ha.1 with h | h | h <;> simp [h] at hg
      · have hidle := h4 g (by simp [hq g hgw]) (by simp [hq g hgw])
        simp [PPc.targets, hidle] at hg
  · intro hcm
    rcases hc.1 hcm with h | ⟨g, hg⟩
    · exact h
    · have := noflight g hg; subst this
      simp only [committed] at hcm
      rcases hcm with h | h | h
      · simp [inFlight, h] at hg
      · exact absurd hg (wnot (by simp [PPc.inWait, h]) (by simp [h]))
      · exact absurd hg (wnot (by simp [PPc.inWait, h]) (by simp [h]))

/-- each sleep is woken at most once, by one raiser -/
theorem single_wake_of_inv {s : PSt} (hp : PInv s) (f : Nat) :
    s.wakes f ≤ s.parks f ∧ s.parks f ≤ s.wakes f + 1 ∧
    (∀ g g', (s.pc g).targets f → (s.pc g').targets f → g = g') := by
  refine ⟨?_, ?_, ?_⟩
  · rcases hp.counts f with h | h <;> omega
  · rcases hp.counts f with h | h <;> omega
  · intro g g' hg hg'
    have a := hp.target_waker f g hg
    have b := hp.target_waker f g' hg'
    rw [a] at b; exact Option.some.inj b

/-- the wake-up itself happens after the sleeper's hand-shake marker, and it was owed -/
theorem wake_after_marker_of_inv {s s' : PSt} (hp : PInv s) (g f : Nat)
    (hs : pstep s (.wStateReady g f) = some s') :
    s.pc f = .parked ∧ s.scratch f = true ∧ s.wakes f + 1 = s.parks f ∧ s'.wakes f = s'.parks f := by
  simp only [pstep] at hs
  split at hs <;> simp at hs
  rename_i g' hpc
  obtain ⟨hg, hs⟩ := hs
  subst hg hs
  have hpk := hp.ready_parked g f hpc
  have hw := hp.target_waker f g (by simp [PPc.targets, hpc])
  have := hp.waker_sleepy f g hw
  refine ⟨hpk, (hp.marker f).2 hpk, this.2.1, ?_⟩
  simp [upd]; omega

end LibfiberVerif.Signal
