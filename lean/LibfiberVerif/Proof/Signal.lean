/-
  Proof/Signal.lean — invariants of the token harness (`Signal.step`) on top of the
  fiber_signal_t protocol: a raise is seen or remembered, never lost.  Property C11.
-/
import LibfiberVerif.Proof.SignalProto

namespace LibfiberVerif.Signal

/-! ### the token harness: a raise is seen or remembered -/

/-- g has published a token and not yet exchanged RAISED into the word -/
def inFlight (s : St) (g : Nat) : Prop :=
  s.tk g = .published ∨ (s.tk g = .raising true ∧ s.p.pc g = .raiseCalled)

/-- w found no token and is on its way to the CAS that would put it to sleep -/
def committed (s : St) (w : Nat) : Prop :=
  s.tk w = .takeSaw 0 ∨ s.p.pc w = .waitCalled ∨ s.p.pc w = .wCleared

/-- w is in the word / parked and nobody has woken it yet -/
def asleep (s : St) (w : Nat) : Prop :=
  (s.p.pc w).sleepy ∧ s.p.wakes w + 1 = s.p.parks w

structure TInv (s : St) : Prop where
  pinv : PInv s.p
  fl_nodup : s.fl.Nodup
  fl_inflight : ∀ g, g ∈ s.fl → inFlight s g
  idle_link : ∀ f, s.tk f ≠ .takeWaiting → (∀ b, s.tk f ≠ .raising b) → s.p.pc f = .idle
  raising_link : ∀ f b, s.tk f = .raising b → ¬ (s.p.pc f).inWait
  taker_id : ∀ f v, s.tk f = .takeSaw v → s.p.waiterId = some f
  cov_pre : 0 < s.tokens → s.fl = [] → ∀ w, s.p.waiterId = some w → committed s w → s.p.word = .raised
  cov_asleep : 0 < s.tokens → s.fl = [] → ∀ w, asleep s w → ∃ g, s.p.waker w = some g

theorem tinv_init : TInv init := by
  constructor
  · exact pinv_init
  all_goals simp [init, pinit, inFlight, committed, asleep, PPc.sleepy, PPc.inWait]

theorem pinv_set_waiter (p : PSt) (f : Nat) (hi : PInv p) (h : p.waiterId = none ∨ p.waiterId = some f) :
    PInv { p with waiterId := some f } := by
  obtain ⟨h1, h2, h3, h4, h5, h6, h7, h8, h9, h10, h11, h12⟩ := hi
  constructor <;> (intros; simp only [PPc.sleepy, PPc.targets, PPc.inWait] at *; grind)

theorem pinv_of_step (s s' : St) (e : Ev) (hi : PInv s.p) (hs : step s e = some s') : PInv s'.p := by
  cases e with
  | p pe =>
    cases pe <;> simp only [step] at hs
    all_goals (try split at hs) <;> (try simp at hs)
    all_goals first
      | (obtain ⟨p', hp, rfl⟩ := hs; exact pinv_step _ _ _ hi hp)
      | (obtain ⟨_, p', hp, rfl⟩ := hs; exact pinv_step _ _ _ hi hp)
  | callTake f =>
    simp only [step] at hs
    split at hs <;> simp at hs
    subst hs
    rename_i hc
    exact pinv_set_waiter _ _ hi hc.2
  | _ =>
    simp only [step] at hs
    split at hs <;> simp at hs
    all_goals first
      | (subst hs; exact hi)
      | (obtain ⟨_, rfl⟩ := hs; exact hi)

end LibfiberVerif.Signal
