/-
  Proof/MultiChan.lean — the invariant of the multi channel model along every run and the
  lemmas behind `MultiChan.no_lost_wake_partial` (Props/C11.lean).
-/
import LibfiberVerif.Proof.MultiChanS1
import LibfiberVerif.Proof.MultiChanS2
import LibfiberVerif.Proof.MultiChanS3
import LibfiberVerif.Proof.MultiChanS4
import LibfiberVerif.Proof.MultiChanS5

namespace LibfiberVerif.MultiChan

/-- the list discipline and the capacity never change -/
theorem two_step (s s' : St) (e : Ev) (hs : step s e = some s') : s'.two = s.two ∧ s'.cap = s.cap := by
  cases e <;> simp only [step] at hs
  all_goals (repeat' (split at hs))
  all_goals (try simp at hs)
  all_goals (try contradiction)
  all_goals (first | (subst hs; exact ⟨rfl, rfl⟩) | (obtain ⟨_, hs⟩ := hs; subst hs; exact ⟨rfl, rfl⟩))

theorem inv_step (s s' : St) (e : Ev) (htwo : s.two = false) (hi : Inv s) (hs : step s e = some s') : Inv s' := by
  cases e with
  | callSend f v => exact inv_step_callSend s s' f v htwo hi hs
  | retSend f => exact inv_step_retSend s s' f htwo hi hs
  | callRecv f => exact inv_step_callRecv s s' f htwo hi hs
  | retRecv f v => exact inv_step_retRecv s s' f v htwo hi hs
  | fsub f old => exact inv_step_fsub s s' f old htwo hi hs
  | fadd f old => exact inv_step_fadd s s' f old htwo hi hs
  | handoff f g => exact inv_step_handoff s s' f g htwo hi hs
  | rHigh f h => exact inv_step_rHigh s s' f h htwo hi hs
  | rLow f l => exact inv_step_rLow s s' f l htwo hi hs
  | wHigh f h => exact inv_step_wHigh s s' f h htwo hi hs
  | wLow f l => exact inv_step_wLow s s' f l htwo hi hs
  | rBuf f i x => exact inv_step_rBuf s s' f i x htwo hi hs
  | wBuf f i x => exact inv_step_wBuf s s' f i x htwo hi hs
  | rWaiters f w => exact inv_step_rWaiters s s' f w htwo hi hs
  | wWaiters f w => exact inv_step_wWaiters s s' f w htwo hi hs
  | rScratch f g x => exact inv_step_rScratch s s' f g x htwo hi hs
  | wScratch f g x => exact inv_step_wScratch s s' f g x htwo hi hs
  | wStateWaiting f => exact inv_step_wStateWaiting s s' f htwo hi hs
  | wStateReady f g => exact inv_step_wStateReady s s' f g htwo hi hs
  | rSWaiters f w => exact inv_step_rSWaiters s s' f w htwo hi hs
  | wSWaiters f w => exact inv_step_wSWaiters s s' f w htwo hi hs

theorem inv_of_run {cap : Nat} {es : List Ev} {s : St} (h : (sys false cap).run es = some s) : Inv s := by
  have : s.two = false ∧ Inv s :=
    Sys.inv_of_run (sys false cap) (fun s => s.two = false ∧ Inv s) ⟨rfl, inv_init cap⟩
      (fun s e s' hi hs => ⟨(two_step s s' e hs).1.trans hi.1, inv_step s s' e hi.1 hi.2 hs⟩) h
  exact this.2

/-! ### no lost wake-up while the waiter list is homogeneous -/

theorem quiescent_iff (s : St) : quiescent s = true ↔
    (∀ f, f ∈ s.fibers → s.pc f = .idle ∨ sleeping s f = true) ∧ s.lock = none ∧ s.handoffBy = none := by
  simp only [quiescent, Bool.and_eq_true, List.all_eq_true, Bool.or_eq_true, decide_eq_true_eq,
    Option.isNone_iff_eq_none]
  constructor
  · rintro ⟨⟨h1, h2⟩, h3⟩; exact ⟨h1, h2, h3⟩
  · rintro ⟨h1, h2, h3⟩; exact ⟨⟨h1, h2⟩, h3⟩

theorem sleeping_iff (s : St) (f : Nat) : sleeping s f = true ↔ (∃ o, s.pc f = .wAsleep o) ∧ s.woken f = false := by
  simp only [sleeping, Bool.and_eq_true, Bool.not_eq_true']
  constructor
  · rintro ⟨h1, h2⟩
    refine ⟨?_, h2⟩
    cases hp : s.pc f <;> simp [hp, Pc.asleepOp] at h1
    exact ⟨_, rfl⟩
  · rintro ⟨⟨o, h1⟩, h2⟩
    exact ⟨by simp [h1, Pc.asleepOp], h2⟩

/-- In a quiescent state no witness of activity exists. -/
theorem no_witness_of_quiescent {s : St} (hi : Inv s) (hq : quiescent s = true) (g : Nat) :
    (s.pc g).witR (s.woken g) = false ∧ (s.pc g).witS (s.woken g) = false := by
  obtain ⟨hall, _, _⟩ := (quiescent_iff s).1 hq
  by_cases hidle : s.pc g = .idle
  · simp [hidle, Pc.witR, Pc.witS]
  · have hg := hi.fibers_all g hidle
    rcases hall g hg with h | h
    · exact absurd h hidle
    · obtain ⟨⟨o, ho⟩, hw⟩ := (sleeping_iff s g).1 h
      simp [ho, hw, Pc.witR, Pc.witS]

/-- `no_lost_wake` under the hypothesis that only senders or only receivers ever blocked. -/
theorem not_stranded_of_homogeneous {s : St} (hi : Inv s) (hq : quiescent s = true)
    (hh : (s.everS && s.everR) = false) (f : Nat) : stranded s f = false := by
  cases hst : stranded s f with
  | false => rfl
  | true =>
    exfalso
    simp only [stranded, Bool.and_eq_true] at hst
    obtain ⟨hsl, hcan⟩ := hst
    obtain ⟨⟨o, ho⟩, hw⟩ := (sleeping_iff s f).1 hsl
    obtain ⟨_, hlock, _⟩ := (quiescent_iff s).1 hq
    have hmem : f ∈ s.wl := by
      rcases hi.asleep_wl f o ho hw with h | h
      · exact h
      · obtain ⟨⟨g, hg, _⟩, _⟩ := hi.waking_lock f h
        rw [hlock] at hg; simp at hg
    have hne : s.wl ≠ [] := by intro e; rw [e] at hmem; simp at hmem
    cases o with
    | recv =>
      simp only [ho, Pc.asleepOp, empty, Bool.not_eq_true', decide_eq_false_iff_not, Nat.not_le] at hcan
      have hR := hi.ever_recv2 f ho
      have hS : s.everS = false := by simpa [hR] using hh
      obtain ⟨g, hg⟩ := hi.actR hS hne hcan
      rw [(no_witness_of_quiescent hi hq g).1] at hg; simp at hg
    | send v =>
      simp only [ho, Pc.asleepOp, full, Bool.not_eq_true', decide_eq_false_iff_not, Nat.not_le, ge_iff_le] at hcan
      have hS := hi.ever_send2 f v ho
      have hR : s.everR = false := by simpa [hS] using hh
      obtain ⟨g, hg⟩ := hi.actS hR hne hcan
      rw [(no_witness_of_quiescent hi hq g).2] at hg; simp at hg

end LibfiberVerif.MultiChan
